package main

// C05, failed-operation stream: the provenance of a value — unset / input-derived text / number / string — that the
// comparisons and truth tests look at is what the last SUCCESSFUL store left. An operation that fails, finds nothing, or
// does not happen must leave its target exactly as it was:
//
//   - getline into a variable / function local / array element / field / $0 / special variable, from a file that does not
//     exist (-1), from a directory (-1), from an empty file (0), from a file already read to its end (0), from a file
//     with the empty name (-1); `cmd | getline t` from a command without output, from a command that is not found, from
//     a shell that cannot be started, from a command already read to its end; plain `getline t` when the input is
//     exhausted (0), when the next ARGV file cannot be opened (-1) or is a directory (-1), when the next ARGV element is
//     an assignment the interpreter rejects (-1), when the reader fails (-1);
//   - split() of an empty string into an array that had elements (they become unset again), split() into another array;
//   - sub()/gsub() with zero matches, match() failing, for-in over an empty array, assignments behind a short-circuit /
//     untaken branch, read-only uses (length, +0, "", -, !, comparisons, index, substr, subscripts, by-value parameters),
//     a successful getline into ANOTHER variable, copies (t = t; tmp = t; t = 5; t = tmp), delete.
//
// Positive controls keep the stream honest: the same operations when they DO succeed (status 1 / a match / a key / a
// piece) must leave the documented provenance (getline, split: input-derived text; sub with a match, for-in key: string;
// delete, split of nothing: unset).
//
// A case = (target, what the target held before: unset | input-derived text | number | string, with a text from a pool
// where numeric and string order differ, operation, context: BEGIN / first record / END, inline or inside a function,
// probe before or not). Oracle (real code alone):
//   1. the probe line after the operation equals the reference evaluation (refCompare / truth / prefix value / text of
//      parts C and E) of the value the target must hold;
//   2. metamorphic: when the target is also probed BEFORE the operation, an operation that stores nothing leaves the two
//      probe lines identical (for special variables, whose value the generator does not predict, this is the only oracle).
// The status the operation returned is printed and compared with the status the generator intended; a different status
// is not this property's business: such a case is counted under failop:status-unexpected and not judged.

import (
	"errors"
	"fmt"
	"os"
	"path/filepath"
	"strconv"
	"strings"

	"github.com/benhoyt/goawk/interp"

	"verifharness/vh"
)

const awkFailQ = `
function Q(v) { return (v<9) (v==10) (v<"9") (v==5) (v<10) (v>=1e1) (v!=+5) (v ? 1 : 0) (v==0) (v=="") (!v) (v==f1) (v<f2) (v<f3) (v>f1) (v==0 && v=="") "|" sprintf("%.17g", v+0) "|" (v "") }
function G(p) { p = "zz"; return 3 }
`

// refQ is the reference for AWK function Q (f1, f2, f3 are the Vars "10", "9", "abc": input-derived text).
func refQ(v rv) string {
	n9, n10, n5, n0 := rv{kind: 'n', n: 9}, rv{kind: 'n', n: 10}, rv{kind: 'n', n: 5}, rv{kind: 'n', n: 0}
	s9, sE := rv{kind: 's', s: "9"}, rv{kind: 's', s: ""}
	f1, f2, f3 := rv{kind: 'f', s: "10"}, rv{kind: 'f', s: "9"}, rv{kind: 'f', s: "abc"}
	b := func(x bool) byte {
		if x {
			return '1'
		}
		return '0'
	}
	t := v.truth()
	isZero, isEmpty := refCompare(v, n0)[0], refCompare(v, sE)[0]
	bits := []byte{refCompare(v, n9)[2], refCompare(v, n10)[0], refCompare(v, s9)[2], refCompare(v, n5)[0], refCompare(v, n10)[2],
		refCompare(v, n10)[5], refCompare(v, n5)[1], b(t), isZero, isEmpty, b(!t),
		refCompare(v, f1)[0], refCompare(v, f2)[2], refCompare(v, f3)[2], refCompare(v, f1)[4], b(isZero == '1' && isEmpty == '1')}
	return string(bits) + "|" + normFloatText(fmt.Sprintf("%.17g", v.num()+0)) + "|" + v.str()
}

// normQ normalises the numeric column of a probe line (sign of NaN / of zero is not part of "the same number").
func normQ(line string) (string, bool) {
	p := strings.SplitN(line, "|", 3)
	if len(p) != 3 {
		return line, false
	}
	return p[0] + "|" + normFloatText(p[1]) + "|" + p[2], true
}

var foTexts = []string{"10", " 10 ", "9", "1e1", "+5", "5", "010", "0x10", "abc", "10x", "", " ", "0", "0.0", "-0", ".5", "100", "-1", "x", "nan", "inf",
	"1e999", "0x", "+nan", "9.0", "A b", "10 ", "\t9", "1e", "00", "8", "11", "+10", "-inf", "0x1p3", "9e0"}

type foTarget struct {
	class string // global | local | global-elem | local-elem | field | record | special
	lv    string
	arr   string // array name for element targets
	key1  bool   // element targets: the subscript is "1"
}

var foSpecials = []string{"NR", "FNR", "NF", "RSTART", "RLENGTH", "SUBSEP", "OFS", "ORS", "CONVFMT", "OFMT", "FS", "RS", "FILENAME"}

type foCase struct {
	Target   string   `json:"target"`
	Prior    string   `json:"target_held_before"`
	Op       string   `json:"operation_class"`
	OpCode   string   `json:"operation"`
	Context  string   `json:"context"`
	Program  string   `json:"program"`
	Stdin    string   `json:"stdin_hex"`
	StdinErr bool     `json:"stdin_fails_after_these_bytes,omitempty"`
	Args     []string `json:"args,omitempty"`
	Vars     []string `json:"vars"`
	Shell    []string `json:"shell_command,omitempty"`
	Fixtures string   `json:"fixtures"`

	opTmpl   string
	want     string // intended status ("" = not compared)
	effect   byte   // '=' stores nothing, 'f' input-derived text, 's' string, 'u' unset
	newText  string
	prior    rv
	known    bool // prior is predicted by the generator
	before   bool
	allowErr bool
	tclass   string
	res      vh.RunResult
}

type failReader struct{ data []byte }

func (r *failReader) Read(p []byte) (int, error) {
	if len(r.data) > 0 {
		n := copy(p, r.data)
		r.data = r.data[n:]
		return n, nil
	}
	return 0, errors.New("injected read error")
}

type foFixtures struct {
	dir, missing, sub, empty, noshell string
	text                              map[string]string // text → file holding it as its only line
}

func (f foFixtures) describe() string {
	return "paths under " + f.dir + ": `missing` and `noshell` do not exist, `d` is a directory, `empty` is an empty file, `t<k>` holds foTexts[k] and a newline"
}

func awkStr(s string) string {
	var b strings.Builder
	b.WriteByte('"')
	for i := 0; i < len(s); i++ {
		ch := s[i]
		switch {
		case ch == '"' || ch == '\\':
			b.WriteByte('\\')
			b.WriteByte(ch)
		case ch < 32 || ch > 126:
			fmt.Fprintf(&b, "\\%03o", ch)
		default:
			b.WriteByte(ch)
		}
	}
	b.WriteByte('"')
	return b.String()
}

func isPlainDecimal(s string) bool {
	if s == "" || len(s) > 6 {
		return false
	}
	for i := 0; i < len(s); i++ {
		if s[i] < '0' || s[i] > '9' {
			return false
		}
	}
	return s[0] != '0' || len(s) == 1
}

// foOpSpec is one operation template; %T = the target, %A = the target's array
type foOpSpec struct {
	class   string
	code    []string // alternatives
	want    string
	effect  byte
	targets string // which target classes: v = global/local variable, e = array element, f = field/record, s = special
	ctx     string // allowed contexts: B(EGIN) A(ction) E(ND)
	mode    string // input arrangement: "" | plain-eof | plain-ok | argv-missing | argv-missing-begin | argv-dir | read-error | bad-shell
}

var foOps = []foOpSpec{
	// getline from a file
	{"getline<missing", []string{`st = (getline %T < MISSING)`, `mf = MISSING; st = (getline %T < mf)`}, "-1", '=', "vefs", "BAE", ""},
	{"getline<directory", []string{`st = (getline %T < DIR)`}, "-1", '=', "vefs", "BAE", ""},
	{"getline<empty-name", []string{`st = (getline %T < "")`, `st = (getline %T < unsetname)`}, "-1", '=', "vefs", "BAE", ""},
	{"getline<empty-file", []string{`st = (getline %T < EMPTY)`}, "0", '=', "vefs", "BAE", ""},
	{"getline<file-at-end", []string{`getline junk < TFILE; st = (getline %T < TFILE)`, `while ((getline junk < TFILE) > 0) tmp++; st = (getline %T < TFILE)`}, "0", '=', "vefs", "BAE", ""},
	{"getline<file-ok", []string{`st = (getline %T < TFILE)`}, "1", 'f', "ve", "BAE", ""},
	{"getline-into-another", []string{`st = (getline junk < TFILE)`, `st = (getline R2[1] < TFILE)`}, "1", '=', "vefs", "BAE", ""},
	// getline from a command (BEGIN / END only: a running command shares the interpreter's standard input)
	{"cmd-without-output", []string{`st = ("exit 0" | getline %T)`, `st = ("exit 3" | getline %T)`}, "0", '=', "vefs", "BE", ""},
	{"cmd-not-found", []string{`st = ("/nonexistent/c05-cmd 2>/dev/null" | getline %T)`}, "0", '=', "vefs", "BE", ""},
	{"cmd-shell-cannot-start", []string{`st = ("echo 10" | getline %T)`}, "0", '=', "vefs", "BE", "bad-shell"},
	{"cmd-at-end", []string{`CMD | getline junk; st = (CMD | getline %T)`}, "0", '=', "vefs", "BE", ""},
	{"cmd-ok", []string{`st = (CMD | getline %T)`}, "1", 'f', "ve", "BE", ""},
	// plain getline
	{"plain-getline-exhausted", []string{`st = (getline %T)`}, "0", '=', "vefs", "AE", "plain-eof"},
	{"plain-getline-ok", []string{`st = (getline %T)`}, "1", 'f', "ve", "A", "plain-ok"},
	{"plain-getline-next-file-missing", []string{`st = (getline %T)`}, "-1", '=', "vefs", "A", "argv-missing"},
	{"plain-getline-next-file-missing", []string{`st = (getline %T)`}, "-1", '=', "ves", "B", "argv-missing-begin"},
	{"plain-getline-next-file-directory", []string{`st = (getline %T)`}, "-1", '=', "vef", "A", "argv-dir"}, // (moving on to the next file resets FNR and FILENAME: no special targets)
	{"plain-getline-read-error", []string{`st = (getline %T)`}, "-1", '=', "vefs", "A", "read-error"},
	{"plain-getline-next-arg-rejected-assignment", []string{`st = (getline %T)`}, "-1", '=', "vefs", "A", "argv-rejected"},
	{"plain-getline-next-arg-assigns-target", []string{`st = (getline %T)`}, "0", 'f', "v", "A", "argv-assign"},
	// split
	{"split-nothing-into-target-array", []string{`st = split("", %A)`, `st = split(unsetname, %A, ",")`, `st = split("", %A, "x")`}, "0", 'u', "e", "BAE", ""},
	{"split-into-target-array", []string{`st = split(pv2, %A, "\003")`}, "1", 'S', "e", "BAE", ""},
	{"split-into-another", []string{`st = split("a b", TMP)`, `st = split("", TMP)`}, "", '=', "vefs", "BAE", ""},
	// sub / gsub / match
	{"sub-no-match", []string{`st = sub(/ZZZ/, "q", %T)`, `st = sub("ZZZ", "&&", %T)`}, "0", '=', "vefs", "BAE", ""},
	{"gsub-no-match", []string{`st = gsub(/ZZZ/, "q", %T)`, `st = gsub(/ZZ+Z/, "", %T)`}, "0", '=', "vefs", "BAE", ""},
	{"sub-match", []string{`st = sub(/^/, "", %T)`, `st = gsub(/$/, "", %T)`}, "1", 's', "ve", "BAE", ""},
	{"match-fails", []string{`st = match(%T, /ZZZ/)`, `st = match(%T, "ZZZ")`}, "0", '=', "vefs", "BAE", ""},
	// for-in
	{"for-in-empty", []string{`st = 0; for (%T in E) st++`, `st = 0; K[1]; delete K[1]; for (%T in K) st++`, `st = 0; K[1]; delete K; for (%T in K) st++`}, "0", '=', "vs", "BAE", ""},
	{"for-in-one-key", []string{`K[pv2]; st = 0; for (%T in K) st++`}, "1", 'k', "v", "BAE", ""},
	// assignments that do not happen
	{"assignment-not-reached", []string{`st = (f3 == 1 && (%T = 5))`, `st = (f1 == 10 || (%T = 5)); st--`, `st = (f1 == 10 ? 0 : (%T = 5))`, `if (f3 == 1) %T = 5; st = 0`,
		`while (f3 == 1) { %T = 5 }; st = 0`, `for (tmp = 0; tmp < 0; tmp++) %T = "q"; st = 0`, `st = (f3 ~ /Z/ && sub(/^/, "q", %T))`}, "0", '=', "vefs", "BAE", ""},
	// read-only uses
	{"read-only-use", []string{`st = length(%T)`, `st = (%T + 0)`, `st = (%T "")`, `st = -%T`, `st = !%T`, `st = (%T == 0)`, `st = (%T < "a")`, `st = index(%T, "z")`,
		`st = substr(%T, 1)`, `st = tolower(%T)`, `R2[%T] = 1; st = 0`, `st = sprintf("%d%s", %T, %T)`, `st = (%T ~ /1/)`, `st = int(%T)`, `st = ((%T) in R2)`,
		`st = G(%T)`, `st = (%T ? 1 : 2)`, `st = (%T == f1) (%T < f2)`, `st = (%T * 1) (%T "")`}, "", '=', "vefs", "BAE", ""},
	// copies keep the provenance
	{"copy", []string{`%T = %T; st = 0`, `tmp = %T; %T = 5; %T = tmp; st = 0`, `R2[7] = %T; %T = "q"; %T = R2[7]; st = 0`}, "0", '=', "ve", "BAE", ""},
	// delete
	{"delete", []string{`delete %T; st = 0`, `delete %A; st = 0`}, "0", 'u', "e", "BAE", ""},
}

// the first foGetlineOps entries of foOps are getline forms
const foGetlineOps = 20

func foTargetKind(t foTarget) byte {
	switch t.class {
	case "global", "local":
		return 'v'
	case "global-elem", "local-elem":
		return 'e'
	case "field", "record":
		return 'f'
	}
	return 's'
}

func genFailCase(c *vh.Ctx, fx foFixtures) *foCase {
	for {
		cs := &foCase{}
		// target
		var t foTarget
		single := false // the first record is one field (the text) instead of three
		switch c.Rng.Intn(12) {
		case 0, 1, 2:
			t = foTarget{class: "global", lv: "x"}
		case 3, 4:
			t = foTarget{class: "local", lv: "loc"}
		case 5, 6:
			e := [][2]string{{`A["k"]`, ""}, {`A[1]`, "1"}, {`A[i]`, "1"}, {`A[1, "b"]`, ""}, {`A[f2]`, ""}}[c.Rng.Intn(5)]
			t = foTarget{class: "global-elem", lv: e[0], arr: "A", key1: e[1] == "1"}
		case 7:
			e := [][2]string{{`LA["k"]`, ""}, {`LA[1]`, "1"}, {`LA[i]`, "1"}}[c.Rng.Intn(3)]
			t = foTarget{class: "local-elem", lv: e[0], arr: "LA", key1: e[1] == "1"}
		case 8, 9:
			single = c.Rng.Intn(3) == 0
			if single {
				t = foTarget{class: "field", lv: []string{"$1", "$i"}[c.Rng.Intn(2)]}
			} else {
				t = foTarget{class: "field", lv: []string{"$2", "$(i+1)"}[c.Rng.Intn(2)]}
			}
		case 10:
			single = c.Rng.Intn(2) == 0
			t = foTarget{class: "record", lv: "$0"}
		case 11:
			t = foTarget{class: "special", lv: foSpecials[c.Rng.Intn(len(foSpecials))]}
		}
		tk := foTargetKind(t)
		// operation
		op := foOps[c.Rng.Intn(len(foOps))]
		if c.Rng.Intn(4) == 0 { // the getline opcodes are the anchor of the family: keep them frequent
			op = foOps[c.Rng.Intn(foGetlineOps)]
		}
		if strings.HasPrefix(op.class, "cmd-") && c.Rng.Intn(4) != 0 { // every such case starts a process: keep them few
			continue
		}
		if !strings.ContainsRune(op.targets, rune(tk)) || (op.class == "match-fails" && (t.lv == "RSTART" || t.lv == "RLENGTH")) {
			continue
		}
		if op.mode == "argv-assign" && t.class != "global" {
			continue
		}
		code := op.code[c.Rng.Intn(len(op.code))]
		cs.opTmpl = code
		if strings.Contains(code, "%A") && t.arr == "" {
			continue
		}
		// context
		ctx := string(op.ctx[c.Rng.Intn(len(op.ctx))])
		if tk == 'f' && ctx == "B" {
			if !strings.Contains(op.ctx, "E") {
				continue
			}
			ctx = "E"
		}
		if tk == 'f' && ctx == "E" && op.mode == "plain-ok" {
			continue
		}
		viaFunc := c.Rng.Intn(3) == 0 || t.class == "local" || t.class == "local-elem"
		// texts
		text := foTexts[c.Rng.Intn(len(foTexts))]
		text2 := foTexts[c.Rng.Intn(len(foTexts))]
		if single && strings.TrimSpace(text) == "" {
			continue
		}
		// what the target held before
		var prior []string
		switch tk {
		case 'v', 'e':
			cs.known = true
			switch c.Rng.Intn(7) {
			case 0, 1:
				cs.prior = rv{kind: 'u'}
				if tk == 'e' && c.Rng.Intn(3) == 0 {
					prior = append(prior, fmt.Sprintf("%s = 1; delete %s", t.lv, t.lv))
				}
			case 2, 3, 4:
				cs.prior = rv{kind: 'f', s: text}
				switch c.Rng.Intn(5) {
				case 0:
					prior = append(prior, fmt.Sprintf("%s = pv", t.lv))
				case 1:
					prior = append(prior, fmt.Sprintf("getline %s < PFILE; close(PFILE)", t.lv))
				case 2:
					if text == "" {
						prior = append(prior, fmt.Sprintf("%s = pv", t.lv))
					} else {
						prior = append(prior, fmt.Sprintf("split(pv, TMP, \"\\003\"); %s = TMP[1]", t.lv))
					}
				case 3:
					prior = append(prior, fmt.Sprintf("%s = ENVIRON[\"PV\"]", t.lv))
				case 4:
					prior = append(prior, fmt.Sprintf("tmp = pv; %s = tmp", t.lv))
				}
			case 5:
				cs.prior = rv{kind: 'n', n: numOf(text)}
				if isPlainDecimal(text) && c.Rng.Intn(2) == 0 {
					prior = append(prior, fmt.Sprintf("%s = %s", t.lv, text))
				} else {
					prior = append(prior, fmt.Sprintf("%s = pv + 0", t.lv))
				}
			case 6:
				cs.prior = rv{kind: 's', s: text}
				if c.Rng.Intn(2) == 0 {
					prior = append(prior, fmt.Sprintf("%s = %s", t.lv, awkStr(text)))
				} else {
					prior = append(prior, fmt.Sprintf("%s = pv \"\"", t.lv))
				}
			}
		case 'f':
			cs.known = true
			rec := "10\x01" + text + "\x01abc"
			if single {
				rec = text
			}
			if t.class == "record" {
				cs.prior = rv{kind: 'f', s: rec}
			} else if c.Rng.Intn(4) == 0 {
				cs.prior = rv{kind: 's', s: text}
				prior = append(prior, fmt.Sprintf("%s = pv \"\"", t.lv))
			} else {
				cs.prior = rv{kind: 'f', s: text}
			}
		case 's':
			cs.known = false
			if c.Rng.Intn(3) == 0 {
				switch t.lv {
				case "SUBSEP", "OFS", "CONVFMT", "OFMT":
					prior = append(prior, fmt.Sprintf("%s = %s", t.lv, []string{`"%.3g"`, `"%d"`, `"%.8g"`}[c.Rng.Intn(3)]))
				case "RSTART", "RLENGTH":
					prior = append(prior, `match("xx10", /1+/)`)
				case "NR", "FNR":
					prior = append(prior, fmt.Sprintf("%s = 10", t.lv))
				}
			}
		}
		cs.before = !cs.known || c.Rng.Intn(2) == 0
		// substitutions
		pfile, tfile := fx.text[text], fx.text[text2]
		code = strings.ReplaceAll(code, "%T", t.lv)
		code = strings.ReplaceAll(code, "%A", t.arr)
		code = strings.ReplaceAll(code, "MISSING", awkStr(fx.missing))
		code = strings.ReplaceAll(code, "DIR", awkStr(fx.sub))
		code = strings.ReplaceAll(code, "EMPTY", awkStr(fx.empty))
		code = strings.ReplaceAll(code, "TFILE", awkStr(tfile))
		code = strings.ReplaceAll(code, "CMD", awkStr("cat "+tfile))
		if c.Rng.Intn(8) == 0 && op.effect == '=' && op.want != "" && !strings.Contains(op.class, "another") && !strings.HasPrefix(op.mode, "argv") {
			code = code + "; " + code // the failing operation twice
		}
		for i := range prior {
			prior[i] = strings.ReplaceAll(prior[i], "PFILE", awkStr(pfile))
		}
		// body
		var body []string
		body = append(body, "i = 1")
		body = append(body, prior...)
		if cs.before {
			body = append(body, fmt.Sprintf(`print "B " Q(%s)`, t.lv))
		}
		body = append(body, code, `print "S " st`, fmt.Sprintf(`print "A " Q(%s)`, t.lv))
		var b strings.Builder
		b.WriteString(awkFailQ)
		call := strings.Join(body, "\n  ")
		if viaFunc {
			fmt.Fprintf(&b, "function F(    loc, LA, st, junk, TMP, E, K, R2, tmp, i, mf, unsetname) {\n  %s\n}\n", call)
			call = "F()"
		}
		switch ctx {
		case "B":
			fmt.Fprintf(&b, "BEGIN {\n  %s\n}\n", call)
		case "A":
			fmt.Fprintf(&b, "NR == 1 {\n  %s\n}\n", call)
		case "E":
			fmt.Fprintf(&b, "END {\n  %s\n}\n", call)
		}
		if ctx != "A" {
			b.WriteString("NR == 1 { seen = 1 }\n")
		}
		cs.Program = b.String()
		// input
		rec1 := "10\x01" + text + "\x01abc"
		if single {
			rec1 = text
		}
		stdin := rec1 + "\n"
		switch op.mode {
		case "plain-ok":
			stdin += text2 + "\n"
		case "argv-missing":
			cs.Args = []string{"-", fx.missing}
		case "argv-missing-begin":
			cs.Args = []string{fx.missing}
		case "argv-rejected": // the next ARGV element is an assignment the interpreter refuses: the getline fails
			cs.Args = []string{"-", "NF=-1"}
		case "argv-assign": // the next ARGV element assigns the (global) target, then the input is exhausted
			cs.Args = []string{"-", "x=" + text2}
		case "argv-dir":
			cs.Args = []string{"-", fx.sub}
			cs.allowErr = true
		case "read-error":
			cs.StdinErr = true
			cs.allowErr = true
		case "bad-shell":
			cs.Shell = []string{fx.noshell, "-c"}
		}
		if strings.HasPrefix(op.class, "cmd-") && ctx == "B" {
			stdin = "" // a running command shares the interpreter's standard input
		}
		cs.Stdin = vh.HxS(stdin)
		cs.Vars = []string{"FS", "\x01", "pv", text, "pv2", text2, "f1", "10", "f2", "9", "f3", "abc"}
		cs.Fixtures = fx.describe()
		cs.Target = t.class + " " + t.lv
		cs.tclass = t.class
		if t.class == "special" {
			cs.tclass = "special:" + t.lv
		}
		cs.Op, cs.OpCode = op.class, code
		cs.Context = map[string]string{"B": "BEGIN", "A": "first-record", "E": "END"}[ctx]
		if viaFunc {
			cs.Context += "/function"
		}
		cs.want, cs.effect, cs.newText = op.want, op.effect, text2
		if op.effect == 'S' { // split(pv2, A, "\003"): element 1 is the text, every other element is gone; nothing at all for ""
			switch {
			case text2 == "":
				cs.effect, cs.want = 'u', "0"
			case t.key1:
				cs.effect = 'f'
			default:
				cs.effect = 'u'
			}
		}
		if cs.known {
			cs.Prior = map[byte]string{'u': "unset", 'f': "input-derived text ", 'n': "number ", 's': "string "}[cs.prior.kind]
			if cs.prior.kind != 'u' {
				cs.Prior += strconv.Quote(cs.prior.str())
			}
		} else {
			cs.Prior = "(special variable: whatever the interpreter holds)"
		}
		return cs
	}
}

func (cs *foCase) expected() rv {
	switch cs.effect {
	case 'f':
		return rv{kind: 'f', s: cs.newText}
	case 's':
		return rv{kind: 's', s: cs.prior.str()}
	case 'k':
		return rv{kind: 's', s: cs.newText}
	case 'u':
		return rv{kind: 'u'}
	}
	return cs.prior
}

// leanRequest: the driver request whose answer is the model's probe line for the target after the operation, "" when the
// operation has no store model (named targets only: variable, local, array element).
func (cs *foCase) leanRequest(status string) string {
	if !cs.known || cs.tclass == "field" || cs.tclass == "record" {
		return ""
	}
	switch {
	case cs.Op == "getline-into-another" || cs.Op == "plain-getline-next-arg-assigns-target":
		return ""
	case strings.HasPrefix(cs.Op, "getline<") || strings.HasPrefix(cs.Op, "cmd-") || strings.HasPrefix(cs.Op, "plain-getline"):
		line := ""
		if status == "1" {
			line = cs.newText
		}
		return "g getline " + status + " " + vh.HxS(line) + " " + cs.prior.lean()
	case cs.Op == "sub-no-match" || cs.Op == "gsub-no-match" || cs.Op == "sub-match":
		return "g sub " + status + " " + vh.HxS(cs.prior.str()) + " " + cs.prior.lean()
	case cs.Op == "for-in-empty" || cs.Op == "for-in-one-key":
		return "g forin " + status + " " + vh.HxS(cs.newText) + " " + cs.prior.lean()
	case cs.Op == "split-nothing-into-target-array":
		return "g split 0 none u"
	case cs.Op == "split-into-target-array":
		k, piece := "5", vh.HxS(cs.newText)
		if cs.effect == 'f' {
			k = "0"
		}
		if cs.newText == "" {
			piece = "none"
		}
		return "g split " + k + " " + piece + " u"
	}
	return ""
}

func checkFailOps(c *vh.Ctx) {
	dir, err := os.MkdirTemp("", "c05fo")
	if err != nil {
		c.Note("failed-operation stream skipped: " + err.Error())
		return
	}
	defer os.RemoveAll(dir)
	fx := foFixtures{dir: dir, missing: filepath.Join(dir, "missing"), sub: filepath.Join(dir, "d"), empty: filepath.Join(dir, "empty"),
		noshell: filepath.Join(dir, "noshell"), text: map[string]string{}}
	ok := os.Mkdir(fx.sub, 0o755) == nil && os.WriteFile(fx.empty, nil, 0o644) == nil
	for k, t := range foTexts {
		p := filepath.Join(dir, "t"+strconv.Itoa(k))
		ok = ok && os.WriteFile(p, []byte(t+"\n"), 0o644) == nil
		fx.text[t] = p
	}
	if !ok {
		c.Note("failed-operation stream skipped: cannot write fixtures")
		return
	}
	n := c.N(1600, 30000)
	var jobs []*foCase
	// corpus: minimized witnesses of past misses (seeded C05-q3: a failed getline stores an empty input string) and of the
	// repaired G05-3 (sub/gsub without a match stored the string form of the target back)
	jobs = append(jobs, foCorpus(fx)...)
	for len(jobs) < n {
		jobs = append(jobs, genFailCase(c, fx))
	}
	vh.Parallel(len(jobs), func(i int) {
		cs := jobs[i]
		cfg := &interp.Config{Args: cs.Args, Vars: cs.Vars, Environ: []string{"PV", cs.Vars[3]}, ShellCommand: cs.Shell}
		in := vh.Unhx(cs.Stdin)
		if cs.StdinErr {
			cfg.Stdin = &failReader{data: in}
		} else {
			cfg.Stdin = strings.NewReader(string(in))
		}
		cs.res = vh.ExecProg(vh.MustParse(cs.Program), cfg)
	})
	unexpected := map[string]int{}
	var reqs []string
	var reqCases []*foCase
	var reqGot []string
	for _, cs := range jobs {
		c.OracleCase()
		c.Eval("failop|"+cs.Target+"|"+cs.Prior+"|"+cs.opTmpl+"|"+cs.Op+"|"+cs.Context+"|"+strconv.FormatBool(cs.before), cs.effect == '=')
		c.Hit("failop:op:" + cs.Op)
		c.Hit("failop:target:" + strings.SplitN(cs.tclass, ":", 2)[0])
		c.Hit("failop:context:" + cs.Context)
		if cs.known {
			c.Hit("failop:prior:" + map[byte]string{'u': "unset", 'f': "input-text", 'n': "number", 's': "string"}[cs.prior.kind])
		}
		c.Hit("failop:effect:" + map[byte]string{'=': "nothing-stored", 'f': "stores-input-text", 's': "stores-string", 'k': "stores-string", 'u': "becomes-unset"}[cs.effect])
		if cs.res.Panic != "" || (cs.res.Err != "" && !cs.allowErr) {
			c.Fail(vh.Failure{Kind: "oracle", What: "failed-operation program failed: " + cs.res.String()[:min(300, len(cs.res.String()))], Case: cs})
			continue
		}
		var before, status, after string
		nB, nS, nA := 0, 0, 0
		for _, line := range strings.Split(strings.TrimSuffix(cs.res.Out, "\n"), "\n") {
			switch {
			case strings.HasPrefix(line, "B "):
				before, nB = line[2:], nB+1
			case strings.HasPrefix(line, "S "):
				status, nS = line[2:], nS+1
			case strings.HasPrefix(line, "A "):
				after, nA = line[2:], nA+1
			}
		}
		wantB := 0
		if cs.before {
			wantB = 1
		}
		var okA, okB bool
		after, okA = normQ(after)
		before, okB = normQ(before)
		if nS != 1 || nA != 1 || nB != wantB || !okA || (cs.before && !okB) {
			c.Fail(vh.Failure{Kind: "oracle", What: "failed-operation program did not print its probe lines (B? S A)", Case: cs, Got: cs.res.Out[:min(300, len(cs.res.Out))]})
			continue
		}
		if cs.want != "" && status != cs.want {
			unexpected[cs.Op+" status "+status+" (intended "+cs.want+")"]++
			c.Hit("failop:status-unexpected")
			continue
		}
		c.Hit("failop:status:" + map[bool]string{true: cs.want, false: "not-compared"}[cs.want != ""])
		if req := cs.leanRequest(status); req != "" && c.HasLean() {
			reqs, reqCases, reqGot = append(reqs, req), append(reqCases, cs), append(reqGot, after)
		}
		const cols = " — probe columns: (v<9)(v==10)(v<\"9\")(v==5)(v<10)(v>=1e1)(v!=+5)(truth)(v==0)(v==\"\")(!v)(v==f1)(v<f2)(v<f3)(v>f1)(v==0&&v==\"\") | v+0 | v \"\"; f1 f2 f3 = input texts 10 9 abc"
		if cs.known {
			if cs.before {
				if want := refQ(cs.prior); before != want {
					c.Fail(vh.Failure{Kind: "oracle", What: "BEFORE the operation the target does not compare by its provenance (" + cs.Prior + ")" + cols, Case: cs, Got: before, Want: want})
					continue
				}
			}
			if want := refQ(cs.expected()); after != want {
				what := "an operation that failed / found nothing / did not happen changed what its target is (status " + status + "): the target must still be " + cs.Prior
				if cs.effect != '=' {
					what = "after the operation (status " + status + ") the target does not have the provenance the operation gives it (" +
						map[byte]string{'f': "input-derived text", 's': "string", 'k': "string", 'u': "unset"}[cs.effect] + ")"
				}
				c.Fail(vh.Failure{Kind: "oracle", What: what + cols, Case: cs, Got: after, Want: want})
				continue
			}
		}
		if cs.before && cs.effect == '=' && before != after {
			c.Fail(vh.Failure{Kind: "oracle", What: "an operation that failed / found nothing / did not happen (status " + status + ") changed the probes of its target (same probes before and after)" + cols,
				Case: cs, Got: after, Want: before})
		}
	}
	// correspondence: the store model of GoawkModel/C05Store.lean (+ the comparison model) against the real probe line
	if c.HasLean() && len(reqs) > 0 {
		for i, a := range c.LeanBatch(reqs) {
			c.Trace()
			p := strings.SplitN(reqGot[i], "|", 3)
			if got := p[0] + "|" + vh.HxS(p[2]); a != got {
				c.Fail(vh.Failure{Kind: "correspondence", What: "store model (getlineStore / subStore / forInStore / splitElem) and real program differ on request `" + reqs[i] + "`",
					Case: reqCases[i], Got: got, Want: a})
			}
		}
	}
	for k, v := range unexpected {
		c.Note(fmt.Sprintf("failed-operation stream: %d cases not judged: %s", v, k))
	}
}

// foCorpus: fixed cases run first.
func foCorpus(fx foFixtures) []*foCase {
	mk := func(target, tclass, op, code, ctxName, program string, prior rv, known, before bool, want string, effect byte) *foCase {
		cs := &foCase{Target: target, tclass: tclass, Op: op, OpCode: code, Context: ctxName, Program: awkFailQ + program, Stdin: vh.HxS(" 10 \n"),
			Vars: []string{"FS", "\x01", "pv", " 10 ", "pv2", "9", "f1", "10", "f2", "9", "f3", "abc"}, Fixtures: fx.describe(),
			prior: prior, known: known, before: before, want: want, effect: effect, opTmpl: code}
		cs.Prior = map[byte]string{'u': "unset", 'f': "input-derived text ", 'n': "number ", 's': "string "}[prior.kind]
		if prior.kind != 'u' {
			cs.Prior += strconv.Quote(prior.str())
		}
		if !known {
			cs.Prior = "(special variable: whatever the interpreter holds)"
		}
		return cs
	}
	m := awkStr(fx.missing)
	strnum := rv{kind: 'f', s: " 10 "}
	return []*foCase{
		// seeded C05-q3: getline var from a missing file (-1)
		mk("global x", "global", "getline<missing", "st = (getline x < MISSING)", "BEGIN", "BEGIN { st = (getline x < "+m+"); print \"S \" st; print \"A \" Q(x) }\n", rv{kind: 'u'}, true, false, "-1", '='),
		mk("global x", "global", "getline<missing", "st = (getline x < MISSING)", "first-record", "{ x = $0; st = (getline x < "+m+"); print \"S \" st; print \"A \" Q(x) }\n", strnum, true, false, "-1", '='),
		mk("local loc", "local", "getline<missing", "st = (getline loc < MISSING)", "BEGIN/function", "function F(  loc, st) { st = (getline loc < "+m+"); print \"S \" st; print \"A \" Q(loc) }\nBEGIN { F() }\n", rv{kind: 'u'}, true, false, "-1", '='),
		mk("global-elem A[1]", "global-elem", "getline<missing", "st = (getline A[1] < MISSING)", "first-record", "{ A[1] = $0; st = (getline A[1] < "+m+"); print \"S \" st; print \"A \" Q(A[1]) }\n", strnum, true, false, "-1", '='),
		mk("special SUBSEP", "special:SUBSEP", "getline<missing", "st = (getline SUBSEP < MISSING)", "BEGIN", "BEGIN { print \"B \" Q(SUBSEP); st = (getline SUBSEP < "+m+"); print \"S \" st; print \"A \" Q(SUBSEP) }\n", rv{}, false, true, "-1", '='),
		// G05-3 (fixed): sub()/gsub() with zero matches stored the string form back — variables, array elements, special variables
		mk("global x", "global", "sub-no-match", `st = sub(/ZZZ/, "q", x)`, "first-record", "{ x = $0; st = sub(/ZZZ/, \"q\", x); print \"S \" st; print \"A \" Q(x) }\n", strnum, true, false, "0", '='),
		mk("global x", "global", "gsub-no-match", `st = gsub(/ZZZ/, "q", x)`, "BEGIN", "BEGIN { st = gsub(/ZZZ/, \"q\", x); print \"S \" st; print \"A \" Q(x) }\n", rv{kind: 'u'}, true, false, "0", '='),
		mk("global-elem A[1]", "global-elem", "sub-no-match", `st = sub(/ZZZ/, "q", A[1])`, "BEGIN", "BEGIN { A[1] = 10; st = sub(/ZZZ/, \"q\", A[1]); print \"S \" st; print \"A \" Q(A[1]) }\n", rv{kind: 'n', n: 10}, true, false, "0", '='),
		mk("special NF", "special:NF", "gsub-no-match", `st = gsub(/ZZZ/, "q", NF)`, "first-record", "{ print \"B \" Q(NF); st = gsub(/ZZZ/, \"q\", NF); print \"S \" st; print \"A \" Q(NF) }\n", rv{}, false, true, "0", '='),
		mk("field $1", "field", "sub-no-match", `st = sub(/ZZZ/, "q", $1)`, "first-record", "{ st = sub(/ZZZ/, \"q\", $1); print \"S \" st; print \"A \" Q($1) }\n", strnum, true, false, "0", '='),
	}
}
