package main

// C05, history stream: a value's comparison mode is decided by ITS OWN provenance. Every field (and $0) of a freshly read
// record — read by the main loop or by a plain getline — is input-derived text and must compare numerically exactly when
// it looks numeric, whatever the program did to EARLIER records (assigned $k, $0 or NF, sub/gsub on a field, getline into
// a field, incremented a field, grew or shrank the record).
//
// A case is (FS, records, one operation per record). The program probes every field of the current record (through
// `$j` with a variable index, through `$1`…`$4`, and `$0`) as the first thing it does with a record and again right
// after every plain getline; each probe line carries NR, so the oracle needs no simulation of the history: the expected
// line is a function of record NR alone (reference typing of part C).

import (
	"fmt"
	"strconv"
	"strings"

	"github.com/benhoyt/goawk/interp"

	"verifharness/vh"
)

const awkHist = `
function C(v) { return (v<9) (v==10) (v<"9") (v==5) (v<10) (v>=1e1) (v!=+5) (v ? 1 : 0) }
function P(tag,   j, o) {
  o = tag " " NR " " NF
  for (j = 0; j <= NF; j++) o = o " " C($j)
  if (NF >= 1) o = o " " C($1)
  if (NF >= 2) o = o " " C($2)
  if (NF >= 3) o = o " " C($3)
  if (NF >= 4) o = o " " C($4)
  print o
}
{ P("m") }
`

// refC is the reference for AWK function C on input-derived text.
func refC(text string) string {
	v := rv{kind: 'f', s: text}
	n9, n10, n5, s9 := rv{kind: 'n', n: 9}, rv{kind: 'n', n: 10}, rv{kind: 'n', n: 5}, rv{kind: 's', s: "9"}
	t := "0"
	if v.truth() {
		t = "1"
	}
	return string([]byte{refCompare(v, n9)[2], refCompare(v, n10)[0], refCompare(v, s9)[2], refCompare(v, n5)[0],
		refCompare(v, n10)[2], refCompare(v, n10)[5], refCompare(v, n5)[1]}) + t
}

var histFieldPool = []string{"10", "9", "1e1", "+5", "5", "010", "1.0", "0x10", "abc", "10x", ".5", "100", "9.0", "-1", "1e2", "5.", "0", "00", "+10", "9e0", "x", "1e", "nan", "inf", "0x", "1_0", "50", "8", "11"}

// histOps: operations on the current record; %k = a field index, %m = a field count
var histOps = []string{
	``, ``,
	`$%k = "x"`, `$%k = "10"`, `$%k = 7`, `$%k = $%k`, `$%k = $%k + 0`, `$(NF+2) = "z"`, `$(NF+1) = 10`,
	`NF = %m`, `NF = NF`, `NF += 1`, `$0 = "3 4"`, `$0 = "10"`, `$0 = $0`,
	`sub(/1/, "2", $%k)`, `gsub(/0/, "", $%k)`, `sub(/1/, "2")`, `gsub(/[0-9]/, "&")`,
	`$%k++`, `$%k += 1`, `--$%k`,
	`getline $%k`, `getline x`, `getline $0`,
	`if ((getline) > 0) P("g")`,
	`if ((getline) > 0) { P("g"); $%k = "y" }`,
	`$%k = "q"; if ((getline) > 0) P("g")`,
	`NF = %m; if ((getline) > 0) P("g")`,
	`$%k = "w"; $0 = $0; P("r")`, // re-split by assigning $0: the fields are fresh input-derived text again ("r" probes are checked against $0 as printed)
}

type histCase struct {
	FS      string   `json:"FS"`
	OFS     string   `json:"OFS"`
	Records []string `json:"records"`
	Ops     []string `json:"op_after_probe_of_record_k"`
	Program string   `json:"program"`
}

func histSplit(fs, rec string) []string {
	if fs == " " {
		return strings.Fields(rec)
	}
	if rec == "" {
		return nil
	}
	return strings.Split(rec, fs)
}

func checkHistory(c *vh.Ctx) {
	n := c.N(1500, 30000)
	type job struct {
		cs  histCase
		res vh.RunResult
	}
	jobs := make([]job, 0, n+8)
	mkl := func(fs, ofs string, lines []string, ops []string) job {
		var b strings.Builder
		b.WriteString(awkHist)
		for i, op := range ops {
			if op != "" {
				fmt.Fprintf(&b, "NR == %d { %s }\n", i+1, op)
			}
		}
		return job{cs: histCase{FS: fs, OFS: ofs, Records: lines, Ops: ops, Program: b.String()}}
	}
	mk := func(fs string, recs [][]string, ops []string) job {
		var lines []string
		for _, r := range recs {
			lines = append(lines, strings.Join(r, fs))
		}
		return mkl(fs, fs, lines, ops)
	}
	// corpus: minimized past misses (per-field "assigned by the program" flags surviving into the next record)
	jobs = append(jobs,
		mk(" ", [][]string{{"1", "2"}, {"9", "10"}}, []string{`$2 = "x"`, ``}),
		mk(" ", [][]string{{"1", "2", "3"}, {"10"}, {"9", "10", "1e1", "+5"}}, []string{`$3 = "x"`, ``, ``}),
		mk(" ", [][]string{{"1"}, {"10", "9"}}, []string{`$(NF+2) = "z"`, ``}),
		mk(" ", [][]string{{"1", "2"}, {"10", "9"}, {"010", "+5"}}, []string{`$1 = "a"; $2 = "b"; if ((getline) > 0) P("g")`, ``, ``}),
		mk(",", [][]string{{"1", "2"}, {" 10 ", "9"}}, []string{`sub(/1/, "2", $1)`, ``}),
		mk(" ", [][]string{{"5", "6"}, {"7"}, {"10", "9"}}, []string{`getline $2`, ``, ``}),
		mk(" ", [][]string{{"5", "6", "7"}, {"10", "9", "1e1"}}, []string{`NF = 1; $3 = "x"`, ``}),
		mk(" ", [][]string{{"5", "6"}, {"10", "9"}}, []string{`$0 = "a b"; $1 = "c"`, ``}),
		// the next record's text equals the current (rebuilt / assigned) $0: per-record state must still be rebuilt
		mkl(" ", " ", []string{"10 9", "10 9", "10 9"}, []string{`$1 = $1`, `$2 = "9"`, ``}),
		mkl(" ", "-", []string{"10 9", "10-9", "10-9 1e1"}, []string{`$1 = $1`, `NF = NF`, ``}),
		mkl(" ", " ", []string{"1 9", "10 9", "10"}, []string{`$1 = "10"`, `$0 = "10"`, ``}),
		mkl(",", ",", []string{"10,9", "10,9"}, []string{`$2 = $2 ""`, ``}),
		mkl(" ", " ", []string{"7 8", "3 4", "3 4"}, []string{`$0 = "3 4"; $1 = $1`, `$2 = "4"; if ((getline) > 0) P("g")`, ``}),
	)
	for len(jobs) < n {
		fs := " "
		if c.Rng.Intn(4) == 0 {
			fs = ","
		}
		nrec := 2 + c.Rng.Intn(4)
		recs := make([][]string, nrec)
		ops := make([]string, nrec)
		for i := range recs {
			nf := 1 + c.Rng.Intn(5)
			for j := 0; j < nf; j++ {
				f := histFieldPool[c.Rng.Intn(len(histFieldPool))]
				if fs == "," && c.Rng.Intn(5) == 0 {
					f = []string{" " + f, f + " ", "\t" + f, ""}[c.Rng.Intn(4)]
				}
				recs[i] = append(recs[i], f)
			}
			op := histOps[c.Rng.Intn(len(histOps))]
			if i == 0 && op == "" { // make sure most cases have a history
				op = histOps[2+c.Rng.Intn(len(histOps)-2)]
			}
			if c.Rng.Intn(6) == 0 {
				op += "; " + histOps[2+c.Rng.Intn(len(histOps)-2)]
			}
			for strings.Contains(op, "%k") {
				op = strings.Replace(op, "%k", strconv.Itoa(1+c.Rng.Intn(5)), 1)
			}
			for strings.Contains(op, "%m") {
				op = strings.Replace(op, "%m", strconv.Itoa(c.Rng.Intn(7)), 1)
			}
			ops[i] = op
		}
		ofs := fs
		if c.Rng.Intn(3) == 0 {
			ofs = []string{"-", ":", "  ", ","}[c.Rng.Intn(4)]
		}
		lines := make([]string, nrec)
		for i, r := range recs {
			lines[i] = strings.Join(r, fs)
		}
		// make some records byte-identical to what $0 of the previous record is (or becomes)
		for i := 0; i+1 < nrec; i++ {
			if c.Rng.Intn(3) != 0 {
				continue
			}
			cur := histSplit(fs, lines[i])
			switch c.Rng.Intn(5) {
			case 0: // the same record again
				lines[i+1] = lines[i]
				c.Hit("history:next-record:identical")
			case 1: // the record as rebuilt by a field assignment that changes nothing
				if len(cur) == 0 {
					continue
				}
				k := 1 + c.Rng.Intn(len(cur))
				ops[i] = []string{fmt.Sprintf("$%d = $%d", k, k), "NF = NF", fmt.Sprintf("$%d = $%d \"\"", k, k), fmt.Sprintf("sub(/^/, \"\", $%d)", k)}[c.Rng.Intn(4)]
				lines[i+1] = strings.Join(cur, ofs)
				c.Hit("history:next-record:equals-rebuilt-$0")
			case 2: // … by an assignment of a numeric-looking string
				if len(cur) == 0 {
					continue
				}
				k := c.Rng.Intn(len(cur))
				v := []string{"10", "9", "1e1", "+5"}[c.Rng.Intn(4)]
				cur[k] = v
				ops[i] = fmt.Sprintf("$%d = \"%s\"", k+1, v)
				lines[i+1] = strings.Join(cur, ofs)
				c.Hit("history:next-record:equals-rebuilt-$0")
			case 3: // the assigned $0
				v := []string{"3 4", "10", "10 9 1e1", "+5,010"}[c.Rng.Intn(4)]
				ops[i] = fmt.Sprintf("$0 = \"%s\"", v)
				if c.Rng.Intn(2) == 0 {
					ops[i] += "; $1 = $1 \"\""
					if ofs != fs || fs != " " {
						continue
					}
				}
				lines[i+1] = v
				c.Hit("history:next-record:equals-assigned-$0")
			case 4: // identical, and read by plain getline
				lines[i+1] = lines[i]
				ops[i] = []string{`$1 = $1; if ((getline) > 0) P("g")`, `$2 = "10"; $2 = $2; if ((getline) > 0) P("g")`, `if ((getline) > 0) P("g")`}[c.Rng.Intn(3)]
				c.Hit("history:next-record:identical")
			}
		}
		jobs = append(jobs, mkl(fs, ofs, lines, ops))
	}
	vh.Parallel(len(jobs), func(i int) {
		j := &jobs[i]
		in := strings.Join(j.cs.Records, "\n") + "\n"
		j.res = vh.ExecProg(vh.MustParse(j.cs.Program), &interp.Config{Stdin: strings.NewReader(in), Vars: []string{"FS", j.cs.FS, "OFS", j.cs.OFS}})
	})
	for _, j := range jobs {
		c.OracleCase()
		hasHist := false
		for i, op := range j.cs.Ops {
			if op != "" && i < len(j.cs.Ops)-1 {
				hasHist = true
			}
		}
		c.Eval("hist|"+j.cs.FS+"|"+j.cs.OFS+"|"+strings.Join(j.cs.Records, "\n")+"|"+strings.Join(j.cs.Ops, "\n"), hasHist)
		c.Hit("history:records:" + strconv.Itoa(len(j.cs.Records)))
		for _, op := range j.cs.Ops {
			c.Hit("history:op:" + histOpClass(op))
		}
		if j.res.Panic != "" || j.res.Err != "" {
			c.Fail(vh.Failure{Kind: "oracle", What: "history program failed: " + j.res.String()[:min(300, len(j.res.String()))], Case: j.cs})
			continue
		}
		probes := 0
		for _, line := range strings.Split(strings.TrimSuffix(j.res.Out, "\n"), "\n") {
			w := strings.Split(line, " ")
			if len(w) < 3 || (w[0] != "m" && w[0] != "g" && w[0] != "r") {
				continue // output of getline NF etc. does not exist; anything else is not ours
			}
			nr, err1 := strconv.Atoi(w[1])
			nf, err2 := strconv.Atoi(w[2])
			if err1 != nil || err2 != nil || nr < 1 || nr > len(j.cs.Records) {
				c.Fail(vh.Failure{Kind: "oracle", What: "unreadable probe line", Case: j.cs, Got: line})
				continue
			}
			if w[0] == "r" {
				continue // "$0 = $0" re-split: which text $0 had is the business of C06; only fresh records are judged here
			}
			probes++
			c.Hit("history:probe:" + w[0])
			rec := j.cs.Records[nr-1]
			fields := histSplit(j.cs.FS, rec)
			want := []string{w[0], w[1], strconv.Itoa(len(fields)), refC(rec)}
			for _, f := range fields {
				want = append(want, refC(f))
			}
			for k := 0; k < len(fields) && k < 4; k++ {
				want = append(want, refC(fields[k]))
			}
			if nf != len(fields) || strings.Join(want, " ") != line {
				c.Fail(vh.Failure{Kind: "oracle", What: fmt.Sprintf("a field of freshly read record %d (probe %q) does not compare by its own provenance (input-derived text: numeric iff it looks numeric) — "+
					"columns: NR NF C($0) C($1..$NF via $j) C($1..$4 direct); C(v) = (v<9)(v==10)(v<\"9\")(v==5)(v<10)(v>=1e1)(v!=+5)(truth)", nr, w[0]),
					Case: j.cs, Got: line, Want: strings.Join(want, " ")})
			}
		}
		if probes == 0 {
			c.Fail(vh.Failure{Kind: "oracle", What: "history program printed no probe", Case: j.cs, Got: j.res.Out})
		}
	}
}

func histOpClass(op string) string {
	switch {
	case op == "":
		return "none"
	case strings.Contains(op, "(getline)"):
		return "plain-getline(+assign)"
	case strings.Contains(op, "getline $"):
		return "getline-into-field"
	case strings.Contains(op, "getline"):
		return "getline-other"
	case strings.Contains(op, "sub("):
		return "sub/gsub"
	case strings.Contains(op, "NF"):
		return "NF"
	case strings.Contains(op, "$0 ="):
		return "assign-$0"
	case strings.Contains(op, "++") || strings.Contains(op, "--") || strings.Contains(op, "+="):
		return "incr-field"
	default:
		return "assign-field"
	}
}
