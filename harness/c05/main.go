package main

// C05 — number/string conversion and comparison typing.
//
// Implementation-side oracle (no model in the loop), on the real code alone:
//   - hooks: a numeric-looking input string stands for the same number in the whole-string test (comparisons, truth test)
//     and in the prefix conversion (arithmetic); "numeric-looking" and "longest numeric prefix" are decided by an
//     independent reference (regular expressions + strconv on the matched text);
//   - number → string: an integral value in [-2^63, 2^63) prints as the exact integer (math/big), anything else through the
//     format;
//   - AWK programs through the public API: every provenance of a value (field, $0, getline variable, split element, ARGV,
//     ENVIRON, Vars, computed number, computed string, constants, unset) compared with ==, !=, <, <=, >, >= as an
//     expression and under if / ?: / while / do-while (fused jumps): the six results are mutually consistent, fused equals
//     unfused, and each equals the reference evaluation (numeric exactly when both operands are number-like).
// Correspondence: the Lean model (scanWhole / scanPrefix / toBool / numToStr / compareWith / condJumps over the generated
// tables) against the same hooks and programs.

import (
	"fmt"
	"math"
	"math/big"
	"os"
	"regexp"
	"sort"
	"strconv"
	"strings"

	"github.com/benhoyt/goawk/interp"

	"verifharness/vh"
)

func main() { vh.Main("C05", run) }

// ---- independent reference for "looks entirely like a number" and "longest numeric prefix" ------------------------------

const (
	reDec = `(?:[0-9]+\.?[0-9]*|\.[0-9]+)(?:[eE][+-]?[0-9]+)?`
	reHex = `0[xX](?:[0-9a-fA-F]+\.?[0-9a-fA-F]*|\.[0-9a-fA-F]+)(?:[pP][+-]?[0-9]+)?`
)

var (
	reWhole  = regexp.MustCompile(`^[+-]?(?:(?i:nan)|(?i:inf(?:inity)?)|` + reHex + `|` + reDec + `)$`)
	rePrefix = regexp.MustCompile(`^[+-]?(?:(?i:nan)|(?i:inf)|` + reHex + `|` + reDec + `)`)
)

func init() { rePrefix.Longest(); reWhole.Longest() }

const asciiBlanks = " \t\n\v\f\r"

// refValue converts a text matched by one of the two expressions; rng = the decimal/hex literal is out of range.
func refValue(t string) (f float64, rng bool) {
	neg := strings.HasPrefix(t, "-")
	u := strings.ToLower(strings.TrimLeft(t, "+-"))
	switch {
	case strings.HasPrefix(u, "nan"):
		return math.NaN(), false
	case strings.HasPrefix(u, "inf"):
		if neg {
			return math.Inf(-1), false
		}
		return math.Inf(1), false
	}
	if strings.HasPrefix(u, "0x") && !strings.Contains(u, "p") {
		t += "p0"
	}
	f, err := strconv.ParseFloat(t, 64)
	if err != nil {
		if ne, ok := err.(*strconv.NumError); ok && ne.Err == strconv.ErrRange {
			return f, true
		}
		panic("reference: strconv rejects a text the reference grammar accepts: " + strconv.Quote(t))
	}
	return f, false
}

// refWhole: does the whole string (ASCII blanks trimmed) look like a number, and which.
func refWhole(s string) (float64, bool) {
	t := strings.Trim(s, asciiBlanks)
	if !reWhole.MatchString(t) {
		return 0, false
	}
	f, rng := refValue(t)
	if rng {
		return 0, false // out-of-range literals are not numbers (as in onetrue-awk: strtod sets ERANGE)
	}
	return f, true
}

// refPrefix: value of the longest leading numeric prefix after ASCII blanks, else 0.
func refPrefix(s string) float64 {
	t := strings.TrimLeft(s, asciiBlanks)
	m := rePrefix.FindString(t)
	if m == "" {
		return 0
	}
	f, _ := refValue(m)
	return f
}

func sameBits(a, b float64) bool {
	if math.IsNaN(a) || math.IsNaN(b) {
		return math.IsNaN(a) && math.IsNaN(b)
	}
	return math.Float64bits(a) == math.Float64bits(b)
}

func sameNum(a, b float64) bool { return a == b || (math.IsNaN(a) && math.IsNaN(b)) }

func bitsStr(f float64) string {
	if math.IsNaN(f) {
		return "nan"
	}
	return strconv.FormatUint(math.Float64bits(f), 10)
}

// refNumToStr: integral and within int64 → exact integer; nan/inf; else %.6g (only used with the default format).
func refNumToStr(f float64, format string) string {
	switch {
	case math.IsNaN(f):
		return "nan"
	case math.IsInf(f, 1):
		return "inf"
	case math.IsInf(f, -1):
		return "-inf"
	}
	bf := new(big.Float).SetFloat64(f)
	if bf.IsInt() {
		i, _ := bf.Int(nil)
		lo := new(big.Int).Lsh(big.NewInt(-1), 63)
		hi := new(big.Int).Lsh(big.NewInt(1), 63)
		if i.Cmp(lo) >= 0 && i.Cmp(hi) < 0 {
			return i.String()
		}
	}
	return fmt.Sprintf(format, f)
}

// ---- part A: hooks over strings -----------------------------------------------------------------------------------------

var alphabet = []string{"0", "1", "9", "+", "-", ".", "e", "E", "x", "X", "p", "P", "n", "a", "i", "f", " ", "\t", "\xc2\xa0", "_"}

type strCase struct {
	S string `json:"s_hex"`
}

func classifyStr(s string) string {
	switch {
	case strings.Contains(s, "_"):
		return "underscore"
	case strings.ContainsAny(strings.ToLower(s), "x") && strings.ContainsAny(s, "0"):
		return "hexish"
	case strings.ContainsAny(strings.ToLower(s), "naif"):
		return "word"
	case strings.ContainsAny(s, "eE"):
		return "exponent"
	default:
		return "plain"
	}
}

// parseLeanRes: "nan" | "inf+" | "inf-" | "zero:0" | "conv:<hex>:<bits>" → (bits string comparable with bitsStr, text, isConv)
func parseLeanRes(r string) (bits string, text []byte, conv bool, ok bool) {
	switch r {
	case "nan":
		return "nan", nil, false, true
	case "inf+":
		return bitsStr(math.Inf(1)), nil, false, true
	case "inf-":
		return bitsStr(math.Inf(-1)), nil, false, true
	case "zero:0":
		return "0", nil, false, true
	}
	p := strings.Split(r, ":")
	if len(p) != 3 || p[0] != "conv" {
		return "", nil, false, false
	}
	return p[2], vh.Unhx(p[1]), true, true
}

func checkStrings(c *vh.Ctx, strs []string, label string) {
	type hk struct {
		f     float64
		ok    bool
		g     float64
		b     bool
		n     float64
		isStr bool
		pan   string
	}
	hs := make([]hk, len(strs))
	vh.Parallel(len(strs), func(i int) {
		defer func() {
			if r := recover(); r != nil {
				hs[i].pan = fmt.Sprint(r)
			}
		}()
		s := strs[i]
		h := &hs[i]
		h.f, h.ok = interp.VerifParseFloat(s)
		h.g = interp.VerifParseFloatPrefix(s)
		h.b = interp.VerifNumStrBoolean(s)
		h.n, h.isStr = interp.VerifNumStrIsTrueStr(s)
	})
	// oracle
	for i, s := range strs {
		h := hs[i]
		cs := strCase{vh.HxS(s)}
		c.OracleCase()
		rf, rok := refWhole(s)
		c.Eval("str|"+s, h.ok || rok)
		c.Hit(label + ":len" + strconv.Itoa(min(len(s), 9)))
		if h.ok {
			c.Hit(label + ":numeric:" + classifyStr(s))
		}
		if h.pan != "" {
			c.Fail(vh.Failure{Kind: "oracle", What: "conversion routine panicked: " + h.pan, Case: cs})
			continue
		}
		if h.ok && !sameBits(h.f, h.g) {
			c.Fail(vh.Failure{Kind: "oracle", What: "numeric-looking string stands for different numbers in the whole-string test (comparison, truth) and the prefix conversion (arithmetic)",
				Finding: classifyWholePrefix(s), Case: cs, Got: fmt.Sprint("prefix=", h.g), Want: fmt.Sprint("whole=", h.f)})
		}
		wantB := s != ""
		if h.ok {
			wantB = h.f != 0
		}
		if h.b != wantB {
			c.Fail(vh.Failure{Kind: "oracle", What: "truth value of an input string disagrees with its number / emptiness", Case: cs, Got: fmt.Sprint(h.b), Want: fmt.Sprint(wantB)})
		}
		if h.isStr == h.ok || (!h.isStr && !sameBits(h.n, h.f)) {
			c.Fail(vh.Failure{Kind: "oracle", What: "isTrueStr disagrees with the whole-string numeric test", Case: cs})
		}
		if h.ok != rok || (rok && !sameBits(h.f, rf)) {
			c.Fail(vh.Failure{Kind: "oracle", What: "\"looks entirely like a number\" differs from the reference grammar", Case: cs,
				Got: fmt.Sprint(h.ok, " ", h.f), Want: fmt.Sprint(rok, " ", rf)})
		}
		if rp := refPrefix(s); !sameNum(h.g, rp) {
			c.Fail(vh.Failure{Kind: "oracle", What: "string → number is not the value of the longest leading numeric prefix", Case: cs,
				Got: fmt.Sprint(h.g), Want: fmt.Sprint(rp)})
		} else if !sameBits(h.g, rp) {
			c.Hit("note:prefix-sign-of-zero-differs-from-reference")
		}
	}
	// correspondence
	if !c.HasLean() {
		return
	}
	reqs := make([]string, len(strs))
	for i, s := range strs {
		reqs[i] = "a " + vh.HxS(s)
	}
	ans := c.LeanBatch(reqs)
	for i, a := range ans {
		h := hs[i]
		if h.pan != "" {
			continue
		}
		c.Trace()
		cs := strCase{vh.HxS(strs[i])}
		w := strings.Split(a, " ")
		if len(w) != 3 {
			c.Fail(vh.Failure{Kind: "correspondence", What: "unreadable driver answer", Case: cs, Got: a})
			continue
		}
		// whole
		if w[0] == "T" {
			if h.ok {
				c.Fail(vh.Failure{Kind: "correspondence", What: "parseFloat accepts, model rejects", Case: cs, Got: fmt.Sprint(h.f), Want: a})
			}
		} else {
			bits, text, conv, ok := parseLeanRes(w[0])
			if !ok || !h.ok || bits != bitsStr(h.f) {
				c.Fail(vh.Failure{Kind: "correspondence", What: "parseFloat: model result differs", Case: cs, Got: fmt.Sprint(h.ok, " ", bitsStr(h.f)), Want: a})
			} else if conv {
				if f, err := strconv.ParseFloat(string(text), 64); err != nil || !sameBits(f, h.f) {
					c.Fail(vh.Failure{Kind: "correspondence", What: "parseFloat: strconv on the model's text differs", Case: cs, Got: bitsStr(h.f), Want: a})
				}
			}
		}
		// prefix
		bits, text, conv, ok := parseLeanRes(w[1])
		if !ok || bits != bitsStr(h.g) {
			c.Fail(vh.Failure{Kind: "correspondence", What: "parseFloatPrefix: model result differs", Case: cs, Got: bitsStr(h.g), Want: a})
		} else if conv {
			f, err := strconv.ParseFloat(string(text), 64)
			if ne, isNE := err.(*strconv.NumError); err != nil && !(isNE && ne.Err == strconv.ErrRange) || !sameBits(f, h.g) {
				c.Fail(vh.Failure{Kind: "correspondence", What: "parseFloatPrefix: strconv on the model's consumed text differs", Case: cs, Got: bitsStr(h.g), Want: a})
			}
		}
		if (w[2] == "1") != h.b {
			c.Fail(vh.Failure{Kind: "correspondence", What: "boolean(numStr): model differs", Case: cs, Got: fmt.Sprint(h.b), Want: w[2]})
		}
	}
}

// classifyWholePrefix: known-finding class of a whole/prefix disagreement. F07 (fixed): leading or trailing non-ASCII
// Unicode space. Nothing is listed as known, so every class is reported; the id only labels the replay.
func classifyWholePrefix(s string) string { return "" }

func enumerate(maxLen int, f func(string)) {
	var rec func(prefix string, depth int)
	rec = func(prefix string, depth int) {
		f(prefix)
		if depth == 0 {
			return
		}
		for _, a := range alphabet {
			rec(prefix+a, depth-1)
		}
	}
	rec("", maxLen)
}

var corpusStrings = []string{
	"\xc2\xa01", "1\xc2\xa0", "\xe2\x80\x831", "\u00851", // F07 (fixed): Unicode blanks
	"infinity", "+Infinity", "-INFINITY", "infinit", "infinityx", "inf", "+inf", "-inf", "Inf ", " inF", "in", "infx",
	"nan", "+nan", "-nan", "NaN", "+NAN", "nanx", "+nanx", "-nan ", " +nan", "na", "+na", "++nan",
	"0x", "0x1", "0X1", "0x1p3", "0X1P3", "0x1p", "0x1p+", "0x1p-2", "0x.8", "0x.", "0x.p1", "0x1.", "0x1.8p1", "-0x10", "+0x", "-0xg", "0xg", "0x1e5", "0x1e+5",
	"0x1p1p1", "0xp1", "0x1P", "+0x1p0", "0x_1", "0x1_0", "1_0", "_1", "1_", "1__0", "1e1_0", "0x1p1_0",
	"1e", "1e+", "1e-", "1e5", "1E5", "1e+5", "1e-5", "1.e5", ".e5", ".5e5", "1e5.5", "1e5e5", "1ee5", "e5", ".", "+.", "-.", "+", "-", "", " ", "\t\n\v\f\r",
	"1.2.3", "1..2", "+-1", "-+1", "--1", "1-", "1+1", " 1 ", "\t1\n", "\v1\f", "\r1\r", "1 2", "1\x00", "\x001", "\x1f1", "1\x1f", "\x1c1", "1\xa0", "\xa01", "\x851",
	"1e308", "1e309", "1.7976931348623157e308", "1.7976931348623158e308", "1.797693134862315807e308", "1.797693134862315808e308", "1.7976931348623159e308", "-1e309", "1e999", "1e99999999999999999999", "0e99999999999999999999", "0e999", ".0e999",
	"1e-323", "1e-324", "2e-324", "3e-324", "4.9406564584124654e-324", "2.4703282292062327e-324", "2.4703282292062328e-324", "1e-400", "1e-99999999999999999999",
	"0x1p1023", "0x1p1024", "0x1.fffffffffffffp1023", "0x1.fffffffffffff8p1023", "0x1.fffffffffffff7ffp1023", "0x1.fffffffffffff7ffffffffffffffp1023", "0x.8p1025", "0x1p-1074", "0x1p-1075", "0x1.8p-1075", "0x1.0000000000001p-1075", "0x1p-1076", "0x1p99999", "0x1p-99999", "0x0p99999", "0x1ffffffffffffffffffffffp0", "0x1.00000000000008p0", "0x1.00000000000018p0", "0x1.000000000000080000000000001p0",
	"9007199254740993", "9007199254740992", "9007199254740991", "18446744073709551616", "9223372036854775807", "9223372036854775808", "123456789012345678901234567890",
	"0.1", "0.10000000000000000555", "0.1000000000000000055511151231257827021181583404541015625", "0.30000000000000004", "179769313486231570000000000000000000000000000000000000000000000000000000000000000000000000000000000000000000000000000000000000000000000000000000000000000000000000000000000000000000000000000000000000000000000000000000000000000000000000000000000000000000000000000000000000000000000000000000000000000000",
	"-0", "+0", "-0.0", "-0e5", "-0x0", "-.0", "00", "007", "08", "1.", ".1", "-.1e-1", "１", "٣", "1,5", "1d5", "1f", "0b1", "0o7", "1p5", "0x1e", "0x1ep1",
}

func randomStrings(c *vh.Ctx, n int) []string {
	pieces := []string{"0", "1", "9", "5", "00", "123", "+", "-", ".", "e", "E", "e+", "e-", "0x", "0X", "p", "P", "p-", "nan", "NAN", "inf", "Inf", "infinity", "INFINITY",
		" ", "\t", "\n", "\r", "\v", "\f", "\xc2\xa0", "\xe2\x80\x83", "_", "a", "f", "F", "abc", "x", "308", "309", "324", "1023", "1024", "1074", "ffffffffffffff", "99999999999999999999", ",", "\x00", "\xff"}
	res := make([]string, 0, n)
	for len(res) < n {
		k := 1 + c.Rng.Intn(9)
		var b strings.Builder
		switch c.Rng.Intn(5) {
		case 4: // long digit runs (the correctly rounded value of 16-40 significant digits; seeded C05-p2: a digit-accumulating
			// fast path is 1 ulp off for a fifth of the 17-digit integers), plain or with a point / exponent / decorations
			b.WriteString([]string{"", "", "", " ", "+", "-"}[c.Rng.Intn(6)])
			nd := 14 + c.Rng.Intn(8)
			if c.Rng.Intn(4) == 0 {
				nd = 1 + c.Rng.Intn(40)
			}
			dot := -1
			if c.Rng.Intn(3) == 0 {
				dot = c.Rng.Intn(nd + 1)
			}
			for i := 0; i < nd; i++ {
				if i == dot {
					b.WriteByte('.')
				}
				if i == 0 && c.Rng.Intn(4) > 0 {
					b.WriteByte("123456789"[c.Rng.Intn(9)])
				} else {
					b.WriteByte("0123456789"[c.Rng.Intn(10)])
				}
			}
			if c.Rng.Intn(4) == 0 {
				b.WriteString([]string{"e", "E", "e+", "e-"}[c.Rng.Intn(4)])
				b.WriteString(strconv.Itoa(c.Rng.Intn(40)))
			}
			b.WriteString([]string{"", "", "", "", " ", "x", "\n"}[c.Rng.Intn(7)])
		case 0: // grammar-directed: a well-formed number with decorations, then maybe junk
			b.WriteString([]string{"", " ", "\t ", "\n"}[c.Rng.Intn(4)])
			b.WriteString([]string{"", "", "+", "-"}[c.Rng.Intn(4)])
			if c.Rng.Intn(3) == 0 {
				b.WriteString([]string{"0x", "0X"}[c.Rng.Intn(2)])
				for i := c.Rng.Intn(4); i > 0; i-- {
					b.WriteByte("0123456789abcdefABCDEF"[c.Rng.Intn(22)])
				}
				if c.Rng.Intn(2) == 0 {
					b.WriteByte('.')
					for i := c.Rng.Intn(4); i > 0; i-- {
						b.WriteByte("0123456789abcdefABCDEF"[c.Rng.Intn(22)])
					}
				}
				if c.Rng.Intn(2) == 0 {
					b.WriteString([]string{"p", "P", "p+", "p-"}[c.Rng.Intn(4)])
					b.WriteString(strconv.Itoa(c.Rng.Intn(1200)))
				}
			} else {
				for i := c.Rng.Intn(5); i > 0; i-- {
					b.WriteByte("0123456789"[c.Rng.Intn(10)])
				}
				if c.Rng.Intn(2) == 0 {
					b.WriteByte('.')
					for i := c.Rng.Intn(5); i > 0; i-- {
						b.WriteByte("0123456789"[c.Rng.Intn(10)])
					}
				}
				if c.Rng.Intn(2) == 0 {
					b.WriteString([]string{"e", "E", "e+", "e-"}[c.Rng.Intn(4)])
					if c.Rng.Intn(5) > 0 {
						b.WriteString(strconv.Itoa(c.Rng.Intn(340)))
					}
				}
			}
			b.WriteString([]string{"", "", " ", "\t\n", "x", "e", ".", "p1", "_", "\xc2\xa0", "0"}[c.Rng.Intn(11)])
		default:
			for i := 0; i < k; i++ {
				b.WriteString(pieces[c.Rng.Intn(len(pieces))])
			}
		}
		res = append(res, b.String())
	}
	return res
}

// ---- part B: number → string -------------------------------------------------------------------------------------------------

func interestingFloats(c *vh.Ctx, n int) []float64 {
	fs := []float64{0, math.Copysign(0, -1), 1, -1, 0.5, -0.5, 0.1, 1e5, 1e6, 123456, 1234567, 1234567.5, 0.0001, 0.00001, 100000.5, 999999.5, 9999995, 1e15, 1e16, 1e17, 1e18, 1e19, 1e20, 1e21, 1e22, 1e100, 1e300,
		1 << 53, 1<<53 + 2, 1<<53 - 1, -(1 << 53), 9223372036854775807, 9223372036854774784, 9223372036854775808, 9223372036854777856, -9223372036854775808, -9223372036854777856, -9223372036854774784,
		18446744073709551616, 4294967296, 2147483648.5, math.MaxFloat64, -math.MaxFloat64, math.SmallestNonzeroFloat64, -math.SmallestNonzeroFloat64, 2.2250738585072014e-308,
		math.Inf(1), math.Inf(-1), math.NaN(), math.Pi, math.E, 1.0 / 3, 2.0 / 3, 1e-5, 1e-4, 123456.5, 0.000123456789, 12345.678, 3.14, 1.5, 2.5, 0.15625, 1e6 + 0.5, 4503599627370496.5, 4503599627370495.5}
	for i := 0; i < n; i++ {
		switch i % 5 {
		case 0:
			fs = append(fs, math.Float64frombits(c.Rng.Uint64()))
		case 1:
			fs = append(fs, float64(c.Rng.Int63n(1<<20))/float64(1+c.Rng.Int63n(1000)))
		case 2:
			fs = append(fs, float64(c.Rng.Int63())*math.Pow(10, float64(c.Rng.Intn(40)-20)))
		case 3:
			fs = append(fs, math.Ldexp(float64(c.Rng.Int63n(1<<53)), c.Rng.Intn(30)-10)*float64(1-2*c.Rng.Intn(2)))
		case 4:
			fs = append(fs, math.Float64frombits(c.Rng.Uint64()&0x000fffffffffffff))
		}
	}
	return fs
}

type numCase struct {
	Bits   uint64 `json:"float64_bits"`
	Value  string `json:"value"`
	Format string `json:"format"`
}

func checkNumToStr(c *vh.Ctx) {
	fs := interestingFloats(c, c.N(2000, 40000))
	formats := []string{"%.6g", "%.2f", "%.10g", "%.3e", "%5.1f", "%.17g", "%d",
		// conversions WITHOUT a precision, with every flag and a width: C's default precision (6) applies whatever stands between
		// the % and the verb (seeded C05-r2: the default was not added after a space flag)
		"%g", "% g", "%+g", "%-g", "%#g", "%0g", "% 10g", "%- g", "%-12g", "%+012g", "%G", "% G", "%12G", "%e", "% e", "%-14E", "%f", "% f", "%+9f"}
	var reqs []string
	for _, f := range fs {
		integral := !math.IsNaN(f) && !math.IsInf(f, 0) && f == math.Trunc(f) && f >= -9223372036854775808 && f < 9223372036854775808
		c.Hit(fmt.Sprintf("num2str:integral=%v", integral))
		for _, format := range formats {
			cs := numCase{math.Float64bits(f), strconv.FormatFloat(f, 'g', -1, 64), format}
			c.OracleCase()
			c.Eval(fmt.Sprintf("n2s|%d|%s", cs.Bits, format), true)
			got := interp.VerifNumToStr(f, format)
			if format == "%d" && !integral {
				continue // %d of a non-integer is C09's business (Go's Sprintf("%d", float) is not C's)
			}
			want := refNumToStr(f, cFormatFlags(format))
			if got != want {
				c.Fail(vh.Failure{Kind: "oracle", What: "number → string: integral values in the int64 range print as exact integers, others through the format", Case: cs, Got: got, Want: want})
			}
		}
		reqs = append(reqs, "s "+bitsStrRaw(f))
	}
	if c.HasLean() {
		ans := c.LeanBatch(reqs)
		for i, a := range ans {
			c.Trace()
			f := fs[i]
			got := interp.VerifNumToStr(f, "%.6g")
			if math.IsNaN(f) && got == "nan" && a == vh.HxS("nan") {
				continue
			}
			if a != vh.HxS(got) {
				c.Fail(vh.Failure{Kind: "correspondence", What: "num(f).str(\"%.6g\"): model differs", Case: numCase{math.Float64bits(f), strconv.FormatFloat(f, 'g', -1, 64), "%.6g"}, Got: vh.HxS(got), Want: a})
			}
		}
	}
}

func bitsStrRaw(f float64) string { return strconv.FormatUint(math.Float64bits(f), 10) }

// ---- part C: AWK programs through the public API ----------------------------------------------------------------------------

// rv is an operand as the reference (and the Lean model) sees it.
type rv struct {
	kind byte // 'u' null, 's' string, 'n' number, 'f' numeric string (input-derived)
	s    string
	n    float64
}

func (v rv) lean() string {
	switch v.kind {
	case 'u':
		return "u"
	case 's':
		return "s" + vh.HxS(v.s)
	case 'f':
		return "f" + vh.HxS(v.s)
	}
	return "n" + bitsStrRaw(v.n)
}

func (v rv) numLike() (float64, bool) {
	switch v.kind {
	case 'u':
		return 0, true
	case 'n':
		return v.n, true
	case 'f':
		return refWhole(v.s)
	}
	return 0, false
}

func (v rv) str() string {
	if v.kind == 'n' {
		return refNumToStr(v.n, "%.6g")
	}
	return v.s
}

func (v rv) truth() bool {
	if n, ok := v.numLike(); ok {
		return n != 0
	}
	return v.s != ""
}

func (v rv) num() float64 {
	switch v.kind {
	case 'u':
		return 0
	case 'n':
		return v.n
	}
	return refPrefix(v.s)
}

var cmpOps = []string{"==", "!=", "<", "<=", ">", ">="}
var cmpToks = []string{"EQUALS", "NOT_EQUALS", "LESS", "LTE", "GREATER", "GTE"}
var cmpOpcodes = []string{"Equals", "NotEquals", "Less", "LessOrEqual", "Greater", "GreaterOrEqual"}

// refCompare: the six results "010110" by the property: numeric exactly when both are number-like, else as strings.
func refCompare(l, r rv) string {
	ln, lok := l.numLike()
	rn, rok := r.numLike()
	var res [6]bool
	if lok && rok {
		res = [6]bool{ln == rn, ln != rn, ln < rn, ln <= rn, ln > rn, ln >= rn}
	} else {
		a, b := l.str(), r.str()
		res = [6]bool{a == b, a != b, a < b, a <= b, a > b, a >= b}
	}
	var sb strings.Builder
	for _, x := range res {
		if x {
			sb.WriteByte('1')
		} else {
			sb.WriteByte('0')
		}
	}
	return sb.String()
}

// the AWK function that evaluates every comparison form for one pair; forms separated by '|':
// expression | if/else (inverted jump) | ?: (inverted) | do-while (normal jump) | while (inverted then normal) | !(…) | && form
const awkT = `
function T(a, b,   r, k) {
  r = (a==b) (a!=b) (a<b) (a<=b) (a>b) (a>=b) "|"
  if (a==b) r = r "1"; else r = r "0"
  if (a!=b) r = r "1"; else r = r "0"
  if (a<b) r = r "1"; else r = r "0"
  if (a<=b) r = r "1"; else r = r "0"
  if (a>b) r = r "1"; else r = r "0"
  if (a>=b) r = r "1"; else r = r "0"
  r = r "|" ((a==b) ? 1 : 0) ((a!=b) ? 1 : 0) ((a<b) ? 1 : 0) ((a<=b) ? 1 : 0) ((a>b) ? 1 : 0) ((a>=b) ? 1 : 0) "|"
  k = 0; do { if (k++) break } while (a==b); r = r (k-1)
  k = 0; do { if (k++) break } while (a!=b); r = r (k-1)
  k = 0; do { if (k++) break } while (a<b); r = r (k-1)
  k = 0; do { if (k++) break } while (a<=b); r = r (k-1)
  k = 0; do { if (k++) break } while (a>b); r = r (k-1)
  k = 0; do { if (k++) break } while (a>=b); r = r (k-1)
  r = r "|"
  k = 0; while (a==b) { if (++k >= 2) break }; r = r (k/2)
  k = 0; while (a!=b) { if (++k >= 2) break }; r = r (k/2)
  k = 0; while (a<b) { if (++k >= 2) break }; r = r (k/2)
  k = 0; while (a<=b) { if (++k >= 2) break }; r = r (k/2)
  k = 0; while (a>b) { if (++k >= 2) break }; r = r (k/2)
  k = 0; while (a>=b) { if (++k >= 2) break }; r = r (k/2)
  r = r "|" (!(a==b)) (!(a!=b)) (!(a<b)) (!(a<=b)) (!(a>b)) (!(a>=b)) "|"
  if (!(a==b)) r = r "1"; else r = r "0"
  if (!(a!=b)) r = r "1"; else r = r "0"
  if (!(a<b)) r = r "1"; else r = r "0"
  if (!(a<=b)) r = r "1"; else r = r "0"
  if (!(a>b)) r = r "1"; else r = r "0"
  if (!(a>=b)) r = r "1"; else r = r "0"
  r = r "|"
  for (k = 0; a==b; ) { if (++k >= 2) break }; r = r (k/2)
  for (k = 0; a!=b; ) { if (++k >= 2) break }; r = r (k/2)
  for (k = 0; a<b; ) { if (++k >= 2) break }; r = r (k/2)
  for (k = 0; a<=b; ) { if (++k >= 2) break }; r = r (k/2)
  for (k = 0; a>b; ) { if (++k >= 2) break }; r = r (k/2)
  for (k = 0; a>=b; ) { if (++k >= 2) break }; r = r (k/2)
  return r
}
function U(a) { return (!a) "|" sprintf("%.17g", a+0) "|" sprintf("%.17g", -a) "|" (a ? "t" : "f") "|" (a "") }
`

// operand expressions available in the two probe programs and the value each has for given texts L, R
type operand struct {
	name string // provenance label
	expr string // AWK expression
	val  func(L, R string) rv
}

func numOf(s string) float64 { return refPrefix(s) + 0 }

var constOperands = []operand{
	{"unset", "unsetvar", func(L, R string) rv { return rv{kind: 'u'} }},
	{"const-num-1", "1", func(L, R string) rv { return rv{kind: 'n', n: 1} }},
	{"const-num-10", "10", func(L, R string) rv { return rv{kind: 'n', n: 10} }},
	{"const-num-0", "0", func(L, R string) rv { return rv{kind: 'n', n: 0} }},
	{"const-num-half", "0.5", func(L, R string) rv { return rv{kind: 'n', n: 0.5} }},
	{"const-num-big", "1e300", func(L, R string) rv { return rv{kind: 'n', n: 1e300} }},
	{"computed-nan", "nanv", func(L, R string) rv { return rv{kind: 'n', n: math.NaN()} }},
	{"computed-inf", "infv", func(L, R string) rv { return rv{kind: 'n', n: math.Inf(1)} }},
	{"const-str-1", `"1"`, func(L, R string) rv { return rv{kind: 's', s: "1"} }},
	{"const-str-10", `"10"`, func(L, R string) rv { return rv{kind: 's', s: "10"} }},
	{"const-str-abc", `"abc"`, func(L, R string) rv { return rv{kind: 's', s: "abc"} }},
	{"const-str-empty", `""`, func(L, R string) rv { return rv{kind: 's', s: ""} }},
	{"const-str-sp1", `" 1"`, func(L, R string) rv { return rv{kind: 's', s: " 1"} }},
}

func fL(L, R string) rv { return rv{kind: 'f', s: L} }
func fR(L, R string) rv { return rv{kind: 'f', s: R} }

// split("") yields no elements: SL[1] is then an unset array element
func splitL(L, R string) rv {
	if L == "" {
		return rv{kind: 'u'}
	}
	return fL(L, R)
}
func splitR(L, R string) rv {
	if R == "" {
		return rv{kind: 'u'}
	}
	return fR(L, R)
}

var progAleft = []operand{
	{"field", "$1", fL}, {"field-var", "fl", fL}, {"getline-var", "gl", fL}, {"getline-array", "GA[1]", fL}, {"record", "zl", fL}, {"split", "SL[1]", splitL},
	{"computed-num", "nl", func(L, R string) rv { return rv{kind: 'n', n: numOf(L)} }},
	{"computed-str", "cl", func(L, R string) rv { return rv{kind: 's', s: L} }},
}
var progAright = []operand{
	{"field", "$2", fR}, {"field-var", "fr", fR}, {"getline-var", "gr", fR}, {"getline-array", "GA[2]", fR}, {"record", "zr", fR}, {"split", "SR[1]", splitR},
	{"computed-num", "nr", func(L, R string) rv { return rv{kind: 'n', n: numOf(R)} }},
	{"computed-str", "cr", func(L, R string) rv { return rv{kind: 's', s: R} }},
}
var progBleft = []operand{{"ARGV", "ARGV[1]", fL}, {"ENVIRON", `ENVIRON["L"]`, fL}, {"Vars", "vl", fL}, {"ARGV-var", "al", fL}}
var progBright = []operand{{"ARGV", "ARGV[2]", fR}, {"ENVIRON", `ENVIRON["R"]`, fR}, {"Vars", "vr", fR}, {"ARGV-var", "ar", fR}}

type pairSpec struct{ l, r operand }

func buildPairs(left, right []operand, withConstConst bool) []pairSpec {
	var ps []pairSpec
	for _, l := range left {
		for _, r := range right {
			ps = append(ps, pairSpec{l, r})
		}
		for _, k := range constOperands {
			ps = append(ps, pairSpec{l, k})
		}
	}
	for _, r := range right {
		for _, k := range constOperands {
			ps = append(ps, pairSpec{k, r})
		}
	}
	if withConstConst {
		for _, a := range constOperands {
			for _, b := range constOperands {
				ps = append(ps, pairSpec{a, b})
			}
		}
	}
	// the same text against itself through two provenances (x vs x+0, x vs x "")
	for _, l := range left {
		for _, l2 := range left {
			if l.name < l2.name {
				ps = append(ps, pairSpec{l, l2})
			}
		}
	}
	return ps
}

func buildProg(setup string, pairs []pairSpec, unary []operand) string {
	var b strings.Builder
	b.WriteString(awkT)
	b.WriteString("BEGIN {\n  nanv = log(-1); infv = -log(0)\n")
	b.WriteString(setup)
	for i, p := range pairs {
		fmt.Fprintf(&b, "  print \"P%d\", T(%s, %s)\n", i, p.l.expr, p.r.expr)
	}
	for i, u := range unary {
		fmt.Fprintf(&b, "  print \"U%d\", U(%s)\n", i, u.expr)
	}
	b.WriteString("}\n")
	return b.String()
}

const setupA = `  RS = "\002"; FS = "\001"
  getline gl; getline gr; getline GA[1]; getline GA[2]
  getline; zl = $0; getline; zr = $0
  getline
  fl = $1; fr = $2
  split($1, SL, "\003"); split($2, SR, "\003")
  nl = $1 + 0; nr = $2 + 0; cl = $1 ""; cr = $2 ""
`
const setupB = `  al = ARGV[1]; ar = ARGV[2]
`

type probeCase struct {
	Program string `json:"program"`
	L       string `json:"left_text_hex"`
	R       string `json:"right_text_hex"`
	Left    string `json:"left_operand"`
	Right   string `json:"right_operand"`
	Form    string `json:"form,omitempty"`
}

var formNames = []string{"expression", "if-else", "?:", "do-while", "while", "!(expression)", "if(!(…))", "for"}

func textOK(s string) bool {
	return !strings.ContainsAny(s, "\x00\x01\x02\x03")
}

var probeTexts = []string{"1", "1.0", "+1", " 1 ", "1e0", "0x1", "0x1p0", "10", "9", "abc", "", " ", "1x", ".", "+", "-0", "0", "0.0", "nan", "+nan", "-nan", "inf", "-inf", "infinity",
	"1e999", "0x", "1_0", "\xc2\xa01", "1e", "1e+", ".5", "5.", "010", "1 2", "0x1.8", "1E1", "100", "  +1.50  ", "0x10", "1e1", "0.5", "\t10\n", "A", "a", "B", "-1", "-10", "- 1", "1e300", "1e-300", "0.1", "1e308", "9007199254740993", "9007199254740992", "0x1p", "1.5x", "٣"}

func checkPrograms(c *vh.Ctx) {
	pairsA := buildPairs(progAleft, progAright, true)
	pairsB := buildPairs(progBleft, progBright, false)
	unaryA := append(append([]operand{}, progAleft...), constOperands...)
	unaryB := progBleft
	srcA := buildProg(setupA, pairsA, unaryA)
	srcB := buildProg(setupB, pairsB, unaryB)
	progA, progB := vh.MustParse(srcA), vh.MustParse(srcB)

	// text pairs
	type tp struct{ L, R string }
	var tps []tp
	seen := map[tp]bool{}
	add := func(L, R string) {
		if !textOK(L) || !textOK(R) || seen[tp{L, R}] {
			return
		}
		seen[tp{L, R}] = true
		tps = append(tps, tp{L, R})
	}
	// corpus first
	add("\xc2\xa01", "1")            // F07 (fixed)
	add("1e999", "2e999")            // out-of-range literals are strings
	add("nan", "nan")                // NaN: F01 (fixed) — inverted ordering jumps
	add("+nan", "1")
	add("10", "9")
	add(" 10 ", "9.0")
	add("0x10", "16")
	add("abc", "abd")
	add("", "0")
	add("\t -0xp317p1", "-0xg") // sign-of-zero observation G05-1: hex prefix without digits gives +0, the longest numeric prefix "-0" is -0
	nPairs := c.N(60, 600)
	for len(tps) < nPairs/2 {
		add(probeTexts[c.Rng.Intn(len(probeTexts))], probeTexts[c.Rng.Intn(len(probeTexts))])
	}
	rs := randomStrings(c, nPairs)
	for i := 0; len(tps) < nPairs && i+1 < len(rs); i += 2 {
		if c.Rng.Intn(2) == 0 {
			add(rs[i], rs[i+1])
		} else {
			add(rs[i], probeTexts[c.Rng.Intn(len(probeTexts))])
		}
	}

	type job struct {
		prog  string // "A" | "B"
		t     tp
		pairs []pairSpec
		unary []operand
	}
	var jobs []job
	for _, t := range tps {
		jobs = append(jobs, job{"A", t, pairsA, unaryA})
		if !strings.Contains(t.L, "=") || true {
			jobs = append(jobs, job{"B", t, pairsB, unaryB})
		}
	}
	outs := make([]vh.RunResult, len(jobs))
	vh.Parallel(len(jobs), func(i int) {
		j := jobs[i]
		if j.prog == "A" {
			in := j.t.L + "\x02" + j.t.R + "\x02" + j.t.L + "\x02" + j.t.R + "\x02" + j.t.L + "\x02" + j.t.R + "\x02" + j.t.L + "\x01" + j.t.R + "\x02"
			outs[i] = vh.ExecProg(progA, &interp.Config{Stdin: strings.NewReader(in)})
		} else {
			outs[i] = vh.ExecProg(progB, &interp.Config{Stdin: strings.NewReader(""), Args: []string{j.t.L, j.t.R},
				Environ: []string{"L", j.t.L, "R", j.t.R}, Vars: []string{"vl", j.t.L, "vr", j.t.R}})
		}
	})

	var reqs []string
	type reqInfo struct {
		cs   probeCase
		want string // real code's answer for this request
	}
	var infos []reqInfo
	leanBudget := c.N(60000, 600000)
	for i, j := range jobs {
		o := outs[i]
		base := probeCase{Program: j.prog, L: vh.HxS(j.t.L), R: vh.HxS(j.t.R)}
		if o.Panic != "" || o.Err != "" {
			c.OracleCase()
			c.Fail(vh.Failure{Kind: "oracle", What: "probe program failed: " + o.String()[:min(300, len(o.String()))], Case: base})
			continue
		}
		lines := splitProbeOutput(o.Out, len(j.pairs), len(j.unary))
		if lines == nil {
			c.OracleCase()
			c.Fail(vh.Failure{Kind: "oracle", What: "probe output is not one line per probe (a value printed a line break?)", Case: base, Got: o.Out[:min(300, len(o.Out))]})
			continue
		}
		for k, p := range j.pairs {
			l, r := p.l.val(j.t.L, j.t.R), p.r.val(j.t.L, j.t.R)
			cs := base
			cs.Left, cs.Right = p.l.name+" "+p.l.expr, p.r.name+" "+p.r.expr
			forms := strings.Split(lines["P"+strconv.Itoa(k)], "|")
			c.OracleCase()
			_, lok := l.numLike()
			_, rok := r.numLike()
			mode := "string"
			if lok && rok {
				mode = "numeric"
			}
			c.Eval(fmt.Sprintf("cmp|%s|%s|%s|%s", p.l.name, p.r.name, l.lean(), r.lean()), l.kind == 'f' || r.kind == 'f')
			c.Hit("cmp:mode:" + mode)
			c.Hit("cmp:left:" + p.l.name)
			c.Hit("cmp:right:" + p.r.name)
			if len(forms) != len(formNames) {
				c.Fail(vh.Failure{Kind: "oracle", What: "unreadable probe line", Case: cs, Got: lines["P"+strconv.Itoa(k)]})
				continue
			}
			e := forms[0]
			if len(e) != 6 || strings.Trim(e, "01") != "" {
				c.Fail(vh.Failure{Kind: "oracle", What: "comparison results are not 0/1", Case: cs, Got: e})
				continue
			}
			// the six operators are mutually consistent
			eq, ne, lt, le, gt, ge := e[0] == '1', e[1] == '1', e[2] == '1', e[3] == '1', e[4] == '1', e[5] == '1'
			ln, _ := l.numLike()
			rn, _ := r.numLike()
			nanInvolved := mode == "numeric" && (math.IsNaN(ln) || math.IsNaN(rn))
			c.Hit(fmt.Sprintf("cmp:nan=%v", nanInvolved))
			if ne == eq {
				c.Fail(vh.Failure{Kind: "oracle", What: "a != b is not the negation of a == b", Case: cs, Got: e})
			}
			if !nanInvolved {
				n := 0
				for _, x := range []bool{lt, eq, gt} {
					if x {
						n++
					}
				}
				if n != 1 || le != !gt || ge != !lt {
					c.Fail(vh.Failure{Kind: "oracle", What: "for non-NaN operands exactly one of <, ==, > holds and a<=b iff !(a>b), a>=b iff !(a<b)", Case: cs, Got: e})
				}
			}
			// reference evaluation: numeric exactly when both operands are number-like
			if want := refCompare(l, r); e != want {
				c.Fail(vh.Failure{Kind: "oracle", What: "comparison differs from the value model (numeric exactly when both operands are a number, unset, or numeric-looking input; else string comparison): mode should be " + mode,
					Case: cs, Got: e, Want: want})
			}
			// fused forms
			for f := 1; f < len(forms); f++ {
				want := e
				if f == 5 || f == 6 {
					want = negate(e)
				}
				if forms[f] != want {
					cf := cs
					cf.Form = formNames[f]
					c.Fail(vh.Failure{Kind: "oracle", What: "a comparison used as a condition (" + formNames[f] + ") disagrees with its value as an expression", Case: cf, Got: forms[f], Want: want})
				}
			}
			// correspondence requests
			if c.HasLean() && len(reqs) < leanBudget {
				for q := 0; q < 6; q++ {
					reqs = append(reqs, fmt.Sprintf("c %s %s %s", cmpOpcodes[q], l.lean(), r.lean()))
					infos = append(infos, reqInfo{cs, string(refOrder(e)[q])})
					// the `if` form jumps over the then-branch when the condition is false (invert), do-while jumps back when true
					reqs = append(reqs, fmt.Sprintf("j %s 0 %s %s", cmpToksInOpcodeOrder[q], l.lean(), r.lean()))
					infos = append(infos, reqInfo{cs, string(refOrder(forms[3])[q])})
					reqs = append(reqs, fmt.Sprintf("j %s 1 %s %s", cmpToksInOpcodeOrder[q], l.lean(), r.lean()))
					infos = append(infos, reqInfo{cs, string(negate(refOrder(forms[1]))[q])})
				}
			}
		}
		// a swapped pair must mirror: a<b iff b>a (same run, operands exchanged, for pairs present in both directions)
		for k, p := range j.pairs {
			for k2, p2 := range j.pairs {
				if k2 <= k || p.l.name != p2.r.name || p.r.name != p2.l.name || p.l.expr != p2.r.expr || p.r.expr != p2.l.expr {
					continue
				}
				a := strings.Split(lines["P"+strconv.Itoa(k)], "|")[0]
				b := strings.Split(lines["P"+strconv.Itoa(k2)], "|")[0]
				if len(a) == 6 && len(b) == 6 && (a[2] != b[4] || a[4] != b[2] || a[3] != b[5] || a[5] != b[3] || a[0] != b[0]) {
					cs := base
					cs.Left, cs.Right = p.l.expr, p.r.expr
					c.Fail(vh.Failure{Kind: "oracle", What: "a<b is not b>a after exchanging the operands", Case: cs, Got: a + " vs " + b})
				}
			}
		}
		// unary: truth test, arithmetic, concatenation agree on the number / text
		for k, u := range j.unary {
			v := u.val(j.t.L, j.t.R)
			cs := base
			cs.Left = u.name + " " + u.expr
			c.OracleCase()
			c.Hit("unary:" + u.name)
			parts := strings.SplitN(lines["U"+strconv.Itoa(k)], "|", 5)
			if len(parts) != 5 {
				c.Fail(vh.Failure{Kind: "oracle", What: "unreadable unary probe line", Case: cs, Got: lines["U"+strconv.Itoa(k)]})
				continue
			}
			wantNot := "1"
			if v.truth() {
				wantNot = "0"
			}
			wantT := map[bool]string{true: "t", false: "f"}[v.truth()]
			if parts[0] != wantNot || parts[3] != wantT {
				c.Fail(vh.Failure{Kind: "oracle", What: "truth test differs from the value model (number-like: non-zero; else non-empty)", Case: cs, Got: parts[0] + parts[3], Want: wantNot + wantT})
			}
			if got, want := normFloatText(parts[1]), normFloatText(fmt.Sprintf("%.17g", v.num()+0)); got != want {
				c.Fail(vh.Failure{Kind: "oracle", What: "x+0 is not the value of the longest leading numeric prefix", Case: cs, Got: got, Want: want})
			}
			if got, want := normFloatText(parts[2]), normFloatText(fmt.Sprintf("%.17g", -v.num())); got != want {
				c.Fail(vh.Failure{Kind: "oracle", What: "-x is not minus the value of the longest leading numeric prefix", Case: cs, Got: got, Want: want})
			}
			ws := v.str()
			if got, want := parts[4], ws; got != want {
				c.Fail(vh.Failure{Kind: "oracle", What: "x \"\" is not the text (or the number printed as integer / through CONVFMT)", Case: cs, Got: got, Want: want})
			}
			if n, ok := v.numLike(); ok && v.kind == 'f' && !sameNum(n, v.num()) {
				c.Fail(vh.Failure{Kind: "oracle", What: "reference inconsistency: whole and prefix values differ", Case: cs})
			}
		}
	}
	if c.HasLean() {
		ans := c.LeanBatch(reqs)
		for i, a := range ans {
			c.Trace()
			if a != infos[i].want {
				c.Fail(vh.Failure{Kind: "correspondence", What: "comparison: Lean model and real program differ on request `" + reqs[i] + "`", Case: infos[i].cs, Got: infos[i].want, Want: a})
			}
		}
	}
}

// the probe prints ==,!=,<,<=,>,>=; the opcode list is Equals,NotEquals,Less,LessOrEqual,Greater,GreaterOrEqual: same order.
var cmpToksInOpcodeOrder = cmpToks

func refOrder(s string) string { return s }

func negate(s string) string {
	b := []byte(s)
	for i := range b {
		if b[i] == '0' {
			b[i] = '1'
		} else if b[i] == '1' {
			b[i] = '0'
		}
	}
	return string(b)
}

func normFloatText(s string) string {
	s = strings.ToLower(strings.TrimPrefix(s, "+"))
	if s == "-nan" {
		return "nan"
	}
	if s == "-0" {
		return "0" // the sign of a zero is not part of "the same number" (see the note on "-0x" + non-hex-digit)
	}
	return s
}

func splitProbeOutput(out string, nPairs, nUnary int) map[string]string {
	lines := strings.Split(strings.TrimSuffix(out, "\n"), "\n")
	if len(lines) != nPairs+nUnary {
		// values may contain line breaks: re-join lines that do not start with a probe label
		var joined []string
		for _, l := range lines {
			if isLabelLine(l) || len(joined) == 0 {
				joined = append(joined, l)
			} else {
				joined[len(joined)-1] += "\n" + l
			}
		}
		lines = joined
		if len(lines) != nPairs+nUnary {
			return nil
		}
	}
	m := map[string]string{}
	for _, l := range lines {
		i := strings.IndexByte(l, ' ')
		if i < 0 {
			return nil
		}
		m[l[:i]] = l[i+1:]
	}
	return m
}

func isLabelLine(l string) bool {
	if len(l) < 3 || (l[0] != 'P' && l[0] != 'U') {
		return false
	}
	i := 1
	for i < len(l) && l[i] >= '0' && l[i] <= '9' {
		i++
	}
	return i > 1 && i < len(l) && l[i] == ' '
}

// ---- part D: CONVFMT / OFMT through programs; FILENAME provenance ---------------------------------------------------------------

func checkFormats(c *vh.Ctx) {
	nums := []string{"3.14159", "2", "1e6", "1234567.5", "0.1", "100000", "1e18", "9223372036854775807", "9223372036854775808", "-9223372036854775808", "1e19", "0.000001", "123456789012", "17.0", "2^53", "2^53+1", "2^63", "-2^63", "2^64", "1/3", "-1/3", "1e300*1e300", "-1e300*1e300", "log(-1)", "-0", "0.5", "1e15+0.5", "1e16"}
	vals := []float64{3.14159, 2, 1e6, 1234567.5, 0.1, 100000, 1e18, 9223372036854775807, 9223372036854775808, -9223372036854775808, 1e19, 0.000001, 123456789012, 17, 1 << 53, 1<<53 + 1, 9223372036854775808, -9223372036854775808, 18446744073709551616, 1.0 / 3, -1.0 / 3, math.Inf(1), math.Inf(-1), math.NaN(), 0, 0.5, 1e15 + 0.5, 1e16}
	fmts := []string{"%.6g", "%.2f", "%.10g", "%.3e", "%.17g"}
	for _, cf := range fmts {
		for _, of := range fmts {
			if cf != "%.6g" && of != "%.6g" && cf != of && !c.Thorough() {
				continue
			}
			var b strings.Builder
			fmt.Fprintf(&b, "BEGIN { CONVFMT = \"%s\"; OFMT = \"%s\"\n", cf, of)
			for _, n := range nums {
				fmt.Fprintf(&b, "  x = %s; print x; print (x \"\"); y = x; print (y \"\") \"\"; delete A; A[x]; for (k in A) print k\n", n)
			}
			b.WriteString("}\n")
			res := vh.ExecProg(vh.MustParse(b.String()), &interp.Config{})
			cs := map[string]string{"CONVFMT": cf, "OFMT": of}
			c.OracleCase()
			c.Eval("fmt|"+cf+"|"+of, true)
			lines := strings.Split(strings.TrimSuffix(res.Out, "\n"), "\n")
			if res.Err != "" || res.Panic != "" || len(lines) != 4*len(nums) {
				c.Fail(vh.Failure{Kind: "oracle", What: "format probe failed: " + res.String()[:min(200, len(res.String()))], Case: cs})
				continue
			}
			for i, v := range vals {
				c.Hit("fmtprobe:values")
				wantPrint, wantConv := refNumToStr(v, of), refNumToStr(v, cf)
				got := lines[4*i : 4*i+4]
				if got[0] != wantPrint || got[1] != wantConv || got[2] != wantConv || got[3] != wantConv {
					c.Fail(vh.Failure{Kind: "oracle", What: "print uses OFMT, string conversion (concatenation, array subscript) uses CONVFMT, integers print exactly",
						Case: map[string]string{"CONVFMT": cf, "OFMT": of, "number": nums[i]}, Got: strings.Join(got, ","), Want: wantPrint + "," + wantConv + "," + wantConv + "," + wantConv})
				}
			}
		}
	}
	// FILENAME provenance (serial: needs the working directory)
	dir, err := os.MkdirTemp("", "c05fn")
	if err != nil {
		c.Note("FILENAME probe skipped: " + err.Error())
		return
	}
	defer os.RemoveAll(dir)
	old, _ := os.Getwd()
	if os.Chdir(dir) != nil {
		c.Note("FILENAME probe skipped: chdir")
		return
	}
	defer os.Chdir(old)
	prog := vh.MustParse(awkT + `{ print T(FILENAME, 9) "#" T(FILENAME, "9") "#" U(FILENAME); exit }`)
	for _, name := range []string{"10", " 10", "0x10", "1e1", "abc", "10x", "+nan", "1e999", "010", ".5"} {
		if os.WriteFile(name, []byte("x\n"), 0o644) != nil {
			continue
		}
		res := vh.ExecProg(prog, &interp.Config{Args: []string{name}})
		c.OracleCase()
		c.Hit("cmp:left:FILENAME")
		c.Eval("filename|"+name, true)
		parts := strings.Split(strings.TrimSuffix(res.Out, "\n"), "#")
		v := rv{kind: 'f', s: name}
		cs := probeCase{Program: "FILENAME", L: vh.HxS(name), Left: "FILENAME"}
		if res.Err != "" || len(parts) != 3 {
			c.Fail(vh.Failure{Kind: "oracle", What: "FILENAME probe failed: " + res.String(), Case: cs})
			continue
		}
		for k, r := range []rv{{kind: 'n', n: 9}, {kind: 's', s: "9"}} {
			forms := strings.Split(parts[k], "|")
			if want := refCompare(v, r); forms[0] != want {
				c.Fail(vh.Failure{Kind: "oracle", What: "FILENAME compares differently from the value model", Case: cs, Got: forms[0], Want: want})
			}
		}
	}
}

// ---- driver ------------------------------------------------------------------------------------------------------------------------

func run(c *vh.Ctx) {
	c.Rule("(A) strings: the fixed corpus, EVERY string of up to N symbols over a 20-symbol numeric alphabet (digits 0 1 9, + - . e E x X p P n a i f, space, tab, " +
		"the two bytes of NBSP, _; N=4 quick, 5 thorough) and random longer ones (grammar-directed numbers with decorations and junk; overflow/underflow edges); " +
		"non-trivial = the implementation or the reference calls it numeric. (B) float64 values at the 2^53/2^63/subnormal/overflow edges and random bit patterns × 7 formats. " +
		"(C) pairs of texts × every pair of provenances (field, field copy, getline variable/array element, $0, split element, ARGV, ENVIRON, Vars, computed number, computed string, " +
		"constants, unset, NaN, Inf) × six operators × eight syntactic forms; non-trivial = an input-derived operand is involved. (D) CONVFMT/OFMT × numbers; FILENAME. " +
		"(E) histories: 2–5 records of 1–5 fields from a pool where string and numeric order differ (10 9 1e1 +5 010 …), FS blank or comma, after the probe of each record one of ~30 operations " +
		"(assign $k/$0/NF, grow/shrink, sub/gsub, ++, getline into $k/$0/NF/var, plain getline then probe); every field of every FRESH record must compare by its own text, incl. records byte-identical to the previous record / to its rebuilt $0 (OFS = FS and ≠ FS) / to an assigned $0; non-trivial = an operation precedes a later record. " +
		"(F) reuse: 2–4 Execute calls on one Interpreter, CONVFMT/OFMT (9 formats) set in BEGIN / action / Vars, ResetVars or not between runs; conversions and reads of CONVFMT/OFMT in every run vs the tracked state; non-trivial = a later run depends on an earlier one or on ResetVars. " +
		"(G) failed operations: target (global, function local, global/local array element with constant / variable / multi-dimensional subscript, $k, $0, 13 special variables) × what it held " +
		"(unset, input-derived text through Vars / getline / split / ENVIRON / copy, number, string; 36 texts) × ~33 operation classes that fail, find nothing or do not happen " +
		"(getline from a missing file / directory / empty name / empty file / file at its end; cmd | getline from a silent, unknown, exhausted command or with a shell that cannot start; " +
		"plain getline at the end of input / with an unopenable next ARGV file / a directory / a failing reader; split of nothing; sub/gsub without match; failing match; for-in over nothing; " +
		"unreached assignments; read-only uses; copies; delete) and their succeeding twins as positive controls × BEGIN / first record / END × inline / in a function × probed before or not; " +
		"16 comparison/truth probes + v+0 + v \"\" against the reference typing, and before = after when nothing is stored; non-trivial = the operation must store nothing.")
	// A
	checkStrings(c, corpusStrings, "corpus")
	var all []string
	enumerate(c.N(4, 5), func(s string) { all = append(all, s) })
	for off := 0; off < len(all); off += 400000 {
		checkStrings(c, all[off:min(off+400000, len(all))], "enum")
	}
	all = nil
	checkStrings(c, randomStrings(c, c.N(20000, 400000)), "random")
	// B
	checkNumToStr(c)
	// C
	checkPrograms(c)
	// D
	checkFormats(c)
	// E
	checkHistory(c)
	// F
	checkReuse(c)
	// G
	checkFailOps(c)
	keys := []string{}
	for _, k := range alphabet {
		keys = append(keys, strconv.Quote(k))
	}
	sort.Strings(keys)
	c.Note("alphabet: " + strings.Join(keys, " "))
	c.Note("observation G05-1 (not counted as a violation: -0 == 0): parseFloatPrefix(\"-0x\" + non-hex-digit) returns +0 although the longest numeric prefix \"-0\" is -0; " +
		"visible only through printf(\"%g\", -x) / 1/x; occurrences in this run are counted under note:prefix-sign-of-zero-differs-from-reference")
	c.Note("out-of-range literals (\"1e999\") are not numeric-looking (parseFloat reports ErrRange; same rule as onetrue-awk's ERANGE test); " +
		"the reference grammar follows that reading")
}

// cFormatFlags: a single floating conversion as C reads it — when it has no precision the precision is 6, for e E f F g G alike
// and whatever flags and width stand before the verb. (Go's fmt agrees for e and f; its %g without precision is the shortest form.)
func cFormatFlags(f string) string {
	if len(f) < 2 || f[0] != '%' || strings.Contains(f, ".") {
		return f
	}
	switch f[len(f)-1] {
	case 'g', 'G', 'e', 'E', 'f', 'F':
		return f[:len(f)-1] + ".6" + f[len(f)-1:]
	}
	return f
}
