package main

// C09, print/OFMT on every output path and the mirror clause for CONVFMT.
//
// Oracle (no model): the text of each print argument is fixed by its kind — a string or an input field prints as its text, an
// integral number inside int64 as the integer, any other number as C printf(OFMT, value) (libc) — and every output path must
// emit exactly those texts: output mode default/csv/tsv x destination stdout, > file, >> file, | cmd, > "/dev/stdout" x
// `print a, b`, `print(a, b)`, bare `print`. OFMT and CONVFMT are always different, so a path that converts with the wrong
// one shows. Mirror: concatenation, array subscripts, string comparison, length/substr/index/toupper, printf %s and field
// assignment must use CONVFMT. For formats C leaves undefined for a double (%d-like) and for values whose printed form the
// property does not fix (integral beyond int64, non-finite) the reference text is measured once on the plain path
// (`print v` to stdout in default mode; `v ""` for CONVFMT) and every other path must agree with it.

import (
	"bytes"
	"encoding/csv"
	"fmt"
	"math"
	"os"
	"path/filepath"
	"strconv"
	"strings"

	"github.com/benhoyt/goawk/interp"

	"verifharness/vh"
)

type pval struct {
	Kind string  `json:"kind"` // const | computed | field | str
	F    float64 `json:"-"`
	Bits string  `json:"bits,omitempty"`
	Expr string  `json:"expr"`           // AWK expression
	Text string  `json:"text,omitempty"` // field / string text
}

type pcase struct {
	Mode   string `json:"mode"` // default | csv | tsv
	Dest   string `json:"dest"` // stdout | file | append | pipe | devstdout
	Form   string `json:"form"` // list | paren | bare
	OFMT   string `json:"ofmt"`
	CONV   string `json:"convfmt"`
	OFS    string `json:"ofs"`
	ORS    string `json:"ors"`
	ViaVar bool   `json:"formats_via_vars"` // OFMT/CONVFMT given as Config.Vars instead of BEGIN assignments
	Vals   []pval `json:"vals"`
	Src    string `json:"program"`
	Input  string `json:"input"`
}

var cFloatFmts = []string{"%.2f", "%.10g", "%.3e", "%g", "%.0f", "%8.3f", "%.17g", "%E", "%.1f", "%#.3g", "%+.4f", "%.6g", "%.5g"}
var dLikeFmts = []string{"%d", "%i", "%5d", "%x", "%s", "%c"}

func isCFloatFmt(f string) bool {
	for _, x := range cFloatFmts {
		if x == f {
			return true
		}
	}
	return false
}

func numIsPlainInt(f float64) (int64, bool) {
	n, ok := truncInt64(f)
	return n, ok && float64(n) == f
}

func randPVal(c *vh.Ctx, nField *int, fields *[]string) pval {
	mkNum := func(kind string, f float64, expr string) pval {
		return pval{Kind: kind, F: f, Bits: fmt.Sprintf("%016x", math.Float64bits(f)), Expr: expr}
	}
	switch k := c.Rng.Intn(20); {
	case k < 6: // constant, mostly non-integral
		f := pick(c, []float64{3.14159265358979, 0.1, 2.5, -2.675, 1.0 / 3, 100000.0 / 3, 1234567.891, 1e-5, 0.000123456789, 1e21 + 0.0, 5e-324, -0.5, 99.995, 1e15 + 0.5, 123456.7})
		if c.Rng.Intn(3) == 0 {
			f = randFloatArg(c)
		}
		return mkNum("const", f, awkNumExpr(f))
	case k < 9: // computed
		a := float64(c.Rng.Intn(2000) - 1000)
		b := pick(c, []float64{3, 7, 8, 10, 16, 1000, 0.3})
		switch c.Rng.Intn(3) {
		case 0:
			return mkNum("computed", a/b, fmt.Sprintf("(%s / %s)", awkNumExpr(a), awkNumExpr(b)))
		case 1:
			return mkNum("computed", a*b+0.25, fmt.Sprintf("(%s * %s + 0.25)", awkNumExpr(a), awkNumExpr(b)))
		}
		return mkNum("computed", a+0, fmt.Sprintf("(%s + 0)", awkNumExpr(a))) // integral, computed
	case k < 11: // integral constants in / out of the int64 range
		f := pick(c, []float64{0, 1, -1, 42, 1e6, 123456789012, 9007199254740993, -9223372036854775808, 9223372036854775808, 1e30, -1e30, 1e19, math.Copysign(0, -1)})
		return mkNum("const", f, awkNumExpr(f))
	case k < 12:
		f := pick(c, c09NonFinite)
		return mkNum("computed", f, awkNumExpr(f))
	case k < 16: // input field: prints as its text whatever it looks like
		t := pick(c, []string{"3.14159", "1e3", "0x10", "abc", "2.50", "007", "1.0", "+5", ".5", "1e-3", "12abc", "100000000000000000000", "3.0000000001", "x y"})
		*fields = append(*fields, t)
		*nField++
		return pval{Kind: "field", Expr: fmt.Sprintf("$%d", *nField), Text: t}
	default:
		t := pick(c, []string{"foo", "3.0", "1e2", "", "a b", "0.10", "é", "-"})
		return pval{Kind: "str", Expr: awkStrLit([]byte(t)), Text: t}
	}
}

// text of a number under format f: ok=false when it has to be measured on the reference path
func (v pval) fixedText(f string) (string, bool, string) {
	if v.Kind == "field" || v.Kind == "str" {
		return v.Text, true, ""
	}
	if n, ok := numIsPlainInt(v.F); ok {
		return strconv.FormatInt(n, 10), true, ""
	}
	if isCFloatFmt(f) && !math.IsNaN(v.F) && !math.IsInf(v.F, 0) && v.F != math.Trunc(v.F) {
		if strings.Contains(f, "#") && (strings.HasSuffix(f, "g") || strings.HasSuffix(f, "G")) {
			p := int64(3)
			if c09GlibcSharpGCarry(v.F, &p) {
				return "", false, ""
			}
		}
		return "", false, fmt.Sprintf("%s f 0 0 0 %016x", vh.HxS(f), math.Float64bits(v.F))
	}
	return "", false, ""
}

func csvJoin(texts []string, comma rune) string {
	if len(texts) == 1 && texts[0] == "" {
		return "\"\"\n"
	}
	var b bytes.Buffer
	w := csv.NewWriter(&b)
	w.Comma = comma
	w.Write(texts)
	w.Flush()
	return b.String()
}

func c09PrintPaths(c *vh.Ctx) {
	dir, err := os.MkdirTemp("", "c09paths")
	if err != nil {
		panic(err)
	}
	defer os.RemoveAll(dir)

	// ---- reference texts: libc where C defines the result, else measured on the plain path
	type refKey struct {
		which string // ofmt | convfmt
		f     string
		bits  uint64
	}
	refs := map[refKey]string{}
	var libcReq []string
	var libcKey []refKey
	var measure []refKey
	need := func(which, f string, v pval) {
		if v.Kind == "field" || v.Kind == "str" {
			return
		}
		k := refKey{which, f, math.Float64bits(v.F)}
		if _, ok := refs[k]; ok {
			return
		}
		t, ok, req := v.fixedText(f)
		switch {
		case ok:
			refs[k] = t
		case req != "":
			refs[k] = "\x00pending"
			libcReq = append(libcReq, req)
			libcKey = append(libcKey, k)
		default:
			refs[k] = "\x00pending"
			measure = append(measure, k)
		}
	}

	// ---- cases
	var cases []pcase
	nCases := c.N(1400, 30000)
	nPipe := 0
	maxPipe := c.N(60, 1500)
	for i := 0; i < nCases; i++ {
		pc := pcase{Mode: pick(c, []string{"default", "csv", "tsv", "csv", "tsv"}), Form: pick(c, []string{"list", "list", "list", "paren", "bare"}),
			Dest: pick(c, []string{"stdout", "stdout", "file", "append", "pipe", "devstdout"}), OFS: pick(c, []string{" ", " ", "-", "::", ""}), ORS: pick(c, []string{"\n", "\n", ";", "\r\n"}),
			ViaVar: c.Rng.Intn(3) == 0}
		if pc.Dest == "pipe" {
			if nPipe >= maxPipe {
				pc.Dest = "stdout"
			} else {
				nPipe++
			}
		}
		// OFMT != CONVFMT, and they must give different texts for fractions: two distinct formats
		if c.Rng.Intn(5) == 0 {
			pc.OFMT = pick(c, dLikeFmts)
		} else {
			pc.OFMT = pick(c, cFloatFmts)
		}
		for {
			if c.Rng.Intn(5) == 0 {
				pc.CONV = pick(c, dLikeFmts)
			} else {
				pc.CONV = pick(c, cFloatFmts)
			}
			if pc.CONV != pc.OFMT {
				break
			}
		}
		if c.Rng.Intn(6) == 0 { // only one of them set, the other at its default
			if c.Rng.Intn(2) == 0 {
				pc.OFMT = "%.6g"
				if pc.CONV == "%.6g" || pc.CONV == "%g" {
					pc.CONV = "%.2f"
				}
			} else {
				pc.CONV = "%.6g"
				if pc.OFMT == "%.6g" || pc.OFMT == "%g" {
					pc.OFMT = "%.2f"
				}
			}
		}
		nf := 0
		var fields []string
		n := 1 + c.Rng.Intn(4)
		for j := 0; j < n; j++ {
			pc.Vals = append(pc.Vals, randPVal(c, &nf, &fields))
		}
		if pc.Form == "bare" {
			pc.Vals = nil
			fields = []string{pick(c, []string{"3.14159 x", "1e3", " lead", "a,b \"q\"", "2.50"})}
		}
		fields = append(fields, "end")
		pc.Input = strings.Join(fields, "\x01") + "\n"
		var exprs []string
		for _, v := range pc.Vals {
			exprs = append(exprs, v.Expr)
			need("ofmt", pc.OFMT, v)
		}
		redir := ""
		switch pc.Dest {
		case "file":
			redir = " > " + awkStrLit([]byte(filepath.Join(dir, fmt.Sprintf("f%d", i))))
		case "append":
			redir = " >> " + awkStrLit([]byte(filepath.Join(dir, fmt.Sprintf("f%d", i))))
		case "pipe":
			redir = " | \"cat\""
		case "devstdout":
			redir = " > \"/dev/stdout\""
		}
		stmt := "print"
		switch pc.Form {
		case "list":
			stmt = "print " + strings.Join(exprs, ", ")
		case "paren":
			stmt = "print(" + strings.Join(exprs, ", ") + ")"
		}
		begin := fmt.Sprintf("OFS = %s; ORS = %s", awkStrLit([]byte(pc.OFS)), awkStrLit([]byte(pc.ORS)))
		if !pc.ViaVar {
			begin = fmt.Sprintf("OFMT = %s; CONVFMT = %s; ", awkStrLit([]byte(pc.OFMT)), awkStrLit([]byte(pc.CONV))) + begin
		}
		pc.Src = fmt.Sprintf("BEGIN { %s }\n{ %s%s }", begin, stmt, redir)
		cases = append(cases, pc)
	}

	// ---- mirror cases (CONVFMT sites)
	type mcase struct {
		OFMT, CONV string
		V          pval
		Src        string
		out        vh.RunResult
	}
	var mcases []mcase
	for i := 0; i < c.N(500, 8000); i++ {
		var m mcase
		for {
			nf := 0
			var fs []string
			m.V = randPVal(c, &nf, &fs)
			if m.V.Kind == "const" || m.V.Kind == "computed" {
				break
			}
		}
		if c.Rng.Intn(5) == 0 {
			m.CONV = pick(c, dLikeFmts)
		} else {
			m.CONV = pick(c, cFloatFmts)
		}
		for {
			m.OFMT = pick(c, append(append([]string{}, cFloatFmts...), dLikeFmts...))
			if m.OFMT != m.CONV {
				break
			}
		}
		need("convfmt", m.CONV, m.V)
		need("ofmt", m.OFMT, m.V)
		mcases = append(mcases, m)
	}

	// ---- resolve references
	for k, a := range runCoracle(libcReq) {
		if a == "ERR" {
			refs[libcKey[k]] = "\x00pending"
			measure = append(measure, libcKey[k])
			continue
		}
		refs[libcKey[k]] = string(vh.Unhx(a))
	}
	measured := make([]vh.RunResult, len(measure))
	vh.Parallel(len(measure), func(i int) {
		k := measure[i]
		e := awkNumExpr(math.Float64frombits(k.bits))
		var src string
		if k.which == "ofmt" {
			src = fmt.Sprintf("BEGIN { OFMT = %s; CONVFMT = \"%%.1e\"; ORS = \"\"; print %s }", awkStrLit([]byte(k.f)), e)
		} else {
			src = fmt.Sprintf("BEGIN { CONVFMT = %s; OFMT = \"%%.1e\"; x = %s \"\"; printf \"%%s\", x }", awkStrLit([]byte(k.f)), e)
		}
		measured[i] = vh.ExecProg(vh.MustParse(src), &interp.Config{})
	})
	for i, k := range measure {
		if measured[i].Err != "" || measured[i].Panic != "" {
			c.Fail(vh.Failure{Kind: "oracle", What: "print/concatenation on the plain path failed: " + measured[i].String(), Case: map[string]interface{}{"which": k.which, "format": k.f, "bits": fmt.Sprintf("%016x", k.bits)}})
			delete(refs, k)
			continue
		}
		refs[k] = measured[i].Out
		c.Hit("printpaths-ref:measured")
	}
	c.HitN("printpaths-ref:libc", len(libcReq))

	// ---- run and check the print paths
	outs := make([]vh.RunResult, len(cases))
	files := make([]string, len(cases))
	envErr := make([]string, len(cases))
	runCase := func(i int) {
		pc := cases[i]
		cfg := &interp.Config{Stdin: strings.NewReader(pc.Input), Vars: []string{"FS", "\x01"}}
		if pc.ViaVar {
			cfg.Vars = append(cfg.Vars, "OFMT", pc.OFMT, "CONVFMT", pc.CONV)
		}
		switch pc.Mode {
		case "csv":
			cfg.OutputMode = interp.CSVMode
		case "tsv":
			cfg.OutputMode = interp.TSVMode
		}
		fn := filepath.Join(dir, fmt.Sprintf("f%d", i))
		envErr[i] = ""
		os.Remove(fn)
		if pc.Dest == "append" {
			if err := os.WriteFile(fn, []byte("pre\n"), 0o644); err != nil {
				envErr[i] = err.Error()
			}
		}
		outs[i] = vh.ExecProg(vh.MustParse(pc.Src), cfg)
		if pc.Dest == "file" || pc.Dest == "append" {
			b, err := os.ReadFile(fn)
			if err != nil {
				envErr[i] = err.Error()
			}
			files[i] = string(b)
			os.Remove(fn)
		}
	}
	vh.Parallel(len(cases), runCase)
	for i, pc := range cases {
		c.Hit("printpaths:mode=" + pc.Mode)
		c.Hit("printpaths:dest=" + pc.Dest)
		c.Hit("printpaths:form=" + pc.Form)
		o := outs[i]
		got := o.Out
		if pc.Dest == "file" || pc.Dest == "append" {
			got = files[i]
			if o.Out != "" {
				got = "stdout:" + o.Out + "|file:" + got
			}
		}
		var texts []string
		known := true
		differs := false
		for _, v := range pc.Vals {
			if v.Kind == "field" || v.Kind == "str" {
				texts = append(texts, v.Text)
				continue
			}
			t, ok := refs[refKey{"ofmt", pc.OFMT, math.Float64bits(v.F)}]
			if !ok || strings.HasPrefix(t, "\x00") {
				known = false
				break
			}
			texts = append(texts, t)
			if _, plain := numIsPlainInt(v.F); !plain && !math.IsNaN(v.F) && !math.IsInf(v.F, 0) {
				differs = true
			}
		}
		c.Eval(fmt.Sprint("pp", pc.Src, pc.Mode, pc.Input), differs)
		if !known {
			continue
		}
		c.OracleCase()
		var want string
		switch {
		case pc.Form == "bare":
			want = strings.TrimSuffix(pc.Input, "\n") + pc.ORS
		case pc.Mode == "csv":
			want = csvJoin(texts, ',')
		case pc.Mode == "tsv":
			want = csvJoin(texts, '\t')
		default:
			want = strings.Join(texts, pc.OFS) + pc.ORS
		}
		if pc.Dest == "append" {
			want = "pre\n" + want
		}
		if o.Panic != "" || o.Err != "" || got != want {
			// once more, alone: files and child processes are shared with everything else running on the machine
			c.Hit("printpaths:retried")
			runCase(i)
			o = outs[i]
			got = o.Out
			if pc.Dest == "file" || pc.Dest == "append" {
				got = files[i]
				if o.Out != "" {
					got = "stdout:" + o.Out + "|file:" + got
				}
			}
			if envErr[i] != "" {
				c.Note("print path case skipped, the harness could not use its scratch file: " + envErr[i])
				continue
			}
		}
		if o.Panic != "" || o.Err != "" || got != want {
			pc.Vals = append([]pval(nil), pc.Vals...)
			c.Fail(vh.Failure{Kind: "oracle", What: "print does not write its arguments converted with OFMT (numbers) / as their text (strings, fields) on this output path",
				Case: pc, Got: strconv.Quote(got) + " " + o.Err + o.Panic, Want: strconv.Quote(want)})
		}
		if i%701 == 0 {
			c.Sample(map[string]interface{}{"print_path": pc, "out": got})
		}
	}

	// ---- mirror: CONVFMT sites
	for i := range mcases {
		m := &mcases[i]
		t := refs[refKey{"convfmt", m.CONV, math.Float64bits(m.V.F)}]
		if strings.HasPrefix(t, "\x00") {
			t = ""
		}
		m.Src = fmt.Sprintf(`BEGIN { OFMT = %s; CONVFMT = %s; v = %s
  s = v ""; printf "%%s\002", s
  a[v] = 1; for (k in a) printf "%%s\002", k
  printf "%%d\002", length(v)
  printf "%%s\002", substr(v, 1)
  printf "%%s\002", toupper(v)
  printf "%%s\002", v
  printf "%%d\002", (v == %s)
  printf "%%d\002", ((v "") == %s)
  $0 = "a b"; $2 = v; printf "%%s\002", $0
  split(v, parts, "\003"); printf "%%s\002", parts[1]
  t = v; sub(/^/, "", t); printf "%%s\002", t
  ORS = ""; print v
}`, awkStrLit([]byte(m.OFMT)), awkStrLit([]byte(m.CONV)), m.V.Expr, awkStrLit([]byte(t)), awkStrLit([]byte(t)))
	}
	vh.Parallel(len(mcases), func(i int) { mcases[i].out = vh.ExecProg(vh.MustParse(mcases[i].Src), &interp.Config{}) })
	sites := []string{"concatenation", "array subscript", "length()", "substr()", "toupper()", "printf %s", "comparison with a string constant", "comparison of concatenation", "field assignment", "split()", "sub() target", "print (OFMT)"}
	for _, m := range mcases {
		tc, okc := refs[refKey{"convfmt", m.CONV, math.Float64bits(m.V.F)}]
		to, oko := refs[refKey{"ofmt", m.OFMT, math.Float64bits(m.V.F)}]
		if !okc || !oko || strings.HasPrefix(tc, "\x00") || strings.HasPrefix(to, "\x00") {
			continue
		}
		cs := map[string]interface{}{"convfmt_sites": true, "ofmt": m.OFMT, "convfmt": m.CONV, "value": m.V, "program": m.Src}
		c.Eval("mirror"+m.Src, tc != to)
		c.OracleCase()
		c.Hit("printpaths:mirror")
		if m.out.Panic != "" || m.out.Err != "" {
			c.Fail(vh.Failure{Kind: "oracle", What: "CONVFMT probe failed: " + m.out.String(), Case: cs})
			continue
		}
		parts := strings.Split(m.out.Out, "\x02")
		if len(parts) != len(sites) {
			c.Fail(vh.Failure{Kind: "oracle", What: "CONVFMT probe: unexpected output shape", Case: cs, Got: strconv.Quote(m.out.Out)})
			continue
		}
		want := []string{tc, tc, strconv.Itoa(len(tc)), tc, strings.ToUpper(tc), tc, "1", "1", "a " + tc, tc, tc, to}
		for k := range sites {
			if parts[k] != want[k] {
				c.Fail(vh.Failure{Kind: "oracle", What: "number-to-string conversion at: " + sites[k] + " does not use " + map[bool]string{true: "OFMT", false: "CONVFMT"}[k == len(sites)-1],
					Case: cs, Got: strconv.Quote(parts[k]), Want: strconv.Quote(want[k])})
				break
			}
		}
	}

	// ---- correspondence: Lean printArgs on the same cases
	if c.HasLean() {
		var reqs []string
		var idx []int
		for i, pc := range cases {
			if pc.Form == "bare" || outs[i].Err != "" || outs[i].Panic != "" {
				continue
			}
			parts := []string{"printargs", pc.Mode, vh.HxS(pc.OFMT), vh.HxS(pc.OFS), vh.HxS(pc.ORS)}
			for _, v := range pc.Vals {
				if v.Kind == "field" || v.Kind == "str" {
					parts = append(parts, "s:"+vh.HxS(v.Text))
				} else {
					parts = append(parts, "n:"+v.Bits)
				}
			}
			reqs = append(reqs, strings.Join(parts, " "))
			idx = append(idx, i)
		}
		for k, a := range c.LeanBatch(reqs) {
			i := idx[k]
			if strings.HasPrefix(a, "unmodelled") {
				c.Hit("lean-printargs:" + a)
				continue
			}
			c.Trace()
			got := outs[i].Out
			if cases[i].Dest == "file" || cases[i].Dest == "append" {
				got = strings.TrimPrefix(files[i], "pre\n")
			}
			if a != "ok "+vh.HxS(got) {
				c.Fail(vh.Failure{Kind: "correspondence", What: "Lean printArgs and the real print differ", Case: cases[i], Got: "ok " + vh.HxS(got) + " " + strconv.Quote(got), Want: a})
			}
		}
	}
}
