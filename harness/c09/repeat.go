package main

// C09, repeated use: "too few arguments or an unknown conversion is a run-time error, not a crash or silent garbage" and
// the C text of valid formats must hold on EVERY use — the second to fourth use of a format within one run, with other
// argument counts and values, and in later Execute calls on one reused Interpreter (with and without ResetVars), with few
// formats in play and with more distinct formats than the format cache holds.
//
// One session = one Interpreter, 2-3 Execute calls; each Execute reads records `format \x01 nargs \x01 args…` and formats each
// with printf or sprintf. Oracle, no model: every use is judged on its own — it must be an error when the format ends inside
// a specification, names an unknown conversion, or needs more arguments (conversions + `*`) than it gets (decided by a small
// scanner in this file); otherwise its text must equal what the same use gives alone on a fresh interpreter, and that text is
// libc's when the format is one C-domain specification. A run stops at its first error, so the uses before it must all be there.

import (
	"bytes"
	"fmt"
	"math"
	"strconv"
	"strings"

	"github.com/benhoyt/goawk/interp"

	"verifharness/vh"
)

const c09RepeatProg = `
{
  f = $1; n = $2 + 0; how = $3
  if (how == "s") {
    if (n == 0) x = sprintf(f)
    else if (n == 1) x = sprintf(f, $4)
    else if (n == 2) x = sprintf(f, $4, $5)
    else if (n == 3) x = sprintf(f, $4, $5, $6)
    else x = sprintf(f, $4, $5, $6, $7)
    printf "%s", x
  } else {
    if (n == 0) printf f
    else if (n == 1) printf f, $4
    else if (n == 2) printf f, $4, $5
    else if (n == 3) printf f, $4, $5, $6
    else printf f, $4, $5, $6, $7
  }
  printf "\002"
}`

type rUse struct {
	Fmt  string   `json:"fmt"`
	Args []string `json:"args"` // field texts
	How  string   `json:"how"`  // p | s
	Fill string   `json:"-"`    // cache filler: the known output (no fresh reference run needed)
}

type rSession struct {
	Chars     bool     `json:"chars"`
	Flip      bool     `json:"chars_flips_between_executes"` // Config.Chars alternates from one Execute call to the next
	ResetVars bool     `json:"reset_vars_between"`
	Runs      [][]rUse `json:"executes"`
}

// charsAt is Config.Chars of the r-th Execute call of the session: the configuration belongs to the call, not to the
// Interpreter, so whatever a call caches about a format must not carry the previous call's mode (seeded C09-s1)
func (s rSession) charsAt(r int) bool { return s.Chars != (s.Flip && r%2 == 1) }

// needArgs scans a format the way the property reads it: (error class, number of arguments needed)
func needArgs(f string) (string, int) {
	need := 0
	for i := 0; i < len(f); i++ {
		if f[i] != '%' {
			continue
		}
		i++
		if i >= len(f) {
			return "truncated", 0
		}
		if f[i] == '%' {
			continue
		}
		for i < len(f) && strings.IndexByte(" .-+*#0123456789", f[i]) >= 0 {
			if f[i] == '*' {
				need++
			}
			i++
		}
		if i >= len(f) {
			return "truncated", 0
		}
		if strings.IndexByte(c09Verbs+"aA", f[i]) < 0 {
			return "unknown-verb", 0
		}
		need++
	}
	return "", need
}

func (u rUse) record() string {
	parts := []string{u.Fmt, strconv.Itoa(len(u.Args)), u.How}
	parts = append(parts, u.Args...)
	return strings.Join(parts, "\x01")
}

func (u rUse) expectErr() string {
	cls, need := needArgs(u.Fmt)
	if cls != "" {
		return cls
	}
	if need > len(u.Args) {
		return "too-few-args"
	}
	return ""
}

func randUseArgs(c *vh.Ctx, n int) []string {
	var a []string
	for i := 0; i < n; i++ {
		a = append(a, pick(c, []string{"5", "-3", "42", "3.75", "0", "abc", "255", "1e3", "12", "7", "x", "65", "-1", "2.5", "100000", "", "é", "日本", "200", "\xffz", "233"}))
	}
	return a
}

func c09Repeat(c *vh.Ctx) {
	valid := []string{"%d", "%5d|", "%-4s|", "%c", "%x", "%.2f", "%*d", "%-*d|", "%.*f", "%*.*f", "%s and %s", "%d%%", "[%5.1f]", "%e", "%g", "%i,%u", "%o", "%X", "%G", "%E",
		"%s", "%5s%c", "%+d", "% d", "%05d", "%#o", "lit", "%%", "%d %d %d", "%s=%d"}
	broken := []string{"%z", "%5", "%", "%-", "%ld", "a%qb", "%5.2", "%d %y", "%s %", "%*", "%.*", "%D", "%5z", "x%"}

	nSessions := c.N(260, 5000)
	var sessions []rSession
	for si := 0; si < nSessions; si++ {
		s := rSession{Chars: c.Rng.Intn(6) == 0, ResetVars: c.Rng.Intn(2) == 0}
		if c.Rng.Intn(4) == 0 {
			s.Flip, s.Chars = true, c.Rng.Intn(2) == 0
		}
		// the formats this session keeps coming back to
		var pool []string
		for k := 0; k < 2+c.Rng.Intn(3); k++ {
			if c.Rng.Intn(3) == 0 {
				pool = append(pool, pick(c, broken))
			} else if c.Rng.Intn(4) == 0 {
				pool = append(pool, randSpec(c, true).text()+pick(c, []string{"", "|", " %d"}))
			} else {
				pool = append(pool, pick(c, valid))
			}
		}
		overLimit := c.Rng.Intn(3) == 0 // more distinct formats than the cache holds, before or between the interesting uses
		fillAt := c.Rng.Intn(2)
		nRuns := 2 + c.Rng.Intn(2)
		for r := 0; r < nRuns; r++ {
			var uses []rUse
			if overLimit && r == fillAt {
				for k := 0; k < 105; k++ {
					uses = append(uses, rUse{Fmt: fmt.Sprintf("f%d-%d:%%d", si, k), Args: []string{strconv.Itoa(k)}, How: "p", Fill: fmt.Sprintf("f%d-%d:%d\x02", si, k, k)})
				}
			}
			nUses := 2 + c.Rng.Intn(5)
			for k := 0; k < nUses; k++ {
				f := pick(c, pool)
				_, need := needArgs(f)
				n := need
				switch c.Rng.Intn(6) {
				case 0:
					if n > 0 {
						n-- // too few
					}
				case 1:
					if n > 1 {
						n -= 2
					} else if n > 0 {
						n--
					}
				case 2:
					n++ // surplus argument
				}
				if n > 4 {
					n = 4
				}
				u := rUse{Fmt: f, Args: randUseArgs(c, n), How: pick(c, []string{"p", "p", "s"})}
				uses = append(uses, u)
				if u.expectErr() != "" {
					break // the run ends here
				}
			}
			s.Runs = append(s.Runs, uses)
		}
		sessions = append(sessions, s)
	}

	// reference: every distinct use alone on a fresh interpreter
	type key struct {
		chars bool
		rec   string
	}
	fresh := map[key]vh.RunResult{}
	var keys []key
	var keyUse []rUse
	for _, s := range sessions {
		for r, run := range s.Runs {
			for _, u := range run {
				k := key{s.charsAt(r), u.record()}
				if u.Fill != "" {
					continue
				}
				if _, ok := fresh[k]; !ok {
					fresh[k] = vh.RunResult{}
					keys = append(keys, k)
					keyUse = append(keyUse, u)
				}
			}
		}
	}
	prog := vh.MustParse(c09RepeatProg)
	fr := make([]vh.RunResult, len(keys))
	vh.Parallel(len(keys), func(i int) {
		fr[i] = vh.ExecProg(prog, &interp.Config{Stdin: strings.NewReader(keys[i].rec + "\n"), Vars: []string{"FS", "\x01"}, Chars: keys[i].chars})
	})
	// the fresh single use itself: error exactly when it must be; libc text when the format is one C-domain specification
	var creq []string
	var cref []int
	for i, k := range keys {
		fresh[k] = fr[i]
		u := keyUse[i]
		cs := map[string]interface{}{"repeat_single_use": u, "chars": k.chars}
		c.OracleCase()
		c.Hit("repeat-fresh:" + map[bool]string{true: "valid", false: u.expectErr()}[u.expectErr() == ""])
		if fr[i].Panic != "" {
			c.Fail(vh.Failure{Kind: "oracle", What: "printf panicked: " + fr[i].Panic, Case: cs})
			continue
		}
		if want := u.expectErr(); want != "" {
			if fr[i].Err == "" || fr[i].Out != "" {
				c.Fail(vh.Failure{Kind: "oracle", What: "a format that must be a run-time error (" + want + ") is accepted", Case: cs, Got: fr[i].String()})
			}
			continue
		}
		if fr[i].Err != "" {
			c.Fail(vh.Failure{Kind: "oracle", What: "a valid format with enough arguments gives an error", Case: cs, Got: fr[i].Err})
			continue
		}
		if items, ok := parseC([]byte(u.Fmt)); ok && len(items) == 1 && items[0].IsSpec && len(u.Args) == items[0].stars()+1 {
			var args []c09Arg
			for _, a := range u.Args {
				args = append(args, fldArg(a))
			}
			if req, _ := (c09SpecCase{k.chars, items[0], args}).coracleReq(); req != "" {
				creq = append(creq, req)
				cref = append(cref, i)
			}
		}
	}
	for j, a := range runCoracle(creq) {
		i := cref[j]
		if a == "ERR" {
			continue
		}
		want := string(vh.Unhx(a)) + "\x02"
		if fr[i].Out != want {
			items, _ := parseC([]byte(keyUse[i].Fmt))
			var args []c09Arg
			for _, x := range keyUse[i].Args {
				args = append(args, fldArg(x))
			}
			fnd := c09Classify(c09SpecCase{keys[i].chars, items[0], args}, strings.TrimSuffix(fr[i].Out, "\x02"))
			c.Fail(vh.Failure{Kind: "oracle", What: "printf output differs from C printf (libc)", Finding: fnd, Case: map[string]interface{}{"repeat_single_use": keyUse[i]}, Got: strconv.Quote(fr[i].Out), Want: strconv.Quote(want)})
		}
	}

	// the sessions on reused interpreters
	type runOut struct {
		out   string
		err   string
		panic string
	}
	outs := make([][]runOut, len(sessions))
	vh.Parallel(len(sessions), func(si int) {
		s := sessions[si]
		ip, err := interp.New(prog)
		if err != nil {
			panic(err)
		}
		for r, run := range s.Runs {
			var in strings.Builder
			for _, u := range run {
				in.WriteString(u.record() + "\n")
			}
			var buf bytes.Buffer
			ro := runOut{}
			func() {
				defer func() {
					if x := recover(); x != nil {
						ro.panic = fmt.Sprint(x)
					}
				}()
				if r > 0 && s.ResetVars {
					ip.ResetVars()
				}
				_, err := ip.Execute(&interp.Config{Stdin: strings.NewReader(in.String()), Output: &buf, Vars: []string{"FS", "\x01"}, Chars: s.charsAt(r), Environ: []string{}})
				if err != nil {
					ro.err = err.Error()
				}
			}()
			ro.out = buf.String()
			outs[si] = append(outs[si], ro)
			if ro.panic != "" {
				break
			}
		}
	})
	for si, s := range sessions {
		nUses := 0
		for _, r := range s.Runs {
			nUses += len(r)
		}
		c.Eval(fmt.Sprint("repeat", si, s), true)
		c.Hit(fmt.Sprintf("repeat-session:executes=%d", len(s.Runs)))
		c.Hit("repeat-session:resetvars=" + strconv.FormatBool(s.ResetVars))
		c.Hit("repeat-session:chars-flips=" + strconv.FormatBool(s.Flip))
		if nUses > 100 {
			c.Hit("repeat-session:above-cache-limit")
		} else {
			c.Hit("repeat-session:below-cache-limit")
		}
		for r, run := range s.Runs {
			if r >= len(outs[si]) {
				break
			}
			c.OracleCase()
			ro := outs[si][r]
			// expected: the fresh outputs of the uses in order, up to and excluding the first use that must fail
			var want strings.Builder
			wantErr := ""
			seen := map[string]int{}
			for _, u := range run {
				seen[u.Fmt]++
				if e := u.expectErr(); e != "" {
					wantErr = e
					break
				}
				if u.Fill != "" {
					want.WriteString(u.Fill)
					continue
				}
				want.WriteString(fresh[key{s.charsAt(r), u.record()}].Out)
			}
			for f, n := range seen {
				if n > 1 {
					c.Hit("repeat:format used again in the same run")
					_ = f
					break
				}
			}
			if r > 0 {
				c.Hit("repeat:later Execute on the same Interpreter")
			}
			cs := map[string]interface{}{"repeat_session": s, "failing_execute": r}
			switch {
			case ro.panic != "":
				c.Fail(vh.Failure{Kind: "oracle", What: fmt.Sprintf("Execute #%d on a reused Interpreter panicked: %s", r+1, ro.panic), Case: cs})
			case wantErr != "" && ro.err == "":
				c.Fail(vh.Failure{Kind: "oracle", What: fmt.Sprintf("Execute #%d: a use that must be a run-time error (%s) is accepted on repeated use", r+1, wantErr), Case: cs,
					Got: strconv.Quote(ro.out), Want: strconv.Quote(want.String()) + " then an error"})
			case wantErr == "" && ro.err != "":
				c.Fail(vh.Failure{Kind: "oracle", What: fmt.Sprintf("Execute #%d: valid uses give an error on repeated use: %s", r+1, ro.err), Case: cs, Got: strconv.Quote(ro.out), Want: strconv.Quote(want.String())})
			case ro.out != want.String():
				c.Fail(vh.Failure{Kind: "oracle", What: fmt.Sprintf("Execute #%d: output of repeated uses differs from the same uses on fresh interpreters", r+1), Case: cs,
					Got: strconv.Quote(ro.out), Want: strconv.Quote(want.String())})
			}
		}
	}
	// correspondence: the Lean cache model (runUses from an empty cache) on the executed uses of each session
	if c.HasLean() {
		var reqs []string
		var ref []int
		for si, s := range sessions {
			parts := []string{"seq", map[bool]string{false: "0", true: "1"}[s.Chars]}
			ok := len(outs[si]) == len(s.Runs) && !s.Flip // the Lean session model has one mode per session; flipping sessions are judged by the fresh-interpreter oracle above
			for _, run := range s.Runs {
				for _, u := range run {
					up := []string{vh.HxS(u.Fmt)}
					for _, a := range u.Args {
						v, vok := fldArg(a).view()
						if !vok {
							ok = false
							break
						}
						up = append(up, fmt.Sprintf("%d:%s:%016x", map[bool]int{false: 0, true: 1}[v.IsStr], vh.Hx(v.S), math.Float64bits(v.N)))
					}
					parts = append(parts, strings.Join(up, ","))
					if u.expectErr() != "" {
						break
					}
				}
			}
			if ok {
				reqs = append(reqs, strings.Join(parts, " "))
				ref = append(ref, si)
			}
		}
		for k, a := range c.LeanBatch(reqs) {
			si := ref[k]
			s := sessions[si]
			res := strings.Split(a, "|")
			pos := 0
			for r, run := range s.Runs {
				var want strings.Builder
				wantErr := ""
				unmodelled := false
				for _, u := range run {
					if pos >= len(res) {
						unmodelled = true
						break
					}
					x := res[pos]
					pos++
					switch {
					case strings.HasPrefix(x, "ok:"):
						want.Write(vh.Unhx(strings.TrimPrefix(x, "ok:")))
						want.WriteString("\x02")
					case strings.HasPrefix(x, "err:"):
						wantErr = strings.ReplaceAll(x, ":", " ")
					default:
						unmodelled = true
					}
					if wantErr != "" || unmodelled || u.expectErr() != "" {
						break
					}
				}
				if unmodelled {
					c.Hit("lean-seq:unmodelled")
					break
				}
				c.Trace()
				ro := outs[si][r]
				gotErr := ""
				if ro.err != "" {
					gotErr = errClass(ro.err)
				}
				if ro.panic != "" || ro.out != want.String() || gotErr != wantErr {
					c.Fail(vh.Failure{Kind: "correspondence", What: fmt.Sprintf("Lean cache model (runUses) and the reused Interpreter differ in Execute #%d", r+1),
						Case: map[string]interface{}{"repeat_session": s, "failing_execute": r}, Got: strconv.Quote(ro.out) + " " + gotErr + ro.panic, Want: strconv.Quote(want.String()) + " " + wantErr})
					break
				}
			}
		}
	}
}
