package main

// C09, character mode (-c / Config.Chars): "%c … of a string its first character", "%c of a number is the character with
// that code", and width / precision of %s and %c counted in characters.
//
// Oracle (no model, no libc — C's printf has no notion of a UTF-8 character in the C locale): an independent statement of what a
// character is. A character of a byte string in character mode is a well-formed UTF-8 sequence as the Unicode Standard
// defines it (chapter 3, table 3-7: no overlong forms, no surrogates, nothing above U+10FFFF); every byte that is not part of
// one is a character by itself. With that
//
//	%c of a string      = its first character (NUL for the empty string), one column wide
//	%c of a number n    = the UTF-8 encoding of the scalar value trunc(n) (0..0x10FFFF without surrogates; other numbers: the
//	                      property does not say, not compared), one column wide
//	%s with precision P = the first P characters; the width counts characters
//
// and `-`/width pad with spaces as C does. For ASCII text this coincides with libc, which the harness asserts on every case
// that both oracles can judge. The table below is written from the standard, not from unicode/utf8.

import (
	"fmt"
	"math"
	"strconv"
	"strings"

	"verifharness/vh"
)

// c09WellFormedLen: length of the well-formed UTF-8 sequence b starts with, 0 when it starts with none (table 3-7).
func c09WellFormedLen(b []byte) int {
	in := func(i int, lo, hi byte) bool { return i < len(b) && b[i] >= lo && b[i] <= hi }
	if len(b) == 0 {
		return 0
	}
	switch b0 := b[0]; {
	case b0 <= 0x7F:
		return 1
	case b0 >= 0xC2 && b0 <= 0xDF:
		if in(1, 0x80, 0xBF) {
			return 2
		}
	case b0 == 0xE0:
		if in(1, 0xA0, 0xBF) && in(2, 0x80, 0xBF) {
			return 3
		}
	case (b0 >= 0xE1 && b0 <= 0xEC) || b0 == 0xEE || b0 == 0xEF:
		if in(1, 0x80, 0xBF) && in(2, 0x80, 0xBF) {
			return 3
		}
	case b0 == 0xED:
		if in(1, 0x80, 0x9F) && in(2, 0x80, 0xBF) {
			return 3
		}
	case b0 == 0xF0:
		if in(1, 0x90, 0xBF) && in(2, 0x80, 0xBF) && in(3, 0x80, 0xBF) {
			return 4
		}
	case b0 >= 0xF1 && b0 <= 0xF3:
		if in(1, 0x80, 0xBF) && in(2, 0x80, 0xBF) && in(3, 0x80, 0xBF) {
			return 4
		}
	case b0 == 0xF4:
		if in(1, 0x80, 0x8F) && in(2, 0x80, 0xBF) && in(3, 0x80, 0xBF) {
			return 4
		}
	}
	return 0
}

// c09Chars splits a byte string into its characters (character mode).
func c09Chars(b []byte) [][]byte {
	var out [][]byte
	for len(b) > 0 {
		n := c09WellFormedLen(b)
		if n == 0 {
			n = 1
		}
		out = append(out, b[:n])
		b = b[n:]
	}
	return out
}

// c09EncodeScalar: UTF-8 of a Unicode scalar value, written from the definition (table 3-6); ok=false for anything else.
func c09EncodeScalar(n int64) ([]byte, bool) {
	switch {
	case n < 0 || n > 0x10FFFF || (n >= 0xD800 && n <= 0xDFFF):
		return nil, false
	case n < 0x80:
		return []byte{byte(n)}, true
	case n < 0x800:
		return []byte{0xC0 | byte(n>>6), 0x80 | byte(n&0x3F)}, true
	case n < 0x10000:
		return []byte{0xE0 | byte(n>>12), 0x80 | byte(n>>6&0x3F), 0x80 | byte(n&0x3F)}, true
	}
	return []byte{0xF0 | byte(n>>18), 0x80 | byte(n>>12&0x3F), 0x80 | byte(n>>6&0x3F), 0x80 | byte(n&0x3F)}, true
}

// charModeWant: the text a %c / %s specification must produce in character mode, or why the property does not say.
func (s c09SpecCase) charModeWant() (want string, why string) {
	it := s.It
	if !s.Chars || (it.Verb != 'c' && it.Verb != 's') {
		return "", "not a character-mode %c/%s"
	}
	if !c09InCDomain(it) {
		return "", "outside-C-domain"
	}
	r := s.resolve()
	if !r.ok {
		return "", r.skipReason
	}
	if r.StarP && *r.P < 0 {
		return "", "negative * precision (G09-2)"
	}
	if (r.W != nil && (*r.W > c09MaxField || *r.W < -c09MaxField)) || (r.P != nil && *r.P > c09MaxField) {
		return "", "width/precision beyond oracle buffer"
	}
	v := r.Val
	var body []byte
	cols := 0
	if it.Verb == 'c' {
		cols = 1
		if v.IsStr {
			if len(v.S) == 0 {
				body = []byte{0}
			} else {
				body = c09Chars(v.S)[0]
			}
		} else {
			n, ok := truncInt64(v.N)
			if !ok {
				return "", "%c of a number that is not a Unicode scalar value"
			}
			enc, ok := c09EncodeScalar(n)
			if !ok {
				return "", "%c of a number that is not a Unicode scalar value"
			}
			body = enc
		}
	} else {
		if strings.IndexByte(string(v.S), 0) >= 0 {
			return "", "NUL inside %s argument (not a C string)"
		}
		chs := c09Chars(v.S)
		if r.P != nil && int64(len(chs)) > *r.P {
			chs = chs[:*r.P]
		}
		cols = len(chs)
		for _, ch := range chs {
			body = append(body, ch...)
		}
	}
	minus := strings.Contains(it.Flags, "-")
	pad := 0
	if r.W != nil {
		w := *r.W
		if w < 0 {
			w, minus = -w, true
		}
		if int(w) > cols {
			pad = int(w) - cols
		}
	}
	if minus {
		return string(body) + strings.Repeat(" ", pad), ""
	}
	return strings.Repeat(" ", pad) + string(body), ""
}

// ---- generator: byte strings with well-formed and ill-formed UTF-8 at the start, in the middle, at the end ----------

var c09Utf8Pieces = map[string][]string{
	"ascii":     {"a", "t", "(", "Z9", " ", "x y"},
	"valid2":    {"\xc3\xa9", "\xc2\x80", "\xdf\xbf", "\xce\xbb"},
	"valid3":    {"\xe2\x82\xac", "\xe0\xa0\x80", "\xed\x9f\xbf", "\xee\x80\x80", "\xef\xbf\xbd", "\xe6\x97\xa5"},
	"valid4":    {"\xf0\x9f\x98\x80", "\xf0\x90\x80\x80", "\xf4\x8f\xbf\xbf", "\xf1\x80\x80\x80"},
	"cont":      {"\x80", "\xbf", "\xa9", "\x80\x80"},
	"lead-only": {"\xc3", "\xe2", "\xf0", "\xe9", "\xdf"},
	"truncated": {"\xe2\x82", "\xf0\x9f", "\xf0\x9f\x98", "\xe0\xa0", "\xf4\x8f\xbf"},
	"overlong":  {"\xc0\x80", "\xc1\xbf", "\xe0\x80\x80", "\xe0\x9f\xbf", "\xf0\x80\x80\x80", "\xf0\x8f\xbf\xbf"},
	"surrogate": {"\xed\xa0\x80", "\xed\xbf\xbf", "\xed\xa0\xbd\xed\xb8\x80"},
	"beyond":    {"\xf4\x90\x80\x80", "\xf5\x80\x80\x80", "\xf8\x88\x80\x80\x80", "\xfe", "\xff", "\xff\xff"},
	"latin1":    {"\xe9t\xe9", "caf\xe9", "\xfcber", "na\xefve", "\xa0"},
}
var c09Utf8Kinds = []string{"ascii", "valid2", "valid3", "valid4", "cont", "lead-only", "truncated", "overlong", "surrogate", "beyond", "latin1"}

func c09IllFormedKind(k string) bool {
	switch k {
	case "ascii", "valid2", "valid3", "valid4":
		return false
	}
	return true
}

// randUtf8String: 1-4 pieces; reports the kind of the first piece and where ill-formed bytes sit (start/middle/end/none)
func randUtf8String(c *vh.Ctx) (s string, first string, where string) {
	n := 1 + c.Rng.Intn(4)
	var kinds []string
	for i := 0; i < n; i++ {
		k := pick(c, c09Utf8Kinds[4:]) // ill-formed
		if c.Rng.Intn(2) == 0 {
			k = pick(c, c09Utf8Kinds[:4]) // ASCII and well-formed 2-4 byte sequences
		}
		if c.Rng.Intn(12) == 0 { // any byte
			kinds = append(kinds, "random-byte")
			s += string([]byte{byte(0x80 + c.Rng.Intn(0x80))})
			continue
		}
		kinds = append(kinds, k)
		s += pick(c, c09Utf8Pieces[k])
	}
	bad := func(k string) bool { return k == "random-byte" || c09IllFormedKind(k) }
	where = "none"
	switch {
	case bad(kinds[0]):
		where = "start"
	case bad(kinds[n-1]):
		where = "end"
	default:
		for _, k := range kinds[1:] {
			if bad(k) {
				where = "middle"
			}
		}
	}
	return s, kinds[0], where
}

var c09ScalarEdges = []float64{0, 1, 0x41, 0x7F, 0x80, 0xA9, 0xE9, 0xFF, 0x100, 0x3BB, 0x7FF, 0x800, 0xFFF, 0x1000, 0x20AC, 0xD7FF, 0xD800, 0xDFFF, 0xE000,
	0xFFFD, 0xFFFE, 0xFFFF, 0x10000, 0x1F600, 0xFFFFF, 0x100000, 0x10FFFF, 0x110000, 233.9, 0x7FF + 0.5, -1, -0.5}

type c09CharGen struct {
	chars bool
	it    c09Item
	args  []c09Arg
}

// c09CharModeSpecs: %c / %s specifications (flags none or '-', width none / literal / *, precision for %s) over UTF-8 strings
// of every kind and code points around every encoding-length boundary; 7 of 8 in character mode.
func c09CharModeSpecs(c *vh.Ctx) []c09CharGen {
	var out []c09CharGen
	for i := 0; i < c.N(3000, 40000); i++ {
		g := c09CharGen{chars: c.Rng.Intn(8) != 0}
		it := c09Item{IsSpec: true, Verb: 'c'}
		if c.Rng.Intn(2) == 0 {
			it.Verb = 's'
		}
		if c.Rng.Intn(3) == 0 {
			it.Flags = "-"
		}
		switch c.Rng.Intn(6) {
		case 0, 1:
		case 2:
			it.Width = "*"
			g.args = append(g.args, numArg(float64(c.Rng.Intn(14)-4)))
		default:
			it.Width = strconv.Itoa(pick(c, []int{1, 2, 3, 4, 5, 8, 12}))
		}
		if it.Verb == 's' {
			switch c.Rng.Intn(6) {
			case 0:
			case 1:
				it.Prec = ".*"
				g.args = append(g.args, numArg(float64(c.Rng.Intn(6))))
			case 2:
				it.Prec = "."
			default:
				it.Prec = "." + strconv.Itoa(pick(c, []int{0, 1, 1, 2, 2, 3, 4, 5, 7}))
			}
		}
		g.it = it
		if it.Verb == 'c' && c.Rng.Intn(4) == 0 {
			f := pick(c, c09ScalarEdges)
			if c.Rng.Intn(3) == 0 {
				f = float64(c.Rng.Intn(0x110400))
			}
			c.Hit("charmode-arg:number")
			g.args = append(g.args, numArg(f))
		} else {
			s, first, where := randUtf8String(c)
			c.Hit("charmode-arg:first=" + first)
			c.Hit("charmode-arg:ill-formed-at=" + where)
			if c.Rng.Intn(4) == 0 && !strings.ContainsAny(s, "\n\x01") {
				g.args = append(g.args, fldArg(s))
			} else {
				g.args = append(g.args, strArg(s))
			}
		}
		out = append(out, g)
	}
	// every piece alone and followed by ASCII, both verbs, no width: the plain statement of "first character"
	for _, k := range c09Utf8Kinds {
		for _, p := range c09Utf8Pieces[k] {
			for _, suffix := range []string{"", "t", "\xa9", "\xc3\xa9"} {
				out = append(out, c09CharGen{true, c09Item{IsSpec: true, Verb: 'c'}, []c09Arg{strArg(p + suffix)}})
				out = append(out, c09CharGen{true, c09Item{IsSpec: true, Verb: 's', Prec: ".1"}, []c09Arg{strArg(p + suffix)}})
			}
		}
	}
	for _, f := range c09ScalarEdges {
		out = append(out, c09CharGen{true, c09Item{IsSpec: true, Verb: 'c'}, []c09Arg{numArg(f)}})
		out = append(out, c09CharGen{true, c09Item{IsSpec: true, Verb: 'c', Width: "3"}, []c09Arg{numArg(f)}})
	}
	return out
}

// c09CharModeOracle judges every character-mode %c / %s specification of the run (all sources, not only the generator above).
// libc[i] is the libc text of specification i when the libc oracle judged it: there the two statements must coincide.
func c09CharModeOracle(c *vh.Ctx, specs []specJob, specOut []vh.RunResult, libc map[int]string) {
	var judged []int
	var wants []string
	defer func() { c09CharModeLean(c, specs, judged, wants) }()
	for i, j := range specs {
		if !j.s.Chars || (j.s.It.Verb != 'c' && j.s.It.Verb != 's') {
			continue
		}
		want, why := j.s.charModeWant()
		if why != "" {
			c.Hit("charmode-skip:" + why)
			continue
		}
		if lw, ok := libc[i]; ok {
			if lw != want {
				panic(fmt.Sprintf("harness: the character-mode statement and libc disagree on %s %v: %q vs %q", j.s.It.text(), j.s.Args, want, lw))
			}
			c.Hit("charmode:coincides-with-libc")
			continue // already judged against libc
		}
		o := specOut[i]
		if o.Panic != "" {
			continue // reported by the caller
		}
		cs := j.s.asCase()
		c.OracleCase()
		c.Hit("charmode:verb=" + string(j.s.It.Verb))
		v := j.s.resolve().Val
		switch {
		case !v.IsStr:
			c.Hit("charmode:number")
		case len(v.S) == 0:
			c.Hit("charmode:empty")
		case c09WellFormedLen(v.S) == 0:
			c.Hit("charmode:starts-ill-formed")
		case c09WellFormedLen(v.S) > 1:
			c.Hit("charmode:starts-multibyte")
		default:
			c.Hit("charmode:starts-ascii")
		}
		if o.Err != "" {
			c.Fail(vh.Failure{Kind: "oracle", What: "a valid conversion gives an error: " + o.Err, Case: cs, Want: strconv.Quote(want)})
			continue
		}
		judged = append(judged, i)
		wants = append(wants, want)
		if o.Out != want {
			what := "character mode: %c is not the first character of the string (a well-formed UTF-8 sequence, else the single byte)"
			if !v.IsStr && j.s.It.Verb == 'c' {
				what = "character mode: %c of a number is not the UTF-8 encoding of the character with that code"
			} else if j.s.It.Verb == 's' {
				what = "character mode: %s width/precision do not count characters (well-formed UTF-8 sequences; every other byte is one character)"
			} else if len(o.Out) != len(want) && strings.TrimSpace(o.Out) == strings.TrimSpace(want) {
				what = "character mode: %c is not padded as one column"
			}
			c.Fail(vh.Failure{Kind: "oracle", What: what + " for " + j.s.It.text(), Case: cs, Got: strconv.Quote(o.Out), Want: strconv.Quote(want)})
		}
	}
}

// c09CharModeLean: the Lean statements against the harness statements, on the cases the oracle judged and on the strings
// themselves — `wellFormedSeq` (table 3-7 in Lean) against c09WellFormedLen, `charsOf` against c09Chars, `cFmtStrChars` / the
// `cfmt` request in character mode against charModeWant.
func c09CharModeLean(c *vh.Ctx, specs []specJob, judged []int, wants []string) {
	if !c.HasLean() {
		return
	}
	var reqs []string
	var expect []string
	var cases []c09Case
	seen := map[string]bool{}
	for k, i := range judged {
		s := specs[i].s
		r := s.resolve()
		v := r.Val
		ws, ps := "-", "-"
		if r.W != nil {
			ws = strconv.FormatInt(*r.W, 10)
		}
		if r.P != nil {
			ps = strconv.FormatInt(*r.P, 10)
		}
		if s.It.Verb == 's' {
			reqs = append(reqs, fmt.Sprintf("cfmtschars %s %s %s %s", vh.HxS(s.It.Flags), ws, ps, vh.Hx(v.S)))
		} else {
			reqs = append(reqs, fmt.Sprintf("cfmt 1 %s %s %s %d %d:%s:%016x", vh.HxS(s.It.Flags), ws, ps, s.It.Verb,
				map[bool]int{false: 0, true: 1}[v.IsStr], vh.Hx(v.S), math.Float64bits(v.N)))
		}
		expect = append(expect, "ok "+vh.HxS(wants[k]))
		cases = append(cases, s.asCase())
		if v.IsStr && !seen[string(v.S)] {
			seen[string(v.S)] = true
			var hs []string
			for _, ch := range c09Chars(v.S) {
				hs = append(hs, vh.Hx(ch))
			}
			e := fmt.Sprintf("%d %s", c09WellFormedLen(v.S), strings.Join(hs, ","))
			if len(hs) == 0 {
				e = "0 -"
			}
			reqs = append(reqs, "charspec "+vh.Hx(v.S))
			expect = append(expect, e)
			cases = append(cases, c09Case{Chars: true, Fmt: vh.HxS("%s"), Args: []c09Arg{strArg(string(v.S))}, Text: "characters of the string"})
		}
	}
	for k, a := range c.LeanBatch(reqs) {
		c.Trace()
		c.Hit("charmode-lean:" + strings.Fields(reqs[k])[0])
		if a != expect[k] {
			c.Fail(vh.Failure{Kind: "correspondence", What: "the Lean statement of character mode (wellFormedSeq / charsOf / cFmtStrChars / cFmtChr) and the harness statement differ: " + reqs[k],
				Case: cases[k], Got: a, Want: expect[k]})
		}
	}
}
