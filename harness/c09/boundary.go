package main

// C09, number -> string conversion at the boundaries of the integer fast path: "print writes non-integral numbers with OFMT
// and integral ones as integers" — and the same rule with CONVFMT wherever a number becomes a string.
//
// Oracle (no model): the text of a finite number v under the format F in force (OFMT for print in every output mode, CONVFMT
// for concatenation, subscripts, printf %s, field assignment, length) is fixed independently of the code:
//
//	v integral and inside int64           -> the decimal integer (math/big, exact)
//	v not integral                        -> C printf(F, v) (libc)
//	v integral, outside int64             -> the property does not fix the form: the exact decimal integer OR C printf(F, v);
//	                                         anything else (a wrapped, saturated or truncated integer) is a violation
//
// Values: every power of two that bounds an integer type or the float64 integer range (2^7 … 2^128) with its ±1 / ±1-ulp /
// half-way neighbours and negatives, the decimal powers at which %.6g and the integer test change behaviour, and random
// neighbours. Each value reaches the conversion through several expression forms (17-digit literal, exact decimal literal,
// 2^k ± d, products and quotients of 2^32, a numeric input field + 0, a -v variable + 0, a numeric-prefix string + 0); the
// probe also prints the value with %.17g so that a form that does not evaluate to the intended double is dropped, not judged.

import (
	"fmt"
	"math"
	"math/big"
	"strconv"
	"strings"

	"github.com/benhoyt/goawk/interp"

	"verifharness/vh"
)

type bval struct {
	F     float64
	Forms []bform // alternative spellings that evaluate to F
	Class string
}

type bform struct {
	Kind  string `json:"kind"` // e17 | decimal | pow | arith | field | var | strprefix
	Expr  string `json:"expr"`
	Field string `json:"field,omitempty"` // text of $1
	Var   string `json:"var,omitempty"`   // value of the -v style variable x
}

type bcase struct {
	Bits  string `json:"bits"`
	Value string `json:"value"` // exact decimal or shortest text, informational
	Class string `json:"class"`
	Form  bform  `json:"form"`
	OFMT  string `json:"ofmt"`
	CONV  string `json:"convfmt"`
	Mode  string `json:"mode"` // default | csv | tsv
	Src   string `json:"program"`
	f     float64
	out   vh.RunResult
}

func exactDecimal(f float64) (string, bool) { // exact decimal text of an integral double
	if f != math.Trunc(f) || math.IsInf(f, 0) || math.IsNaN(f) {
		return "", false
	}
	bf := new(big.Float).SetFloat64(f)
	i, _ := bf.Int(nil)
	return i.String(), true
}

func parenNeg(s string) string {
	if strings.HasPrefix(s, "-") {
		return "(" + s + ")"
	}
	return s
}

// formsFor: the spellings every value has
func formsFor(f float64) []bform {
	out := []bform{{Kind: "e17", Expr: awkNumExpr(f)}}
	var txt string
	if d, ok := exactDecimal(f); ok && len(d) < 60 {
		txt = d
	} else {
		txt = strconv.FormatFloat(f, 'f', -1, 64)
		if len(txt) > 60 {
			txt = strconv.FormatFloat(f, 'e', -1, 64)
		}
	}
	if f == 0 && math.Signbit(f) {
		return out
	}
	out = append(out, bform{Kind: "decimal", Expr: parenNeg(txt)})
	out = append(out, bform{Kind: "field", Expr: "($1 + 0)", Field: txt})
	out = append(out, bform{Kind: "var", Expr: "(x + 0)", Var: txt})
	out = append(out, bform{Kind: "strprefix", Expr: "(\"" + txt + "x\" + 0)"})
	return out
}

func c09BoundaryVals(c *vh.Ctx) []bval {
	var vals []bval
	seen := map[uint64]bool{}
	add := func(f float64, class string, extra ...bform) {
		if math.IsNaN(f) || math.IsInf(f, 0) {
			return
		}
		b := math.Float64bits(f)
		if seen[b] {
			for i := range vals {
				if math.Float64bits(vals[i].F) == b {
					vals[i].Forms = append(vals[i].Forms, extra...)
				}
			}
			return
		}
		seen[b] = true
		vals = append(vals, bval{F: f, Forms: append(formsFor(f), extra...), Class: class})
	}
	for _, k := range []int{7, 8, 15, 16, 24, 31, 32, 33, 52, 53, 54, 62, 63, 64, 65, 100, 127, 128} {
		p := math.Ldexp(1, k)
		cls := fmt.Sprintf("2^%d", k)
		for _, sg := range []float64{1, -1} {
			sgn := ""
			if sg < 0 {
				sgn = "-"
			}
			add(sg*p, cls, bform{Kind: "pow", Expr: fmt.Sprintf("(%s2^%d)", sgn, k)})
			for _, d := range []float64{1, 2, 1024, 2048} {
				add(sg*(p-d), cls+"-d", bform{Kind: "pow", Expr: fmt.Sprintf("(%s(2^%d - %g))", sgn, k, d)})
				add(sg*(p+d), cls+"+d", bform{Kind: "pow", Expr: fmt.Sprintf("(%s(2^%d + %g))", sgn, k, d)})
			}
			add(sg*math.Nextafter(p, math.Inf(1)), cls+"+ulp")
			add(sg*math.Nextafter(p, 0), cls+"-ulp")
			add(sg*(p+0.5), cls+"+half", bform{Kind: "pow", Expr: fmt.Sprintf("(%s(2^%d + 0.5))", sgn, k)})
			add(sg*(p-0.5), cls+"-half", bform{Kind: "pow", Expr: fmt.Sprintf("(%s(2^%d - 0.5))", sgn, k)})
			add(sg*p*1.5, cls+"*1.5", bform{Kind: "arith", Expr: fmt.Sprintf("(%s2^%d * 1.5)", sgn, k)})
			if k >= 33 && k <= 96 {
				add(sg*p, cls, bform{Kind: "arith", Expr: fmt.Sprintf("(%s4294967296 * %s)", sgn, strconv.FormatFloat(math.Ldexp(1, k-32), 'f', 0, 64))})
			}
			if k >= 2 && k <= 65 {
				add(sg*p, cls, bform{Kind: "arith", Expr: fmt.Sprintf("(%s4294967296^2 / %s)", sgn, strconv.FormatFloat(math.Ldexp(1, 64-k), 'f', -1, 64))})
			}
		}
	}
	for _, k := range []int{5, 6, 7, 9, 15, 16, 17, 18, 19, 20, 21, 22, 23, 30} {
		p, _ := strconv.ParseFloat(fmt.Sprintf("1e%d", k), 64)
		cls := fmt.Sprintf("10^%d", k)
		for _, sg := range []float64{1, -1} {
			sgn := ""
			if sg < 0 {
				sgn = "-"
			}
			add(sg*p, cls, bform{Kind: "decimal", Expr: fmt.Sprintf("(%s1e%d)", sgn, k)})
			add(sg*(p-1), cls+"-d")
			add(sg*(p+1), cls+"+d")
			add(sg*(p-0.5), cls+"-half")
			add(sg*math.Nextafter(p, math.Inf(1)), cls+"+ulp")
			add(sg*math.Nextafter(p, 0), cls+"-ulp")
		}
	}
	// the largest doubles below / smallest above the int64 and uint64 limits, by their decimal spelling
	add(9223372036854775807, "2^63", bform{Kind: "decimal", Expr: "9223372036854775807"})
	add(9223372036854775808, "2^63", bform{Kind: "decimal", Expr: "9223372036854775808"})
	add(-9223372036854775808, "2^63", bform{Kind: "decimal", Expr: "(-9223372036854775808)"})
	add(-9223372036854775809, "2^63", bform{Kind: "decimal", Expr: "(-9223372036854775809)"})
	add(18446744073709551615, "2^64", bform{Kind: "decimal", Expr: "18446744073709551615"})
	add(4294967295, "2^32-d", bform{Kind: "decimal", Expr: "4294967295"})
	add(2147483647, "2^31-d", bform{Kind: "decimal", Expr: "2147483647"})
	add(0, "zero")
	add(math.Copysign(0, -1), "zero")
	add(0.5, "small")
	add(-0.5, "small")
	add(1e-300, "small")
	add(math.MaxFloat64, "max", bform{Kind: "decimal", Expr: "1.7976931348623157e308"})
	// random neighbours: 2^k scaled by a random 53-bit mantissa (integral when k is large enough), and integers near 2^63
	for i := 0; i < c.N(150, 4000); i++ {
		switch c.Rng.Intn(3) {
		case 0:
			k := pick(c, []int{20, 31, 32, 40, 52, 53, 60, 62, 63, 64, 70})
			m := float64(c.Rng.Int63n(1<<53) | 1<<52)
			f := math.Ldexp(m, k-52)
			if c.Rng.Intn(2) == 0 {
				f = -f
			}
			add(f, fmt.Sprintf("random~2^%d", k))
		case 1:
			f := 9223372036854775808.0 + float64(c.Rng.Intn(41)-20)*1024
			if c.Rng.Intn(2) == 0 {
				f = -f
			}
			add(f, "random~2^63")
		default:
			f := float64(c.Rng.Int63n(1<<54)) / pick(c, []float64{1, 2, 4, 1024})
			if c.Rng.Intn(2) == 0 {
				f = -f
			}
			add(f, "random~2^53")
		}
	}
	return vals
}

var bSites = []string{"value (%.17g guard)", "concatenation", "array subscript", "printf %s", "field assignment", "length()", "print", "print v, v"}

func c09Boundary(c *vh.Ctx) {
	vals := c09BoundaryVals(c)
	floatFmts := []string{"%.6g", "%.2f", "%.10g", "%.3e", "%g", "%.0f", "%.17g", "%E", "%.1f", "%.5g", "%G", "%.12g"}
	var cases []bcase
	for _, v := range vals {
		nForms := 2
		if c.Thorough() {
			nForms = 4
		}
		perm := c.Rng.Perm(len(v.Forms))
		// a constructed spelling (2^k ± d, products, decimal limits) always takes part when there is one
		for i, pi := range perm {
			if k := v.Forms[pi].Kind; (k == "pow" || k == "arith") && i > 0 {
				perm[0], perm[i] = perm[i], perm[0]
				break
			}
		}
		for n, pi := range perm {
			if n >= nForms {
				break
			}
			fm := v.Forms[pi]
			bc := bcase{Bits: fmt.Sprintf("%016x", math.Float64bits(v.F)), Class: v.Class, Form: fm, f: v.F, Mode: "default"}
			if d, ok := exactDecimal(v.F); ok && len(d) < 60 {
				bc.Value = d
			} else {
				bc.Value = strconv.FormatFloat(v.F, 'g', -1, 64)
			}
			bc.OFMT, bc.CONV = "%.6g", "%.6g"
			if n > 0 || c.Rng.Intn(3) == 0 {
				bc.OFMT = pick(c, floatFmts)
				for {
					bc.CONV = pick(c, floatFmts)
					if bc.CONV != bc.OFMT {
						break
					}
				}
			}
			if c.Rng.Intn(3) == 0 {
				bc.Mode = pick(c, []string{"csv", "tsv"})
			}
			set := ""
			if bc.OFMT != "%.6g" || bc.CONV != "%.6g" || c.Rng.Intn(2) == 0 {
				set = fmt.Sprintf("BEGIN { OFMT = %s; CONVFMT = %s }\n", awkStrLit([]byte(bc.OFMT)), awkStrLit([]byte(bc.CONV)))
			}
			if bc.Mode == "default" {
				bc.Src = set + fmt.Sprintf(`{ v = %s
  printf "%%.17g\002", v
  s = v ""; printf "%%s\002", s
  a[v] = 1; for (k in a) printf "%%s\002", k
  printf "%%s\002", v
  $0 = "a b"; $2 = v; printf "%%s\002", $0
  printf "%%d\002", length(v)
  ORS = "\002"; OFS = "|"; print v; print v, v
}`, fm.Expr)
			} else {
				bc.Src = set + fmt.Sprintf("{ v = %s; printf \"%%.17g\\002\", v; print \"n\", v, v \"\" }", fm.Expr)
			}
			cases = append(cases, bc)
		}
	}
	vh.Parallel(len(cases), func(i int) {
		bc := &cases[i]
		in := "0\n"
		if bc.Form.Field != "" {
			in = bc.Form.Field + "\n"
		}
		cfg := &interp.Config{Stdin: strings.NewReader(in)}
		if bc.Form.Var != "" {
			cfg.Vars = []string{"x", bc.Form.Var}
		}
		switch bc.Mode {
		case "csv":
			cfg.OutputMode = interp.CSVMode
		case "tsv":
			cfg.OutputMode = interp.TSVMode
		}
		bc.out = vh.ExecProg(vh.MustParse(bc.Src), cfg)
	})

	// reference texts
	type key struct {
		f    string
		bits uint64
	}
	libc := map[key]string{}
	var reqs []string
	var rkeys []key
	need := func(f string, v float64) {
		k := key{f, math.Float64bits(v)}
		if _, ok := libc[k]; ok {
			return
		}
		if n, ok := truncInt64(v); ok && float64(n) == v {
			return
		}
		libc[k] = "\x00"
		reqs = append(reqs, fmt.Sprintf("%s f 0 0 0 %016x", vh.HxS(f), math.Float64bits(v)))
		rkeys = append(rkeys, k)
	}
	for _, bc := range cases {
		need(bc.OFMT, bc.f)
		need(bc.CONV, bc.f)
	}
	for i, a := range runCoracle(reqs) {
		if a == "ERR" {
			delete(libc, rkeys[i])
			continue
		}
		libc[rkeys[i]] = string(vh.Unhx(a))
	}
	// accepted texts of v under format f
	accepted := func(f string, v float64) []string {
		if n, ok := truncInt64(v); ok && float64(n) == v {
			d, _ := exactDecimal(v)
			if d != strconv.FormatInt(n, 10) {
				panic("harness: exactDecimal and FormatInt disagree")
			}
			return []string{d}
		}
		var acc []string
		if t, ok := libc[key{f, math.Float64bits(v)}]; ok {
			acc = append(acc, t)
		} else {
			return nil
		}
		if d, ok := exactDecimal(v); ok {
			acc = append(acc, d)
		}
		return acc
	}
	oneOf := func(got string, acc []string, wrap func(string) string) bool {
		for _, a := range acc {
			if got == wrap(a) {
				return true
			}
		}
		return false
	}
	id := func(s string) string { return s }

	var leanReq, leanGot []string
	var leanCase []*bcase
	defer func() {
		if !c.HasLean() {
			return
		}
		for k, a := range c.LeanBatch(leanReq) {
			c.Trace()
			if a != "ok "+vh.HxS(leanGot[k]) {
				c.Fail(vh.Failure{Kind: "correspondence", What: "Lean numToStr and the real number-to-string conversion differ: " + leanReq[k], Case: leanCase[k],
					Got: "ok " + vh.HxS(leanGot[k]) + " " + strconv.Quote(leanGot[k]), Want: a})
			}
		}
	}()
	for i := range cases {
		bc := &cases[i]
		_, plainInt := numIsPlainInt(bc.f)
		integral := bc.f == math.Trunc(bc.f)
		c.Eval(fmt.Sprint("boundary", bc.Src, bc.Form.Field, bc.Form.Var, bc.Mode), true)
		base, nb := bc.Class, "exact"
		if i := strings.IndexAny(bc.Class[1:], "+-*"); i >= 0 && !strings.HasPrefix(bc.Class, "random") {
			base, nb = bc.Class[:i+1], bc.Class[i+1:]
		}
		c.Hit("boundary:class=" + base)
		c.Hit("boundary:neighbour=" + nb)
		c.Hit("boundary:form=" + bc.Form.Kind)
		c.Hit("boundary:mode=" + bc.Mode)
		switch {
		case plainInt:
			c.Hit("boundary:value=integral-in-int64")
		case integral:
			c.Hit("boundary:value=integral-beyond-int64")
		default:
			c.Hit("boundary:value=non-integral")
		}
		if bc.out.Panic != "" || bc.out.Err != "" {
			c.OracleCase()
			c.Fail(vh.Failure{Kind: "oracle", What: "number-to-string probe failed: " + bc.out.String(), Case: bc})
			continue
		}
		parts := strings.Split(bc.out.Out, "\x02")
		g, err := strconv.ParseFloat(parts[0], 64)
		if err != nil || math.Float64bits(g) != math.Float64bits(bc.f) {
			if !(g == 0 && bc.f == 0) {
				c.Hit("boundary-skip:the spelling does not evaluate to the intended double (not this property's business)")
				continue
			}
		}
		accO := accepted(bc.OFMT, bc.f)
		accC := accepted(bc.CONV, bc.f)
		if accO == nil || accC == nil {
			c.Hit("boundary-skip:libc buffer")
			continue
		}
		c.OracleCase()
		fail := func(site, got string, acc []string, which string) {
			what := "number-to-string conversion at: " + site + " is neither the integer nor C printf of " + which
			if plainInt {
				what = "number-to-string conversion at: " + site + ": an integral number is not written as the integer"
			} else if !integral {
				what = "number-to-string conversion at: " + site + ": a non-integral number is not C printf of " + which
			}
			c.Fail(vh.Failure{Kind: "oracle", What: what, Case: bc, Got: strconv.Quote(got), Want: strconv.Quote(strings.Join(acc, "\" or \""))})
		}
		if bc.Mode != "default" {
			sep := ','
			if bc.Mode == "tsv" {
				sep = '\t'
			}
			if len(parts) != 2 {
				c.Fail(vh.Failure{Kind: "oracle", What: "number-to-string probe: unexpected output shape", Case: bc, Got: strconv.Quote(bc.out.Out)})
				continue
			}
			ok := false
			var wants []string
			for _, o := range accO {
				for _, cv := range accC {
					w := csvJoin([]string{"n", o, cv}, sep)
					wants = append(wants, w)
					if parts[1] == w {
						ok = true
					}
				}
			}
			if !ok {
				fail(bc.Mode+" print (OFMT), concatenation (CONVFMT)", parts[1], wants, "OFMT / CONVFMT")
			}
			continue
		}
		if len(parts) != len(bSites)+1 || parts[len(parts)-1] != "" { // print v, v ends with ORS; the split leaves an empty tail
			c.Fail(vh.Failure{Kind: "oracle", What: "number-to-string probe: unexpected output shape", Case: bc, Got: strconv.Quote(bc.out.Out)})
			continue
		}
		checks := []struct {
			got  string
			acc  []string
			wrap func(string) string
			who  string
		}{
			{}, // guard
			{parts[1], accC, id, "CONVFMT"},
			{parts[2], accC, id, "CONVFMT"},
			{parts[3], accC, id, "CONVFMT"},
			{parts[4], accC, func(s string) string { return "a " + s }, "CONVFMT"},
			{parts[5], accC, func(s string) string { return strconv.Itoa(len(s)) }, "CONVFMT"},
			{parts[6], accO, id, "OFMT"},
			{parts[7], accO, func(s string) string { return s + "|" + s }, "OFMT"},
		}
		leanReq = append(leanReq, fmt.Sprintf("numtostr %s %s", vh.HxS(bc.OFMT), bc.Bits), fmt.Sprintf("numtostr %s %s", vh.HxS(bc.CONV), bc.Bits))
		leanGot = append(leanGot, parts[6], parts[1])
		leanCase = append(leanCase, bc, bc)
		for k := 1; k < len(checks); k++ {
			if !oneOf(checks[k].got, checks[k].acc, checks[k].wrap) {
				fail(bSites[k], checks[k].got, checks[k].acc, checks[k].who)
				break
			}
		}
		if i%997 == 0 {
			c.Sample(map[string]interface{}{"boundary": bc, "out": bc.out.Out})
		}
	}
}
