package main

// C09 — printf and sprintf format like C printf; print uses OFMT.
//
// Implementation-side oracle (no model in the loop): every conversion specification of a case is run alone through the
// public API (`BEGIN { printf fmt, args }`) and compared with libc's snprintf (tools/coracle.c) on the argument
// converted the AWK way; the whole format must equal the concatenation of its items; unknown verbs and missing
// arguments must be run-time errors; `print` must use OFMT for non-integral numbers and plain integers otherwise.
// Only combinations ISO C defines are compared (see c09InCDomain); %s/%c with width or precision only for ASCII text.
// Correspondence: the Lean model `awkSprintf` (GoawkModel/C09.lean) on the same format and arguments, the Lean C
// specification `cFormat` against libc, and `numToStr` against print.

import (
	"bufio"
	"bytes"
	"encoding/json"
	"fmt"
	"math"
	"math/big"
	"os"
	"os/exec"
	"path/filepath"
	"strconv"
	"strings"

	"github.com/benhoyt/goawk/interp"

	"verifharness/vh"
)

// ---- cases ---------------------------------------------------------------------------------------

type c09Arg struct {
	Kind string `json:"kind"`           // num | str | field
	Hex  string `json:"hex,omitempty"`  // str / field: the bytes
	Bits string `json:"bits,omitempty"` // num: IEEE-754 bits, 16 hex digits
}

type c09Case struct {
	Chars bool     `json:"chars"`
	Fmt   string   `json:"fmt_hex"`
	Args  []c09Arg `json:"args"`
	Text  string   `json:"text,omitempty"` // human-readable rendering, informational
}

func numArg(f float64) c09Arg { return c09Arg{Kind: "num", Bits: fmt.Sprintf("%016x", math.Float64bits(f))} }
func strArg(s string) c09Arg  { return c09Arg{Kind: "str", Hex: vh.HxS(s)} }
func fldArg(s string) c09Arg  { return c09Arg{Kind: "field", Hex: vh.HxS(s)} }

func (a c09Arg) float() float64 {
	b, _ := strconv.ParseUint(a.Bits, 16, 64)
	return math.Float64frombits(b)
}
func (a c09Arg) bytes() []byte { return vh.Unhx(a.Hex) }

// views: what sprintf sees of the value (isTrueStr, toString, num), computed with the conversion hooks (those routines belong
// to property C05, not to this one). ok=false when the value cannot be expressed in a probe program.
type c09View struct {
	IsStr bool
	S     []byte
	N     float64
}

func (a c09Arg) view() (c09View, bool) {
	switch a.Kind {
	case "num":
		f := a.float()
		return c09View{false, []byte(interp.VerifNumToStr(f, "%.6g")), f}, true
	case "str":
		s := string(a.bytes())
		return c09View{true, []byte(s), interp.VerifParseFloatPrefix(s)}, true
	case "field":
		s := string(a.bytes())
		if strings.ContainsAny(s, "\n\x01") {
			return c09View{}, false
		}
		n, isStr := interp.VerifNumStrIsTrueStr(s)
		p := interp.VerifParseFloatPrefix(s)
		if !isStr && math.Float64bits(n) != math.Float64bits(p) {
			return c09View{}, false // whole-string and prefix conversion differ: %c and %d would see different numbers
		}
		return c09View{isStr, []byte(s), p}, true
	}
	return c09View{}, false
}

func awkStrLit(b []byte) string {
	var sb strings.Builder
	sb.WriteByte('"')
	for _, c := range b {
		if (c >= 'a' && c <= 'z') || (c >= 'G' && c <= 'Z') || c == ' ' || c == '%' || c == '.' || c == '*' || c == '#' || c == '+' || c == '-' {
			sb.WriteByte(c)
		} else {
			fmt.Fprintf(&sb, "\\x%02x", c)
		}
	}
	sb.WriteByte('"')
	return sb.String()
}

func awkNumExpr(f float64) string {
	switch {
	case math.IsNaN(f):
		if math.Signbit(f) {
			return "(-log(-1))"
		}
		return "log(-1)"
	case math.IsInf(f, 1):
		return "(-log(0))"
	case math.IsInf(f, -1):
		return "log(0)"
	case f == 0 && math.Signbit(f):
		return "(-0)"
	case f < 0:
		return "(-" + strconv.FormatFloat(-f, 'e', 17, 64) + ")"
	}
	return strconv.FormatFloat(f, 'e', 17, 64)
}

// program and input for a case: literals inline, field-kind arguments as $k of one record split on \x01
func (cs c09Case) program(verb string) (src string, stdin string) {
	var exprs []string
	var fields []string
	for _, a := range cs.Args {
		switch a.Kind {
		case "num":
			exprs = append(exprs, awkNumExpr(a.float()))
		case "str":
			exprs = append(exprs, awkStrLit(a.bytes()))
		case "field":
			fields = append(fields, string(a.bytes()))
			exprs = append(exprs, fmt.Sprintf("$%d", len(fields)))
		}
	}
	fields = append(fields, "end")
	args := ""
	if len(exprs) > 0 {
		args = ", " + strings.Join(exprs, ", ")
	}
	if verb == "sprintf" {
		return fmt.Sprintf("{ x = sprintf(%s%s); printf \"%%s\", x }", awkStrLit(vh.Unhx(cs.Fmt)), args), strings.Join(fields, "\x01") + "\n"
	}
	return fmt.Sprintf("{ printf %s%s }", awkStrLit(vh.Unhx(cs.Fmt)), args), strings.Join(fields, "\x01") + "\n"
}

func (cs c09Case) run(verb string) vh.RunResult {
	src, in := cs.program(verb)
	cfg := &interp.Config{Stdin: strings.NewReader(in), Vars: []string{"FS", "\x01"}, Chars: cs.Chars}
	return vh.ExecProg(vh.MustParse(src), cfg)
}

func (cs c09Case) leanReq() (string, bool) {
	parts := []string{"sprintf", map[bool]string{false: "0", true: "1"}[cs.Chars], cs.Fmt}
	for _, a := range cs.Args {
		v, ok := a.view()
		if !ok {
			return "", false
		}
		parts = append(parts, fmt.Sprintf("%d:%s:%016x", map[bool]int{false: 0, true: 1}[v.IsStr], vh.Hx(v.S), math.Float64bits(v.N)))
	}
	return strings.Join(parts, " "), true
}

func errClass(e string) string {
	switch {
	case strings.Contains(e, "expected type specifier after %"):
		return "err noverb"
	case strings.Contains(e, "invalid format type"):
		i := strings.Index(e, "invalid format type ")
		q := e[i+len("invalid format type "):]
		if r, err := strconv.Unquote(q); err == nil {
			if len(r) == 1 {
				return fmt.Sprintf("err badverb %d", r[0])
			}
			rs := []rune(r)
			if len(rs) == 1 && rs[0] < 256 { // %q of a byte >= 0x80 prints the Latin-1 rune
				return fmt.Sprintf("err badverb %d", rs[0])
			}
		}
		return "err badverb ?"
	case strings.Contains(e, "format error: got "):
		var g, x int
		i := strings.Index(e, "format error: got ")
		fmt.Sscanf(e[i:], "format error: got %d args, expected %d", &g, &x)
		return fmt.Sprintf("err argcount %d %d", g, x)
	}
	return "err other " + e
}

// ---- a strict C-grammar format parser (harness side, independent of the model) ----------------------

type c09Item struct {
	Lit    []byte // literal text (Spec == false)
	Pct    bool   // %%
	IsSpec bool
	Flags  string
	Width  string // "", digits, "*"
	Prec   string // "" (absent), "." + digits, ".*"
	Verb   byte
}

func (it c09Item) text() string {
	if it.Pct {
		return "%%"
	}
	if !it.IsSpec {
		return string(it.Lit)
	}
	return "%" + it.Flags + it.Width + it.Prec + string(it.Verb)
}

func (it c09Item) stars() int {
	n := 0
	if it.Width == "*" {
		n++
	}
	if it.Prec == ".*" {
		n++
	}
	return n
}

// parseC splits a format by the C grammar; ok=false when some `%` does not start a well-formed specification.
func parseC(f []byte) (items []c09Item, ok bool) {
	i := 0
	for i < len(f) {
		if f[i] != '%' {
			j := i
			for j < len(f) && f[j] != '%' {
				j++
			}
			items = append(items, c09Item{Lit: f[i:j]})
			i = j
			continue
		}
		i++
		if i < len(f) && f[i] == '%' {
			items = append(items, c09Item{Pct: true})
			i++
			continue
		}
		it := c09Item{IsSpec: true}
		for i < len(f) && strings.IndexByte("-+ #0", f[i]) >= 0 {
			it.Flags += string(f[i])
			i++
		}
		if i < len(f) && f[i] == '*' {
			it.Width = "*"
			i++
		} else {
			for i < len(f) && f[i] >= '0' && f[i] <= '9' {
				it.Width += string(f[i])
				i++
			}
		}
		if i < len(f) && f[i] == '.' {
			it.Prec = "."
			i++
			if i < len(f) && f[i] == '*' {
				it.Prec = ".*"
				i++
			} else {
				for i < len(f) && f[i] >= '0' && f[i] <= '9' {
					it.Prec += string(f[i])
					i++
				}
			}
		}
		if i >= len(f) {
			return nil, false
		}
		it.Verb = f[i]
		i++
		items = append(items, it)
	}
	return items, true
}

const c09Verbs = "diouxXcseEfgG"

// c09InCDomain: the flag/verb combinations ISO C defines (DESIGN.md C09): # only with o x X e E f g G; 0 not with c s;
// + and space only with signed conversions; no precision with c.
func c09InCDomain(it c09Item) bool {
	if strings.IndexByte(c09Verbs, it.Verb) < 0 {
		return false
	}
	v := string(it.Verb)
	if strings.Contains(it.Flags, "#") && !strings.Contains("oxXeEfgG", v) {
		return false
	}
	if strings.Contains(it.Flags, "0") && strings.Contains("cs", v) {
		return false
	}
	if strings.ContainsAny(it.Flags, "+ ") && !strings.Contains("dieEfgG", v) {
		return false
	}
	if it.Verb == 'c' && it.Prec != "" {
		return false
	}
	return true
}

func isASCII(b []byte) bool {
	for _, c := range b {
		if c >= 0x80 {
			return false
		}
	}
	return true
}

func truncInt64(f float64) (int64, bool) {
	if math.IsNaN(f) || math.IsInf(f, 0) {
		return 0, false
	}
	t := math.Trunc(f)
	if t >= 9223372036854775808.0 || t < -9223372036854775808.0 {
		return 0, false
	}
	return int64(t), true
}

// ---- libc oracle ---------------------------------------------------------------------------------

func coraclePath() string {
	src := "/verif/tools/coracle.c"
	bin := "/verif/tools/coracle"
	si, err1 := os.Stat(src)
	bi, err2 := os.Stat(bin)
	if err1 == nil && err2 == nil && !bi.ModTime().Before(si.ModTime()) {
		return bin
	}
	tmp := filepath.Join(os.TempDir(), fmt.Sprintf("coracle_c09_%d", os.Getuid()))
	for _, cc := range []string{"cc", "clang", "gcc"} {
		if out, err := exec.Command(cc, "-O1", "-w", "-o", tmp, src).CombinedOutput(); err == nil {
			return tmp
		} else {
			_ = out
		}
	}
	if err2 == nil {
		return bin
	}
	panic("cannot build tools/coracle.c (no C compiler?)")
}

func runCoracle(reqs []string) []string {
	if len(reqs) == 0 {
		return nil
	}
	cmd := exec.Command(coraclePath())
	cmd.Stdin = strings.NewReader(strings.Join(reqs, "\n") + "\n")
	cmd.Env = append(os.Environ(), "LC_ALL=C")
	out, err := cmd.Output()
	if err != nil {
		panic(fmt.Sprint("coracle failed: ", err))
	}
	sc := bufio.NewScanner(bytes.NewReader(out))
	sc.Buffer(make([]byte, 1<<20), 1<<20)
	var res []string
	for sc.Scan() {
		res = append(res, sc.Text())
	}
	if len(res) != len(reqs) {
		panic(fmt.Sprintf("coracle answered %d lines for %d requests", len(res), len(reqs)))
	}
	return res
}

// one specification with its own arguments (stars first, then the value)
type c09SpecCase struct {
	Chars bool
	It    c09Item
	Args  []c09Arg
}

func (s c09SpecCase) asCase() c09Case {
	return c09Case{Chars: s.Chars, Fmt: vh.HxS(s.It.text()), Args: s.Args, Text: s.It.text()}
}

// resolved numbers of a specification: width/precision after `*`, nil when absent
type c09Resolved struct {
	W, P       *int64
	StarW      bool
	StarP      bool
	Val        c09View
	ok         bool
	skipReason string
}

func (s c09SpecCase) resolve() c09Resolved {
	var r c09Resolved
	args := s.Args
	take := func() (int64, bool) {
		if len(args) == 0 {
			return 0, false
		}
		v, ok := args[0].view()
		args = args[1:]
		if !ok {
			return 0, false
		}
		return truncInt64(v.N)
	}
	if s.It.Width == "*" {
		v, ok := take()
		if !ok {
			r.skipReason = "star width not an int64"
			return r
		}
		r.W, r.StarW = &v, true
	} else if s.It.Width != "" {
		v, err := strconv.ParseInt(s.It.Width, 10, 64)
		if err != nil {
			r.skipReason = "width literal too long"
			return r
		}
		r.W = &v
	}
	if s.It.Prec == ".*" {
		v, ok := take()
		if !ok {
			r.skipReason = "star precision not an int64"
			return r
		}
		r.P, r.StarP = &v, true
	} else if s.It.Prec != "" {
		v, err := strconv.ParseInt("0"+s.It.Prec[1:], 10, 64)
		if err != nil {
			r.skipReason = "precision literal too long"
			return r
		}
		r.P = &v
	}
	if len(args) != 1 {
		r.skipReason = "argument count"
		return r
	}
	v, ok := args[0].view()
	if !ok {
		r.skipReason = "argument not expressible"
		return r
	}
	r.Val, r.ok = v, true
	return r
}

const c09MaxField = 30000 // libc comparison only for resolved widths/precisions up to this

// coracleReq builds the libc request for one specification; ok=false (with the reason) when the property makes no
// C-checkable claim for it.
func (s c09SpecCase) coracleReq() (req string, why string) {
	it := s.It
	if !c09InCDomain(it) {
		return "", "outside-C-domain"
	}
	r := s.resolve()
	if !r.ok {
		return "", r.skipReason
	}
	abs := func(p *int64) int64 {
		if p == nil {
			return 0
		}
		if *p < 0 {
			return -*p
		}
		return *p
	}
	if abs(r.W) > c09MaxField || abs(r.P) > c09MaxField {
		return "", "width/precision beyond oracle buffer"
	}
	s1, s2 := int64(0), int64(0)
	ns := 0
	if r.StarW {
		s1 = *r.W
		ns++
	}
	if r.StarP {
		if ns == 0 {
			s1 = *r.P
		} else {
			s2 = *r.P
		}
		ns++
	}
	v := r.Val
	cf := "%" + it.Flags + it.Width + it.Prec
	kind, arg := "", ""
	switch it.Verb {
	case 'd', 'i':
		n, ok := truncInt64(v.N)
		if !ok {
			return "", "integer conversion of a value outside int64"
		}
		cf += "ll" + string(it.Verb)
		kind, arg = "d", strconv.FormatInt(n, 10)
	case 'o', 'x', 'X', 'u':
		n, ok := truncInt64(v.N)
		if !ok {
			return "", "integer conversion of a value outside int64"
		}
		cf += "ll" + string(it.Verb)
		kind, arg = "u", strconv.FormatUint(uint64(n), 10)
	case 'e', 'E', 'f', 'g', 'G':
		if (it.Verb == 'g' || it.Verb == 'G') && strings.Contains(it.Flags, "#") && c09GlibcSharpGCarry(v.N, r.P) {
			return "", "glibc 2.36 prints %#g without the trailing zeros when rounding carries into e-style (libc defect, not comparable)"
		}
		cf += string(it.Verb)
		kind, arg = "f", fmt.Sprintf("%016x", math.Float64bits(v.N))
	case 's':
		if bytes.IndexByte(v.S, 0) >= 0 {
			return "", "NUL inside %s argument (not a C string)"
		}
		if (it.Width != "" || it.Prec != "") && !isASCII(v.S) {
			return "", "%s width/precision with non-ASCII text"
		}
		if len(v.S) > c09MaxField {
			return "", "long string"
		}
		cf += "s"
		kind, arg = "s", vh.Hx(v.S)
	case 'c':
		var code int64
		if v.IsStr {
			if len(v.S) == 0 {
				code = 0
			} else if s.Chars && v.S[0] >= 0x80 {
				return "", "%c of a multi-byte character"
			} else {
				code = int64(v.S[0])
			}
		} else {
			n, ok := truncInt64(v.N)
			if !ok || n < -2147483648 || n > 2147483647 {
				return "", "%c of a number outside int"
			}
			if s.Chars && (n < 0 || n > 127) {
				return "", "%c of a non-ASCII code in character mode"
			}
			code = n
		}
		cf += "c"
		kind, arg = "c", strconv.FormatInt(code, 10)
	}
	return fmt.Sprintf("%s %s %d %d %d %s", vh.HxS(cf), kind, ns, s1, s2, arg), ""
}

// glibc (2.36 here) prints `%#g` of 999999.5 as `1.e+06`: when rounding to P digits carries to the next power of ten and the
// e-style is chosen, the zeros that `#` must keep are dropped. ISO C says "trailing zeros are not removed", so such cases are
// not compared with libc.
func c09GlibcSharpGCarry(f float64, p *int64) bool {
	if math.IsNaN(f) || math.IsInf(f, 0) || f == 0 {
		return false
	}
	P := 6
	if p != nil && *p >= 0 {
		P = int(*p)
	}
	if P == 0 {
		P = 1
	}
	expOf := func(s string) int {
		i := strings.IndexByte(s, 'e')
		n, _ := strconv.Atoi(s[i+1:])
		return n
	}
	x1 := expOf(strconv.FormatFloat(math.Abs(f), 'e', P-1, 64))
	x2 := expOf(strconv.FormatFloat(math.Abs(f), 'e', 40, 64))
	return x1 != x2 && (x1 < -4 || x1 >= P)
}

// ---- known-finding class predicates ------------------------------------------------------------------

func padTo(body string, w *int64, minus bool) string {
	if w == nil {
		return body
	}
	width := *w
	if width < 0 {
		width, minus = -width, true
	}
	n := int(width) - len(body)
	if n <= 0 {
		return body
	}
	if minus {
		return body + strings.Repeat(" ", n)
	}
	return strings.Repeat(" ", n) + body
}

// c09Classify names the known-finding class that accepts a specification on which the real output differs from libc, or "".
//
//	F27    a non-finite value formatted by e E f g G, and the output is exactly Go's spelling (+Inf/-Inf/NaN with Go's sign rule)
//	F15    value zero and: x/X with '#', or precision 0 with ('#' and o) or ('+'/space and d/i); output has no digit other than 0
//	G09-1  flags '#' and '0' (no '-'), no precision, x/X, non-zero value, width wider than the digits: fmt pads the digits to the
//	       full width and then adds 0x, so the result is two characters too wide; output is exactly that text
//	G09-2  a negative `*` precision: output starts with fmt's %!(BADPREC) text
//	G09-3  a `*` width or precision whose magnitude exceeds 10^6: output contains %!(BADWIDTH) / %!(BADPREC)
func c09Classify(s c09SpecCase, got string) string {
	it := s.It
	r := s.resolve()
	if !r.ok {
		// a `*` argument that is not an int64 (NaN, ±Inf, |x| ≥ 2^63) is converted to the extreme int64 by the
		// interpreter, i.e. a width/precision whose magnitude exceeds 10^6: the same class as G09-3
		if strings.HasPrefix(r.skipReason, "star ") && (strings.Contains(got, "%!(BADWIDTH)") || strings.Contains(got, "%!(BADPREC)")) {
			return "G09-3"
		}
		return ""
	}
	minus := strings.Contains(it.Flags, "-")
	plus := strings.Contains(it.Flags, "+")
	space := strings.Contains(it.Flags, " ")
	sharp := strings.Contains(it.Flags, "#")
	zero := strings.Contains(it.Flags, "0")
	if (r.StarW && (*r.W > 1000000 || *r.W < -1000000)) || (r.StarP && *r.P > 1000000) {
		if strings.Contains(got, "%!(BADWIDTH)") || strings.Contains(got, "%!(BADPREC)") {
			return "G09-3"
		}
		return ""
	}
	if r.StarP && *r.P < 0 {
		if strings.HasPrefix(got, "%!(BADPREC)") || (r.StarW && strings.Contains(got, "%!(BADPREC)")) {
			return "G09-2"
		}
		return ""
	}
	v := r.Val
	if strings.IndexByte("eEfgG", it.Verb) >= 0 && (math.IsNaN(v.N) || math.IsInf(v.N, 0)) {
		var body string
		if math.IsNaN(v.N) {
			body = "NaN"
			if plus {
				body = "+NaN"
			} else if space {
				body = " NaN"
			}
		} else {
			sgn := "+"
			if v.N < 0 {
				sgn = "-"
			} else if space && !plus {
				sgn = " "
			}
			body = sgn + "Inf"
		}
		if got == padTo(body, r.W, minus) {
			return "F27"
		}
		return ""
	}
	if strings.IndexByte("dioxXu", it.Verb) >= 0 {
		n, ok := truncInt64(v.N)
		if !ok {
			return ""
		}
		p0 := r.P != nil && *r.P == 0
		if n == 0 {
			cls := ((it.Verb == 'x' || it.Verb == 'X') && sharp) || (p0 && it.Verb == 'o' && sharp) || (p0 && (it.Verb == 'd' || it.Verb == 'i') && (plus || space))
			if cls && strings.Trim(got, " 0xX") == "" {
				return "F15"
			}
			return ""
		}
		if (it.Verb == 'x' || it.Verb == 'X') && sharp && zero && !minus && r.P == nil && r.W != nil && *r.W >= 0 {
			digs := strconv.FormatUint(uint64(n), 16)
			if it.Verb == 'X' {
				digs = strings.ToUpper(digs)
			}
			if int(*r.W) > len(digs) {
				want := "0" + string(it.Verb) + strings.Repeat("0", int(*r.W)-len(digs)) + digs
				if got == want {
					return "G09-1"
				}
			}
		}
	}
	return ""
}

// ---- generators -----------------------------------------------------------------------------------

var c09IntVals = []float64{0, 1, -1, 7, 8, 9, 10, 15, 16, 42, -42, 255, -255, 256, 4095, 65535, 123456789, -123456789,
	2147483647, 2147483648, -2147483648, 4294967295, 4294967296, 9007199254740992, -9007199254740993,
	9223372036854774784, -9223372036854775808, 1.5, -1.5, 0.999, -0.999, 2.5, 1e15 + 0.5, 65.9}
var c09FloatVals = []float64{0, math.Copysign(0, -1), 0.5, -0.5, 1, 1.0 / 3, 100000.0 / 3, 0.00001234, 0.0001, 0.00009999995, 123456789.125, 999999.5, 9.9999995,
	1e21, 1e-7, 2.5, 3.5, 0.125, 1e100, 5e-324, 1.7976931348623157e308, 123456, 1234567, 100, 1e6, 1e5, 0.1, 3.14159265358979,
	-2.675, 1e15, 1e16, 1e17, 2.2250738585072014e-308}
var c09NonFinite = []float64{math.Inf(1), math.Inf(-1), math.NaN()}
var c09StrVals = []string{"", "a", "hello", "hello world", "12abc", "  42  ", "-7.9e1x", "0x1A", "+5", "%d", "a\tb", "zzzzzzzzzzzzzzzzzzzzzzzzzzzzzzzzzzzzzzzzzz"}
var c09MBVals = []string{"é", "日本語", "añb", "\xff", "\xc3", "a\xffb", "😀x", "\xe6\x97"}
var c09CharNums = []float64{0, 1, 10, 37, 48, 65, 97, 126, 127, 128, 200, 255, 256, 321, -1, -191, 65.9, 233, 955, 8364, 55296, 65533, 128512, 1114111, 1114112, 2147483647, 2147483648, 4294967361, -2147483648, -2147483649, 1e30, -1e30}

func pick[T any](c *vh.Ctx, xs []T) T { return xs[c.Rng.Intn(len(xs))] }

func randFloatArg(c *vh.Ctx) float64 {
	switch c.Rng.Intn(10) {
	case 0:
		return pick(c, c09NonFinite)
	case 1, 2:
		return pick(c, c09FloatVals)
	case 3:
		return pick(c, c09IntVals)
	case 4:
		return math.Float64frombits(c.Rng.Uint64()) // any bit pattern (may be NaN/Inf/subnormal)
	case 5:
		return float64(c.Rng.Int63()) * pick(c, []float64{1, -1, 1e-3, 1e-10, 1e10})
	case 6:
		return float64(c.Rng.Intn(2000)-1000) / pick(c, []float64{1, 2, 4, 8, 10, 100, 3, 7})
	case 7:
		return math.Ldexp(float64(c.Rng.Int63n(1<<53)), c.Rng.Intn(200)-100)
	case 8:
		return float64(int64(c.Rng.Uint64()))
	}
	return float64(c.Rng.Intn(100000)) / 1000
}

func randValueArg(c *vh.Ctx, verb byte) c09Arg {
	k := c.Rng.Intn(20)
	switch {
	case verb == 's':
		switch {
		case k < 8:
			return strArg(pick(c, c09StrVals))
		case k < 11:
			return strArg(pick(c, c09MBVals))
		case k < 14:
			return fldArg(pick(c, c09StrVals))
		case k < 15:
			return fldArg(pick(c, c09MBVals))
		default:
			return numArg(randFloatArg(c))
		}
	case verb == 'c':
		switch {
		case k < 8:
			return numArg(pick(c, c09CharNums))
		case k < 10:
			return numArg(float64(c.Rng.Intn(300)))
		case k < 13:
			return strArg(pick(c, c09StrVals))
		case k < 16:
			return strArg(pick(c, c09MBVals))
		case k < 18:
			return fldArg(pick(c, append(append([]string{}, c09StrVals...), "65", "7", "3e2")))
		default:
			return fldArg(pick(c, c09MBVals))
		}
	case strings.IndexByte("dioxXu", verb) >= 0:
		switch {
		case k < 8:
			return numArg(pick(c, c09IntVals))
		case k < 13:
			return numArg(randFloatArg(c))
		case k < 16:
			return strArg(pick(c, c09StrVals))
		default:
			return fldArg(pick(c, append(append([]string{}, c09StrVals...), "17", "-3", "1e3", " 0x10")))
		}
	default:
		switch {
		case k < 15:
			return numArg(randFloatArg(c))
		case k < 18:
			return strArg(pick(c, c09StrVals))
		default:
			return fldArg(pick(c, append(append([]string{}, c09StrVals...), "2.5", "1e-3")))
		}
	}
}

func randStarArg(c *vh.Ctx) c09Arg {
	switch c.Rng.Intn(12) {
	case 0:
		return numArg(float64(-1 - c.Rng.Intn(12)))
	case 1:
		return numArg(0)
	case 2:
		return numArg(float64(c.Rng.Intn(400)) / 8) // fractional: truncated
	case 3:
		return strArg(pick(c, []string{"7", "3x", "", "-4"}))
	case 4:
		return fldArg(pick(c, []string{"6", "12", "-9"}))
	}
	return numArg(float64(c.Rng.Intn(24)))
}

func randFlags(c *vh.Ctx) string {
	fl := ""
	for _, f := range "-+ #0" {
		if c.Rng.Intn(4) == 0 {
			fl += string(f)
		}
	}
	if c.Rng.Intn(10) == 0 && fl != "" { // repeated / reordered flags
		b := []byte(fl + fl[:1])
		c.Rng.Shuffle(len(b), func(i, j int) { b[i], b[j] = b[j], b[i] })
		fl = string(b)
	}
	return fl
}

func randSpec(c *vh.Ctx, inDomain bool) c09Item {
	for {
		it := c09Item{IsSpec: true, Flags: randFlags(c)}
		switch c.Rng.Intn(8) {
		case 0, 1, 2:
		case 3:
			it.Width = "*"
		default:
			it.Width = strconv.Itoa(pick(c, []int{1, 2, 3, 5, 8, 12, 20, 33}))
		}
		switch c.Rng.Intn(8) {
		case 0, 1, 2:
		case 3:
			it.Prec = ".*"
		case 4:
			it.Prec = "."
		default:
			it.Prec = "." + strconv.Itoa(pick(c, []int{0, 1, 2, 3, 6, 9, 17, 25}))
		}
		if c.Rng.Intn(30) == 0 {
			it.Prec = ".0" + strconv.Itoa(c.Rng.Intn(9))
		}
		it.Verb = c09Verbs[c.Rng.Intn(len(c09Verbs))]
		if !inDomain || c09InCDomain(it) {
			return it
		}
	}
}

func specArgs(c *vh.Ctx, it c09Item) []c09Arg {
	var args []c09Arg
	for i := 0; i < it.stars(); i++ {
		args = append(args, randStarArg(c))
	}
	return append(args, randValueArg(c, it.Verb))
}

// a random format: 1..4 items (literal text, %%, specifications, occasionally malformed pieces) with matching arguments
func randCase(c *vh.Ctx) (c09Case, string) {
	chars := c.Rng.Intn(4) == 0
	var f []byte
	var args []c09Arg
	shape := "wellformed"
	n := 1 + c.Rng.Intn(4)
	for i := 0; i < n; i++ {
		switch k := c.Rng.Intn(20); {
		case k < 3:
			f = append(f, pick(c, []string{"x", " ", "[", "]", "abc", "é", "\xff", "\n", "0", "d", ":"})...)
		case k < 5:
			f = append(f, "%%"...)
		case k < 18:
			it := randSpec(c, c.Rng.Intn(4) != 0)
			f = append(f, it.text()...)
			args = append(args, specArgs(c, it)...)
		default:
			shape = "malformed"
			m := pick(c, []string{"%5-d", "%.3.2f", "%1*d", "%z", "%", "%5", "%-", "%ld", "%hd", "%5%", "% %", "%.", "%*", "%a", "%A", "%#+ 0-5.3q", "%.-3d", "%**d", "%5 d", "%.*.*d", "%\xff", "%é", "%D", "%F", "%S", "%C", "%n", "%p", "%v", "%b", "%q", "%t", "%U"})
			f = append(f, m...)
			for j := 0; j < strings.Count(m, "*")+1; j++ {
				args = append(args, randValueArg(c, 'd'))
			}
		}
	}
	switch c.Rng.Intn(15) {
	case 0:
		if len(args) > 0 {
			args = args[:len(args)-1]
			shape = "too-few-args"
		}
	case 1:
		args = append(args, numArg(5))
		shape = "extra-arg"
	}
	return c09Case{Chars: chars, Fmt: vh.Hx(f), Args: args, Text: string(f)}, shape
}

// ---- the run -----------------------------------------------------------------------------------

func main() { vh.Main("C09", runC09) }

type specJob struct {
	s    c09SpecCase
	from string
}

func runC09(c *vh.Ctx) {
	c.Rule("a case is (format, arguments, byte/character mode). Enumerated: flag subsets x widths x precisions (literal and *) x the 13 verbs x " +
		"argument classes (integers across int64, fractions, non-finite, tiny/huge, numeric/non-numeric/empty/multi-byte strings, input fields); " +
		"random: 1-4 items per format (text, %%, specifications, malformed pieces), too few / extra arguments; character mode: %c / %s with '-', width and precision " +
		"(literal and *) over strings assembled from well-formed 1-4 byte sequences, stray continuation bytes, lone lead bytes, truncated sequences, overlong forms, " +
		"surrogates, bytes above 0xF4 and Latin-1 text at the start / middle / end, and code points around every encoding-length boundary; number-to-string: " +
		"2^k (k = 7 … 128) and 10^k with ±1, ±1 ulp, ±0.5 and x1.5 neighbours and negatives, each through several spellings (17-digit and exact decimal literal, 2^k ± d, " +
		"products/quotients of 2^32, field + 0, variable + 0, numeric-prefix string + 0) x OFMT/CONVFMT x default/csv/tsv output at 7 conversion sites. Non-trivial = the specification has " +
		"at least one flag, width or precision, or the argument needs a conversion (string to number, number to string, fraction truncated, non-finite)")

	var specs []specJob
	var whole []c09Case
	wholeShape := map[int]string{}

	addSpec := func(chars bool, it c09Item, args []c09Arg, from string) {
		specs = append(specs, specJob{c09SpecCase{chars, it, args}, from})
	}
	mk := func(s string) c09Item {
		its, ok := parseC([]byte(s))
		if !ok || len(its) != 1 || !its[0].IsSpec {
			panic("bad corpus spec " + s)
		}
		return its[0]
	}

	// -- corpus: witnesses of fixed and recorded findings, minimized past failures
	addSpec(false, mk("%g"), []c09Arg{numArg(1.0 / 3)}, "corpus")     // F14 (fixed)
	addSpec(false, mk("%G"), []c09Arg{numArg(1e-10 / 3)}, "corpus")   // F14 (fixed)
	addSpec(false, mk("%#x"), []c09Arg{numArg(0)}, "corpus")          // F15
	addSpec(false, mk("%#X"), []c09Arg{numArg(0)}, "corpus")          // F15
	addSpec(false, mk("%#.0o"), []c09Arg{numArg(0)}, "corpus")        // F15
	addSpec(false, mk("%+.0d"), []c09Arg{numArg(0)}, "corpus")        // F15
	addSpec(false, mk("% .0i"), []c09Arg{numArg(0)}, "corpus")        // F15
	addSpec(false, mk("%f"), []c09Arg{numArg(math.Inf(-1))}, "corpus") // F27
	addSpec(false, mk("%e"), []c09Arg{numArg(math.Inf(1))}, "corpus")  // F27
	addSpec(false, mk("%G"), []c09Arg{numArg(math.NaN())}, "corpus")   // F27
	addSpec(false, mk("%#08x"), []c09Arg{numArg(255)}, "corpus")       // G09-1
	addSpec(false, mk("%#06X"), []c09Arg{numArg(10)}, "corpus")        // G09-1
	addSpec(false, mk("%.*d"), []c09Arg{numArg(-1), numArg(5)}, "corpus")               // G09-2
	addSpec(false, mk("%.*g"), []c09Arg{numArg(-1), numArg(1.0 / 3)}, "corpus")         // G09-2
	addSpec(false, mk("%*d"), []c09Arg{numArg(2000000), numArg(1)}, "corpus")           // G09-3
	addSpec(false, mk("%-*d"), []c09Arg{numArg(-4), numArg(7)}, "corpus")
	addSpec(false, mk("%c"), []c09Arg{numArg(256)}, "corpus")
	addSpec(false, mk("%c"), []c09Arg{strArg("")}, "corpus")
	addSpec(true, mk("%c"), []c09Arg{numArg(233)}, "corpus")
	addSpec(false, mk("%5s"), []c09Arg{numArg(1e6)}, "corpus")
	addSpec(false, mk("%d"), []c09Arg{strArg("0x1f")}, "corpus")
	addSpec(false, mk("%x"), []c09Arg{numArg(-1)}, "corpus")

	// -- enumeration (C-defined combinations only): flag subsets x widths x precisions x verbs x argument classes
	widths := []string{"", "1", "6", "14"}
	precs := []string{"", ".", ".0", ".1", ".3", ".12"}
	if c.Thorough() {
		widths = []string{"", "1", "2", "6", "14", "40", "*"}
		precs = []string{"", ".", ".0", ".1", ".2", ".3", ".7", ".12", ".30", ".*"}
	}
	var flagSets []string
	for m := 0; m < 32; m++ {
		fl := ""
		for i, f := range "-+ #0" {
			if m&(1<<uint(i)) != 0 {
				fl += string(f)
			}
		}
		flagSets = append(flagSets, fl)
	}
	nPer := c.N(4, 12) // argument values per (specification, class)
	for _, fl := range flagSets {
		for _, w := range widths {
			for _, p := range precs {
				for i := 0; i < len(c09Verbs); i++ {
					it := c09Item{IsSpec: true, Flags: fl, Width: w, Prec: p, Verb: c09Verbs[i]}
					if !c09InCDomain(it) {
						continue
					}
					for k := 0; k < nPer; k++ {
						var args []c09Arg
						if w == "*" {
							args = append(args, numArg(float64(pick(c, []int{0, 1, 3, 9, 17, -9, -2}))))
						}
						if p == ".*" {
							args = append(args, numArg(float64(pick(c, []int{0, 1, 2, 5, 11, -1, -3}))))
						}
						var a c09Arg
						switch {
						case strings.IndexByte("dioxXu", it.Verb) >= 0:
							if k == 0 {
								a = numArg(0)
							} else {
								a = numArg(pick(c, c09IntVals))
							}
						case strings.IndexByte("eEfgG", it.Verb) >= 0:
							if k == 0 {
								a = numArg(pick(c, c09NonFinite))
							} else if k == 1 {
								a = numArg(pick(c, []float64{0, math.Copysign(0, -1)}))
							} else {
								a = numArg(pick(c, c09FloatVals))
							}
						case it.Verb == 's':
							a = randValueArg(c, 's')
						default:
							a = randValueArg(c, 'c')
						}
						addSpec(k == 3 && (it.Verb == 'c' || it.Verb == 's'), it, append(args, a), "enum")
					}
				}
			}
		}
	}

	// -- random specifications and whole formats
	for i := 0; i < c.N(6000, 120000); i++ {
		it := randSpec(c, true)
		addSpec(c.Rng.Intn(5) == 0, it, specArgs(c, it), "random-spec")
	}
	for i := 0; i < c.N(5000, 60000); i++ {
		cs, shape := randCase(c)
		wholeShape[len(whole)] = shape
		whole = append(whole, cs)
	}
	// specifications of well-formed whole formats are also checked one by one (so a mismatch is attributed to one specification)
	type split struct {
		first, n int
		items    []c09Item
	}
	splits := map[int]split{}
	for wi, cs := range whole {
		items, ok := parseC(vh.Unhx(cs.Fmt))
		if !ok {
			continue
		}
		need := 0
		good := true
		for _, it := range items {
			if it.IsSpec {
				if strings.IndexByte(c09Verbs, it.Verb) < 0 {
					good = false
				}
				need += it.stars() + 1
			}
		}
		if !good || need != len(cs.Args) {
			continue
		}
		sp := split{first: len(specs), items: items}
		pos := 0
		for _, it := range items {
			if it.IsSpec {
				k := it.stars() + 1
				addSpec(cs.Chars, it, cs.Args[pos:pos+k], "from-format")
				pos += k
				sp.n++
			}
		}
		splits[wi] = sp
	}

	// -- character mode: %c / %s over well-formed and ill-formed UTF-8, code points around the encoding-length boundaries
	for _, g := range c09CharModeSpecs(c) {
		addSpec(g.chars, g.it, g.args, "charmode")
	}

	if c.ReplayFile != "" {
		specs, whole, splits = nil, nil, map[int]split{}
		var rp struct {
			Failure struct {
				Case json.RawMessage `json:"case"`
			} `json:"failure"`
		}
		b, err := os.ReadFile(c.ReplayFile)
		if err != nil || json.Unmarshal(b, &rp) != nil {
			panic("cannot read replay file " + c.ReplayFile)
		}
		var cs c09Case
		if json.Unmarshal(rp.Failure.Case, &cs) != nil {
			panic("replay file has no C09 case")
		}
		// a print-path / CONVFMT-site / print case carries no format: those streams are re-run below with the replay's seed
		if cs.Fmt != "" {
			whole = append(whole, cs)
			if items, ok := parseC(vh.Unhx(cs.Fmt)); ok && len(items) == 1 && items[0].IsSpec {
				addSpec(cs.Chars, items[0], cs.Args, "replay")
			}
		}
	}

	// -- run the real code
	specOut := make([]vh.RunResult, len(specs))
	specOut2 := make([]vh.RunResult, len(specs))
	vh.Parallel(len(specs), func(i int) {
		specOut[i] = specs[i].s.asCase().run("printf")
		if i%3 == 0 {
			specOut2[i] = specs[i].s.asCase().run("sprintf")
		}
	})
	wholeOut := make([]vh.RunResult, len(whole))
	vh.Parallel(len(whole), func(i int) { wholeOut[i] = whole[i].run("printf") })

	// -- implementation-side oracle 1: each specification against libc
	var creqs []string
	var cidx []int
	for i, j := range specs {
		req, why := j.s.coracleReq()
		it := j.s.It
		nontrivial := it.Flags != "" || it.Width != "" || it.Prec != "" || j.s.Args[len(j.s.Args)-1].Kind != "num" ||
			(len(j.s.Args) > 0 && j.s.Args[len(j.s.Args)-1].Kind == "num" && j.s.Args[len(j.s.Args)-1].float() != math.Trunc(j.s.Args[len(j.s.Args)-1].float()))
		cs := j.s.asCase()
		c.Eval(fmt.Sprint(cs.Chars, cs.Fmt, cs.Args), nontrivial)
		c.Hit("verb:" + string(it.Verb))
		c.Hit("src:" + j.from)
		c.Hit(fmt.Sprintf("nflags:%d", len(it.Flags)))
		c.Hit("width:" + map[bool]string{true: "star", false: map[bool]string{true: "none", false: "literal"}[it.Width == ""]}[it.Width == "*"])
		c.Hit("prec:" + map[bool]string{true: "star", false: map[bool]string{true: "none", false: "literal"}[it.Prec == ""]}[it.Prec == ".*"])
		c.Hit("argkind:" + j.s.Args[len(j.s.Args)-1].Kind)
		o := specOut[i]
		if o.Panic != "" {
			c.Fail(vh.Failure{Kind: "oracle", What: "printf panicked: " + o.Panic, Case: cs})
			continue
		}
		if i%3 == 0 && (specOut2[i].Out != o.Out || specOut2[i].Err != o.Err) {
			c.Fail(vh.Failure{Kind: "oracle", What: "sprintf() and printf disagree", Case: cs, Got: specOut2[i].String(), Want: o.String()})
		}
		if strings.Contains(o.Out, "%!") && c09InCDomain(it) {
			c.OracleCase()
			c.Fail(vh.Failure{Kind: "oracle", What: "output contains an fmt error text (silent garbage)", Finding: c09Classify(j.s, o.Out), Case: cs, Got: strconv.Quote(o.Out)})
			continue
		}
		if req == "" {
			c.Hit("libc-skip:" + why)
			continue
		}
		creqs = append(creqs, req)
		cidx = append(cidx, i)
	}
	cans := runCoracle(creqs)
	libc := map[int]string{}
	for k, a := range cans {
		i := cidx[k]
		j := specs[i]
		cs := j.s.asCase()
		if a == "ERR" {
			c.Hit("libc-skip:buffer")
			continue
		}
		c.OracleCase()
		want := string(vh.Unhx(a))
		libc[i] = want
		o := specOut[i]
		if o.Err != "" {
			c.Fail(vh.Failure{Kind: "oracle", What: "a valid conversion gives an error: " + o.Err, Case: cs, Want: strconv.Quote(want)})
			continue
		}
		if o.Out != want {
			fnd := c09Classify(j.s, o.Out)
			c.Fail(vh.Failure{Kind: "oracle", What: "printf output differs from C printf (libc) for " + j.s.It.text(), Finding: fnd, Case: cs,
				Got: strconv.Quote(o.Out), Want: strconv.Quote(want)})
			c.Hit("mismatch:" + map[bool]string{true: fnd, false: "NEW"}[fnd != ""])
		}
		if k%4001 == 0 {
			c.Sample(map[string]interface{}{"case": cs, "awk": o.Out, "libc": want})
		}
	}

	// -- oracle 1b: character mode, %c / %s against the independent statement of "character"
	c09CharModeOracle(c, specs, specOut, libc)

	// -- oracle 2: a whole format is the concatenation of its items; errors for unknown verbs / missing arguments
	for wi, cs := range whole {
		o := wholeOut[wi]
		c.Eval(fmt.Sprint(cs.Chars, cs.Fmt, cs.Args), true)
		c.Hit("format:" + wholeShape[wi])
		if o.Panic != "" {
			c.Fail(vh.Failure{Kind: "oracle", What: "printf panicked: " + o.Panic, Case: cs})
			continue
		}
		sp, ok := splits[wi]
		if !ok {
			continue
		}
		c.OracleCase()
		var cat strings.Builder
		bad := false
		k := 0
		for _, it := range sp.items {
			switch {
			case it.Pct:
				cat.WriteByte('%')
			case !it.IsSpec:
				cat.Write(it.Lit)
			default:
				so := specOut[sp.first+k]
				k++
				if so.Err != "" || so.Panic != "" {
					bad = true
				}
				cat.WriteString(so.Out)
			}
		}
		if bad {
			continue
		}
		if o.Err != "" || o.Out != cat.String() {
			c.Fail(vh.Failure{Kind: "oracle", What: "a format does not produce the concatenation of its items", Case: cs, Got: o.String(), Want: strconv.Quote(cat.String())})
		}
	}
	c09ErrorOracle(c)
	c09PrintOracle(c)
	c09PrintPaths(c)
	c09Boundary(c)
	c09Repeat(c)

	// -- correspondence with the Lean model
	if c.HasLean() {
		var reqs []string
		type ref struct {
			cs  c09Case
			out vh.RunResult
		}
		var refs []ref
		for i, j := range specs {
			if r, ok := j.s.asCase().leanReq(); ok {
				reqs = append(reqs, r)
				refs = append(refs, ref{j.s.asCase(), specOut[i]})
			}
		}
		for wi, cs := range whole {
			if r, ok := cs.leanReq(); ok {
				reqs = append(reqs, r)
				refs = append(refs, ref{cs, wholeOut[wi]})
			}
		}
		ans := c.LeanBatch(reqs)
		for k, a := range ans {
			r := refs[k]
			if r.out.Panic != "" {
				continue
			}
			if strings.HasPrefix(a, "unmodelled") {
				c.Hit("lean:" + a)
				if r.out.Err != "" {
					c.Fail(vh.Failure{Kind: "correspondence", What: "model says fmt emits an error text, the real code returns an error", Case: r.cs, Got: r.out.Err, Want: a})
				}
				continue
			}
			c.Trace()
			got := "ok " + vh.HxS(r.out.Out)
			if r.out.Err != "" {
				got = errClass(r.out.Err)
				c.Hit("lean:" + strings.Join(strings.Fields(got)[:2], " "))
			}
			if got != a {
				c.Fail(vh.Failure{Kind: "correspondence", What: "Lean awkSprintf and the real sprintf differ", Case: r.cs, Got: got + " " + strconv.Quote(r.out.Out), Want: a})
			}
		}
		// the Lean C specification against libc, on the oracle's cases
		var creq2 []string
		var cref []int
		for i, j := range specs {
			want, ok := libc[i]
			_ = want
			if !ok {
				continue
			}
			r := j.s.resolve()
			v := r.Val
			ws, ps := "-", "-"
			if r.W != nil {
				ws = strconv.FormatInt(*r.W, 10)
			}
			if r.P != nil {
				ps = strconv.FormatInt(*r.P, 10)
			}
			creq2 = append(creq2, fmt.Sprintf("cfmt %d %s %s %s %d %d:%s:%016x", map[bool]int{false: 0, true: 1}[j.s.Chars], vh.HxS(j.s.It.Flags), ws, ps, j.s.It.Verb,
				map[bool]int{false: 0, true: 1}[v.IsStr], vh.Hx(v.S), math.Float64bits(v.N)))
			cref = append(cref, i)
		}
		ans2 := c.LeanBatch(creq2)
		for k, a := range ans2 {
			i := cref[k]
			c.Hit("cspec-vs-libc")
			if a != "ok "+vh.HxS(libc[i]) {
				c.Fail(vh.Failure{Kind: "correspondence", What: "Lean C specification (cFormat) and libc differ", Case: specs[i].s.asCase(), Got: a, Want: "ok " + vh.HxS(libc[i]) + " " + strconv.Quote(libc[i])})
			}
		}
	}
}

// unknown conversions and missing arguments are run-time errors (never a panic, never output)
func c09ErrorOracle(c *vh.Ctx) {
	for b := 0; b < 256; b++ {
		if strings.IndexByte(c09Verbs+"aA%", byte(b)) >= 0 || b == '\n' {
			continue
		}
		for _, pre := range []string{"%", "%5", "%-.3", "x%+"} {
			f := append([]byte(pre), byte(b))
			f = append(f, "z"...)
			cs := c09Case{Fmt: vh.Hx(f), Args: []c09Arg{numArg(1), numArg(2)}, Text: string(f)}
			o := cs.run("printf")
			c.OracleCase()
			c.Eval("unk"+cs.Fmt, true)
			c.Hit("error-oracle:unknown-verb")
			if o.Panic != "" || o.Err == "" || o.Out != "" {
				c.Fail(vh.Failure{Kind: "oracle", What: "unknown conversion is not a run-time error", Case: cs, Got: o.String()})
			}
		}
	}
	for i := 0; i < len(c09Verbs); i++ {
		for _, shape := range []struct {
			f    string
			need int
		}{{"%V", 1}, {"%*V", 2}, {"%*.*V", 3}, {"%V %V", 2}, {"%d %.*V", 3}, {"%%%V", 1}} {
			f := strings.ReplaceAll(shape.f, "V", string(c09Verbs[i]))
			for have := 0; have < shape.need; have++ {
				var args []c09Arg
				for k := 0; k < have; k++ {
					args = append(args, numArg(float64(k+1)))
				}
				cs := c09Case{Fmt: vh.HxS(f), Args: args, Text: f}
				for _, how := range []string{"printf", "sprintf"} {
					o := cs.run(how)
					c.OracleCase()
					c.Eval("few"+how+cs.Fmt+fmt.Sprint(have), true)
					c.Hit("error-oracle:too-few-args")
					if o.Panic != "" || o.Err == "" || o.Out != "" {
						c.Fail(vh.Failure{Kind: "oracle", What: "too few arguments is not a run-time error", Case: cs, Got: o.String()})
					}
				}
			}
		}
	}
}

// print writes integral numbers as integers and the others with OFMT (C printf of OFMT)
func c09PrintOracle(c *vh.Ctx) {
	ofmts := []string{"%.6g", "%.2f", "%.10g", "%e", "%g", "%.3e", "%8.1f", "%.17g", "%G", "%.0f"}
	type pj struct {
		ofmt string
		f    float64
		out  vh.RunResult
	}
	var jobs []pj
	vals := append(append([]float64{}, c09FloatVals...), c09IntVals...)
	vals = append(vals, c09NonFinite...)
	vals = append(vals, 9223372036854775808.0, -9223372036854775808.0, 1e30, -1e30, 1e18, 123456789012345678)
	for i := 0; i < c.N(300, 6000); i++ {
		vals = append(vals, randFloatArg(c))
	}
	for _, f := range vals {
		for _, o := range ofmts {
			if o != "%.6g" && c.Rng.Intn(3) != 0 {
				continue
			}
			jobs = append(jobs, pj{ofmt: o, f: f})
		}
	}
	vh.Parallel(len(jobs), func(i int) {
		src := fmt.Sprintf("BEGIN { CONVFMT = \"%%.2g\"; OFMT = %s; ORS = \"\"; print %s }", awkStrLit([]byte(jobs[i].ofmt)), awkNumExpr(jobs[i].f))
		jobs[i].out = vh.ExecProg(vh.MustParse(src), &interp.Config{})
	})
	var creqs []string
	var cidx []int
	alt := map[int]string{} // a second accepted text (integral values beyond int64)
	for i, j := range jobs {
		cs := map[string]interface{}{"print": true, "ofmt": j.ofmt, "bits": fmt.Sprintf("%016x", math.Float64bits(j.f)), "value": awkNumExpr(j.f)}
		c.Eval(fmt.Sprint("print", j.ofmt, math.Float64bits(j.f)), j.f != math.Trunc(j.f) || j.ofmt != "%.6g")
		c.Hit("print-oracle")
		if j.out.Panic != "" || j.out.Err != "" {
			c.Fail(vh.Failure{Kind: "oracle", What: "print failed: " + j.out.String(), Case: cs})
			continue
		}
		if n, ok := truncInt64(j.f); ok && float64(n) == j.f {
			c.OracleCase()
			want := new(big.Int).SetInt64(n).String()
			if j.out.Out != want {
				c.Fail(vh.Failure{Kind: "oracle", What: "print of an integral number is not the integer", Case: cs, Got: j.out.Out, Want: want})
			}
			continue
		}
		if math.IsNaN(j.f) && math.Signbit(j.f) {
			continue // libc prints -nan; the property does not say
		}
		if (math.IsNaN(j.f) || math.IsInf(j.f, 0)) && j.ofmt != "%.6g" && j.ofmt != "%g" {
			c.Hit("print-skip:non-finite with a non-default OFMT (value.str spells nan/inf/-inf itself; the property does not fix the form)")
			continue
		}
		if !math.IsNaN(j.f) && !math.IsInf(j.f, 0) && math.Abs(j.f) >= 9223372036854775808.0 && j.f == math.Trunc(j.f) {
			// the property does not fix the form: the exact integer or C printf of OFMT, nothing else (see boundary.go)
			c.Hit("print-oracle:integral beyond int64 (integer or OFMT)")
			alt[i], _ = exactDecimal(j.f)
		}
		creqs = append(creqs, fmt.Sprintf("%s f 0 0 0 %016x", vh.HxS(j.ofmt), math.Float64bits(j.f)))
		cidx = append(cidx, i)
	}
	ans := runCoracle(creqs)
	var lreq []string
	var lref []int
	for k, a := range ans {
		j := jobs[cidx[k]]
		cs := map[string]interface{}{"print": true, "ofmt": j.ofmt, "bits": fmt.Sprintf("%016x", math.Float64bits(j.f)), "value": awkNumExpr(j.f)}
		if a == "ERR" {
			c.Hit("print-skip:libc buffer")
			continue
		}
		c.OracleCase()
		want := string(vh.Unhx(a))
		if x, ok := alt[cidx[k]]; ok {
			if j.out.Out != x && j.out.Out != want {
				c.Fail(vh.Failure{Kind: "oracle", What: "print of an integral number beyond int64 is neither the integer nor C printf of OFMT", Case: cs, Got: strconv.Quote(j.out.Out), Want: strconv.Quote(x) + " or " + strconv.Quote(want)})
			}
			continue
		}
		if j.out.Out != want {
			c.Fail(vh.Failure{Kind: "oracle", What: "print of a non-integral number is not C printf of OFMT", Case: cs, Got: strconv.Quote(j.out.Out), Want: strconv.Quote(want)})
		}
	}
	if c.HasLean() {
		for i, j := range jobs {
			if j.out.Panic != "" || j.out.Err != "" {
				continue
			}
			lreq = append(lreq, fmt.Sprintf("numtostr %s %016x", vh.HxS(j.ofmt), math.Float64bits(j.f)))
			lref = append(lref, i)
		}
		for k, a := range c.LeanBatch(lreq) {
			j := jobs[lref[k]]
			c.Trace()
			if a != "ok "+vh.HxS(j.out.Out) {
				c.Fail(vh.Failure{Kind: "correspondence", What: "Lean numToStr and print differ",
					Case: map[string]interface{}{"print": true, "ofmt": j.ofmt, "bits": fmt.Sprintf("%016x", math.Float64bits(j.f))}, Got: "ok " + vh.HxS(j.out.Out) + " " + strconv.Quote(j.out.Out), Want: a})
			}
		}
	}
}
