package main

// Call-shape generator for the by-reference / by-value clause of C16, with a reference evaluator in Go.
//
// Programs: 3-6 functions forming a DAG (function i only calls functions j > i), each with 1-4 parameters mixing array and scalar
// kinds in every order, optionally a local array `loc` (never passed by the caller, so fresh per call) and a scalar temporary `r`.
// Bodies add to elements of arrays in scope (`a["t3"] += e`), bump their own scalar parameters (`s = s + 100`, must stay invisible
// to the caller), call further functions and return a value. Blocks contain several calls; arguments are arrays (globals, array
// parameters forwarded, the local array) and scalar expressions that may themselves be user calls with array arguments, nested up to
// three deep; trailing arguments may be omitted. After every top-level statement every global array is dumped (length and each
// known tag, via `in` so that dumping creates nothing) together with the global scalars.
//
// The expected output comes from csEval, an independent evaluator of this little language in which an array argument binds the
// callee's parameter to the caller's array object, a scalar argument is copied, and missing array parameters / `loc` are fresh.
// All array effects are additive and amounts depend on scalars only, reads of elements and length() are confined to the activation's own local array in
// call-free positions, so the expectation does not depend on the order in which goawk evaluates the arguments of one call.

import (
	"fmt"
	"math/rand"
	"sort"
	"strings"

	"verifharness/vh"
)

type csParam struct {
	name  string
	isArr bool
}

type csFunc struct {
	idx    int
	name   string
	params []csParam
	hasLoc bool
	body   []*csStmt
}

type csExpr struct {
	kind string // const svar add elem len call
	n    int
	v    string // scalar variable / array name
	tag  string
	a, b *csExpr
	call *csCall
}

type csArg struct {
	arr string
	e   *csExpr
}

type csCall struct {
	f    *csFunc
	args []csArg
}

type csStmt struct {
	kind string // inc sinc call ret
	arr  string
	tag  string
	v    string // sinc variable / call target ("" = bare call)
	e    *csExpr
	call *csCall
}

type csProg struct {
	funcs  []*csFunc
	begin  []*csStmt
	garrs  []string
	gscal  []string
	tags   []string
	stats  map[string]int
	maxNst int
}

type csScope struct {
	arrs  []string
	scals []string
	fidx  int // functions callable: index > fidx
}

type csGen struct {
	r  *rand.Rand
	pg *csProg
}

func (g *csGen) tag() string { return g.pg.tags[g.r.Intn(len(g.pg.tags))] }

// plain: call-free scalar expression
func (g *csGen) plain(sc csScope, depth int) *csExpr {
	switch k := g.r.Intn(8); {
	case k < 3 || depth > 1:
		return &csExpr{kind: "const", n: 1 + g.r.Intn(9)}
	case k < 6 && len(sc.scals) > 0:
		return &csExpr{kind: "svar", v: sc.scals[g.r.Intn(len(sc.scals))]}
	default:
		return &csExpr{kind: "add", a: g.plain(sc, depth+1), b: g.plain(sc, depth+1)}
	}
}

// readExpr: call-free, may read elements and the length of the local array
func (g *csGen) readExpr(sc csScope, hasLoc bool) *csExpr {
	e := g.plain(sc, 0)
	if hasLoc && g.r.Intn(2) == 0 {
		// element reads only from the activation's own local array (shared arrays are only ever added to, so that nothing
		// depends on the order in which the arguments of one call are evaluated)
		e = &csExpr{kind: "add", a: e, b: &csExpr{kind: "elem", v: "loc", tag: g.tag()}}
	}
	if hasLoc && g.r.Intn(2) == 0 {
		e = &csExpr{kind: "add", a: e, b: &csExpr{kind: "len", v: "loc"}}
	}
	return e
}

func (g *csGen) call(sc csScope, nest int) *csCall {
	callee := g.pg.funcs[sc.fidx+1+g.r.Intn(len(g.pg.funcs)-sc.fidx-1)]
	c := &csCall{f: callee}
	n := len(callee.params)
	if g.r.Intn(7) == 0 {
		n = g.r.Intn(n + 1)
		g.pg.stats["call:fewer-args"]++
	}
	for i := 0; i < n; i++ {
		p := callee.params[i]
		if p.isArr {
			c.args = append(c.args, csArg{arr: sc.arrs[g.r.Intn(len(sc.arrs))]})
			continue
		}
		if nest < 3 && g.r.Intn(5) < 2 {
			inner := g.call(sc, nest+1)
			if nest+1 > g.pg.maxNst {
				g.pg.maxNst = nest + 1
			}
			var e *csExpr = &csExpr{kind: "call", call: inner}
			if g.r.Intn(3) == 0 {
				e = &csExpr{kind: "add", a: e, b: g.plain(sc, 1)}
			}
			c.args = append(c.args, csArg{e: e})
			continue
		}
		c.args = append(c.args, csArg{e: g.plain(sc, 0)})
	}
	// shape statistics
	sig := ""
	for _, a := range c.args {
		switch {
		case a.arr != "":
			sig += "A"
		case csHasCall(a.e):
			sig += "C"
		default:
			sig += "s"
		}
	}
	if strings.Contains(sig, "AC") || (strings.Contains(sig, "A") && strings.Contains(sig, "C") && strings.Index(sig, "A") < strings.LastIndex(sig, "C")) {
		g.pg.stats["call:array-then-nested-call"]++
	}
	g.pg.stats[fmt.Sprintf("call:args:%d", len(c.args))]++
	return c
}

func csHasCall(e *csExpr) bool {
	if e == nil {
		return false
	}
	return e.kind == "call" || csHasCall(e.a) || csHasCall(e.b)
}

func genCallShape(r *rand.Rand) *csProg {
	pg := &csProg{garrs: []string{"G1", "G2", "G3", "G4"}[:2+r.Intn(3)], gscal: []string{"S1", "S2", "S3"},
		tags: []string{"t0", "t1", "t2", "t3", "t4"}, stats: map[string]int{}}
	g := &csGen{r: r, pg: pg}
	nf := 3 + r.Intn(4)
	for i := 0; i < nf; i++ {
		f := &csFunc{idx: i, name: fmt.Sprintf("F%d", i), hasLoc: r.Intn(2) == 0}
		np := 1 + r.Intn(4)
		hasArr := false
		for j := 0; j < np; j++ {
			isArr := r.Intn(2) == 0
			hasArr = hasArr || isArr
			nm := fmt.Sprintf("s%d", j)
			if isArr {
				nm = fmt.Sprintf("a%d", j)
			}
			f.params = append(f.params, csParam{nm, isArr})
		}
		if !hasArr && r.Intn(3) > 0 {
			j := r.Intn(np)
			f.params[j] = csParam{fmt.Sprintf("a%d", j), true}
		}
		pg.funcs = append(pg.funcs, f)
	}
	for _, f := range pg.funcs {
		sc := csScope{fidx: f.idx}
		for _, p := range f.params {
			if p.isArr {
				sc.arrs = append(sc.arrs, p.name, p.name) // parameters twice as likely as globals
			} else {
				sc.scals = append(sc.scals, p.name)
			}
		}
		if f.hasLoc {
			sc.arrs = append(sc.arrs, "loc", "loc")
		}
		sc.arrs = append(sc.arrs, pg.garrs...)
		canCall := f.idx < nf-1
		for k := 1 + r.Intn(4); k > 0; k-- {
			switch c := r.Intn(6); {
			case c < 2:
				f.body = append(f.body, &csStmt{kind: "inc", arr: sc.arrs[r.Intn(len(sc.arrs))], tag: g.tag(), e: g.readExpr(sc, f.hasLoc)})
			case c == 2 && len(sc.scals) > 0:
				f.body = append(f.body, &csStmt{kind: "sinc", v: sc.scals[r.Intn(len(sc.scals))]})
			case canCall:
				tgt := ""
				if r.Intn(2) == 0 {
					tgt = "r"
				}
				f.body = append(f.body, &csStmt{kind: "call", v: tgt, call: g.call(sc, 0)})
			default:
				f.body = append(f.body, &csStmt{kind: "inc", arr: sc.arrs[r.Intn(len(sc.arrs))], tag: g.tag(), e: g.plain(sc, 0)})
			}
		}
		scr := sc
		scr.scals = append(append([]string(nil), sc.scals...), "r")
		if canCall && r.Intn(4) == 0 {
			f.body = append(f.body, &csStmt{kind: "ret", e: &csExpr{kind: "add", a: &csExpr{kind: "const", n: 10 * (f.idx + 1)}, b: &csExpr{kind: "call", call: g.call(sc, 0)}}})
		} else {
			f.body = append(f.body, &csStmt{kind: "ret", e: &csExpr{kind: "add", a: &csExpr{kind: "const", n: 10 * (f.idx + 1)}, b: g.readExpr(scr, f.hasLoc)}})
		}
	}
	top := csScope{fidx: -1, arrs: pg.garrs, scals: pg.gscal}
	for k := 2 + r.Intn(4); k > 0; k-- {
		tgt := ""
		if r.Intn(2) == 0 {
			tgt = "R"
		}
		pg.begin = append(pg.begin, &csStmt{kind: "call", v: tgt, call: g.call(top, 0)})
	}
	return pg
}

// ---- rendering as AWK ----------------------------------------------------------------------------------------------------------

func (e *csExpr) awk() string {
	switch e.kind {
	case "const":
		return fmt.Sprint(e.n)
	case "svar":
		return e.v
	case "add":
		return "(" + e.a.awk() + " + " + e.b.awk() + ")"
	case "elem":
		return e.v + "[\"" + e.tag + "\"]"
	case "len":
		return "length(" + e.v + ")"
	default:
		return e.call.awk()
	}
}

func (c *csCall) awk() string {
	var as []string
	for _, a := range c.args {
		if a.arr != "" {
			as = append(as, a.arr)
		} else {
			as = append(as, a.e.awk())
		}
	}
	return c.f.name + "(" + strings.Join(as, ", ") + ")"
}

func (s *csStmt) awk() string {
	switch s.kind {
	case "inc":
		return fmt.Sprintf("%s[\"%s\"] += %s", s.arr, s.tag, s.e.awk())
	case "sinc":
		return fmt.Sprintf("%s = %s + 100", s.v, s.v)
	case "call":
		if s.v != "" {
			return s.v + " = " + s.call.awk()
		}
		return s.call.awk()
	default:
		return "return " + s.e.awk()
	}
}

func (pg *csProg) src() string {
	var sb strings.Builder
	sb.WriteString("BEGIN {\n  S1 = 3; S2 = 5; S3 = 7\n")
	for _, s := range pg.begin {
		sb.WriteString("  " + s.awk() + "\n  dump()\n")
	}
	sb.WriteString("}\n")
	for _, f := range pg.funcs {
		var ps []string
		for _, p := range f.params {
			ps = append(ps, p.name)
		}
		if f.hasLoc {
			ps = append(ps, "  loc")
		}
		ps = append(ps, "  r")
		fmt.Fprintf(&sb, "function %s(%s) {\n", f.name, strings.Join(ps, ", "))
		for _, s := range f.body {
			sb.WriteString("  " + s.awk() + "\n")
		}
		sb.WriteString("}\n")
	}
	sb.WriteString("function dump() {\n")
	for _, a := range pg.garrs {
		fmt.Fprintf(&sb, "  printf \"%s:%%d\", length(%s)\n", a, a)
		for _, t := range pg.tags {
			fmt.Fprintf(&sb, "  if (\"%s\" in %s) printf \" %s=%%s\", %s[\"%s\"]\n", t, a, t, a, t)
		}
		sb.WriteString("  printf \"\\n\"\n")
	}
	sb.WriteString("  print \"S\", S1, S2, S3, R\n}\n")
	return sb.String()
}

// ---- reference evaluator ---------------------------------------------------------------------------------------------------------

type csArr map[string]*int // nil value: element exists but was never assigned

type csEnv struct {
	arrs  map[string]csArr
	scals map[string]*int // nil: never assigned (prints as the empty string)
}

type csEval struct {
	pg   *csProg
	glob *csEnv
	out  strings.Builder
}

func (ev *csEval) arr(env *csEnv, name string) csArr {
	if a, ok := env.arrs[name]; ok {
		return a
	}
	return ev.glob.arrs[name]
}

func csNum(p *int) int {
	if p == nil {
		return 0
	}
	return *p
}

func (ev *csEval) getScal(env *csEnv, name string) int {
	if p, ok := env.scals[name]; ok {
		return csNum(p)
	}
	return csNum(ev.glob.scals[name])
}

func (ev *csEval) setScal(env *csEnv, name string, v int) {
	if _, ok := env.scals[name]; ok {
		env.scals[name] = &v
		return
	}
	ev.glob.scals[name] = &v
}

func (ev *csEval) eval(e *csExpr, env *csEnv) int {
	switch e.kind {
	case "const":
		return e.n
	case "svar":
		return ev.getScal(env, e.v)
	case "add":
		x := ev.eval(e.a, env)
		return x + ev.eval(e.b, env)
	case "elem":
		a := ev.arr(env, e.v)
		p, ok := a[e.tag]
		if !ok {
			a[e.tag] = nil // referencing an element creates it
		}
		return csNum(p)
	case "len":
		return len(ev.arr(env, e.v))
	default:
		return ev.call(e.call, env)
	}
}

func (ev *csEval) call(c *csCall, env *csEnv) int {
	ne := &csEnv{arrs: map[string]csArr{}, scals: map[string]*int{}}
	for i, p := range c.f.params {
		switch {
		case i < len(c.args) && p.isArr:
			ne.arrs[p.name] = ev.arr(env, c.args[i].arr) // by reference
		case i < len(c.args):
			v := ev.eval(c.args[i].e, env) // by value
			ne.scals[p.name] = &v
		case p.isArr:
			ne.arrs[p.name] = csArr{}
		default:
			ne.scals[p.name] = nil
		}
	}
	if c.f.hasLoc {
		ne.arrs["loc"] = csArr{}
	}
	ne.scals["r"] = nil
	for _, s := range c.f.body {
		if s.kind == "ret" {
			return ev.eval(s.e, ne)
		}
		ev.exec(s, ne)
	}
	return 0
}

func (ev *csEval) exec(s *csStmt, env *csEnv) {
	switch s.kind {
	case "inc":
		amt := ev.eval(s.e, env)
		a := ev.arr(env, s.arr)
		v := csNum(a[s.tag]) + amt
		a[s.tag] = &v
	case "sinc":
		ev.setScal(env, s.v, ev.getScal(env, s.v)+100)
	case "call":
		v := ev.call(s.call, env)
		if s.v != "" {
			ev.setScal(env, s.v, v)
		}
	}
}

func csShow(p *int) string {
	if p == nil {
		return ""
	}
	return fmt.Sprint(*p)
}

func (ev *csEval) dump() {
	for _, a := range ev.pg.garrs {
		arr := ev.glob.arrs[a]
		fmt.Fprintf(&ev.out, "%s:%d", a, len(arr))
		tags := append([]string(nil), ev.pg.tags...)
		sort.Strings(tags)
		for _, t := range tags {
			if p, ok := arr[t]; ok {
				fmt.Fprintf(&ev.out, " %s=%s", t, csShow(p))
			}
		}
		ev.out.WriteString("\n")
	}
	g := ev.glob.scals
	fmt.Fprintf(&ev.out, "S %s %s %s %s\n", csShow(g["S1"]), csShow(g["S2"]), csShow(g["S3"]), csShow(g["R"]))
}

func (pg *csProg) expected() string {
	ev := &csEval{pg: pg, glob: &csEnv{arrs: map[string]csArr{}, scals: map[string]*int{"R": nil}}}
	for _, a := range pg.garrs {
		ev.glob.arrs[a] = csArr{}
	}
	for i, n := range []int{3, 5, 7} {
		v := n
		ev.glob.scals[pg.gscal[i]] = &v
	}
	for _, s := range pg.begin {
		ev.exec(s, ev.glob)
		ev.dump()
	}
	return ev.out.String()
}

// ---- the oracle ------------------------------------------------------------------------------------------------------------------

func callShapeOracle(c *vh.Ctx) {
	n := c.N(400, 6000)
	progs := make([]*csProg, n)
	for i := range progs {
		progs[i] = genCallShape(c.Rng)
	}
	type outT struct {
		src, want string
		pr        parseResult
		res       vh.RunResult
		pr2       parseResult
		res2      vh.RunResult
	}
	outs := make([]outT, n)
	vh.Parallel(n, func(i int) {
		o := &outs[i]
		o.src = progs[i].src()
		o.want = progs[i].expected()
		o.pr = parseSrc(o.src, nil)
		if o.pr.ok {
			o.res = runProg(o.pr.prog, nil)
		}
		// the same with Go functions named like the program's AWK functions in ParserConfig.Funcs / Config.Funcs (overridden)
		var names []string
		for _, f := range progs[i].funcs {
			names = append(names, f.name)
		}
		over := shadowFuncs(nil, names, i)
		o.pr2 = parseSrc(o.src, over)
		if o.pr2.ok {
			o.res2 = runProg(o.pr2.prog, over)
		}
	})
	for i, pg := range progs {
		o := &outs[i]
		c.OracleCase()
		c.Eval(o.src, true)
		c.Hit("callshape:programs")
		for k, v := range pg.stats {
			c.HitN("callshape:"+k, v)
		}
		c.Hit(fmt.Sprintf("callshape:max-nesting:%d", pg.maxNst))
		cs := c16Case{Shape: "callshape", Src: o.src}
		switch {
		case o.pr.panic_ != "" || !o.pr.ok:
			c.Fail(vh.Failure{Kind: "oracle", What: "call-shape program (consistently typed by construction) rejected or panicked", Case: cs, Got: o.pr.msg + o.pr.panic_, Want: "accepted"})
		case o.res.Panic != "" || o.res.Err != "":
			c.Fail(vh.Failure{Kind: "oracle", What: "accepted call-shape program failed at run time", Case: cs, Got: o.res.String()})
		case o.res.Out != o.want:
			c.Fail(vh.Failure{Kind: "oracle", What: "arrays by reference / scalars by value: arrays and scalars after the calls differ from the reference evaluation",
				Case: cs, Got: o.res.Out, Want: o.want})
		}
		c.OracleCase()
		switch {
		case o.pr2.panic_ != "" || !o.pr2.ok:
			c.Fail(vh.Failure{Kind: "oracle", What: "call-shape program rejected or panicked when Funcs has entries named like its AWK functions", Case: cs, Got: o.pr2.msg + o.pr2.panic_, Want: "accepted"})
		case o.pr2.types != o.pr.types:
			c.Fail(vh.Failure{Kind: "oracle", What: "type table changes when Funcs has entries named like AWK functions", Case: cs, Got: o.pr2.types, Want: o.pr.types})
		case o.res2.String() != o.res.String():
			c.Fail(vh.Failure{Kind: "oracle", What: "behaviour changes when Funcs has entries named like AWK functions", Case: cs, Got: o.res2.String(), Want: o.res.String()})
		}
		if i%997 == 0 {
			c.Sample(map[string]interface{}{"shape": "callshape", "src": o.src, "out": o.res.Out})
		}
	}
}
