package main

// C16 — scalar/array typing is sound, exact and independent of declaration order.
//
// Implementation-side oracle (no Lean in the loop):
//   * verdict of parser.ParseProgram == verdict of an independent union-find inference over the same program (exactness), and the
//     type table printed through ParserConfig.DebugTypes == the inferred classes with unknown => scalar;
//   * every permutation of the top-level items (<= 6 items exhaustively, sampled beyond; BEGIN/END blocks keep their relative order)
//     and consistent renamings: verdict, and for accepted programs the output of running them, must not change;
//   * accepted programs run without a Go panic or a run-time error (programs are generated so that nothing else can fail);
//   * arrays are shared by reference, scalars copied, locals are fresh per call: directed families with computed expectations.
// Correspondence: verdict, type table with indexes, and on rejection the error (message and line) against the Lean model
// `GoawkModel.C16.resolve` run with the model of the call-graph order.

import (
	"bytes"
	"fmt"
	"strings"

	"github.com/benhoyt/goawk/interp"
	"github.com/benhoyt/goawk/parser"

	"verifharness/vh"
)

func main() { vh.Main("C16", runC16) }

var nativeFuncs = map[string]interface{}{
	"nat1": func(a, b float64) float64 { return a + 2*b },
	"nat2": func(a, b float64) float64 { return a*3 + b },
}


func (pg *prog) funcsMap() map[string]interface{} {
	if len(pg.Natives) == 0 {
		return nil
	}
	m := map[string]interface{}{}
	for _, n := range pg.Natives {
		m[n] = nativeFuncs[n]
	}
	return m
}

func parseSrc(src string, funcs map[string]interface{}) (res parseResult) {
	defer func() {
		if r := recover(); r != nil {
			res = parseResult{panic_: fmt.Sprint(r)}
		}
	}()
	var dbg bytes.Buffer
	p, err := parser.ParseProgram([]byte(src), &parser.ParserConfig{DebugTypes: true, DebugWriter: &dbg, Funcs: funcs})
	if err != nil {
		if pe, ok := err.(*parser.ParseError); ok {
			return parseResult{msg: pe.Message, line: pe.Position.Line, col: pe.Position.Column}
		}
		return parseResult{msg: "non-parse-error: " + err.Error()}
	}
	return parseResult{ok: true, types: dbg.String(), prog: p}
}

func runProg(p *parser.Program, funcs map[string]interface{}) vh.RunResult {
	return vh.ExecProg(p, &interp.Config{Stdin: strings.NewReader(""), Funcs: funcs, Args: []string{}})
}

func fnNames(pg *prog) []string {
	var ns []string
	for _, f := range pg.Fns {
		ns = append(ns, f.Name)
	}
	return ns
}

// shadowFuncs: base natives plus Go functions (of various signatures) named like some or all of the given AWK functions, plus one
// entry that nothing calls.
func shadowFuncs(base map[string]interface{}, awkNames []string, salt int) map[string]interface{} {
	m := map[string]interface{}{"unusedNative": func(a float64) float64 { return a }}
	for k, v := range base {
		m[k] = v
	}
	for j, n := range awkNames {
		switch (j + salt) % 4 {
		case 0:
			m[n] = func(a float64) float64 { return -a }
		case 1:
			m[n] = func(a, b string) string { return b + a }
		case 2:
			m[n] = func(args ...float64) float64 { return float64(len(args)) }
		default:
			if salt%2 == 0 { // sometimes only a subset collides
				m[n] = func() int { return 7 }
			}
		}
	}
	return m
}

type c16Case struct {
	Shape string `json:"shape"`
	Src   string `json:"src"`
	Other string `json:"variant_src,omitempty"`
	Note  string `json:"note,omitempty"`
}

func permutations(items []int, limit int, c *vh.Ctx) [][]int {
	n := len(items)
	if n <= 6 {
		var res [][]int
		var rec func(k int)
		a := append([]int(nil), items...)
		rec = func(k int) {
			if k == n {
				res = append(res, append([]int(nil), a...))
				return
			}
			for i := k; i < n; i++ {
				a[k], a[i] = a[i], a[k]
				rec(k + 1)
				a[k], a[i] = a[i], a[k]
			}
		}
		rec(0)
		return res
	}
	var res [][]int
	for k := 0; k < limit; k++ {
		a := append([]int(nil), items...)
		c.Rng.Shuffle(n, func(i, j int) { a[i], a[j] = a[j], a[i] })
		res = append(res, a)
	}
	rev := append([]int(nil), items...)
	for i, j := 0, n-1; i < j; i, j = i+1, j-1 {
		rev[i], rev[j] = rev[j], rev[i]
	}
	return append(res, rev)
}

// blocksInOrder: BEGIN blocks and END blocks must keep their relative order (their execution order is program behaviour).
func blocksInOrder(o []int) bool {
	lastB, lastE := 0, -999
	for _, it := range o {
		if it < 0 && it > -1000 {
			if it > lastB {
				return false
			}
			lastB = it
		}
		if it <= -1000 {
			if it > lastE {
				return false
			}
			lastE = it
		}
	}
	return true
}

func renamer(pg *prog, k int) func(string) string {
	return func(s string) string {
		if specialNames[s] || s == "ARGV" || s == "ENVIRON" || s == "FIELDS" {
			return s
		}
		for _, n := range pg.Natives {
			if n == s {
				return s
			}
		}
		switch k % 3 {
		case 0:
			return "R" + s + "x"
		case 1:
			return "z_" + s
		default:
			// reverses the relative order of most names
			b := []byte(s)
			for i := range b {
				switch {
				case b[i] >= 'a' && b[i] <= 'z':
					b[i] = 'a' + ('z' - b[i])
				case b[i] >= 'A' && b[i] <= 'Z':
					b[i] = 'A' + ('Z' - b[i])
				case b[i] >= '0' && b[i] <= '9':
					b[i] = '0' + ('9' - b[i])
				}
			}
			return "w" + string(b)
		}
	}
}

func runC16(c *vh.Ctx) {
	c.Rule("structured programs: intent-driven random call graphs (0-6 functions, 0-4 parameters, parameters shadowing globals and " +
		"special variables, native functions, scalar/array/length/in/split/delete/for-in/sub uses, nested calls, non-variable and grouped " +
		"arguments, fewer arguments than parameters, guarded recursion) with 0-20% contradicting uses, plus the named shapes chain(n<=400, three " +
		"name orders), cycle, diamond, unused-parameter, local-array, and call-shape programs (3-6 functions, 1-4 parameters mixing arrays and " +
		"scalars in every order, nested user calls as scalar arguments up to depth 3, local arrays, fewer arguments) checked against a reference " +
		"evaluator, deep-recursion programs (5-300 frames, 1-2 local arrays per frame, element/split/delete/sub writes into by-reference and " +
		"global arrays at the bottom and on the way back) checked against a simulation, zigzag chains (3-12 links alternating globals and " +
		"unused / forward-only parameters, the one direct use at either end or in the middle, call sites along / against / across the " +
		"flow, as BEGIN blocks, one block, or bodies of uncalled functions), locals-after-leave programs (2-4 functions with mixed local " +
		"arrays and scalars reporting their locals on entry; left by return, falling off the end, exit, next, nextfile, division by zero " +
		"or call-depth overflow at depth 0-8, called from BEGIN, actions, patterns and END) checked against a simulation, stack-growth programs " +
		"(chains of 1-3 functions recursing to depths that sweep the re-allocation steps of the VM's value stack — initial capacity and maximum " +
		"call depth read from interp/*.go — and random depths up to and beyond the call-depth limit; per function 0-2 scalar and 0-2 array " +
		"parameters in mixed order, 0-6 scalar locals, 0-3 local arrays; locals assigned from expressions with an operand stack 0-12 deep, " +
		"getline into a local, for-in sums; the nested call plain / inside nested arithmetic or concatenation with up to 12 pending operands / " +
		"as argument of other calls / in printf and sprintf lists / in a subscript / in a condition / inside for-in / with assignments among " +
		"its arguments / with fewer arguments; leaving at the bottom by return, bare return, exit or next; three inputs per program, each run on " +
		"a fresh interpreter) checked against an evaluator of the description, frames programs (scalars only; unrolled into push/pop/write/read/" +
		"enter/leave events for the Lean value-stack model), and every program once more with ParserConfig.Funcs " +
		"entries named like its AWK functions; each structured program under every permutation of its top-level items (<=6 items, else " +
		"sampled) and three renamings; non-trivial = the program has a call that passes a variable to an AWK function")

	var progs []*prog
	// corpus first: witnesses of fixed findings and of the comment examples in resolve.go
	for _, n := range []int{99, 100, 101, 102, 150} { // F19 (fixed): forwarding chains around the old pass cap of 100
		for mode := 0; mode < 3; mode++ {
			progs = append(progs, genChain(c.Rng, n, 2, 0, mode, false))
		}
	}
	// F19 proper: the array type comes from the caller, so it travels one link per pass (callees are walked first)
	for _, n := range []int{99, 100, 101, 102, 150} {
		progs = append(progs, genChain(c.Rng, n, 0, 2, n%3, false))
	}
	progs = append(progs, genChain(c.Rng, 130, 1, 2, 0, false)) // conflict that only shows after > 100 passes
	progs = append(progs, genChain(c.Rng, 101, 2, 1, 1, false))
	progs = append(progs, genChain(c.Rng, 120, 1, 2, 1, true))
	for v := 0; v < 4; v++ {
		progs = append(progs, genUnusedParam(c.Rng, v))
	}
	for _, cf := range []bool{false, true} {
		progs = append(progs, genCycle(c.Rng, 5, cf))
	}
	for u := 0; u < 3; u++ {
		progs = append(progs, genDiamond(c.Rng, u))
	}
	progs = append(progs, genLocalArray(c.Rng, 3))
	// global - parameter - global chains through unused parameters; call sites along / against the flow (class of seeded C16-p3)
	for _, n := range []int{3, 5, 8, 12} {
		for order := 0; order < 2; order++ {
			progs = append(progs, genZigzag(c.Rng, n, 0, 2, 0, 0, order, 0, false), genZigzag(c.Rng, n, n, 1, 0, 0, order, 1, false))
		}
		progs = append(progs, genZigzag(c.Rng, n, 0, 2, n, 1, 1, 0, false), genZigzag(c.Rng, n, n/2, 2, 0, 0, 2, 2, true))
	}
	if c.Thorough() {
		progs = append(progs, genChain(c.Rng, 400, 2, 0, 1, false), genChain(c.Rng, 300, 0, 2, 2, true), genChain(c.Rng, 400, 0, 2, 0, false))
	}
	nShapes := c.N(84, 840)
	for i := 0; i < nShapes; i++ {
		switch c.Rng.Intn(7) {
		case 5, 6:
			progs = append(progs, genZigzagRandom(c.Rng))
		case 0:
			progs = append(progs, genChain(c.Rng, 1+c.Rng.Intn(12), c.Rng.Intn(3), c.Rng.Intn(3), c.Rng.Intn(3), c.Rng.Intn(2) == 0))
		case 1:
			progs = append(progs, genCycle(c.Rng, 2+c.Rng.Intn(6), c.Rng.Intn(2) == 0))
		case 2:
			progs = append(progs, genDiamond(c.Rng, c.Rng.Intn(3)))
		case 3:
			progs = append(progs, genChain(c.Rng, 20+c.Rng.Intn(100), c.Rng.Intn(3), c.Rng.Intn(3), c.Rng.Intn(3), false))
		default:
			progs = append(progs, genLocalArray(c.Rng, c.Rng.Intn(5)))
		}
	}
	nRandom := c.N(1500, 15000)
	for i := 0; i < nRandom; i++ {
		progs = append(progs, genRandom(c.Rng))
	}

	type outT struct {
		src     string
		fl      flat
		rk      map[string]int
		base    parseResult
		inf     inference
		run     vh.RunResult
		fails   []vh.Failure
		nVar    int
		leanReq string
	}
	outs := make([]outT, len(progs))
	// per-program seeds for the sampled permutations come from c.Rng, drawn sequentially before the parallel section
	permSets := make([][][]int, len(progs))
	for i, pg := range progs {
		all := permutations(pg.defaultOrder(), c.N(3, 8), c)
		var keep [][]int
		for _, o := range all {
			if blocksInOrder(o) {
				keep = append(keep, o)
			}
		}
		if len(keep) > c.N(24, 360) {
			c.Rng.Shuffle(len(keep), func(a, b int) { keep[a], keep[b] = keep[b], keep[a] })
			keep = keep[:c.N(24, 360)]
		}
		permSets[i] = keep
	}

	vh.Parallel(len(progs), func(i int) {
		pg := progs[i]
		o := &outs[i]
		funcs := pg.funcsMap()
		o.src = pg.src(pg.defaultOrder(), nil)
		o.fl = pg.flatten()
		o.rk = ranks(pg.identifiers())
		o.leanReq = "resolve auto " + pg.leanProgram(o.fl, o.rk)
		o.base = parseSrc(o.src, funcs)
		o.inf = pg.infer(o.fl)
		cs := c16Case{Shape: pg.Shape, Src: o.src}
		fail := func(what, got, want string, other string) {
			cc := cs
			cc.Other = other
			o.fails = append(o.fails, vh.Failure{Kind: "oracle", What: what, Case: cc, Got: got, Want: want})
		}
		if o.base.panic_ != "" {
			fail("ParseProgram panicked", o.base.panic_, "", "")
			return
		}
		// exactness against the independent inference
		switch {
		case o.base.ok && !o.inf.ok:
			fail("accepted although some variable must be both scalar and array", "accepted", "type error", "")
		case !o.base.ok && o.inf.ok:
			fail("rejected although a consistent scalar/array typing exists", o.base.msg, "accepted", "")
		case !o.base.ok && !typeErrorMsg(o.base.msg):
			fail("rejected with an error that is not a scalar/array type error", o.base.msg, "can't use/pass …", "")
		}
		if o.base.ok && o.inf.ok {
			got := parseTable(o.base.types)
			for scope, vars := range o.inf.types {
				for v, t := range vars {
					g := strings.Fields(got[scope][v])
					if len(g) != 2 || g[0] != t {
						fail(fmt.Sprintf("type of %q in scope %q differs from the inferred type", v, scope), got[scope][v], t, "")
					}
				}
			}
			for scope, vars := range got {
				for v := range vars {
					if _, ok := o.inf.types[scope][v]; !ok {
						fail(fmt.Sprintf("type table has an entry %q in scope %q that no use or parameter accounts for", v, scope), vars[v], "", "")
					}
				}
			}
			o.run = runProg(o.base.prog, funcs)
			if o.run.Panic != "" || o.run.Err != "" {
				fail("accepted program failed at run time", o.run.String(), "no error", "")
			}
		}
		// an overridden native is irrelevant: ParserConfig.Funcs entries named like AWK functions of the program (the AWK definition
		// takes precedence) and one more that nothing calls must change neither verdict, error, types nor behaviour
		if len(pg.Fns) > 0 {
			over := shadowFuncs(funcs, fnNames(pg), i)
			v := parseSrc(o.src, over)
			switch {
			case v.panic_ != "":
				fail("ParseProgram panicked when ParserConfig.Funcs has entries named like AWK functions", v.panic_, "", "")
			case v.ok != o.base.ok || v.msg != o.base.msg || v.line != o.base.line || v.col != o.base.col:
				fail("verdict or error changes when ParserConfig.Funcs has entries named like AWK functions (which override them)",
					fmt.Sprint(v.ok, " ", v.line, ":", v.col, " ", v.msg), fmt.Sprint(o.base.ok, " ", o.base.line, ":", o.base.col, " ", o.base.msg), "")
			case v.ok && v.types != o.base.types:
				fail("type table changes when ParserConfig.Funcs has entries named like AWK functions", v.types, o.base.types, "")
			case v.ok && o.inf.ok:
				if r := runProg(v.prog, over); r.String() != o.run.String() {
					fail("behaviour changes when Funcs has entries named like AWK functions", r.String(), o.run.String(), "")
				}
			}
			o.nVar++
		}
		// permutations and renamings
		for k, ord := range permSets[i] {
			var ren func(string) string
			if k%2 == 1 || len(permSets[i]) == 1 {
				ren = renamer(pg, k/2)
			}
			vsrc := pg.src(ord, ren)
			v := parseSrc(vsrc, funcs)
			if v.panic_ != "" {
				fail("ParseProgram panicked on a permuted/renamed variant", v.panic_, "", vsrc)
				continue
			}
			if v.ok != o.base.ok {
				fail("verdict changes when top-level items are reordered / variables renamed", fmt.Sprint(v.ok, " ", v.msg), fmt.Sprint(o.base.ok, " ", o.base.msg), vsrc)
				continue
			}
			if v.ok && o.inf.ok {
				r := runProg(v.prog, funcs)
				if r.String() != o.run.String() {
					fail("behaviour changes when top-level items are reordered / variables renamed", r.String(), o.run.String(), vsrc)
				}
			}
			o.nVar++
		}
		pg.src(pg.defaultOrder(), nil) // restore the line numbers of the base spelling
	})

	for i, pg := range progs {
		o := &outs[i]
		hasVarArg := false
		for _, es := range o.fl.fn {
			for _, e := range es {
				hasVarArg = hasVarArg || e.K == "varArg"
			}
		}
		for _, e := range o.fl.main {
			hasVarArg = hasVarArg || e.K == "varArg"
		}
		c.Eval(o.src, hasVarArg)
		for k := 0; k <= o.nVar; k++ {
			c.OracleCase()
		}
		c.Hit("shape:" + pg.Shape)
		c.Hit(fmt.Sprintf("functions:%d", min(len(pg.Fns), 7)))
		c.Hit(fmt.Sprintf("variants:%d", bucket(o.nVar)))
		if o.base.ok {
			c.Hit("verdict:accepted")
		} else {
			m := o.base.msg
			switch {
			case strings.HasPrefix(m, "can't use"):
				c.Hit("verdict:rejected:can't use X as Y")
			case strings.HasPrefix(m, "can't pass scalar"):
				c.Hit("verdict:rejected:can't pass scalar expr as array param")
			case strings.HasPrefix(m, "can't pass"):
				c.Hit("verdict:rejected:can't pass X as Y param")
			default:
				c.Hit("verdict:rejected:other")
			}
		}
		if i%997 == 0 {
			c.Sample(map[string]interface{}{"shape": pg.Shape, "src": o.src, "accepted": o.base.ok, "msg": o.base.msg, "out": o.run.Out})
		}
		for _, f := range o.fails {
			c.Fail(f)
		}
	}

	semanticProbes(c)
	callShapeOracle(c)
	deepRecOracle(c)
	leaveOracle(c)
	stackGrowOracle(c)
	framesOracle(c)

	// correspondence with the Lean model
	if c.HasLean() {
		reqs := make([]string, len(progs))
		for i := range progs {
			reqs[i] = outs[i].leanReq
		}
		ans := c.LeanBatch(reqs)
		for i, a := range ans {
			o := &outs[i]
			if o.base.panic_ != "" {
				continue
			}
			c.Trace()
			cands := leanExpectation(progs[i], o.fl, o.rk, o.base)
			want := strings.Join(cands, " | ")
			match := false
			for _, w := range cands {
				match = match || normSpaces(a) == normSpaces(w)
			}
			if !match {
				c.Fail(vh.Failure{Kind: "correspondence", What: "Lean resolve and resolver.Resolve disagree (verdict / type table / reported error)",
					Case: c16Case{Shape: progs[i].Shape, Src: o.src, Note: reqs[i]}, Got: want, Want: a})
			}
		}
		// the model's own order independence on the explicit order parameter (sanity of the driver; the theorem is in Props.C16)
		var reqs2 []string
		var idx2 []int
		for i, pg := range progs {
			if i%7 != 0 || len(pg.Fns) < 2 {
				continue
			}
			var o []string
			for _, f := range pg.Fns {
				o = append(o, fmt.Sprint(outs[i].rk[f.Name]))
			}
			c.Rng.Shuffle(len(o), func(a, b int) { o[a], o[b] = o[b], o[a] })
			reqs2 = append(reqs2, "resolve o:"+strings.Join(o, ",")+" "+pg.leanProgram(outs[i].fl, outs[i].rk))
			idx2 = append(idx2, i)
		}
		for k, a := range c.LeanBatch(reqs2) {
			i := idx2[k]
			if strings.HasPrefix(a, "ok") != strings.HasPrefix(ans[i], "ok") || (strings.HasPrefix(a, "ok") && a != ans[i]) {
				c.Fail(vh.Failure{Kind: "correspondence", What: "Lean resolve depends on the order parameter (contradicts order_independent)",
					Case: c16Case{Shape: progs[i].Shape, Src: outs[i].src, Note: reqs2[k]}, Got: a, Want: ans[i]})
			}
		}
	}
}
