package main

// Reference evaluation of a stack-growth program (stackgrow.go): the DESCRIPTION is evaluated, not AWK text. Every activation owns
// a fresh Go slice for its scalars and fresh Go maps for its local arrays; array arguments hand on the caller's map pointer;
// scalar arguments are copied values; leaving by exit / next / an error is a Go panic caught by the top-level piece.

import (
	"fmt"
	"strconv"
	"strings"
)

type sgVal struct {
	k int8 // 0 uninitialised, 1 number, 2 string
	n int64
	s string
}

func sgN(n int64) sgVal  { return sgVal{k: 1, n: n} }
func sgS(s string) sgVal { return sgVal{k: 2, s: s} }

func (v sgVal) num() int64 {
	switch v.k {
	case 1:
		return v.n
	case 2:
		panic("stacksim: string used as a number: " + v.s)
	}
	return 0
}

func (v sgVal) str() string {
	switch v.k {
	case 1:
		return strconv.FormatInt(v.n, 10)
	case 2:
		return v.s
	}
	return ""
}

type sgMap struct{ m map[string]sgVal }

func newSgMap() *sgMap { return &sgMap{m: map[string]sgVal{}} }

type sgFrame struct {
	fn *sgFn
	n  sgVal
	p  []sgVal
	l  []sgVal
	ap []*sgMap
	la []*sgMap
}

type sgLeave struct{ kind string }

type sgSim struct {
	pg        *sgProg
	out       strings.Builder
	lines     []sgLine
	cursor    int
	g         [4]sgVal // gnum gstr r rs
	ga        [3]*sgMap
	stop, how int64
	depth     int
	limit     int
	status    int
	kind      string // "" | deep
	maxDepth  int
	slots     int
	maxSlots  int
}

func (s *sgSim) get(v sgVar, fr *sgFrame) sgVal {
	switch v.sc {
	case 'n':
		return fr.n
	case 'P':
		return fr.p[v.j]
	case 'L':
		return fr.l[v.j]
	}
	return s.g[v.j]
}

func (s *sgSim) set(v sgVar, fr *sgFrame, x sgVal) {
	switch v.sc {
	case 'n':
		fr.n = x
	case 'P':
		fr.p[v.j] = x
	case 'L':
		fr.l[v.j] = x
	default:
		s.g[v.j] = x
	}
}

func (s *sgSim) arr(a sgArrRef, fr *sgFrame) *sgMap {
	switch a.sc {
	case 'A':
		return fr.ap[a.j]
	case 'L':
		return fr.la[a.j]
	}
	return s.ga[a.j]
}

func sgFormat(f string, vals []sgVal) string {
	var sb strings.Builder
	k := 0
	for i := 0; i < len(f); i++ {
		switch {
		case f[i] == '%' && i+1 < len(f) && f[i+1] == 's':
			sb.WriteString(vals[k].str())
			k++
			i++
		case f[i] == '%' && i+1 < len(f) && f[i+1] == 'd':
			sb.WriteString(strconv.FormatInt(vals[k].num(), 10))
			k++
			i++
		case f[i] == '\\' && i+1 < len(f) && f[i+1] == 'n':
			sb.WriteByte('\n')
			i++
		default:
			sb.WriteByte(f[i])
		}
	}
	return sb.String()
}

func (s *sgSim) enter() {
	if s.depth >= s.limit {
		panic(sgLeave{"deep"})
	}
	s.depth++
	if s.depth > s.maxDepth {
		s.maxDepth = s.depth
	}
}

func (s *sgSim) eval(e *sgE, fr *sgFrame) sgVal {
	switch e.op {
	case "c":
		return sgN(e.v)
	case "sc":
		return sgS(e.s)
	case "var":
		return s.get(e.ref, fr)
	case "add":
		a := s.eval(e.a[0], fr)
		b := s.eval(e.a[1], fr)
		return sgN(a.num() + b.num())
	case "sub":
		a := s.eval(e.a[0], fr)
		b := s.eval(e.a[1], fr)
		return sgN(a.num() - b.num())
	case "gt":
		a := s.eval(e.a[0], fr)
		b := s.eval(e.a[1], fr)
		if a.num() > b.num() {
			return sgN(1)
		}
		return sgN(0)
	case "mulc":
		return sgN(s.eval(e.a[0], fr).num() * e.v)
	case "mod":
		return sgN(s.eval(e.a[0], fr).num() % e.v)
	case "len":
		return sgN(int64(len(s.arr(e.arr, fr).m)))
	case "lens":
		return sgN(int64(len(s.eval(e.a[0], fr).str())))
	case "elem":
		k := s.eval(e.a[0], fr).str()
		m := s.arr(e.arr, fr)
		v, ok := m.m[k]
		if !ok {
			m.m[k] = sgVal{} // a reference creates the element
		}
		return v
	case "in":
		k := s.eval(e.a[0], fr).str()
		if _, ok := s.arr(e.arr, fr).m[k]; ok {
			return sgN(1)
		}
		return sgN(0)
	case "cat":
		a := s.eval(e.a[0], fr)
		b := s.eval(e.a[1], fr)
		return sgS(a.str() + b.str())
	case "substr":
		t := s.eval(e.a[0], fr).str()
		from := int(e.v) - 1
		if from >= len(t) {
			return sgS("")
		}
		to := from + int(e.w)
		if to > len(t) {
			to = len(t)
		}
		return sgS(t[from:to])
	case "sprintf":
		var vals []sgVal
		for _, a := range e.a {
			vals = append(vals, s.eval(a, fr))
		}
		return sgS(sgFormat(e.s, vals))
	case "asg":
		v := s.eval(e.a[0], fr)
		s.set(e.ref, fr, v)
		return v
	case "aux":
		var vals []sgVal
		for _, a := range e.a {
			vals = append(vals, s.eval(a, fr))
		}
		s.enter()
		defer func() { s.depth-- }()
		switch e.s {
		case "A1":
			return vals[0]
		case "A2":
			return vals[1]
		default:
			return sgN((vals[0].num() + 2*vals[1].num() + 3*vals[2].num()) % sgMod)
		}
	case "call":
		n := s.eval(e.a[0], fr)
		return s.call(e.fi, n, e.args, fr)
	}
	panic("stacksim: eval " + e.op)
}

func (s *sgSim) call(fi int, n sgVal, args []sgArg, fr *sgFrame) sgVal {
	f := s.pg.fns[fi]
	nf := &sgFrame{fn: f, n: n, p: make([]sgVal, len(f.pk)), l: make([]sgVal, len(f.lk)), ap: make([]*sgMap, f.nAP), la: make([]*sgMap, f.nLA)}
	for i, a := range args {
		sl := f.sig[i]
		if a.arr {
			nf.ap[sl.j] = s.arr(a.ar, fr)
		} else {
			nf.p[sl.j] = s.eval(a.e, fr)
		}
	}
	for j := range nf.ap {
		if nf.ap[j] == nil {
			nf.ap[j] = newSgMap() // an array parameter the caller did not pass is a fresh local array
		}
	}
	for j := range nf.la {
		nf.la[j] = newSgMap()
	}
	s.enter()
	foot := f.numScalars() + f.pending
	s.slots += foot
	if s.slots > s.maxSlots {
		s.maxSlots = s.slots
	}
	defer func() { s.depth--; s.slots -= foot }()
	return s.body(nf)
}

func (s *sgSim) body(fr *sgFrame) sgVal {
	f := fr.fn
	for _, st := range f.pre {
		s.exec(st, fr)
	}
	if fr.n.num() <= s.stop {
		for _, st := range f.bottom {
			s.exec(st, fr)
		}
		switch s.how {
		case 1:
			s.status = 3
			panic(sgLeave{"exit"})
		case 2:
			panic(sgLeave{"next"})
		case 3:
			return sgVal{}
		}
		return s.eval(f.bottomRet, fr)
	}
	s.exec(f.callSt, fr)
	for _, st := range f.post {
		s.exec(st, fr)
	}
	for _, st := range f.report {
		s.exec(st, fr)
	}
	return s.eval(f.ret, fr)
}

func (s *sgSim) exec(st *sgStmt, fr *sgFrame) {
	switch st.k {
	case "asg":
		s.set(st.ref, fr, s.eval(st.e, fr))
	case "aset":
		// neither side can observe the other (scalars of the activation and at most one call), so the order is immaterial
		v := s.eval(st.e, fr)
		k := s.eval(st.key, fr).str()
		s.arr(st.arr, fr).m[k] = v
	case "adel":
		delete(s.arr(st.arr, fr).m, s.eval(st.key, fr).str())
	case "adelall":
		m := s.arr(st.arr, fr)
		for k := range m.m {
			delete(m.m, k)
		}
	case "split":
		m := s.arr(st.arr, fr)
		for k := range m.m {
			delete(m.m, k)
		}
		for i, w := range strings.Fields(st.f) {
			n, _ := strconv.ParseInt(w, 10, 64)
			m.m[strconv.Itoa(i+1)] = sgN(n)
		}
	case "getl":
		if s.cursor < len(s.lines) {
			s.set(st.ref, fr, sgS(sgLineText(s.lines, s.cursor)))
			s.cursor++
		}
	case "forin":
		var sum int64
		for _, v := range s.arr(st.arr, fr).m {
			sum += v.num()
		}
		s.set(st.acc, fr, sgN(sum%sgMod))
		s.set(st.ref, fr, s.eval(st.after, fr))
	case "forcall":
		if len(s.arr(st.arr, fr).m) > 0 {
			s.exec(st.body[0], fr)
		}
		s.set(st.ref, fr, s.eval(st.after, fr))
	case "expr":
		s.eval(st.e, fr)
	case "print":
		var parts []string
		for _, a := range st.args {
			parts = append(parts, s.eval(a, fr).str())
		}
		s.out.WriteString(strings.Join(parts, " ") + "\n")
	case "printf":
		var vals []sgVal
		for _, a := range st.args {
			vals = append(vals, s.eval(a, fr))
		}
		s.out.WriteString(sgFormat(st.f, vals))
	case "if":
		if s.eval(st.e, fr).num() != 0 {
			s.exec(st.body[0], fr)
		} else {
			s.exec(st.els[0], fr)
		}
	default:
		panic("stacksim: exec " + st.k)
	}
}

func sgLineText(ls []sgLine, i int) string {
	l := ls[i]
	return fmt.Sprintf("%d %d %d t%d", l.d, l.stop, l.how, i)
}

func (s *sgSim) dump(tag string) {
	fmt.Fprintf(&s.out, "D %s %s %s %s %s", tag, s.g[0].str(), s.g[1].str(), s.g[2].str(), s.g[3].str())
	for _, a := range s.ga {
		fmt.Fprintf(&s.out, " [%d", len(a.m))
		for i := -6; i <= 6; i++ {
			if v, ok := a.m[strconv.Itoa(i)]; ok {
				fmt.Fprintf(&s.out, " %d=%s", i, v.str())
			}
			if v, ok := a.m["k"+strconv.Itoa(i)]; ok {
				fmt.Fprintf(&s.out, " k%d=%s", i, v.str())
			}
		}
		s.out.WriteString("]")
	}
	s.out.WriteString("\n")
}

func (s *sgSim) top(form int, d int64, args []sgArg) {
	ret := s.call(0, sgN(d), args, nil)
	switch form {
	case 0:
		s.g[2] = ret
	case 1:
		s.g[2] = sgN(12 + ret.num())
	case 2:
		fmt.Fprintf(&s.out, "tp %d t\n", ret.num())
	default:
		s.g[3] = sgS("ab" + ret.str())
	}
}

// piece runs f and says how it was left: "" (fell through), exit, next, deep
func (s *sgSim) piece(f func()) (left string) {
	defer func() {
		if r := recover(); r != nil {
			l, ok := r.(sgLeave)
			if !ok {
				panic(r)
			}
			left = l.kind
			s.depth, s.slots = 0, 0
		}
	}()
	f()
	return ""
}

func sgSimulate(pg *sgProg, lines []sgLine, lim sgLimits) *sgSim {
	s := &sgSim{pg: pg, lines: lines, limit: lim.maxDepth}
	for j := range s.ga {
		s.ga[j] = newSgMap()
	}
	tops := func(ts []sgTop, tag string) func() {
		return func() {
			for i, t := range ts {
				s.stop, s.how = int64(t.stop), int64(t.how)
				s.top(t.form, int64(t.d), t.args)
				s.dump(fmt.Sprintf("%s%d", tag, i))
			}
		}
	}
	left := s.piece(func() {
		s.ga[0].m["k1"] = sgN(11)
		s.ga[1].m["2"] = sgN(22)
		tops(pg.begin, "b")()
	})
	if left == "deep" {
		s.kind = "deep"
		return s
	}
	if left != "exit" {
		for s.cursor < len(s.lines) {
			l := s.lines[s.cursor]
			tag := fmt.Sprintf("t%d", s.cursor)
			s.cursor++
			left = s.piece(func() {
				s.stop, s.how = int64(l.stop), int64(l.how)
				s.top(pg.recForm, int64(l.d), pg.recArgs)
				s.dump("r" + tag)
			})
			if left == "deep" {
				s.kind = "deep"
				return s
			}
			if left == "exit" {
				break
			}
		}
	}
	left = s.piece(func() {
		tops(pg.end, "e")()
		s.dump("end")
	})
	if left == "deep" {
		s.kind = "deep"
	}
	return s
}
