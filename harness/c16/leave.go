package main

// Freshness of locals after EVERY way of leaving a function. "Locals used as arrays" are arrays the caller did not pass: each
// activation must start with empty local arrays and uninitialised local scalars, whatever happened to earlier activations — they
// may have returned, fallen off the end, or been abandoned by `exit`, `next`, `nextfile` or a run-time error at any nesting depth
// (END blocks still run after `exit`, later records still run after `next`).
//
// A generated program has 2-4 functions, each with its own mix of local arrays and local scalars (in any order, so the array slots
// of different functions overlap differently), optionally one by-reference parameter bound to a global array. On entry a function
// REPORTS its locals (length, number of for-in iterations, a membership test, scalar uninitialised or not), then fills them, then
// either calls the next function one level deeper (as a statement, inside an arithmetic expression, or inside a for-in loop over
// its own local array) and reports its locals again after the callee came back, or — at depth 0 — leaves in the way the record
// asks for. Calls are made from BEGIN, from actions, from patterns and from END. The expectation is a direct simulation in Go of the
// control flow under "locals are fresh per call": every entry report shows empty arrays and uninitialised scalars.

import (
	"fmt"
	"math/rand"
	"strings"

	"github.com/benhoyt/goawk/interp"

	"verifharness/vh"
)

type lvLocal struct {
	arr  bool
	name string
	fill int // arrays: number of fixed keys written besides a[d]
}

type lvFn struct {
	name   string
	locals []lvLocal
	callee int
	ctx    int // 0 r = F(..); 1 r = 0 + F(..); 2 inside a for-in loop over the first local array
}

type lvCall struct {
	fn, d int
	how   string
}

type lvRec struct {
	kind string // c (call in an action) | p (call in a pattern) | x (no call)
	lvCall
}

type lvProg struct {
	fns        []lvFn
	useG       bool
	begin, end []lvCall
	rulesFirst bool // pattern rules before the action rules
}

var lvHows = []string{"ret", "fall", "exit", "next", "nextfile", "err", "deep"}

func genLeave(r *rand.Rand) *lvProg {
	pg := &lvProg{useG: r.Intn(3) == 0, rulesFirst: r.Intn(2) == 0}
	nf := 2 + r.Intn(3)
	hasArr := false
	for i := 0; i < nf; i++ {
		f := lvFn{name: fmt.Sprintf("F%d", i), callee: r.Intn(nf), ctx: r.Intn(3)}
		if r.Intn(3) == 0 {
			f.callee = i // self recursion
		}
		nl := 1 + r.Intn(4)
		for j := 0; j < nl; j++ {
			l := lvLocal{arr: r.Intn(3) > 0, fill: r.Intn(4)}
			if i == nf-1 && j == nl-1 && !hasArr {
				l.arr = true
			}
			hasArr = hasArr || l.arr
			if l.arr {
				l.name = fmt.Sprintf("a%d", j)
			} else {
				l.name = fmt.Sprintf("s%d", j)
			}
			f.locals = append(f.locals, l)
		}
		pg.fns = append(pg.fns, f)
	}
	top := func(hows []string) lvCall {
		return lvCall{fn: r.Intn(nf), d: r.Intn(4), how: hows[r.Intn(len(hows))]}
	}
	for k := r.Intn(3); k > 0; k-- {
		pg.begin = append(pg.begin, top([]string{"ret", "ret", "fall", "fall", "exit", "err", "deep"}))
	}
	for k := 1 + r.Intn(3); k > 0; k-- {
		pg.end = append(pg.end, top([]string{"ret", "ret", "fall", "fall", "exit"}))
	}
	return pg
}

func genLeaveInput(r *rand.Rand, pg *lvProg) []lvRec {
	var recs []lvRec
	for k := 1 + r.Intn(7); k > 0; k-- {
		rec := lvRec{kind: []string{"c", "c", "p", "x"}[r.Intn(4)]}
		rec.fn = r.Intn(len(pg.fns))
		rec.d = r.Intn(4)
		if r.Intn(8) == 0 {
			rec.d = 4 + r.Intn(5)
		}
		switch x := r.Intn(20); {
		case x < 4:
			rec.how = "ret"
		case x < 7:
			rec.how = "fall"
		case x < 12:
			rec.how = "next"
		case x < 15:
			rec.how = "exit"
		case x < 17:
			rec.how = "nextfile"
		case x < 19:
			rec.how = "err"
		default:
			rec.how = "deep"
		}
		recs = append(recs, rec)
	}
	return recs
}

func lvInputText(recs []lvRec) string {
	var sb strings.Builder
	for _, rec := range recs {
		if rec.kind == "x" {
			sb.WriteString("x\n")
			continue
		}
		fmt.Fprintf(&sb, "%s%d %d %s\n", rec.kind, rec.fn, rec.d, rec.how)
	}
	return sb.String()
}

func (pg *lvProg) firstArr(f lvFn) string {
	for _, l := range f.locals {
		if l.arr {
			return l.name
		}
	}
	return ""
}

func (pg *lvProg) src() string {
	var sb strings.Builder
	g, gArg := "", ""
	if pg.useG {
		g, gArg = ", ga", ", ga"
	}
	// helper for the "deep" way of leaving: unbounded recursion, every frame owns a filled local array
	sb.WriteString("function Z(n,    za) { za[n] = 1; za[\"z\"] = n; return Z(n + 1) }\n")
	for _, f := range pg.fns {
		var names []string
		for _, l := range f.locals {
			names = append(names, l.name)
		}
		fmt.Fprintf(&sb, "function %s(d, how%s,    %s, k, n, r) {\n", f.name, g, strings.Join(names, ", "))
		// entry report
		for _, l := range f.locals {
			if l.arr {
				fmt.Fprintf(&sb, "  n = 0; for (k in %s) n++; k = \"\"\n", l.name)
				fmt.Fprintf(&sb, "  r = r length(%s) \":\" n \":\" ((d) in %s) \" \"\n", l.name, l.name)
			} else {
				fmt.Fprintf(&sb, "  r = r (%s == \"\" && %s == 0 ? \"u\" : \"D<\" %s \">\") \" \"\n", l.name, l.name, l.name)
			}
		}
		fmt.Fprintf(&sb, "  print \"%s\", d, how, r; r = \"\"\n", f.name)
		if pg.useG {
			fmt.Fprintf(&sb, "  ga[\"e\"]++; ga[\"%s\"]++\n", f.name)
		}
		// fill
		for j, l := range f.locals {
			if l.arr {
				fmt.Fprintf(&sb, "  %s[d] = how", l.name)
				for q := 0; q < l.fill; q++ {
					fmt.Fprintf(&sb, "; %s[\"k%d\"] = d", l.name, q)
				}
				sb.WriteString("\n")
			} else {
				fmt.Fprintf(&sb, "  %s = \"v\" d \"-%d\"\n", l.name, j)
			}
		}
		// nested call
		callee := pg.fns[f.callee].name
		sb.WriteString("  if (d > 0) {\n")
		fa := pg.firstArr(f)
		switch {
		case f.ctx == 2 && fa != "":
			fmt.Fprintf(&sb, "    for (k in %s) { r = %s(d - 1, how%s); break }\n", fa, callee, gArg)
		case f.ctx == 1:
			fmt.Fprintf(&sb, "    r = 0 + %s(d - 1, how%s)\n", callee, gArg)
		default:
			fmt.Fprintf(&sb, "    r = %s(d - 1, how%s)\n", callee, gArg)
		}
		sb.WriteString("    k = \"\"\n")
		for _, l := range f.locals {
			if l.arr {
				fmt.Fprintf(&sb, "    k = k length(%s) \" \"\n", l.name)
			} else {
				fmt.Fprintf(&sb, "    k = k %s \" \"\n", l.name)
			}
		}
		fmt.Fprintf(&sb, "    print \"back\", \"%s\", d, k\n    return r + 1\n  }\n", f.name)
		fmt.Fprintf(&sb, "  if (how == \"ret\") return %d\n", 100+len(f.locals))
		sb.WriteString("  if (how == \"exit\") exit 3\n  if (how == \"next\") next\n  if (how == \"nextfile\") nextfile\n")
		sb.WriteString("  if (how == \"err\") return 1 / d\n  if (how == \"deep\") return Z(0)\n}\n")
	}
	gTop := ""
	if pg.useG {
		gTop = ", G"
	}
	for _, b := range pg.begin {
		fmt.Fprintf(&sb, "BEGIN { print \"begin\", %s(%d, \"%s\"%s) }\n", pg.fns[b.fn].name, b.d, b.how, gTop)
	}
	actions := func() {
		for i, f := range pg.fns {
			fmt.Fprintf(&sb, "$1 == \"c%d\" { print \"ret\", %s($2 + 0, $3%s); print \"after\", NR }\n", i, f.name, gTop)
		}
	}
	patterns := func() {
		for i, f := range pg.fns {
			fmt.Fprintf(&sb, "$1 == \"p%d\" && %s($2 + 0, $3%s) >= 0 { print \"pat\", NR }\n", i, f.name, gTop)
		}
	}
	if pg.rulesFirst {
		patterns()
		actions()
	} else {
		actions()
		patterns()
	}
	sb.WriteString("{ print \"rec\", NR }\n")
	for _, e := range pg.end {
		fmt.Fprintf(&sb, "END { print \"end\", %s(%d, \"%s\"%s) }\n", pg.fns[e.fn].name, e.d, e.how, gTop)
	}
	if pg.useG {
		sb.WriteString("END { print \"G\", length(G), G[\"e\"] + 0 }\n")
	}
	return sb.String()
}

// ---- expectation: simulation of the control flow ---------------------------------------------------------------------------------

type lvSim struct {
	pg      *lvProg
	out     strings.Builder
	entries int
	seen    map[string]bool
	depth   int
	tops    []lvCall // the top-level calls that are executed, in order
	topEnds []string // how each of them ended ("" = came back)
}

// call returns the value (empty = the uninitialised value) and the way the call ended ("" = came back to the caller).
func (s *lvSim) call(i, d int, how string) (val int, empty bool, end string) {
	if s.depth == 0 {
		s.tops = append(s.tops, lvCall{i, d, how})
		s.topEnds = append(s.topEnds, "")
		defer func() { s.topEnds[len(s.topEnds)-1] = end }()
	}
	s.depth++
	defer func() { s.depth-- }()
	f := s.pg.fns[i]
	var rep strings.Builder
	for _, l := range f.locals {
		if l.arr {
			rep.WriteString("0:0:0 ")
		} else {
			rep.WriteString("u ")
		}
	}
	fmt.Fprintf(&s.out, "%s %d %s %s\n", f.name, d, how, rep.String())
	s.entries++
	s.seen[f.name] = true
	if d > 0 {
		v, _, e := s.call(f.callee, d-1, how)
		if e != "" {
			return 0, false, e
		}
		var back strings.Builder
		for j, l := range f.locals {
			if l.arr {
				fmt.Fprintf(&back, "%d ", l.fill+1)
			} else {
				fmt.Fprintf(&back, "v%d-%d ", d, j)
			}
		}
		fmt.Fprintf(&s.out, "back %s %d %s\n", f.name, d, back.String())
		return v + 1, false, ""
	}
	switch how {
	case "ret":
		return 100 + len(f.locals), false, ""
	case "exit", "next", "nextfile", "err", "deep":
		return 0, false, how
	}
	return 0, true, "" // fall (and any unknown word): off the end
}

func lvShow(v int, empty bool) string {
	if empty {
		return ""
	}
	return fmt.Sprint(v)
}

// expected returns output, exit status and the kind of run-time error ("" none | err | deep).
func (pg *lvProg) expected(recs []lvRec) (string, int, string) {
	out, status, kind, _ := pg.simulate(recs)
	return out, status, kind
}

func (pg *lvProg) simulate(recs []lvRec) (string, int, string, *lvSim) {
	s := &lvSim{pg: pg, seen: map[string]bool{}}
	out, status, kind := pg.expectedSim(s, recs)
	return out, status, kind, s
}

func (pg *lvProg) expectedSim(s *lvSim, recs []lvRec) (string, int, string) {
	status := 0
	exited := false
	for _, b := range pg.begin {
		v, empty, e := s.call(b.fn, b.d, b.how)
		if e == "err" || e == "deep" {
			return s.out.String(), 0, e
		}
		if e == "exit" {
			status, exited = 3, true
			break
		}
		fmt.Fprintf(&s.out, "begin %s\n", lvShow(v, empty))
	}
	if !exited {
	records:
		for nr, rec := range recs {
			nr++
			// rules in program order; each record matches at most one calling rule, then the final rule
			if rec.kind == "c" || rec.kind == "p" {
				v, empty, e := s.call(rec.fn, rec.d, rec.how)
				switch e {
				case "err", "deep":
					return s.out.String(), 0, e
				case "exit":
					status, exited = 3, true
					break records
				case "next":
					continue records
				case "nextfile":
					break records
				}
				if rec.kind == "c" {
					fmt.Fprintf(&s.out, "ret %s\nafter %d\n", lvShow(v, empty), nr)
				} else {
					fmt.Fprintf(&s.out, "pat %d\n", nr)
				}
			}
			fmt.Fprintf(&s.out, "rec %d\n", nr)
		}
	}
	for _, b := range pg.end {
		v, empty, e := s.call(b.fn, b.d, b.how)
		if e == "exit" {
			return s.out.String(), 3, ""
		}
		fmt.Fprintf(&s.out, "end %s\n", lvShow(v, empty))
	}
	if pg.useG {
		n := len(s.seen)
		if s.entries > 0 {
			n++
		}
		fmt.Fprintf(&s.out, "G %d %d\n", n, s.entries)
	}
	return s.out.String(), status, ""
}

// ---- correspondence with the Lean model of the array-table discipline (GoawkModel.C16.Locals) --------------------------------------

// leanLocals renders the executed top-level calls as a `locals` request: one model function per (function, depth, way of leaving).
func (pg *lvProg) leanLocals(sim *lvSim) (req string, wantOuts string) {
	type key struct {
		fn, d int
		how string
	}
	idx := map[key]int{}
	var bodies []string
	var build func(k key) int
	build = func(k key) int {
		if n, ok := idx[k]; ok {
			return n
		}
		n := len(bodies)
		idx[k] = n
		bodies = append(bodies, "")
		f := pg.fns[k.fn]
		nArr := 0
		var sb strings.Builder
		for _, l := range f.locals {
			if !l.arr {
				continue
			}
			fmt.Fprintf(&sb, " f:%d:%d", nArr, k.d)
			for q := 0; q < l.fill; q++ {
				fmt.Fprintf(&sb, " f:%d:%d", nArr, 100+q)
			}
			nArr++
		}
		if k.d > 0 {
			fmt.Fprintf(&sb, " c:%d l:r", build(key{f.callee, k.d - 1, k.how}))
		} else {
			switch k.how {
			case "ret":
				sb.WriteString(" l:r")
			case "exit":
				sb.WriteString(" l:x")
			case "next":
				sb.WriteString(" l:t")
			case "nextfile":
				sb.WriteString(" l:T")
			case "err", "deep":
				sb.WriteString(" l:e")
			}
		}
		bodies[n] = fmt.Sprintf("F %d%s", nArr, sb.String())
		return n
	}
	var pieces []string
	for i, t := range sim.tops {
		pieces = append(pieces, fmt.Sprintf("P c:%d", build(key{t.fn, t.d, t.how})))
		switch sim.topEnds[i] {
		case "":
			wantOuts += "n"
		case "exit":
			wantOuts += "x"
		case "next":
			wantOuts += "t"
		case "nextfile":
			wantOuts += "T"
		default:
			wantOuts += "e"
		}
	}
	nGlob := 0
	if pg.useG {
		nGlob = 1
	}
	return fmt.Sprintf("locals 5000 %d %s %s", nGlob, strings.Join(bodies, " "), strings.Join(pieces, " ")), wantOuts
}

// lvRealEntries reads the entry reports of the real run: per function entry the lengths of its local arrays.
func lvRealEntries(out string) string {
	var es []string
	for _, line := range strings.Split(out, "\n") {
		f := strings.Fields(line)
		if len(f) < 3 || len(f[0]) < 2 || f[0][0] != 'F' || f[0][1] < '0' || f[0][1] > '9' {
			continue
		}
		var sz []string
		for _, w := range f[3:] {
			if p := strings.Split(w, ":"); len(p) == 3 {
				sz = append(sz, p[0])
			}
		}
		if len(sz) == 0 {
			es = append(es, "-")
		} else {
			es = append(es, strings.Join(sz, ","))
		}
	}
	if len(es) == 0 {
		return "-"
	}
	return strings.Join(es, ";")
}

func leaveOracle(c *vh.Ctx) {
	nProg := c.N(250, 4000)
	type job struct {
		pg   *lvProg
		recs [][]lvRec
	}
	jobs := make([]job, nProg)
	for i := range jobs {
		pg := genLeave(c.Rng)
		jobs[i].pg = pg
		for k := 0; k < 4; k++ {
			jobs[i].recs = append(jobs[i].recs, genLeaveInput(c.Rng, pg))
		}
	}
	// the shape of the two seeded misses, as a fixed regression case: leave through exit, then END inspects a local array
	fixed := &lvProg{fns: []lvFn{
		{name: "F0", locals: []lvLocal{{arr: true, name: "a0", fill: 3}, {name: "s1"}}, callee: 1},
		{name: "F1", locals: []lvLocal{{name: "s0"}, {arr: true, name: "a1", fill: 1}, {arr: true, name: "a2", fill: 2}}, callee: 0, ctx: 2},
	}, end: []lvCall{{fn: 1, d: 1, how: "ret"}, {fn: 0, d: 0, how: "fall"}}}
	jobs = append(jobs, job{fixed, [][]lvRec{
		{{kind: "c", lvCall: lvCall{0, 2, "next"}}, {kind: "p", lvCall: lvCall{1, 1, "next"}}, {kind: "c", lvCall: lvCall{1, 2, "exit"}}},
		{{kind: "c", lvCall: lvCall{0, 1, "ret"}}, {kind: "c", lvCall: lvCall{0, 1, "nextfile"}}, {kind: "x"}},
	}})
	type res struct {
		fails []vh.Failure
		ends  []string
		reqs  []string // Lean requests, one per run
		wants []string // what the real run (entries) and the control flow (outs) say
	}
	results := make([]res, len(jobs))
	vh.Parallel(len(jobs), func(i int) {
		pg := jobs[i].pg
		src := pg.src()
		pr := parseSrc(src, nil)
		if pr.panic_ != "" || !pr.ok {
			results[i].fails = append(results[i].fails, vh.Failure{Kind: "oracle", What: "locals-after-leave program rejected or panicked (every local is used consistently)",
				Case: c16Case{Shape: "leave", Src: src}, Got: pr.msg + pr.panic_, Want: "accepted"})
			return
		}
		for _, recs := range jobs[i].recs {
			in := lvInputText(recs)
			want, wstatus, wkind, sim := pg.simulate(recs)
			got := vh.ExecProg(pr.prog, &interp.Config{Stdin: strings.NewReader(in), Args: []string{}})
			kind := ""
			switch {
			case strings.Contains(got.Err, "division by zero"):
				kind = "err"
			case strings.Contains(got.Err, "maximum call depth"):
				kind = "deep"
			case got.Err != "":
				kind = "other:" + got.Err
			}
			end := wkind
			if end == "" && wstatus != 0 {
				end = "exit"
			}
			if end == "" {
				end = "normal"
			}
			results[i].ends = append(results[i].ends, end)
			if got.Panic != "" || got.Out != want || got.Status != wstatus || kind != wkind {
				results[i].fails = append(results[i].fails, vh.Failure{Kind: "oracle",
					What: "locals must be fresh (arrays empty, scalars uninitialised) on every call, however earlier calls were left (return, falling off the end, exit, next, nextfile, run-time error)",
					Case: c16Case{Shape: "leave", Src: src, Note: "stdin (hex): " + vh.HxS(in)},
					Got:  got.String(), Want: fmt.Sprintf("out=%q status=%d err-kind=%q", want, wstatus, wkind)})
				return
			}
			if len(sim.tops) > 0 {
				req, outs := pg.leanLocals(sim)
				tab := "-"
				if pg.useG {
					tab = "0"
				}
				results[i].reqs = append(results[i].reqs, req)
				results[i].wants = append(results[i].wants, fmt.Sprintf("ok %s %s %s", lvRealEntries(got.Out), outs, tab))
			}
		}
	})
	if c.HasLean() {
		var reqs, wants []string
		var srcs []string
		for i := range jobs {
			reqs = append(reqs, results[i].reqs...)
			wants = append(wants, results[i].wants...)
			for range results[i].reqs {
				srcs = append(srcs, jobs[i].pg.src())
			}
		}
		for k, a := range c.LeanBatch(reqs) {
			c.Trace()
			c.Hit("correspondence:locals-table")
			if a != wants[k] {
				c.Fail(vh.Failure{Kind: "correspondence", What: "Lean model of CallUser's array table and the real interpreter disagree on the local-array sizes at function entry / how the top-level pieces end",
					Case: c16Case{Shape: "leave", Src: srcs[k], Note: reqs[k]}, Got: a, Want: wants[k]})
			}
		}
	}
	for i, j := range jobs {
		for k := range j.recs {
			c.OracleCase()
			c.Eval("leave\x00"+j.pg.src()+"\x00"+lvInputText(j.recs[k]), true)
			c.Hit("shape:locals-after-leave")
			if k < len(results[i].ends) {
				c.Hit("leave-run-ended:" + results[i].ends[k])
			}
			for _, rec := range j.recs[k] {
				if rec.kind != "x" {
					c.Hit("leave-how:" + rec.how)
				}
			}
		}
		for _, f := range results[i].fails {
			c.Fail(f)
		}
	}
}
