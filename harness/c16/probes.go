package main

// Directed families with computed expectations: arrays are shared by reference through any forwarding depth, scalars are copied,
// missing array arguments are fresh arrays per call, and a caller's untyped variable handed to an array parameter becomes that array.

import (
	"fmt"
	"strings"

	"verifharness/vh"
)

type probe struct {
	name string
	src  string
	want string
}

func forwardChain(n int, last string) string {
	var sb strings.Builder
	for i := 1; i <= n; i++ {
		if i < n {
			fmt.Fprintf(&sb, "function h%d(a, s) { s = s + 1; h%d(a, s); a[\"d%d\"] = s }\n", i, i+1, i)
		} else {
			fmt.Fprintf(&sb, "function h%d(a, s) { %s }\n", i, last)
		}
	}
	return sb.String()
}

func buildProbes(c *vh.Ctx) []probe {
	var ps []probe
	depths := []int{1, 2, 3, 7, 30, 120}
	if c.Thorough() {
		depths = append(depths, 250, 400)
	}
	for _, n := range depths {
		// array written at depth n is visible at the top; the scalar incremented on the way down is not
		src := forwardChain(n, `a["deep"] = s; s = 1000`) + `BEGIN { S = 5; h1(A, S); print A["deep"], S, length(A) }` + "\n"
		ps = append(ps, probe{fmt.Sprintf("by-ref-depth-%d", n), src, fmt.Sprintf("%d 5 %d\n", 5+n-1, n)})
		// deletion through the chain
		src = forwardChain(n, `delete a["x"]; a["y"] = 1`) + `BEGIN { A["x"] = 1; h1(A, 0); print ("x" in A), ("y" in A) }` + "\n"
		ps = append(ps, probe{fmt.Sprintf("delete-through-depth-%d", n), src, "0 1\n"})
	}
	for _, n := range []int{0, 1, 4, 9} {
		// locals: each activation has its own array and scalar
		src := `function r(n, loc, sc) { loc[n] = 1; sc = sc + 1; if (n > 0) r(n - 1); return length(loc) * 10 + sc }
BEGIN { print r(` + fmt.Sprint(n) + `); print r(` + fmt.Sprint(n) + `) }
`
		ps = append(ps, probe{fmt.Sprintf("fresh-locals-%d", n), src, "11\n11\n"})
	}
	ps = append(ps,
		probe{"scalar-copy", "function f(s) { s = 9; return s }\nBEGIN { x = 1; y = f(x); print x, y }\n", "1 9\n"},
		probe{"untyped-global-becomes-array", "function f(a) { a[1] = 4 }\nBEGIN { f(g); f(g); print g[1], length(g) }\n", "4 1\n"},
		probe{"same-array-twice", "function f(a, b) { a[1] = 1; b[1] = b[1] + 1; return a[1] }\nBEGIN { print f(x, x), length(x) }\n", "2 1\n"},
		probe{"element-is-by-value", "function f(s) { s = 2 }\nBEGIN { x[1] = 1; f(x[1]); print x[1] }\n", "1\n"},
		probe{"local-array-to-callee", "function g(a) { a[1] = 7 }\nfunction f(loc) { g(loc); return loc[1] }\nBEGIN { print f(), f() }\n", "7 7\n"},
		probe{"recursion-shares-array", "function f(a, n) { if (n == 0) return; a[n] = n; f(a, n - 1) }\nBEGIN { f(x, 5); print length(x), x[5], x[1] }\n", "5 5 1\n"},
		probe{"split-into-param", "function f(a) { return split(\"p q r\", a) }\nBEGIN { n = f(x); print n, x[3] }\n", "3 r\n"},
		probe{"unused-forwarding-param", "function f1(A) {}\nfunction f2(x, A) { x[0] = 1; f1(a); if (D++ < 2) f2(a) }\nBEGIN { f2(g); print length(g), length(a) }\n", "1 1\n"},
		probe{"mutual-recursion-comment-example", `function f1(a) { if (0) f5(z1); f2(a) }
function f2(b) { if (0) f4(z2); f3(b) }
function f3(c) { if (0) f3(z3); f4(c) }
function f4(d) { if (0) f2(z4); f5(d) }
function f5(i) { if (0) f1(z5); i[1]=42 }
BEGIN { x[1]=3; f5(x); print x[1] }
`, "42\n"},
	)
	return ps
}

func semanticProbes(c *vh.Ctx) {
	for _, p := range buildProbes(c) {
		c.OracleCase()
		c.Hit("probe:" + strings.TrimRight(p.name, "0123456789-"))
		cs := c16Case{Shape: "probe:" + p.name, Src: p.src}
		r := parseSrc(p.src, nil)
		if r.panic_ != "" || !r.ok {
			c.Fail(vh.Failure{Kind: "oracle", What: "directed probe rejected or panicked", Case: cs, Got: r.msg + r.panic_, Want: "accepted"})
			continue
		}
		res := runProg(r.prog, nil)
		if res.Panic != "" || res.Err != "" || res.Out != p.want {
			c.Fail(vh.Failure{Kind: "oracle", What: "arrays by reference / scalars by value / fresh locals", Case: cs, Got: res.String(), Want: p.want})
		}
	}
}
