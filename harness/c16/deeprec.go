package main

// Deep-recursion dimension of the by-reference oracle: a function recursing 5…300 frames deep, every frame owning one or two local
// arrays (so that several hundred local arrays are alive at the deepest point and the VM's array table has been regrown inside
// calls), with writes into by-reference and global arrays — element assignment, split() (which replaces the whole array), delete of
// an element, delete of the whole array, sub() on an element — at the deepest level and at several levels on the way back. One frame
// on the way down hands its own local array to the deeper frames as their by-reference parameter `b` and inspects it after they return.
//
// The expectation comes from a direct simulation in Go of what the program means under "arrays are shared by reference, locals are
// fresh per call": the ops are applied, in program order, to Go maps standing for the arrays the parameters are bound to.

import (
	"fmt"
	"math/rand"
	"sort"
	"strings"

	"verifharness/vh"
)

type drOp struct {
	kind   string // assign split delelem delall sub
	target string // a b G1 G2
	k      int
}

type drProg struct {
	depth  int
	nloc   int
	sw     int // the frame (value of n) that passes its loc1 down as b; 0 = none
	deep   []drOp
	back   map[int][]drOp // by level n
	levels []int
}

var drKeys = []string{"k0", "k1", "k2", "k3", "1", "2", "3"}

func genDeepRec(r *rand.Rand) *drProg {
	depths := []int{5, 17, 60, 99, 100, 101, 130, 200, 300}
	pg := &drProg{depth: depths[r.Intn(len(depths))] + r.Intn(3), nloc: 1 + r.Intn(2), back: map[int][]drOp{}}
	if r.Intn(3) > 0 {
		pg.sw = 1 + r.Intn(pg.depth)
	}
	op := func() drOp {
		return drOp{kind: []string{"assign", "assign", "split", "split", "delelem", "delall", "sub"}[r.Intn(7)],
			target: []string{"a", "a", "b", "G1", "G2"}[r.Intn(5)], k: r.Intn(4)}
	}
	for k := 1 + r.Intn(4); k > 0; k-- {
		pg.deep = append(pg.deep, op())
	}
	for k := r.Intn(5); k > 0; k-- {
		lv := r.Intn(pg.depth + 1)
		if _, ok := pg.back[lv]; !ok {
			pg.levels = append(pg.levels, lv)
		}
		pg.back[lv] = append(pg.back[lv], op())
	}
	sort.Ints(pg.levels)
	return pg
}

func (o drOp) awk(tag string) string {
	key := fmt.Sprintf("\"k%d\"", o.k)
	switch o.kind {
	case "assign":
		return fmt.Sprintf("%s[%s] = \"v%d-%s\"", o.target, key, o.k, tag)
	case "split":
		return fmt.Sprintf("split(\"p%d-%s q%d r%d\", %s)", o.k, tag, o.k, o.k, o.target)
	case "delelem":
		return fmt.Sprintf("delete %s[%s]", o.target, key)
	case "delall":
		return fmt.Sprintf("delete %s", o.target)
	default:
		return fmt.Sprintf("sub(/v/, \"W\", %s[%s])", o.target, key)
	}
}

func (pg *drProg) src() string {
	var sb strings.Builder
	locs := "loc1"
	if pg.nloc == 2 {
		locs = "loc1, loc2"
	}
	fmt.Fprintf(&sb, "function rec(n, a, b,   %s, r) {\n  loc1[n] = n\n", locs)
	if pg.nloc == 2 {
		sb.WriteString("  loc2[\"x\"] = n; loc2[\"y\"] = n\n")
	}
	sb.WriteString("  if (n == 0) {\n")
	for _, o := range pg.deep {
		sb.WriteString("    " + o.awk("deep") + "\n")
	}
	sb.WriteString("  } else {\n")
	if pg.sw > 0 {
		fmt.Fprintf(&sb, "    if (n == %d) r = rec(n - 1, a, loc1); else r = rec(n - 1, a, b)\n", pg.sw)
	} else {
		sb.WriteString("    r = rec(n - 1, a, b)\n")
	}
	sb.WriteString("  }\n")
	for _, lv := range pg.levels {
		fmt.Fprintf(&sb, "  if (n == %d) {\n", lv)
		for _, o := range pg.back[lv] {
			sb.WriteString("    " + o.awk(fmt.Sprint("back", lv)) + "\n")
		}
		sb.WriteString("  }\n")
	}
	if pg.sw > 0 {
		fmt.Fprintf(&sb, "  if (n == %d) { printf \"own:\"; show(loc1) }\n", pg.sw)
	}
	if pg.nloc == 2 {
		sb.WriteString("  return r + length(loc2) - 1\n}\n")
	} else {
		sb.WriteString("  return r + 1\n}\n")
	}
	sb.WriteString("function show(arr,   i) {\n  printf \"%d\", length(arr)\n")
	for _, k := range drKeys {
		fmt.Fprintf(&sb, "  if (\"%s\" in arr) printf \" %s=%%s\", arr[\"%s\"]\n", k, k, k)
	}
	sb.WriteString("  printf \"\\n\"\n}\n")
	sb.WriteString("BEGIN {\n  A[\"k0\"] = \"va0\"; A[\"k1\"] = \"va1\"; B[\"k0\"] = \"vb0\"; G1[\"k2\"] = \"vg\"; G2[\"k3\"] = \"vh\"\n")
	fmt.Fprintf(&sb, "  print rec(%d, A, B)\n  printf \"A:\"; show(A); printf \"B:\"; show(B); printf \"G1:\"; show(G1); printf \"G2:\"; show(G2)\n}\n", pg.depth)
	return sb.String()
}

// expected simulates the program on Go maps.
func (pg *drProg) expected() string {
	A := map[string]string{"k0": "va0", "k1": "va1"}
	B := map[string]string{"k0": "vb0"}
	G1 := map[string]string{"k2": "vg"}
	G2 := map[string]string{"k3": "vh"}
	own := map[string]string{} // loc1 of frame sw
	if pg.sw > 0 {
		own[fmt.Sprint(pg.sw)] = fmt.Sprint(pg.sw)
	}
	// the array parameter b is bound to, seen from the frame with the given n
	bOf := func(n int) *map[string]string {
		if pg.sw > 0 && n < pg.sw {
			return &own
		}
		return &B
	}
	apply := func(o drOp, n int, tag string) {
		var t *map[string]string
		switch o.target {
		case "a":
			t = &A
		case "b":
			t = bOf(n)
		case "G1":
			t = &G1
		default:
			t = &G2
		}
		key := fmt.Sprintf("k%d", o.k)
		switch o.kind {
		case "assign":
			(*t)[key] = fmt.Sprintf("v%d-%s", o.k, tag)
		case "split":
			for k := range *t {
				delete(*t, k)
			}
			(*t)["1"], (*t)["2"], (*t)["3"] = fmt.Sprintf("p%d-%s", o.k, tag), fmt.Sprintf("q%d", o.k), fmt.Sprintf("r%d", o.k)
		case "delelem":
			delete(*t, key)
		case "delall":
			for k := range *t {
				delete(*t, k)
			}
		case "sub":
			(*t)[key] = strings.Replace((*t)[key], "v", "W", 1) // referencing the element creates it
		}
	}
	var out strings.Builder
	show := func(m map[string]string) {
		fmt.Fprintf(&out, "%d", len(m))
		for _, k := range drKeys {
			if v, ok := m[k]; ok {
				fmt.Fprintf(&out, " %s=%s", k, v)
			}
		}
		out.WriteString("\n")
	}
	for _, o := range pg.deep {
		apply(o, 0, "deep")
	}
	for n := 0; n <= pg.depth; n++ {
		for _, o := range pg.back[n] {
			apply(o, n, fmt.Sprint("back", n))
		}
		if pg.sw > 0 && n == pg.sw {
			out.WriteString("own:")
			show(own)
		}
	}
	fmt.Fprintf(&out, "%d\n", pg.depth+1)
	out.WriteString("A:")
	show(A)
	out.WriteString("B:")
	show(B)
	out.WriteString("G1:")
	show(G1)
	out.WriteString("G2:")
	show(G2)
	return out.String()
}

func deepRecOracle(c *vh.Ctx) {
	n := c.N(150, 1500)
	progs := make([]*drProg, n)
	for i := range progs {
		progs[i] = genDeepRec(c.Rng)
	}
	type outT struct {
		src, want string
		pr        parseResult
		res       vh.RunResult
	}
	outs := make([]outT, n)
	vh.Parallel(n, func(i int) {
		o := &outs[i]
		o.src, o.want = progs[i].src(), progs[i].expected()
		o.pr = parseSrc(o.src, nil)
		if o.pr.ok {
			o.res = runProg(o.pr.prog, nil)
		}
	})
	for i, pg := range progs {
		o := &outs[i]
		c.OracleCase()
		c.Eval(o.src, true)
		c.Hit(fmt.Sprintf("deeprec:depth:%d", bucket(pg.depth)))
		c.Hit(fmt.Sprintf("deeprec:locals-per-frame:%d", pg.nloc))
		for _, op := range pg.deep {
			c.Hit("deeprec:deep-op:" + op.kind)
		}
		cs := c16Case{Shape: "deeprec", Src: o.src}
		switch {
		case o.pr.panic_ != "" || !o.pr.ok:
			c.Fail(vh.Failure{Kind: "oracle", What: "deep-recursion program (consistently typed by construction) rejected or panicked", Case: cs, Got: o.pr.msg + o.pr.panic_, Want: "accepted"})
		case o.res.Panic != "" || o.res.Err != "":
			c.Fail(vh.Failure{Kind: "oracle", What: "accepted deep-recursion program failed at run time", Case: cs, Got: o.res.String()})
		case o.res.Out != o.want:
			c.Fail(vh.Failure{Kind: "oracle", What: "arrays by reference at depth: contents after deep recursion differ from the reference simulation", Case: cs, Got: o.res.Out, Want: o.want})
		}
	}
}
