package main

// Run-time side of typed calls at DEPTH and under STACK GROWTH ("accepted programs never fail at run time from scalar/array
// confusion … arrays passed to functions are shared by reference while scalars are copied").
//
// The VM keeps scalar parameters and locals of every activation on one value stack that starts with a fixed capacity and is
// re-allocated when an expression, an argument list or the nulls of a callee's locals no longer fit; local arrays live in a second
// table. Whatever the allocation does, an activation must read back from its own scalars exactly what it (and nobody else) wrote,
// its arrays must be the ones it was handed, and operands that are pending on the expression stack around a call must still be
// there when the callee comes back.
//
// A generated program is a chain of 1-3 functions F0 → F1 → … → F0 recursing on a depth counter `n`; every function has its own
// shape: 0-2 further scalar parameters, 0-2 array parameters (signature order mixed), 0-6 scalar locals (numbers and strings, one
// of them possibly a for-in iterator), 0-3 local arrays. A body checks that its locals are fresh, assigns locals from expressions
// whose operand stack is 0-12 deep, writes into arrays, reads a record into a local with getline, sums a local array with for-in,
// then — unless `n <= stop`, where it leaves by return / bare return / exit / next after more array writes — makes the nested call
// in one of many contexts (plain, inside right-nested arithmetic or concatenation with up to 12 pending operands, as an argument of
// other user calls, inside printf / sprintf argument lists, as part of a subscript, in a condition, inside a for-in loop over a
// local array, with assignments to locals among its own arguments, passing fewer arguments than the callee has parameters), assigns
// more locals from the result and REPORTS every scalar and the length / chosen elements of every array it can see.
// The pieces BEGIN, one action for every record (depth, stop and the way of leaving come from the record's fields) and END call F0
// with depths that sweep the call depths at which the value stack has to be re-allocated (initial capacity and maximum call depth
// are read from the interp sources the harness was built against; growth steps from the Go runtime the harness itself runs on)
// and random depths up to and beyond the maximum call depth. Every run starts a fresh interpreter.
//
// The expectation is computed by stacksim.go: a direct evaluator in Go of the generated description (not of AWK) in which every
// activation owns a Go slice of scalars, arrays are Go maps handed on by pointer, and leaving is a Go panic caught by the piece.

import (
	"fmt"
	"math/rand"
	"os"
	"path/filepath"
	"regexp"
	"sort"
	"strconv"
	"strings"

	"github.com/benhoyt/goawk/interp"

	"verifharness/vh"
)

type sgKind int8

const (
	sgNum sgKind = iota
	sgStr
)

const sgMod = 9973

type sgVar struct {
	sc byte // 'n' depth counter, 'P' scalar parameter, 'L' scalar local, 'G' global (0 gnum, 1 gstr, 2 r, 3 rs)
	j  int
}

type sgArrRef struct {
	sc byte // 'A' array parameter, 'L' local array, 'G' global array
	j  int
}

type sgArg struct {
	arr bool
	e   *sgE
	ar  sgArrRef
}

// expression of the description language
type sgE struct {
	op   string // c sc var add sub mulc mod len lens elem in cat substr sprintf call aux asg gt
	v, w int64
	s    string
	ref  sgVar
	arr  sgArrRef
	a    []*sgE
	fi   int // call: callee
	args []sgArg
}

type sgStmt struct {
	k     string // asg aset adel adelall split getl forin forcall expr print printf if
	ref   sgVar
	acc   sgVar
	arr   sgArrRef
	e     *sgE
	key   *sgE
	args  []*sgE
	f     string
	body  []*sgStmt
	els   []*sgStmt
	after *sgE
}

type sgSlot struct {
	arr bool
	j   int
}

type sgFn struct {
	idx       int
	pk        []sgKind
	nAP       int
	sig       []sgSlot
	lk        []sgKind
	iter      int
	nLA       int
	lsig      []sgSlot
	pre       []*sgStmt
	bottom    []*sgStmt
	bottomRet *sgE
	callSt    *sgStmt
	post      []*sgStmt
	report    []*sgStmt
	ret       *sgE
	ctx       string
	pending   int
	preDepth  int
	omit      int
}

func (f *sgFn) numScalars() int { return 1 + len(f.pk) + len(f.lk) }

// one call of F0 from a top-level piece
type sgTop struct {
	d, stop, how int
	form         int
	args         []sgArg
}

type sgProg struct {
	fns        []*sgFn
	begin, end []sgTop
	recForm    int
	recArgs    []sgArg
}

type sgLine struct{ d, stop, how int }

func sgInputText(ls []sgLine) string {
	var sb strings.Builder
	for i, l := range ls {
		fmt.Fprintf(&sb, "%d %d %d t%d\n", l.d, l.stop, l.how, i)
	}
	return sb.String()
}

// ---------- limits of the tree under test ----------

type sgLimits struct {
	stack    int   // initial capacity of the value stack
	maxDepth int   // maximum call depth
	bounds   []int // slot counts at which a re-allocation is due: as the Go runtime of this process grows a slice of 32-byte elements, and plain doublings
	measured []int // the former only
}

func sgReadLimits() sgLimits {
	repo := os.Getenv("VERIF_REPO")
	if repo == "" {
		repo = "/repo"
	}
	lim := sgLimits{}
	files, _ := filepath.Glob(filepath.Join(repo, "interp", "*.go"))
	reStack := regexp.MustCompile(`(?m)^\s*(?:const\s+)?(\w*[sS]tack\w*)\s*=\s*(\d+)\b`)
	reDepth := regexp.MustCompile(`(?m)^\s*(?:const\s+)?(\w*[cC]all[dD]epth\w*)\s*=\s*(\d+)\b`)
	for _, f := range files {
		if strings.HasSuffix(f, "_test.go") {
			continue
		}
		b, err := os.ReadFile(f)
		if err != nil {
			continue
		}
		for _, m := range reStack.FindAllStringSubmatch(string(b), -1) {
			if n, err := strconv.Atoi(m[2]); err == nil && n > 0 && n <= 1<<20 && lim.stack == 0 {
				lim.stack = n
			}
		}
		for _, m := range reDepth.FindAllStringSubmatch(string(b), -1) {
			if n, err := strconv.Atoi(m[2]); err == nil && n > 0 && n <= 1<<20 && lim.maxDepth == 0 {
				lim.maxDepth = n
			}
		}
	}
	if lim.stack == 0 {
		lim.stack = 100
	}
	if lim.maxDepth == 0 {
		lim.maxDepth = 1000
	}
	type cell struct {
		t uint8
		s string
		n float64
	}
	s := make([]cell, lim.stack)
	for len(lim.bounds) < 12 && cap(s) < 40000 {
		old := cap(s)
		s = s[:cap(s)]
		s = append(s, cell{})
		if cap(s) != old {
			lim.bounds = append(lim.bounds, old)
			lim.measured = append(lim.measured, old)
		}
	}
	// plain doublings as well: a different element size or growth policy moves the steps
	for b := lim.stack * 2; b < 40000; b *= 2 {
		lim.bounds = append(lim.bounds, b)
	}
	sort.Ints(lim.bounds)
	return lim
}

// ---------- generator ----------

type sgGen struct {
	r  *rand.Rand
	pg *sgProg
	fn *sgFn
}

func (g *sgGen) vars(kind sgKind, sib bool, excl map[sgVar]bool) []sgVar {
	var vs []sgVar
	f := g.fn
	if f != nil {
		if kind == sgNum {
			vs = append(vs, sgVar{'n', 0})
		}
		for j, k := range f.pk {
			if k == kind {
				vs = append(vs, sgVar{'P', j})
			}
		}
		for j, k := range f.lk {
			if k == kind && j != f.iter {
				vs = append(vs, sgVar{'L', j})
			}
		}
	}
	if !sib {
		if kind == sgNum {
			vs = append(vs, sgVar{'G', 0})
		} else {
			vs = append(vs, sgVar{'G', 1})
		}
	}
	var res []sgVar
	for _, v := range vs {
		if !excl[v] {
			res = append(res, v)
		}
	}
	return res
}

func sgC(v int64) *sgE { return &sgE{op: "c", v: v} }

func (g *sgGen) numLeaf(sib bool, excl map[sgVar]bool) *sgE {
	vs := g.vars(sgNum, sib, excl)
	if len(vs) == 0 || g.r.Intn(4) == 0 {
		return sgC(int64(g.r.Intn(10)))
	}
	v := &sgE{op: "var", ref: vs[g.r.Intn(len(vs))]}
	switch g.r.Intn(8) {
	case 0:
		return &sgE{op: "mulc", v: int64(2 + g.r.Intn(2)), a: []*sgE{v}}
	case 1:
		if ss := g.vars(sgStr, sib, excl); len(ss) > 0 {
			return &sgE{op: "lens", a: []*sgE{{op: "var", ref: ss[g.r.Intn(len(ss))]}}}
		}
	}
	return v
}

func (g *sgGen) arrs() []sgArrRef {
	var as []sgArrRef
	if g.fn != nil {
		for j := 0; j < g.fn.nAP; j++ {
			as = append(as, sgArrRef{'A', j})
		}
		for j := 0; j < g.fn.nLA; j++ {
			as = append(as, sgArrRef{'L', j})
		}
	}
	for j := 0; j < 3; j++ {
		as = append(as, sgArrRef{'G', j})
	}
	return as
}

// pickArr prefers the arrays of the activation over the globals
func (g *sgGen) pickArr() sgArrRef {
	as := g.arrs()
	if len(as) > 3 && g.r.Intn(5) > 0 {
		return as[g.r.Intn(len(as)-3)]
	}
	return as[g.r.Intn(len(as))]
}

// key: a subscript from a small domain; only scalars of the activation in it
func (g *sgGen) key(inner *sgE, excl map[sgVar]bool) *sgE {
	if inner == nil {
		inner = g.numLeaf(true, excl)
	}
	m := &sgE{op: "mod", v: 7, a: []*sgE{inner}}
	if g.r.Intn(2) == 0 {
		return &sgE{op: "cat", a: []*sgE{{op: "sc", s: "k"}, m}}
	}
	return m
}

func (g *sgGen) arrLeaf(excl map[sgVar]bool) *sgE {
	ar := g.pickArr()
	switch g.r.Intn(3) {
	case 0:
		return &sgE{op: "len", arr: ar}
	case 1:
		return &sgE{op: "elem", arr: ar, a: []*sgE{g.key(nil, excl)}}
	default:
		return &sgE{op: "in", arr: ar, a: []*sgE{g.key(nil, excl)}}
	}
}

// numChain wraps `inner` (or a leaf) in t levels of + and -; at most levels the other operand comes first and stays pending on
// the expression stack while the rest is evaluated. Returns the expression and how many operands are pending around `inner`.
func (g *sgGen) numChain(t int, sib bool, inner *sgE, excl map[sgVar]bool) (*sgE, int) {
	e := inner
	if e == nil {
		e = g.numLeaf(sib, excl)
	}
	pend := 0
	for i := 0; i < t; i++ {
		l := g.numLeaf(sib, excl)
		switch g.r.Intn(8) {
		case 0:
			e = &sgE{op: "add", a: []*sgE{e, l}}
		case 1:
			e = &sgE{op: "sub", a: []*sgE{l, e}}
			pend++
		default:
			e = &sgE{op: "add", a: []*sgE{l, e}}
			pend++
		}
	}
	return e, pend
}

func (g *sgGen) strLeaf(sib bool, excl map[sgVar]bool) *sgE {
	switch g.r.Intn(4) {
	case 0:
		return &sgE{op: "sc", s: string(rune('a' + g.r.Intn(26)))}
	case 1:
		return g.numLeaf(sib, excl)
	}
	ss := g.vars(sgStr, sib, excl)
	if len(ss) == 0 {
		return &sgE{op: "sc", s: "q" + string(rune('a'+g.r.Intn(26)))}
	}
	return &sgE{op: "substr", v: int64(1 + g.r.Intn(2)), w: int64(3 + g.r.Intn(6)), a: []*sgE{{op: "var", ref: ss[g.r.Intn(len(ss))]}}}
}

func (g *sgGen) strChain(t int, sib bool, inner *sgE, excl map[sgVar]bool) (*sgE, int) {
	e := inner
	if e == nil {
		e = g.strLeaf(sib, excl)
	}
	pend := 0
	for i := 0; i < t; i++ {
		l := g.strLeaf(sib, excl)
		if g.r.Intn(6) == 0 {
			e = &sgE{op: "cat", a: []*sgE{e, l}}
		} else {
			e = &sgE{op: "cat", a: []*sgE{l, e}}
			pend++
		}
	}
	if e.op != "cat" && e.op != "sc" && e.op != "substr" { // make sure the value is a string
		e = &sgE{op: "cat", a: []*sgE{{op: "sc", s: "s"}, e}}
	}
	return e, pend
}

func sgLeaves(e *sgE) int {
	if e == nil {
		return 0
	}
	if len(e.a) == 0 {
		return 1
	}
	n := 0
	for _, a := range e.a {
		n += sgLeaves(a)
	}
	return n
}

func sgWrap(e *sgE) *sgE { return &sgE{op: "mod", v: sgMod, a: []*sgE{e}} }

func (g *sgGen) depthT() int {
	switch g.r.Intn(6) {
	case 0:
		return 0
	case 1, 2:
		return 1 + g.r.Intn(3)
	case 3, 4:
		return 2 + g.r.Intn(6)
	default:
		return 6 + g.r.Intn(7)
	}
}

// valueFor: an expression of the variable's kind; arrOK allows one array leaf (never next to a call or in an array assignment)
func (g *sgGen) valueFor(kind sgKind, sib, arrOK bool, excl map[sgVar]bool) (*sgE, int) {
	t := g.depthT()
	if kind == sgStr {
		return g.strChain(t, sib, nil, excl)
	}
	var inner *sgE
	if arrOK && g.r.Intn(3) == 0 {
		inner = g.arrLeaf(excl)
	}
	e, p := g.numChain(t, sib, inner, excl)
	if sgLeaves(e) > 2 || g.r.Intn(3) == 0 {
		e = sgWrap(e)
	}
	return e, p
}

func (g *sgGen) kindOf(v sgVar) sgKind {
	switch v.sc {
	case 'n':
		return sgNum
	case 'P':
		return g.fn.pk[v.j]
	case 'L':
		return g.fn.lk[v.j]
	}
	if v.j == 1 || v.j == 3 {
		return sgStr
	}
	return sgNum
}

// assignable scalars of the activation (never n: it drives the recursion)
func (g *sgGen) targets(kind sgKind, excl map[sgVar]bool) []sgVar {
	var vs []sgVar
	for _, v := range g.vars(kind, true, excl) {
		if v.sc != 'n' {
			vs = append(vs, v)
		}
	}
	return vs
}

func (g *sgGen) plainStmt(atBottom bool) *sgStmt {
	f := g.fn
	for try := 0; try < 8; try++ {
		switch g.r.Intn(12) {
		case 0, 1, 2, 3, 4:
			kind := sgKind(g.r.Intn(2))
			ts := g.targets(kind, nil)
			if len(ts) == 0 {
				continue
			}
			e, p := g.valueFor(kind, false, true, nil)
			if p > f.preDepth {
				f.preDepth = p
			}
			return &sgStmt{k: "asg", ref: ts[g.r.Intn(len(ts))], e: e}
		case 5, 6, 7:
			e, _ := g.numChain(g.r.Intn(4), true, nil, nil)
			return &sgStmt{k: "aset", arr: g.pickArr(), key: g.key(nil, nil), e: sgWrap(e)}
		case 8:
			if g.r.Intn(3) == 0 {
				return &sgStmt{k: "adelall", arr: g.pickArr()}
			}
			return &sgStmt{k: "adel", arr: g.pickArr(), key: g.key(nil, nil)}
		case 9:
			ts := g.targets(sgStr, nil)
			if len(ts) == 0 || atBottom {
				continue
			}
			return &sgStmt{k: "getl", ref: ts[g.r.Intn(len(ts))]}
		case 10:
			if f.iter < 0 {
				continue
			}
			acc := sgVar{'G', 0}
			if ts := g.targets(sgNum, nil); len(ts) > 0 {
				acc = ts[g.r.Intn(len(ts))]
			}
			return &sgStmt{k: "forin", arr: g.pickArr(), ref: sgVar{'L', f.iter}, acc: acc, after: g.iterAfter()}
		default:
			if g.r.Intn(2) == 0 {
				e, _ := g.valueFor(sgNum, false, false, nil)
				return &sgStmt{k: "asg", ref: sgVar{'G', 0}, e: sgWrap(e)}
			}
			return &sgStmt{k: "split", arr: g.pickArr(), f: []string{"3 1 4", "15 9 2 6", "5", ""}[g.r.Intn(4)]}
		}
	}
	e, _ := g.numChain(1, true, nil, nil)
	return &sgStmt{k: "aset", arr: g.pickArr(), key: g.key(nil, nil), e: sgWrap(e)}
}

func (g *sgGen) iterAfter() *sgE {
	if g.fn.lk[g.fn.iter] == sgStr {
		return &sgE{op: "sc", s: "e"}
	}
	return sgC(int64(g.r.Intn(5)))
}

// callArgs builds the argument list for callee c as seen from the current scope (g.fn == nil: a top-level piece).
func (g *sgGen) callArgs(c *sgFn, excl map[sgVar]bool, sideOK bool, omit int) ([]sgArg, bool) {
	var args []sgArg
	side := false
	slots := c.sig[:len(c.sig)-omit]
	// locals assigned among the arguments are chosen first: nothing else in the statement refers to them
	sideT := map[int]sgVar{}
	if sideOK && g.fn != nil {
		for i, sl := range slots {
			if sl.arr || g.r.Intn(2) == 0 {
				continue
			}
			if ts := g.targets(c.pk[sl.j], excl); len(ts) > 0 {
				t := ts[g.r.Intn(len(ts))]
				sideT[i] = t
				excl[t] = true
			}
		}
	}
	for i, sl := range slots {
		if sl.arr {
			args = append(args, sgArg{arr: true, ar: g.pickArr()})
			continue
		}
		kind := c.pk[sl.j]
		var e *sgE
		if g.fn == nil {
			if kind == sgStr {
				e = &sgE{op: "sc", s: "T" + string(rune('a'+g.r.Intn(26)))}
			} else {
				e = sgC(int64(g.r.Intn(50)))
			}
		} else {
			e, _ = g.valueFor(kind, false, false, excl)
			if kind == sgNum && e.op != "mod" {
				e = sgWrap(e)
			}
			if t, ok := sideT[i]; ok {
				e = &sgE{op: "asg", ref: t, a: []*sgE{e}}
				side = true
			}
		}
		args = append(args, sgArg{e: e})
	}
	return args, side
}

var sgCtxs = []string{"asg", "asg", "arith", "arith", "arith", "cat", "cat", "aux", "aux", "printf", "sprintf", "stmt", "idx", "cond", "forcall", "argside", "argside"}

func (g *sgGen) pendT() int {
	switch g.r.Intn(5) {
	case 0:
		return 1
	case 1, 2:
		return 1 + g.r.Intn(4)
	default:
		return 3 + g.r.Intn(10)
	}
}

// callStmt: the statement that contains the nested call. Operands next to the call are scalars of the activation only (the
// callee cannot touch them, so the order of evaluation is immaterial); a local assigned among the arguments is referenced
// nowhere else in the statement.
func (g *sgGen) callStmt(c *sgFn, ctx string) *sgStmt {
	f := g.fn
	excl := map[sgVar]bool{}
	// the target of the statement first, so that argument side effects avoid it
	var tn, ts sgVar
	if t := g.targets(sgNum, nil); len(t) > 0 && g.r.Intn(5) > 0 {
		tn = t[g.r.Intn(len(t))]
	} else {
		tn = sgVar{'G', 2}
	}
	if t := g.targets(sgStr, nil); len(t) > 0 && g.r.Intn(5) > 0 {
		ts = t[g.r.Intn(len(t))]
	} else {
		ts = sgVar{'G', 3}
	}
	excl[tn], excl[ts] = true, true
	narg, _ := g.numChain(0, true, &sgE{op: "sub", a: []*sgE{{op: "var", ref: sgVar{'n', 0}}, sgC(1)}}, nil)
	omit := 0
	if g.r.Intn(5) == 0 && len(c.sig) > 0 {
		omit = 1 + g.r.Intn(len(c.sig))
	}
	f.omit = omit
	args, _ := g.callArgs(c, excl, ctx == "argside", omit)
	call := &sgE{op: "call", fi: c.idx, a: []*sgE{narg}, args: args}
	delete(excl, tn)
	delete(excl, ts)
	// from here on `excl` = the locals assigned among the arguments
	f.ctx = ctx
	switch ctx {
	case "asg", "argside":
		return &sgStmt{k: "asg", ref: tn, e: call}
	case "arith":
		e, p := g.numChain(g.pendT(), true, call, excl)
		f.pending = p
		return &sgStmt{k: "asg", ref: tn, e: sgWrap(e)}
	case "cat":
		e, p := g.strChain(g.pendT(), true, call, excl)
		f.pending = p
		return &sgStmt{k: "asg", ref: ts, e: e}
	case "aux":
		e := call
		p := 0
		for lv := 1 + g.r.Intn(3); lv > 0; lv-- {
			switch g.r.Intn(4) {
			case 0:
				e = &sgE{op: "aux", s: "A1", a: []*sgE{e}}
			case 1:
				e = &sgE{op: "aux", s: "A2", a: []*sgE{g.numLeaf(true, excl), e}}
				p++
			default:
				e = &sgE{op: "aux", s: "A3", a: []*sgE{g.numLeaf(true, excl), e, g.numLeaf(true, excl)}}
				p++
			}
		}
		f.pending = p
		return &sgStmt{k: "asg", ref: tn, e: e}
	case "printf":
		before, after := g.r.Intn(5), g.r.Intn(3)
		st := &sgStmt{k: "printf"}
		var fm []string
		for i := 0; i < before; i++ {
			st.args = append(st.args, g.strLeaf(true, excl))
			fm = append(fm, "%s")
		}
		st.args = append(st.args, call)
		fm = append(fm, "%d")
		for i := 0; i < after; i++ {
			st.args = append(st.args, g.strLeaf(true, excl))
			fm = append(fm, "%s")
		}
		st.f = "pf " + strings.Join(fm, "|") + "\\n"
		f.pending = before + 1
		return st
	case "sprintf":
		before := g.r.Intn(5)
		e := &sgE{op: "sprintf"}
		var fm []string
		for i := 0; i < before; i++ {
			e.a = append(e.a, g.strLeaf(true, excl))
			fm = append(fm, "%s")
		}
		e.a = append(e.a, call)
		fm = append(fm, "%d")
		e.a = append(e.a, g.strLeaf(true, excl))
		fm = append(fm, "%s")
		e.s = strings.Join(fm, ":")
		f.pending = before + 1
		return &sgStmt{k: "asg", ref: ts, e: e}
	case "stmt":
		return &sgStmt{k: "expr", e: call}
	case "idx":
		rhs, _ := g.numChain(g.r.Intn(3), true, nil, excl)
		f.pending = 1
		return &sgStmt{k: "aset", arr: g.pickArr(), key: g.key(call, excl), e: sgWrap(rhs)}
	case "cond":
		l := g.numLeaf(true, excl)
		return &sgStmt{k: "if", e: &sgE{op: "gt", a: []*sgE{call, l}},
			body: []*sgStmt{{k: "asg", ref: tn, e: sgC(1)}}, els: []*sgStmt{{k: "asg", ref: tn, e: sgC(2)}}}
	default: // forcall
		if f.iter < 0 || f.nLA == 0 {
			return g.callStmt(c, "arith")
		}
		inner := g.callStmt(c, []string{"asg", "arith", "cat"}[g.r.Intn(3)])
		f.ctx = "forcall"
		la := sgArrRef{'L', g.r.Intn(f.nLA)}
		if g.r.Intn(8) > 0 { // mostly non-empty, so that the recursion goes on
			fill, _ := g.numChain(1, true, nil, nil)
			f.pre = append(f.pre, &sgStmt{k: "aset", arr: la, key: g.key(nil, nil), e: sgWrap(fill)})
		}
		return &sgStmt{k: "forcall", arr: la, ref: sgVar{'L', f.iter}, body: []*sgStmt{inner}, after: g.iterAfter()}
	}
}

func shuffleSlots(r *rand.Rand, nScal, nArr int) []sgSlot {
	var s []sgSlot
	for j := 0; j < nScal; j++ {
		s = append(s, sgSlot{false, j})
	}
	for j := 0; j < nArr; j++ {
		s = append(s, sgSlot{true, j})
	}
	switch r.Intn(3) {
	case 0: // scalars first
	case 1: // arrays first
		s = append(s[nScal:], s[:nScal]...)
	default:
		r.Shuffle(len(s), func(a, b int) { s[a], s[b] = s[b], s[a] })
	}
	return s
}

func genStackGrow(r *rand.Rand, lim sgLimits, thorough bool) *sgProg {
	pg := &sgProg{}
	g := &sgGen{r: r, pg: pg}
	k := 1 + r.Intn(3)
	for i := 0; i < k; i++ {
		f := &sgFn{idx: i, iter: -1}
		for j := r.Intn(3); j > 0; j-- {
			f.pk = append(f.pk, sgKind(r.Intn(2)))
		}
		f.nAP = r.Intn(3)
		nl := []int{0, 1, 1, 2, 2, 2, 3, 4, 5, 6}[r.Intn(10)]
		for j := 0; j < nl; j++ {
			f.lk = append(f.lk, sgKind(r.Intn(2)))
		}
		if nl > 0 && r.Intn(3) == 0 {
			f.iter = r.Intn(nl)
		}
		f.nLA = []int{0, 0, 1, 1, 2, 3}[r.Intn(6)]
		f.sig = shuffleSlots(r, len(f.pk), f.nAP)
		f.lsig = shuffleSlots(r, len(f.lk), f.nLA)
		pg.fns = append(pg.fns, f)
	}
	for i, f := range pg.fns {
		g.fn = f
		c := pg.fns[(i+1)%k]
		// at least one local that is assigned before and read after the nested call, when there is a local at all
		for j := []int{0, 1, 1, 2, 2, 3, 4, 5}[r.Intn(8)]; j > 0; j-- {
			f.pre = append(f.pre, g.plainStmt(false))
		}
		if ts := g.targets(sgKind(r.Intn(2)), nil); len(ts) > 0 {
			t := ts[r.Intn(len(ts))]
			e, p := g.valueFor(g.kindOf(t), false, true, nil)
			if p > f.preDepth {
				f.preDepth = p
			}
			f.pre = append(f.pre, &sgStmt{k: "asg", ref: t, e: e})
		}
		for j := r.Intn(3); j > 0; j-- {
			f.bottom = append(f.bottom, g.plainStmt(true))
		}
		e, _ := g.numChain(r.Intn(3), true, nil, nil)
		f.bottomRet = sgWrap(e)
		f.callSt = g.callStmt(c, sgCtxs[r.Intn(len(sgCtxs))])
		for j := r.Intn(3); j > 0; j-- {
			f.post = append(f.post, g.plainStmt(false))
		}
		// report: elements one statement each (a reference creates the element), then all scalars and lengths
		for j := r.Intn(3); j > 0; j-- {
			f.report = append(f.report, &sgStmt{k: "print", args: []*sgE{{op: "sc", s: "E"}, {op: "elem", arr: g.pickArr(), a: []*sgE{g.key(nil, nil)}}}})
		}
		checksum := r.Intn(4) == 0
		rep := &sgStmt{k: "print", args: []*sgE{{op: "sc", s: fmt.Sprintf("F%d", i)}, {op: "var", ref: sgVar{'n', 0}}}}
		sum := &sgE{op: "var", ref: sgVar{'G', 2}}
		for j := range f.pk {
			rep.args = append(rep.args, &sgE{op: "var", ref: sgVar{'P', j}})
		}
		for j := range f.lk {
			if j == f.iter {
				continue
			}
			v := &sgE{op: "var", ref: sgVar{'L', j}}
			rep.args = append(rep.args, v)
			if f.lk[j] == sgNum {
				sum = &sgE{op: "add", a: []*sgE{sum, v}}
			} else {
				sum = &sgE{op: "add", a: []*sgE{sum, {op: "lens", a: []*sgE{v}}}}
			}
		}
		for j := 0; j < f.nAP; j++ {
			rep.args = append(rep.args, &sgE{op: "len", arr: sgArrRef{'A', j}})
		}
		for j := 0; j < f.nLA; j++ {
			rep.args = append(rep.args, &sgE{op: "len", arr: sgArrRef{'L', j}})
		}
		if !checksum {
			f.report = append(f.report, rep)
			e, _ := g.numChain(r.Intn(3), true, nil, nil)
			f.ret = sgWrap(e)
		} else {
			f.ret = sgWrap(sum)
		}
	}
	g.fn = nil
	f0 := pg.fns[0]
	maxD := lim.maxDepth * 11 / 20
	if thorough {
		maxD = lim.maxDepth - 3
	}
	// average stack footprint of one level of the chain
	foot := 0
	for _, f := range pg.fns {
		foot += f.numScalars() + f.pending
	}
	footAvg := float64(foot) / float64(len(pg.fns))
	depth := func() int {
		switch r.Intn(10) {
		case 0:
			return r.Intn(12)
		case 1, 2, 3, 4, 5:
			b := lim.bounds[r.Intn(len(lim.bounds))]
			if r.Intn(3) > 0 { // the first re-allocations are reached by every tier
				b = lim.bounds[r.Intn(min(3, len(lim.bounds)))]
			}
			d := int(float64(b)/footAvg) + r.Intn(9) - 4
			if d < 1 {
				d = 1
			}
			if d > maxD {
				d = maxD - r.Intn(4)
			}
			return d
		case 6:
			if thorough || r.Intn(3) == 0 {
				return lim.maxDepth - 6 + r.Intn(10) // around the call-depth limit
			}
			return 1 + r.Intn(maxD)
		default:
			return 1 + r.Intn(maxD)
		}
	}
	top := func(hows []int) sgTop {
		d := depth()
		t := sgTop{d: d, how: hows[r.Intn(len(hows))], form: r.Intn(4)}
		if r.Intn(4) == 0 {
			t.stop = r.Intn(d + 1)
		}
		t.args, _ = g.callArgs(f0, map[sgVar]bool{}, false, 0)
		if r.Intn(6) == 0 && len(t.args) > 0 {
			t.args = t.args[:r.Intn(len(t.args))]
		}
		return t
	}
	for j := []int{0, 1, 1, 2}[r.Intn(4)]; j > 0; j-- {
		pg.begin = append(pg.begin, top([]int{0, 0, 0, 0, 0, 0, 3, 3, 1}))
	}
	for j := []int{0, 1, 1, 2}[r.Intn(4)]; j > 0; j-- {
		pg.end = append(pg.end, top([]int{0, 0, 0, 0, 0, 0, 3, 3, 1}))
	}
	pg.recForm = r.Intn(4)
	pg.recArgs, _ = g.callArgs(f0, map[sgVar]bool{}, false, 0)
	return pg
}

// sgGenInput: the records; the first deep call of a run is what re-allocates, so the first record sweeps the depths
func sgGenInput(r *rand.Rand, pg *sgProg, lim sgLimits, thorough bool, sweep int) []sgLine {
	maxD := lim.maxDepth * 11 / 20
	if thorough {
		maxD = lim.maxDepth - 3
	}
	foot := 0
	for _, f := range pg.fns {
		foot += f.numScalars() + f.pending
	}
	footAvg := float64(foot) / float64(len(pg.fns))
	n := []int{0, 1, 2, 3, 5, 8}[r.Intn(6)]
	if len(pg.begin)+len(pg.end) == 0 && n == 0 {
		n = 2
	}
	var ls []sgLine
	// one run in six: deep calls that are mostly abandoned (next, sometimes exit), then deep calls again
	leaveHeavy := r.Intn(6) == 0
	if leaveHeavy {
		n = 3 + r.Intn(5)
	}
	for i := 0; i < n; i++ {
		var d int
		switch {
		case leaveHeavy:
			d = maxD/2 + r.Intn(maxD/2+1)
		case i == 0:
			b := lim.bounds[r.Intn(min(3, len(lim.bounds)))]
			if thorough && r.Intn(2) == 0 {
				b = lim.bounds[r.Intn(len(lim.bounds))]
			}
			d = int(float64(b)/footAvg) - 3 + sweep
		case r.Intn(3) == 0:
			d = r.Intn(10)
		default:
			d = 1 + r.Intn(maxD)
		}
		if d < 0 {
			d = 0
		}
		if d > maxD {
			d = maxD - r.Intn(5)
		}
		l := sgLine{d: d, how: []int{0, 0, 0, 0, 0, 1, 2, 2, 2, 3, 3, 0}[r.Intn(12)]}
		if leaveHeavy {
			l.how = []int{2, 2, 2, 2, 0, 3, 2, 1}[r.Intn(8)]
			if i == n-1 {
				l.how = 0
			}
		}
		if r.Intn(4) == 0 {
			l.stop = r.Intn(d + 1)
		}
		ls = append(ls, l)
	}
	// lines that only getline will see (or that become shallow records)
	for j := r.Intn(4); j > 0; j-- {
		ls = append(ls, sgLine{d: r.Intn(6), how: []int{0, 2, 3}[r.Intn(3)]})
	}
	return ls
}

// ---------- AWK text ----------

func (v sgVar) name() string {
	switch v.sc {
	case 'n':
		return "n"
	case 'P':
		return fmt.Sprintf("p%d", v.j)
	case 'L':
		return fmt.Sprintf("l%d", v.j)
	}
	return []string{"gnum", "gstr", "r", "rs"}[v.j]
}

func (a sgArrRef) name() string {
	switch a.sc {
	case 'A':
		return fmt.Sprintf("ap%d", a.j)
	case 'L':
		return fmt.Sprintf("la%d", a.j)
	}
	return fmt.Sprintf("GA%d", a.j)
}

func sgArgsAwk(first string, args []sgArg) string {
	parts := []string{}
	if first != "" {
		parts = append(parts, first)
	}
	for _, a := range args {
		if a.arr {
			parts = append(parts, a.ar.name())
		} else {
			parts = append(parts, a.e.awk())
		}
	}
	return strings.Join(parts, ", ")
}

func (e *sgE) awk() string {
	switch e.op {
	case "c":
		return fmt.Sprint(e.v)
	case "sc":
		return strconv.Quote(e.s)
	case "var":
		return e.ref.name()
	case "add":
		return "(" + e.a[0].awk() + " + " + e.a[1].awk() + ")"
	case "sub":
		return "(" + e.a[0].awk() + " - " + e.a[1].awk() + ")"
	case "gt":
		return "(" + e.a[0].awk() + " > " + e.a[1].awk() + ")"
	case "mulc":
		return "(" + e.a[0].awk() + " * " + fmt.Sprint(e.v) + ")"
	case "mod":
		return "((" + e.a[0].awk() + ") % " + fmt.Sprint(e.v) + ")"
	case "len":
		return "length(" + e.arr.name() + ")"
	case "lens":
		return "length(" + e.a[0].awk() + ")"
	case "elem":
		return e.arr.name() + "[" + e.a[0].awk() + "]"
	case "in":
		return "((" + e.a[0].awk() + ") in " + e.arr.name() + ")"
	case "cat":
		return "(" + e.a[0].awk() + " " + e.a[1].awk() + ")"
	case "substr":
		return fmt.Sprintf("substr(%s, %d, %d)", e.a[0].awk(), e.v, e.w)
	case "sprintf":
		var as []string
		for _, a := range e.a {
			as = append(as, a.awk())
		}
		return "sprintf(" + strconv.Quote(e.s) + ", " + strings.Join(as, ", ") + ")"
	case "call":
		return fmt.Sprintf("F%d(%s)", e.fi, sgArgsAwk(e.a[0].awk(), e.args))
	case "aux":
		var as []string
		for _, a := range e.a {
			as = append(as, a.awk())
		}
		return e.s + "(" + strings.Join(as, ", ") + ")"
	case "asg":
		return "(" + e.ref.name() + " = " + e.a[0].awk() + ")"
	}
	panic("sgE.awk: " + e.op)
}

func (s *sgStmt) awk(ind string) string {
	switch s.k {
	case "asg":
		return ind + s.ref.name() + " = " + s.e.awk() + "\n"
	case "aset":
		return ind + s.arr.name() + "[" + s.key.awk() + "] = " + s.e.awk() + "\n"
	case "adel":
		return ind + "delete " + s.arr.name() + "[" + s.key.awk() + "]\n"
	case "adelall":
		return ind + "delete " + s.arr.name() + "\n"
	case "split":
		return ind + "split(" + strconv.Quote(s.f) + ", " + s.arr.name() + ")\n"
	case "getl":
		return ind + "getline " + s.ref.name() + "\n"
	case "forin":
		it, acc, ar := s.ref.name(), s.acc.name(), s.arr.name()
		return fmt.Sprintf("%s%s = 0; for (%s in %s) %s += %s[%s]; %s = ((%s) %% %d); %s = %s\n", ind, acc, it, ar, acc, ar, it, acc, acc, sgMod, it, s.after.awk())
	case "forcall":
		it := s.ref.name()
		return fmt.Sprintf("%sfor (%s in %s) {\n%s%s  break\n%s}\n%s%s = %s\n", ind, it, s.arr.name(), s.body[0].awk(ind+"  "), ind, ind, ind, it, s.after.awk())
	case "expr":
		return ind + s.e.awk() + "\n"
	case "print":
		var as []string
		for _, a := range s.args {
			as = append(as, a.awk())
		}
		return ind + "print " + strings.Join(as, ", ") + "\n"
	case "printf":
		var as []string
		for _, a := range s.args {
			as = append(as, a.awk())
		}
		return ind + "printf \"" + s.f + "\", " + strings.Join(as, ", ") + "\n"
	case "if":
		return ind + "if " + s.e.awk() + " {\n" + s.body[0].awk(ind+"  ") + ind + "} else {\n" + s.els[0].awk(ind+"  ") + ind + "}\n"
	}
	panic("sgStmt.awk: " + s.k)
}

func (pg *sgProg) topAwk(form int, d, args string, f0 *sgFn) string {
	call := "F0(" + d
	if args != "" {
		call += ", " + args
	}
	call += ")"
	switch form {
	case 0:
		return "r = " + call
	case 1:
		return "r = (3 + (4 + (5 + " + call + ")))"
	case 2:
		return "printf \"tp %d %s\\n\", " + call + ", \"t\""
	default:
		return "rs = (\"a\" (\"b\" " + call + "))"
	}
}

func (pg *sgProg) src() string {
	var sb strings.Builder
	for i, f := range pg.fns {
		names := []string{"n"}
		for _, sl := range f.sig {
			if sl.arr {
				names = append(names, fmt.Sprintf("ap%d", sl.j))
			} else {
				names = append(names, fmt.Sprintf("p%d", sl.j))
			}
		}
		sig := strings.Join(names, ", ")
		var locs []string
		for _, sl := range f.lsig {
			if sl.arr {
				locs = append(locs, fmt.Sprintf("la%d", sl.j))
			} else {
				locs = append(locs, fmt.Sprintf("l%d", sl.j))
			}
		}
		if len(locs) > 0 {
			sig += ",   " + strings.Join(locs, ", ")
		}
		fmt.Fprintf(&sb, "function F%d(%s) {\n", i, sig)
		// freshness of the locals, and a direct array use of every array of the activation
		var conds []string
		for j := range f.lk {
			conds = append(conds, fmt.Sprintf("l%d == \"\" && l%d == 0", j, j))
		}
		for j := 0; j < f.nLA; j++ {
			conds = append(conds, fmt.Sprintf("length(la%d) == 0 && !(\"q\" in la%d)", j, j))
		}
		for j := 0; j < f.nAP; j++ {
			conds = append(conds, fmt.Sprintf("!(\"q\" in ap%d)", j))
		}
		if len(conds) > 0 {
			fmt.Fprintf(&sb, "  if (!(%s)) print \"STALE\", \"F%d\", n\n", strings.Join(conds, " && "), i)
		}
		for _, s := range f.pre {
			sb.WriteString(s.awk("  "))
		}
		sb.WriteString("  if (n <= stop) {\n")
		for _, s := range f.bottom {
			sb.WriteString(s.awk("    "))
		}
		fmt.Fprintf(&sb, "    if (how == 1) exit 3\n    if (how == 2) next\n    if (how == 3) return\n    return %s\n  }\n", f.bottomRet.awk())
		sb.WriteString(f.callSt.awk("  "))
		for _, s := range f.post {
			sb.WriteString(s.awk("  "))
		}
		for _, s := range f.report {
			sb.WriteString(s.awk("  "))
		}
		fmt.Fprintf(&sb, "  return %s\n}\n", f.ret.awk())
	}
	sb.WriteString("function A1(a) { return a }\nfunction A2(a, b) { return b }\nfunction A3(a, b, c) { return (a + 2 * b + 3 * c) % 9973 }\n")
	sb.WriteString("function da(a,   i) {\n  printf \" [%d\", length(a)\n  for (i = -6; i <= 6; i++) {\n    if (i in a) printf \" %d=%s\", i, a[i]\n" +
		"    if ((\"k\" i) in a) printf \" k%d=%s\", i, a[\"k\" i]\n  }\n  printf \"]\"\n}\n")
	sb.WriteString("function dump(tag) { printf \"D %s %s %s %s %s\", tag, gnum, gstr, r, rs; da(GA0); da(GA1); da(GA2); printf \"\\n\" }\n")
	f0 := pg.fns[0]
	piece := func(ts []sgTop, tag string) {
		for i, t := range ts {
			fmt.Fprintf(&sb, "  stop = %d; how = %d\n  %s\n  dump(\"%s%d\")\n", t.stop, t.how, pg.topAwk(t.form, fmt.Sprint(t.d), sgArgsAwk("", t.args), f0), tag, i)
		}
	}
	sb.WriteString("BEGIN {\n  GA0[\"k1\"] = 11; GA1[2] = 22\n")
	piece(pg.begin, "b")
	sb.WriteString("}\n")
	fmt.Fprintf(&sb, "{\n  stop = $2 + 0; how = $3 + 0; tag = $4\n  %s\n  dump(\"r\" tag)\n}\n", pg.topAwk(pg.recForm, "$1 + 0", sgArgsAwk("", pg.recArgs), f0))
	sb.WriteString("END {\n")
	piece(pg.end, "e")
	sb.WriteString("  dump(\"end\")\n}\n")
	return sb.String()
}

// ---------- oracle ----------

func sgFirstDiff(got, want string) string {
	g, w := strings.Split(got, "\n"), strings.Split(want, "\n")
	for i := 0; i < len(g) || i < len(w); i++ {
		var a, b string
		if i < len(g) {
			a = g[i]
		} else {
			a = "<no line>"
		}
		if i < len(w) {
			b = w[i]
		} else {
			b = "<no line>"
		}
		if a != b {
			return fmt.Sprintf("first difference at output line %d of %d/%d: got %q want %q", i+1, len(g), len(w), a, b)
		}
	}
	return "same"
}

func sgErrKind(err string) string {
	switch {
	case err == "":
		return ""
	case strings.Contains(err, "maximum call depth"):
		return "deep"
	}
	return "other:" + err
}

func stackGrowOracle(c *vh.Ctx) {
	lim := sgReadLimits()
	c.Note(fmt.Sprintf("stackgrow: value stack starts at %d slots, maximum call depth %d (read from interp/*.go); re-allocation steps %v", lim.stack, lim.maxDepth, lim.bounds))
	nProg := c.N(180, 2400)
	type job struct {
		pg  *sgProg
		ins [][]sgLine
	}
	jobs := make([]job, nProg)
	for i := range jobs {
		pg := genStackGrow(c.Rng, lim, c.Thorough())
		jobs[i].pg = pg
		nIn := 3
		base := c.Rng.Intn(5)
		for k := 0; k < nIn; k++ {
			jobs[i].ins = append(jobs[i].ins, sgGenInput(c.Rng, pg, lim, c.Thorough(), base+k))
		}
	}
	// fixed corpus: the minimal shape of a scalar lost across a nested call when the value stack was re-allocated by an operand push
	// of the same activation (two scalars per level: the first re-allocation falls into the expression of level capacity/2)
	{
		n := sgVar{'n', 0}
		l0 := sgVar{'L', 0}
		f := &sgFn{idx: 0, iter: -1, nAP: 1, sig: []sgSlot{{true, 0}}, lk: []sgKind{sgNum}, lsig: []sgSlot{{false, 0}}, ctx: "stmt", preDepth: 1}
		f.pre = []*sgStmt{{k: "asg", ref: l0, e: &sgE{op: "mulc", v: 10, a: []*sgE{{op: "var", ref: n}}}},
			{k: "aset", arr: sgArrRef{'A', 0}, key: &sgE{op: "var", ref: n}, e: &sgE{op: "var", ref: l0}}}
		f.bottomRet = sgC(0)
		f.callSt = &sgStmt{k: "expr", e: &sgE{op: "call", fi: 0, a: []*sgE{{op: "sub", a: []*sgE{{op: "var", ref: n}, sgC(1)}}}, args: []sgArg{{arr: true, ar: sgArrRef{'A', 0}}}}}
		f.report = []*sgStmt{{k: "print", args: []*sgE{{op: "sc", s: "F0"}, {op: "var", ref: n}, {op: "var", ref: l0}, {op: "len", arr: sgArrRef{'A', 0}}}}}
		f.ret = sgC(1)
		pg := &sgProg{fns: []*sgFn{f}, recArgs: []sgArg{{arr: true, ar: sgArrRef{'G', 0}}}}
		var ins [][]sgLine
		for _, d := range []int{lim.stack / 10, lim.stack / 2, lim.stack/2 + 20, lim.stack * 3} {
			if d > lim.maxDepth-3 {
				d = lim.maxDepth - 3
			}
			ins = append(ins, []sgLine{{d: d}})
		}
		jobs = append(jobs, job{pg, ins})
	}
	type res struct {
		src   string
		fails []vh.Failure
		ends  []string
		maxd  []int
		grew  []int
	}
	results := make([]res, len(jobs))
	vh.Parallel(len(jobs), func(i int) {
		pg := jobs[i].pg
		src := pg.src()
		results[i].src = src
		pr := parseSrc(src, nil)
		if pr.panic_ != "" || !pr.ok {
			results[i].fails = append(results[i].fails, vh.Failure{Kind: "oracle", What: "stack-growth program rejected or panicked (every variable is used consistently as scalar or as array)",
				Case: c16Case{Shape: "stackgrow", Src: src}, Got: pr.msg + pr.panic_, Want: "accepted"})
			return
		}
		for _, in := range jobs[i].ins {
			text := sgInputText(in)
			sim := sgSimulate(pg, in, lim)
			got := vh.ExecProg(pr.prog, &interp.Config{Stdin: strings.NewReader(text), Args: []string{}})
			end := sim.kind
			if end == "" && sim.status != 0 {
				end = "exit"
			}
			if end == "" {
				end = "normal"
			}
			results[i].ends = append(results[i].ends, end)
			results[i].maxd = append(results[i].maxd, sim.maxDepth)
			results[i].grew = append(results[i].grew, sim.maxSlots)
			if got.Panic != "" || got.Out != sim.out.String() || (sim.kind == "" && got.Status != sim.status) || sgErrKind(got.Err) != sim.kind {
				what := "scalars of an activation must read back what that activation wrote, arrays must be shared by reference, locals fresh per call and pending operands kept — at every call depth and across re-allocations of the value stack"
				if strings.Contains(got.Out, "STALE") {
					what = "locals must be fresh (arrays empty, scalars uninitialised) on every call at every depth"
				}
				results[i].fails = append(results[i].fails, vh.Failure{Kind: "oracle", What: what,
					Case: c16Case{Shape: "stackgrow", Src: src, Note: "stdin (hex): " + vh.HxS(text)},
					Got:  fmt.Sprintf("%s; status=%d err=%q panic=%q", sgFirstDiff(got.Out, sim.out.String()), got.Status, got.Err, got.Panic),
					Want: fmt.Sprintf("status=%d err-kind=%q and the output of the reference evaluation (%d bytes)", sim.status, sim.kind, sim.out.Len())})
				return
			}
		}
	})
	for i, j := range jobs {
		for k := range j.ins {
			c.OracleCase()
			c.Eval("stackgrow\x00"+results[i].src+"\x00"+sgInputText(j.ins[k]), true)
			c.Hit("shape:stackgrow")
			if k < len(results[i].ends) {
				c.Hit("stackgrow:run-ended:" + results[i].ends[k])
				c.Hit(fmt.Sprintf("stackgrow:deepest-call:%d", bucket(results[i].maxd[k])))
				re := 0
				for _, b := range lim.measured {
					if results[i].grew[k] > b {
						re++
					}
				}
				c.Hit(fmt.Sprintf("stackgrow:re-allocations-passed(est):%d", min(re, 5)))
			}
		}
		c.Hit(fmt.Sprintf("stackgrow:functions-in-chain:%d", len(j.pg.fns)))
		for _, f := range j.pg.fns {
			c.Hit("stackgrow:call-context:" + f.ctx)
			c.Hit(fmt.Sprintf("stackgrow:scalar-locals:%d", len(f.lk)))
			c.Hit(fmt.Sprintf("stackgrow:local-arrays:%d", f.nLA))
			c.Hit(fmt.Sprintf("stackgrow:scalars-per-frame:%d", f.numScalars()))
			c.Hit(fmt.Sprintf("stackgrow:pending-operands-around-call:%d", bucket(f.pending)))
			c.Hit(fmt.Sprintf("stackgrow:operand-depth-before-call:%d", bucket(f.preDepth)))
			if f.omit > 0 {
				c.Hit("stackgrow:fewer-arguments-than-parameters")
			}
		}
		if i%97 == 0 {
			c.Sample(map[string]interface{}{"shape": "stackgrow", "src": results[i].src, "stdin": sgInputText(j.ins[0])})
		}
		for _, f := range results[i].fails {
			c.Fail(f)
		}
	}
}
