package main

// Tie between the Lean model of the value stack (GoawkModel.C16.Stack: backing arrays, slices, re-allocation; theorems
// frames_survive_growth / reslice_fails in Props.C16) and the real interpreter.
//
// A generated program is a chain of 1-3 functions recursing on `n`; a function has 1-8 scalars (n and s1…, parameters and locals
// alike) and its body is a list of: assignment of a constant or of a right-nested sum of 2-8 constants to a scalar, report of a
// scalar, and — while n > 0 — a call of the
// next function inside right-nested additions with 0-7 pending constants, passing 0..k-1 constants. The harness unrolls the
// execution into the event language of the model (push / pop / write / read / enter / leave — what the compiled code does to the
// stack around calls) and computes, by plain recursion over Go slices, what every read and every consumed operand must be.
//   * correspondence: the model run in the mode `savedSlice` must observe exactly that, under three growth policies, and must agree
//     with the model's own reference semantics and with the mode `offset`;
//   * oracle: the real program must print exactly the reported scalars and the top-level sum.

import (
	"fmt"
	"math/rand"
	"strings"

	"github.com/benhoyt/goawk/interp"

	"verifharness/vh"
)

type frItem struct {
	kind byte // w r c x (x: scalar i = right-nested sum of the constants pend)
	i, v int
	pend []int
	args []int
}

type frFn struct {
	k       int
	items   []frItem
	retSlot int // -1: constant
	retC    int
}

type frProg struct {
	fns     []frFn
	topPend []int
	topArgs []int
	d       int
}

func genFrames(r *rand.Rand, maxD int) *frProg {
	pg := &frProg{}
	m := 1 + r.Intn(3)
	for j := 0; j < m; j++ {
		pg.fns = append(pg.fns, frFn{k: 1 + r.Intn(8)})
	}
	consts := func(n int) []int {
		var cs []int
		for ; n > 0; n-- {
			cs = append(cs, 1+r.Intn(9))
		}
		return cs
	}
	for j := range pg.fns {
		f := &pg.fns[j]
		next := pg.fns[(j+1)%m]
		slot := func() int { return 1 + r.Intn(f.k-1) }
		plain := func() {
			if f.k == 1 {
				return
			}
			switch r.Intn(5) {
			case 0, 1:
				f.items = append(f.items, frItem{kind: 'w', i: slot(), v: 1 + r.Intn(99)})
			case 2:
				f.items = append(f.items, frItem{kind: 'x', i: slot(), pend: consts(2 + r.Intn(7))})
			default:
				f.items = append(f.items, frItem{kind: 'r', i: slot()})
			}
		}
		for n := r.Intn(4); n > 0; n-- {
			plain()
		}
		if f.k > 1 { // a scalar assigned before the call …
			if r.Intn(2) == 0 {
				f.items = append(f.items, frItem{kind: 'w', i: slot(), v: 1 + r.Intn(99)})
			} else {
				f.items = append(f.items, frItem{kind: 'x', i: slot(), pend: consts(2 + r.Intn(7))})
			}
		}
		c := frItem{kind: 'c', pend: consts([]int{0, 0, 1, 2, 3, 5, 7}[r.Intn(7)]), args: consts(r.Intn(next.k))}
		if f.k > 1 && r.Intn(4) > 0 {
			c.i = slot()
		}
		f.items = append(f.items, c)
		for n := r.Intn(3); n > 0; n-- {
			plain()
		}
		for i := 1; i < f.k; i++ { // … and every scalar read after it
			if r.Intn(3) > 0 {
				f.items = append(f.items, frItem{kind: 'r', i: i})
			}
		}
		f.retSlot, f.retC = -1, 1+r.Intn(9)
		if f.k > 1 && r.Intn(2) == 0 {
			f.retSlot = slot()
		}
	}
	pg.topPend = consts(r.Intn(4))
	pg.topArgs = consts(r.Intn(pg.fns[0].k))
	pg.d = 1 + r.Intn(maxD)
	return pg
}

func frSlot(i int) string {
	if i == 0 {
		return "n"
	}
	return fmt.Sprintf("s%d", i)
}

func frNest(pend []int, inner string) string {
	s := inner
	for q := len(pend) - 1; q >= 0; q-- {
		s = fmt.Sprintf("(%d + %s)", pend[q], s)
	}
	return s
}

func frCall(name string, first string, args []int) string {
	parts := []string{first}
	for _, a := range args {
		parts = append(parts, fmt.Sprint(a))
	}
	return name + "(" + strings.Join(parts, ", ") + ")"
}

func (pg *frProg) src() string {
	var sb strings.Builder
	for j, f := range pg.fns {
		var ps []string
		for i := 0; i < f.k; i++ {
			ps = append(ps, frSlot(i))
		}
		fmt.Fprintf(&sb, "function G%d(%s) {\n", j, strings.Join(ps, ", "))
		for _, it := range f.items {
			switch it.kind {
			case 'w':
				fmt.Fprintf(&sb, "  %s = %d\n", frSlot(it.i), it.v)
			case 'x':
				fmt.Fprintf(&sb, "  %s = %s\n", frSlot(it.i), frNest(it.pend[:len(it.pend)-1], fmt.Sprint(it.pend[len(it.pend)-1])))
			case 'r':
				fmt.Fprintf(&sb, "  print \"R\", %s\n", frSlot(it.i))
			default:
				call := frNest(it.pend, frCall(fmt.Sprintf("G%d", (j+1)%len(pg.fns)), "n - 1", it.args))
				if it.i > 0 {
					fmt.Fprintf(&sb, "  if (n > 0) %s = %s\n", frSlot(it.i), call)
				} else {
					fmt.Fprintf(&sb, "  if (n > 0) print \"C\", %s\n", call)
				}
			}
		}
		if f.retSlot >= 0 {
			fmt.Fprintf(&sb, "  return %s\n}\n", frSlot(f.retSlot))
		} else {
			fmt.Fprintf(&sb, "  return %d\n}\n", f.retC)
		}
	}
	fmt.Fprintf(&sb, "BEGIN { x = %s; print \"T\", x }\n", frNest(pg.topPend, frCall("G0", fmt.Sprint(pg.d), pg.topArgs)))
	return sb.String()
}

type frSim struct {
	pg  *frProg
	ev  []string
	obs []int
	out strings.Builder
}

func frShow(v int) string {
	if v == 0 {
		return "" // constants are >= 1: a zero is a scalar nobody assigned
	}
	return fmt.Sprint(v)
}

// call: the events of a call of function j in the given additive context, and the value of the whole expression
func (s *frSim) call(j int, pend []int, first int, args []int) int {
	f := s.pg.fns[j]
	for _, c := range pend {
		s.ev = append(s.ev, fmt.Sprintf("p%d", c))
	}
	frame := make([]int, f.k)
	frame[0] = first
	s.ev = append(s.ev, fmt.Sprintf("p%d", first))
	for i, a := range args {
		frame[1+i] = a
		s.ev = append(s.ev, fmt.Sprintf("p%d", a))
	}
	for i := 1 + len(args); i < f.k; i++ {
		s.ev = append(s.ev, "p0") // Nulls
	}
	s.ev = append(s.ev, fmt.Sprintf("e%d", f.k))
	ret := s.body(j, frame)
	s.ev = append(s.ev, fmt.Sprintf("l%d", ret))
	x := ret
	for q := len(pend) - 1; q >= 0; q-- {
		s.ev = append(s.ev, "o", "o", fmt.Sprintf("p%d", pend[q]+x))
		s.obs = append(s.obs, x, pend[q])
		x += pend[q]
	}
	s.ev = append(s.ev, "o")
	s.obs = append(s.obs, x)
	return x
}

func (s *frSim) body(j int, frame []int) int {
	f := s.pg.fns[j]
	for _, it := range f.items {
		switch it.kind {
		case 'w':
			frame[it.i] = it.v
			s.ev = append(s.ev, fmt.Sprintf("w%d:%d", it.i, it.v))
		case 'x':
			for _, c := range it.pend {
				s.ev = append(s.ev, fmt.Sprintf("p%d", c))
			}
			x := it.pend[len(it.pend)-1]
			for q := len(it.pend) - 2; q >= 0; q-- {
				s.ev = append(s.ev, "o", "o", fmt.Sprintf("p%d", it.pend[q]+x))
				s.obs = append(s.obs, x, it.pend[q])
				x += it.pend[q]
			}
			s.ev = append(s.ev, "o", fmt.Sprintf("w%d:%d", it.i, x))
			s.obs = append(s.obs, x)
			frame[it.i] = x
		case 'r':
			s.ev = append(s.ev, fmt.Sprintf("r%d", it.i))
			s.obs = append(s.obs, frame[it.i])
			s.out.WriteString("R " + frShow(frame[it.i]) + "\n")
		default:
			s.ev = append(s.ev, "r0") // the test n > 0
			s.obs = append(s.obs, frame[0])
			if frame[0] <= 0 {
				continue
			}
			s.ev = append(s.ev, "r0") // n - 1
			s.obs = append(s.obs, frame[0])
			// the pending constants go on the stack before n is read; reading has no effect on the stack model, so the order of
			// these two events is immaterial
			x := s.call((j+1)%len(s.pg.fns), it.pend, frame[0]-1, it.args)
			if it.i > 0 {
				frame[it.i] = x
				s.ev = append(s.ev, fmt.Sprintf("w%d:%d", it.i, x))
			} else {
				s.out.WriteString("C " + frShow(x) + "\n")
			}
		}
	}
	if f.retSlot >= 0 {
		s.ev = append(s.ev, fmt.Sprintf("r%d", f.retSlot))
		s.obs = append(s.obs, frame[f.retSlot])
		return frame[f.retSlot]
	}
	return f.retC
}

func (pg *frProg) simulate() *frSim {
	s := &frSim{pg: pg}
	x := s.call(0, pg.topPend, pg.d, pg.topArgs)
	s.out.WriteString("T " + frShow(x) + "\n")
	return s
}

func framesOracle(c *vh.Ctx) {
	lim := sgReadLimits()
	n := c.N(30, 300)
	maxD := c.N(130, 320)
	progs := make([]*frProg, n)
	caps := make([]int, n)
	for i := range progs {
		progs[i] = genFrames(c.Rng, maxD)
		if i%2 == 0 {
			caps[i] = lim.stack
		} else {
			caps[i] = 1 + c.Rng.Intn(16)
		}
	}
	type outT struct {
		src  string
		sim  *frSim
		pr   parseResult
		res  vh.RunResult
		req  string
		want string
	}
	outs := make([]outT, n)
	vh.Parallel(n, func(i int) {
		o := &outs[i]
		o.src = progs[i].src()
		o.sim = progs[i].simulate()
		o.pr = parseSrc(o.src, nil)
		if o.pr.ok {
			o.res = vh.ExecProg(o.pr.prog, &interp.Config{Stdin: strings.NewReader(""), Args: []string{}})
		}
		o.req = fmt.Sprintf("frames %d %s", caps[i], strings.Join(o.sim.ev, " "))
		var ob []string
		for _, v := range o.sim.obs {
			ob = append(ob, fmt.Sprint(v))
		}
		o.want = "ok " + strings.Join(ob, ",") + " ref=same policies=same offset=same reslice="
	})
	var reqs []string
	for i := range progs {
		o := &outs[i]
		c.OracleCase()
		c.Eval("frames\x00"+o.src, true)
		c.Hit("shape:frames")
		c.Hit(fmt.Sprintf("frames:events:%d", bucket(len(o.sim.ev))))
		cs := c16Case{Shape: "frames", Src: o.src}
		switch {
		case o.pr.panic_ != "" || !o.pr.ok:
			c.Fail(vh.Failure{Kind: "oracle", What: "frames program (scalars only) rejected or panicked", Case: cs, Got: o.pr.msg + o.pr.panic_, Want: "accepted"})
		case o.res.Panic != "" || o.res.Err != "" || o.res.Out != o.sim.out.String():
			c.Fail(vh.Failure{Kind: "oracle", What: "scalars of an activation must read back what that activation wrote (and pending operands must survive the call) at every depth, across re-allocations of the value stack",
				Case: cs, Got: fmt.Sprintf("%s; err=%q panic=%q", sgFirstDiff(o.res.Out, o.sim.out.String()), o.res.Err, o.res.Panic), Want: "the output of the reference evaluation"})
		}
		reqs = append(reqs, o.req)
	}
	if !c.HasLean() {
		return
	}
	for i, a := range c.LeanBatch(reqs) {
		c.Trace()
		c.Hit("correspondence:value-stack")
		o := &outs[i]
		if !strings.HasPrefix(a, o.want) {
			got := a
			if len(got) > 300 {
				got = got[:300] + "…"
			}
			want := o.want
			if len(want) > 300 {
				want = want[:300] + "…"
			}
			c.Fail(vh.Failure{Kind: "correspondence", What: "Lean model of the value stack (mode savedSlice) and the reference evaluation of the same run disagree, or the model's modes / growth policies disagree among themselves",
				Case: c16Case{Shape: "frames", Src: o.src, Note: fmt.Sprintf("frames %d … (%d events)", caps[i], len(o.sim.ev))}, Got: got, Want: want})
			continue
		}
		c.Hit("frames:model-mode-reslice:" + strings.TrimPrefix(a, o.want))
	}
}
