package main

// Long type-flow chains that alternate globals and parameters: y0 - p1 - y1 - p2 - … - pn - yn, where link i is the pair of call
// sites fi(y(i-1)) and fi(yi) and fi's parameter is unused or only forwarded. The only direct use sits at one place of the chain
// (either end or the middle), so the type has to travel through every link, one link per resolver pass when the call sites are
// listed against the direction of flow. The verdict is a property of the constraint system, not of the order of the items: the
// generator emits the same chain with the call sites along the flow, against it and shuffled, as separate BEGIN blocks, inside one
// BEGIN block, or inside function bodies; the framework then permutes the top-level items (incl. fully reversed) and renames.

import (
	"fmt"
	"math/rand"
)

// genZigzag: n links; srcAt = index of the y that carries the direct use (0..n); srcUse 1 scalar / 2 array / 0 none;
// otherAt/otherUse: a second direct use (same type: consistent; other type: conflict; 0: none);
// order 0 along the chain, 1 against it, 2 shuffled; layout 0 one BEGIN block per call site, 1 one BEGIN block, 2 call sites in
// the bodies of functions that nothing calls; fwd: every second parameter is forwarded to an unused-parameter sink instead of unused.
func genZigzag(r *rand.Rand, n, srcAt, srcUse, otherAt, otherUse, order, layout int, fwd bool) *prog {
	pg := &prog{Shape: fmt.Sprintf("zigzag%d", bucket(n))}
	fn := func(i int) string { return fmt.Sprintf("zf%02d", i) }
	y := func(i int) string { return fmt.Sprintf("y%02d", i) }
	for i := 1; i <= n; i++ {
		f := &fdef{Name: fn(i), Params: []string{fmt.Sprintf("p%02d", i)}}
		if fwd && i%2 == 0 {
			sink := &fdef{Name: fmt.Sprintf("zs%02d", i), Params: []string{"q"}}
			f.Body = []*node{sexpr(call(sink.Name, vr(f.Params[0])))}
			pg.Fns = append(pg.Fns, sink)
		}
		pg.Fns = append(pg.Fns, f)
	}
	var sites []*node
	for i := 1; i <= n; i++ {
		sites = append(sites, sexpr(call(fn(i), vr(y(i-1)))), sexpr(call(fn(i), vr(y(i)))))
	}
	switch order {
	case 1:
		for i, j := 0, len(sites)-1; i < j; i, j = i+1, j-1 {
			sites[i], sites[j] = sites[j], sites[i]
		}
	case 2:
		r.Shuffle(len(sites), func(i, j int) { sites[i], sites[j] = sites[j], sites[i] })
	}
	use := func(at, kind int) *node {
		if kind == 2 {
			return sexpr(assignIdx(y(at), num(1), num(1)))
		}
		return sexpr(assign(y(at), num(1)))
	}
	var uses []*node
	if srcUse != 0 {
		uses = append(uses, use(srcAt, srcUse))
	}
	if otherUse != 0 {
		uses = append(uses, use(otherAt, otherUse))
	}
	uses = append(uses, printS(&node{K: "lenv", V: y(0)}, &node{K: "lenv", V: y(n)}, &node{K: "lenv", V: y(n / 2)}))
	usesFirst := r.Intn(2) == 0
	switch layout {
	case 0:
		if usesFirst {
			pg.Begin = append(pg.Begin, uses)
		}
		for _, s := range sites {
			pg.Begin = append(pg.Begin, []*node{s})
		}
		if !usesFirst {
			pg.Begin = append(pg.Begin, uses)
		}
	case 1:
		if usesFirst {
			pg.Begin = [][]*node{append(append([]*node(nil), uses...), sites...)}
		} else {
			pg.Begin = [][]*node{append(append([]*node(nil), sites...), uses...)}
		}
	default:
		// the call sites live in functions that are never called (they are walked after the called ones, in source order)
		for k := 0; k < len(sites); k += 2 {
			pg.Fns = append(pg.Fns, &fdef{Name: fmt.Sprintf("zh%02d", k/2), Body: []*node{sites[k], sites[k+1]}})
		}
		pg.Begin = [][]*node{uses}
	}
	if r.Intn(2) == 0 {
		r.Shuffle(len(pg.Fns), func(i, j int) { pg.Fns[i], pg.Fns[j] = pg.Fns[j], pg.Fns[i] })
	}
	return pg
}

func genZigzagRandom(r *rand.Rand) *prog {
	n := 3 + r.Intn(10)
	srcAt := []int{0, n, n / 2, r.Intn(n + 1)}[r.Intn(4)]
	srcUse := 1 + r.Intn(2)
	if r.Intn(8) == 0 {
		srcUse = 0
	}
	otherAt, otherUse := r.Intn(n+1), 0
	switch r.Intn(6) {
	case 0:
		otherUse = srcUse
	case 1:
		otherUse = 3 - srcUse // contradiction at the far end of the chain
		if srcUse == 0 {
			otherUse = 0
		}
	}
	return genZigzag(r, n, srcAt, srcUse, otherAt, otherUse, r.Intn(3), r.Intn(3), r.Intn(3) == 0)
}
