package main

// C13 — output reaches each destination completely, in order, exactly once.
//
// A case = (kind of Config.Output, fault offset, history of operations in BEGIN). It runs through the public API in a fresh
// temp dir with real files and /bin/sh commands; a native function t(i, r, v) reports what each operation returned.
//
// Implementation-side oracle (no Lean): an independent "destinations are logs" evaluation of the history in Go (no
// buffering at all: every write lands at once) gives the bytes every destination must hold at the end and what close() and
// getline must return; a failing standard output must make the run fail.
// Correspondence: the Lean model (GoawkModel.C13.run: buffers, flush points, closeAll) against the same observations,
// including — with a recording flusher as Config.Output — the content handed over at every single Flush call.

import (
	"bufio"
	"bytes"
	"encoding/json"
	"errors"
	"fmt"
	"os"
	"os/exec"
	"path/filepath"
	"regexp"
	"runtime"
	"sort"
	"strings"
	"sync"
	"syscall"

	"github.com/benhoyt/goawk/interp"
	"github.com/benhoyt/goawk/parser"

	"verifharness/vh"
)

type c13Op struct {
	K string   `json:"k"`           // p gt app pipe close ff ffa sys gf exit fail | ofs ors rec om (assignments to OFS, ORS, $0, OUTPUTMODE; C = the value)
	N string   `json:"n,omitempty"` // symbolic name
	C string   `json:"c,omitempty"` // bytes written (F == "": the statement is chosen from C and the position, see c13Form)
	V int      `json:"v,omitempty"` // exit code
	F string   `json:"f,omitempty"` // p gt app pipe: "" | "print" (print A[0], A[1], …; no A: bare print of $0) | "printf" (printf "%s%s…", A…) | "fmt" (printf C: C itself is the format)
	A []string `json:"a,omitempty"`
	S string   `json:"s,omitempty"` // how a FILE name is spelled (see c13Spell): "" canonical absolute path | dot | dslash | updir | rootdot | link | tslash
}

type c13Case struct {
	Out   string            `json:"out"`          // plain | bufio | rec | bytesbuf
	Fail  int               `json:"fail"`         // -1: never; k: the underlying stdout accepts k bytes, then fails
	NL    string            `json:"nl,omitempty"` // Config.NewlineOutput: "" (not set = smart) | smart | raw | crlf; binary stream: -N <nl>
	Ops   []c13Op           `json:"ops"`
	Raw   string            `json:"raw,omitempty"`   // a fixed program instead of Ops (F25 witness; binary stream)
	Want  string            `json:"want,omitempty"`  // its expected stdout
	Prev  []c13Prev         `json:"prev,omitempty"`  // earlier Execute calls of the SAME program on the same Interpreter
	Init  map[string]string `json:"-"`               // the files as they are when the run under test starts (set by c13Run)
	OM    string            `json:"om,omitempty"`    // the output mode the run STARTS in, as an OUTPUTMODE string: "" | csv | tsv | "csv separator=;" …
	OMVia string            `json:"omvia,omitempty"` // how it is set: config (Config.OutputMode / CSVOutput) | vars (Config.Vars OUTPUTMODE; binary: -v) | opt (binary: -o); a BEGIN assignment is the op "om"
	Bin   string            `json:"bin,omitempty"`   // binary stream: what the goawk PROCESS gets as fd 1: ok | rofile | devfull | closedpipe
	Exit  int               `json:"exit,omitempty"`  // binary stream: the status the program asks for
}

// c13Prev: an earlier run on the same Interpreter: its file names carry the suffix Sfx ("" = the same names as the run under
// test); it stops before operation |Stop|-1 with exit 2 (Stop > 0) or a run-time error (Stop < 0), or runs to the end (0)
type c13Prev struct {
	Sfx  string `json:"sfx"`
	Stop int    `json:"stop"`
}

const c13Old3 = "old3\n"

func c13Real(d, sym string) string {
	switch {
	case sym == "-" || sym == "/dev/stdout" || sym == "/dev/stderr":
		return sym
	case strings.HasPrefix(sym, "sink"):
		return fmt.Sprintf("cat >> %s/%s.out; exit %c", d, sym, sym[4])
	case strings.HasPrefix(sym, "quit"): // reads one line, then exits with the digit: stops reading early
		return fmt.Sprintf("IFS= read -r l; printf '%%s\\n' \"$l\" >> %s/%s.out; exit %c", d, sym, sym[4])
	case strings.HasPrefix(sym, "slow"): // the same, but lingers before it exits
		return fmt.Sprintf("IFS= read -r l; printf '%%s\\n' \"$l\" >> %s/%s.out; sleep 0.4; exit %c", d, sym, sym[4])
	case strings.HasPrefix(sym, "head"):
		return fmt.Sprintf("head -n 1 >> %s/%s.out", d, sym)
	case sym == "nap":
		return "sleep 0.25"
	case strings.HasPrefix(sym, "echo"):
		// copies its input to the shared stdout, byte for byte, only after it has seen EOF
		return fmt.Sprintf("cat > %s/%s.tmp; cat %s/%s.tmp; rm -f %s/%s.tmp", d, sym, d, sym, d, sym)
	case strings.HasPrefix(sym, "snap_"):
		return fmt.Sprintf("cat %s/%s >> %s/%s.out 2>/dev/null; true", d, sym[5:], d, sym)
	case strings.HasPrefix(sym, "say_"):
		return "echo " + sym[4:]
	case strings.HasPrefix(sym, "rc"):
		return "exit " + sym[2:3]
	}
	return d + "/" + sym
}

// ---- print statements, their writes, and the newline-output mode ----------------------------------------------------------
//
// The rule, from interp/io.go (printLine, printArgs, writeOutput) and interp/vm.go (Printf): every piece of a print statement
// is ONE call of writeOutput — `print a, b` makes the writes a, OFS, b, ORS; a bare `print` makes $0, ORS; printf makes one
// write of the formatted string. writeOutput transforms its argument per write: in CRLF mode (Config.NewlineOutput =
// CRLFNewlineMode; the smart mode only on Windows) every CR LF pair of the write is read as LF and then every LF goes out as
// CR LF; otherwise the bytes go out as they are. A destination receives the concatenation of the transformed writes — so a
// CR at the end of one write followed by an LF at the start of the next is NOT a pair: both are delivered (CR CR LF).

type c13Stmt struct {
	Printf bool     // printf (one write) or print (a write per piece)
	Args   []string // print: the arguments (none: bare print); printf: the arguments of the "%s…" format
	Fmt    string   // IsFmt: printf with this literal format string (no conversion in it)
	IsFmt  bool
	Writes []string // the arguments of the writeOutput calls, in order
	CSV    bool     // a print with arguments in CSV/TSV output mode: Writes holds the one encoded record, delivered as it is
}

func c13IsSet(k string) bool { return k == "ofs" || k == "ors" || k == "rec" || k == "om" }

// ---- CSV / TSV output mode: an encoder of its own (no encoding/csv) -----------------------------------------------------------
//
// The documented rule (docs/csv.md, encoding/csv.Writer): in OUTPUTMODE csv / tsv [separator=<char>] a `print` WITH arguments
// writes one record: the fields joined by the separator, ended by LF (CR LF in the CRLF newline mode); a field is wrapped in
// double quotes when it contains the separator, a double quote, CR or LF, starts with white space, or is `\.`; inside the
// quotes a double quote is doubled (and in CRLF mode LF becomes CR LF and a CR is dropped); the record of one empty field is
// `""`. OFS and ORS play no part. A bare `print` (no arguments) still writes $0 and ORS, printf is not affected.

// c13Mode: an OUTPUTMODE string -> (is it a CSV mode, the separator)
func c13Mode(om string) (bool, string) {
	f := strings.Fields(om)
	if len(f) == 0 {
		return false, ""
	}
	sep := ","
	if f[0] == "tsv" {
		sep = "\t"
	}
	for _, kv := range f[1:] {
		if strings.HasPrefix(kv, "separator=") {
			sep = kv[len("separator="):]
		}
	}
	return true, sep
}

// the white space a field may not start with unquoted (Unicode White_Space), as UTF-8
var c13Spaces = []string{"\t", "\n", "\v", "\f", "\r", " ", "\u0085", "\u00a0", "\u1680", "\u2000", "\u2001", "\u2002", "\u2003", "\u2004", "\u2005",
	"\u2006", "\u2007", "\u2008", "\u2009", "\u200a", "\u2028", "\u2029", "\u202f", "\u205f", "\u3000"}

func c13CSVQuoted(sep, f string) bool {
	if f == "" {
		return false
	}
	if f == "\\." || strings.Contains(f, sep) || strings.ContainsAny(f, "\"\r\n") {
		return true
	}
	for _, sp := range c13Spaces {
		if strings.HasPrefix(f, sp) {
			return true
		}
	}
	return false
}

func c13CSVRecord(sep string, crlf bool, fields []string) string {
	eol := "\n"
	if crlf {
		eol = "\r\n"
	}
	if len(fields) == 1 && fields[0] == "" {
		return "\"\"" + eol
	}
	var b strings.Builder
	for i, f := range fields {
		if i > 0 {
			b.WriteString(sep)
		}
		if !c13CSVQuoted(sep, f) {
			b.WriteString(f)
			continue
		}
		b.WriteByte('"')
		for k := 0; k < len(f); k++ {
			switch {
			case f[k] == '"':
				b.WriteString("\"\"")
			case f[k] == '\r' && crlf:
			case f[k] == '\n' && crlf:
				b.WriteString("\r\n")
			default:
				b.WriteByte(f[k])
			}
		}
		b.WriteByte('"')
	}
	return b.String() + eol
}

func c13IsPrint(k string) bool { return k == "p" || k == "gt" || k == "app" || k == "pipe" }

// c13Stmts: the statement each print operation stands for (nil entries for the other operations)
func c13Stmts(cs *c13Case) []*c13Stmt {
	ofs, ors, rec := " ", "\n", ""
	csv, sep := c13Mode(cs.OM)
	crlf := c13CRLF(cs.NL)
	res := make([]*c13Stmt, len(cs.Ops))
	for i, op := range cs.Ops {
		switch op.K {
		case "om":
			csv, sep = c13Mode(op.C)
		case "ofs":
			ofs = op.C
		case "ors":
			ors = op.C
		case "rec":
			rec = op.C
		}
		if !c13IsPrint(op.K) {
			continue
		}
		st := &c13Stmt{}
		switch op.F {
		case "print":
			st.Args = op.A
			if len(op.A) == 0 {
				st.Writes = []string{rec, ors}
			} else {
				for k, a := range op.A {
					if k > 0 {
						st.Writes = append(st.Writes, ofs)
					}
					st.Writes = append(st.Writes, a)
				}
				st.Writes = append(st.Writes, ors)
			}
		case "printf":
			st.Printf, st.Args, st.Writes = true, op.A, []string{strings.Join(op.A, "")}
		case "fmt":
			st.Printf, st.IsFmt, st.Fmt, st.Writes = true, true, op.C, []string{op.C}
		default:
			if strings.HasSuffix(op.C, "\n") && i%3 != 0 && ors == "\n" {
				st.Args = []string{strings.TrimSuffix(op.C, "\n")}
				st.Writes = []string{st.Args[0], ors}
			} else {
				st.Printf, st.Args, st.Writes = true, []string{op.C}, []string{op.C}
			}
		}
		if csv && !st.Printf && len(st.Args) > 0 {
			st.CSV, st.Writes = true, []string{c13CSVRecord(sep, crlf, st.Args)}
		}
		res[i] = st
	}
	return res
}

func c13CRLF(nl string) bool {
	return nl == "crlf" || ((nl == "" || nl == "smart") && runtime.GOOS == "windows")
}

// c13Xf: what one writeOutput call hands to the writer
func c13Xf(crlf bool, w string) string {
	if !crlf {
		return w
	}
	var b []byte
	for i := 0; i < len(w); i++ {
		switch {
		case w[i] == '\r' && i+1 < len(w) && w[i+1] == '\n': // a CR LF pair inside one write stays one line end
			b = append(b, '\r', '\n')
			i++
		case w[i] == '\n':
			b = append(b, '\r', '\n')
		default:
			b = append(b, w[i])
		}
	}
	return string(b)
}

// c13Eff: per operation, the bytes its destination must receive
func c13Eff(cs *c13Case) []string {
	crlf := c13CRLF(cs.NL)
	res := make([]string, len(cs.Ops))
	for i, st := range c13Stmts(cs) {
		if st == nil {
			continue
		}
		for _, w := range st.Writes {
			if st.CSV {
				res[i] += w // the record goes to the writer as encoded: writeOutput is not involved
			} else {
				res[i] += c13Xf(crlf, w)
			}
		}
	}
	return res
}

// ---- spellings of a file name ---------------------------------------------------------------------------------------------
//
// The scratch directory is <top>/w (the variable D holds its absolute path); <top>/l is a symbolic link to it (variable L).
// One file <top>/w/f1 can be named in several ways; the interpreter keys its streams by the name AS WRITTEN, so
//   - a spelling used consistently behaves exactly like the canonical one (same returns of close / fflush / getline, same
//     truncation, same file content), and
//   - two different spellings of one file are two streams (each opened, truncated, buffered, closed on its own).
//
// Relative names are never used (they would touch the working directory). "tslash" (a trailing slash) does not name a
// regular file at all: opening it for writing is a run-time error ("output redirection error"), close / fflush of it find
// no stream.
var c13Spellings = []string{"dot", "dslash", "updir", "rootdot", "link"}

// c13Spell: the AWK expression for the file name; base = the quoted "/f1"
func c13Spell(kind, base string) string {
	switch kind {
	case "dot":
		return "(D \"/.\" " + base + " SFX)"
	case "dslash":
		return "(D \"/\" " + base + " SFX)"
	case "updir":
		return "(D \"/../w\" " + base + " SFX)"
	case "rootdot":
		return "(\"/.\" D " + base + " SFX)"
	case "link":
		return "(L " + base + " SFX)"
	case "tslash":
		return "(D " + base + " SFX \"/\")"
	}
	return "(D " + base + " SFX)"
}

func c13IsFile(n string) bool { return n == "f1" || n == "f2" || n == "f3" }

// c13Key: the identity of the STREAM an operation addresses (the name as written)
func c13Key(op c13Op) string {
	if op.S == "" || !c13IsFile(op.N) {
		return op.N
	}
	return op.N + "@" + op.S
}

// c13Mixed: does the history use two spellings of one file (or one that names no regular file)? Such histories are judged by
// the oracle only; consistent ones also go to the Lean model under the symbolic name (the model does not look inside names)
func c13Mixed(cs *c13Case) bool {
	seen := map[string]string{}
	for _, op := range cs.Ops {
		if !c13IsFile(op.N) {
			continue
		}
		if op.S == "tslash" {
			return true
		}
		if s, ok := seen[op.N]; ok && s != op.S {
			return true
		}
		seen[op.N] = op.S
	}
	return false
}

func c13Render(cs *c13Case, d string) string { return c13RenderOpt(cs, d, true) }

func c13RenderOpt(cs *c13Case, d string, events bool) string {
	var b strings.Builder
	b.WriteString("BEGIN {\n")
	q := func(s string) string {
		return `"` + strings.NewReplacer("\\", "\\\\", "\"", "\\\"", "\n", "\\n", "\r", "\\r", "\t", "\\t", "\v", "\\v", "\f", "\\f").Replace(s) + `"`
	}
	stmts := c13Stmts(cs)
	ev := func(i int, r string) string {
		if !events {
			return ""
		}
		return fmt.Sprintf("; t(%d, %s, \"\")", i, r)
	}
	for i, op := range cs.Ops {
		name := func() string {
			r := c13Real(d, op.N)
			if op.N == "f1" || op.N == "f2" || op.N == "f3" {
				return c13Spell(op.S, q("/"+op.N)) // SFX is empty in the run under test
			}
			if strings.HasPrefix(r, d) && i%2 == 0 {
				return "(D " + q(r[len(d):]) + ")"
			}
			return q(r)
		}
		if len(cs.Prev) > 0 {
			fmt.Fprintf(&b, "  if (STOP == %d) exit 2; if (STOP == -%d) x = 1 / zero\n", i+1, i+1)
		}
		stmt := func(redir string) string {
			st := stmts[i]
			var as []string
			for _, a := range st.Args {
				as = append(as, q(a))
			}
			switch {
			case !st.Printf && len(as) == 0:
				return "print" + redir
			case !st.Printf:
				return "print " + strings.Join(as, ", ") + redir
			case st.IsFmt || len(as) == 0:
				return "printf " + q(st.Fmt) + redir
			}
			return "printf " + q(strings.Repeat("%s", len(as))) + ", " + strings.Join(as, ", ") + redir
		}
		switch op.K {
		case "ofs":
			fmt.Fprintf(&b, "  OFS = %s\n", q(op.C))
		case "ors":
			fmt.Fprintf(&b, "  ORS = %s\n", q(op.C))
		case "rec":
			fmt.Fprintf(&b, "  $0 = %s\n", q(op.C))
		case "om":
			fmt.Fprintf(&b, "  OUTPUTMODE = %s\n", q(op.C))
		case "p":
			fmt.Fprintf(&b, "  %s%s\n", stmt(""), ev(i, "0"))
		case "gt", "app", "pipe":
			r := map[string]string{"gt": " > ", "app": " >> ", "pipe": " | "}[op.K]
			fmt.Fprintf(&b, "  %s%s\n", stmt(r+name()), ev(i, "0"))
		case "close":
			fmt.Fprintf(&b, "  r = close(%s)%s\n", name(), ev(i, "r"))
		case "ff":
			fmt.Fprintf(&b, "  r = fflush(%s)%s\n", name(), ev(i, "r"))
		case "ffa":
			if i%2 == 0 {
				fmt.Fprintf(&b, "  r = fflush()%s\n", ev(i, "r"))
			} else {
				fmt.Fprintf(&b, "  r = fflush(\"\")%s\n", ev(i, "r"))
			}
		case "sys":
			fmt.Fprintf(&b, "  r = system(%s)%s\n", name(), ev(i, "r"))
		case "gf":
			if events {
				fmt.Fprintf(&b, "  v = \"\"; r = (getline v < %s); t(%d, r, v)\n", name(), i)
			} else {
				fmt.Fprintf(&b, "  v = \"\"; r = (getline v < %s)\n", name())
			}
		case "exit":
			fmt.Fprintf(&b, "  exit %d\n", op.V)
		case "fail":
			fmt.Fprintf(&b, "  x = 1 / zero\n")
		}
	}
	b.WriteString("}\n")
	return b.String()
}

// ---- writers handed to the interpreter ------------------------------------------------------------------------------

var errC13Write = errors.New("c13 injected write failure")

// sink: the "underlying standard output": mutex-protected, no ReadFrom, fails after `limit` bytes (limit < 0: never)
type c13Sink struct {
	mu        sync.Mutex
	b         []byte
	limit     int
	failedAt  int // value of *seq at the first failing write, -1 if none
	seq       *int
	seqMu     *sync.Mutex
	writeCall int
}

func (w *c13Sink) Write(p []byte) (int, error) {
	w.mu.Lock()
	defer w.mu.Unlock()
	w.writeCall++
	if w.limit >= 0 && len(w.b)+len(p) > w.limit {
		n := w.limit - len(w.b)
		if n < 0 {
			n = 0
		}
		w.b = append(w.b, p[:n]...)
		if w.failedAt < 0 {
			w.seqMu.Lock()
			w.failedAt = *w.seq
			w.seqMu.Unlock()
		}
		return n, errC13Write
	}
	w.b = append(w.b, p...)
	return len(p), nil
}

// recFlusher: a flusher with bufio.Writer's error discipline (sticky error) that records every Flush call
type c13Rec struct {
	mu      sync.Mutex
	under   *c13Sink
	pending []byte
	broken  bool
	flushes []string
}

func (w *c13Rec) Write(p []byte) (int, error) {
	w.mu.Lock()
	defer w.mu.Unlock()
	if w.broken {
		return 0, errC13Write
	}
	w.pending = append(w.pending, p...)
	return len(p), nil
}

func (w *c13Rec) Flush() error {
	w.mu.Lock()
	defer w.mu.Unlock()
	w.flushes = append(w.flushes, string(w.pending))
	if w.broken {
		return errC13Write
	}
	if len(w.pending) == 0 {
		return nil
	}
	_, err := w.under.Write(w.pending)
	w.pending = nil
	if err != nil {
		w.broken = true
	}
	return err
}

type c13TEvent struct {
	I   int
	R   float64
	V   string
	Seq int
}

type c13Obs struct {
	Events  []c13TEvent
	Stdout  string
	Stderr  string
	Flushes []string
	Status  int
	Err     string
	Panic   string
	Files   map[string]string // f*, *.out
	Opens   []string          // one entry per call of Config.OpenFile in the run under test: T|A|R|W (truncate, append, read, other write) ":" file
	Src     string
	FailSeq int // sequence number at the first underlying write failure (-1: none)
}

// ---- the goawk binary (the binary half of "a failing write to standard output makes the run fail") -----------------------

var c13Goawk string

func c13BuildGoawk(dir string) error {
	repo := os.Getenv("VERIF_REPO")
	if repo == "" {
		repo = "/repo"
	}
	c13Goawk = filepath.Join(dir, "goawk")
	cmd := exec.Command("go", "build", "-o", c13Goawk, ".")
	cmd.Dir = repo
	cmd.Env = append(os.Environ(), "GOFLAGS=-mod=mod", "GOPROXY=off", "GOSUMDB=off", "GOTOOLCHAIN=local", "CGO_ENABLED=0")
	out, err := cmd.CombinedOutput()
	if err != nil {
		return fmt.Errorf("go build %s: %v\n%s", repo, err, out)
	}
	return nil
}

func c13RunBin(cs *c13Case) (obs c13Obs) {
	d, err := os.MkdirTemp("", "c13b_")
	if err != nil {
		panic(err)
	}
	defer os.RemoveAll(d)
	obs.Src = cs.Raw
	obs.FailSeq = -1
	var f *os.File
	switch cs.Bin {
	case "ok":
		f, err = os.Create(d + "/out.txt")
	case "rofile": // a regular file opened read-only as fd 1: every write fails with EBADF
		os.WriteFile(d+"/ro.txt", []byte("read-only target\n"), 0o644)
		f, err = os.Open(d + "/ro.txt")
	case "devfull":
		f, err = os.OpenFile("/dev/full", os.O_WRONLY, 0)
	case "closedpipe":
		// The read end must be closed in EVERY process before goawk writes. Cases run concurrently, and a child forked by
		// another case between Pipe() and Close() keeps a copy of the read end until its exec: goawk's writes (up to the
		// 64 KiB pipe buffer) then succeed and it exits 0 — a false alarm met once at load 60. No fork can happen while the
		// fork lock is read-held, so no process ever inherits the read end.
		var r *os.File
		syscall.ForkLock.RLock()
		r, f, err = os.Pipe()
		if err == nil {
			r.Close()
		}
		syscall.ForkLock.RUnlock()
	}
	if err != nil {
		obs.Panic = "harness: cannot set up stdout target: " + err.Error()
		return obs
	}
	var errb bytes.Buffer
	var args []string
	if cs.NL != "" {
		args = append(args, "-N", cs.NL)
	}
	if cs.OM != "" && cs.OMVia == "vars" {
		args = append(args, "-v", "OUTPUTMODE="+cs.OM)
	} else if cs.OM != "" {
		args = append(args, "-o", cs.OM)
	}
	args = append(args, cs.Raw)
	cmd := exec.Command(c13Goawk, args...)
	cmd.Stdout = f
	cmd.Stderr = &errb
	runErr := cmd.Run()
	f.Close()
	obs.Stderr = errb.String()
	if cmd.ProcessState != nil {
		obs.Status = cmd.ProcessState.ExitCode() // -1 when killed by a signal (SIGPIPE)
	} else {
		obs.Panic = fmt.Sprint("harness: could not run goawk: ", runErr)
	}
	if cs.Bin == "ok" {
		b, _ := os.ReadFile(d + "/out.txt")
		obs.Stdout = string(b)
	}
	return obs
}

func c13BinCases() []c13Case {
	lines := func(n int) string { return strings.Repeat("0123456789\n", n) }
	loop := func(n int, tail string) string {
		return fmt.Sprintf(`BEGIN { for (i = 0; i < %d; i++) print "0123456789"%s }`, n, tail)
	}
	type pr struct {
		src, want string
		exit      int
	}
	progs := []pr{
		{`BEGIN { print "hello" }`, "hello\n", 0},
		{`BEGIN { print "hello"; exit 0 }`, "hello\n", 0},
		{`BEGIN { print "hello"; exit 3 }`, "hello\n", 3},
		{`BEGIN { printf "x" } END { print "y" }`, "xy\n", 0},
		{loop(1000, ""), lines(1000), 0},         // 11 000 bytes: one buffer-load, the only write is the final flush
		{loop(5957, "; exit 3"), lines(5957), 3}, // 65 527 bytes: just below the 64 KiB buffer
		{loop(5958, ""), lines(5958), 0},         // 65 538 bytes: the last 2 bytes are left for the final flush
		{loop(7000, "; exit 3"), lines(7000), 3}, // > 64 KiB: a print statement itself sees the failure
		{loop(20000, ""), lines(20000), 0},
	}
	targets := []string{"ok", "rofile", "closedpipe"}
	if _, err := os.Stat("/dev/full"); err == nil {
		targets = append(targets, "devfull")
	}
	var res []c13Case
	for _, p := range progs {
		for _, t := range targets {
			res = append(res, c13Case{Out: "binary", Fail: -1, Raw: p.src, Want: p.want, Bin: t, Exit: p.exit})
		}
	}
	return res
}

func c13BinOracle(cs *c13Case, obs *c13Obs) (bad []c13Verdict) {
	if obs.Panic != "" {
		return []c13Verdict{{What: obs.Panic}}
	}
	if cs.Bin == "ok" {
		if obs.Status != cs.Exit || obs.Stdout != cs.Want {
			bad = append(bad, c13Verdict{What: "goawk binary with a working standard output: wrong status or output",
				Got: fmt.Sprintf("status %d, %d bytes", obs.Status, len(obs.Stdout)), Want: fmt.Sprintf("status %d, %d bytes", cs.Exit, len(cs.Want))})
		}
		return bad
	}
	if obs.Status == 0 {
		bad = append(bad, c13Verdict{What: fmt.Sprintf("goawk binary: every write to standard output fails (%s) but the process exited 0 — the output (%d bytes) is lost silently", cs.Bin, len(cs.Want)),
			Got: fmt.Sprintf("status 0, stderr %q", obs.Stderr), Want: "non-zero exit status and a message"})
	} else if cs.Bin != "closedpipe" && strings.TrimSpace(obs.Stderr) == "" {
		bad = append(bad, c13Verdict{What: "goawk binary: a failing standard output ends the process without any message", Got: fmt.Sprintf("status %d, stderr empty", obs.Status), Want: "a message on stderr"})
	}
	return bad
}

func c13Run(cs *c13Case) (obs c13Obs) {
	if cs.Bin != "" {
		return c13RunBin(cs)
	}
	top, err := os.MkdirTemp("", "c13_")
	if err != nil {
		panic(err)
	}
	defer os.RemoveAll(top)
	d, lnk := top+"/w", top+"/l" // the scratch directory and a symbolic link to it
	if err := os.Mkdir(d, 0o755); err != nil {
		panic(err)
	}
	if err := os.Symlink("w", lnk); err != nil {
		panic(err)
	}
	os.WriteFile(d+"/f3", []byte(c13Old3), 0o644)
	src := cs.Raw
	if src == "" {
		src = c13Render(cs, d)
	}
	obs.Src = src
	var mu sync.Mutex
	seq := 0
	tfunc := func(i int, r float64, v string) {
		mu.Lock()
		seq++
		obs.Events = append(obs.Events, c13TEvent{i, r, v, seq})
		mu.Unlock()
	}
	funcs := map[string]interface{}{"t": tfunc}
	prog, err := parser.ParseProgram([]byte(src), &parser.ParserConfig{Funcs: funcs})
	if err != nil {
		panic(fmt.Sprintf("harness program does not parse: %v\n%s", err, src))
	}
	sink := &c13Sink{limit: cs.Fail, failedAt: -1, seq: &seq, seqMu: &mu}
	var errw c13Sink
	errw.limit, errw.failedAt, errw.seq, errw.seqMu = -1, -1, &seq, &mu
	nlMode := map[string]interp.NewlineMode{"": interp.SmartNewlineMode, "smart": interp.SmartNewlineMode, "raw": interp.RawNewlineMode, "crlf": interp.CRLFNewlineMode}[cs.NL]
	// the output mode the run starts in: through the Config fields or through Vars
	mkCfg := func(sfx string, stop int) *interp.Config {
		cfg := &interp.Config{Stdin: strings.NewReader(""), Environ: []string{}, Vars: []string{"D", d, "L", lnk, "SFX", sfx, "STOP", fmt.Sprint(stop)}, Funcs: funcs, NewlineOutput: nlMode}
		if isCSV, sep := c13Mode(cs.OM); isCSV {
			if cs.OMVia == "vars" {
				cfg.Vars = append(cfg.Vars, "OUTPUTMODE", cs.OM)
			} else {
				cfg.OutputMode = interp.CSVMode
				if strings.HasPrefix(cs.OM, "tsv") {
					cfg.OutputMode = interp.TSVMode
				}
				if strings.Contains(cs.OM, "separator=") {
					cfg.CSVOutput.Separator = []rune(sep)[0]
				}
			}
		}
		return cfg
	}
	cfg := mkCfg("", 0)
	cfg.Error = &errw
	var openMu sync.Mutex
	cfg.OpenFile = func(name string, flag int, perm os.FileMode) (*os.File, error) {
		what := "R"
		switch {
		case flag&os.O_TRUNC != 0:
			what = "T"
		case flag&os.O_APPEND != 0:
			what = "A"
		case flag&(os.O_WRONLY|os.O_RDWR) != 0:
			what = "W" // written from the start without truncation: no redirect means that
		}
		f := filepath.Base(filepath.Clean(name))
		if strings.HasSuffix(name, "/") {
			f += "/"
		}
		openMu.Lock()
		obs.Opens = append(obs.Opens, what+":"+f)
		openMu.Unlock()
		return os.OpenFile(name, flag, perm)
	}
	var bw *bufio.Writer
	var rec *c13Rec
	var bb *bytes.Buffer
	switch cs.Out {
	case "plain":
		cfg.Output = sink
	case "bufio":
		bw = bufio.NewWriterSize(sink, 1<<16)
		cfg.Output = bw
	case "rec":
		rec = &c13Rec{under: sink}
		cfg.Output = rec
	case "bytesbuf":
		bb = &bytes.Buffer{}
		cfg.Output = bb
	}
	func() {
		defer func() {
			if r := recover(); r != nil {
				obs.Panic = fmt.Sprint(r)
			}
		}()
		p, err := interp.New(prog)
		if err != nil {
			obs.Err = "interp.New: " + err.Error()
			return
		}
		for _, pv := range cs.Prev {
			var po, pe c13Sink
			po.limit, po.failedAt, po.seq, po.seqMu = -1, -1, &seq, &mu
			pe.limit, pe.failedAt, pe.seq, pe.seqMu = -1, -1, &seq, &mu
			pcfg := mkCfg(pv.Sfx, pv.Stop)
			pcfg.Output, pcfg.Error = &po, &pe
			p.Execute(pcfg)
			ents, _ := os.ReadDir(d)
			for _, e := range ents {
				if strings.HasSuffix(e.Name(), ".out") {
					os.Remove(d + "/" + e.Name()) // the commands' own logs are per run
				}
			}
		}
		// the files the run under test starts with
		cs.Init = map[string]string{}
		ents, _ := os.ReadDir(d)
		for _, e := range ents {
			if e.IsDir() {
				continue
			}
			b, _ := os.ReadFile(d + "/" + e.Name())
			cs.Init[e.Name()] = string(b)
		}
		mu.Lock()
		obs.Events = nil
		mu.Unlock()
		st, err := p.Execute(cfg)
		obs.Status = st
		if err != nil {
			obs.Err = err.Error()
		}
	}()
	obs.Stdout = string(sink.b)
	obs.Stderr = string(errw.b)
	if bb != nil {
		obs.Stdout = bb.String()
	}
	if rec != nil {
		obs.Flushes = rec.flushes
	}
	obs.FailSeq = sink.failedAt
	obs.Files = map[string]string{}
	ents, _ := os.ReadDir(d)
	for _, e := range ents {
		if e.IsDir() {
			continue
		}
		b, _ := os.ReadFile(d + "/" + e.Name())
		obs.Files[e.Name()] = string(b)
	}
	return obs
}

// ---- the specification: destinations are logs (no buffering) ------------------------------------------------------------

type c13SpecStream struct {
	kind string // file cmd rd
	sym  string // the file / command it stands for (several streams can stand for one file: one per spelling)
	log  string
	rest string // rd: unread
}

type c13Spec struct {
	Stdout    string
	Stderr    string // what the program wrote to /dev/stderr
	Files     map[string]string
	CmdOut    map[string]string // sink*.out and snap_*.out contents
	Rets      []string          // per executed op: "" (not checked) or the canonical return
	Opens     []string          // the calls of Config.OpenFile the history stands for: T|A|R ":" file — `>` truncates once per open stream
	Outcome   string
	EarlyExit bool // the history uses a command that stops reading early (oracle only: EPIPE timing is not modelled)
	F25Risk   bool // a |-command that writes to the shared stdout was alive while the program wrote to stdout
	EchoLive  int  // max number of stdout-writing commands alive at once
	Executed  int
	// Two streams (two spellings) open on ONE file at the same time, one of them writing: what the file holds then depends on
	// when each stream's buffer is handed to the OS (and, for `>`, on each descriptor's own offset) — the property says
	// nothing about it. The content of such a file, and what is read from it, is not judged (returns of close / fflush, the
	// other destinations and the sequence of opens still are).
	Shared map[string]bool
}

func c13Early(n string) bool {
	return strings.HasPrefix(n, "quit") || strings.HasPrefix(n, "slow") || strings.HasPrefix(n, "head")
}

func c13Line(s string) (string, string) {
	if i := strings.IndexByte(s, '\n'); i >= 0 {
		return s[:i], s[i+1:]
	}
	return s, ""
}

func c13EvalSpec(cs *c13Case) c13Spec {
	sp := c13Spec{Files: map[string]string{"f3": c13Old3}, CmdOut: map[string]string{}, Outcome: "ok0", Shared: map[string]bool{}}
	if cs.Init != nil {
		sp.Files = map[string]string{}
		for n, c := range cs.Init {
			sp.Files[n] = c
		}
	}
	open := map[string]*c13SpecStream{} // by stream key: the name as written
	var order []string
	eff := c13Eff(cs)
	echoAlive := func() int {
		n := 0
		for k, s := range open {
			if s.kind == "cmd" && strings.HasPrefix(k, "echo") {
				n++
			}
		}
		return n
	}
	toStdout := func(c string) {
		if echoAlive() > 0 {
			sp.F25Risk = true
		}
		sp.Stdout += c
	}
	// others: is the file open under ANOTHER name (writer: only writing streams count)?
	others := func(key, sym string, writerOnly bool) bool {
		for k, s := range open {
			if k != key && s.sym == sym && (s.kind == "file" || (s.kind == "rd" && !writerOnly)) {
				return true
			}
		}
		return false
	}
	closeOne := func(key string) string {
		s := open[key]
		n := s.sym
		delete(open, key)
		switch s.kind {
		case "cmd":
			if strings.HasPrefix(n, "sink") {
				sp.CmdOut[n+".out"] += s.log
				return "n" + n[4:5]
			}
			if c13Early(n) { // consumes its first line only; close() still reports its exit status
				l, _ := c13Line(s.log)
				sp.CmdOut[n+".out"] += l + "\n"
				return "n" + n[4:5]
			}
			sp.Stdout += s.log // echo: copies its input to the shared stdout when it sees EOF
			return "n0"
		}
		return "n0"
	}
loop:
	for i, op := range cs.Ops {
		if c13IsSet(op.K) {
			continue // an assignment: no destination involved, no return value
		}
		op.C = eff[i] // what the destination must receive: the statement's writes, each as the newline mode transforms it
		key := c13Key(op)
		sp.Executed++
		ret := ""
		switch op.K {
		case "p":
			toStdout(op.C)
		case "gt", "app", "pipe":
			if s, ok := open[key]; ok {
				if s.kind == "rd" {
					sp.Outcome = "error:writeToReader"
					break loop
				}
				s.log += op.C
				if s.kind == "file" {
					sp.Files[op.N] += op.C
				}
				break
			}
			switch {
			case op.K == "pipe":
				if c13Early(op.N) {
					sp.EarlyExit = true
				}
				open[key] = &c13SpecStream{kind: "cmd", sym: op.N, log: op.C}
				order = append(order, key)
				if e := echoAlive(); e > sp.EchoLive {
					sp.EchoLive = e
				}
			case op.N == "-" || op.N == "/dev/stdout":
				toStdout(op.C)
			case op.N == "/dev/stderr":
				sp.Stderr += op.C
			case op.S == "tslash":
				// "<file>/" is not a regular file: the open fails and the statement is a run-time error
				sp.Opens = append(sp.Opens, map[string]string{"gt": "T", "app": "A"}[op.K]+":"+op.N+"/")
				sp.Outcome = "error:redirect"
				break loop
			default:
				if others(key, op.N, false) {
					sp.Shared[op.N] = true
				} else if op.K == "gt" {
					delete(sp.Shared, op.N) // nobody else has it open and it is cut to nothing: its content is known again
				}
				if op.K == "gt" {
					sp.Files[op.N] = op.C
					sp.Opens = append(sp.Opens, "T:"+op.N)
				} else {
					sp.Files[op.N] += op.C
					sp.Opens = append(sp.Opens, "A:"+op.N)
				}
				open[key] = &c13SpecStream{kind: "file", sym: op.N, log: op.C}
				order = append(order, key)
			}
		case "close":
			if _, ok := open[key]; ok {
				ret = closeOne(key)
			} else {
				ret = "n-1"
			}
		case "ff":
			// fflush(name): 0 when the name is an open output stream, else -1 (a reader, a special name, not open)
			if s, ok := open[key]; ok && s.kind != "rd" {
				if !c13Early(op.N) {
					ret = "n0"
				}
			} else {
				ret = "n-1"
			}
		case "ffa":
			ret = "n0"
			for _, s := range open {
				if s.kind == "cmd" && c13Early(s.sym) {
					ret = "" // flushing into a command that has gone may fail
				}
			}
		case "sys":
			switch {
			case strings.HasPrefix(op.N, "snap_"):
				if sp.Shared[op.N[5:]] {
					sp.Shared[op.N+".out"] = true
				}
				sp.CmdOut[op.N+".out"] += sp.Files[op.N[5:]]
				ret = "n0"
			case strings.HasPrefix(op.N, "say_"):
				toStdout(op.N[4:] + "\n")
				ret = "n0"
			case strings.HasPrefix(op.N, "rc"):
				ret = "n" + op.N[2:3]
			case op.N == "nap":
				ret = "n0"
			}
		case "gf":
			s, ok := open[key]
			if ok && s.kind != "rd" {
				sp.Outcome = "error:readFromWriter"
				break loop
			}
			if !ok {
				sp.Opens = append(sp.Opens, "R:"+op.N)
				if others(key, op.N, true) {
					sp.Shared[op.N] = true
				}
				data, exists := sp.Files[op.N]
				if !exists {
					ret = "l-1:-"
					break
				}
				s = &c13SpecStream{kind: "rd", sym: op.N, rest: data}
				open[key] = s
				order = append(order, key)
			}
			if s.rest == "" {
				ret = "l0:-"
			} else {
				var l string
				l, s.rest = c13Line(s.rest)
				// reading is not this property's subject: with RS = "\n" the record splitter (bufio.ScanLines) drops one CR at the end of a line
				ret = "l1:" + vh.HxS(strings.TrimSuffix(l, "\r"))
			}
			if sp.Shared[op.N] {
				ret = ""
			}
		case "exit":
			sp.Outcome = fmt.Sprintf("ok%d", op.V)
			break loop
		case "fail":
			sp.Outcome = "error:divZero"
			break loop
		}
		sp.Rets = append(sp.Rets, ret)
	}
	// end of run: everything still open is closed
	for _, n := range order {
		if _, ok := open[n]; ok {
			closeOne(n)
		}
	}
	return sp
}

// ---- comparing -----------------------------------------------------------------------------------------------------------

func c13Outcome(obs *c13Obs) string {
	switch {
	case obs.Err == "":
		return fmt.Sprintf("ok%d", obs.Status)
	case strings.Contains(obs.Err, "can't write to reader stream"):
		return "error:writeToReader"
	case strings.Contains(obs.Err, "can't read from writer stream"):
		return "error:readFromWriter"
	case strings.Contains(obs.Err, "division by zero"):
		return "error:divZero"
	case strings.Contains(obs.Err, "output redirection error"):
		return "error:redirect"
	case strings.Contains(obs.Err, errC13Write.Error()):
		return "error:stdoutWrite"
	}
	return "error:other:" + obs.Err
}

func c13RealRets(cs *c13Case, obs *c13Obs) []string {
	var res []string
	for _, e := range obs.Events {
		if e.I < 0 || e.I >= len(cs.Ops) {
			continue
		}
		switch cs.Ops[e.I].K {
		case "close", "ff", "ffa", "sys":
			res = append(res, fmt.Sprintf("n%d", int(e.R)))
		case "gf":
			res = append(res, fmt.Sprintf("l%d:%s", int(e.R), vh.HxS(e.V)))
		default:
			res = append(res, "-")
		}
	}
	return res
}

type c13Verdict struct{ What, Finding, Got, Want string }

// a message of the interpreter on the error stream (printErrorf: one Fprintf, a whole line)
var c13ErrMsg = regexp.MustCompile(`(error (flushing|closing) "[^\n]*|exec: [^\n]*|signal: [^\n]*)\n`)

// c13Visible: the operations that return something / take part in the model (assignments to OFS, ORS, $0 do not)
func c13Visible(cs *c13Case) []c13Op {
	var res []c13Op
	for _, op := range cs.Ops {
		if !c13IsSet(op.K) {
			res = append(res, op)
		}
	}
	return res
}

func c13Oracle(cs *c13Case, obs *c13Obs) (bad []c13Verdict, sp c13Spec) {
	if cs.Bin != "" {
		return c13BinOracle(cs, obs), sp
	}
	if cs.Raw != "" {
		if obs.Stdout != cs.Want || obs.Panic != "" {
			bad = append(bad, c13Verdict{What: "program output written while a `print | cmd` child is alive is lost or torn (Config.Output shared, unsynchronised, with os/exec's copy goroutine)",
				Finding: "F25", Got: fmt.Sprintf("%q panic=%q", obs.Stdout, obs.Panic), Want: fmt.Sprintf("%q", cs.Want)})
		}
		return bad, sp
	}
	sp = c13EvalSpec(cs)
	if obs.Panic != "" {
		return []c13Verdict{{What: "the interpreter panicked: " + obs.Panic}}, sp
	}
	if sp.EarlyExit && strings.Contains(obs.Err, "broken pipe") {
		// a print itself hit the dead command (only possible when the machine is very slow): says nothing about close()
		return nil, sp
	}
	f25 := ""
	if sp.F25Risk && (cs.Out == "bufio" || cs.Out == "bytesbuf") {
		f25 = "F25"
	}
	outcome := c13Outcome(obs)
	if cs.Fail >= 0 {
		// the fault clause: a failing write to standard output makes the run fail
		if len(sp.Stdout) > cs.Fail && !strings.HasPrefix(sp.Outcome, "error:") {
			if obs.Err == "" {
				finding := ""
				if cs.Out == "bufio" || cs.Out == "rec" {
					// F17-api: buffered Config.Output; the failing underlying write happened inside a Flush whose error is
					// discarded, and no print to standard output completed after it
					finding = "F17-api"
					for _, e := range obs.Events {
						if obs.FailSeq >= 0 && e.Seq > obs.FailSeq && e.I >= 0 && e.I < len(cs.Ops) {
							switch op := cs.Ops[e.I]; {
							case op.K == "p", (op.K == "gt" || op.K == "app") && (op.N == "-" || op.N == "/dev/stdout"):
								finding = ""
							}
						}
					}
				}
				bad = append(bad, c13Verdict{What: fmt.Sprintf("standard output failed after %d of %d bytes but the run succeeded (status %d, no error)", cs.Fail, len(sp.Stdout), obs.Status),
					Finding: finding, Got: outcome, Want: "an error"})
			}
		}
		if !strings.HasPrefix(sp.Stdout, obs.Stdout) {
			bad = append(bad, c13Verdict{What: "what reached the failing standard output is not a prefix of what the program wrote", Got: fmt.Sprintf("%q", obs.Stdout), Want: fmt.Sprintf("prefix of %q", sp.Stdout)})
		}
		return bad, sp
	}
	if outcome != sp.Outcome {
		bad = append(bad, c13Verdict{What: "the run ended differently from the history's meaning", Got: outcome + " " + obs.Err, Want: sp.Outcome})
	}
	if obs.Stdout != sp.Stdout {
		bad = append(bad, c13Verdict{What: "standard output does not hold exactly the bytes written to it, in order (program and children)", Finding: f25,
			Got: fmt.Sprintf("%q", obs.Stdout), Want: fmt.Sprintf("%q", sp.Stdout)})
	}
	names := map[string]bool{}
	for n := range sp.Files {
		names[n] = true
	}
	for n := range obs.Files {
		if !strings.HasSuffix(n, ".out") {
			names[n] = true
		}
	}
	for n := range names {
		if sp.Shared[n] {
			continue
		}
		got, ok := obs.Files[n]
		if want, ok2 := sp.Files[n]; got != want || ok != ok2 {
			bad = append(bad, c13Verdict{What: fmt.Sprintf("file %s does not hold (truncated-or-old content) ++ the writes to it in order", n),
				Got: fmt.Sprintf("%q exists=%v", got, ok), Want: fmt.Sprintf("%q exists=%v", want, ok2)})
		}
	}
	for n, want := range sp.CmdOut {
		if c13Early(n) && obs.Files[n] != want {
			bad = append(bad, c13Verdict{What: "early-exit command " + n + " did not receive its first line exactly once", Got: fmt.Sprintf("%q", obs.Files[n]), Want: fmt.Sprintf("%q", want)})
		}
		if strings.HasPrefix(n, "sink") && obs.Files[n] != want {
			bad = append(bad, c13Verdict{What: "command " + n + " did not receive exactly the bytes written to it", Got: fmt.Sprintf("%q", obs.Files[n]), Want: fmt.Sprintf("%q", want)})
		}
		if strings.HasPrefix(n, "snap_") && obs.Files[n] != want && !sp.Shared[n] {
			bad = append(bad, c13Verdict{What: "a system() child did not see the bytes written to the file before it started (" + n + ")", Got: fmt.Sprintf("%q", obs.Files[n]), Want: fmt.Sprintf("%q", want)})
		}
	}
	// /dev/stderr: the program's own writes, in order; the interpreter's messages (whole lines, written in one piece) are set aside
	if got := c13ErrMsg.ReplaceAllString(obs.Stderr, ""); got != sp.Stderr && !sp.EarlyExit {
		bad = append(bad, c13Verdict{What: "the error stream does not hold exactly the bytes written to /dev/stderr, in order", Got: fmt.Sprintf("%q", obs.Stderr), Want: fmt.Sprintf("%q (plus messages of the interpreter)", sp.Stderr)})
	}
	// a name opened with > is truncated ONCE per open stream, >> never truncates: the opens the interpreter asked the OS for
	if fmt.Sprint(obs.Opens) != fmt.Sprint(sp.Opens) && sp.Outcome == outcome {
		bad = append(bad, c13Verdict{What: "the files were not opened (T = truncating, A = appending, R = reading) as the history says: once per open stream, under the redirect of its first use",
			Got: fmt.Sprint(obs.Opens), Want: fmt.Sprint(sp.Opens)})
	}
	rets := c13RealRets(cs, obs)
	vis := c13Visible(cs)
	for i, want := range sp.Rets {
		if want == "" || i >= len(rets) {
			continue
		}
		if rets[i] != want {
			bad = append(bad, c13Verdict{What: fmt.Sprintf("operation %d (%s %s) returned the wrong value", i, vis[i].K, vis[i].N), Got: rets[i], Want: want})
		}
	}
	return bad, sp
}

func c13LeanReq(cs *c13Case) string {
	var b strings.Builder
	buffered := "0"
	if cs.Out == "bufio" || cs.Out == "rec" {
		buffered = "1"
	}
	fail := "-"
	if cs.Fail >= 0 {
		fail = fmt.Sprint(cs.Fail)
	}
	init := cs.Init
	if init == nil {
		init = map[string]string{"f3": c13Old3}
	}
	var pairs []string
	for n, c := range init {
		pairs = append(pairs, vh.HxS(n)+"="+vh.HxS(c))
	}
	sort.Strings(pairs)
	fsArg := "."
	if len(pairs) > 0 {
		fsArg = strings.Join(pairs, ",")
	}
	crlf := "0"
	if c13CRLF(cs.NL) {
		crlf = "1"
	}
	fmt.Fprintf(&b, "runx %s %s %s %s", crlf, buffered, fail, fsArg)
	omArg := func(om string) string { // the separator of a CSV mode (hex), "-" for the default mode
		_, sep := c13Mode(om)
		return vh.HxS(sep)
	}
	if cs.OM != "" {
		fmt.Fprintf(&b, " om:%s", omArg(cs.OM))
	}
	stmts := c13Stmts(cs)
	body := func(i int) string { // P = bare print, P<arg>+<arg>… = print with arguments, F<s> = printf (one write)
		st := stmts[i]
		if st.Printf {
			return "F" + vh.HxS(st.Writes[0])
		}
		var as []string
		for _, a := range st.Args {
			as = append(as, vh.HxS(a))
		}
		return "P" + strings.Join(as, "+")
	}
	for i, op := range cs.Ops {
		switch op.K {
		case "ofs", "ors", "rec":
			fmt.Fprintf(&b, " %s:%s", op.K, vh.HxS(op.C))
		case "om":
			fmt.Fprintf(&b, " om:%s", omArg(op.C))
		case "p":
			fmt.Fprintf(&b, " p:%s", body(i))
		case "gt", "app", "pipe":
			fmt.Fprintf(&b, " %s:%s:%s", op.K, vh.HxS(op.N), body(i))
		case "close", "ff", "sys", "gf":
			fmt.Fprintf(&b, " %s:%s", op.K, vh.HxS(op.N))
		case "ffa", "fail":
			b.WriteString(" " + op.K)
		case "exit":
			fmt.Fprintf(&b, " exit:%d", op.V)
		}
	}
	return b.String()
}

func c13Compare(cs *c13Case, obs *c13Obs, ans string) string {
	f := strings.Fields(ans)
	if len(f) != 8 || f[0] != "ok" {
		return "driver answered " + ans
	}
	if obs.Panic != "" {
		return "real run panicked"
	}
	// returns
	var mrets []string
	if f[1] != "." {
		mrets = strings.Split(f[1], ",")
	}
	rets := c13RealRets(cs, obs)
	for i, r := range rets {
		if i >= len(mrets) {
			return fmt.Sprintf("real run completed %d operations, model %d", len(rets), len(mrets))
		}
		if mrets[i] != r {
			vis := c13Visible(cs)
			return fmt.Sprintf("op %d (%s %s): model returns %s, real %s", i, vis[i].K, vis[i].N, mrets[i], r)
		}
	}
	extra := len(mrets) - len(rets)
	last := ""
	if len(mrets) > 0 {
		last = mrets[len(mrets)-1]
	}
	if !(extra == 0 || (extra == 1 && (strings.HasPrefix(last, "e") || strings.HasPrefix(last, "x")))) {
		return fmt.Sprintf("model executed %d operations, real run %d", len(mrets), len(rets))
	}
	if got := c13Outcome(obs); got != f[2] {
		return fmt.Sprintf("outcome: model %s, real %s (%s)", f[2], got, obs.Err)
	}
	if got := vh.HxS(obs.Stdout); got != f[3] {
		return fmt.Sprintf("stdout: model %q, real %q", vh.Unhx(f[3]), obs.Stdout)
	}
	if cs.Out == "rec" {
		var fl []string
		for _, x := range obs.Flushes {
			fl = append(fl, vh.HxS(x))
		}
		got := "."
		if len(fl) > 0 {
			got = strings.Join(fl, ",")
		}
		if got != f[4] {
			return fmt.Sprintf("Flush calls on Config.Output: model %s, real %s", f[4], got)
		}
	}
	mfs := map[string]string{}
	if f[5] != "." {
		for _, p := range strings.Split(f[5], ",") {
			kv := strings.Split(p, "=")
			mfs[string(vh.Unhx(kv[0]))] = string(vh.Unhx(kv[1]))
		}
	}
	for n, c := range obs.Files {
		if strings.HasSuffix(n, ".out") {
			continue
		}
		if m, ok := mfs[n]; !ok || m != c {
			return fmt.Sprintf("file %s: model %q (present=%v), real %q", n, m, ok, c)
		}
	}
	for n := range mfs {
		if _, ok := obs.Files[n]; !ok {
			return fmt.Sprintf("file %s exists in the model only", n)
		}
	}
	mcmd := map[string]string{}
	if f[6] != "." {
		for _, p := range strings.Split(f[6], ",") {
			x := strings.Split(p, ":")
			n := string(vh.Unhx(x[0]))
			if strings.HasPrefix(n, "sink") || strings.HasPrefix(n, "snap_") {
				mcmd[n+".out"] += string(vh.Unhx(x[1]))
			}
		}
	}
	for n, c := range obs.Files {
		if strings.HasSuffix(n, ".out") && mcmd[n] != c {
			return fmt.Sprintf("command log %s: model %q, real %q", n, mcmd[n], c)
		}
	}
	for n, c := range mcmd {
		if obs.Files[n] != c {
			return fmt.Sprintf("command log %s: model %q, real %q", n, c, obs.Files[n])
		}
	}
	return ""
}

// ---- generators ---------------------------------------------------------------------------------------------------------

func c13Corpus() []c13Case {
	h := func(ops ...c13Op) []c13Op { return ops }
	P := func(c string) c13Op { return c13Op{K: "p", C: c} }
	W := func(k, n, c string) c13Op { return c13Op{K: k, N: n, C: c} }
	X := func(k, n string) c13Op { return c13Op{K: k, N: n} }
	hist := [][]c13Op{
		h(P("a\n"), W("gt", "f1", "x\n"), W("gt", "f1", "y\n"), W("app", "f1", "z\n"), X("close", "f1"), W("app", "f1", "w\n")), // trunc once, then append
		h(W("app", "f3", "n\n"), X("close", "f3"), W("gt", "f3", "m\n")),                                                        // >> keeps, > truncates on reopen
		h(W("gt", "f3", "q")), // left open: closeAll delivers
		h(P("1\n"), W("pipe", "echo1", "2\n"), X("close", "echo1"), P("3\n")),                                                           // Appendix C: print 1; print 2 | "cat"
		h(P("1\n"), X("sys", "say_hi"), P("2\n"), W("gt", "f1", "k\n"), X("sys", "snap_f1"), W("gt", "f1", "l\n"), X("sys", "snap_f1")), // flushed before child
		h(W("pipe", "sink3b", "in\n"), W("pipe", "sink3b", "more\n"), X("close", "sink3b"), X("close", "sink3b"), X("sys", "rc3")),      // close status
		h(W("gt", "f1", "a\n"), X("gf", "f1")), // read from writer
		h(X("gf", "f3"), W("gt", "f3", "a\n")), // write to reader
		h(W("gt", "f1", "a\nb\n"), X("close", "f1"), X("gf", "f1"), X("gf", "f1"), X("gf", "f1"), X("close", "f1"), X("gf", "f2")),
		h(P("a\n"), W("gt", "f1", "x\n"), W("pipe", "sink0a", "y\n"), c13Op{K: "exit", V: 3}, P("never\n")),                      // exit delivers
		h(P("a\n"), W("gt", "f1", "x\n"), W("pipe", "sink0a", "y\n"), W("pipe", "echo1", "e\n"), c13Op{K: "fail"}, P("never\n")), // error delivers
		h(P("a"), W("gt", "-", "b"), W("gt", "/dev/stdout", "c"), W("app", "/dev/stdout", "d"), W("gt", "/dev/stderr", "e"), P("f\n")),
		h(P("a\n"), X("ff", "nope"), P("b\n"), W("gt", "f1", "x"), X("ff", "f1"), X("sys", "snap_f1"), c13Op{K: "ffa"}, X("ff", "f3"), X("gf", "f3"), X("ff", "f3")),
		h(P("x\n")), // F17 witness history
		h(P("x\n"), W("gt", "f1", "y\n")),
		h(P("x\n"), c13Op{K: "ffa"}, P("y\n")),
	}
	var res []c13Case
	for _, ops := range hist {
		for _, out := range []string{"plain", "bufio", "rec"} {
			res = append(res, c13Case{Out: out, Fail: -1, Ops: ops})
		}
	}
	// close() of an output pipe reports the command's exit status also when the command stopped reading early and data is still
	// buffered for it (the final flush of the pipe then fails with EPIPE)
	big := strings.Repeat("0123456789abcde\n", 4400) // 70 400 bytes: more than the 64 KiB stream buffer and the pipe
	mid := strings.Repeat("0123456789abcde\n", 3700) // 59 200 bytes: stays buffered until close
	early := [][]c13Op{
		h(W("pipe", "quit3a", "one\n"), X("ff", "quit3a"), X("sys", "nap"), W("pipe", "quit3a", "two\n"), X("close", "quit3a"), P("z\n")),
		h(W("pipe", "head0b", "first\n"), X("ff", "head0b"), X("sys", "nap"), W("pipe", "head0b", "second\n"), X("close", "head0b")),
		h(W("pipe", "quit3a", "one\n"), X("ff", "quit3a"), X("sys", "nap"), W("pipe", "quit3a", mid), X("close", "quit3a")),
		h(W("pipe", "slow3c", "one\n"), W("pipe", "slow3c", big), X("close", "slow3c"), P("z\n")),
		h(W("pipe", "quit3a", "one\n"), X("ff", "quit3a"), X("sys", "nap"), W("pipe", "quit3a", "two\n")), // left to closeAll
		h(W("pipe", "quit0d", "only\n"), X("close", "quit0d")),
	}
	for _, ops := range early {
		for _, out := range []string{"plain", "bufio"} {
			res = append(res, c13Case{Out: out, Fail: -1, Ops: ops})
		}
	}
	// a reused Interpreter: the same program run before on the same Interpreter (same or other file names; stopped early by exit or
	// by a run-time error, or run to the end); the run under test is judged on its own: `>` truncates at its first open IN THIS RUN
	reuse := [][]c13Op{
		h(P("a\n"), W("gt", "f1", "x\n"), W("gt", "f1", "y\n")), // stream left open at the end of every run
		h(W("gt", "f1", "x\n"), X("close", "f1"), W("app", "f1", "y\n"), W("gt", "f2", "z\n")),
		h(W("app", "f3", "n\n"), W("pipe", "sink0a", "s\n"), P("b\n")),
		h(W("pipe", "sink3b", "s\n"), X("close", "sink3b"), W("pipe", "sink3b", "t\n")),
		h(W("gt", "f1", "x\n"), W("gt", "f2", "y\n"), c13Op{K: "exit", V: 1}),
		h(W("gt", "f2", "y\n"), W("gt", "f1", "x\n"), c13Op{K: "fail"}),
		h(W("gt", "f1", "x\n"), X("gf", "f2"), W("gt", "/dev/stdout", "o\n")),
	}
	for _, ops := range reuse {
		for _, prev := range [][]c13Prev{{{"", 0}}, {{"x", 0}}, {{"", 2}}, {{"", -2}}, {{"", 0}, {"x", 3}}, {{"x", 0}, {"", 0}}} {
			for _, out := range []string{"plain", "bufio"} {
				res = append(res, c13Case{Out: out, Fail: -1, Ops: ops, Prev: prev})
			}
		}
	}
	// F17-api witness: the only failing write is the final flush of a buffered Config.Output
	res = append(res, c13Case{Out: "bufio", Fail: 0, Ops: h(P("x\n"))})
	res = append(res, c13Case{Out: "rec", Fail: 1, Ops: h(P("x\n"))})
	res = append(res, c13Case{Out: "plain", Fail: 0, Ops: h(P("x\n"))})
	return res
}

// F25, deterministic form: Config.Output is a *bytes.Buffer; while the `|` child is alive os/exec's copy goroutine is parked
// inside bytes.Buffer.ReadFrom with a stale length, and truncates the buffer to it when the child exits.
func c13F25Witness() c13Case {
	return c13Case{Out: "bytesbuf", Fail: -1,
		Raw:  `BEGIN { print "a"; print "x" | "cat >/dev/null"; for (i = 0; i < 300000; i++) k += i; print "kept?"; close("cat >/dev/null"); print "after" }`,
		Want: "a\nkept?\nafter\n"}
}

func c13Random(c *vh.Ctx, faultFree bool) c13Case {
	r := c.Rng
	files := []string{"f1", "f2", "f3"}
	pipes := []string{"sink0a", "sink3b", "echo1"}
	syss := []string{"snap_f1", "snap_f2", "snap_f3", "say_hi", "rc3", "rc0"}
	specials := []string{"-", "/dev/stdout", "/dev/stderr"}
	tok := func(i int) string {
		t := fmt.Sprintf("%c%d", 'a'+rune(r.Intn(26)), i)
		switch r.Intn(6) {
		case 0:
			return t // no newline
		case 1:
			return t + "\n" + t + "\n"
		}
		return t + "\n"
	}
	var used []string
	pick := func(xs []string) string {
		n := xs[r.Intn(len(xs))]
		used = append(used, n)
		return n
	}
	n := 2 + r.Intn(12)
	var ops []c13Op
	for i := 0; i < n; i++ {
		var op c13Op
		switch k := r.Intn(40); {
		case k < 8:
			op = c13Op{K: "p", C: tok(i)}
		case k < 14:
			op = c13Op{K: "gt", N: pick(files), C: tok(i)}
		case k < 18:
			op = c13Op{K: "app", N: pick(files), C: tok(i)}
		case k < 20:
			op = c13Op{K: []string{"gt", "app"}[r.Intn(2)], N: specials[r.Intn(3)], C: tok(i)}
		case k < 24 && !faultFree:
			op = c13Op{K: "gt", N: pick(files), C: tok(i)}
		case k < 24:
			op = c13Op{K: "pipe", N: pick(pipes), C: fmt.Sprintf("%c%d\n", 'a'+rune(r.Intn(26)), i)}
		case k < 29:
			op = c13Op{K: "close", N: "f1"}
			if len(used) > 0 {
				op.N = used[r.Intn(len(used))]
			}
		case k < 31:
			op = c13Op{K: "ff", N: "f2"}
			if len(used) > 0 {
				op.N = used[r.Intn(len(used))]
			}
		case k < 33:
			op = c13Op{K: "ffa"}
		case k < 36 && faultFree:
			op = c13Op{K: "sys", N: syss[r.Intn(len(syss))]}
		case k < 36:
			op = c13Op{K: "p", C: tok(i)}
		case k < 38:
			op = c13Op{K: "gf", N: files[r.Intn(3)]}
		case k < 39:
			if i > n/2 || (i > 0 && r.Intn(3) == 0) {
				op = c13Op{K: "exit", V: r.Intn(4)}
			} else {
				op = c13Op{K: "p", C: tok(i)}
			}
		default:
			if i > n/2 || (i > 0 && r.Intn(3) == 0) {
				op = c13Op{K: "fail"}
			} else {
				op = c13Op{K: "app", N: pick(files), C: tok(i)}
			}
		}
		ops = append(ops, op)
	}
	cs := c13Case{Out: []string{"plain", "bufio", "rec"}[r.Intn(3)], Fail: -1, Ops: ops}
	if r.Intn(4) == 0 {
		cs.NL = []string{"crlf", "crlf", "raw", "smart"}[r.Intn(4)]
	}
	if faultFree && r.Intn(3) == 0 {
		for k, m := 0, 1+r.Intn(2); k < m; k++ {
			pv := c13Prev{Sfx: []string{"", "", "x"}[r.Intn(3)]}
			if r.Intn(2) == 0 {
				pv.Stop = r.Intn(2*n+1) - n
			}
			cs.Prev = append(cs.Prev, pv)
		}
	}
	return cs
}

// c13NLValue: a printed value / separator / record built from letters, CR and LF, biased towards ENDING in CR and STARTING with LF
// (the adjacencies value|OFS, value|ORS, ORS|next record are where writes meet)
func c13NLValue(c *vh.Ctx, sep bool) string {
	r := c.Rng
	if sep && r.Intn(3) == 0 {
		return []string{"\n", " ", "\r\n", "\r", "\n\r", ",", "", "\n\n", "\r\r\n", "\nx", ";\r"}[r.Intn(11)]
	}
	pieces := []string{"\r", "\n", "\r\n", "\r", "\n"}
	var b strings.Builder
	for k, m := 0, r.Intn(4); k < m; k++ {
		if r.Intn(2) == 0 {
			b.WriteByte(byte('a' + r.Intn(26)))
		} else {
			b.WriteString(pieces[r.Intn(len(pieces))])
		}
	}
	v := b.String()
	switch r.Intn(6) {
	case 0:
		v += "\r"
	case 1:
		v = "\n" + v
	case 2:
		v = "\n" + v + "\r"
	}
	return v
}

// c13RandomNL: histories of print statements in every form (bare print of $0, print with 1–3 arguments, printf with arguments,
// printf with a literal format) to every kind of destination, with OFS / ORS / $0 assigned along the way, under a
// newline-output mode; children: the storing commands, and (rarely) the one that copies to the shared stdout
func c13RandomNL(c *vh.Ctx, children bool) c13Case {
	r := c.Rng
	files := []string{"f1", "f2", "f3"}
	pipes := []string{"sink0a", "sink3b", "sink0a", "echo1"}
	var used []string
	dest := func() (string, string) {
		switch k := r.Intn(20); {
		case k < 7:
			return "p", ""
		case k < 11:
			n := files[r.Intn(3)]
			used = append(used, n)
			return "gt", n
		case k < 14:
			n := files[r.Intn(3)]
			used = append(used, n)
			return "app", n
		case k < 16:
			return []string{"gt", "app"}[r.Intn(2)], []string{"-", "/dev/stdout"}[r.Intn(2)]
		case k < 19 && children:
			n := pipes[r.Intn(len(pipes))]
			used = append(used, n)
			return "pipe", n
		}
		return "p", ""
	}
	n := 3 + r.Intn(9)
	var ops []c13Op
	for i := 0; i < n; i++ {
		var op c13Op
		switch k := r.Intn(30); {
		case k < 3:
			op = c13Op{K: "ors", C: c13NLValue(c, true)}
		case k < 6:
			op = c13Op{K: "ofs", C: c13NLValue(c, true)}
		case k < 8:
			op = c13Op{K: "rec", C: c13NLValue(c, false)}
		case k < 22:
			op.K, op.N = dest()
			switch f := r.Intn(10); {
			case f < 2:
				op.F = "print" // bare
			case f < 7:
				op.F = "print"
				for a, m := 0, 1+r.Intn(3); a < m; a++ {
					op.A = append(op.A, c13NLValue(c, false))
				}
			case f < 9:
				op.F = "printf"
				for a, m := 0, 1+r.Intn(2); a < m; a++ {
					op.A = append(op.A, c13NLValue(c, false))
				}
			default:
				op.F, op.C = "fmt", c13NLValue(c, false)
			}
		case k < 25:
			op = c13Op{K: "close", N: "f1"}
			if len(used) > 0 {
				op.N = used[r.Intn(len(used))]
			}
		case k < 26:
			op = c13Op{K: "ffa"}
		case k < 27:
			op = c13Op{K: "ff", N: "f2"}
			if len(used) > 0 {
				op.N = used[r.Intn(len(used))]
			}
		case k < 28 && children:
			op = c13Op{K: "sys", N: []string{"snap_f1", "snap_f2", "snap_f3", "say_hi"}[r.Intn(4)]}
		case k < 29 && i > 1:
			op = c13Op{K: "exit", V: r.Intn(4)}
		case i > 1:
			op = c13Op{K: "fail"}
		default:
			op = c13Op{K: "p", F: "print", A: []string{c13NLValue(c, false)}}
		}
		ops = append(ops, op)
	}
	return c13Case{Out: []string{"plain", "bufio", "rec"}[r.Intn(3)], Fail: -1, NL: []string{"crlf", "crlf", "crlf", "raw", "smart"}[r.Intn(5)], Ops: ops}
}

// c13EndSweep: the run ends (run-time error / exit, alternating) before EVERY operation position of a history, and after the
// last one: everything printed before that point must be delivered
func c13EndSweep(base c13Case, salt int) []c13Case {
	var body []c13Op
	for _, op := range base.Ops {
		if op.K != "exit" && op.K != "fail" {
			body = append(body, op)
		}
	}
	var res []c13Case
	for k := 0; k <= len(body); k++ {
		cs := base
		cs.Prev = nil
		cs.Ops = append(append([]c13Op{}, body[:k]...), c13Op{K: "fail"})
		if (k+salt)%4 == 3 {
			cs.Ops[k] = c13Op{K: "exit", V: 1 + k%3}
		}
		cs.Ops = append(cs.Ops, c13Op{K: "p", C: "never\n"})
		cs.Out = []string{"bufio", "plain", "rec"}[(k+salt)%3]
		res = append(res, cs)
	}
	return res
}

// c13NLCorpus: the rule of the newline-output mode at every adjacency, every destination, every statement form
func c13NLCorpus() []c13Case {
	pr := func(k, n string, a ...string) c13Op { return c13Op{K: k, N: n, F: "print", A: a} }
	pf := func(k, n string, a ...string) c13Op { return c13Op{K: k, N: n, F: "printf", A: a} }
	var res []c13Case
	vals := []string{"a\r", "a\r\n", "a\n", "\r", "\n", "\r\n", "a\r\r", "\na", "a\r\nb\nc\r"}
	seps := []string{"\n", "\r\n", " ", "\r", "\n\r", ""}
	dsts := [][2]string{{"p", ""}, {"gt", "f1"}, {"app", "f3"}, {"pipe", "sink0a"}, {"gt", "/dev/stdout"}, {"pipe", "echo1"}}
	// the smallest witnesses first: a CR at the end of one write meets an LF at the start of the next
	for di, dst := range dsts {
		for k, ops := range [][]c13Op{
			{pr(dst[0], dst[1], "a\r")},
			{{K: "ofs", C: "\n"}, pr(dst[0], dst[1], "a\r", "b")},
			{{K: "rec", C: "x\r"}, pr(dst[0], dst[1])},
			{{K: "ors", C: "\r"}, pr(dst[0], dst[1], "a"), pf(dst[0], dst[1], "\nb")},
			{pf(dst[0], dst[1], "a\r\n", "\r", "\n")},
		} {
			res = append(res, c13Case{Out: []string{"plain", "bufio", "rec"}[(di+k)%3], Fail: -1, NL: "crlf", Ops: ops})
		}
	}
	// reading back what was written (getline drops one CR before the LF: bufio.ScanLines)
	for k, nl := range []string{"crlf", "raw"} {
		res = append(res, c13Case{Out: []string{"bufio", "plain"}[k], Fail: -1, NL: nl, Ops: []c13Op{pr("gt", "f1", "a"), pr("gt", "f1", "b\r"), pf("gt", "f1", "c\r"),
			{K: "close", N: "f1"}, {K: "gf", N: "f1"}, {K: "gf", N: "f1"}, {K: "gf", N: "f1"}, {K: "gf", N: "f1"}}})
	}
	for _, nl := range []string{"crlf", "raw", "smart", ""} {
		for di, dst := range dsts {
			var ops []c13Op
			for vi, v := range vals {
				ops = append(ops, pr(dst[0], dst[1], v), pr(dst[0], dst[1], v, "x"+v), pf(dst[0], dst[1], v), pf(dst[0], dst[1], v, "\n"))
				if vi%3 == 2 {
					ops = append(ops, c13Op{K: "rec", C: v}, pr(dst[0], dst[1]))
				}
			}
			res = append(res, c13Case{Out: []string{"plain", "bufio", "rec"}[di%3], Fail: -1, NL: nl, Ops: ops})
			for si, sp := range seps {
				ops = []c13Op{{K: "ofs", C: sp}, {K: "ors", C: seps[(si+1)%len(seps)]}}
				for _, v := range vals[:4] {
					ops = append(ops, pr(dst[0], dst[1], v, v), c13Op{K: "rec", C: v}, pr(dst[0], dst[1]), c13Op{K: dst[0], N: dst[1], F: "fmt", C: v + sp})
				}
				res = append(res, c13Case{Out: []string{"bufio", "rec", "plain"}[(di+si)%3], Fail: -1, NL: nl, Ops: ops})
			}
		}
	}
	return res
}

// ---- widening: spellings of file names, output modes ----------------------------------------------------------------------

// c13WithSpell: the same history with its file names spelled differently. mode 0: every file gets ONE spelling, used by
// every operation on it (must behave exactly like the canonical name); mode 1: one or two files are addressed under TWO
// spellings, chosen per operation (two streams on one file); rarely one writing / closing operation names the file with a
// trailing slash (no regular file: a run-time error for a write, -1 for close / fflush).
func c13WithSpell(c *vh.Ctx, cs c13Case, mode int) c13Case {
	r := c.Rng
	ops := append([]c13Op{}, cs.Ops...)
	pickS := func() string {
		if r.Intn(6) == 0 {
			return ""
		}
		return c13Spellings[r.Intn(len(c13Spellings))]
	}
	one := map[string]string{}
	two := map[string][2]string{}
	for _, f := range []string{"f1", "f2", "f3"} {
		one[f] = pickS()
		if one[f] == "" {
			one[f] = c13Spellings[r.Intn(len(c13Spellings))]
		}
	}
	if mode == 1 {
		fs := []string{"f1", "f2", "f3"}
		for k, m := 0, 1+r.Intn(2); k < m; k++ {
			a, b := pickS(), pickS()
			for a == b {
				b = pickS()
			}
			two[fs[r.Intn(3)]] = [2]string{a, b}
		}
	}
	for i := range ops {
		if !c13IsFile(ops[i].N) {
			continue
		}
		ops[i].S = one[ops[i].N]
		if t, ok := two[ops[i].N]; ok {
			ops[i].S = t[r.Intn(2)]
		}
		if k := ops[i].K; (k == "gt" || k == "app" || k == "close" || k == "ff") && r.Intn(40) == 0 {
			ops[i].S = "tslash"
		}
	}
	cs.Ops = ops
	return cs
}

var c13Modes = []string{"csv", "tsv", "csv", "tsv", "csv separator=;", "tsv separator=,", "csv separator=|", "tsv separator=|", "csv separator=\u00e9"}

// c13CSVValue: a field for CSV output: plain, empty, or one that needs quoting under some separator (contains a separator,
// a double quote, CR, LF; starts with white space; is \.)
func c13CSVValue(c *vh.Ctx) string {
	r := c.Rng
	switch r.Intn(12) {
	case 0:
		return ""
	case 1:
		return "\\."
	case 2:
		return []string{" ", "\t", "\u00a0", "\u2003", "\v", "\f", "\u0085"}[r.Intn(7)] + string(rune('a'+r.Intn(26)))
	}
	pieces := []string{",", ";", "|", "\t", "\"", "\"\"", "\r", "\n", "\r\n", " ", "\u00e9", "\\", ".", "'"}
	var b strings.Builder
	for k, m := 0, 1+r.Intn(4); k < m; k++ {
		if r.Intn(5) < 3 {
			b.WriteByte(byte('a' + r.Intn(26)))
		} else {
			b.WriteString(pieces[r.Intn(len(pieces))])
		}
	}
	return b.String()
}

// c13WithOM: the same history under an output mode: the run starts in a CSV / TSV mode (set through Config.OutputMode, through
// Vars, or by an assignment in BEGIN) or switches to one on the way; modes are switched (also back to the default) mid-run;
// about half of the print statements become `print` with 1–4 arguments that need quoting
func c13WithOM(c *vh.Ctx, cs c13Case, binary bool) c13Case {
	r := c.Rng
	mode := func() string {
		if r.Intn(5) == 0 {
			return ""
		}
		return c13Modes[r.Intn(len(c13Modes))]
	}
	var ops []c13Op
	switch r.Intn(4) {
	case 0:
		cs.OM, cs.OMVia = c13Modes[r.Intn(len(c13Modes))], "config"
		if binary {
			cs.OMVia = "opt"
		}
	case 1:
		cs.OM, cs.OMVia = c13Modes[r.Intn(len(c13Modes))], "vars"
	case 2:
		ops = append(ops, c13Op{K: "om", C: c13Modes[r.Intn(len(c13Modes))]})
	}
	for _, op := range cs.Ops {
		if r.Intn(8) == 0 {
			ops = append(ops, c13Op{K: "om", C: mode()})
		}
		if c13IsPrint(op.K) && op.F != "fmt" && r.Intn(2) == 0 {
			op.F, op.A = "print", nil
			for a, m := 0, 1+r.Intn(4); a < m; a++ {
				op.A = append(op.A, c13CSVValue(c))
			}
		}
		ops = append(ops, op)
	}
	cs.Ops = ops
	return cs
}

// c13Widen: force < 0: the treatments at random (about half of the histories stay as they are); 0: spellings, 1: output mode, 2: both
func c13Widen(c *vh.Ctx, cs c13Case, force int) c13Case {
	r := c.Rng
	spell, om := force == 0 || force == 2, force == 1 || force == 2
	if force < 0 {
		spell, om = r.Intn(10) < 3, r.Intn(10) < 3
	}
	if spell {
		cs = c13WithSpell(c, cs, r.Intn(5)/3) // 3 in 5 consistent, 2 in 5 two spellings
	}
	if om {
		cs = c13WithOM(c, cs, false)
	}
	return cs
}

// c13WideCorpus: fixed histories of the two families
func c13WideCorpus() []c13Case {
	var res []c13Case
	W := func(k, n, s, c string) c13Op { return c13Op{K: k, N: n, S: s, C: c} }
	X := func(k, n, s string) c13Op { return c13Op{K: k, N: n, S: s} }
	outs := []string{"plain", "bufio", "rec"}
	// one spelling used consistently: write, close, read back, close, write again (truncates again), flush, look, close
	for si, sp := range append([]string{""}, c13Spellings...) {
		res = append(res, c13Case{Out: outs[si%3], Fail: -1, Ops: []c13Op{
			W("gt", "f1", sp, "first\n"), X("close", "f1", sp), X("gf", "f1", sp), X("gf", "f1", sp), X("close", "f1", sp),
			W("gt", "f1", sp, "second\n"), X("ff", "f1", sp), {K: "sys", N: "snap_f1"}, W("app", "f1", sp, "third\n"), X("close", "f1", sp), X("close", "f1", sp),
			W("app", "f3", sp, "more\n"), X("close", "f3", sp), W("gt", "f3", sp, "new\n")}})
		// two spellings of one file are two streams: each is closed on its own; one after the other the file is exact
		for _, other := range append([]string{""}, c13Spellings...) {
			if other == sp {
				continue
			}
			res = append(res, c13Case{Out: outs[(si+1)%3], Fail: -1, Ops: []c13Op{
				W("gt", "f1", sp, "a\n"), X("close", "f1", other), X("close", "f1", sp), W("app", "f1", other, "b\n"), X("ff", "f1", sp), X("ff", "f1", other),
				X("close", "f1", other), X("gf", "f1", sp), X("gf", "f1", other), X("close", "f1", sp), X("close", "f1", other),
				W("gt", "f2", sp, "x\n"), W("gt", "f2", other, "y\n"), X("close", "f2", sp), X("close", "f2", other), X("close", "f2", other)}})
		}
	}
	res = append(res, c13Case{Out: "plain", Fail: -1, Ops: []c13Op{W("gt", "f1", "", "a\n"), W("gt", "f1", "tslash", "b\n"), {K: "p", C: "never\n"}}})
	res = append(res, c13Case{Out: "bufio", Fail: -1, Ops: []c13Op{W("gt", "f1", "", "a\n"), X("close", "f1", "tslash"), X("ff", "f1", "tslash"), W("app", "f2", "tslash", "b\n")}})
	// output modes: every destination, fields that need quoting, set in every way, switched on the way
	pr := func(k, n string, a ...string) c13Op { return c13Op{K: k, N: n, F: "print", A: a} }
	dsts := [][2]string{{"p", ""}, {"gt", "f1"}, {"app", "f3"}, {"pipe", "sink0a"}, {"gt", "/dev/stdout"}, {"gt", "/dev/stderr"}, {"gt", "-"}, {"pipe", "echo1"}}
	// the smallest ones first: one record to one destination
	for di, d := range dsts {
		for vi, via := range []string{"config", "vars", "begin"} {
			for ai, args := range [][]string{{"a", "b,c"}, {""}, {"x\ty", " z", "q\"q"}} {
				cs := c13Case{Out: outs[(di+vi+ai)%3], Fail: -1, OM: []string{"csv", "tsv"}[ai%2], OMVia: via, Ops: []c13Op{pr(d[0], d[1], args...)}}
				if via == "begin" {
					cs.Ops = []c13Op{{K: "om", C: cs.OM}, cs.Ops[0]}
					cs.OM, cs.OMVia = "", ""
				}
				if d[0] != "p" && d[1] != "-" && !strings.HasPrefix(d[1], "/dev/") && ai == 0 {
					cs.Ops = append(cs.Ops, c13Op{K: "close", N: d[1]})
				}
				res = append(res, cs)
			}
		}
	}
	k := 0
	for _, om := range c13Modes {
		for _, via := range []string{"config", "vars", "begin"} {
			for _, nl := range []string{"", "crlf"} {
				var ops []c13Op
				cs := c13Case{Out: outs[k%3], Fail: -1, NL: nl, OM: om, OMVia: via}
				if via == "begin" {
					cs.OM, cs.OMVia = "", ""
					ops = append(ops, c13Op{K: "om", C: om})
				}
				for _, d := range dsts {
					ops = append(ops, pr(d[0], d[1], "a", "b,c", "d;e|f\tg", "say \"hi\""), pr(d[0], d[1], ""), pr(d[0], d[1], "", ""), pr(d[0], d[1], " lead", "x\r\ny\nz\r", "\\."),
						c13Op{K: "rec", C: "raw,$0 \"as is\""}, pr(d[0], d[1]), c13Op{K: d[0], N: d[1], F: "printf", A: []string{"p,f\n"}})
				}
				ops = append(ops, c13Op{K: "close", N: "f1"}, c13Op{K: "close", N: "sink0a"}, c13Op{K: "om", C: ""}, pr("gt", "f1", "back", "to,default"),
					c13Op{K: "om", C: c13Modes[(k+3)%len(c13Modes)]}, pr("app", "f1", "and,again", "q\"q"), pr("p", "", "end", ""))
				cs.Ops = ops
				res = append(res, cs)
				k++
			}
		}
	}
	return res
}

// c13CSVRoundTrip: the statement of Props.C13.csv_mode_complete on the real code: records printed in a CSV mode (raw newline
// mode, one-byte separator) to standard output / a file / a command; the bytes that ARRIVED there, read by the Lean
// specification reader `csvRead`, must be exactly the printed records, field by field, in order
func c13CSVRoundTrip(c *vh.Ctx) {
	if !c.HasLean() {
		return
	}
	r := c.Rng
	n := c.N(60, 800)
	cases := make([]c13Case, n)
	seps := make([]string, n)
	for i := range cases {
		sep := []string{",", ";", "|", "\t", ":"}[r.Intn(5)]
		om := "csv separator=" + sep
		if sep == "\t" {
			om = "tsv"
		} else if sep == "," && r.Intn(2) == 0 {
			om = "csv"
		}
		dst := [][2]string{{"p", ""}, {"gt", "f1"}, {"app", "f2"}, {"pipe", "sink0a"}}[r.Intn(4)]
		cs := c13Case{Out: []string{"plain", "bufio", "rec"}[r.Intn(3)], Fail: -1, NL: "raw", OM: om, OMVia: []string{"config", "vars"}[r.Intn(2)]}
		for k, m := 0, 1+r.Intn(6); k < m; k++ {
			op := c13Op{K: dst[0], N: dst[1], F: "print"}
			for a, w := 0, 1+r.Intn(4); a < w; a++ {
				op.A = append(op.A, c13CSVValue(c))
			}
			cs.Ops = append(cs.Ops, op)
		}
		cases[i], seps[i] = cs, sep
	}
	obs := make([]c13Obs, n)
	vh.Parallel(n, func(i int) { obs[i] = c13Run(&cases[i]) })
	reqs := make([]string, n)
	arrived := make([]string, n)
	for i := range cases {
		for try := 0; try < 3 && strings.Contains(obs[i].Stderr, "WaitDelay expired"); try++ {
			obs[i] = c13Run(&cases[i])
		}
		switch op := cases[i].Ops[0]; op.K {
		case "p":
			arrived[i] = obs[i].Stdout
		case "pipe":
			arrived[i] = obs[i].Files[op.N+".out"]
		default:
			arrived[i] = obs[i].Files[op.N]
		}
		reqs[i] = "csvread " + vh.HxS(seps[i]) + " " + vh.HxS(arrived[i])
	}
	ans := c.LeanBatch(reqs)
	for i := range cases {
		var recs []string
		for _, op := range cases[i].Ops {
			var fs []string
			for _, a := range op.A {
				fs = append(fs, vh.HxS(a))
			}
			recs = append(recs, strings.Join(fs, ","))
		}
		want := "ok " + strings.Join(recs, ";")
		c.Trace()
		c.Hit("csv-read-back:" + cases[i].Ops[0].K)
		if ans[i] != want {
			c.Fail(vh.Failure{Kind: "correspondence", What: "records printed in CSV output mode, read back from the bytes that arrived with the specification reader (csvRead), are not the records printed",
				Case: &cases[i], Got: fmt.Sprintf("arrived %q, read as %s", arrived[i], ans[i]), Want: want})
		}
	}
	c.Note(fmt.Sprintf("%d histories of CSV-mode prints read back with the Lean specification reader (csv_mode_complete on the real output)", n))
}

func main() { vh.Main("C13", runC13) }

func runC13(c *vh.Ctx) {
	c.Rule("a case = newline-output mode (not set / smart / raw / CRLF; -N on the binary) x kind of Config.Output (plain writer / bufio.Writer / recording flusher) x fault offset (none, or every byte offset of the " +
		"standard-output log) x a history of 2–13 operations drawn from print/printf to stdout, > and >> to three files (one pre-existing), " +
		"to \"-\", /dev/stdout, /dev/stderr, | to commands (two that store their input and exit 0/3, one that copies it to the shared stdout at " +
		"EOF), close, fflush(name), fflush(), system (echo to the shared stdout, copy a file for inspection, exit k), getline < file, exit k, " +
		"a run-time error (also placed before EVERY operation position of a history); print statements in every form (bare print of $0, print " +
		"with 1–3 arguments, printf with arguments, printf with a literal format) with OFS / ORS / $0 assigned along the way and values that " +
		"contain, start with and end in CR, LF, CR LF, judged write by write (each piece of a print is one write; in CRLF mode each write has its " +
		"CR LF pairs read as LF and every LF delivered as CR LF); x spelling of the file names (canonical absolute path, /./, //, /../w/, a leading /., through a symbolic link, " +
		"a trailing slash; one spelling per file used consistently, or two spellings of one file in one history; never a relative name) x output mode (default / csv / tsv / " +
		"with a separator, set by Config.OutputMode+CSVOutput, by Vars, by -o / -v on the binary, by an assignment in BEGIN, switched and switched back mid-run) with print " +
		"arguments that need quoting (separator, double quote, CR, LF, leading white space, \\., empty), judged against an encoder of its own; names are re-used so that one name meets several redirects; non-trivial = the history writes to at least two " +
		"destinations or closes/re-opens one")
	var cases []c13Case
	if c.ReplayFile != "" {
		b, err := os.ReadFile(c.ReplayFile)
		if err != nil {
			panic(err)
		}
		var wrap struct {
			Failure struct {
				Case c13Case `json:"case"`
			} `json:"failure"`
		}
		var direct c13Case
		if json.Unmarshal(b, &wrap) == nil && (len(wrap.Failure.Case.Ops) > 0 || wrap.Failure.Case.Raw != "") {
			cases = []c13Case{wrap.Failure.Case}
		} else if json.Unmarshal(b, &direct) == nil {
			cases = []c13Case{direct}
		}
	} else {
		cases = c13Corpus()
		cases = append(cases, c13NLCorpus()...)
		cases = append(cases, c13WideCorpus()...)
		// every corpus history also with each file under one non-canonical spelling, and under an output mode
		for k, base := range c13Corpus() {
			if len(base.Prev) > 0 && k%6 != 0 {
				continue
			}
			cases = append(cases, c13WithSpell(c, base, 0))
			if base.Fail < 0 {
				cases = append(cases, c13WithOM(c, base, false))
			}
		}
		cases = append(cases, c13F25Witness())
		if bd, err := os.MkdirTemp("", "c13bin_"); err == nil {
			defer os.RemoveAll(bd)
			if err := c13BuildGoawk(bd); err != nil {
				c.Fail(vh.Failure{Kind: "oracle", What: "the goawk binary does not build: " + err.Error(), Case: "go build"})
			} else {
				bin := c13BinCases()
				// the command line's -N mode: print statements to standard output only, through the binary
				for i, n := 0, c.N(12, 60); i < n; i++ {
					cs := c13RandomNL(c, false)
					if i%2 == 1 {
						cs = c13WithOM(c, cs, true)
					}
					var ops []c13Op
					for _, op := range cs.Ops {
						if c13IsSet(op.K) || op.K == "p" || op.K == "exit" || ((op.K == "gt" || op.K == "app") && (op.N == "-" || op.N == "/dev/stdout")) {
							ops = append(ops, op)
						}
					}
					cs.Ops = append(ops, c13Op{K: "p", F: "print", A: []string{"end\r"}})
					sp := c13EvalSpec(&cs)
					b := c13Case{Out: "binary", Fail: -1, NL: cs.NL, OM: cs.OM, OMVia: cs.OMVia, Raw: c13RenderOpt(&cs, "", false), Want: sp.Stdout, Bin: "ok"}
					fmt.Sscanf(sp.Outcome, "ok%d", &b.Exit)
					bin = append(bin, b)
				}
				cases = append(cases, bin...)
				c.Note(fmt.Sprintf("%d runs of the goawk binary (built from the tree under test) with a working / read-only / full / closed standard output", len(bin)))
			}
		}
		nCorpus := len(cases)
		for i, n := 0, c.N(300, 4000); i < n; i++ {
			cases = append(cases, c13Widen(c, c13Random(c, true), -1))
		}
		for i, n := 0, c.N(300, 4000); i < n; i++ {
			cases = append(cases, c13Widen(c, c13RandomNL(c, i%3 == 0), -1))
		}
		// the two widened families on their own: every history under a spelling treatment / an output mode
		for i, n := 0, c.N(300, 3000); i < n; i++ {
			var base c13Case
			if i%2 == 0 {
				base = c13Random(c, true)
			} else {
				base = c13RandomNL(c, i%3 == 0)
			}
			cases = append(cases, c13Widen(c, base, i%3))
		}
		nFree := len(cases) - nCorpus
		// the run ends before every operation position
		nSweep := 0
		for i, n := 0, c.N(16, 200); i < n; i++ {
			var base c13Case
			if i%2 == 0 {
				base = c13Random(c, true)
			} else {
				base = c13RandomNL(c, i%4 == 1)
			}
			base = c13Widen(c, base, -1)
			sw := c13EndSweep(base, i)
			cases = append(cases, sw...)
			nSweep += len(sw)
		}
		// fault injection: histories without child processes, a failure at every byte offset, plain and buffered
		nFault := 0
		for i, n := 0, c.N(25, 150); i < n; i++ {
			base := c13Random(c, false)
			if i%3 == 2 {
				base = c13RandomNL(c, false)
			}
			base = c13Widen(c, base, -1)
			total := len(c13EvalSpec(&base).Stdout)
			for k := 0; k <= total; k++ {
				for _, out := range []string{"plain", "bufio", "rec"} {
					cs := base
					cs.Out, cs.Fail = out, k
					cases = append(cases, cs)
					nFault++
				}
			}
		}
		c.Note(fmt.Sprintf("%d corpus cases, %d generated fault-free histories (half of them print statements in every form under a newline-output mode), "+
			"%d runs that end by a run-time error / exit before every operation position of a history, %d fault-injection runs (every byte offset x plain/bufio/recording flusher)", nCorpus, nFree, nSweep, nFault))
		c.Note("F25 (a |-command alive while the program writes to an unsynchronised Config.Output): the quick and thorough tiers replay one " +
			"deterministic witness (Config.Output = *bytes.Buffer) and otherwise run such histories only with a synchronised plain writer; racing " +
			"writes into a bufio.Writer are not exercised (they would make the check flaky)")
	}

	if c.ReplayFile != "" && len(cases) == 1 && cases[0].Bin != "" {
		bd, _ := os.MkdirTemp("", "c13bin_")
		defer os.RemoveAll(bd)
		if err := c13BuildGoawk(bd); err != nil {
			panic(err)
		}
	}
	// F25: histories in which a stdout-writing command is alive while the program prints are run with the synchronised plain writer only
	for i := range cases {
		if cases[i].Raw == "" && cases[i].Bin == "" && cases[i].Out != "plain" && c13EvalSpec(&cases[i]).F25Risk {
			cases[i].Out = "plain"
		}
	}

	obs := make([]c13Obs, len(cases))
	vh.Parallel(len(cases), func(i int) { obs[i] = c13Run(&cases[i]) })
	// os/exec gives up on a child's output after WaitDelay (250 ms) — on a starved machine that fires spuriously; such runs
	// say nothing about the property and are repeated one at a time
	retried := 0
	for i := range cases {
		for try := 0; try < 4 && strings.Contains(obs[i].Stderr, "WaitDelay expired"); try++ {
			obs[i] = c13Run(&cases[i])
			retried++
		}
	}
	if retried > 0 {
		c.Note(fmt.Sprintf("%d runs repeated because os/exec's WaitDelay expired (machine under load)", retried))
	}

	// Lean answers first (they do not depend on the observations)
	ansOf := map[int]string{}
	if c.HasLean() {
		var reqs []string
		var idx []int
		for i := range cases {
			if cases[i].Raw != "" || cases[i].Bin != "" || c13EvalSpec(&cases[i]).EarlyExit || c13Mixed(&cases[i]) {
				continue // fixed programs, the binary, early-exit commands (EPIPE timing) and two spellings of one file are judged by the oracle only
			}
			reqs = append(reqs, c13LeanReq(&cases[i]))
			idx = append(idx, i)
		}
		ans := c.LeanBatch(reqs)
		for k, i := range idx {
			ansOf[i] = ans[k]
		}
	}
	// a failing case that involves child processes is confirmed by running it again, alone: on a starved machine os/exec's
	// WaitDelay can also expire inside closeAll, where the error is discarded and the child's output is silently missing
	confirmed := 0
	for i := range cases {
		cs := &cases[i]
		hasExec := false
		for _, op := range cs.Ops {
			if op.K == "pipe" || op.K == "sys" {
				hasExec = true
			}
		}
		if !hasExec || cs.Raw != "" {
			continue
		}
		for try := 0; try < 3; try++ {
			bad, _ := c13Oracle(cs, &obs[i])
			unclassified := false
			for _, v := range bad {
				if v.Finding == "" {
					unclassified = true
				}
			}
			if a, ok := ansOf[i]; ok && c13Compare(cs, &obs[i], a) != "" {
				unclassified = true
			}
			if !unclassified {
				break
			}
			obs[i] = c13Run(cs)
			confirmed++
		}
	}
	if confirmed > 0 {
		c.Note(fmt.Sprintf("%d re-runs to confirm failing cases that involve child processes (only failures that persist are reported)", confirmed))
	}

	for i := range cases {
		cs := &cases[i]
		key, _ := json.Marshal(cs)
		dests := map[string]bool{}
		reopen := false
		for _, op := range cs.Ops {
			c.Hit("op:" + op.K)
			switch op.K {
			case "p":
				dests["stdout"] = true
			case "gt", "app", "pipe":
				dests[op.N] = true
			case "close":
				reopen = true
			}
		}
		c.Eval(string(key), len(dests) >= 2 || reopen || cs.Raw != "")
		c.OracleCase()
		c.Hit("output:" + cs.Out)
		c.Hit("newline-output:" + map[string]string{"": "not set (smart)"}[cs.NL] + cs.NL)
		for k, st := range c13Stmts(cs) {
			if st == nil {
				continue
			}
			form := "printf"
			if !st.Printf {
				form = fmt.Sprintf("print/%d-args", len(st.Args))
			}
			c.Hit("statement:" + form)
			if c13CRLF(cs.NL) {
				for w := 0; w+1 < len(st.Writes); w++ {
					if strings.HasSuffix(st.Writes[w], "\r") && strings.HasPrefix(st.Writes[w+1], "\n") {
						c.Hit("crlf-mode:write ending in CR meets write starting with LF, dest " + cs.Ops[k].K)
					}
				}
			}
		}
		if cs.OM != "" {
			c.Hit("output-mode:at start " + strings.Fields(cs.OM)[0] + " via " + cs.OMVia)
		} else {
			c.Hit("output-mode:at start default")
		}
		spelled := false
		for _, op := range cs.Ops {
			if op.K == "om" {
				w := "default"
				if f := strings.Fields(op.C); len(f) > 1 {
					w = f[0] + " with separator"
				} else if len(f) == 1 {
					w = f[0]
				}
				c.Hit("output-mode:assigned in BEGIN " + w)
			}
			if c13IsFile(op.N) && op.S != "" {
				spelled = true
				c.Hit("file-name-spelling:" + op.S + " " + op.K)
			}
		}
		switch {
		case cs.Raw != "" || cs.Bin != "":
		case c13Mixed(cs):
			c.Hit("names:two spellings of one file (or a trailing slash) in one history")
		case spelled:
			c.Hit("names:each file under one non-canonical spelling")
		default:
			c.Hit("names:canonical only")
		}
		for k, st := range c13Stmts(cs) {
			if st != nil && st.CSV {
				quoted := strings.Contains(st.Writes[0], "\"")
				c.Hit(fmt.Sprintf("csv-record:to %s, %d fields, quoting %v", cs.Ops[k].K, min(len(st.Args), 4), quoted))
			}
		}
		c.Hit(fmt.Sprintf("earlier-executes-on-same-interpreter:%d", len(cs.Prev)))
		if cs.Bin != "" {
			c.Hit("binary-stdout:" + cs.Bin)
		}
		if cs.Fail >= 0 {
			c.Hit("fault:injected")
		} else {
			c.Hit("fault:none")
		}
		c.Hit(fmt.Sprintf("history-length:%d", min(len(cs.Ops), 13)))
		bad, sp := c13Oracle(cs, &obs[i])
		c.Hit("outcome:" + c13Outcome(&obs[i]))
		if sp.F25Risk {
			c.Hit("child-alive-while-stdout-written(plain writer)")
		}
		if len(sp.Shared) > 0 {
			c.Hit("names:two streams open on one file at once (its content is not judged)")
		}
		for _, v := range bad {
			c.Fail(vh.Failure{Kind: "oracle", What: v.What, Finding: v.Finding, Case: cs, Got: v.Got, Want: v.Want})
		}
		if i%499 == 0 {
			c.Sample(map[string]interface{}{"case": cs, "program": obs[i].Src, "stdout": obs[i].Stdout, "err": obs[i].Err})
		}
	}

	for i := range cases {
		a, ok := ansOf[i]
		if !ok {
			continue
		}
		c.Trace()
		if msg := c13Compare(&cases[i], &obs[i], a); msg != "" {
			c.Fail(vh.Failure{Kind: "correspondence", What: "Lean output model and real run differ: " + msg, Case: &cases[i],
				Got: fmt.Sprintf("stdout=%q stderr=%q err=%q status=%d events=%v flushes=%q files=%v", obs[i].Stdout, obs[i].Stderr, obs[i].Err, obs[i].Status, obs[i].Events, obs[i].Flushes, obs[i].Files), Want: a})
		}
	}
	_ = sort.Strings
	if c.ReplayFile == "" {
		c13CSVRoundTrip(c)
	}
}
