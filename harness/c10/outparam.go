package main

// Builtins with out-parameters whose target already holds state.
//
// splitx: split() into an array that is pre-populated in every way (non-numeric keys, sparse numeric keys, a longer earlier
// split, an earlier split with elements deleted, the array being the source of s via a[1], reuse inside a loop), as a global,
// a local of a function and an array parameter; 3-argument form with a literal / regex / " " separator, a regex literal,
// the 2-argument form (FS), and CSV input mode. Checked: the return value is the number of pieces, the keys of the array
// are EXACTLY 1..n (for-in enumeration and `k in a` for the old keys), the pieces joined by the separator give back s
// (single-character separators, CSV without quotes); the Lean model's pieces are compared element by element.
// subx: sub/gsub whose target (variable, array element, field, $0) is also the replacement or the regex.
// matchx: match() after RSTART and RLENGTH were assigned by the program.

import (
	"fmt"
	"sort"
	"strconv"
	"strings"
	"unicode/utf8"

	"github.com/benhoyt/goawk/interp"

	"verifharness/vh"
)

var (
	c10Pres   = []string{"none", "nonnum", "sparse", "longer", "deleted", "source", "loop"}
	c10Scopes = []string{"global", "local", "param"}
	c10Forms  = []string{"3arg", "2arg", "relit", "csv"}
)

const c10Report = `function report(arr, n,    k, c) {
  c = 0; for (k in arr) c++
  printf "%d\001%d\001%d%d%d%d%d%d\001", n, c, ("x" in arr), ("k 2" in arr), (5 in arr), (100 in arr), ((n + 1) in arr), (0 in arr)
  for (k in arr) printf "%s\002%s\003", k, arr[k]
}
`

// c10SplitxProg builds the probe program of a template "pre|scope|form".
func c10SplitxProg(t string) string {
	p := strings.Split(t, "|")
	pre, scope, form := p[0], p[1], p[2]
	call := func(src, arr string) string {
		switch form {
		case "3arg":
			return fmt.Sprintf("split(%s, %s, sep)", src, arr)
		case "relit":
			return fmt.Sprintf("split(%s, %s, /[,;]+/)", src, arr)
		}
		return fmt.Sprintf("split(%s, %s)", src, arr) // 2arg, csv
	}
	prep := func(arr string) string {
		switch pre {
		case "nonnum":
			return fmt.Sprintf(`%[1]s["x"] = 1; %[1]s["k 2"] = 2; %[1]s[""] = 3; %[1]s["01"] = 4`, arr)
		case "sparse":
			return fmt.Sprintf(`%[1]s[5] = "q"; %[1]s[100] = "z"; %[1]s[3] = "r"; %[1]s[0] = "o"`, arr)
		case "longer":
			return fmt.Sprintf(`split("p q r s t u v w x y z 1 2 3", %s, " ")`, arr)
		case "deleted":
			return fmt.Sprintf(`split("p q r s t u v w", %[1]s, " "); delete %[1]s[2]; delete %[1]s[1]; delete %[1]s[7]`, arr)
		case "source":
			return fmt.Sprintf(`%[1]s[1] = s; %[1]s[2] = "two"; %[1]s["x"] = "y"`, arr)
		}
		return ""
	}
	src := "s"
	if pre == "source" {
		src = "ARR[1]"
	}
	body := func(arr string) string {
		c := call(strings.ReplaceAll(src, "ARR", arr), arr)
		if pre == "loop" {
			// the array is reused by successive splits of shrinking inputs; the last one splits exactly s
			return fmt.Sprintf(`for (i = 3; i >= 1; i--) { u = s; for (j = 1; j < i; j++) u = u "," s; n = %s }`, call("u", arr))
		}
		return prep(arr) + "; n = " + c
	}
	switch scope {
	case "global":
		return c10Report + "BEGIN { " + body("a") + "; report(a, n) }\n"
	case "local":
		return c10Report + "function f(s, sep,    a, n, i, j, u) { " + body("a") + "; report(a, n) }\nBEGIN { f(s, sep) }\n"
	}
	// an array parameter: the caller's array is pre-populated, the callee splits into it
	inner := call(strings.ReplaceAll(src, "ARR", "arr"), "arr")
	if pre == "loop" {
		return c10Report + "function g(arr, s, sep,    n, i, j, u) { " + body("arr") + "; return n }\nBEGIN { a[9] = 9; n = g(a, s, sep); report(a, n) }\n"
	}
	return c10Report + "function g(arr, s, sep) { return " + inner + " }\nBEGIN { " + prep("a") + "; n = g(a, s, sep); report(a, n) }\n"
}

func c10SubxProg(t string) string {
	p := strings.Split(t, "|")
	target, alias := p[0], p[1]
	var set, lv string
	switch target {
	case "var":
		set, lv = "T = s", "T"
	case "elem":
		set, lv = `a["k"] = s`, `a["k"]`
	case "field":
		set, lv = `$0 = "x\004" s "\004y"`, "$2"
	default: // rec: the 2-argument form, target $0
		set, lv = "$0 = s", "$0"
	}
	re, repl := "re", "repl"
	switch alias {
	case "repl":
		repl = lv
	case "regex":
		re = lv
	case "both":
		re, repl = lv, lv
	}
	one := func(fn, r string) string {
		if target == "rec" {
			return fmt.Sprintf("%s; n = %s(%s, %s); printf \"%%d\\001%%s\\001\", n, $0\n", set, fn, re, r)
		}
		return fmt.Sprintf("%s; n = %s(%s, %s, %s); printf \"%%d\\001%%s\\001\", n, %s\n", set, fn, re, r, lv, lv)
	}
	return "BEGIN { FS = \"\\004\"\n" + one("gsub", `"&"`) + one("gsub", repl) + one("sub", repl) + "}\n"
}

const c10MatchxProg = `BEGIN { RSTART = 77; RLENGTH = 88; r = match(s, re); printf "%d\001%d\001%d\001%s\001", r, RSTART, RLENGTH, substr(s, RSTART, RLENGTH) }`

func c10RunX(k c10Case) ([]string, vh.RunResult) {
	s := string(vh.Unhx(k.S))
	cfg := &interp.Config{Chars: k.Chars}
	var src string
	switch k.Op {
	case "splitx":
		src = c10SplitxProg(k.T)
		cfg.Vars = []string{"s", s, "sep", string(vh.Unhx(k.A))}
		switch strings.Split(k.T, "|")[2] {
		case "2arg":
			cfg.Vars = append(cfg.Vars, "FS", string(vh.Unhx(k.A)))
		case "csv":
			cfg.InputMode = interp.CSVMode
		}
	case "subx":
		src = c10SubxProg(k.T)
		cfg.Vars = []string{"s", s, "re", string(vh.Unhx(k.A)), "repl", string(vh.Unhx(k.R))}
	case "matchx":
		src = c10MatchxProg
		cfg.Vars = []string{"s", s, "re", string(vh.Unhx(k.A))}
	}
	res := vh.ExecProg(vh.MustParse(src), cfg)
	if res.Panic != "" || res.Err != "" {
		return nil, res
	}
	f := strings.Split(res.Out, "\x01")
	return f[:len(f)-1], res
}

// c10SplitxSep: how the separator of a splitx case is interpreted: "lit" (single character, not space), "space", "regex", "csv".
func c10SplitxSep(k c10Case) (kind string, sep []byte) {
	form := strings.Split(k.T, "|")[2]
	sep = vh.Unhx(k.A)
	switch {
	case form == "csv":
		return "csv", []byte(",")
	case form == "relit":
		return "regex", []byte("[,;]+")
	case string(sep) == " ":
		return "space", sep
	case utf8.RuneCount(sep) <= 1:
		return "lit", sep
	}
	return "regex", sep
}

type c10Elem struct{ key, val string }

func c10SplitxParse(o c10Out) (n, cnt int, flags string, elems []c10Elem, ok bool) {
	f := o.f
	if len(f) < 3 {
		return
	}
	n, e1 := strconv.Atoi(f[0])
	cnt, e2 := strconv.Atoi(f[1])
	if e1 != nil || e2 != nil {
		return
	}
	flags = f[2]
	rest := o.res.Out[len(f[0])+len(f[1])+len(f[2])+3:]
	for _, e := range strings.Split(rest, "\x03") {
		if e == "" {
			continue
		}
		kv := strings.SplitN(e, "\x02", 2)
		if len(kv) != 2 {
			return
		}
		elems = append(elems, c10Elem{kv[0], kv[1]})
	}
	return n, cnt, flags, elems, true
}

// c10SplitxPieces: the elements in key order when the keys are exactly "1".."n"; ok=false otherwise.
func c10SplitxPieces(n int, elems []c10Elem) ([]string, bool) {
	if len(elems) != n {
		return nil, false
	}
	pieces := make([]string, n)
	seen := make([]bool, n)
	for _, e := range elems {
		i, err := strconv.Atoi(e.key)
		if err != nil || i < 1 || i > n || strconv.Itoa(i) != e.key || seen[i-1] {
			return nil, false
		}
		seen[i-1] = true
		pieces[i-1] = e.val
	}
	return pieces, true
}

func c10OracleSplitx(c *vh.Ctx, k c10Case, o c10Out, fail func(what, got, want string)) {
	n, cnt, flags, elems, ok := c10SplitxParse(o)
	if !ok {
		fail("unparsable output", o.res.Out, "")
		return
	}
	show := func() string {
		es := append([]c10Elem{}, elems...)
		sort.Slice(es, func(i, j int) bool { return es[i].key < es[j].key })
		var w []string
		for _, e := range es {
			w = append(w, vh.HxS(e.key)+"="+vh.HxS(e.val))
		}
		return fmt.Sprintf("n=%d count=%d in-flags=%s {%s}", n, cnt, flags, strings.Join(w, " "))
	}
	pieces, exact := c10SplitxPieces(n, elems)
	if !exact || cnt != n {
		fail("after split the keys of the target array are not exactly 1..n with n the return value (elements of the earlier content survive)", show(), "")
		return
	}
	b := func(x bool) string {
		if x {
			return "1"
		}
		return "0"
	}
	if want := "00" + b(5 <= n) + b(100 <= n) + "00"; flags != want {
		fail("`k in a` disagrees with the keys 1..n for x, \"k 2\", 5, 100, n+1, 0", flags, want)
	}
	s := string(vh.Unhx(k.S))
	kind, sep := c10SplitxSep(k)
	switch {
	case kind == "lit":
		if j := strings.Join(pieces, string(sep)); j != s {
			fail("pieces joined by sep do not give back s", vh.HxS(j), k.S)
		}
	case kind == "csv" && !strings.ContainsAny(s, "\"\r\n"):
		if j := strings.Join(pieces, ","); j != s {
			fail("CSV-mode split of a record without quotes: pieces joined by , do not give back s", vh.HxS(j), k.S)
		}
	}
}

func c10LeanReqsSplitx(k c10Case) []string {
	kind, sep := c10SplitxSep(k)
	switch kind {
	case "lit":
		return []string{fmt.Sprintf("split %s %s", k.S, vh.Hx(sep))}
	case "space":
		return []string{fmt.Sprintf("split %s 20", k.S)}
	case "regex":
		re := goRegex(sep)
		if re == nil {
			return nil
		}
		return []string{strings.TrimRight(fmt.Sprintf("rsplit %s %s", k.S, pairsStr(re.FindAllIndex(vh.Unhx(k.S), -1))), " ")}
	}
	return nil
}

func c10LeanWantSplitx(k c10Case, o c10Out) []string {
	n, _, _, elems, ok := c10SplitxParse(o)
	if !ok {
		return []string{"unparsable"}
	}
	pieces, exact := c10SplitxPieces(n, elems)
	if !exact {
		return []string{fmt.Sprintf("keys-are-not-1..%d (%d elements)", n, len(elems))}
	}
	w := []string{strconv.Itoa(n)}
	for _, p := range pieces {
		w = append(w, vh.HxS(p))
	}
	return []string{strings.Join(w, " ")}
}

// c10OutParamCases generates the splitx / subx / matchx cases.
func c10OutParamCases(c *vh.Ctx, g c10Gen) []c10Case {
	r := c.Rng
	var cs []c10Case
	subj := func(sep []byte, kind int) []byte {
		s := g.subject(kind, 4)
		s = []byte(strings.NewReplacer("\n", "b", "\\", "c", "&", "a").Replace(string(s)))
		for j := r.Intn(4); j > 0 && len(sep) > 0; j-- {
			p := r.Intn(len(s) + 1)
			s = append(append(append([]byte{}, s[:p]...), sep...), s[p:]...)
		}
		return s
	}
	litSeps := [][]byte{[]byte(","), []byte(","), []byte("|"), []byte("a"), []byte("é"), {0xff}, []byte(".")}
	reSeps := [][]byte{[]byte(",+"), []byte("[,;]"), []byte("a|ab"), []byte(", *"), []byte("x*")}
	reps := c.N(2, 12)
	for _, pre := range c10Pres {
		for _, scope := range c10Scopes {
			for _, form := range c10Forms {
				t := pre + "|" + scope + "|" + form
				for i := 0; i < reps; i++ {
					var sep []byte
					switch {
					case form == "csv" || form == "relit":
						sep = []byte(",")
					case pre == "loop": // the loop joins the repetitions with ","
						sep = [][]byte{[]byte(","), []byte(",+"), []byte("[,;]")}[r.Intn(3)]
					case i%3 == 0:
						sep = reSeps[r.Intn(len(reSeps))]
					case i%3 == 1 && r.Intn(2) == 0:
						sep = []byte(" ")
					default:
						sep = litSeps[r.Intn(len(litSeps))]
					}
					ins := sep
					if utf8.RuneCount(sep) > 1 {
						ins = []byte(",")
					}
					s := subj(ins, i%3)
					if form == "csv" && r.Intn(4) == 0 {
						s = [][]byte{[]byte(`"a,b",c`), []byte(`a,"b""c",`), []byte(`,`), []byte(``)}[r.Intn(4)]
					}
					if r.Intn(10) == 0 {
						s = nil
					}
					cs = append(cs, c10Case{Op: "splitx", S: vh.Hx(s), A: vh.Hx(sep), T: t})
				}
			}
		}
	}
	// sub/gsub whose target is also the replacement and/or the regex; match() with RSTART/RLENGTH assigned before
	for _, target := range []string{"var", "elem", "field", "rec"} {
		for _, alias := range []string{"none", "repl", "regex", "both"} {
			for i := 0; i < c.N(6, 60); i++ {
				t := g.regex(1 + r.Intn(2))
				s := g.subject(i%3, 6)
				k := c10Case{Op: "subx", T: target + "|" + alias, S: vh.Hx(s), A: vh.HxS(t.String()), R: vh.Hx(g.repl()), tree: t}
				if alias == "regex" || alias == "both" { // the subject is the regex source
					pt, _ := g.prefixAlt()
					if i%2 == 0 {
						pt = g.regex(1 + r.Intn(2))
					}
					k.S, k.A, k.tree = vh.HxS(pt.String()), vh.HxS(pt.String()), pt
				}
				if alias == "repl" || alias == "both" {
					if alias == "repl" && i%2 == 0 { // a subject that is an interesting replacement text and contains a match
						k.S = vh.HxS(string(vh.Unhx(k.R)) + string(s))
					}
					k.R = k.S
				}
				if strings.ContainsAny(string(vh.Unhx(k.S)), "\x04\n") {
					continue
				}
				cs = append(cs, k)
			}
		}
	}
	for i := 0; i < c.N(40, 600); i++ {
		t := g.regex(1 + r.Intn(3))
		cs = append(cs, c10Case{Op: "matchx", S: vh.Hx(g.subject(i%3, 6)), A: vh.HxS(t.String()), tree: t})
	}
	return cs
}

// c10Canon: the output of a case with map-derived parts put in order (for-in enumerates in random order).
func c10Canon(k c10Case, o c10Out) string {
	if k.Op != "splitx" {
		return o.res.Out
	}
	n, cnt, flags, elems, ok := c10SplitxParse(o)
	if !ok {
		return o.res.Out
	}
	sort.Slice(elems, func(i, j int) bool { return elems[i].key < elems[j].key })
	return fmt.Sprint(n, cnt, flags, elems)
}
