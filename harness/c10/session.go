package main

// Long-lived runs. The single-case stream gives every case a fresh interpreter that sees a handful of regexes; state that
// builds up inside one interpreter (the regex cache, the printf-format cache — both stop admitting entries at a limit) is
// invisible there. A session is ONE program execution (or one reused Interpreter across several Execute calls) that reads
// records from stdin: warm-up records use N distinct dynamic regexes / printf formats, N around and beyond every cache
// limit constant found in interp/*.go, and probe records evaluate the same equations as the single-case stream — match,
// sub/gsub, ~, split — with dynamic regexes (fields of the record) and with constant regexes (literals in the program text).
// Every probe record is judged by the same oracle (c10Oracle) and sent to the same Lean requests as a single case.

import (
	"bytes"
	"fmt"
	"io"
	"os"
	"path/filepath"
	"regexp"
	"sort"
	"strconv"
	"strings"

	"github.com/benhoyt/goawk/interp"
	"github.com/benhoyt/goawk/parser"

	"verifharness/vh"
)

type c10SRec struct {
	K     string `json:"k"`               // w = regex warm-up, f = format warm-up, p = probe
	Op    string `json:"op,omitempty"`    // probe: match | sub | tilde | rsplit | split
	S     string `json:"s_hex,omitempty"` // subject
	A     string `json:"a_hex,omitempty"` // regex / separator / format
	R     string `json:"r_hex,omitempty"` // replacement
	Const int    `json:"const,omitempty"` // probe: 1+index into Consts when the regex is a literal of the program, 0 = dynamic
	tree  *rx
}

type c10Session struct {
	Op      string    `json:"op"` // "session"
	Chars   bool      `json:"chars"`
	Reuse   int       `json:"reuse"`      // 0: one interp.ExecProgram; k>0: interp.New once, the records spread over k Execute calls
	Consts  []string  `json:"consts_hex"` // regex literals compiled into the program text
	Records []c10SRec `json:"records"`
	Fail    int       `json:"failing_record,omitempty"`
	desc    string
}

type c10Item struct {
	k      c10Case
	o      c10Out
	replay interface{}
	key    string
}

// c10Limits: every integer constant in interp/*.go whose name mentions a cache (maxCachedRegexes, maxCachedFormats, …),
// read from the source tree the harness was built against.
func c10Limits() map[string]int {
	repo := os.Getenv("VERIF_REPO")
	if repo == "" {
		repo = "/repo"
	}
	res := map[string]int{}
	files, _ := filepath.Glob(filepath.Join(repo, "interp", "*.go"))
	re := regexp.MustCompile(`(?m)^\s*(?:const\s+)?(\w*[cC]ache\w*)\s*=\s*(\d+)\b`)
	for _, f := range files {
		if strings.HasSuffix(f, "_test.go") {
			continue
		}
		b, err := os.ReadFile(f)
		if err != nil {
			continue
		}
		for _, m := range re.FindAllStringSubmatch(string(b), -1) {
			if n, err := strconv.Atoi(m[2]); err == nil && n > 0 && n <= 100000 {
				res[m[1]] = n
			}
		}
	}
	if len(res) == 0 {
		res["default"] = 100
	}
	return res
}

func c10SessionProgram(consts []string) string {
	var b strings.Builder
	b.WriteString("BEGIN { FS = \"\\001\"; RS = \"\\003\" }\n")
	b.WriteString(`$1 == "w" { wn += ($2 ~ $3); next }` + "\n")
	b.WriteString(`$1 == "f" { wf = sprintf($2, 7); next }` + "\n")
	probe := func(tag, re string) {
		fmt.Fprintf(&b, `$1 == "%smatch" { r = match($2, %s); printf "%%d\001%%d\001%%d\001%%s\001\003", r, RSTART, RLENGTH, substr($2, RSTART, RLENGTH); next }`+"\n", tag, re)
		fmt.Fprintf(&b, `$1 == "%ssub" { t1 = $2; n1 = gsub(%s, "&", t1); t2 = $2; n2 = gsub(%s, $4, t2); t3 = $2; n3 = sub(%s, $4, t3); printf "%%d\001%%s\001%%d\001%%s\001%%d\001%%s\001\003", n1, t1, n2, t2, n3, t3; next }`+"\n", tag, re, re, re)
		if tag == "" {
			fmt.Fprintf(&b, `$1 == "%stilde" { printf "%%d\001\003", ($2 ~ %s); next }`+"\n", tag, re)
		} else {
			// a literal also appears as a stand-alone /re/ (matched against $0; the only form compiled to a regex constant —
			// after ~ and as a function argument a literal is compiled as its text): both spellings must agree
			fmt.Fprintf(&b, `$1 == "%stilde" { r1 = ($2 ~ %s); $0 = $2; r2 = (%s ? 1 : 0); printf "%%d\001\003", r1 + 2 * (r1 != r2); next }`+"\n", tag, re, re)
		}
		fmt.Fprintf(&b, `$1 == "%srsplit" { delete arr; k = split($2, arr, %s); c = 0; for (x in arr) c++; printf "%%d\001%%d\001", k, c; for (i = 1; i <= k; i++) printf "%%s\002", arr[i]; printf "\003"; next }`+"\n", tag, re)
	}
	probe("", "$3")
	b.WriteString(`$1 == "split" { delete arr; k = split($2, arr, $3); c = 0; for (x in arr) c++; printf "%d\001%d\001", k, c; for (i = 1; i <= k; i++) printf "%s\002", arr[i]; printf "\003"; next }` + "\n")
	for i, cs := range consts {
		probe(fmt.Sprintf("c%d", i+1), "/"+string(vh.Unhx(cs))+"/")
	}
	return b.String()
}

func (ss *c10Session) input() [][]byte {
	var recs [][]byte
	for _, r := range ss.Records {
		var f []string
		switch r.K {
		case "w":
			f = []string{"w", "xay", string(vh.Unhx(r.A))}
		case "f":
			f = []string{"f", string(vh.Unhx(r.A))}
		default:
			tag := r.Op
			if r.Const > 0 {
				tag = fmt.Sprintf("c%d%s", r.Const, r.Op)
			}
			f = []string{tag, string(vh.Unhx(r.S)), string(vh.Unhx(r.A)), string(vh.Unhx(r.R))}
		}
		recs = append(recs, []byte(strings.Join(f, "\x01")+"\x03"))
	}
	return recs
}

// run executes the session on the real interpreter; out is the concatenated output.
func (ss *c10Session) run() (res vh.RunResult) {
	src := c10SessionProgram(ss.Consts)
	prog, err := parser.ParseProgram([]byte(src), nil)
	if err != nil {
		res.Err = "session program does not parse: " + err.Error()
		return
	}
	recs := ss.input()
	var out bytes.Buffer
	defer func() {
		if r := recover(); r != nil {
			res.Panic = fmt.Sprint(r)
			res.Out = out.String()
		}
	}()
	if ss.Reuse <= 0 {
		return vh.ExecProg(prog, &interp.Config{Stdin: bytes.NewReader(bytes.Join(recs, nil)), Chars: ss.Chars})
	}
	p, err := interp.New(prog)
	if err != nil {
		res.Err = err.Error()
		return
	}
	per := (len(recs) + ss.Reuse - 1) / ss.Reuse
	for i := 0; i < len(recs); i += per {
		j := min(i+per, len(recs))
		st, err := p.Execute(&interp.Config{Stdin: bytes.NewReader(bytes.Join(recs[i:j], nil)), Output: &out, Error: io.Discard, Environ: []string{}, Chars: ss.Chars})
		res.Status = st
		if err != nil {
			res.Err = err.Error()
			break
		}
	}
	res.Out = out.String()
	return
}

// items turns the session's output into one (case, output) pair per probe record.
func (ss *c10Session) items(c *vh.Ctx) []c10Item {
	res := ss.run()
	var probes []int
	for i, r := range ss.Records {
		if r.K == "p" {
			probes = append(probes, i)
		}
	}
	replayFor := func(idx int) c10Session {
		cp := *ss
		cp.Records = ss.Records[:idx+1]
		cp.Fail = idx
		return cp
	}
	if res.Panic != "" || res.Err != "" {
		// an invalid regex in a probe ends the whole run with an error: sessions are generated with valid regexes only,
		// so this is a failure of the run itself
		c.Fail(vh.Failure{Kind: "oracle", What: "session: the run failed: " + res.String()[:min(300, len(res.String()))], Case: replayFor(len(ss.Records) - 1)})
		return nil
	}
	parts := strings.Split(res.Out, "\x03")
	if len(parts) != len(probes)+1 || parts[len(parts)-1] != "" {
		c.Fail(vh.Failure{Kind: "oracle", What: fmt.Sprintf("session: %d probe records but %d outputs", len(probes), len(parts)-1), Case: replayFor(len(ss.Records) - 1)})
		return nil
	}
	var items []c10Item
	for n, idx := range probes {
		r := ss.Records[idx]
		k := c10Case{Op: r.Op, Chars: ss.Chars, S: r.S, A: r.A, R: r.R, tree: r.tree}
		if r.Const > 0 {
			k.A = ss.Consts[r.Const-1]
		}
		f := strings.Split(parts[n], "\x01")
		items = append(items, c10Item{k: k, o: c10Out{f[:len(f)-1], vh.RunResult{Out: parts[n]}}, replay: replayFor(idx),
			key: fmt.Sprintf("%s|session:%s|const:%v|#%d", k.key(), ss.desc, r.Const > 0, idx)})
	}
	return items
}

// prefixAlt: an alternation whose earlier alternative is a proper prefix of a later one ("#|#!", "a|aa|aaa"): leftmost-first
// and leftmost-longest disagree on it.
func (g c10Gen) prefixAlt() (*rx, []byte) {
	r := g.c.Rng
	x := c10Atoms[r.Intn(3)]
	y := c10Atoms[r.Intn(4)]
	lx, ly := &rx{kind: "lit", lit: x}, &rx{kind: "lit", lit: y}
	var t *rx
	switch r.Intn(4) {
	case 0:
		t = &rx{kind: "alt", a: lx, b: &rx{kind: "cat", a: lx, b: ly}}
	case 1:
		t = &rx{kind: "alt", a: lx, b: &rx{kind: "alt", a: &rx{kind: "cat", a: lx, b: lx}, b: &rx{kind: "cat", a: lx, b: &rx{kind: "cat", a: lx, b: lx}}}}
	case 2:
		t = &rx{kind: "alt", a: &rx{kind: "empty"}, b: &rx{kind: "plus", a: lx}}
	default:
		t = &rx{kind: "cat", a: &rx{kind: "alt", a: lx, b: &rx{kind: "cat", a: lx, b: ly}}, b: &rx{kind: "quest", a: ly}}
	}
	// a subject that contains the long alternative
	var s []byte
	for i := r.Intn(3); i > 0; i-- {
		s = append(s, c10Atoms[r.Intn(4)]...)
	}
	s = append(append(append(s, x...), x...), y...)
	s = append(append(s, x...), y...)
	for i := r.Intn(3); i > 0; i-- {
		s = append(s, c10Atoms[r.Intn(c10NValid)]...)
	}
	return t, s
}

func c10NoCtl(b []byte) bool { return !bytes.ContainsAny(b, "\x01\x02\x03") }

func (g c10Gen) session(warm int, interleave bool, chars bool, reuse int, nProbes int, uniq *int) c10Session {
	r := g.c.Rng
	ss := c10Session{Op: "session", Chars: chars, Reuse: reuse}
	ss.desc = fmt.Sprintf("warm=%d,interleave=%v,reuse=%d", warm, interleave, reuse)
	var consts []*rx
	var constSubj [][]byte
	for i := 0; i < 6; i++ {
		var t *rx
		var cs []byte
		if i < 3 {
			t, cs = g.prefixAlt()
		} else {
			t = g.regex(1 + r.Intn(3))
		}
		consts = append(consts, t)
		constSubj = append(constSubj, cs)
		ss.Consts = append(ss.Consts, vh.HxS(t.String()))
	}
	var warmups, probes []c10SRec
	for i := 0; i < warm; i++ {
		*uniq++
		warmups = append(warmups, c10SRec{K: "w", A: vh.HxS(fmt.Sprintf("%s|w%dz", g.regex(1).String(), *uniq))})
		warmups = append(warmups, c10SRec{K: "f", A: vh.HxS(fmt.Sprintf("%%%dd|%%%%", *uniq%90+1) + strconv.Itoa(*uniq))})
	}
	ops := []string{"match", "sub", "tilde", "rsplit", "match", "sub"}
	for i := 0; i < nProbes; i++ {
		op := ops[r.Intn(len(ops))]
		var t *rx
		var s []byte
		if r.Intn(3) == 0 {
			t, s = g.prefixAlt()
		} else {
			t, s = g.regex(1+r.Intn(3)), g.subject(i%3, 7)
		}
		s = bytes.ReplaceAll(s, []byte("\n"), []byte("b")) // records are cut at \003 only, but keep sessions printable
		rec := c10SRec{K: "p", Op: op, S: vh.Hx(s), R: vh.Hx(g.repl()), tree: t}
		switch {
		case r.Intn(4) == 0: // a literal of the program
			ci := r.Intn(len(consts))
			rec.Const, rec.tree = ci+1, consts[ci]
			if ci < 3 && r.Intn(2) == 0 {
				rec.S = vh.Hx(constSubj[ci]) // a subject on which first and longest match differ for this literal
			}
		case op != "rsplit" && r.Intn(6) == 0:
			// the TEXT of a literal of the program, used dynamically (seeded C10-p3: a cache miss that reuses the compiled
			// literal of the same source text must still give leftmost-longest matches)
			ci := r.Intn(len(consts))
			rec.A, rec.tree = vh.HxS(consts[ci].String()), consts[ci]
			if ci < 3 {
				rec.S = vh.Hx(constSubj[ci])
			}
		case op == "rsplit":
			rec.A, rec.tree = vh.HxS("("+t.String()+")x?"), nil
		default:
			rec.A = vh.HxS(t.String())
		}
		if op != "sub" {
			rec.R = "-"
		}
		if r.Intn(12) == 0 {
			sep := [][]byte{[]byte(","), []byte("|"), []byte("a"), []byte("é")}[r.Intn(4)]
			rec = c10SRec{K: "p", Op: "split", S: rec.S, A: vh.Hx(sep), R: "-"}
		}
		probes = append(probes, rec)
	}
	if !interleave {
		ss.Records = append(warmups, probes...)
	} else {
		// spread the probes among the warm-ups: some run before the limits are reached, some after
		all := append(append([]c10SRec{}, warmups...), probes...)
		pos := r.Perm(len(all))
		ss.Records = make([]c10SRec, len(all))
		for i, p := range pos {
			ss.Records[p] = all[i]
		}
	}
	return ss
}

// c10Sessions generates (or replays) the long-lived runs and returns their probe records as items for the common oracle
// and correspondence loops.
func c10Sessions(c *vh.Ctx, replay []c10Session) []c10Item {
	var sessions []c10Session
	if c.ReplayFile != "" {
		for _, ss := range replay {
			ss.desc = "replay"
			sessions = append(sessions, ss)
		}
	} else {
		g := c10Gen{c}
		limits := c10Limits()
		names := vh.SortedKeys(limits)
		sizes := map[int]bool{0: true}
		for _, n := range names {
			l := limits[n]
			for _, w := range []int{l / 2, l - 1, l, l + 1, 2*l + 5} {
				if w > 0 && w <= 5000 {
					sizes[w] = true
				}
			}
			c.Hit(fmt.Sprintf("session:limit-constant:%s=%d", n, l))
		}
		var ws []int
		for w := range sizes {
			ws = append(ws, w)
		}
		sort.Ints(ws)
		uniq := 0
		nProbes := c.N(40, 300)
		for rep := 0; rep < c.N(1, 4); rep++ {
			for _, w := range ws {
				for _, chars := range []bool{false, true} {
					for _, reuse := range []int{0, 3} {
						sessions = append(sessions, g.session(w, w > 0 && (rep+w)%2 == 1, chars, reuse, nProbes, &uniq))
					}
				}
			}
		}
		// a session whose probes alone (all distinct dynamic regexes) cross every limit
		maxL := 0
		for _, l := range limits {
			maxL = max(maxL, l)
		}
		if maxL <= 2000 {
			for _, chars := range []bool{false, true} {
				sessions = append(sessions, g.session(0, false, chars, 2, 2*maxL+40, &uniq))
			}
		}
	}
	outs := make([][]c10Item, len(sessions))
	for i := range sessions { // sessions are few; run them one after the other so that c.Fail is not called concurrently
		outs[i] = sessions[i].items(c)
		c.Hit("session:runs")
		c.Hit(fmt.Sprintf("session:reuse=%d", sessions[i].Reuse))
		c.HitN("session:warm-up-records", len(sessions[i].Records)-len(outs[i]))
		c.HitN("session:probe-records", len(outs[i]))
	}
	var items []c10Item
	for _, o := range outs {
		items = append(items, o...)
	}
	return items
}
