package main

// C10 — string, regex and int() builtins obey their defining equations.
//
// Every case is one probe program run through the public API (interp.ExecProgram) with the arguments passed as
// variables, in byte mode and in character mode (Config.Chars).
//
// Implementation-side oracle (no model in the loop): the property's equations evaluated in Go on the real output —
// substr against drop/take over bytes or Go's rune decomposition, int() against math.Trunc, index against an
// independent search, match/gsub/sub against Go's regexp called directly AND against an independent brute-force
// leftmost-longest matcher over the generated regex tree, split against join, and byte mode = character mode on ASCII.
// Correspondence: the Lean model (GoawkModel.C10) through drv_c10 on the same cases.

import (
	"bytes"
	"encoding/json"
	"fmt"
	"math"
	"math/big"
	"os"
	"regexp"
	"strconv"
	"strings"
	"unicode"
	"unicode/utf8"

	"github.com/benhoyt/goawk/interp"

	"verifharness/vh"
)

func main() { vh.Main("C10", runC10) }

// ---- cases ---------------------------------------------------------------------------------------

type c10Case struct {
	Op    string `json:"op"`              // substr | int | index | match | sub | split | rsplit
	Chars bool   `json:"chars"`           // Config.Chars
	S     string `json:"s_hex"`           // subject
	A     string `json:"a_hex,omitempty"` // needle / regex source / separator
	R     string `json:"r_hex,omitempty"` // replacement
	M     string `json:"m,omitempty"`     // numeric argument as spelled for -v (strconv 'g' shortest, +inf, -inf, nan)
	N     string `json:"n,omitempty"`
	T     string `json:"t,omitempty"` // splitx / subx / matchx: the program template "pre|scope|form" resp. "target|alias" (outparam.go)
	tree  *rx    // the generated regex tree, when there is one
}

func (k c10Case) key() string {
	return fmt.Sprintf("%s|%v|%s|%s|%s|%s|%s|%s", k.Op, k.Chars, k.S, k.A, k.R, k.M, k.N, k.T)
}

var c10Progs = map[string]string{
	"substr": `BEGIN { printf "%s\001%s\001%d\001", substr(s, m), substr(s, m, n), length(s) }`,
	"int":    `BEGIN { printf "%.17g\001", int(m) }`,
	"index":  `BEGIN { i = index(s, t); printf "%d\001%s\001%d\001", i, substr(s, i, length(t)), length(t) }`,
	"match":  `BEGIN { r = match(s, re); printf "%d\001%d\001%d\001%s\001", r, RSTART, RLENGTH, substr(s, RSTART, RLENGTH) }`,
	"sub": `BEGIN { t1 = s; n1 = gsub(re, "&", t1); t2 = s; n2 = gsub(re, repl, t2); t3 = s; n3 = sub(re, repl, t3)
  printf "%d\001%s\001%d\001%s\001%d\001%s\001", n1, t1, n2, t2, n3, t3 }`,
	"tilde": `BEGIN { printf "%d\001", (s ~ re) }`,
	"case":  `BEGIN { printf "%s\001%s\001", tolower(s), toupper(s) }`,
	"fields": `BEGIN { k = split(s, arr, " "); c = 0; for (x in arr) c++; printf "%d\001%d\001", k, c
  for (i = 1; i <= k; i++) printf "%s\002", arr[i] }`,
	"split": `BEGIN { k = split(s, arr, sep); c = 0; for (x in arr) c++; printf "%d\001%d\001", k, c
  for (i = 1; i <= k; i++) printf "%s\002", arr[i] }`,
}

func init() { c10Progs["rsplit"] = c10Progs["split"] }

func spell(x float64) string {
	switch {
	case math.IsNaN(x):
		return "nan"
	case math.IsInf(x, 1):
		return "+inf"
	case math.IsInf(x, -1):
		return "-inf"
	}
	return strconv.FormatFloat(x, 'g', -1, 64)
}

func unspell(s string) float64 {
	switch s {
	case "nan":
		return math.NaN()
	case "+inf":
		return math.Inf(1)
	case "-inf":
		return math.Inf(-1)
	}
	f, err := strconv.ParseFloat(s, 64)
	if err != nil {
		panic("bad number spelling " + s)
	}
	return f
}

// leanNum spells a float64 exactly for the driver: mant·2^exp.
func leanNum(x float64) string {
	switch {
	case math.IsNaN(x):
		return "nan"
	case math.IsInf(x, 1):
		return "pinf"
	case math.IsInf(x, -1):
		return "ninf"
	case x == 0:
		return "0p0"
	}
	fr, e := math.Frexp(x)
	return fmt.Sprintf("%dp%d", int64(fr*(1<<53)), e-53)
}

func c10Run(k c10Case) ([]string, vh.RunResult) {
	if k.Op == "splitx" || k.Op == "subx" || k.Op == "matchx" {
		return c10RunX(k)
	}
	prog := vh.MustParse(c10Progs[k.Op])
	vars := []string{"s", string(vh.Unhx(k.S))}
	switch k.Op {
	case "substr":
		vars = append(vars, "m", k.M, "n", k.N)
	case "int":
		vars = append(vars, "m", k.M)
	case "index":
		vars = append(vars, "t", string(vh.Unhx(k.A)))
	case "match", "tilde":
		vars = append(vars, "re", string(vh.Unhx(k.A)))
	case "sub":
		vars = append(vars, "re", string(vh.Unhx(k.A)), "repl", string(vh.Unhx(k.R)))
	case "split", "rsplit":
		vars = append(vars, "sep", string(vh.Unhx(k.A)))
	}
	res := vh.ExecProg(prog, &interp.Config{Vars: vars, Chars: k.Chars})
	if res.Panic != "" || res.Err != "" {
		return nil, res
	}
	f := strings.Split(res.Out, "\x01")
	return f[:len(f)-1], res
}

// ---- units: bytes, or Go's rune decomposition ------------------------------------------------------

func unitsOf(s []byte, chars bool) [][]byte {
	var u [][]byte
	if !chars {
		for i := range s {
			u = append(u, s[i:i+1])
		}
		return u
	}
	for len(s) > 0 {
		_, n := utf8.DecodeRune(s)
		u = append(u, s[:n])
		s = s[n:]
	}
	return u
}

func joinUnits(u [][]byte) []byte { return bytes.Join(u, nil) }

func isASCII(bs ...[]byte) bool {
	for _, b := range bs {
		for _, c := range b {
			if c >= 0x80 {
				return false
			}
		}
	}
	return true
}

// specSubstr is the property's statement of substr over units, evaluated with float arithmetic only.
func specSubstr(u [][]byte, m float64, n *float64) []byte {
	L := len(u)
	start := 0
	tm := math.Trunc(m)
	switch {
	case tm < 1:
		start = 1
	case tm > float64(L+1):
		start = L + 1
	default:
		start = int(tm)
	}
	rem := L - start + 1
	ln := rem
	if n != nil {
		tn := math.Trunc(*n)
		switch {
		case tn < 0:
			ln = 0
		case tn > float64(rem):
			ln = rem
		default:
			ln = int(tn)
		}
	}
	return joinUnits(u[start-1 : start-1+ln])
}

// unitIndex: 1-based index of the first occurrence of the unit sequence t in s, 0 if none.
func unitIndex(s, t [][]byte) int {
	for i := 0; i+len(t) <= len(s); i++ {
		ok := true
		for j := range t {
			if !bytes.Equal(s[i+j], t[j]) {
				ok = false
				break
			}
		}
		if ok {
			return i + 1
		}
	}
	return 0
}

// unitPos converts a byte offset into a count of units before it; ok=false when the offset cuts a unit.
func unitPos(u [][]byte, off int) (int, bool) {
	o := 0
	for i, x := range u {
		if o == off {
			return i, true
		}
		if o > off {
			return i, false
		}
		o += len(x)
	}
	return len(u), o == off
}

// expandSpec: the property's reading of a replacement text: & is the match, \& a literal &, \\ a backslash.
func expandSpec(repl, m []byte) []byte {
	var out []byte
	for i := 0; i < len(repl); i++ {
		switch {
		case repl[i] == '&':
			out = append(out, m...)
		case repl[i] == '\\' && i+1 < len(repl) && (repl[i+1] == '&' || repl[i+1] == '\\'):
			out = append(out, repl[i+1])
			i++
		default:
			out = append(out, repl[i])
		}
	}
	return out
}

func goRegex(src []byte) *regexp.Regexp {
	re, err := regexp.Compile("(?s:" + string(src) + ")")
	if err != nil {
		return nil
	}
	re.Longest()
	return re
}

func pairsStr(ms [][]int) string {
	var w []string
	for _, m := range ms {
		w = append(w, fmt.Sprintf("%d:%d", m[0], m[1]))
	}
	return strings.Join(w, " ")
}

// ---- classification of failing cases into known-finding classes --------------------------------------

// G10-1: index() in character mode, needle not valid UTF-8, and the byte-level first occurrence found by strings.Index
// is not an occurrence of the needle's characters among the subject's characters (it starts or ends inside a
// valid UTF-8 sequence of the subject) — or there is a later/earlier character-level occurrence that the byte search hides.
func c10Classify(k c10Case) string {
	if k.Op == "index" && k.Chars {
		s, t := vh.Unhx(k.S), vh.Unhx(k.A)
		if utf8.Valid(t) {
			return ""
		}
		bi := bytes.Index(s, t)
		if bi < 0 {
			return ""
		}
		u := unitsOf(s, true)
		a, okA := unitPos(u, bi)
		_, okB := unitPos(u, bi+len(t))
		if !okA || !okB || unitIndex(u, unitsOf(t, true)) != a+1 {
			return "G10-1"
		}
	}
	return ""
}

// ---- the oracle: the property on the real code alone ------------------------------------------------

type c10Out struct {
	f   []string
	res vh.RunResult
}

func c10Oracle(c *vh.Ctx, k c10Case, o c10Out, replay interface{}) {
	fail := func(what, got, want string) {
		c.Fail(vh.Failure{Kind: "oracle", What: k.Op + ": " + what, Finding: c10Classify(k), Case: replay, Got: got, Want: want})
	}
	if o.res.Panic != "" {
		fail("the interpreter panicked: "+o.res.Panic, "", "")
		return
	}
	s := vh.Unhx(k.S)
	a := vh.Unhx(k.A)
	u := unitsOf(s, k.Chars)
	if o.res.Err != "" {
		if (k.Op == "match" || k.Op == "sub" || k.Op == "rsplit" || k.Op == "tilde" || k.Op == "subx" || k.Op == "matchx") && goRegex(a) == nil {
			return // invalid regex: an error is the right answer
		}
		fail("unexpected error "+o.res.Err, "", "")
		return
	}
	f := o.f
	hx := func(s string) string { return vh.HxS(s) }
	switch k.Op {
	case "substr":
		m, n := unspell(k.M), unspell(k.N)
		if f[2] != strconv.Itoa(len(u)) {
			fail("length(s)", f[2], strconv.Itoa(len(u)))
		}
		if math.IsNaN(m) {
			return // the statement's "truncated" is undefined for NaN
		}
		if w := specSubstr(u, m, nil); f[0] != string(w) {
			fail("substr(s,m) is not the units from max(1,trunc m) on", hx(f[0]), vh.Hx(w))
		}
		if !math.IsNaN(n) {
			if w := specSubstr(u, m, &n); f[1] != string(w) {
				fail("substr(s,m,n) is not trunc n units from max(1,trunc m)", hx(f[1]), vh.Hx(w))
			}
		}
	case "int":
		m := unspell(k.M)
		if math.IsNaN(m) {
			return
		}
		got, err := strconv.ParseFloat(f[0], 64)
		want := math.Trunc(m)
		if err != nil || !(got == want) {
			fail("int(x) is not x truncated toward zero", f[0], spell(want))
		}
	case "index":
		tu := unitsOf(a, k.Chars)
		want := unitIndex(u, tu)
		if f[0] != strconv.Itoa(want) {
			fail("index(s,t) is not the position of the first occurrence (0 if none)", f[0], strconv.Itoa(want))
		} else if want > 0 && f[1] != string(a) {
			fail("substr(s, index(s,t), length(t)) is not t", hx(f[1]), k.A)
		}
		if f[2] != strconv.Itoa(len(tu)) {
			fail("length(t)", f[2], strconv.Itoa(len(tu)))
		}
	case "splitx":
		c10OracleSplitx(c, k, o, fail)
	case "match", "matchx":
		re := goRegex(a)
		if re == nil {
			fail("regex rejected by Go's regexp but accepted by the interpreter", "", "")
			return
		}
		loc := re.FindIndex(s)
		if k.tree != nil {
			c.Hit("regex:brute-force-matcher-compared")
			if bl := bruteFind(k.tree, s, 0); !sameLoc(bl, loc) {
				c.Hit("note:brute-vs-regexp-differ")
				c.Note(fmt.Sprintf("brute-force matcher and Go regexp differ: re=%q s=%q brute=%v go=%v", a, s, bl, loc))
			}
		}
		if loc == nil {
			if f[0] != "0" || f[1] != "0" || f[2] != "-1" {
				fail("no match but (return,RSTART,RLENGTH) is not (0,0,-1)", strings.Join(f[:3], ","), "0,0,-1")
			}
			return
		}
		if f[0] != f[1] {
			fail("match() does not return RSTART", f[0], f[1])
		}
		if f[3] != string(s[loc[0]:loc[1]]) {
			fail("substr(s,RSTART,RLENGTH) is not the leftmost-longest match", hx(f[3]), vh.Hx(s[loc[0]:loc[1]]))
		}
		pa, _ := unitPos(u, loc[0])
		pb, _ := unitPos(u, loc[1])
		if f[1] != strconv.Itoa(pa+1) || f[2] != strconv.Itoa(pb-pa) {
			fail("RSTART/RLENGTH are not the position and length of the leftmost-longest match", f[1]+","+f[2], fmt.Sprintf("%d,%d", pa+1, pb-pa))
		}
	case "tilde":
		re := goRegex(a)
		if re == nil {
			fail("regex rejected by Go's regexp but accepted by the interpreter", "", "")
			return
		}
		want := "0"
		if re.Match(s) {
			want = "1"
		}
		if f[0] != want {
			fail("s ~ r is not 'r matches somewhere in s'", f[0], want)
		}
	case "sub", "subx":
		re := goRegex(a)
		if re == nil {
			fail("regex rejected by Go's regexp but accepted by the interpreter", "", "")
			return
		}
		all := re.FindAllIndex(s, -1)
		if k.tree != nil {
			c.Hit("regex:brute-force-matcher-compared")
			if ba := bruteAll(k.tree, s); pairsStr(ba) != pairsStr(all) {
				c.Hit("note:brute-vs-regexp-differ")
				c.Note(fmt.Sprintf("brute-force matcher and Go regexp differ: re=%q s=%q brute=%v go=%v", a, s, ba, all))
			}
		}
		repl := vh.Unhx(k.R)
		if f[1] != string(s) {
			fail(`gsub(r,"&",t) changed t`, hx(f[1]), k.S)
		}
		if f[0] != strconv.Itoa(len(all)) {
			fail(`gsub(r,"&",t) does not return the number of non-overlapping leftmost-longest matches`, f[0], strconv.Itoa(len(all)))
		}
		build := func(ms [][]int) []byte {
			var out []byte
			last := 0
			for _, m := range ms {
				out = append(out, s[last:m[0]]...)
				out = append(out, expandSpec(repl, s[m[0]:m[1]])...)
				last = m[1]
			}
			return append(out, s[last:]...)
		}
		if w := build(all); f[3] != string(w) || f[2] != strconv.Itoa(len(all)) {
			fail("gsub(r,repl,t): wrong count or text (& = match, \\& = literal &)", f[2]+" "+hx(f[3]), fmt.Sprintf("%d %s", len(all), vh.Hx(w)))
		}
		first := all
		if len(first) > 1 {
			first = first[:1]
		}
		if w := build(first); f[5] != string(w) || f[4] != strconv.Itoa(len(first)) {
			fail("sub() is not exactly the first of gsub's replacements", f[4]+" "+hx(f[5]), fmt.Sprintf("%d %s", len(first), vh.Hx(w)))
		}
	case "case":
		// not part of the property's statement: only the Lean correspondence is checked, plus the one thing every reading
		// agrees on — ASCII text is mapped bytewise
		if isASCII(s) && (f[0] != strings.ToLower(string(s)) || f[1] != strings.ToUpper(string(s)) || len(f[0]) != len(s)) {
			fail("tolower/toupper of ASCII text is not the bytewise mapping", hx(f[0])+" "+hx(f[1]), "")
		}
	case "split", "rsplit", "fields":
		if len(f) < 2 {
			fail("unparsable output", o.res.Out, "")
			return
		}
		rest := o.res.Out[len(f[0])+len(f[1])+2:]
		pieces := strings.Split(rest, "\x02")
		pieces = pieces[:len(pieces)-1]
		if f[0] != strconv.Itoa(len(pieces)) || f[1] != f[0] {
			fail("split's return value is not the number of elements", f[0]+","+f[1], strconv.Itoa(len(pieces)))
		}
		if k.Op == "split" {
			if j := strings.Join(pieces, string(a)); j != string(s) {
				fail("pieces joined by sep do not give back s", hx(j), k.S)
			}
		}
		// a regex separator is beyond the statement's single-character clause: only the Lean correspondence (awkSplitRegex
		// against regexp's match list) is checked for it, the oracle demands nothing more
	}
}

func sameLoc(a, b []int) bool {
	if a == nil || b == nil {
		return a == nil && b == nil
	}
	return a[0] == b[0] && a[1] == b[1]
}

// ---- correspondence with the Lean model -----------------------------------------------------------------

// c10LeanReqs returns the driver requests of a case; c10LeanWant the answers the real output corresponds to.
func c10LeanReqs(k c10Case) []string {
	ch := "0"
	if k.Chars {
		ch = "1"
	}
	s := vh.Unhx(k.S)
	a := vh.Unhx(k.A)
	switch k.Op {
	case "substr":
		m, n := leanNum(unspell(k.M)), leanNum(unspell(k.N))
		return []string{
			fmt.Sprintf("substr %s %s %s", ch, k.S, m),
			fmt.Sprintf("substr3 %s %s %s %s", ch, k.S, m, n),
			fmt.Sprintf("length %s %s", ch, k.S),
		}
	case "int":
		return []string{"int " + leanNum(unspell(k.M))}
	case "index":
		return []string{fmt.Sprintf("index %s %s %s", ch, k.S, k.A), fmt.Sprintf("length %s %s", ch, k.A)}
	case "splitx":
		return c10LeanReqsSplitx(k)
	case "match", "matchx":
		re := goRegex(a)
		if re == nil {
			return nil
		}
		loc := re.FindIndex(s)
		l := "none"
		if loc != nil {
			l = fmt.Sprintf("%d:%d", loc[0], loc[1])
		}
		if loc == nil {
			return []string{fmt.Sprintf("match %s %s %s", ch, k.S, l)}
		}
		return []string{fmt.Sprintf("match %s %s %s", ch, k.S, l), fmt.Sprintf("laws %s %s", k.S, l)}
	case "sub", "subx":
		re := goRegex(a)
		if re == nil {
			return nil
		}
		ms := pairsStr(re.FindAllIndex(s, -1))
		return []string{
			strings.TrimRight(fmt.Sprintf("sub 1 %s %s %s", k.S, "26", ms), " "),
			strings.TrimRight(fmt.Sprintf("sub 1 %s %s %s", k.S, vh.Hx(vh.Unhx(k.R)), ms), " "),
			strings.TrimRight(fmt.Sprintf("sub 0 %s %s %s", k.S, vh.Hx(vh.Unhx(k.R)), ms), " "),
			strings.TrimRight(fmt.Sprintf("laws %s %s", k.S, ms), " "),
		}
	case "split":
		return []string{fmt.Sprintf("split %s %s", k.S, k.A)}
	case "fields":
		return []string{fmt.Sprintf("split %s 20", k.S)}
	case "case":
		lo, up := "", ""
		seen := map[string]bool{}
		for _, u := range unitsOf(s, true) {
			if len(u) > 1 && !seen[string(u)] {
				seen[string(u)] = true
				r, _ := utf8.DecodeRune(u)
				lo += " " + vh.Hx(u) + ":" + vh.HxS(string(unicode.ToLower(r)))
				up += " " + vh.Hx(u) + ":" + vh.HxS(string(unicode.ToUpper(r)))
			}
		}
		return []string{"case 0 " + k.S + lo, "case 1 " + k.S + up}
	case "rsplit":
		re := goRegex(a)
		if re == nil {
			return nil
		}
		return []string{strings.TrimRight(fmt.Sprintf("rsplit %s %s", k.S, pairsStr(re.FindAllIndex(s, -1))), " ")}
	}
	return nil
}

func ratOfLean(s string) *big.Rat {
	r, ok := new(big.Rat).SetString(s)
	if !ok {
		return nil
	}
	return r
}

func c10LeanWant(k c10Case, o c10Out) []string {
	f := o.f
	switch k.Op {
	case "substr":
		return []string{"ok " + vh.HxS(f[0]), "ok " + vh.HxS(f[1]), f[2]}
	case "int":
		x, err := strconv.ParseFloat(f[0], 64)
		switch {
		case err != nil:
			return []string{"unparsable " + f[0]}
		case math.IsNaN(x):
			return []string{"nan"}
		case math.IsInf(x, 1):
			return []string{"pinf"}
		case math.IsInf(x, -1):
			return []string{"ninf"}
		}
		r := new(big.Rat).SetFloat64(x)
		return []string{r.Num().String() + "/" + r.Denom().String()}
	case "index":
		return []string{f[0], f[2]}
	case "splitx":
		return c10LeanWantSplitx(k, o)
	case "match", "matchx":
		return []string{f[1] + " " + f[2] + " ok " + vh.HxS(f[3]), "wf=1 aligned=1"}
	case "sub", "subx":
		return []string{f[0] + " " + vh.HxS(f[1]), f[2] + " " + vh.HxS(f[3]), f[4] + " " + vh.HxS(f[5]), "wf=1 aligned=1"}
	case "case":
		return []string{vh.HxS(f[0]), vh.HxS(f[1])}
	case "split", "rsplit", "fields":
		rest := o.res.Out[len(f[0])+len(f[1])+2:]
		pieces := strings.Split(rest, "\x02")
		pieces = pieces[:len(pieces)-1]
		w := []string{f[0]}
		for _, p := range pieces {
			w = append(w, vh.HxS(p))
		}
		return []string{strings.Join(w, " ")}
	}
	return nil
}

// ---- generators -----------------------------------------------------------------------------------------

var c10Atoms = [][]byte{
	[]byte("a"), []byte("b"), []byte("c"), []byte(","), []byte(" "), []byte("\n"), []byte("."), []byte("&"), []byte("\\"),
	[]byte("é"), []byte("日"), []byte("😀"), []byte("ß"),
	{0xff}, {0xc3}, {0xa9}, {0xe6, 0x97}, {0xed, 0xa0, 0x80}, {0xc0, 0x80}, {0xf4, 0x90, 0x80, 0x80}, {0xe0, 0x80, 0x80}, {0xf0, 0x9f},
}

const (
	c10NASCII = 9
	c10NValid = 13
)

type c10Gen struct{ c *vh.Ctx }

// subject: kind 0 ASCII, 1 valid UTF-8, 2 anything (invalid bytes too), with the empty string now and then
func (g c10Gen) subject(kind, maxLen int) []byte {
	r := g.c.Rng
	n := r.Intn(maxLen + 1)
	if r.Intn(12) == 0 {
		n = 0
	}
	lim := []int{c10NASCII, c10NValid, len(c10Atoms)}[kind]
	var b []byte
	for i := 0; i < n; i++ {
		if r.Intn(3) > 0 {
			b = append(b, c10Atoms[r.Intn(3)]...) // mostly a b c so that patterns match
		} else {
			b = append(b, c10Atoms[r.Intn(lim)]...)
		}
	}
	return b
}

func c10Specials(L int) []float64 {
	xs := []float64{-1e30, -math.Pow(2, 63), -math.Pow(2, 63) - 2048, -math.Pow(2, 63) + 1024, -math.Pow(2, 31), -2, -1, -0.5, math.Copysign(0, -1), 0, 5e-324, 0.5, 0.999,
		1, 1.5, 1.999, 2, 2.5, math.Pow(2, 31), math.Pow(2, 31) - 1, math.Pow(2, 32), math.Pow(2, 32) + 1, math.Pow(2, 53), math.Pow(2, 53) + 2,
		math.Pow(2, 63) - 1024, math.Pow(2, 63), math.Pow(2, 63) + 2048, math.Pow(2, 64), math.Pow(2, 64) + 4096, 1e19, -1e19, 1e30, 1e308, -1e308, math.MaxFloat64,
		math.Inf(1), math.Inf(-1), math.NaN()}
	for i := -1; i <= L+2; i++ {
		xs = append(xs, float64(i), float64(i)+0.5, float64(i)+0.99)
	}
	return xs
}

func (g c10Gen) number(L int) float64 {
	r := g.c.Rng
	switch r.Intn(6) {
	case 0:
		sp := c10Specials(L)
		return sp[r.Intn(len(sp))]
	case 1:
		return float64(r.Intn(L+5) - 2)
	case 2:
		return float64(r.Intn(L+5)-2) + r.Float64()
	case 3:
		return math.Float64frombits(r.Uint64()) // any bit pattern
	case 4:
		return math.Ldexp(r.Float64()*2-1, r.Intn(140)-10)
	}
	return float64(r.Intn(L + 2))
}

// replacement text over the tokens { &, \&, \\, text, lone backslash + other }
func (g c10Gen) repl() []byte {
	r := g.c.Rng
	toks := []string{"&", "\\&", "\\\\", "x", "<", ">", "é", "\\\\&", "\\\\\\&"}
	n := r.Intn(5)
	var b []byte
	for i := 0; i < n; i++ {
		b = append(b, toks[r.Intn(len(toks))]...)
	}
	return b
}

// ---- regex trees, rendering, and an independent brute-force leftmost-longest matcher ----------------

type rx struct {
	kind string // lit any class star plus quest cat alt group bol eol empty
	lit  []byte // lit: one valid UTF-8 character
	set  [][]byte
	neg  bool
	a, b *rx
}

func (g c10Gen) regex(depth int) *rx {
	r := g.c.Rng
	if depth <= 0 || r.Intn(3) == 0 {
		switch r.Intn(12) {
		case 0:
			return &rx{kind: "any"}
		case 1:
			set := [][]byte{c10Atoms[r.Intn(3)]}
			if r.Intn(2) == 0 {
				set = append(set, c10Atoms[r.Intn(4)])
			}
			if r.Intn(4) == 0 {
				set = append(set, []byte("é"))
			}
			return &rx{kind: "class", set: set, neg: r.Intn(3) == 0}
		case 2:
			return &rx{kind: "bol"}
		case 3:
			return &rx{kind: "eol"}
		case 4:
			return &rx{kind: "empty"}
		case 5:
			return &rx{kind: "lit", lit: [][]byte{[]byte("é"), []byte("日"), []byte(","), []byte("ß")}[r.Intn(4)]}
		}
		return &rx{kind: "lit", lit: c10Atoms[r.Intn(3)]}
	}
	switch r.Intn(8) {
	case 0:
		return &rx{kind: "star", a: g.regex(depth - 1)}
	case 1:
		return &rx{kind: "plus", a: g.regex(depth - 1)}
	case 2:
		return &rx{kind: "quest", a: g.regex(depth - 1)}
	case 3, 4:
		return &rx{kind: "alt", a: g.regex(depth - 1), b: g.regex(depth - 1)}
	}
	return &rx{kind: "cat", a: g.regex(depth - 1), b: g.regex(depth - 1)}
}

func (x *rx) String() string {
	atomize := func(y *rx) string {
		s := y.String()
		switch y.kind {
		case "lit", "any", "class":
			return s
		}
		return "(" + s + ")"
	}
	switch x.kind {
	case "lit":
		if strings.ContainsRune(`.&\|()[]*+?^$`, rune(x.lit[0])) && len(x.lit) == 1 {
			return "\\" + string(x.lit)
		}
		return string(x.lit)
	case "any":
		return "."
	case "class":
		s := "["
		if x.neg {
			s += "^"
		}
		for _, e := range x.set {
			s += string(e)
		}
		return s + "]"
	case "star":
		return atomize(x.a) + "*"
	case "plus":
		return atomize(x.a) + "+"
	case "quest":
		return atomize(x.a) + "?"
	case "cat":
		l, r := x.a.String(), x.b.String()
		if x.a.kind == "alt" {
			l = "(" + l + ")"
		}
		if x.b.kind == "alt" {
			r = "(" + r + ")"
		}
		return l + r
	case "alt":
		return x.a.String() + "|" + x.b.String()
	case "bol":
		return "^"
	case "eol":
		return "$"
	case "empty":
		return "()"
	}
	return ""
}

// ends: the set of unit positions j such that x matches u[i:j] (as a bitmask; subjects are short)
func (x *rx) ends(u [][]byte, i int) uint64 {
	switch x.kind {
	case "lit":
		if i < len(u) && bytes.Equal(u[i], x.lit) {
			return 1 << uint(i+1)
		}
		return 0
	case "any":
		if i < len(u) {
			return 1 << uint(i+1)
		}
		return 0
	case "class":
		if i >= len(u) {
			return 0
		}
		in := false
		for _, e := range x.set {
			if bytes.Equal(u[i], e) {
				in = true
			}
		}
		if in != x.neg {
			return 1 << uint(i+1)
		}
		return 0
	case "bol":
		if i == 0 {
			return 1 << uint(i)
		}
		return 0
	case "eol":
		if i == len(u) {
			return 1 << uint(i)
		}
		return 0
	case "empty":
		return 1 << uint(i)
	case "alt":
		return x.a.ends(u, i) | x.b.ends(u, i)
	case "cat":
		var out uint64
		m := x.a.ends(u, i)
		for j := 0; j <= len(u); j++ {
			if m&(1<<uint(j)) != 0 {
				out |= x.b.ends(u, j)
			}
		}
		return out
	case "quest":
		return 1<<uint(i) | x.a.ends(u, i)
	case "star", "plus":
		var reach uint64 = 1 << uint(i)
		var out uint64
		if x.kind == "star" {
			out = reach
		}
		for {
			var next uint64
			for j := 0; j <= len(u); j++ {
				if reach&(1<<uint(j)) != 0 {
					next |= x.a.ends(u, j)
				}
			}
			if next|out == out {
				break
			}
			reach = next &^ out
			out |= next
		}
		return out
	}
	return 0
}

// bruteFind: the leftmost-longest match of x in s starting at byte offset >= from (from must be a rune boundary);
// characters are Go's rune decomposition of s.
func bruteFind(x *rx, s []byte, from int) []int {
	u := unitsOf(s, true)
	if len(u) > 60 {
		return nil
	}
	offs := make([]int, len(u)+1)
	for i, e := range u {
		offs[i+1] = offs[i] + len(e)
	}
	for i := 0; i <= len(u); i++ {
		if offs[i] < from {
			continue
		}
		m := x.ends(u, i)
		if m == 0 {
			continue
		}
		best := 0
		for j := 0; j <= len(u); j++ {
			if m&(1<<uint(j)) != 0 {
				best = j
			}
		}
		return []int{offs[i], offs[best]}
	}
	return nil
}

// bruteAll: successive non-overlapping leftmost-longest matches; an empty match directly after a match is not counted.
func bruteAll(x *rx, s []byte) [][]int {
	var out [][]int
	pos, prevEnd := 0, -1
	for pos <= len(s) {
		m := bruteFind(x, s, pos)
		if m == nil {
			break
		}
		accept := true
		if m[1] == pos {
			if m[0] == prevEnd {
				accept = false
			}
			if pos < len(s) {
				_, w := utf8.DecodeRune(s[pos:])
				pos += w
			} else {
				pos = len(s) + 1
			}
		} else {
			pos = m[1]
		}
		prevEnd = m[1]
		if accept {
			out = append(out, m)
		}
	}
	return out
}

// ---- the run --------------------------------------------------------------------------------------------

func h(s string) string { return vh.HxS(s) }

func c10Corpus() []c10Case {
	e30, m63 := "1e+30", "-9.223372036854775808e+18"
	cs := []c10Case{
		// F16 (fixed): huge and infinite positions / lengths, int() of huge values
		{Op: "substr", S: h("hello"), M: e30, N: "1"},
		{Op: "substr", S: h("hello"), M: "2", N: e30},
		{Op: "substr", S: h("hello"), M: "-1e+30", N: e30},
		{Op: "substr", S: h("hello"), M: "+inf", N: "+inf"},
		{Op: "substr", S: h("hello"), M: "-inf", N: "+inf"},
		{Op: "substr", S: h("hello"), M: "2", N: "-inf"},
		{Op: "substr", S: h("hello"), M: m63, N: "9.223372036854775808e+18"},
		{Op: "substr", S: h("hello"), M: "0", N: "2"}, // start is taken as 1, then 2 characters
		{Op: "substr", S: h("hello"), M: "-1", N: "3"},
		{Op: "substr", S: h("hello"), M: "1.9", N: "1.9"},
		{Op: "substr", S: h("hello"), M: "nan", N: "nan"},
		{Op: "substr", S: h("aé日😀\xffb"), M: "2", N: "3"},
		{Op: "substr", S: h("aé日😀\xffb"), M: "4", N: e30},
		{Op: "substr", S: h("\xe6\x97\xc3"), M: "2", N: "1"},
		{Op: "substr", S: h(""), M: "1", N: "1"},
		{Op: "int", M: e30}, {Op: "int", M: "-1e+19"}, {Op: "int", M: "9.223372036854775808e+18"}, {Op: "int", M: "9.223372036854774784e+18"},
		{Op: "int", M: "-0.5"}, {Op: "int", M: "3.999"}, {Op: "int", M: "-3.999"}, {Op: "int", M: "+inf"}, {Op: "int", M: "-inf"}, {Op: "int", M: "nan"},
		{Op: "int", M: "4503599627370497.5"}, {Op: "int", M: "1.7976931348623157e+308"}, {Op: "int", M: "5e-324"},
		{Op: "index", S: h("aébéc"), A: h("é")}, {Op: "index", S: h("aébéc"), A: h("bé")}, {Op: "index", S: h("abc"), A: h("")},
		{Op: "index", S: h(""), A: h("")}, {Op: "index", S: h("abc"), A: h("d")}, {Op: "index", S: h("a\xffb"), A: h("\xffb")},
		{Op: "index", S: h("é"), A: h("\xa9")}, // G10-1 in character mode
		{Op: "index", S: h("é"), A: h("\xc3")}, // G10-1 in character mode
		{Op: "match", S: h("xabcabcy"), A: h("(abc)+")}, {Op: "match", S: h("aé日b"), A: h("日")}, {Op: "match", S: h("abc"), A: h("x*")},
		{Op: "match", S: h("abc"), A: h("d")}, {Op: "match", S: h("ab"), A: h("a|ab")}, {Op: "match", S: h("é\xffa"), A: h("[^a]+")},
		{Op: "match", S: h(""), A: h("$")}, {Op: "match", S: h("a\nb"), A: h("a.b")},
		{Op: "sub", S: h("abc"), A: h("b*"), R: h("-")}, {Op: "sub", S: h("abc"), A: h("x*"), R: h("[&]")},
		{Op: "sub", S: h("hello"), A: h("l+"), R: h("<\\&&\\\\&>")}, {Op: "sub", S: h("aéa"), A: h("é|a"), R: h("\\")},
		{Op: "sub", S: h("aaa"), A: h("a"), R: h("\\q&")}, {Op: "sub", S: h(""), A: h("^"), R: h("x")}, {Op: "sub", S: h("ab"), A: h("a|ab"), R: h("<&>")},
		{Op: "split", S: h("a,b,,c,"), A: h(",")}, {Op: "split", S: h("aébé"), A: h("é")}, {Op: "split", S: h("a.b"), A: h(".")},
		{Op: "split", S: h("a|b"), A: h("|")}, {Op: "split", S: h("a\xffb\xff"), A: h("\xff")}, {Op: "split", S: h(""), A: h(",")},
		{Op: "split", S: h("aé日"), A: h("")}, {Op: "split", S: h("a\\b"), A: h("\\")}, {Op: "split", S: h("é"), A: h("\xa9")},
		{Op: "fields", S: h("  a \t b\n")}, {Op: "fields", S: h("a\u00a0b\u3000c")}, {Op: "fields", S: h("\xc2 a\xff\x85b")}, {Op: "fields", S: h("")}, {Op: "fields", S: h(" ")},
		{Op: "case", S: h("Hello, World!")}, {Op: "case", S: h("Éé\xffZ")}, {Op: "case", S: h("\xff")}, {Op: "case", S: h("ßǅ")}, {Op: "case", S: h("")},
		{Op: "rsplit", S: h("a1b22c"), A: h("[0-9]+")}, {Op: "rsplit", S: h("abc"), A: h("x*")}, {Op: "rsplit", S: h(",a,"), A: h(",|;")},
	}
	return cs
}

func runC10(c *vh.Ctx) {
	c.Rule("probe programs through interp.ExecProgram, each case in byte mode and in character mode. substr: subjects " +
		"(ASCII / multi-byte / invalid UTF-8 / empty) x positions and lengths from the special set {-1e30,-2^63,-1,0,fractions,1..|s|+2," +
		"2^31,2^53,2^63,1e30,±inf,nan,…}, small integers, fractions, random bit patterns; int: the same numbers; index: subject x needle " +
		"(a piece of the subject, a random string, or empty); match/sub/gsub: subject x regex from a grammar (literals, ., classes, * + ?, " +
		"alternation, anchors, empty-matching) x replacement over {&, \\&, \\\\, text}; split: single-character separators (ASCII incl. " +
		"regex metacharacters, multi-byte, invalid byte, empty) and regex separators. A case is non-trivial when: substr — the result is " +
		"a proper non-empty part of s or an argument is non-finite/huge/fractional; int — x is not already an integer below 2^53; index — " +
		"the needle occurs after position 1 or the strings are not ASCII; match/sub — the regex matches and not at [0,|s|); split — " +
		"at least one separator occurs")
	g := c10Gen{c}
	var cases []c10Case
	var replaySession []c10Session
	add := func(k c10Case) {
		for _, ch := range []bool{false, true} {
			k.Chars = ch
			cases = append(cases, k)
		}
	}
	if c.ReplayFile != "" {
		var rep struct {
			Failure struct {
				Case json.RawMessage `json:"case"`
			} `json:"failure"`
			Corr []struct {
				Case json.RawMessage `json:"case"`
			} `json:"correspondence_disagreements"`
		}
		b, err := os.ReadFile(c.ReplayFile)
		if err != nil || json.Unmarshal(b, &rep) != nil {
			panic("cannot read replay file " + c.ReplayFile)
		}
		raws := []json.RawMessage{rep.Failure.Case}
		for _, d := range rep.Corr {
			raws = append(raws, d.Case)
		}
		for _, raw := range raws {
			var k c10Case
			if len(raw) == 0 || json.Unmarshal(raw, &k) != nil || k.Op == "" {
				continue
			}
			if k.Op == "session" {
				var ss c10Session
				if json.Unmarshal(raw, &ss) == nil {
					replaySession = append(replaySession, ss)
				}
				continue
			}
			cases = append(cases, k)
		}
		if len(cases) == 0 && len(replaySession) == 0 { // a proof-obligation replay: nothing to re-run but the fixed corpus
			for _, k := range c10Corpus() {
				add(k)
			}
		}
	} else {
		for _, k := range c10Corpus() {
			add(k)
		}
		// substr: every special number as position and as length on a few fixed subjects
		fixed := [][]byte{[]byte("hello"), []byte("aé日😀\xffb"), {}, []byte("\xe6\x97\xc3\xa9")}
		for _, s := range fixed {
			L := len(s)
			sp := c10Specials(L)
			for i, m := range sp {
				add(c10Case{Op: "substr", S: vh.Hx(s), M: spell(m), N: spell(sp[(i*7+3)%len(sp)])})
				add(c10Case{Op: "substr", S: vh.Hx(s), M: spell(sp[(i*5+1)%len(sp)]), N: spell(m)})
			}
		}
		for _, m := range c10Specials(3) {
			add(c10Case{Op: "int", M: spell(m)})
		}
		for i := 0; i < c.N(1500, 20000); i++ {
			s := g.subject(i%3, 8)
			L := len(s)
			add(c10Case{Op: "substr", S: vh.Hx(s), M: spell(g.number(L)), N: spell(g.number(L))})
		}
		for i := 0; i < c.N(600, 10000); i++ {
			add(c10Case{Op: "int", M: spell(g.number(6))})
		}
		for i := 0; i < c.N(1200, 15000); i++ {
			s := g.subject(i%3, 8)
			var t []byte
			switch c.Rng.Intn(4) {
			case 0:
				t = g.subject(i%3, 2)
			case 1:
				if len(s) > 0 { // a byte slice of the subject, possibly cutting a sequence
					a := c.Rng.Intn(len(s))
					t = s[a : a+1+c.Rng.Intn(min(3, len(s)-a))]
				}
			default:
				u := unitsOf(s, true) // a run of whole characters of the subject
				if len(u) > 0 {
					a := c.Rng.Intn(len(u))
					t = joinUnits(u[a : a+1+c.Rng.Intn(min(3, len(u)-a))])
				}
			}
			add(c10Case{Op: "index", S: vh.Hx(s), A: vh.Hx(t)})
		}
		for i := 0; i < c.N(1500, 20000); i++ {
			s := g.subject(i%3, 7)
			t := g.regex(1 + c.Rng.Intn(3))
			add(c10Case{Op: "match", S: vh.Hx(s), A: vh.HxS(t.String()), tree: t})
			add(c10Case{Op: "sub", S: vh.Hx(s), A: vh.HxS(t.String()), R: vh.Hx(g.repl()), tree: t})
			if i%4 == 0 {
				add(c10Case{Op: "rsplit", S: vh.Hx(s), A: vh.HxS("(" + t.String() + ")x?"), tree: nil})
			}
		}
		seps := [][]byte{[]byte(","), []byte("a"), []byte("."), []byte("|"), []byte("\\"), []byte("*"), []byte("["), []byte("\n"), []byte("\t"), []byte("é"), []byte("日"), []byte("😀"),
			{0xff}, {0xc3}, {0xa9}, {}, []byte("&"), []byte("^"), []byte("$"), []byte("("), []byte("+"), []byte("?"), {0}}
		for i := 0; i < c.N(1200, 15000); i++ {
			sep := seps[c.Rng.Intn(len(seps))]
			s := g.subject(i%3, 6)
			for j := c.Rng.Intn(4); j > 0 && len(sep) > 0; j-- { // sprinkle separators
				p := c.Rng.Intn(len(s) + 1)
				s = append(append(append([]byte{}, s[:p]...), sep...), s[p:]...)
			}
			add(c10Case{Op: "split", S: vh.Hx(s), A: vh.Hx(sep)})
		}
		blanks := [][]byte{[]byte(" "), []byte("\t"), []byte("\n"), []byte("\v"), []byte("\f"), []byte("\r"), []byte("\u00a0"), []byte("\u0085"), []byte("\u1680"),
			[]byte("\u2003"), []byte("\u200a"), []byte("\u2028"), []byte("\u202f"), []byte("\u205f"), []byte("\u3000"), []byte("\u200b"), {0xc2}, {0xe2, 0x80}, {0x85}, {0x1c}, {0x1f}}
		letters := [][]byte{[]byte("A"), []byte("z"), []byte("Q"), []byte("@"), []byte("["), []byte("`"), []byte("{"), []byte("É"), []byte("é"), []byte("ß"), []byte("Σ"), []byte("ǅ"), []byte("İ"), []byte("ı"), []byte("ſ"), []byte("K"), []byte("\ufffd"), []byte("𐐀")}
		for i := 0; i < c.N(500, 8000); i++ {
			s := g.subject(i%3, 5)
			for j := c.Rng.Intn(5); j > 0; j-- { // sprinkle blanks of every kind, also near-blanks
				bl := blanks[c.Rng.Intn(len(blanks))]
				if i%3 == 0 {
					bl = blanks[c.Rng.Intn(6)]
				}
				p := c.Rng.Intn(len(s) + 1)
				s = append(append(append([]byte{}, s[:p]...), bl...), s[p:]...)
			}
			add(c10Case{Op: "fields", S: vh.Hx(s)})
			t := g.subject(i%3, 4)
			for j := c.Rng.Intn(4); j > 0; j-- {
				l := letters[c.Rng.Intn(len(letters))]
				if i%3 == 0 {
					l = letters[c.Rng.Intn(7)]
				}
				p := c.Rng.Intn(len(t) + 1)
				t = append(append(append([]byte{}, t[:p]...), l...), t[p:]...)
			}
			add(c10Case{Op: "case", S: vh.Hx(t)})
		}
		for _, k := range c10OutParamCases(c, g) { // targets that already hold state (outparam.go)
			add(k)
		}
		for i := 0; i < c.N(60, 1500); i++ { // long subjects: the loops run many times, offsets exceed one byte
			s := g.subject(i%3, 200)
			L := len(unitsOf(s, true))
			add(c10Case{Op: "substr", S: vh.Hx(s), M: spell(float64(c.Rng.Intn(L+3)) + c.Rng.Float64()), N: spell(float64(c.Rng.Intn(L+3)-1) + c.Rng.Float64())})
			if len(s) > 0 {
				a := c.Rng.Intn(len(s))
				add(c10Case{Op: "index", S: vh.Hx(s), A: vh.Hx(s[a : a+1+c.Rng.Intn(min(5, len(s)-a))])})
			}
		}
		if c.Thorough() {
			for b := 0; b < 256; b++ { // every single byte as separator except space
				if b == ' ' {
					continue
				}
				s := []byte{'a', byte(b), 'b', byte(b), byte(b), 0xc3, 0xa9, byte(b)}
				add(c10Case{Op: "split", S: vh.Hx(s), A: vh.Hx([]byte{byte(b)})})
			}
		}
	}

	outs := make([]c10Out, len(cases))
	vh.Parallel(len(cases), func(i int) {
		f, res := c10Run(cases[i])
		outs[i] = c10Out{f, res}
	})
	replays := make([]interface{}, len(cases))
	keys := make([]string, len(cases))
	for i, k := range cases {
		replays[i] = k
		keys[i] = k.key()
	}
	// long-lived runs: many regexes / formats in one interpreter, then the same equations (session.go)
	for _, it := range c10Sessions(c, replaySession) {
		cases = append(cases, it.k)
		outs = append(outs, it.o)
		replays = append(replays, it.replay)
		keys = append(keys, it.key)
	}

	for i, k := range cases {
		o := outs[i]
		c.OracleCase()
		c.Hit("op:" + k.Op)
		c.Hit(fmt.Sprintf("chars:%v", k.Chars))
		s := vh.Unhx(k.S)
		switch {
		case k.Op == "int":
		case len(s) == 0:
			c.Hit("subject:empty")
		case isASCII(s):
			c.Hit("subject:ascii")
		case utf8.Valid(s):
			c.Hit("subject:multibyte")
		default:
			c.Hit("subject:invalid-utf8")
		}
		c.Eval(keys[i], c10NonTrivial(c, k, o))
		if i%4001 == 7 {
			c.Sample(map[string]interface{}{"case": k, "output": o.res.Out})
		}
		c10Oracle(c, k, o, replays[i])
		// byte mode and character mode agree on ASCII (cases come in pairs: byte mode first)
		if _, single := replays[i].(c10Case); single && k.Chars && i > 0 && cases[i-1].key() == (func() string { kk := k; kk.Chars = false; return kk.key() })() {
			if isASCII(s, vh.Unhx(k.A), vh.Unhx(k.R)) {
				c.Hit("ascii-pair")
				p := outs[i-1]
				if c10Canon(k, p) != c10Canon(k, o) || p.res.Err != o.res.Err || p.res.Panic != o.res.Panic {
					c.Fail(vh.Failure{Kind: "oracle", What: k.Op + ": byte mode and character mode differ on ASCII text", Case: k, Got: o.res.String(), Want: p.res.String()})
				}
			}
		}
	}

	if c.HasLean() {
		var reqs []string
		var owner []int
		for i, k := range cases {
			if outs[i].res.Panic != "" || outs[i].res.Err != "" {
				continue
			}
			for _, r := range c10LeanReqs(k) {
				reqs = append(reqs, r)
				owner = append(owner, i)
			}
		}
		ans := c.LeanBatch(reqs)
		pos := 0
		for pos < len(reqs) {
			i := owner[pos]
			end := pos
			for end < len(reqs) && owner[end] == i {
				end++
			}
			want := c10LeanWant(cases[i], outs[i])
			c.Trace()
			for j := pos; j < end; j++ {
				if ans[j] == "unsupported" {
					c.Hit("lean:unsupported")
					continue
				}
				w := want[j-pos]
				if cases[i].Op == "int" {
					if ra, rw := ratOfLean(ans[j]), ratOfLean(w); ra != nil && rw != nil && ra.Cmp(rw) == 0 {
						continue
					}
				}
				if ans[j] != w {
					c.Fail(vh.Failure{Kind: "correspondence", What: "Lean model and real code differ on request: " + reqs[j],
						Finding: c10ClassifyCorr(cases[i], reqs[j]), Case: replays[i], Got: w, Want: ans[j]})
				}
			}
			pos = end
		}
	}
}

func c10ClassifyCorr(k c10Case, req string) string { return "" }

func c10NonTrivial(c *vh.Ctx, k c10Case, o c10Out) bool {
	if o.f == nil {
		return false
	}
	s := vh.Unhx(k.S)
	switch k.Op {
	case "substr":
		m, n := unspell(k.M), unspell(k.N)
		odd := func(x float64) bool { return math.IsInf(x, 0) || math.Abs(x) >= 1<<31 || x != math.Trunc(x) }
		cls := func(x float64) string {
			switch {
			case math.IsNaN(x):
				return "nan"
			case math.IsInf(x, 0):
				return "inf"
			case math.Abs(x) >= 1<<63:
				return ">=2^63"
			case math.Abs(x) >= 1<<31:
				return ">=2^31"
			case x != math.Trunc(x):
				return "fraction"
			case x < 1:
				return "<1"
			}
			return "small-int"
		}
		c.Hit("substr-pos:" + cls(m))
		c.Hit("substr-len:" + cls(n))
		proper := len(o.f[1]) > 0 && len(o.f[1]) < len(s)
		if proper {
			c.Hit("substr:proper-part")
		}
		return proper || odd(m) || odd(n)
	case "int":
		m := unspell(k.M)
		return !(m == math.Trunc(m) && math.Abs(m) < 1<<53)
	case "index":
		if o.f[0] != "0" {
			c.Hit("index:found")
		} else {
			c.Hit("index:absent")
		}
		return (o.f[0] != "0" && o.f[0] != "1") || !isASCII(s, vh.Unhx(k.A))
	case "splitx":
		return o.f[0] != "0" && o.f[0] != "1"
	case "match", "sub", "tilde", "subx", "matchx":
		re := goRegex(vh.Unhx(k.A))
		if re == nil {
			return false
		}
		all := re.FindAllIndex(s, -1)
		c.Hit(fmt.Sprintf("%s:matches=%d", k.Op, min(len(all), 4)))
		for _, m := range all {
			if m[0] == m[1] {
				c.Hit(k.Op + ":has-empty-match")
				break
			}
		}
		return len(all) > 0 && !(all[0][0] == 0 && all[0][1] == len(s))
	case "split", "rsplit", "fields":
		return o.f[0] != "0" && o.f[0] != "1"
	case "case":
		return o.f[0] != string(s) || o.f[1] != string(s)
	}
	return false
}
