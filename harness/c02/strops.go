package main

// String-operation stream of C02: every string builtin and string-consuming operation of the interpreter, in byte mode and in
// character mode (Config.Chars), over strings made of valid multi-byte characters and of every kind of broken UTF-8 (stray
// continuation bytes, sequences truncated at the START, in the MIDDLE and at the END of the string, overlong forms, surrogates,
// out-of-range leads, 0xFF) with every numeric argument at and just beyond every boundary of the string (0, 1, its byte length,
// its character count, each ±1 and ±0.5, negative, huge, NaN, ±Inf). Oracle: no Go panic (the run ends with a status or an error).
//
// The program text of an operation is CONSTANT: the string, its byte length and character count, its first / last / defective
// piece and the dynamic regex travel in Config.Vars (raw bytes) or as the input record, so the Lean verifier sees ~100 programs.
//
// Correspondence (substrCorrespondence): the Lean model of substr() in both modes (GoawkModel.C02Str: Go's `for i = range s`
// over UTF-8, the clamping arithmetic and the final slice expression with `stuck` = slice bounds out of range; proved never
// stuck in Props/C02: substr_total) is compared with the bytes the real substr() returns.

import (
	"bytes"
	"fmt"
	"math"
	"strings"
	"unicode/utf8"

	"verifharness/vh"
)

type strAtom struct {
	class string
	b     string
}

// the pieces strings are made of; class = the kind of defect
var strAtoms = []strAtom{
	{"ascii", "a"}, {"ascii", "b"}, {"valid2", "é"}, {"valid3", "€"}, {"valid4", "😀"}, {"valid3", "\xef\xbf\xbd"}, {"valid3", "\xef\xbb\xbf"},
	{"stray", "\x80"}, {"stray", "\xbf"}, {"stray", "\x80\x80"},
	{"trunc", "\xc3"}, {"trunc", "\xdf"}, {"trunc", "\xe2"}, {"trunc", "\xe2\x82"}, {"trunc", "\xef\xbf"}, {"trunc", "\xf0"}, {"trunc", "\xf0\x9f"}, {"trunc", "\xf0\x9f\x98"}, {"trunc", "\xf4\x8f\xbf"},
	{"overlong", "\xc0\x80"}, {"overlong", "\xc1\xbf"}, {"overlong", "\xe0\x80\x80"}, {"overlong", "\xf0\x80\x80\x80"},
	{"surrogate", "\xed\xa0\x80"}, {"surrogate", "\xed\xbf\xbf"},
	{"range", "\xf4\x90\x80\x80"}, {"range", "\xf5"}, {"range", "\xf8\x88\x80\x80\x80"},
	{"ff", "\xff"}, {"ff", "\xfe"}, {"ff", "\xff\xfe"},
	{"ctl", "\x00"}, {"ctl", " "}, {"ctl", ","}, {"ctl", "\t"}, {"ctl", "\""}, {"ctl", "\r"}, {"ctl", "\\"}, {"ctl", "&"},
}

type strSubject struct {
	s          string
	pa, pz, pm string // first piece, last piece, the defective piece
	class, pos string
}

// strSubjects: each atom at the START, in the MIDDLE, at the END of a string, alone, doubled, between and after multi-byte characters,
// plus seeded random concatenations.
func strSubjects(c *vh.Ctx) []strSubject {
	var res []strSubject
	for _, a := range strAtoms {
		d := a.b
		add := func(pos, s, pa, pz string) {
			res = append(res, strSubject{s: s, pa: pa, pz: pz, pm: d, class: a.class, pos: pos})
		}
		add("start", d+"ab", d, "b")
		add("middle", "a"+d+"b", "a", "b")
		add("end", "ab"+d, "a", d)
		add("alone", d, d, d)
		add("double", d+d, d, d)
		add("between-mb", "é"+d+"€", "é", "€")
		add("end-after-mb", "a€"+d, "a", d)
	}
	n := c.N(60, 600)
	for i := 0; i < n; i++ {
		k := 1 + c.Rng.Intn(6)
		var parts []string
		worst := strAtoms[0]
		for j := 0; j < k; j++ {
			a := strAtoms[c.Rng.Intn(len(strAtoms))]
			parts = append(parts, a.b)
			if a.class != "ascii" && (worst.class == "ascii" || c.Rng.Intn(2) == 0) {
				worst = a
			}
		}
		res = append(res, strSubject{s: strings.Join(parts, ""), pa: parts[0], pz: parts[len(parts)-1], pm: worst.b, class: "random", pos: "random"})
	}
	return res
}

// numeric argument values relative to the byte length L and the character count C of the subject; the AWK spelling and the Go value
type numArg struct {
	awk string
	val func(L, C float64) float64
}

func konst(f float64) func(L, C float64) float64 { return func(_, _ float64) float64 { return f } }

var strNums = []numArg{
	{"0", konst(0)}, {"1", konst(1)}, {"-1", konst(-1)}, {"2", konst(2)}, {"3", konst(3)},
	{"L", func(L, C float64) float64 { return L }}, {"L + 1", func(L, C float64) float64 { return L + 1 }}, {"L - 1", func(L, C float64) float64 { return L - 1 }},
	{"L + 2", func(L, C float64) float64 { return L + 2 }}, {"-L", func(L, C float64) float64 { return -L }},
	{"C", func(L, C float64) float64 { return C }}, {"C + 1", func(L, C float64) float64 { return C + 1 }}, {"C - 1", func(L, C float64) float64 { return C - 1 }},
	{"C + 2", func(L, C float64) float64 { return C + 2 }}, {"-C", func(L, C float64) float64 { return -C }},
	{"0.5", konst(0.5)}, {"1.5", konst(1.5)}, {"0.999", konst(0.999)}, {"-0.5", konst(-0.5)},
	{"L + 0.5", func(L, C float64) float64 { return L + 0.5 }}, {"C + 0.5", func(L, C float64) float64 { return C + 0.5 }},
	{"2147483647", konst(2147483647)}, {"2147483648", konst(2147483648)}, {"4294967296", konst(4294967296)}, {"9007199254740992", konst(9007199254740992)},
	{"9223372036854774784", konst(9223372036854774784)}, {"9223372036854775808", konst(9223372036854775808)}, {"-9223372036854775808", konst(-9223372036854775808)},
	{"1e30", konst(1e30)}, {"-1e30", konst(-1e30)}, {"1e308", konst(1e308)},
	{"log(-1)", konst(math.NaN())}, {"-log(0)", konst(math.Inf(1))}, {"log(0)", konst(math.Inf(-1))},
}

// widths and precisions for printf: tiny, or far beyond what fmt accepts (fmt rejects |width| > 1e6: %!(BADWIDTH))
var strWidths = []string{"0", "1", "-1", "2", "C", "C + 1", "C - 1", "L", "L + 1", "-L", "-C", "0.5", "40", "1e9", "-1e9", "2147483648", "log(-1)", "-log(0)"}

func strPrelude() string {
	var b strings.Builder
	b.WriteString("function fillV(L, C) { nv = 0; ")
	for _, v := range strNums {
		fmt.Fprintf(&b, "V[++nv] = %s; ", v.awk)
	}
	b.WriteString(`V[++nv] = ""; V[++nv] = "x"; nw = 0; `)
	for _, w := range strWidths {
		fmt.Fprintf(&b, "W[++nw] = %s; ", w)
	}
	b.WriteString("}\n")
	b.WriteString(`function mm(s) { return substr(s, RSTART, RLENGTH) substr(s, RSTART + RLENGTH) substr(s, 1, RSTART - 1) substr(s, RSTART - 1, RLENGTH + 2) }` + "\n")
	return b.String()
}

type strOp struct {
	name string
	body string // statements over s, L, C, V[1..nv], W[1..nw], PA, PZ, PM, D, FSV; locals i j k n m x y z u t1 A B E F G
}

var strOps = []strOp{
	{"substr2", `for (i = 1; i <= nv; i++) { x = substr(s, V[i]); k += length(x) }`},
	{"substr3", `for (i = 1; i <= nv; i++) for (j = 1; j <= nv; j++) { x = substr(s, V[i], V[j]); k += length(x) }`},
	{"substr-nested", `for (i = 1; i <= nv; i++) { x = substr(substr(s, V[i]), 1, C); y = substr(s PZ, V[i], 2); z = substr(PM s, V[i]); u = substr(substr(s, 1, V[i]), V[i]) substr(s, C, V[i]) substr(s, L, V[i]) }`},
	{"index", `x = index(s, PA) index(s, PZ) index(s, PM) index(s, "") index(PA, s) index(s, s) index("", s) index(s PZ, PZ) index(PM s, s); ` +
		`for (i = 1; i <= nv; i++) k += index(substr(s, V[i]), PZ) + index(s, substr(s, V[i], 1)) + index(s, substr(s, V[i]))`},
	{"length", `x = length(s) length() length(PA s) length(s s) length(substr(s, 2)) length(toupper(s)) length(s PM); $0 = s; y = length() length($0) length($1)`},
	{"match", `m = match(s, /./); x = mm(s); m = match(s, /.$/); x = mm(s); m = match(s, /^./); x = mm(s); m = match(s, /$/); x = mm(s); m = match(s, /^/); x = mm(s); ` +
		`m = match(s, /[^a]+/); x = mm(s); m = match(s, /b*/); x = mm(s); m = match(s, /[^a]$/); x = mm(s); m = match(s, /../); x = mm(s); m = match(s, /a.b/); x = mm(s); ` +
		`m = match(s, /.*/); x = mm(s); m = match(s, /[[:alpha:]]+/); x = mm(s); m = match(s, /é|€/); x = mm(s); m = match(s, /[é€]+/); x = mm(s); m = match(s, /zz/); x = mm(s); ` +
		`m = match(s PZ, /.$/); x = mm(s PZ); y = (s ~ /./) (s ~ /^.$/) (s !~ /[^a-z]/)`},
	{"split-empty", `n = split(s, A, ""); for (i = 0; i <= n + 1; i++) k += length(A[i]); m = split(s s, B, ""); k += m; n = split(PZ, E, ""); n = split("", F, "")`},
	{"split-char", `n = split(s, A, "a") split(s, B, "b") split(s, E, " ") split(s, F) split(s, G, "é") split(s, A, ",") split(s, B, "\t") split(s, E, "€") split(s, F, "\\") split(s, G, "&"); for (i = 0; i <= 4; i++) k += length(A[i] B[i] E[i] F[i] G[i])`},
	{"split-regex", `n = split(s, A, /./) split(s, B, /[^a]/) split(s, E, /b*/) split(s, F, /$/) split(s, G, /a|é/) split(s, A, "..") split(s, B, /.$/) split(s, E, /^./); for (i = 0; i <= 4; i++) k += length(A[i] B[i] E[i] F[i] G[i])`},
	{"sub", `t1 = s; n = sub(/./, "[&]", t1); t1 = s; n += sub(/.$/, "&&", t1); t1 = s; n += sub(/^/, "x", t1); t1 = s; n += sub(/$/, "x", t1); t1 = s; n += sub(/[^a]+/, "\\&", t1); ` +
		`t1 = s; n += sub(/b*/, "<&>", t1); t1 = s; n += sub(/../, "", t1); t1 = s; n += sub(/a/, PM, t1); t1 = s; n += sub(/./, PZ "&" PZ, t1); $0 = s; n += sub(/./, "&&"); n += sub(/.$/, "", $1)`},
	{"gsub", `t1 = s; n = gsub(/./, "[&]", t1); t1 = s; n += gsub(/x*/, "-", t1); t1 = s; n += gsub(/[^ab]/, "", t1); t1 = s; n += gsub(/$/, "e", t1); t1 = s; n += gsub(/b*/, "&&", t1); ` +
		`t1 = s; n += gsub(/^/, "^", t1); t1 = s; n += gsub(/a|é/, PM, t1); t1 = s; n += gsub(/[^a]/, "\\\\&", t1); $0 = s; n += gsub(/./, "&."); n += gsub(/.$/, "", $1); k = length(t1 $0)`},
	{"case", `x = tolower(s) toupper(s); y = toupper(tolower(s)); k = length(toupper(s)) - length(s); z = tolower(PM) toupper(PZ s PA)`},
	{"sprintf-c", `x = sprintf("%c", s) sprintf("%c%c%c", PA, PZ, PM) sprintf("%5c|%-5c|%05c", s, s, s); for (i = 1; i <= nv; i++) { y = sprintf("%c", V[i]); z = sprintf("%c", substr(s, V[i])) sprintf("%c|%3c", substr(s, V[i], 1), substr(s, V[i], 2)) }`},
	{"sprintf-s", `x = sprintf("%s|%5.2s|%-8s|%.1s|%.0s|%10s|%.3s|%1.9s", s, s, s, s, s, s, s, s); for (i = 1; i <= nw; i++) for (j = 1; j <= nw; j++) y = sprintf("%*.*s|%-*s|%.*s", W[i], W[j], s, W[j], PZ, W[i], PM s)`},
	{"sprintf-num", `x = sprintf("%d|%i|%o|%x|%X|%u|%e|%f|%g|%5.1f|%+d|% d|%05d", s, s, s, s, s, s, s, s, s, s, s, s, s)`},
	{"printf", `printf "%5s|%-5s|%.2s|%c|%d|%x|%e|%5.1f\n", s, s, s, s, s, s, s, s; for (i = 1; i <= nw; i++) printf "%*s|%.*s|%*c\n", W[i], s, W[i], s, W[i], s; print s; print s, PZ, PM; print s > "/dev/null"; ` +
		`$0 = s; print; $2 = PM; print; print $1, $NF; OFS = PZ; ORS = PM; $1 = $1; print; print s, s`},
	{"compare", `x = (s < PA) (s <= PZ) (s == s "") (s != PM) (s > "a") (s >= "é") (s ~ /./) (PA < PZ) (s < s PM) (PM s > s) (s == PA PZ); $0 = s; y = ($0 < PA) ($1 == s) ($NF > PM) ($0 == $1)`},
	{"concat", `x = s s; y = s PA PZ; z = PM s PM; k = length(x) length(y z); u = substr(x, C, 2) substr(z, L, C) substr(y, L + C); x = s "" 1 s; y = (s) (1 + 1) (s)`},
	{"tonum", `x = s + 0; y = -s; z = s * 1; u = int(s); k = (s == 0) + (s < 1) + (s == s + 0); x = +s; x = s % 3; x = 2 ^ s; x = !s; x = s / 2; $0 = s; y = $0 + $1; z = ($1 == 0) + ($1 < 1)`},
	{"arraykey", `A[s] = 1; A[s, PZ] = 2; A[PM] = s; A[s s]; for (k in A) { n = split(k, B, SUBSEP); x = x length(k) } delete A[s]; x = (s in A) ((s, PZ) in A) ((PM) in A); delete A[s, PZ]; delete A`},
	{"fields", `FS = FSV; $0 = s; n = NF; for (i = -n - 1; i <= n + 1; i++) x = $i; $2 = "q"; y = $0; NF = 1; y = $0; $0 = s; $(NF + 2) = PZ; y = $0 $NF; $0 = s; NF = NF + 1; $1 = ""; y = $0; ` +
		`$0 = s; x = $NF; $NF = ""; n = sub(/./, "", $1); y = $0; OFS = PM; $0 = s; $3 = "x"; y = $0; $0 = s; x = $1; $0 = $0 PZ; x = $-1 $1; n = split($0, A); n = split(s, B, FS)`},
	{"dyn-match", `m = match(s, D); x = mm(s); y = (s ~ D) (s !~ D) (PZ ~ D); m = match(s s, D); x = mm(s s)`},
	{"dyn-split", `n = split(s, A, D); for (i = 0; i <= n + 1; i++) k += length(A[i]); m = split(s PZ s, B, D)`},
	{"dyn-sub", `t1 = s; n = sub(D, "[&]", t1); t1 = s; n += gsub(D, "<&>", t1); t1 = s; n += gsub(D, "", t1); t1 = s PM; n += gsub(D, PZ, t1)`},
	{"dyn-subsep", `SUBSEP = D; A[s, s] = 1; A[PA, PZ]; A[s]; for (k in A) { n = split(k, B, SUBSEP); x = x n } x = ((s, s) in A)`},
}

// record-level operations: the subject is the input (record route only)
var strRecOps = []strOp{
	{"rec-dyn-rs", `BEGIN { RS = D } { k += length($0) length(RT) NF; x = $1 $NF } END { print NR, k }`},
	{"rec-fs", `BEGIN { FS = FSV } { n = NF; for (i = -n - 1; i <= n + 1; i++) x = $i; $2 = "q"; y = $0; $0 = $0; NF = 1; y = $0 } END { print NR }`},
	{"rec-getline", `BEGIN { FS = FSV; while ((getline line) > 0) { n = split(line, A); m = split(line, B, ""); x = substr(line, length(line)) substr(line, length(line) + 1) } getline; x = $1 $NF; print NR, n, m }`},
	{"rec-getline-field", `BEGIN { FS = FSV; $0 = "p q r"; getline $2; x = $0 $2 NF; getline $(NF + 1); x = $0; getline; getline $0; x = $1 $NF; print NF }`},
}

// the field separators of the "fields" / rec-fs operations (besides the pieces of the subject)
var strFS = []string{" ", "", "a", "b", "é", ",", "\t", "|", "[^a]", "a|é", "..", ".$", "b*c?", "\\|"}

func strProgram(op strOp) string {
	return strPrelude() + `function t(s,   i, j, k, n, m, x, y, z, u, t1, L, C, A, B, E, F, G) { L = SL + 0; C = SC + 0; fillV(L, C); ` + op.body + ` }` + "\n" +
		`BEGIN { if (ROUTE == "vars") t(S) }` + "\n" + `ROUTE == "record" { t($0) }` + "\n" + `END { if (ROUTE == "record") t($0) }`
}

func dynRegexes(su strSubject) []string {
	return []string{su.pa, su.pz, su.pm, su.pm + su.pm, "[" + su.pm + "]", su.pm + "+", "(" + su.pz + ")", su.pa + "|" + su.pz, "[^" + su.pm + "]", ".", ".$", "[" + su.pa + "-" + su.pz + "]"}
}

// stropsJobs hands the cases to emit in batches of a few thousand (a case carries its program text; the thorough tier has ~180k of them).
func stropsJobs(c *vh.Ctx, emit func([]job)) {
	var js []job
	subjects := strSubjects(c)
	progs := map[string]string{}
	for _, op := range strOps {
		progs[op.name] = strProgram(op)
	}
	for _, op := range strRecOps {
		progs[op.name] = op.body
	}
	mk := func(su strSubject, op string, chars bool, route string, d, fsv string, inMode, outMode int) {
		cs := mkCase("strops", progs[op], nil)
		L := len(su.s)
		C := utf8.RuneCountInString(su.s)
		cs = cs.withVars("SL", fmt.Sprint(L), "SC", fmt.Sprint(C), "PA", su.pa, "PZ", su.pz, "PM", su.pm, "D", d, "FSV", fsv, "ROUTE", route)
		switch route {
		case "vars":
			cs = cs.withVars("S", su.s)
		default:
			in := su.s
			if c.Rng.Intn(2) == 0 {
				in += "\n"
			}
			if strings.HasPrefix(op, "rec-") {
				in = su.s + "\n" + su.s + su.pz + "\n\n" + su.pm + su.s
			}
			cs.Input = vh.HxS(in)
		}
		cs.Chars = chars
		cs.InMode, cs.OutMode = inMode, outMode
		cs.TimeoutM = 3000
		mode := "bytes"
		if chars {
			mode = "chars"
		}
		js = append(js, job{cs: cs, exp: expAny, key: "strops:" + op + ":" + mode})
		c.Hit("strops-class:" + su.class)
		c.Hit("strops-pos:" + su.pos)
		c.Hit("strops-route:" + route)
	}
	for _, su := range subjects {
		for _, chars := range []bool{false, true} {
			noNL := !strings.ContainsAny(su.s, "\n")
			for _, op := range strOps {
				route := "vars"
				if noNL && c.Rng.Intn(2) == 0 {
					route = "record"
				}
				switch {
				case strings.HasPrefix(op.name, "dyn-"):
					// one dynamic regex per case (an invalid one ends the run with an error); quick: two of them, thorough: all
					ds := dynRegexes(su)
					for k, d := range ds {
						if c.Thorough() || k == c.Rng.Intn(len(ds)) || c.Rng.Intn(8) == 0 {
							mk(su, op.name, chars, route, d, " ", 0, 0)
						}
					}
				case op.name == "fields":
					fss := append(append([]string{}, strFS...), dynRegexes(su)[:6]...)
					for k, f := range fss {
						if c.Thorough() || k == c.Rng.Intn(len(fss)) || c.Rng.Intn(8) == 0 {
							mk(su, op.name, chars, route, ".", f, 0, 0)
						}
					}
				case op.name == "printf":
					mk(su, op.name, chars, route, ".", " ", 0, c.Rng.Intn(3))
				default:
					mk(su, op.name, chars, route, ".", " ", 0, 0)
				}
			}
			if noNL {
				ds := dynRegexes(su)
				fss := append(append([]string{}, strFS...), ds[:6]...)
				for _, op := range strRecOps {
					n := c.N(1, 4)
					for k := 0; k < n; k++ {
						mk(su, op.name, chars, "record", ds[c.Rng.Intn(len(ds))], fss[c.Rng.Intn(len(fss))], c.Rng.Intn(3), 0)
					}
				}
			}
		}
		if len(js) >= 3000 {
			emit(js)
			js = nil
		}
	}
	emit(js)
}

// ---- substr(): the Lean model against the real code ------------------------------------------------------------------

func substrCorrespondence(c *vh.Ctx) {
	subjects := strSubjects(c)
	if !c.Thorough() {
		// quick: every "end" / "alone" / "end-after-mb" subject (where the two modes and the slice arithmetic differ most) and a seeded third of the rest
		var keep []strSubject
		for _, su := range subjects {
			if su.pos == "end" || su.pos == "alone" || su.pos == "end-after-mb" || c.Rng.Intn(3) == 0 {
				keep = append(keep, su)
			}
		}
		subjects = keep
	}
	// a smaller value set than the oracle stream: the boundaries and one of each kind of extreme
	var nums []numArg
	for _, v := range strNums {
		switch v.awk {
		case "3", "L + 2", "C + 2", "0.999", "2147483647", "4294967296", "9007199254740992", "1e308", "-C":
		default:
			nums = append(nums, v)
		}
	}
	var b strings.Builder
	b.WriteString("BEGIN { s = S; L = SL + 0; C = SC + 0; ")
	for _, p := range nums {
		fmt.Fprintf(&b, "printf \"%%s\\n\", substr(s, %s); ", p.awk)
		for _, n := range nums {
			fmt.Fprintf(&b, "printf \"%%s\\n\", substr(s, %s, %s); ", p.awk, n.awk)
		}
	}
	b.WriteString("}")
	src := b.String()
	type probe struct {
		cs    c02Case
		su    strSubject
		chars bool
	}
	var ps []probe
	for _, su := range subjects {
		if strings.Contains(su.s, "\n") {
			continue
		}
		for _, chars := range []bool{false, true} {
			cs := mkCase("substr-model", src, nil).withVars("S", su.s, "SL", fmt.Sprint(len(su.s)), "SC", fmt.Sprint(utf8.RuneCountInString(su.s)))
			cs.Chars = chars
			cs.TimeoutM = 10000
			ps = append(ps, probe{cs, su, chars})
		}
	}
	outs := make([]c02Out, len(ps))
	vh.Parallel(len(ps), func(i int) {
		var buf bytes.Buffer
		outs[i] = runCaseW(ps[i].cs, &buf)
		outs[i].Res.Out = buf.String()
	})
	bits := func(f float64) string { return fmt.Sprintf("%016x", math.Float64bits(f)) }
	var reqs []string
	for _, p := range ps {
		L, C := float64(len(p.su.s)), float64(utf8.RuneCountInString(p.su.s))
		mode := "b"
		if p.chars {
			mode = "c"
		}
		for _, a := range nums {
			reqs = append(reqs, fmt.Sprintf("substr %s %s %s", mode, vh.HxS(p.su.s), bits(a.val(L, C))))
			for _, n := range nums {
				reqs = append(reqs, fmt.Sprintf("substr %s %s %s %s", mode, vh.HxS(p.su.s), bits(a.val(L, C)), bits(n.val(L, C))))
			}
		}
	}
	ans := c.LeanBatch(reqs)
	per := len(nums) * (len(nums) + 1)
	for i, p := range ps {
		o := outs[i]
		c.OracleCase()
		if o.Res.Panic != "" {
			c.Fail(vh.Failure{Kind: "oracle", What: "Go panic in substr()", Case: p.cs, Got: "panic: " + o.Res.Panic, Want: "a string"})
			continue
		}
		if o.TimedOut || o.Res.Err != "" {
			c.Hit("substr-model:inconclusive")
			continue
		}
		lines := strings.Split(o.Res.Out, "\n")
		if len(lines) != per+1 {
			c.Fail(vh.Failure{Kind: "correspondence", What: "substr probe: unexpected number of output lines", Case: p.cs, Got: fmt.Sprint(len(lines)), Want: fmt.Sprint(per + 1)})
			continue
		}
		for k := 0; k < per; k++ {
			c.Trace()
			c.Eval(reqs[i*per+k], true)
			got := "ok " + vh.HxS(lines[k])
			if got != ans[i*per+k] {
				c.Fail(vh.Failure{Kind: "correspondence", What: "substr(): the Lean model and the interpreter return different bytes", Case: map[string]interface{}{"request": reqs[i*per+k], "case": p.cs},
					Got: got, Want: ans[i*per+k]})
				break
			}
		}
		if p.chars {
			c.Hit("substr-model:chars")
		} else {
			c.Hit("substr-model:bytes")
		}
	}
	c.Note(fmt.Sprintf("substr model: %d (string, mode) probes x %d (start[, length]) argument tuples compared byte for byte with the Lean model", len(ps), per))
}
