package main

// Literal-operand stream of C02: every literal / constant-foldable operand shape the compiler may specialise (negative, zero,
// huge, fractional literal field indexes and array subscripts, `$-1`, `$(-1)`, `$0`, `$1e9`, `$NF`, `$(NF+1)`, constant
// expressions) READ and WRITTEN in every syntactic use, BEFORE and AFTER the current record has been split into fields (or
// rebuilt, truncated, replaced) by an earlier access in the same record, in rules, patterns, BEGIN with and without getline,
// END, loops and functions. Oracle: no Go panic. The record state is what an engineer's fast path would test (`haveFields`,
// len(fields)); the operand shape is what the compiler folds: a defect that needs one particular shape in one particular state
// shows up only in the product.
//
// Correspondence (operandCorrespondence): for the numeric literal shapes, which thing `$<literal>` denotes (the line, nothing,
// field i) after each earlier access is compared with the Lean model's getField (proved total: getField_total) on the number of
// fields the record has at that point.

import (
	"bytes"
	"fmt"
	"math"
	"strings"

	"verifharness/vh"
)

type operand struct {
	text  string
	kind  string   // field-lit, field-neg, field-huge, field-frac, field-nf, field-const, field-str, field-nested, field-dyn, array
	val   *float64 // the numeric value of a literal field index (nil = not a plain number)
	array string   // the array an array operand subscripts (needs declaring in function contexts)
}

func fv(f float64) *float64 { return &f }

var fieldOperands = []operand{
	{"$0", "field-lit", fv(0), ""}, {"$1", "field-lit", fv(1), ""}, {"$2", "field-lit", fv(2), ""}, {"$3", "field-lit", fv(3), ""}, {"$5", "field-lit", fv(5), ""}, {"$9", "field-lit", fv(9), ""},
	{"$(1)", "field-lit", fv(1), ""}, {"$((2))", "field-lit", fv(2), ""}, {"$+1", "field-lit", fv(1), ""}, {"$1e0", "field-lit", fv(1), ""}, {"$2.0", "field-lit", fv(2), ""}, {"$01", "field-lit", fv(1), ""},
	{"$-1", "field-neg", fv(-1), ""}, {"$-2", "field-neg", fv(-2), ""}, {"$-3", "field-neg", fv(-3), ""}, {"$-4", "field-neg", fv(-4), ""}, {"$-9", "field-neg", fv(-9), ""}, {"$-0", "field-neg", fv(0), ""},
	{"$(-1)", "field-neg", fv(-1), ""}, {"$(-2)", "field-neg", fv(-2), ""}, {"$((-1))", "field-neg", fv(-1), ""}, {"$- 1", "field-neg", fv(-1), ""}, {"$-1.0", "field-neg", fv(-1), ""}, {"$-1e0", "field-neg", fv(-1), ""},
	{"$-(1)", "field-neg", fv(-1), ""}, {"$+-1", "field-neg", fv(-1), ""}, {"$-+2", "field-neg", fv(-2), ""}, {"$- -1", "field-neg", fv(1), ""},
	{"$1.5", "field-frac", fv(1.5), ""}, {"$-1.5", "field-frac", fv(-1.5), ""}, {"$0.5", "field-frac", fv(0.5), ""}, {"$-0.5", "field-frac", fv(-0.5), ""}, {"$.5", "field-frac", fv(0.5), ""}, {"$2.999", "field-frac", fv(2.999), ""},
	{"$1e6", "field-huge", fv(1e6), ""}, {"$1000000", "field-huge", fv(1000000), ""}, {"$1000001", "field-huge", fv(1000001), ""}, {"$-1000001", "field-huge", fv(-1000001), ""}, {"$1e9", "field-huge", fv(1e9), ""}, {"$-1e9", "field-huge", fv(-1e9), ""},
	{"$2147483647", "field-huge", fv(2147483647), ""}, {"$2147483648", "field-huge", fv(2147483648), ""}, {"$-2147483648", "field-huge", fv(-2147483648), ""}, {"$-2147483649", "field-huge", fv(-2147483649), ""},
	{"$4294967295", "field-huge", fv(4294967295), ""}, {"$4294967296", "field-huge", fv(4294967296), ""}, {"$4294967297", "field-huge", fv(4294967297), ""}, {"$-4294967297", "field-huge", fv(-4294967297), ""},
	{"$9007199254740993", "field-huge", fv(9007199254740993), ""}, {"$9223372036854775807", "field-huge", fv(9223372036854775807), ""}, {"$9223372036854775808", "field-huge", fv(9223372036854775808), ""},
	{"$-9223372036854775808", "field-huge", fv(-9223372036854775808), ""}, {"$1e19", "field-huge", fv(1e19), ""}, {"$-1e19", "field-huge", fv(-1e19), ""}, {"$1e30", "field-huge", fv(1e30), ""}, {"$-1e30", "field-huge", fv(-1e30), ""},
	{"$1e308", "field-huge", fv(1e308), ""}, {"$1e999", "field-huge", nil, ""}, {"$0x10", "field-huge", nil, ""},
	{"$NF", "field-nf", nil, ""}, {"$(NF)", "field-nf", nil, ""}, {"$(NF+1)", "field-nf", nil, ""}, {"$(NF-1)", "field-nf", nil, ""}, {"$(NF+2)", "field-nf", nil, ""}, {"$-NF", "field-nf", nil, ""}, {"$(-NF)", "field-nf", nil, ""},
	{"$(-NF-1)", "field-nf", nil, ""}, {"$(NF+1e9)", "field-nf", nil, ""}, {"$(NF-1e9)", "field-nf", nil, ""}, {"$NR", "field-nf", nil, ""}, {"$(NF*2)", "field-nf", nil, ""}, {"$(NF/2)", "field-nf", nil, ""},
	{"$(1+1)", "field-const", nil, ""}, {"$(2-3)", "field-const", nil, ""}, {"$(0*1)", "field-const", nil, ""}, {"$(1/2)", "field-const", nil, ""}, {"$(-1*1)", "field-const", nil, ""}, {"$(2^31)", "field-const", nil, ""},
	{"$(1-2-3)", "field-const", nil, ""}, {"$!0", "field-const", nil, ""}, {"$!1", "field-const", nil, ""}, {"$-!0", "field-const", nil, ""}, {"$(1<2)", "field-const", nil, ""}, {"$(-(1))", "field-const", nil, ""}, {"$(1 ? -1 : 2)", "field-const", nil, ""},
	{`$"1"`, "field-str", nil, ""}, {`$"-1"`, "field-str", nil, ""}, {`$"x"`, "field-str", nil, ""}, {`$""`, "field-str", nil, ""}, {`$"1e9"`, "field-str", nil, ""}, {`$("-" 1)`, "field-str", nil, ""}, {`$-"1"`, "field-str", nil, ""},
	{"$$1", "field-nested", nil, ""}, {"$$-1", "field-nested", nil, ""}, {"$$0", "field-nested", nil, ""}, {"$$NF", "field-nested", nil, ""}, {"$-$1", "field-nested", nil, ""}, {"$$$-1", "field-nested", nil, ""}, {"$-$-1", "field-nested", nil, ""},
	{"$neg", "field-dyn", nil, ""}, {"$(neg)", "field-dyn", nil, ""}, {"$-one", "field-dyn", nil, ""}, {"$(neg-8)", "field-dyn", nil, ""}, {"$zero", "field-dyn", nil, ""}, {"$-zero", "field-dyn", nil, ""}, {"$unset", "field-dyn", nil, ""},
}

var subscripts = []string{"0", "1", "-1", "-0", "0.5", "-0.5", "1e9", "1e30", "-1e30", "2147483648", "9223372036854775808", "1e999", "01", "1.0", `"x"`, `""`, `"1"`, `"-1"`, "1, 2", "-1, -1", "NF", "$-1", "$1", "$0", "-NF", "neg",
	"1+1", "2-3", "!0", `1 "" 2`, "0x10", "1e6", "1000001", "-(1)"}

func allOperands() []operand {
	ops := append([]operand{}, fieldOperands...)
	for _, arr := range []string{"A", "ARGV", "ENVIRON", "la"} {
		for _, s := range subscripts {
			ops = append(ops, operand{text: arr + "[" + s + "]", kind: "array", array: arr})
		}
	}
	return ops
}

// what happened earlier in the same record; split = the record is split into fields afterwards (haveFields)
type preState struct {
	name, stmts string
	split       bool
	corr        bool // the record afterwards has >= 2 distinct non-empty fields, none equal to the line (usable by the correspondence probe)
}

var preStates = []preState{
	{"none", ``, false, true},
	{"read-$1", `x = $1`, true, true},
	{"read-$2$3", `x = $2 $3`, true, true},
	{"read-NF", `x = NF`, true, true},
	{"read-$NF", `x = $NF`, true, true},
	{"read-$-1", `x = $(-1)`, true, true},
	{"read-$0", `x = $0`, false, true},
	{"read-$9", `x = $9`, true, true},
	{"length", `x = length()`, false, true},
	{"split-fn", `n = split($0, T)`, false, true},
	{"cond-$1", `if ($1 == "zz") x = 1`, true, true},
	{"set-$2", `$2 = "vv"`, true, true},
	{"set-$1-self", `$1 = $1`, true, true},
	{"set-$3-empty", `$3 = ""`, true, false},
	{"set-beyond", `$(NF+2) = "zz"`, true, false},
	{"set-$0", `$0 = "pp qq rr ss"`, false, true},
	{"set-$0-empty", `$0 = ""`, false, false},
	{"set-$0-self", `$0 = $0`, false, true},
	{"set-$0-after-split", `x = $1; $0 = "nn ee ww"`, false, true},
	{"NF=2", `NF = 2`, true, true},
	{"NF=5", `NF = 5`, true, false},
	{"NF=0", `NF = 0`, true, false},
	{"NF++", `NF++`, true, false},
	{"NF-self", `NF = NF`, true, true},
	{"getline", `getline`, false, false},
	{"getline-var", `getline x`, false, true},
	{"getline-file", `getline < "DIR/data.txt"`, false, false},
	{"getline-file-var", `x = $1; getline y < "DIR/data.txt"`, true, true},
	{"getline-after-split", `x = $1; getline`, false, false},
	{"getline-cmd", `x = NF; "echo u v w" | getline`, false, false},
	{"sub-$0", `n = sub(/a/, "b")`, false, false},
	{"sub-$2", `n = sub(/b/, "B", $2)`, true, false},
	{"incr-$1", `$1++`, true, false},
	{"FS-then-read", `FS = ","; x = $1`, true, false},
	{"FS-set-$0", `FS = ","; $0 = "aa,bb,cc"; x = $2`, true, true},
	{"split-twice", `x = $1; $0 = $0; x = NF; $2 = "vv"; $0 = $0 " tail"`, false, true},
}

// the uses of an operand O that only read it (none of them can end the run with an error, so they share a program, a third of them at a time)
var readUses = []string{
	`v = @O@`, `print @O@`, `if (@O@) n++`, `if (@O@ == "cc") m++`, `if (@O@ < 2) m++; else m--`, `while (@O@ > 1e308) break`, `n += @O@`, `w = @O@ @O@`, `k = length(@O@)`, `u = -@O@`, `t = !@O@`, `z = (@O@ in B)`,
	`y = @O@ ~ /a/`, `q = substr(@O@, 1, 1)`, `print @O@, @O@`, `printf "%s %d\n", @O@, @O@`, `B[@O@] = @O@`, `x = @O@ ? @O@ : @O@`, `x = id(@O@)`, `x = (@O@, @O@) in B`, `x = @O@ + @O@ * @O@`, `x = index(@O@, "a")`, `n = split(@O@, P)`,
	`x = @O@ && @O@ || !@O@`, `x = (@O@ == @O@) (@O@ != @O@) (@O@ < @O@)`, `x = toupper(@O@)`, `for (i = 0; i < 2; i++) x = x @O@`, `x = @O@; x = @O@`,
}

// the uses that write it (each may end the run with an error such as "field index too large": one per program, then read back)
var writeUses = []string{
	`@O@ = "ww"`, `@O@ = 7`, `@O@ = ""`, `@O@ += 1`, `@O@ ^= 2`, `@O@ %= 3`, `@O@++`, `++@O@`, `@O@--`, `--@O@`, `x = @O@++ + ++@O@`, `x = @O@-- - --@O@`, `getline @O@`, `getline @O@ < "DIR/data.txt"`, `"echo zz yy" | getline @O@`,
	`n = sub(/a/, "b", @O@)`, `n = gsub(/./, "x", @O@)`, `n = gsub(/x*/, "-", @O@)`, `@O@ = @O@`, `@O@ = $0`, `@O@ = NF`, `@O@ = @O@ @O@`, `@O@ = $1 = $2`, `x = (@O@ = 3) + (@O@ = 4)`, `$0 = @O@`, `NF = @O@`, `@O@ = x = @O@`, `@O@ = id(@O@)`,
}

type opContext struct {
	name string
	// P = the earlier accesses, U = the uses
	tmpl string
}

var opContexts = []opContext{
	{"rule", `{ @P@; @U@ }`},
	{"two-rules", `{ @P@ } { @U@ }`},
	{"pattern", `{ @P@ } @R@ { @U@ }`},
	{"range", `@R@, @R@ { @P@; @U@ }`},
	{"cond-pattern", `$1 != "" && @R@ != "zz" { @P@; @U@ }`},
	{"begin", `BEGIN { @P@; @U@ }`},
	{"begin-getline", `BEGIN { getline; @P@; @U@ }`},
	{"begin-getline-loop", `BEGIN { while ((getline) > 0) { @P@; @U@ } }`},
	{"begin-getline-var-loop", `BEGIN { while ((getline line) > 0) { @P@; @U@ } }`},
	{"end", `END { @P@; @U@ }`},
	{"end-after-split", `{ x = $1 } END { @P@; @U@ }`},
	{"end-after-NF", `{ NF = 2 } END { @P@; @U@ }`},
	{"func", `function f(la, p) { la[0]; @P@; @U@; return p } { f(A, 1) }`},
	{"func-use-only", `function f(la, p) { la[0]; @U@; return p } { @P@; f(A, 1) }`},
	{"func-in-begin", `function f(la, p) { la[0]; @P@; @U@; return p } BEGIN { f(A, 1); getline; f(A, 2) } END { f(A, 3) }`},
	{"func-recursive", `function f(la, p) { la[0]; @P@; if (p < 3) f(la, p + 1); @U@; return p } { f(A, 1) }`},
	{"loop", `{ for (ii = 0; ii < 2; ii++) { @U@; @P@ } }`},
	{"next", `NR == 1 { @P@; next } { @U@; @P@; @U@ }`},
}

var opInputs = []string{"aa bb cc\ndd ee\n", "one\n", "\n", "", "a b c d e f g h i j k\n", "  \n x y\n", "1 2 3\n4\n", "aa,bb,cc\ndd,ee\n", "aa bb cc", "aa bb cc dd\nee ff gg hh\nii jj\n"}

const opPrelude = `function id(p) { return p } BEGIN { neg = -1; one = 1; zero = 0; A[1] = 1; A[-1] = 2; B[0]; delete B[0] }` + "\n"

func opProgram(ctx opContext, pre preState, o operand, uses []string) string {
	u := strings.ReplaceAll(strings.Join(uses, "; "), "@O@", o.text)
	p := pre.stmts
	if p == "" {
		p = "x = x"
	}
	src := ctx.tmpl
	if o.array == "la" && !strings.Contains(src, "function f(") {
		// a local array exists only inside a function
		src = `function f(la, p) { la[0]; @P@; @U@; return p } { f(A, 1) }`
	}
	r := o.text
	src = strings.ReplaceAll(src, "@P@", p)
	src = strings.ReplaceAll(src, "@U@", u)
	src = strings.ReplaceAll(src, "@R@", r)
	src = strings.ReplaceAll(src, "DIR", scratchDir)
	return opPrelude + src
}

// operandJobs hands the cases to emit in batches of a few thousand.
func operandJobs(c *vh.Ctx, emit func([]job)) {
	var js []job
	flush := func(force bool) {
		if force || len(js) >= 4000 {
			emit(js)
			js = nil
		}
	}
	ops := allOperands()
	mk := func(ctx opContext, pre preState, o operand, uses []string, use string) {
		src := opProgram(ctx, pre, o, uses)
		cs := mkCase("operands", src, []byte(opInputs[c.Rng.Intn(len(opInputs))]))
		switch c.Rng.Intn(10) {
		case 0:
			cs.Chars = true
		case 1:
			cs.InMode = 1
		case 2:
			cs.InMode = 2
		}
		cs.TimeoutM = 3000
		js = append(js, job{cs: cs, exp: expAny, key: "operand:" + o.kind + ":" + use})
		c.Hit("operand-pre:" + pre.name)
		c.Hit("operand-ctx:" + ctx.name)
		if pre.split {
			c.Hit("operand-state:split-before-use")
		} else {
			c.Hit("operand-state:unsplit-before-use")
		}
	}
	// reads: every operand x every earlier access x a seeded context (thorough: four of them)
	for oi, o := range ops {
		if o.kind == "array" && !c.Thorough() && c.Rng.Intn(3) != 0 {
			continue
		}
		for pi, pre := range preStates {
			if strings.Contains(pre.stmts, "| getline") && !c.Thorough() && c.Rng.Intn(6) != 0 {
				continue // a command per record: a seeded sixth in the quick tier
			}
			// the read uses go into a program ten at a time (the Lean verifier's cost grows with the square of the code length)
			group := func() []string {
				g := c.Rng.Intn(3)
				lo, hi := g*len(readUses)/3, (g+1)*len(readUses)/3
				return readUses[lo:hi]
			}
			if c.Thorough() {
				for k := 0; k < 4; k++ {
					mk(opContexts[c.Rng.Intn(len(opContexts))], pre, o, group(), "read")
				}
				continue
			}
			_ = oi
			_ = pi
			mk(opContexts[c.Rng.Intn(len(opContexts))], pre, o, group(), "read")
		}
		flush(false)
	}
	// writes: seeded sample of operand x earlier access x context x use, each followed by reading everything back
	n := c.N(4000, 40000)
	for i := 0; i < n; i++ {
		o := ops[c.Rng.Intn(len(ops))]
		if o.kind == "array" && c.Rng.Intn(2) == 0 {
			o = fieldOperands[c.Rng.Intn(len(fieldOperands))]
		}
		if !c.Thorough() && (o.text == "$1e6" || o.text == "$1000000") && c.Rng.Intn(5) != 0 {
			o = fieldOperands[c.Rng.Intn(len(fieldOperands))] // a million fields per write: a seeded fifth of them in the quick tier
		}
		pre := preStates[c.Rng.Intn(len(preStates))]
		ctx := opContexts[c.Rng.Intn(len(opContexts))]
		w := writeUses[c.Rng.Intn(len(writeUses))]
		if !c.Thorough() && (strings.Contains(w, "| getline") || strings.Contains(pre.stmts, "| getline")) && c.Rng.Intn(4) != 0 {
			pre, w = preStates[c.Rng.Intn(4)], writeUses[c.Rng.Intn(12)] // commands are slow on a loaded machine: a seeded quarter of them in the quick tier
		}
		if o.kind == "array" && (strings.HasPrefix(w, "NF = ") || strings.HasPrefix(w, "$0 = ")) {
			w = `@O@ = "ww"`
		}
		uses := []string{w, `v = @O@`, `print`, `print NF, $1, $NF, $(-1)`, `w = @O@ @O@`}
		mk(ctx, pre, o, uses, "write")
		flush(false)
	}
	flush(true)
}

// ---- which thing a literal field index denotes: the Lean getField against the real code -------------------------------

func operandCorrespondence(c *vh.Ctx) {
	type probe struct {
		cs  c02Case
		o   operand
		pre preState
	}
	var ps []probe
	for _, o := range fieldOperands {
		if o.val == nil {
			continue
		}
		for _, pre := range preStates {
			if !pre.corr {
				continue
			}
			// O is evaluated FIRST after the earlier access (reading NF would split the record), classified afterwards
			src := fmt.Sprintf(`{ %s; v = %s; nf = NF; if (v == $0) w = "line"; else if (v == "") w = "empty"; else { w = "other"; for (i = 1; i <= nf; i++) if ($i == v) w = "field:" i-1 } print nf, w; exit }`,
				strings.ReplaceAll(pre.stmts, "DIR", scratchDir), o.text)
			cs := mkCase("operand-model", src, []byte("aa bb cc dd\nee ff gg hh\nii jj\n"))
			cs.TimeoutM = 5000
			ps = append(ps, probe{cs, o, pre})
		}
	}
	outs := make([]c02Out, len(ps))
	vh.Parallel(len(ps), func(i int) {
		var buf bytes.Buffer
		outs[i] = runCaseW(ps[i].cs, &buf)
		outs[i].Res.Out = buf.String()
	})
	var reqs []string
	var idx []int
	for i, p := range ps {
		o := outs[i]
		c.OracleCase()
		if o.Res.Panic != "" {
			c.Fail(vh.Failure{Kind: "oracle", What: "Go panic reading a literal field index", Case: p.cs, Got: "panic: " + o.Res.Panic, Want: "a value"})
			continue
		}
		if o.ParseErr != "" || o.TimedOut || o.Res.Err != "" {
			c.Hit("operand-model:inconclusive")
			continue
		}
		var nf int
		var w string
		if _, err := fmt.Sscan(o.Res.Out, &nf, &w); err != nil {
			c.Fail(vh.Failure{Kind: "correspondence", What: "operand probe: unreadable output", Case: p.cs, Got: o.Res.Out})
			continue
		}
		reqs = append(reqs, fmt.Sprintf("field get %d %016x", nf, math.Float64bits(*p.o.val)))
		idx = append(idx, i)
	}
	ans := c.LeanBatch(reqs)
	for k, i := range idx {
		var nf int
		var w string
		fmt.Sscan(outs[i].Res.Out, &nf, &w)
		c.Trace()
		c.Eval(ps[i].cs.Src, true)
		c.Hit("operand-model:" + strings.SplitN(ans[k], ":", 2)[0])
		if w != ans[k] {
			c.Fail(vh.Failure{Kind: "correspondence", What: "a literal field index after an earlier access denotes something else than the Lean getField says", Case: ps[i].cs, Got: w, Want: ans[k] + " (" + reqs[k] + ")"})
		}
	}
	c.Note(fmt.Sprintf("operand model: %d probes (numeric literal field-index shapes x earlier accesses) compared with the Lean getField", len(idx)))
}
