package main

// "Same text, different use": every memoised thing in package interp — the printf format cache and the dynamic-regex cache (both
// survive Execute calls), the CSV field-name index, the stream / scanner maps keyed by name — is hit with the SAME key several
// times under DIFFERENT conditions, within one run and across Execute calls on one Interpreter.

import (
	"fmt"
	"regexp"
	"strings"

	"verifharness/vh"
)

// fmtArgs is the number of arguments a printf format consumes (conversions plus `*`), -1 for a format goawk rejects.
func fmtArgs(f string) int {
	n := 0
	for i := 0; i < len(f); i++ {
		if f[i] != '%' {
			continue
		}
		i++
		if i >= len(f) {
			return -1
		}
		if f[i] == '%' {
			continue
		}
		for i < len(f) && strings.IndexByte(" .-+*#0123456789", f[i]) >= 0 {
			if f[i] == '*' {
				n++
			}
			i++
		}
		if i >= len(f) || strings.IndexByte("sdoxXifeEgGaAuc", f[i]) < 0 {
			return -1
		}
		n++
	}
	return n
}

var sameKeyFormats = []string{"%d", "%s|%s", "%*d", "%-*.*f|%c", "%5.2f %x %o", "%d%%%s", "%c%c%c", "%i %u %e %g", "%.*s", "x%sx%dx", "%%", "plain", "%z", "%", "%5", "%d %q"}

const fillCaches = `BEGIN { for (i = 1; i <= 130; i++) { x = sprintf("%" i "d", i); y = ("a" ~ ("^a{" i "}")) } } `

func sameKeyJobs(c *vh.Ctx) []job {
	var js []job
	argv := []string{`1`, `"s"`, `2.5`, `-3`, `"x y"`, `log(-1)`, `7`}
	// ---- printf / sprintf formats
	for _, f := range sameKeyFormats {
		k := fmtArgs(f)
		kk := k
		if kk < 0 {
			kk = 1
		}
		lit := awkStr(f)
		for _, form := range []string{"printf", "sprintf", "var"} {
			var b strings.Builder
			for n := 0; n <= kk+2; n++ {
				args := ""
				for a := 0; a < n; a++ {
					args += ", " + argv[a%len(argv)]
				}
				switch form {
				case "printf":
					fmt.Fprintf(&b, "$1 == %d { printf %s%s; next } ", n, lit, args)
				case "sprintf":
					fmt.Fprintf(&b, "$1 == %d { s = sprintf(%s%s); next } ", n, lit, args)
				default: // the format travels in a variable, reaches OFMT/CONVFMT too
					fmt.Fprintf(&b, "$1 == %d { f = %s; s = sprintf(f%s); printf f%s; next } ", n, lit, args, args)
				}
			}
			dispatch := b.String()
			want := func(lines []int) string {
				for _, n := range lines {
					if k < 0 || n < k {
						return "format"
					}
				}
				return "none"
			}
			in := func(lines []int) []byte {
				var sb strings.Builder
				for _, n := range lines {
					fmt.Fprintf(&sb, "%d\n", n)
				}
				return []byte(sb.String())
			}
			seqs := [][]int{{kk}, {kk, kk}, {kk + 2, kk}, {kk, kk + 2}}
			if kk > 0 {
				seqs = append(seqs, []int{kk, kk - 1}, []int{kk + 2, kk - 1}, []int{kk - 1}, []int{kk, 0}, []int{0}, []int{kk, kk, kk - 1, kk})
			}
			for _, pre := range []string{"", fillCaches} {
				// within one run
				for _, sq := range seqs {
					cs := mkCase("same-key", pre+dispatch, in(sq))
					js = append(js, job{cs: cs, exp: expAny, key: "samekey:format:one-run", expRuns: []string{want(sq)}})
				}
				// across Execute calls on one Interpreter (the caches survive; errors in between)
				hists := [][][]int{{{kk}, {kk}}, {{kk + 2}, {kk}, {kk + 2}}}
				if kk > 0 {
					hists = append(hists, [][]int{{kk}, {kk - 1}}, [][]int{{kk - 1}, {kk}, {kk - 1}}, [][]int{{kk + 2}, {0}, {kk}}, [][]int{{kk}, {kk, kk - 1}, {kk - 1}, {kk}})
				}
				for _, h := range hists {
					cs := mkCase("same-key", pre+dispatch, in(h[0]))
					var exp []string
					for _, r := range h {
						cs.History = append(cs.History, vh.Hx(in(r)))
						exp = append(exp, want(r))
					}
					js = append(js, job{cs: cs, exp: expAny, key: "samekey:format:reuse", expRuns: exp})
				}
			}
		}
	}
	// ---- dynamic regexes: the same text through every consumer, valid and invalid
	const reDispatch = `{ r = $1; s = $2 } $3 == 1 { print (s ~ r) } $3 == 2 { print match(s, r) } $3 == 3 { n = split(s, A, r); print n } ` +
		`$3 == 4 { gsub(r, "-", s); print s } $3 == 5 { sub(r, "[&]", s); print s } $3 == 6 { print (s !~ r) } $3 == 7 { of = FS; FS = r; $0 = s; print NF; FS = of } ` +
		`$3 == 8 { os = RS; RS = r; RS = os } $3 == 9 { if (s ~ r) print "y"; else print "n" }`
	regexes := []string{"ab+", "a(b", "[a-c]x", "[x", "a{2}", "a{2,1}", "x*y", "**", "(a|b)c", "a)b", "\\.\\.", "a\\"}
	for _, r := range regexes {
		_, cerr := regexp.Compile("(?s:" + r + ")")
		cls := "none"
		if cerr != nil {
			cls = "invalid-regex"
		}
		line := func(use int) string { return fmt.Sprintf("%s abbxab..aay %d\n", r, use) }
		seqs := [][]int{{1, 2, 3, 4, 5, 6, 7, 9}, {7, 3, 1}, {4, 4, 2}, {8, 1}, {9, 5, 6, 2}, {3}, {2, 7}}
		for _, pre := range []string{"", fillCaches} {
			for _, sq := range seqs {
				var sb strings.Builder
				for _, u := range sq {
					sb.WriteString(line(u))
				}
				js = append(js, job{cs: mkCase("same-key", pre+reDispatch, []byte(sb.String())), exp: expAny, key: "samekey:regex:one-run", expRuns: []string{cls}})
			}
			for _, h := range [][]int{{1, 3}, {3, 1, 7}, {4, 2, 4}, {7, 9, 8, 1}} {
				cs := mkCase("same-key", pre+reDispatch, []byte(line(h[0])))
				var exp []string
				for _, u := range h {
					cs.History = append(cs.History, vh.HxS(line(u)))
					exp = append(exp, cls)
				}
				js = append(js, job{cs: cs, exp: expAny, key: "samekey:regex:reuse", expRuns: exp})
			}
		}
	}
	// ---- CSV field names: the name index is built lazily and must follow the header of the current input
	for _, h := range [][]string{{"a,b\n1,2\n", "b,a\n3,4\n", "x\n5\n"}, {"a,a\n1,2\n", "\n", "a\n"}, {"a,b\n1,2\n3,4\n", "a,b\n"}} {
		cs := mkCase("same-key", `{ print @"a", @"zz", @"b"; $1 = "q"; print @"a" } END { print NR }`, []byte(h[0]))
		cs = cs.withVars("INPUTMODE", "csv header")
		for _, in := range h {
			cs.History = append(cs.History, vh.HxS(in))
		}
		js = append(js, job{cs: cs, exp: expAny, key: "samekey:fieldnames"})
	}
	// ---- one name as input file, output file and command
	f := scratchDir + "/samekey.txt"
	for _, src := range []string{
		`BEGIN { f = "` + f + `"; print "a b" > f; close(f); getline x < f; print "c" > f; r = getline y < f; close(f); print "d" >> f; close(f); while ((getline z < f) > 0) n++; print x, r, n }`,
		`BEGIN { f = "` + f + `"; print "q" > f; getline x < f; print "w" | f; close(f); f | getline y; close(f); print close(f), close(f) }`,
		`BEGIN { c = "echo hi"; c | getline x; print "z" | c; close(c); c | getline y; print x, y, close(c) }`,
	} {
		cs := mkCase("same-key", src, nil)
		cs.History = []string{"-", "-", "R", "-"}
		js = append(js, job{cs: cs, exp: expAny, key: "samekey:streams"})
	}
	return js
}
