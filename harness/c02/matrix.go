package main

// Fixed corpus and the directed value matrix of C02.

import (
	"fmt"
	"path/filepath"
	"regexp"
	"strings"

	"verifharness/vh"
)

// numeric value classes, spelled as AWK expressions
var numClasses = []struct{ name, expr string }{
	{"zero", "0"}, {"one", "1"}, {"two", "2"}, {"neg1", "-1"}, {"neg7", "-7"}, {"half", "0.5"}, {"neghalf", "-0.5"}, {"frac", "2.7"},
	{"big32", "2147483648"}, {"negbig32", "-2147483649"}, {"u32", "4294967296"}, {"2^53", "9007199254740992"},
	{"maxint", "9223372036854775807"}, {"2^63", "9223372036854775808"}, {"-2^63", "-9223372036854775808"}, {"2^64", "18446744073709551616"},
	{"1e19", "1e19"}, {"-1e19", "-1e19"}, {"1e30", "1e30"}, {"-1e30", "-1e30"}, {"1e308", "1e308"}, {"tiny", "5e-324"},
	{"inf", "-log(0)"}, {"-inf", "log(0)"}, {"nan", "log(-1)"}, {"-nan", "-log(-1)"}, {"negzero", "-0"},
	{"maxfield", "1000000"}, {"maxfield+1", "1000001"}, {"1e6-ish", "999999.9"},
	{"str-empty", `""`}, {"str-abc", `"abc"`}, {"str-3x", `"3x"`}, {"str-spaces", `"  12  "`}, {"str-ff", `"\xff"`}, {"str-nul", `"a\0b"`},
	{"str-hex", `"0x1A"`}, {"str-inf", `"+inf"`}, {"str-nan", `"nan"`}, {"str-1e400", `"1e400"`}, {"uninit", "UNSET"}, {"field9", "$9"},
	{"str-utf8", `"héllo wörld"`}, {"str-badutf8", `"a\xc3"`},
}

// string value classes as raw Go strings (for Config.Vars and special variables)
var strClasses = []struct{ name, val string }{
	{"empty", ""}, {"space", " "}, {"a", "a"}, {"comma", ","}, {"nl", "\n"}, {"tab", "\t"}, {"ff", "\xff"}, {"fffe", "\xff\xfe"}, {"nul", "\x00"},
	{"utf8-1", "é"}, {"utf8-trunc", "\xc3"}, {"surrogate", "\xed\xa0\x80"}, {"overlong", "\xc0\x80"}, {"regex-ok", "[ab]+"}, {"regex-bad", "a("},
	{"regex-bad2", "[z-a]"}, {"regex-bad3", "a{2,1}"}, {"regex-bad-utf8", "a\xffb|c"}, {"star", "*"}, {"backslash", "\\"}, {"dot", "."}, {"caret", "^"},
	{"num0", "0"}, {"num-1", "-1"}, {"num1e30", "1e30"}, {"nan", "nan"}, {"inf", "+inf"}, {"num2.7", "2.7"}, {"num1e6+1", "1000001"}, {"3x", "3x"},
	{"pct", "%"}, {"pct-d", "%d"}, {"pct-s", "%s"}, {"pct-c", "%c"}, {"pct-star", "%*d"}, {"pct-bad", "%z"}, {"pct-5g", "%.5g"}, {"pct-huge", "%.999999999f"},
	{"pct-2", "%d%d"}, {"long", strings.Repeat("ab", 100)}, {"csv", "csv"}, {"csv-header", "csv header"}, {"tsv", "tsv"}, {"csv-sep-bad", "csv separator=\""},
	{"csv-sep-nl", "csv separator=\n"}, {"csv-comment", "csv comment=#"}, {"mode-bad", "xml"}, {"csv-sep-ff", "csv separator=\xff"},
}

var specials = []string{"NF", "NR", "FNR", "RS", "FS", "OFS", "ORS", "SUBSEP", "CONVFMT", "OFMT", "RSTART", "RLENGTH", "ARGC", "FILENAME", "RT",
	"INPUTMODE", "OUTPUTMODE", "ENVIRON", "ARGV"}

// awkStr spells a Go string as an AWK string literal (\xhh takes at most two hex digits in the lexer).
func awkStr(s string) string {
	var b strings.Builder
	b.WriteByte('"')
	for i := 0; i < len(s); i++ {
		ch := s[i]
		switch {
		case ch == '"' || ch == '\\':
			b.WriteByte('\\')
			b.WriteByte(ch)
		case ch == '\n':
			b.WriteString("\\n")
		case ch == '\t':
			b.WriteString("\\t")
		case ch < 32 || ch >= 127:
			fmt.Fprintf(&b, "\\x%02x", ch)
		default:
			b.WriteByte(ch)
		}
	}
	b.WriteByte('"')
	return b.String()
}

var stdInput = []byte("a b c\n1 2 3 4 5 6 7 8 9 10\n\xff\xfe x\x00y  \n  lead 3x -1e30 nan\r\nlast")

func corpusJobs() []job {
	var js []job
	add := func(exp expect, src string, mods ...func(*c02Case)) {
		cs := mkCase("corpus", src, stdInput)
		cs.TimeoutM = 10000
		for _, m := range mods {
			m(&cs)
		}
		js = append(js, job{cs: cs, exp: exp, key: ""})
	}
	vars := func(kv ...string) func(*c02Case) { return func(cs *c02Case) { *cs = cs.withVars(kv...) } }
	chars := func(cs *c02Case) { cs.Chars = true }
	// regression witnesses of the repaired G02-1 (CSV/TSV input mode: getline used to replace p.fields behind p.fieldsIsTrueStr
	// and the next field access panicked; fixed with F13 in c7bccbd): must run cleanly now
	add(expNoErr, `BEGIN { x = NF; getline y < "DIR/data.txt"; $1 = "z" }`, func(cs *c02Case) { cs.InMode = 2 })
	add(expNoErr, `BEGIN { x = $1; getline y < "DIR/data.txt"; print $1 }`, func(cs *c02Case) { cs.InMode = 1 })
	add(expNoErr, `{ x = NF; getline y < "DIR/data.txt"; getline $2 < "DIR/data.txt"; "echo q" | getline z; $1 = "z"; print $1, $NF, NF }`, func(cs *c02Case) { cs.InMode = 1 })
	add(expNoErr, `NR == 1 { n = NF; getline y; print $n; $n = 1 }`, func(cs *c02Case) { cs.InMode = 2 })
	// regression witnesses of the repaired G02-2 (a var=value operand assigns an invalid regex to FS / RS; plain getline swallows the
	// error; the next split / read used a nil regex; fixed in 089bfbf): must not panic, the main loop reports the error
	args := func(a ...string) func(*c02Case) { return func(cs *c02Case) { cs.Args = a } }
	add(expNoErr, `BEGIN { r = getline; $0 = "a b[xc"; print $1 }`, args("FS=[x"))
	add(expNoErr, `BEGIN { r = getline; r2 = getline; r3 = getline v; print r, r2, r3, $1, v }`, args("RS=[x", "DIR/data.txt"))
	add(expNoErr, `BEGIN { r = getline v; $0 = "a b[xc"; print $1, $2; while ((getline w) > 0) n++; print n, $NF }`, args("DIR/data.txt", "FS=a(", "RS=(b", "DIR/data.txt"))
	// G02-3 (repaired in 049913b): a var=value operand assigns a rejected INPUTMODE / OUTPUTMODE (separator not a valid character,
	// separator = comment, unknown mode, bad option); plain getline swallows the error; the rejected value took effect and the next
	// read sliced past the end of the line. Every rejected value of every special variable, reached through every getline form,
	// followed by more reads, splits and prints: no panic.
	for _, bad := range []string{"INPUTMODE=csv separator=\xff", "INPUTMODE=tsv separator=\xc3", "INPUTMODE=csv separator=, comment=,", "INPUTMODE=csv separator=\"", "INPUTMODE=csv comment=\xfe",
		"INPUTMODE=bogus", "INPUTMODE=csv separator=ab", "INPUTMODE=csv header=maybe", "INPUTMODE=csv separator=\x00", "OUTPUTMODE=csv separator=\xff", "OUTPUTMODE=tsv separator=\n", "OUTPUTMODE=nope", "OUTPUTMODE=csv separator=\"", "OUTPUTMODE=tsv separator=\r", "OUTPUTMODE=csv separator=\x00", "OUTPUTMODE=csv separator=\xc3",
		"OUTPUTMODE=csv separator=ab", "CONVFMT=%d %d", "OFMT=%s", "NF=-1", "NF=1e9", "NR=x", "FS=a(", "RS=(b", "SUBSEP=\xff", "ARGC=-1", "RSTART=x", "FILENAME=zz"} {
		for _, prog := range []string{
			`BEGIN { r1 = (getline x); r2 = (getline y); print r1, r2, x, y; $0 = "p,q\xffr s"; print NF, $1, $2; $3 = "t"; print; NF = 2; print; $1 = ""; print length($0); NF = 0; print; $5 = "\"q"; print }`,
			`BEGIN { r1 = getline; print r1, NF, $1; r2 = getline; print r2, NF, $1, $2; while ((getline z) > 0) n++; print n, NR }`,
			// field and NF assignments (record rebuilt under the possibly half-assigned output mode) BEFORE anything is printed; printf
			// only, which does not go through the output mode (seeded C02-r1)
			`BEGIN { r = getline; $2 = "x"; printf "%s|%s|%d\n", r, $0, NF; NF = 3; $0 = "a b"; $1 = $1; r2 = (getline z); $3 = "z\"q"; NF = 1; printf "%s|%s|%d\n", r2, $0, NF }`,
			`BEGIN { getline u } { $(NF + 2) = "t"; n += length($0); NF = 1; $1 = ""; n += length($0) } END { $2 = "y"; printf "%d %d %s\n", n, NF, $0 }`,
			`BEGIN { getline junk } { print NR, NF, $1; $2 = "v w"; print; print $1, $2 > "/dev/stdout" } END { print NR, $0 }`,
			`NR == 1 { getline; getline u; print NR, NF, u } { n += NF } END { print n, split($0, parts), length(parts) }`,
		} {
			add(expAny, prog, args(bad, "DIR/bin.txt", bad, "DIR/data.txt"))
			add(expAny, prog, args("DIR/data.txt", bad, "DIR/bin.txt"))
		}
	}
	add(expRegexErr, `{ print $1 }`, args("DIR/data.txt", "FS=[x", "DIR/data.txt"))
	add(expRegexErr, `{ print $1 }`, args("RS=[x", "DIR/data.txt"))
	add(expRegexErr, `BEGIN { FS = "[x" } { print $1 }`)
	add(expNoErr, `BEGIN { FS = "q+" } NR == 1 { $0 = "aqqb"; print $2 }`)
	// witnesses of the fixed findings F03 (RS a single non-UTF-8 byte) and F04 ($(huge) = …)
	add(expNoErr, `BEGIN { RS = "\xff" } { n++ } END { print n }`)
	add(expNoErr, `{ n++ } END { print n }`, vars("RS", "\xff"))
	add(expNoErr, `BEGIN { RS = "\xff"; RS = "\xc3\xa9"; RS = "\xfe" } { n++ }`)
	add(expRegexErr, `BEGIN { RS = "\xfe\xff" } { n++ }`)
	add(expRegexErr, `BEGIN { RS = "\xed\xa0\x80" } { n++ }`)
	add(expFieldErr, `BEGIN { $(1e30) = 1; print NF }`)
	add(expFieldErr, `BEGIN { $(-log(0)) = 1 }`)
	add(expFieldErr, `BEGIN { $1000001 = 1 }`)
	add(expFieldErr, `{ $(2^63) = "x" }`)
	add(expFieldErr, `{ $(2^31*1000)++ }`)
	add(expFieldErr, `{ $(1e18) += 2 }`)
	add(expFieldErr, `BEGIN { getline $(1e30) }`)
	add(expNoErr, `BEGIN { $(-1e30) = 1; $(log(-1)) = 2; print $(1e30) $(-1e30) $(log(-1)) $(-log(0)) $(log(0)) }`)
	add(expNoErr, `{ print $(NF+1e300), $(-NF), $(-NF-1), $(0.5), $(-0.5) }`)
	// NF
	add(expNFErr, `BEGIN { NF = -1 }`)
	add(expNFErr, `BEGIN { NF = 1000001 }`)
	add(expNFErr, `{ NF = 1e30 }`)
	add(expNFErr, `{ NF = log(-1) }`)
	add(expNFErr, `{ NF = -log(0) }`)
	add(expNFErr, `{ NF -= 100 }`)
	add(expNFErr, `{ NF-- ; NF--; NF--; NF--; NF--; NF--; NF--; NF--; NF--; NF--; NF-- }`)
	add(expNFErr, `{ n++ }`, vars("NF", "-3"))
	add(expNFErr, `{ n++ }`, vars("NF", "1e9"))
	add(expNoErr, `{ NF = 1000000; NF = 0; NF = "3x"; NF = 2.7; print NF }`)
	add(expSomeError, `BEGIN { ARGC = 1e9 }`)
	add(expNoErr, `BEGIN { ARGC = -5; ARGC = 1e30; ARGC = log(-1); ARGC = "x" } { print }`)
	add(expNoErr, `BEGIN { ARGC = 1e6 } { n++ }`)
	add(expNoErr, `BEGIN { ARGV[1] = ""; ARGV[2] = "x=1"; ARGC = 3 } { n++ }`)
	// recursion
	add(expDepthErr, `function f(n) { return f(n+1) } BEGIN { f(1) }`)
	add(expDepthErr, `function f(n) { g(n) } function g(n) { f(n) } { f(1) }`)
	add(expDepthErr, `function f(a, n) { a[n] = n; f(a, n+1) } BEGIN { f(A, 1) }`)
	add(expDepthErr, `function f(n,  loc1, loc2, arr) { arr[n] = loc1; return 1 + f(n+1) + 2 } BEGIN { x = f(1) }`)
	add(expDepthErr, `function f(n) { for (k in A) { return f(n+1) } } BEGIN { A[1]; f(1) }`)
	add(expDepthErr, `function f() { return f() } $1 ~ f() { }`)
	add(expNoErr, `function f(n) { if (n < 1000) return f(n+1); return n } BEGIN { print f(1); print f(1) }`)
	add(expNoErr, `function f(n) { if (n < 1000) return f(n+1); next } { f(1); f(1) }`)
	add(expNoErr, `function f(n) { if (n < 999) return f(n+1); exit 3 } { f(1) } END { f(1) }`)
	// dynamic regexes that do not compile
	for _, re := range []string{"a(", "[", "a{2,1}", "*a", "(?P<n", "a\\", "[[:foo:]]", "\\8", "a**", "x{1001}", "(((", "[z-a]", "a\xffb", "(?i", strings.Repeat("(", 1100) + strings.Repeat(")", 1100)} {
		lit := awkStr(re)
		if _, err := regexp.Compile("(?s:" + re + ")"); err == nil {
			continue
		}
		add(expRegexErr, `BEGIN { r = `+lit+`; if ("abc" ~ r) print 1 }`)
		add(expRegexErr, `{ n += match($0, `+lit+`) }`)
		add(expRegexErr, `{ gsub(`+lit+`, "x") }`)
		add(expRegexErr, `{ sub(`+lit+`, "x", $2) }`)
		if len(re) > 1 { // a single character is a literal separator, not a regex
			add(expRegexErr, `{ split($0, A, `+lit+`) }`)
			add(expRegexErr, `BEGIN { FS = `+lit+` } { print $1 }`)
			add(expRegexErr, `BEGIN { RS = `+lit+` } { print $1 }`)
			add(expRegexErr, `{ print $1 }`, vars("FS", re))
		}
		add(expRegexErr, `$0 !~ `+lit+` { print }`)
	}
	add(expNoErr, `BEGIN { r = "a("; FS = "("; RS = "["; SUBSEP = "a(" } { print $1 }`) // single characters are not regexes
	// printf / sprintf
	add(expSomeError, `BEGIN { printf "%d %d", 1 }`)
	add(expSomeError, `BEGIN { printf "%*d", 1 }`)
	add(expSomeError, `BEGIN { printf "%" }`)
	add(expSomeError, `BEGIN { x = sprintf("%z", 1) }`)
	add(expSomeError, `BEGIN { printf "%5" }`)
	add(expNoErr, `BEGIN { printf "%*d|%-*d|%.*f|%*.*s\n", 1e9, 1, -1e9, 2, 1e9, 3, log(-1), -log(0), "s" }`)
	add(expNoErr, `BEGIN { printf "%c%c%c%c%c%c%c", 256, -1, 1e30, log(-1), "", "\xff", 0x10FFFF+1 }`)
	add(expNoErr, `BEGIN { printf "%c%c%c%c%c%c%c", 256, -1, 1e30, log(-1), "", "\xff", 1114112 }`, chars)
	add(expNoErr, `BEGIN { printf "%d %i %o %x %X %u %e %f %g %% %c %s\n", 1e30, -1e30, log(-1), -log(0), log(0), -1, 1e308*10, "x", "", 65, 2^53 }`)
	add(expNoErr, `BEGIN { printf "%1000000d", 1 }`)
	add(expNoErr, `BEGIN { printf "%1000001d %.1000001f %99999999999999999999d", 1, 2, 3 }`)
	add(expNoErr, `BEGIN { OFMT = "%d%d"; CONVFMT = "%z"; x = 0.1 ""; print 0.1; OFMT = "%s"; print 0.5; CONVFMT = "%c"; y = 3.5 "" }`)
	add(expNoErr, `BEGIN { CONVFMT = "%*d"; x = 0.1 ""; A[0.1] = 1; OFMT = "%"; print 0.25 }`)
	// substr / index / split / int / srand / rand / close / length
	add(expNoErr, `{ print substr($0, 1e30), substr($0, -1e30, 1e30), substr($0, log(-1)), substr($0, 2, log(-1)), substr($0, -log(0), log(0)), substr($0, 0.5, 2^63), substr($0, 2^63, -2^63), substr("", 0, 0) }`)
	add(expNoErr, `{ print substr($0, 1e30), substr($0, -1e30, 1e30), substr($0, log(-1)), substr($0, 2, log(-1)), substr($0, -log(0), log(0)), substr($0, 0.5, 2^63), substr($0, 2^63, -2^63), substr("", 0, 0) }`, chars)
	add(expNoErr, `{ print index($0, ""), index("", $0), index($0, "\xff"), length(), length($0), length(A), int(1e30), int(log(-1)), int(-log(0)), int("0x") }`, chars)
	add(expNoErr, `BEGIN { srand(1e30); srand(log(-1)); srand(-log(0)); srand("x"); x = srand(); y = rand(); srand(-2^63); print rand() < 1 }`)
	add(expNoErr, `{ n = split($0, A, ""); m = split($0, B, " "); k = split("", C); split($0, D, "\xff"); split($0, E, /(/); print n, m, k }`, chars)
	add(expNoErr, `BEGIN { print close("nope"), close(""), close(1e30), fflush("nope"), fflush(), fflush("") }`)
	add(expNoErr, `BEGIN { print tolower("\xff\xc3ABC"), toupper("\xed\xa0\x80é"), sin(1e308), cos(log(-1)), atan2(0, -0), exp(1e30), log(0), sqrt(-1), 2^1e30, -2^0.5, 1e308*1e308 % 3, 5 % 1e-320 }`)
	add(expSomeError, `BEGIN { print 1 / 0 }`)
	add(expSomeError, `BEGIN { print 1 % 0 }`)
	add(expSomeError, `BEGIN { x /= 0 }`)
	add(expSomeError, `{ $1 %= 0 }`)
	// getline from directories / missing files / itself; output to strange places
	add(expAny, `BEGIN { while ((getline line < "`+"DIR"+`/adir") > 0) n++; print n; print (getline x < "`+"DIR"+`/missing"); print (getline < "") }`)
	add(expAny, `BEGIN { while ((getline < "`+"DIR"+`/data.txt") > 0) n += NF; close("`+"DIR"+`/data.txt"); getline $3 < "`+"DIR"+`/data.txt"; getline A["k"] < "`+"DIR"+`/data.txt"; getline NF < "`+"DIR"+`/data.txt"; print n, NF }`)
	add(expAny, `BEGIN { getline NF < "`+"DIR"+`/empty.txt"; "echo -5" | getline NF }`)
	add(expAny, `BEGIN { "echo 1e9" | getline NF }`)
	add(expAny, `BEGIN { "exit 3" | getline; print close("exit 3"); print system("exit 7"); system(""); print system("kill -9 $$") }`)
	add(expAny, `BEGIN { print "x" > "`+"DIR"+`/adir"; print "y" > "`+"DIR"+`/nodir/f"; print "z" > "" }`)
	add(expAny, `BEGIN { print "x" > "/dev/stderr"; print "y" | "cat 1>&2"; close("cat 1>&2"); printf "%s" > "/dev/null" }`)
	add(expAny, `BEGIN { print > "`+"DIR"+`/o1"; print "a" >> "`+"DIR"+`/o1"; getline x < "`+"DIR"+`/o1"; print "b" > "`+"DIR"+`/o1" }`)
	add(expAny, `{ print }`, func(cs *c02Case) {
		cs.Args = []string{"DIR/adir", "DIR/missing", "x=\xff", "DIR/data.txt", "=", "NF=-1"}
	})
	add(expAny, `{ print FILENAME, NR, FNR; nextfile }`, func(cs *c02Case) { cs.Args = []string{"DIR/data.txt", "-", "DIR/empty.txt", "RS=a(b", "DIR/data.txt"} })
	// uninitialised as array / scalar, deletes, in
	add(expNoErr, `function f(a) { a["x"] = 1 } function g(s) { return s + 1 } BEGIN { f(U); print length(U), g(V), (1 in W), length(X); delete Y; delete Z[1]; for (k in Q) print k; split("", R) }`)
	add(expNoErr, `function f(a, b) { if (b) a[1] = 1; else return length(a) } BEGIN { f(U, 0); f(U, 1); print f(U) }`)
	add(expNoErr, `function f(a, b, c) { c[1]; return a b } BEGIN { print f(), f(1), f(1, 2), f(1, 2, A) }`)
	add(expNoErr, `BEGIN { SUBSEP = "\xff"; A[1, 2] = 3; A["a\xffb"]; for (k in A) { split(k, P, SUBSEP); n += length(P) } print n, ((1,2) in A) }`)
	add(expNoErr, `{ for (k in ENVIRON) n++; for (i in ARGV) m++; delete ENVIRON; delete ARGV; print n, m, ENVIRON["HOME"], ARGV[0] }`)
	// control flow corners
	add(expNoErr, `BEGIN { while (1) { if (++i > 5) break; for (k in A) continue; do { continue } while (0) } for (;;) break; print i }`)
	add(expNoErr, `function f(a) { for (k in a) { for (j in a) { if (j == k) return k j; break } continue } return } BEGIN { A[1]; A[2]; print f(A) f(B) }`)
	add(expNoErr, `/a/,/c/ { n++; next } END { print n }`)
	add(expNoErr, `function f() { getline; return NF } /a/,f() { n++ } f() > 2`)
	add(expNoErr, `BEGIN { exit } END { exit 1e30 }`)
	add(expNoErr, `BEGIN { exit log(-1) }`)
	add(expNoErr, `{ exit -1 } END { print "e" }`)
	add(expNoErr, `BEGIN { getline; getline; getline; getline; getline; getline; getline x; print NR, x }`)
	add(expNoErr, `{ $0 = $0 $0; $3 = ""; $(NF+2) = "z"; NF = 2; $0 = ""; $1 = "q"; print; print NF }`)
	add(expNoErr, `{ $(NF)--; $NF++; $(NF) += 1e30; $(-1) = 9; --$1; print $1++ + ++$1 }`)
	add(expNoErr, `BEGIN { x = "A"; x++; y = -"3x"; z = !"" + !"a" + !0 + !"0"; print x y z, 1==1.0, "a"<"b", 2<10, "2"<"10", $1<$2 }`)
	add(expNoErr, `BEGIN { a = "x"; b = a++ + ++a - a-- - --a; print b; c[a++]++; c[a]--; print length(c) }`)
	// CSV / TSV modes and special variables via Vars
	add(expAny, `{ print $1, NF; print @"a" }`, func(cs *c02Case) { cs.InMode = 1; cs.OutMode = 1 })
	add(expAny, `BEGIN { INPUTMODE = "csv header"; OUTPUTMODE = "tsv" } { print @"a", @"zz", $0; $3 = "q\"r,s"; print }`)
	add(expSomeError, `BEGIN { INPUTMODE = "xml" }`)
	add(expSomeError, `BEGIN { INPUTMODE = "csv separator=\"" }`)
	add(expAny, `BEGIN { INPUTMODE = "csv separator=\xff" } { print $1 }`)
	add(expAny, `BEGIN { OUTPUTMODE = "csv separator=\n" } { print $1, $2 }`)
	add(expSomeError, `BEGIN { print @"x" }`)
	for i := range js {
		js[i].cs.Src = vh.HxS(strings.ReplaceAll(string(vh.Unhx(js[i].cs.Src)), "DIR", scratchDir))
		js[i].cs.SrcText = strings.ReplaceAll(js[i].cs.SrcText, "DIR", scratchDir)
		for k := range js[i].cs.Args {
			js[i].cs.Args[k] = strings.ReplaceAll(js[i].cs.Args[k], "DIR", scratchDir)
		}
	}
	return js
}

// numeric argument positions of every builtin / operator / statement; X is replaced by a value class
var numPositions = []string{
	`{ print substr($0, X) }`, `{ print substr($0, X, 2) }`, `{ print substr($0, 2, X) }`, `{ print substr($0, X, X) }`, `{ print substr(X, 1, 2) }`,
	`{ print index($0, X), index(X, "a") }`, `{ print length(X) }`, `{ print split($0, A, X), split(X, B) }`, `{ print match($0, X), RSTART, RLENGTH }`,
	`{ print match(X, /a/) }`, `{ n = sub(X, "b"); m = gsub(/a/, X); print n, m }`, `{ s = "abc"; gsub(X, "-", s); print s }`,
	`{ print sprintf("%d|%i|%o|%x|%X|%u", X, X, X, X, X, X) }`, `{ print sprintf("%e|%f|%g|%E|%G", X, X, X, X, X) }`, `{ printf "%c|%s|%5s|%-5d|%05d|%+d|% d\n", X, X, X, X, X, X, X }`,
	`{ printf "%*d|\n", X % 100, 5 }`, `{ printf "%.*f|\n", X % 100, 5 }`, `{ printf X }`, `{ printf X, 1, 2 }`, `{ printf "%s %s\n", X }`, `{ x = sprintf(X, X) }`,
	`{ print int(X), -X, +X, !X, X "" }`, `{ print sin(X), cos(X), atan2(X, 1), atan2(1, X), exp(X), log(X), sqrt(X) }`, `{ print srand(X), srand(), rand() < 1 }`,
	`{ print close(X), fflush(X) }`, `{ print tolower(X), toupper(X) }`, `{ print X + 1, X - 1, X * 2, X / 2, X % 7, X ^ 2, 2 ^ X, 7 % X }`,
	`{ print X < 1, X <= "a", X == X, X != $1, X > $2, X >= NF, X ~ X, X !~ "a" }`, `{ if (X < 1) print 1; while (X > 1e308*10) break; for (; X == "zz";) break; print (X ? "t" : "f") }`,
	`{ print $X }`, `{ print $(X) NF }`, `{ $X = "v"; print NF }`, `{ $(X) += 1; print NF }`, `{ $(X)++; print NF }`, `{ n = $X++ + --$X }`, `{ getline $X; print NF }`,
	`{ NF = X; print NF, $0 }`, `{ NF += X }`, `{ NR = X; FNR = X; print NR, FNR }`, `{ RSTART = X; RLENGTH = X; print substr($0, RSTART, RLENGTH) }`,
	`BEGIN { ARGC = X } { n++ }`, `{ A[X] = 1; A[X, X]++; delete A[X]; print (X in A), length(A) }`, `{ x = X; x++; x += X; x ^= X; x %= 3; print x }`,
	`BEGIN { exit X }`, `function f(a) { return a } { print f(X) + f(f(X)) }`, `function f(a, n) { a[n] = n; return a[n] } { print f(A, X) }`,
	`{ print > X }`, `{ print | X }`, `{ getline x < X }`, `{ X | getline y }`, `{ system(X) }`,
	`BEGIN { CONVFMT = "%d"; x = X ""; CONVFMT = "%.3g"; A[X] } `, `BEGIN { OFMT = "%.2f"; print X, X + 0.123456 }`,
	`BEGIN { SUBSEP = X; A[1, 2]; for (k in A) print length(k) }`, `BEGIN { OFS = X; ORS = X; $0 = "a b"; $1 = $1; print; print 1, 2 }`,
	`BEGIN { while (("echo a b" | getline) > 0) n += NF; print n + X }`,
}

func matrixJobs(c *vh.Ctx) []job {
	var js []job
	add := func(key string, cs c02Case) { js = append(js, job{cs: cs, exp: expAny, key: key}) }
	safeIO := regexp.MustCompile(`> X|\| X|< X|X \||system\(X\)`)
	for pi, pos := range numPositions {
		for _, vc := range numClasses {
			expr := vc.expr
			if safeIO.MatchString(pos) {
				// file names and commands built from value classes stay inside the scratch directory / are harmless
				if strings.Contains(pos, "| X") || strings.Contains(pos, "X |") || strings.Contains(pos, "system") {
					expr = `("true " (` + vc.expr + `))`
					if strings.HasPrefix(vc.name, "str-nul") || strings.HasPrefix(vc.name, "str-ff") || strings.HasPrefix(vc.name, "str-bad") {
						expr = `"true"`
					}
				} else {
					expr = `("` + scratchDir + `/f_" (` + vc.expr + `))` // parenthesised: `"dir/f_" -0` would be a subtraction and name the file "0"
				}
			}
			src := strings.ReplaceAll(pos, "X", "("+expr+")")
			cs := mkCase("matrix", src, stdInput)
			add(fmt.Sprintf("matrix:pos%02d", pi), cs)
			if pi%3 == 0 {
				cs.Chars = true
				add("matrix:chars", cs)
			}
		}
	}
	// every special variable × every value class, assigned in BEGIN, in an action, via Config.Vars, incremented, used as a for-in variable
	use := `{ print NF, NR, FNR, $1, $NF, length(), substr($0, RSTART, RLENGTH); $2 = "v"; print; x = 0.1 ""; print 0.1, 1e6, 3; A[1,2]; n = split($0, P); getline; print RT }`
	for _, sv := range specials {
		if sv == "ENVIRON" || sv == "ARGV" {
			for _, vc := range strClasses {
				lit := awkStr(vc.val)
				add("special:"+sv, mkCase("matrix", fmt.Sprintf(`BEGIN { %s[%s] = %s; %s[0] = %s; %s[1] = %s; delete %s[2] } %s END { for (k in %s) n++ }`, sv, lit, lit, sv, lit, sv, lit, sv, use, sv), stdInput))
			}
			continue
		}
		for _, vc := range strClasses {
			lit := awkStr(vc.val)
			add("special:"+sv+":begin", mkCase("matrix", fmt.Sprintf(`BEGIN { %s = %s } %s END { print %s }`, sv, lit, use, sv), stdInput))
			add("special:"+sv+":action", mkCase("matrix", fmt.Sprintf(`NR == 2 { %s = %s } %s`, sv, lit, use), stdInput))
			if !strings.ContainsRune(vc.val, 0) || true {
				add("special:"+sv+":vars", mkCase("matrix", use, stdInput).withVars(sv, vc.val))
			}
		}
		for _, vc := range numClasses {
			add("special:"+sv+":num", mkCase("matrix", fmt.Sprintf(`NR == 2 { %s = %s; %s++; %s += %s; %s ^= 2 } %s`, sv, vc.expr, sv, sv, vc.expr, sv, use), stdInput))
		}
		add("special:"+sv+":forin", mkCase("matrix", fmt.Sprintf(`BEGIN { A["a("]; A[-1]; A["\xff"]; A[1e30]; A[""] } { for (%s in A) n++; getline %s; "echo 5 x" | getline %s } %s`, sv, sv, sv, use), stdInput))
	}
	// modes × special separators through Config
	for _, in := range []int{0, 1, 2} {
		for _, out := range []int{0, 1, 2} {
			cs := mkCase("matrix", use, []byte("a,b\n\"q\"\"r\",\xff\n\"unterminated,\n\xef\xbb\xbfx\ty\n"))
			cs.InMode, cs.OutMode = in, out
			add("config:modes", cs)
		}
	}
	// files as operands
	for _, args := range [][]string{{scratchDir + "/adir"}, {scratchDir + "/missing"}, {scratchDir + "/data.txt", "NF=-1"}, {"RS=a(b|", scratchDir + "/data.txt"},
		{"FS=\xff", scratchDir + "/data.txt", "x"}, {"-"}, {""}, {"=x"}, {"1=2"}, {scratchDir + "/empty.txt", scratchDir + "/data.txt"}} {
		cs := mkCase("matrix", `{ print FILENAME, FNR, NF } END { print NR }`, stdInput)
		cs.Args = args
		add("config:args", cs)
	}
	_ = filepath.Join
	if !c.Thorough() {
		// quick tier: a seeded quarter of the matrix (the thorough tier runs all of it)
		var keep []job
		for _, j := range js {
			if c.Rng.Intn(4) == 0 {
				keep = append(keep, j)
			}
		}
		js = keep
	}
	return js
}
