package main

// Three further C02 streams: special variables through every assignment route, Interpreter reuse, input shapes.

import (
	"fmt"
	"strings"

	"verifharness/vh"
)

// ---- routes ---------------------------------------------------------------------------------------------------

// what is done with the variable afterwards: field split of a fresh $0, record read, number formatting, printf, substr, subscripts
const routeUse = `$0 = "a b[xc,d\te"; u = $1 NF; n = split($0, P); x = 0.1 ""; print 0.1, 3, 1e6; printf "%d %s %c\n", 1, "s", 65; ` +
	`match($0, /b/); print substr($0, RSTART, RLENGTH); A[1,2]; for (k in A) print length(k); $3 = "w"; print; print $NF; r = getline; print r, $1, RT; ` +
	`r = getline v; print r, v, NR, FNR`

func routeJobs(c *vh.Ctx) []job {
	var js []job
	data := scratchDir + "/data.txt"
	vals := append([]struct{ name, val string }{}, strClasses...)
	vals = append(vals, struct{ name, val string }{"neg5", "-5"}, struct{ name, val string }{"1e9", "1e9"}, struct{ name, val string }{"regex-bad4", "[x"},
		struct{ name, val string }{"regex-bad5", "a)b"}, struct{ name, val string }{"backslash-end", "ab\\"}, struct{ name, val string }{"cr-lf", "\r\n"})
	for _, sv := range specials {
		if sv == "ENVIRON" || sv == "ARGV" {
			continue
		}
		for _, vc := range vals {
			lit := awkStr(vc.val)
			operand := sv + "=" + vc.val
			add := func(route, src string, args []string, vars ...string) {
				cs := mkCase("routes", src, stdInput).withVars(vars...)
				cs.Args = args
				js = append(js, job{cs: cs, exp: expAny, key: "route:" + route})
			}
			add("begin", fmt.Sprintf(`BEGIN { %s = %s; %s }`, sv, lit, routeUse), nil)
			add("action", fmt.Sprintf(`NR == 1 { %s = %s; %s }`, sv, lit, routeUse), nil)
			add("vars", fmt.Sprintf(`BEGIN { %s } { %s }`, routeUse, routeUse), nil, sv, vc.val)
			add("operand-mainloop", fmt.Sprintf(`{ %s } END { %s }`, routeUse, routeUse), []string{data, operand, data})
			add("operand-first", fmt.Sprintf(`{ %s }`, routeUse), []string{operand, data})
			add("operand-getline", fmt.Sprintf(`BEGIN { r = getline; %s }`, routeUse), []string{operand, data})
			add("operand-getline-var", fmt.Sprintf(`BEGIN { r = getline v; %s; while ((getline w) > 0) k++; %s }`, routeUse, routeUse), []string{data, operand, data, operand})
			add("operand-last", fmt.Sprintf(`{ k++ } END { %s }`, routeUse), []string{data, operand})
		}
	}
	if !c.Thorough() {
		var keep []job
		for _, j := range js {
			if c.Rng.Intn(8) == 0 {
				keep = append(keep, j)
			}
		}
		js = keep
	}
	return js
}

// ---- reuse ----------------------------------------------------------------------------------------------------

// deterministic: the run depends on the program, the input and the configuration only
func deterministic(cs c02Case) bool {
	src := string(vh.Unhx(cs.Src))
	for _, w := range []string{"rand", ">", "|", "system", "getline <", "getline<", "close", "ENVIRON", "fflush"} {
		if strings.Contains(src, w) {
			return false
		}
	}
	for _, a := range cs.Args {
		if strings.Contains(a, "/") {
			return false
		}
	}
	return true
}

// programs whose run-time error comes from the data, so that it recurs (or not) run after run
func reuseDirected() []job {
	var js []job
	for _, src := range []string{
		`{ if ($2 ~ $1) print "match"; else print "no match" }`, `{ n = split($2, parts, $1 "+"); print n }`, `{ s = $2; gsub($1, "-", s); print s }`,
		`{ print match($2, $1), sub($1, "x") }`, `{ FS = $1 "|,"; $0 = $2; print $1 }`, `{ RS = $1 "+" } END { print NR }`, `{ printf $1 "\n", $2 }`, `{ x = sprintf($1, $2, $2) }`,
		`{ $($3) = 1 }`, `{ NF = $3 }`, `{ print $2 / $3, $2 % $3 }`, `function f(n) { return f(n $1) } { f(1) }`, `{ CONVFMT = $1; x = 0.1 ""; OFMT = $1; print 0.5 }`,
		`{ SUBSEP = $1; A[$1, $2] = $3; for (k in A) split(k, P, SUBSEP) } END { print length(A) }`, `{ A[$1] = $2 } END { for (k in A) if (k ~ A[k]) n++; print n }`,
	} {
		for _, in := range []string{"a(b abc 0\n", "a+ caab 1e30\n", "%d%d%z x -1\n", "[x 5 1000001\n", "\xff( \xfe nan\n", "* ** 0x\n"} {
			js = append(js, job{cs: mkCase("reuse", src, []byte(in)), exp: expAny})
		}
	}
	return js
}

func reuseJobs(c *vh.Ctx, pool []job, g *gen) []job {
	var js []job
	for _, j := range pool {
		cs := j.cs
		cs.Stream = "reuse"
		in := cs.Input
		other := vh.Hx(g.input())
		// same input, reset in between: the error class must recur
		a := cs
		a.History = []string{in, "R", in}
		exp := expAny
		if deterministic(cs) {
			exp = expSameError
		}
		js = append(js, job{cs: a, exp: exp, key: "reuse:same-input-reset"})
		// state carried over: no reset, a different input in the middle
		b := cs
		b.History = []string{in, other, in}
		js = append(js, job{cs: b, exp: expAny, key: "reuse:carry-over"})
	}
	return js
}

// ---- input shapes -----------------------------------------------------------------------------------------------

type shapeMode struct {
	name   string
	rs     string
	setRS  bool
	inMode int
	sep    byte
	quote  byte
}

var shapeModes = []shapeMode{
	{"nl", "", false, 0, ' ', '"'}, {"byte", ";", true, 0, ';', '"'}, {"paragraph", "", true, 0, ' ', '"'}, {"regex", "\r?\n|;+", true, 0, ';', '"'},
	{"regex2", "\n\n+|a\r", true, 0, ' ', '"'}, {"mbchar", "é", true, 0, 0xc3, 0xa9}, {"csv", "", false, 1, ',', '"'}, {"tsv", "", false, 2, '\t', '"'},
}

const shapeProg = `{ n += NF; m += length($0) length(RT); if (NR % 3 == 0 && (getline x) > 0) k++ } END { print NR, n, m, k }`

func shapeJobs(c *vh.Ctx, emit func([]job)) {
	mk := func(m shapeMode, in []byte, cuts []int, padKind string, padLen int, key string) job {
		cs := mkCase("shapes", shapeProg, in)
		if m.setRS {
			cs = cs.withVars("RS", m.rs)
		}
		cs.InMode = m.inMode
		cs.Cuts = cuts
		cs.PadKind, cs.PadLen = padKind, padLen
		cs.TimeoutM = 2000
		return job{cs: cs, exp: expAny, key: key}
	}
	for _, m := range shapeModes {
		alpha := []byte{'\n', '\r', m.sep, m.quote, 'a'}
		// every string over the alphabet up to length L, each under: one piece, every single cut, all single bytes
		L := c.N(4, 6)
		var batch []job
		var rec func(prefix []byte)
		rec = func(prefix []byte) {
			if len(prefix) > 0 {
				in := append([]byte(nil), prefix...)
				if !c.Thorough() && len(in) == L && c.Rng.Intn(3) != 0 {
					// quick: a third of the longest strings
				} else {
					batch = append(batch, mk(m, in, nil, "", 0, "shape:"+m.name+":small"))
					for cut := 1; cut < len(in); cut++ {
						if len(in) >= 5 && c.Rng.Intn(3) != 0 {
							continue
						}
						batch = append(batch, mk(m, in, []int{cut}, "", 0, "shape:"+m.name+":small-cut"))
					}
					if len(in) > 2 {
						var all []int
						for cut := 1; cut < len(in); cut++ {
							all = append(all, cut)
						}
						batch = append(batch, mk(m, in, all, "", 0, "shape:"+m.name+":small-bytes"))
					}
				}
			}
			if len(prefix) == L {
				return
			}
			for _, a := range alpha {
				rec(append(prefix, a))
			}
		}
		rec(nil)
		emit(batch)
		batch = nil
		// shapes (length <= 3, plus the named endings) straddling the 64 KiB buffer edge, followed by nothing or by more data
		var shapes [][]byte
		var rec2 func(prefix []byte)
		rec2 = func(prefix []byte) {
			if len(prefix) > 0 {
				shapes = append(shapes, append([]byte(nil), prefix...))
			}
			if len(prefix) == 3 {
				return
			}
			for _, a := range alpha {
				rec2(append(prefix, a))
			}
		}
		rec2(nil)
		shapes = append(shapes, []byte("\r\n\r\n"), []byte("\n\r\n\r"), []byte("\n\n\r\n"), []byte("\r\n\r\na"), []byte{'\n', m.quote, '\r', '\n'}, []byte{m.quote, m.quote, '\n', '\r'})
		for _, sh := range shapes {
			if !c.Thorough() && c.Rng.Intn(12) != 0 {
				continue
			}
			for j := 0; j <= len(sh); j++ {
				for _, pad := range []string{"a", "crlf"} {
					for _, tail := range []string{"", "a\r\n\r\nsecond\r\n"} {
						in := append(append([]byte(nil), sh...), tail...)
						padLen := 65536 - j
						// once as one reader, once delivered with a short read exactly at the buffer edge
						batch = append(batch, mk(m, in, nil, pad, padLen, "shape:"+m.name+":edge"))
						if c.Thorough() || c.Rng.Intn(2) == 0 {
							batch = append(batch, mk(m, in, []int{65536, 65536 + len(sh)}, pad, padLen, "shape:"+m.name+":edge-cut"))
						}
					}
				}
			}
			if len(batch) > 400 {
				emit(batch)
				batch = nil
			}
		}
		emit(batch)
	}
}
