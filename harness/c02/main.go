package main

// C02 — running any accepted program never crashes the host.
//
// Implementation-side oracle (no model in the loop): every accepted program, under every explored input and configuration, returns
// (status, error) — a Go panic recovered around ParseProgram / New / ExecuteContext is an oracle failure with the case as replay.
// Named clauses: runaway recursion → "exceeded maximum call depth" error; `$(huge)=…`, NF=huge/negative → error; a dynamic regex
// that Go's regexp rejects → "invalid regex" error. The goawk binary on a sample: never exit status 2 with a Go trace.
//
// Correspondence (translation validation): the REAL emitted code of every explored program (reflective dump of prog.Compiled) is
// sent to the Lean verifier `verify` (GoawkModel.C02), which must accept it: by `verify_sound` no run of the abstract machine over
// that code gets stuck (stack underflow, bad jump, bad index). Field-index / NF / ARGC setters and the call-depth bound of the
// model are compared with the real outcome classes.

import (
	"bytes"
	"context"
	"crypto/sha256"
	"encoding/json"
	"fmt"
	"io"
	"math"
	"os"
	"os/exec"
	"path/filepath"
	"reflect"
	"regexp"
	"runtime/pprof"
	"sort"
	"strings"
	"sync"
	"time"

	"github.com/benhoyt/goawk/interp"
	"github.com/benhoyt/goawk/parser"

	"verifharness/vh"
)

func main() { vh.Main("C02", run) }

// ---- one case ---------------------------------------------------------------------------------------------------

type c02Case struct {
	Stream   string     `json:"stream"`
	Src      string     `json:"src_hex"`
	SrcText  string     `json:"src_text"` // for the human reader; Src is authoritative
	Input    string     `json:"input_hex"`
	Vars     []string   `json:"vars_hex,omitempty"` // name, value, name, value … (hex)
	Args     []string   `json:"args,omitempty"`
	Chars    bool       `json:"chars,omitempty"`
	InMode   int        `json:"input_mode,omitempty"`
	OutMode  int        `json:"output_mode,omitempty"`
	Sandbox  bool       `json:"sandbox,omitempty"` // NoExec + NoFileWrites + NoFileReads
	TimeoutM int        `json:"timeout_ms,omitempty"`
	PadKind  string     `json:"pad_kind,omitempty"` // "a": PadLen bytes 'a'; "crlf": lines "aaaaaa\r\n" cut to PadLen bytes — prepended to Input
	PadLen   int        `json:"pad_len,omitempty"`
	Cuts     []int      `json:"cuts,omitempty"`    // stdin is delivered in chunks cut at these offsets (one chunk per Read)
	Fault    *hostFault `json:"fault,omitempty"`   // faults stream: entry point + injected faults of the host-side objects (faults.go)
	History  []string   `json:"history,omitempty"` // reuse stream: inputs (hex) of the Execute calls on ONE Interpreter; "R" = ResetVars+ResetRand before the next
}

// stdinBytes is the full standard input of the case.
func (cs c02Case) stdinBytes() []byte {
	in := vh.Unhx(cs.Input)
	if cs.PadLen == 0 {
		return in
	}
	pad := make([]byte, 0, cs.PadLen+len(in))
	switch cs.PadKind {
	case "crlf":
		for len(pad) < cs.PadLen {
			pad = append(pad, "aaaaaa\r\n"...)
		}
		pad = pad[:cs.PadLen]
	default:
		for len(pad) < cs.PadLen {
			pad = append(pad, 'a')
		}
	}
	return append(pad, in...)
}

func (cs c02Case) stdin() io.Reader {
	b := cs.stdinBytes()
	if len(cs.Cuts) == 0 {
		return bytes.NewReader(b)
	}
	return vh.NewChunkReader(vh.Cut(b, cs.Cuts))
}

func mkCase(stream, src string, input []byte) c02Case {
	return c02Case{Stream: stream, Src: vh.HxS(src), SrcText: printable(src), Input: vh.Hx(input)}
}

func printable(s string) string {
	if len(s) > 600 {
		s = s[:600] + "…"
	}
	return strings.ToValidUTF8(s, "\uFFFD")
}

func (cs c02Case) withVars(kv ...string) c02Case {
	for _, x := range kv {
		cs.Vars = append(cs.Vars, vh.HxS(x))
	}
	return cs
}

type c02Out struct {
	ParseErr string
	Res      vh.RunResult
	TimedOut bool
	Dump     string // verify request ("" when not parsed)
	NFuncs   int
	CodeLen  int
	Runs     []string // reuse stream: error text of every Execute
	ErrOut   string   // faults stream: what the Error writer accepted
}

// limitWriter fails after max bytes so that runaway output stops the program instead of filling memory.
type limitWriter struct {
	n, max int
}

func (w *limitWriter) Write(p []byte) (int, error) {
	w.n += len(p)
	if w.n > w.max {
		return 0, fmt.Errorf("output limit reached")
	}
	return len(p), nil
}

var scratchDir string

func runCase(cs c02Case) c02Out { return runCaseW(cs, &limitWriter{max: 4 << 20}) }

func runCaseW(cs c02Case, w io.Writer) (out c02Out) {
	src := vh.Unhx(cs.Src)
	var prog *parser.Program
	func() {
		defer func() {
			if r := recover(); r != nil {
				out.Res.Panic = "ParseProgram: " + fmt.Sprint(r)
			}
		}()
		p, err := parser.ParseProgram(src, nil)
		if err != nil {
			out.ParseErr = err.Error()
			return
		}
		prog = p
	}()
	if prog == nil {
		return out
	}
	out.Dump, out.NFuncs, out.CodeLen = dumpVerify(prog)
	if cs.Fault != nil {
		runFaultCase(cs, prog, &out)
		return out
	}
	var vars []string
	for _, v := range cs.Vars {
		vars = append(vars, string(vh.Unhx(v)))
	}
	cfg := &interp.Config{
		Stdin:        cs.stdin(),
		Output:       w,
		Error:        io.Discard,
		Vars:         vars,
		Args:         cs.Args,
		Chars:        cs.Chars,
		InputMode:    interp.IOMode(cs.InMode),
		OutputMode:   interp.IOMode(cs.OutMode),
		NoExec:       cs.Sandbox,
		NoFileWrites: cs.Sandbox,
		NoFileReads:  cs.Sandbox,
		Environ:      []string{"HOME=/nonexistent", "C02=1"},
	}
	to := cs.TimeoutM
	if to == 0 {
		to = 300
	}
	func() {
		defer func() {
			if r := recover(); r != nil {
				out.Res.Panic = fmt.Sprint(r)
			}
		}()
		ip, err := interp.New(prog)
		if err != nil {
			out.Res.Err = "New: " + err.Error()
			return
		}
		exec1 := func() (int, error) {
			ctx, cancel := context.WithTimeout(context.Background(), time.Duration(to)*time.Millisecond)
			defer cancel()
			return ip.ExecuteContext(ctx, cfg)
		}
		if len(cs.History) == 0 {
			status, err := exec1()
			out.Res.Status = status
			if err != nil {
				out.Res.Err = err.Error()
				if err == context.DeadlineExceeded {
					out.TimedOut = true
				}
			}
			return
		}
		// reuse stream: several Execute calls on the same Interpreter
		for _, h := range cs.History {
			if h == "R" {
				ip.ResetVars()
				ip.ResetRand()
				continue
			}
			hc := cs
			hc.Input = h
			cfg.Stdin = hc.stdin()
			cfg.Output = &limitWriter{max: 4 << 20}
			status, err := exec1()
			out.Res.Status = status
			e := ""
			if err != nil {
				e = err.Error()
				if err == context.DeadlineExceeded {
					out.TimedOut = true
				}
			}
			out.Res.Err = e
			out.Runs = append(out.Runs, e)
		}
	}()
	return out
}

// ---- reflective dump of the emitted code in the verifier's line format ---------------------------------------

func ints(v reflect.Value, b *strings.Builder) int {
	n := v.Len()
	for i := 0; i < n; i++ {
		fmt.Fprintf(b, " %d", v.Index(i).Int())
	}
	return n
}

func dumpVerify(prog *parser.Program) (string, int, int) {
	cp := reflect.ValueOf(prog.Compiled).Elem()
	lenOf := func(name string) int { return cp.FieldByName(name).Len() }
	var b strings.Builder
	funcs := cp.FieldByName("Functions")
	fmt.Fprintf(&b, "verify %d %d %d %d %d %d %d", lenOf("Nums"), lenOf("Strs"), lenOf("Regexes"), lenOf("scalarNames"),
		lenOf("arrayNames"), lenOf("nativeFuncNames"), funcs.Len())
	total := 0
	for i := 0; i < funcs.Len(); i++ {
		f := funcs.Index(i)
		body := f.FieldByName("Body")
		fmt.Fprintf(&b, " F %d %d %d", f.FieldByName("NumScalars").Int(), f.FieldByName("NumArrays").Int(), body.Len())
		total += ints(body, &b)
	}
	block := func(v reflect.Value, endH int) {
		if v.Len() == 0 {
			return
		}
		fmt.Fprintf(&b, " B %d %d", endH, v.Len())
		total += ints(v, &b)
	}
	block(cp.FieldByName("Begin"), 0)
	acts := cp.FieldByName("Actions")
	for i := 0; i < acts.Len(); i++ {
		a := acts.Index(i)
		pats := a.FieldByName("Pattern")
		for j := 0; j < pats.Len(); j++ {
			block(pats.Index(j), 1)
		}
		block(a.FieldByName("Body"), 0)
	}
	block(cp.FieldByName("End"), 0)
	return b.String(), funcs.Len(), total
}

// ---- classification ---------------------------------------------------------------------------------------------

type expect int

const (
	expAny       expect = iota // only: no panic
	expDepthErr                // must end with the "exceeded maximum call depth" error
	expRegexErr                // must end with an "invalid regex" error
	expFieldErr                // must end with "field index too large"
	expNFErr                   // must end with "NF set to negative value" / "NF set too large"
	expNoErr                   // must end without error (and without timing out)
	expSomeError               // must end with some error value
	expSameError               // reuse stream: the Executes separated only by a reset on the same input must end in the same error class
)

type job struct {
	cs      c02Case
	exp     expect
	key     string   // distribution key
	expRuns []string // same-key stream: the error class every Execute (or the single run) must end in: "none", "format", "invalid-regex"
}

func errClass(e string) string {
	switch {
	case e == "":
		return "none"
	case strings.Contains(e, "exceeded maximum call depth"):
		return "call-depth"
	case strings.Contains(e, "invalid regex"):
		return "invalid-regex"
	case strings.Contains(e, "field index too large"):
		return "field-too-large"
	case strings.Contains(e, "NF set"):
		return "nf"
	case strings.Contains(e, "ARGC set"):
		return "argc"
	case strings.Contains(e, "division by zero"):
		return "div-zero"
	case strings.Contains(e, "format error"):
		return "format"
	case strings.Contains(e, "deadline"):
		return "timeout"
	case strings.Contains(e, "output limit"):
		return "output-limit"
	case strings.Contains(e, "NoExec") || strings.Contains(e, "NoFile"):
		return "sandbox"
	default:
		return "other"
	}
}

func judge(j job, o c02Out) (what, got, want string) {
	if o.Res.Panic != "" {
		return "Go panic while running an accepted program", "panic: " + o.Res.Panic, "an exit status or an error value"
	}
	if o.ParseErr != "" {
		return "", "", ""
	}
	cl := errClass(o.Res.Err)
	if cl == "timeout" || o.TimedOut {
		return "", "", "" // the time limit hit (machine load): inconclusive, never a failure; counted as outcome:timeout
	}
	if len(j.expRuns) > 0 {
		got := []string{cl}
		if len(j.cs.History) > 0 {
			got = nil
			for _, e := range o.Runs {
				got = append(got, errClass(e))
			}
		}
		if strings.Join(got, ",") != strings.Join(j.expRuns, ",") {
			return "the same cached key used again under different conditions does not give the required outcome each time (an under-supplied printf / an invalid regex must be a run-time error EVERY time, a sufficient one must succeed)",
				strings.Join(got, ","), strings.Join(j.expRuns, ",")
		}
	}
	switch j.exp {
	case expDepthErr:
		if cl != "call-depth" {
			return "runaway recursion is not reported as the call-depth error", "err=" + o.Res.Err, "exceeded maximum call depth"
		}
	case expRegexErr:
		if cl != "invalid-regex" {
			return "an invalid dynamic regex is not reported as an error", "err=" + o.Res.Err, "invalid regex … error"
		}
	case expFieldErr:
		if cl != "field-too-large" {
			return "an oversized field number is not reported as an error", "err=" + o.Res.Err, "field index too large"
		}
	case expNFErr:
		if cl != "nf" {
			return "NF set to a negative/oversized value is not reported as an error", "err=" + o.Res.Err, "NF set … error"
		}
	case expNoErr:
		if cl != "none" {
			return "a program that must run cleanly returned an error", "err=" + o.Res.Err, "no error"
		}
	case expSomeError:
		if cl == "none" {
			return "expected a run-time error value", "no error", "an error"
		}
	case expSameError:
		if len(o.Runs) >= 2 && !o.TimedOut {
			a, b := errClass(o.Runs[0]), errClass(o.Runs[len(o.Runs)-1])
			if a != b && a != "timeout" && b != "timeout" && a != "output-limit" && b != "output-limit" {
				return "a reused Interpreter does not report the run-time error of the first Execute again on the same input",
					fmt.Sprintf("run 1: %q; last run: %q", o.Runs[0], o.Runs[len(o.Runs)-1]), "the same error class in every run"
			}
		}
	}
	return "", "", ""
}

// ---- running a batch ------------------------------------------------------------------------------------------------

type batchStats struct {
	parsed, rejected, timeouts int
}

func runBatch(c *vh.Ctx, jobs []job) batchStats {
	outs := make([]c02Out, len(jobs))
	slow := os.Getenv("C02_SLOW") != ""
	vh.Parallel(len(jobs), func(i int) {
		t := time.Now()
		outs[i] = runCase(jobs[i].cs)
		if d := time.Since(t); slow && d > 300*time.Millisecond {
			fmt.Fprintf(os.Stderr, "SLOW %v %s %s\n", d, jobs[i].cs.Stream, jobs[i].cs.SrcText)
		}
	})
	var st batchStats
	var reqs []string
	var reqIdx []int
	// the failures of a batch are reported smallest case first (the first one becomes the replay)
	var pending []vh.Failure
	var pendingSize []int
	defer func() {
		idx := make([]int, len(pending))
		for i := range idx {
			idx[i] = i
		}
		sort.SliceStable(idx, func(a, b int) bool { return pendingSize[idx[a]] < pendingSize[idx[b]] })
		for _, i := range idx {
			c.Fail(pending[i])
		}
	}()
	for i, j := range jobs {
		o := outs[i]
		c.Hit("stream:" + j.cs.Stream)
		if j.key != "" {
			c.Hit(j.key)
		}
		if o.ParseErr != "" && o.Res.Panic == "" {
			st.rejected++
			c.Hit("parse:rejected")
			continue
		}
		st.parsed++
		c.Hit("parse:accepted")
		c.OracleCase()
		c.Eval(fmt.Sprint(j.cs.Src, "|", j.cs.Input, "|", j.cs.Vars, j.cs.Args, j.cs.PadKind, j.cs.PadLen, j.cs.Cuts, j.cs.History, j.cs.InMode, j.cs.OutMode, j.cs.Chars, j.cs.Fault.key()), o.CodeLen >= 4)
		c.Hit("outcome:" + errClass(o.Res.Err))
		if o.TimedOut {
			st.timeouts++
		}
		what, got, want := judge(j, o)
		if what == "" {
			what, got, want = judgeFault(j, o)
		}
		if what != "" {
			pending = append(pending, vh.Failure{Kind: "oracle", What: what, Finding: classify(j.cs, o), Case: j.cs, Got: got, Want: want})
			pendingSize = append(pendingSize, len(j.cs.Src)+len(j.cs.Input)+len(strings.Join(j.cs.Vars, ""))+len(strings.Join(j.cs.History, "")))
		}
		if j.cs.Fault != nil {
			c.Hit("fault-entry:" + j.cs.Fault.Entry)
		}
		if o.Dump != "" {
			reqs = append(reqs, o.Dump)
			reqIdx = append(reqIdx, i)
			if o.NFuncs > 0 {
				c.Hit("code:has-functions")
			}
			switch {
			case o.CodeLen < 16:
				c.Hit("code:len<16")
			case o.CodeLen < 128:
				c.Hit("code:len<128")
			default:
				c.Hit("code:len>=128")
			}
		}
		if len(jobs) > 0 && i < 3 {
			c.Sample(map[string]interface{}{"src": j.cs.SrcText, "outcome": errClass(o.Res.Err), "code_words": o.CodeLen})
		}
	}
	if c.HasLean() && len(reqs) > 0 {
		seen := map[string]string{}
		var uniq []string
		for _, r := range reqs {
			if _, ok := seen[r]; !ok {
				seen[r] = ""
				uniq = append(uniq, r)
			}
		}
		tl := time.Now()
		ans := c.LeanBatch(uniq)
		c.HitN("lean-ms", int(time.Since(tl).Milliseconds()))
		c.HitN("lean-unique-programs", len(uniq))
		if f := os.Getenv("C02_DUMPREQ"); f != "" {
			fh, _ := os.OpenFile(f, os.O_APPEND|os.O_CREATE|os.O_WRONLY, 0o644)
			fh.WriteString(strings.Join(uniq, "\n") + "\n")
			fh.Close()
		}
		for k, r := range uniq {
			seen[r] = ans[k]
		}
		for k, r := range reqs {
			c.Trace()
			a := seen[r]
			if a != "ok" {
				c.Hit("verify:rejected")
				c.Fail(vh.Failure{Kind: "correspondence", What: "the Lean bytecode verifier rejects code the real compiler emitted",
					Case: jobs[reqIdx[k]].cs, Got: a, Want: "ok"})
			} else {
				c.Hit("verify:ok")
			}
		}
	}
	return st
}

// classify names the known-finding class that accepts a failing case ("" = none). C02 has no recorded finding: F03, F04 and
// G02-1 (CSV/TSV getline desynchronising p.fields, repaired with F13 in c7bccbd) are fixed and suppress nothing; F25 belongs to
// C13 and is not provoked here.
func classify(cs c02Case, o c02Out) string { return "" }

// ---- the run ----------------------------------------------------------------------------------------------------------

var awkSrcLit = regexp.MustCompile("(?s)`([^`]{3,400})`")

// repoSources pulls AWK-looking raw string literals out of the repository's own test tables as a mutation corpus.
func repoSources() []string {
	repo := os.Getenv("VERIF_REPO")
	if repo == "" {
		repo = "/repo"
	}
	var res []string
	seen := map[string]bool{}
	for _, f := range []string{"interp/interp_test.go", "goawk_test.go", "parser/parser_test.go"} {
		b, err := os.ReadFile(filepath.Join(repo, f))
		if err != nil {
			continue
		}
		for _, m := range awkSrcLit.FindAllSubmatch(b, -1) {
			s := string(m[1])
			if seen[s] || !(strings.Contains(s, "{") || strings.Contains(s, "$")) {
				continue
			}
			if _, err := parser.ParseProgram([]byte(s), nil); err != nil {
				continue
			}
			// keep the mutation corpus free of commands, file writes and unbounded string growth
			if strings.Contains(s, "system") || strings.Contains(s, "|") || strings.Contains(s, ">") || strings.Contains(s, "while (1)") ||
				strings.Contains(s, "for (;;)") {
				continue
			}
			seen[s] = true
			res = append(res, s)
		}
	}
	sort.Strings(res)
	return res
}

func run(c *vh.Ctx) {
	c.Rule("one case = one accepted AWK program × input × configuration executed on the real interpreter under recover() with a " +
		"time limit; its emitted code is also sent to the Lean verifier. Streams: fixed corpus (witnesses of F03/F04 and the named " +
		"error clauses), directed matrix (every numeric argument position of every builtin and every special variable × value " +
		"classes incl. NaN/±Inf/±2^63/1e30/invalid UTF-8/NUL, via BEGIN and via Config.Vars), grammar-generated programs, byte-level " +
		"mutants of the repository's test programs, host-side faults (every I/O site x failing Output/Error/Stdin/OpenFile/ShellCommand x " +
		"ExecProgram/Execute/ExecuteContext), string operations (every string builtin x byte/character mode x broken UTF-8 at the start, middle, end of the string x numeric " +
		"arguments at every boundary), literal operands (every literal / constant field-index and subscript shape x earlier accesses to the same record x every read and write use x context). " +
		"Non-trivial = the program compiled to at least 4 code words.")
	dir, err := os.MkdirTemp("", "c02_")
	if err != nil {
		panic(err)
	}
	defer os.RemoveAll(dir)
	scratchDir = dir
	os.WriteFile(filepath.Join(dir, "data.txt"), []byte("1 2 3\nx y z\n\xff\xfe 7\n"), 0o644)
	// lines that END in stray bytes, half characters, quotes and separators (G02-3: a separator taken for U+FFFD, three bytes wide)
	os.WriteFile(filepath.Join(dir, "bin.txt"), []byte("a\xff\nq,\xc3\n\"x\xff\n,\xff\n\xe2\x82\nb\t\xfe\n\"\n#\xff\nlast\xff"), 0o644)
	os.WriteFile(filepath.Join(dir, "empty.txt"), nil, 0o644)
	os.Mkdir(filepath.Join(dir, "adir"), 0o755)

	if c.ReplayFile != "" {
		replay(c)
		return
	}

	if pf := os.Getenv("C02_PROF"); pf != "" {
		if fh, err := os.Create(pf); err == nil {
			pprof.StartCPUProfile(fh)
			defer pprof.StopCPUProfile()
		}
	}
	// debugging aid: run one of the directed streams alone
	switch os.Getenv("C02_ONLY") {
	case "operands":
		operandJobs(c, func(b []job) { runBatch(c, b) })
		return
	case "strops":
		stropsJobs(c, func(b []job) { runBatch(c, b) })
		return
	case "models":
		substrCorrespondence(c)
		operandCorrespondence(c)
		return
	}
	t0 := time.Now()
	lap := func(name string) {
		c.Note(fmt.Sprintf("phase %s: %.1fs", name, time.Since(t0).Seconds()))
		t0 = time.Now()
	}
	// 0. constants of the model against the running code
	if c.HasLean() {
		modelConsts(c)
	}

	// 1. fixed corpus
	st := runBatch(c, corpusJobs())
	c.Note(fmt.Sprintf("corpus: %d accepted, %d rejected by the parser", st.parsed, st.rejected))

	lap("consts+corpus")
	// 2. directed matrix
	mj := matrixJobs(c)
	st = runBatch(c, mj)
	c.Note(fmt.Sprintf("matrix: %d cases, %d accepted, %d timeouts", len(mj), st.parsed, st.timeouts))

	lap("matrix")
	// 3. field index / NF / ARGC: model vs code on value classes
	if c.HasLean() {
		fieldCorrespondence(c)
	}
	lap("field")

	// 4. grammar-aware programs
	n := c.N(1000, 20000)
	g := newGen(c.Rng)
	var gj []job
	for i := 0; i < n; i++ {
		src := g.program()
		cs := mkCase("grammar", src, g.input())
		g.configure(&cs)
		gj = append(gj, job{cs: cs, exp: expAny})
	}
	st = runBatch(c, gj)
	c.Note(fmt.Sprintf("grammar: %d programs, %d accepted by the parser, %d timeouts; generator never feeds variables, fields or "+
		"call results into concatenation/sprintf %%s/& replacements (string growth is capped so a case stays < 50 MB), loop bounds ≤ 5, "+
		"output capped at 4 MB, printf star widths are tiny or ≥ 1e9 (Go's fmt rejects widths > 1e6)", n, st.parsed, st.timeouts))
	for k, v := range g.hits {
		c.HitN("gen:"+k, v)
	}

	lap("grammar")
	// 5. byte-level mutants of repository test programs (sandboxed: NoExec, NoFileWrites, NoFileReads)
	srcs := repoSources()
	m := c.N(1500, 20000)
	var bj []job
	for i := 0; i < m && len(srcs) > 0; i++ {
		s := mutate(c, srcs[c.Rng.Intn(len(srcs))])
		cs := mkCase("mutant", s, g.input())
		cs.Sandbox = true
		cs.TimeoutM = 150
		bj = append(bj, job{cs: cs, exp: expAny})
	}
	st = runBatch(c, bj)
	c.Note(fmt.Sprintf("mutants: %d from %d repository test programs, %d accepted by the parser, %d timeouts", len(bj), len(srcs), st.parsed, st.timeouts))

	lap("mutants")
	// 5a. special variables through every route (incl. var=value operands reached by the main loop and by getline)
	rj := routeJobs(c)
	st = runBatch(c, rj)
	c.Note(fmt.Sprintf("routes: %d cases, %d accepted, %d timeouts", len(rj), st.parsed, st.timeouts))
	lap("routes")
	// 5b. reuse: the same programs as 2-3 Execute histories on one Interpreter
	var pool []job
	pool = append(pool, corpusJobs()...)
	pool = append(pool, reuseDirected()...)
	pick := func(js []job, n int) {
		for i := 0; i < n && len(js) > 0; i++ {
			pool = append(pool, js[c.Rng.Intn(len(js))])
		}
	}
	pick(mj, c.N(300, 3000))
	pick(gj, c.N(300, 6000))
	pick(bj, c.N(300, 3000))
	pick(rj, c.N(150, 1500))
	uj := reuseJobs(c, pool, g)
	st = runBatch(c, uj)
	c.Note(fmt.Sprintf("reuse: %d histories of 2-3 Execute calls on one Interpreter, %d accepted, %d timeouts; the same-error clause is applied to programs "+
		"without rand/srand, output redirection, pipes, system and file reads", len(uj), st.parsed, st.timeouts))
	lap("reuse")
	// 5c. input shapes per record-separator / CSV mode, through chunked readers and across the 64 KiB buffer edge
	nshape := 0
	shapeJobs(c, func(batch []job) {
		nshape += len(batch)
		runBatch(c, batch)
	})
	c.Note(fmt.Sprintf("shapes: %d cases (RS newline/byte/paragraph/regex/multi-byte char, CSV, TSV) x inputs over {LF, CR, sep, quote, a} x chunkings, incl. shapes "+
		"straddling offset 65536; panics only (C07/C08 check the records)", nshape))
	lap("shapes")
	// 5d. the same cached key (printf format, dynamic regex, CSV field name, stream name) used again under different conditions
	kj := sameKeyJobs(c)
	st = runBatch(c, kj)
	c.Note(fmt.Sprintf("same-key: %d cases (formats with k, k-1, 0, k+2 arguments in every order within one run and across Execute calls, with the "+
		"caches empty or full; dynamic regexes valid/invalid across ~ match split sub gsub FS RS; CSV field names; one name as input file, output file and command)", len(kj)))
	lap("same-key")
	// 5f. string operations x byte/character mode x broken UTF-8 at the start, middle, end x numeric arguments at every boundary
	nstr, tstr := 0, 0
	stropsJobs(c, func(batch []job) {
		b := runBatch(c, batch)
		nstr += len(batch)
		tstr += b.timeouts
	})
	c.Note(fmt.Sprintf("strops: %d cases (%d operations: substr 2/3-argument, index, length, match, split incl. \"\" / char / regex separator, sub, gsub, tolower/toupper, "+
		"sprintf/printf %%c %%s %%*.*s and numeric verbs, comparison, concatenation, string-to-number, array keys, field splitting and rebuilding under %d field separators, dynamic "+
		"regexes made of the pieces of the string in match/split/sub/gsub/SUBSEP/RS/FS, getline forms) x byte and character mode x %d atoms (valid 2/3/4-byte, U+FFFD, BOM, stray continuation, "+
		"truncated 2/3/4-byte sequences, overlong, surrogate, out of range, 0xFF/0xFE, NUL and separators) at the start / middle / end / alone / doubled / between and after multi-byte characters + random "+
		"concatenations x %d numeric values per argument (0, 1, L, C, each +-1, +-2, +-0.5, negative, 2^31, 2^32, 2^53, 2^63, 1e30, 1e308, NaN, +-Inf, strings) x route (Config.Vars, input record), %d timeouts; panics only",
		nstr, len(strOps)+len(strRecOps), len(strFS)+6, len(strAtoms), len(strNums)+2, tstr))
	lap("strops")
	if c.HasLean() {
		substrCorrespondence(c)
		lap("substr-model")
	}
	// 5g. literal / constant operand shapes x earlier accesses to the same record x every use x context
	nop, pop, top := 0, 0, 0
	operandJobs(c, func(batch []job) {
		b := runBatch(c, batch)
		nop += len(batch)
		pop += b.parsed
		top += b.timeouts
	})
	c.Note(fmt.Sprintf("operands: %d cases, %d accepted by the parser (%d field-index shapes: literal, negated, parenthesised, fractional, huge around 2^31 / 2^32 / 2^63, NF-relative, constant "+
		"expressions, strings, nested, through variables; %d subscripts x global / special / local arrays) x %d earlier accesses to the same record (reads, NF, field and $0 assignments, NF changes, "+
		"getline forms, sub) x %d read uses (a third of them per program) or one of %d write uses followed by reading back x %d contexts (rule, two rules, pattern, range, BEGIN, BEGIN with getline loops, END, functions, "+
		"recursion, loops, next), %d timeouts; panics only", nop, pop, len(fieldOperands), len(subscripts), len(preStates), len(readUses), len(writeUses), len(opContexts), top))
	lap("operands")
	if c.HasLean() {
		operandCorrespondence(c)
		lap("operand-model")
	}
	// 5e. host-side faults at every place the interpreter talks to the outside, through every entry point
	fj := faultJobs(c)
	st = runBatch(c, fj)
	c.Note(fmt.Sprintf("faults: %d cases (system / print | cmd / cmd | getline / close / fflush / getline < file / > file / main input x failing Output, Error, Stdin, "+
		"OpenFile, ShellCommand, early-exiting and signalled commands x ExecProgram, Execute, ExecuteContext live/background, Execute after a cancelled context), %d timeouts", len(fj), st.timeouts))
	lap("faults")
	// 6. the goawk binary on a sample
	binarySample(c, kj)
	lap("binary")
}

func mutate(c *vh.Ctx, s string) string {
	b := []byte(s)
	k := 1 + c.Rng.Intn(3)
	tokens := []string{"$", "NF", "-1", "1e30", "\"\\xff\"", "substr(", "[", "]", "(", ")", "{", "}", ";", "getline", " in ", "~", "/", "\"", "++", "=", "RS", "FS", "printf \"%c%*d\",", "0", "\x00", "\xff", "NR", "length", "split(", ",", "return", "next", "exit", "-", "!", "^", "%"}
	for i := 0; i < k; i++ {
		if len(b) == 0 {
			b = []byte("{}")
		}
		p := c.Rng.Intn(len(b))
		switch c.Rng.Intn(5) {
		case 0: // replace a byte
			b[p] = byte(c.Rng.Intn(256))
		case 1: // delete a span
			q := p + 1 + c.Rng.Intn(3)
			if q > len(b) {
				q = len(b)
			}
			b = append(b[:p:p], b[q:]...)
		case 2: // insert a token
			t := tokens[c.Rng.Intn(len(tokens))]
			b = append(b[:p:p], append([]byte(t), b[p:]...)...)
		case 3: // duplicate a span
			q := p + 1 + c.Rng.Intn(8)
			if q > len(b) {
				q = len(b)
			}
			b = append(b[:q:q], append(append([]byte(nil), b[p:q]...), b[q:]...)...)
		case 4: // splice a number
			nums := []string{"0", "-1", "1e30", "-1e30", "2147483648", "9223372036854775808", "1e308*10", "log(-1)", "0.5", "1000001"}
			t := nums[c.Rng.Intn(len(nums))]
			b = append(b[:p:p], append([]byte(t), b[p:]...)...)
		}
	}
	return string(b)
}

// ---- model constants ----------------------------------------------------------------------------------------------

func modelConsts(c *vh.Ctx) {
	ans := strings.Fields(c.Lean("consts"))
	if len(ans) != 3 {
		c.Fail(vh.Failure{Kind: "correspondence", What: "driver consts", Case: "consts", Got: strings.Join(ans, " ")})
		return
	}
	var maxDepth, maxField int
	fmt.Sscan(ans[0], &maxDepth)
	fmt.Sscan(ans[1], &maxField)
	// deepest successful recursion on the real code: f(n) recurses while n < limit; limit = maxDepth succeeds, maxDepth+1 fails
	depthSrc := func(limit int) string {
		return fmt.Sprintf(`function f(n) { if (n < %d) return f(n+1); return n } BEGIN { print f(1) }`, limit)
	}
	ok := runCase(func() c02Case { cs := mkCase("consts", depthSrc(maxDepth), nil); cs.TimeoutM = 5000; return cs }())
	bad := runCase(func() c02Case { cs := mkCase("consts", depthSrc(maxDepth+1), nil); cs.TimeoutM = 5000; return cs }())
	c.Trace()
	c.Trace()
	got := fmt.Sprintf("depth %d: %s; depth %d: %s", maxDepth, errClass(ok.Res.Err), maxDepth+1, errClass(bad.Res.Err))
	want := fmt.Sprintf("depth %d: none; depth %d: call-depth", maxDepth, maxDepth+1)
	if got != want || ok.Res.Panic != "" || bad.Res.Panic != "" {
		c.Fail(vh.Failure{Kind: "correspondence", What: "the model's maxCallDepth is not the depth at which the real interpreter reports the error",
			Case: mkCase("consts", depthSrc(maxDepth+1), nil), Got: got + ok.Res.Panic + bad.Res.Panic, Want: want})
	}
	// the abstract machine itself: n nested calls
	for _, n := range []int{1, maxDepth - 1, maxDepth, maxDepth + 1} {
		a := c.Lean(fmt.Sprintf("depth %d", n))
		w := fmt.Sprintf("running depth=%d", n)
		if n > maxDepth {
			w = "error"
		}
		c.Trace()
		if a != w {
			c.Fail(vh.Failure{Kind: "correspondence", What: "abstract machine call depth", Case: fmt.Sprintf("depth %d", n), Got: a, Want: w})
		}
	}
	// field limit: $(maxField) = 1 is accepted, $(maxField+1) = 1 is the error
	okF := runCase(mkCase("consts", fmt.Sprintf(`BEGIN { $(%d) = 1; print NF }`, maxField), nil))
	badF := runCase(mkCase("consts", fmt.Sprintf(`BEGIN { $(%d) = 1; print NF }`, maxField+1), nil))
	c.Trace()
	c.Trace()
	if errClass(okF.Res.Err) != "none" || errClass(badF.Res.Err) != "field-too-large" {
		c.Fail(vh.Failure{Kind: "correspondence", What: "the model's maxFieldIndex is not the real limit of setField",
			Case: mkCase("consts", fmt.Sprintf(`BEGIN { $(%d) = 1 }`, maxField+1), nil),
			Got:  errClass(okF.Res.Err) + " / " + errClass(badF.Res.Err), Want: "none / field-too-large"})
	}
}

// ---- field index / NF / ARGC correspondence -------------------------------------------------------------------

func fieldBits(c *vh.Ctx) []float64 {
	vals := []float64{0, 1, 2, 3, 4, 5, -1, -2, -3, -4, -5, 0.5, -0.5, 0.999, 1.5, 2.7, -2.7, 1e6, 1e6 + 1, 1e6 - 1, 999999.5, 1e7, 1 << 31, -(1 << 31),
		1 << 32, 1 << 53, 9223372036854775807, 9223372036854774784, 9223372036854775808, -9223372036854775808, -9223372036854777856,
		1e19, -1e19, 1e30, -1e30, 1e300, -1e300, math.Inf(1), math.Inf(-1), math.NaN(), 5e-324, -5e-324, math.MaxFloat64, -math.MaxFloat64,
		math.Copysign(0, -1)}
	for i := 0; i < c.N(60, 2000); i++ {
		switch c.Rng.Intn(10) {
		case 0, 3, 4, 5:
			vals = append(vals, float64(c.Rng.Intn(21)-10)+c.Rng.Float64()*float64(c.Rng.Intn(2)))
		case 1:
			vals = append(vals, math.Float64frombits(c.Rng.Uint64()))
		case 2, 6, 7:
			vals = append(vals, math.Ldexp(c.Rng.Float64()*2-1, c.Rng.Intn(80)))
		case 8:
			vals = append(vals, float64(c.Rng.Intn(3000)-1000))
		default:
			vals = append(vals, float64(1000000+c.Rng.Intn(5)-2))
		}
	}
	return vals
}

// setX returns the BEGIN prefix and the Config.Vars that make the AWK variable x hold exactly f.
func setX(f float64) (string, []string) {
	switch {
	case math.IsNaN(f):
		return "x = log(-1); ", nil
	case math.IsInf(f, 1):
		return "x = -log(0); ", nil
	case math.IsInf(f, -1):
		return "x = log(0); ", nil
	}
	return "x = x + 0; ", []string{"x", fmt.Sprintf("%.17g", f)}
}

func fieldCorrespondence(c *vh.Ctx) {
	vals := fieldBits(c)
	type probe struct {
		kind string
		f    float64
		n    int
		cs   c02Case
		req  string
	}
	var ps []probe
	for _, f := range vals {
		bits := fmt.Sprintf("%016x", math.Float64bits(f))
		pre, vars := setX(f)
		mk := func(src string) c02Case { return mkCase("field", src, nil).withVars(vars...) }
		for _, n := range []int{2, 3} {
			rec := "aa bb cc"[:n*3-1]
			// get: print which thing $x is
			src := fmt.Sprintf(`BEGIN { %s$0 = %q; v = $x; if (v == $0) print "line"; else if (v == "") print "empty"; else { for (i = 1; i <= NF; i++) if ($i == v) print "field:" i-1 } }`, pre, rec)
			ps = append(ps, probe{"get", f, n, mk(src), fmt.Sprintf("field get %d %s", n, bits)})
			src = fmt.Sprintf(`BEGIN { %s$0 = %q; $x = "ZZ"; if ($0 == "ZZ") { print "setline"; exit } hit = -1; if (NF > 1000) { if ($NF == "ZZ") hit = NF-1 } else for (i = 1; i <= NF; i++) if ($i == "ZZ") hit = i-1; if (hit < 0) print "ignored"; else print "ok:" NF ":" hit }`, pre, rec)
			ps = append(ps, probe{"set", f, n, mk(src), fmt.Sprintf("field set %d %s", n, bits)})
		}
		src := fmt.Sprintf(`BEGIN { %s$0 = "aa bb cc"; NF = x; printf "ok:%%d\n", NF }`, pre)
		ps = append(ps, probe{"nf", f, 3, mk(src), "field nf " + bits})
		src = fmt.Sprintf(`BEGIN { %sARGC = x; print "ok" }`, pre)
		ps = append(ps, probe{"argc", f, 0, mk(src), "field argc " + bits})
	}
	outs := make([]c02Out, len(ps))
	vh.Parallel(len(ps), func(i int) {
		cs := ps[i].cs
		cs.TimeoutM = 5000
		var buf bytes.Buffer
		outs[i] = runCaseW(cs, &buf)
		outs[i].Res.Out = buf.String()
	})
	reqs := make([]string, len(ps))
	for i, p := range ps {
		reqs[i] = p.req
	}
	ans := c.LeanBatch(reqs)
	for i, p := range ps {
		o := outs[i]
		c.Trace()
		c.OracleCase()
		c.Eval(p.req, true)
		c.Hit("field:" + p.kind)
		if o.Res.Panic != "" {
			c.Fail(vh.Failure{Kind: "oracle", What: "Go panic on a field index / NF / ARGC value", Case: p.cs, Got: "panic: " + o.Res.Panic, Want: "a value or an error"})
			continue
		}
		got := strings.TrimSpace(o.Res.Out)
		if errClass(o.Res.Err) == "timeout" {
			c.Hit("field:inconclusive-timeout")
			continue
		}
		if o.Res.Err != "" {
			got = "error"
		}
		if got != ans[i] {
			c.Fail(vh.Failure{Kind: "correspondence", What: "field/NF/ARGC outcome class differs between the Lean model and the interpreter",
				Case: p.cs, Got: got, Want: ans[i]})
		}
		c.Hit("field-outcome:" + strings.SplitN(ans[i], ":", 2)[0])
	}
}

// ---- binary sample -------------------------------------------------------------------------------------------------

var buildOnce sync.Once
var goawkBin string

func binarySample(c *vh.Ctx, extra []job) {
	repo := os.Getenv("VERIF_REPO")
	if repo == "" {
		repo = "/repo"
	}
	// the binary is cached under a digest of the tree's Go sources (path, size, mtime)
	dg := sha256.New()
	filepath.Walk(repo, func(p string, info os.FileInfo, err error) error {
		if err == nil && !info.IsDir() && strings.HasSuffix(p, ".go") && !strings.HasSuffix(p, "_test.go") {
			fmt.Fprintf(dg, "%s %d %d\n", p, info.Size(), info.ModTime().UnixNano())
		}
		return nil
	})
	bin := filepath.Join(os.TempDir(), fmt.Sprintf("c02_goawk_%x", dg.Sum(nil)[:8]))
	if _, err := os.Stat(bin); err != nil {
		tmp := fmt.Sprintf("%s.%d", bin, os.Getpid())
		cmd := exec.Command("go", "build", "-o", tmp, ".")
		cmd.Dir = repo
		cmd.Env = append(os.Environ(), "GOFLAGS=-mod=mod", "GOPROXY=off", "GOSUMDB=off", "GOTOOLCHAIN=local", "CGO_ENABLED=0")
		if outp, err := cmd.CombinedOutput(); err != nil {
			c.Note("goawk binary not built, binary sample skipped: " + strings.TrimSpace(string(outp)))
			return
		}
		os.Rename(tmp, bin)
	}
	type bcase struct {
		args  []string
		stdin string
	}
	var cases []bcase
	pool := corpusJobs()
	ncorpus := len(pool)
	for _, j := range extra {
		if len(j.cs.History) == 0 && len(j.expRuns) == 1 {
			pool = append(pool, j)
		}
	}
	var wantErr []string
	for pi, j := range pool {
		if j.cs.Sandbox {
			continue
		}
		_ = pi
		var args []string
		for i := 0; i+1 < len(j.cs.Vars); i += 2 {
			args = append(args, "-v", string(vh.Unhx(j.cs.Vars[i]))+"="+string(vh.Unhx(j.cs.Vars[i+1])))
		}
		if j.cs.Chars {
			args = append(args, "-c")
		}
		if j.cs.InMode != 0 {
			args = append(args, "-i", []string{"", "csv", "tsv"}[j.cs.InMode])
		}
		if j.cs.OutMode != 0 {
			args = append(args, "-o", []string{"", "csv", "tsv"}[j.cs.OutMode])
		}
		src := string(vh.Unhx(j.cs.Src))
		if strings.ContainsRune(src, 0) {
			continue // a NUL cannot travel in argv
		}
		args = append(args, "--", src)
		cases = append(cases, bcase{args, string(vh.Unhx(j.cs.Input))})
		w := ""
		if len(j.expRuns) == 1 {
			w = j.expRuns[0]
		}
		wantErr = append(wantErr, w)
	}
	_ = ncorpus
	n := c.N(60, 600)
	if len(cases) > n {
		// the first cases of the corpus are the finding witnesses: always kept; the rest is a seeded sample of corpus + same-key cases
		idx := make([]int, len(cases)-6)
		for i := range idx {
			idx[i] = i + 6
		}
		c.Rng.Shuffle(len(idx), func(i, k int) { idx[i], idx[k] = idx[k], idx[i] })
		keep := []int{0, 1, 2, 3, 4, 5}
		keep = append(keep, idx[:n-6]...)
		var cs2 []bcase
		var w2 []string
		for _, i := range keep {
			cs2 = append(cs2, cases[i])
			w2 = append(w2, wantErr[i])
		}
		cases, wantErr = cs2, w2
	}
	type bres struct {
		status int
		stderr string
		killed bool
	}
	res := make([]bres, len(cases))
	vh.Parallel(len(cases), func(i int) {
		ctx, cancel := context.WithTimeout(context.Background(), 5*time.Second)
		defer cancel()
		cmd := exec.CommandContext(ctx, bin, cases[i].args...)
		cmd.Stdin = strings.NewReader(cases[i].stdin)
		cmd.Stdout = io.Discard
		var eb bytes.Buffer
		cmd.Stderr = &eb
		cmd.Dir = scratchDir
		err := cmd.Run()
		if ctx.Err() != nil {
			res[i].killed = true
			return
		}
		if ee, ok := err.(*exec.ExitError); ok {
			res[i].status = ee.ExitCode()
		}
		s := eb.String()
		if len(s) > 2000 {
			s = s[:2000]
		}
		res[i].stderr = s
	})
	for i, r := range res {
		c.OracleCase()
		c.Hit("binary:run")
		if strings.Contains(r.stderr, "panic:") || strings.Contains(r.stderr, "goroutine ") || strings.Contains(r.stderr, "fatal error:") {
			c.Fail(vh.Failure{Kind: "oracle", What: "the goawk binary crashed with a Go trace", Case: map[string]interface{}{"stream": "binary", "argv": cases[i].args, "stdin_hex": vh.HxS(cases[i].stdin)},
				Got: fmt.Sprintf("exit %d: %s", r.status, r.stderr), Want: "exit status and at most an error message"})
			continue
		}
		if r.killed || wantErr[i] == "" {
			continue
		}
		c.Hit("binary:same-key")
		gotCl := errClass(r.stderr)
		if gotCl != wantErr[i] {
			c.Fail(vh.Failure{Kind: "oracle", What: "the goawk binary: the same cached key used again under different conditions does not give the required outcome",
				Case: map[string]interface{}{"stream": "binary", "argv": cases[i].args, "stdin_hex": vh.HxS(cases[i].stdin)},
				Got:  fmt.Sprintf("exit %d, stderr class %s: %s", r.status, gotCl, r.stderr), Want: wantErr[i]})
		}
	}
}

// ---- replay ------------------------------------------------------------------------------------------------------------

func replay(c *vh.Ctx) {
	b, err := os.ReadFile(c.ReplayFile)
	if err != nil {
		panic(err)
	}
	var doc struct {
		Failure struct {
			Case json.RawMessage `json:"case"`
			What string          `json:"what"`
		} `json:"failure"`
	}
	if err := json.Unmarshal(b, &doc); err != nil {
		panic(err)
	}
	var cs c02Case
	if err := json.Unmarshal(doc.Failure.Case, &cs); err != nil || cs.Src == "" {
		c.Note("replay file holds no program case (proof-obligation or binary replay): nothing to run in-process")
		return
	}
	exp := expAny
	switch {
	case strings.Contains(doc.Failure.What, "recursion"):
		exp = expDepthErr
	case strings.Contains(doc.Failure.What, "regex"):
		exp = expRegexErr
	case strings.Contains(doc.Failure.What, "field number"):
		exp = expFieldErr
	case strings.Contains(doc.Failure.What, "NF set"):
		exp = expNFErr
	}
	runBatch(c, []job{{cs: cs, exp: exp}})
}
