package main

// Grammar-aware generator of AWK programs for C02. Structured for width (every statement and expression form, all lvalue kinds,
// all builtins, user functions with scalar and array parameters, getline forms, redirects), with two disciplines that keep a
// case small: loops are bounded by private counters, and nothing that can grow (variables, fields, call results) is fed into
// concatenation, sprintf/printf or an `&` replacement.

import (
	"fmt"
	"math/rand"
	"strings"
)

type gen struct {
	r        *rand.Rand
	hits     map[string]int
	funcs    []genFunc
	inFunc   *genFunc
	loopID   int
	inLoop   int
	inForIn  int
	inAction bool
	depthCap int
}

type genFunc struct {
	name    string
	scalars []string
	arrays  []string
}

func newGen(r *rand.Rand) *gen { return &gen{r: r, hits: map[string]int{}} }

func (g *gen) hit(k string)             { g.hits[k]++ }
func (g *gen) pick(xs ...string) string { return xs[g.r.Intn(len(xs))] }
func (g *gen) chance(p float64) bool    { return g.r.Float64() < p }

var genNums = []string{"0", "1", "2", "3", "-1", "0.5", "2.7", "30000", "1000001", "1e30", "-1e30", "2147483648", "9223372036854775808", "1e308", "5e-324", "0x10", "1e", "010", ".5", "100", "7"}
var genStrs = []string{`""`, `"a"`, `"abc"`, `"3x"`, `" 12 "`, `"\xff"`, `"a\0b"`, `"é"`, `"a("`, `"[ab]+"`, `"%d"`, `"%s"`, `"%c"`, `"%*d"`, `"%z"`, `"%5.2f|%-3s"`, `"\n"`, `","`, `" "`, `"nan"`, `"+inf"`, `"0x1A"`, `"1e400"`, `"-"`, `"x y z"`, `"\\"`, `"&"`, `"\\&"`}
var genRegex = []string{`/a/`, `/[ab]+/`, `/^/`, `/$/`, `/./`, `/x*/`, `/(a|b)c?/`, `/\//`, `/[[:alpha:]]+/`, `/a{2}/`, `/\xff/`, `/é/`, `/[^ ]+ /`, `/()/`}
var genSpecialsRW = []string{"NF", "NR", "FNR", "RS", "FS", "OFS", "ORS", "SUBSEP", "CONVFMT", "OFMT", "RSTART", "RLENGTH", "ARGC", "FILENAME", "RT"}

func (g *gen) scalarVar() string {
	if g.inFunc != nil && len(g.inFunc.scalars) > 0 && g.chance(0.6) {
		return g.inFunc.scalars[g.r.Intn(len(g.inFunc.scalars))]
	}
	return g.pick("g0", "g1", "g2", "g3")
}

func (g *gen) arrayVar() string {
	if g.inFunc != nil && len(g.inFunc.arrays) > 0 && g.chance(0.6) {
		return g.inFunc.arrays[g.r.Intn(len(g.inFunc.arrays))]
	}
	return g.pick("A", "B", "ENVIRON", "ARGV")
}

// small: an expression whose string value is short whatever the state (safe to concatenate / format)
func (g *gen) small(d int) string {
	switch g.r.Intn(9) {
	case 0:
		return g.pick(genNums...)
	case 1:
		return g.pick(genStrs...)
	case 2:
		return "(" + g.expr(d-1) + ")+0"
	case 3:
		return "substr(" + g.expr(d-1) + ", " + g.small(0) + ", " + g.pick("0", "1", "3", "8") + ")"
	case 4:
		return "length(" + g.expr(d-1) + ")"
	case 5:
		return "index(" + g.expr(d-1) + ", " + g.expr(d-1) + ")"
	case 6:
		return "(" + g.expr(d-1) + " < " + g.expr(d-1) + ")"
	case 7:
		return "int(" + g.expr(d-1) + ")"
	default:
		return "NR"
	}
}

func (g *gen) lvalue(d int) string {
	switch g.r.Intn(6) {
	case 0, 1:
		g.hit("lv:var")
		return g.scalarVar()
	case 2:
		g.hit("lv:field")
		return "$" + g.pick("0", "1", "2", "NF", "(NF+1)", "(-1)", "("+g.expr(d-1)+")")
	case 3:
		g.hit("lv:array")
		if g.chance(0.2) {
			return g.arrayVar() + "[" + g.expr(d-1) + ", " + g.expr(d-1) + "]"
		}
		return g.arrayVar() + "[" + g.expr(d-1) + "]"
	case 4:
		g.hit("lv:special")
		return g.pick(genSpecialsRW...)
	default:
		return g.scalarVar()
	}
}

func (g *gen) args(d int) string {
	n := g.r.Intn(4)
	var as []string
	for i := 0; i < n; i++ {
		as = append(as, g.expr(d-1))
	}
	return strings.Join(as, ", ")
}

func (g *gen) call(d int) string {
	if len(g.funcs) == 0 {
		return g.small(d)
	}
	f := g.funcs[g.r.Intn(len(g.funcs))]
	g.hit("expr:usercall")
	var as []string
	for range f.scalars {
		if g.chance(0.15) {
			break // fewer arguments than parameters
		}
		as = append(as, g.expr(d-1))
	}
	if len(as) == len(f.scalars) {
		for range f.arrays {
			if g.chance(0.2) {
				break
			}
			as = append(as, g.arrayVar())
		}
	}
	return f.name + "(" + strings.Join(as, ", ") + ")"
}

func (g *gen) builtin(d int) string {
	g.hit("expr:builtin")
	e := func() string { return g.expr(d - 1) }
	switch g.r.Intn(24) {
	case 0:
		return "substr(" + e() + ", " + e() + ")"
	case 1:
		return "substr(" + e() + ", " + e() + ", " + e() + ")"
	case 2:
		return "index(" + e() + ", " + e() + ")"
	case 3:
		return "length(" + g.pick(e(), g.arrayVar(), "") + ")"
	case 4:
		return "length"
	case 5:
		return "split(" + e() + ", " + g.arrayVar() + g.pick("", ", "+e(), ", "+g.pick(genRegex...)) + ")"
	case 6:
		return "match(" + e() + ", " + g.pick(e(), g.pick(genRegex...)) + ")"
	case 7:
		// sub adds at most one short replacement; gsub only with a regex that cannot match the empty string and a replacement of
		// at most one byte, or with the empty replacement (an empty-matching regex would double the target on every call)
		if g.chance(0.5) {
			return "sub(" + g.pick(g.pick(genRegex...), e()) + ", " + g.pick(`"x"`, `"\\&"`, `""`, `"-"`, `"&"`) + g.pick("", ", "+g.lvalue(d)) + ")"
		}
		if g.chance(0.5) {
			return "gsub(" + g.pick(`/a/`, `/[ab]+/`, `/./`, `/\xff/`, `/[^ ]+ /`) + ", " + g.pick(`"x"`, `""`, `"-"`, `"&"`) + g.pick("", ", "+g.lvalue(d)) + ")"
		}
		return "gsub(" + g.pick(g.pick(genRegex...), e()) + `, ""` + g.pick("", ", "+g.lvalue(d)) + ")"
	case 8:
		return "sprintf(" + g.pick(genStrs...) + g.pick("", ", "+g.small(d), ", "+g.small(d)+", "+g.small(d)) + ")"
	case 9:
		return "sprintf(" + g.pick(`"%d %s %c %5.2f %x"`, `"%*d"`, `"%.*e"`, `"%i%o%u%X%E%g%G"`) + ", " + g.small(d) + ", " + g.small(d) + g.pick("", ", "+g.small(d)+", "+g.small(d)+", "+g.small(d)) + ")"
	case 10:
		return "int(" + e() + ")"
	case 11:
		return g.pick("sin", "cos", "exp", "log", "sqrt") + "(" + e() + ")"
	case 12:
		return "atan2(" + e() + ", " + e() + ")"
	case 13:
		return "rand()"
	case 14:
		return "srand(" + g.pick("", e()) + ")"
	case 15:
		return g.pick("tolower", "toupper") + "(" + e() + ")"
	case 16:
		return "close(" + g.pick(e(), `"true"`, g.file()) + ")"
	case 17:
		return "fflush(" + g.pick("", e(), g.file()) + ")"
	case 18:
		return "system(" + g.pick(`"true"`, `"exit 3"`, `""`, `"true " `+g.small(d)) + ")"
	case 19:
		g.hit("expr:getline")
		return "(getline" + g.pick("", " "+g.lvalue(d)) + g.pick("", " < "+g.file()) + ")"
	case 20:
		g.hit("expr:getline-cmd")
		return "(" + g.pick(`"echo 1 2 3"`, `"true"`, `"exit 1"`, `"echo -5"`) + " | getline" + g.pick("", " "+g.lvalue(d)) + ")"
	default:
		return g.call(d)
	}
}

func (g *gen) file() string {
	return g.pick(`"`+scratchDir+`/data.txt"`, `"`+scratchDir+`/missing"`, `"`+scratchDir+`/adir"`, `"`+scratchDir+`/empty.txt"`, `"`+scratchDir+`/out1"`, `""`, `"/dev/null"`, `"-"`)
}

func (g *gen) expr(d int) string {
	if d <= 0 {
		switch g.r.Intn(8) {
		case 0, 1:
			return g.pick(genNums...)
		case 2:
			return g.pick(genStrs...)
		case 3:
			return g.scalarVar()
		case 4:
			return "$" + g.pick("0", "1", "2", "3", "NF", "9")
		case 5:
			return g.pick(genSpecialsRW...)
		case 6:
			return g.arrayVar() + "[" + g.pick(genNums...) + "]"
		default:
			return g.pick(genRegex...)
		}
	}
	switch g.r.Intn(20) {
	case 0:
		g.hit("expr:binary")
		return "(" + g.expr(d-1) + " " + g.pick("+", "-", "*", "/", "%", "^", "**") + " " + g.expr(d-1) + ")"
	case 1:
		g.hit("expr:compare")
		return "(" + g.expr(d-1) + " " + g.pick("<", "<=", ">", ">=", "==", "!=") + " " + g.expr(d-1) + ")"
	case 2:
		g.hit("expr:match")
		return "(" + g.expr(d-1) + " " + g.pick("~", "!~") + " " + g.pick(g.pick(genRegex...), g.expr(d-1)) + ")"
	case 3:
		g.hit("expr:logic")
		return "(" + g.expr(d-1) + " " + g.pick("&&", "||") + " " + g.expr(d-1) + ")"
	case 4:
		g.hit("expr:unary")
		return g.pick("-", "+", "!") + "(" + g.expr(d-1) + ")"
	case 5:
		g.hit("expr:cond")
		return "(" + g.expr(d-1) + " ? " + g.expr(d-1) + " : " + g.expr(d-1) + ")"
	case 6:
		g.hit("expr:assign")
		return "(" + g.lvalue(d) + " = " + g.expr(d-1) + ")"
	case 7:
		g.hit("expr:augassign")
		return "(" + g.lvalue(d) + " " + g.pick("+=", "-=", "*=", "/=", "%=", "^=") + " " + g.expr(d-1) + ")"
	case 8:
		g.hit("expr:incr")
		if g.chance(0.5) {
			return "(" + g.lvalue(d) + g.pick("++", "--") + ")"
		}
		return "(" + g.pick("++", "--") + g.lvalue(d) + ")"
	case 9:
		g.hit("expr:concat")
		n := 2 + g.r.Intn(3)
		var ps []string
		for i := 0; i < n; i++ {
			ps = append(ps, g.small(d-1))
		}
		return "(" + strings.Join(ps, " ") + ")"
	case 10:
		g.hit("expr:in")
		if g.chance(0.3) {
			return "((" + g.expr(d-1) + ", " + g.expr(d-1) + ") in " + g.arrayVar() + ")"
		}
		return "(" + g.expr(d-1) + " in " + g.arrayVar() + ")"
	case 11:
		g.hit("expr:field")
		return "$(" + g.expr(d-1) + ")"
	case 12:
		g.hit("expr:index")
		return g.arrayVar() + "[" + g.expr(d-1) + g.pick("", ", "+g.expr(d-1)) + "]"
	case 13, 14, 15:
		return g.builtin(d)
	case 16:
		return g.call(d)
	case 17:
		g.hit("expr:group")
		return "(" + g.expr(d-1) + ")"
	default:
		return g.expr(0)
	}
}

func (g *gen) redirect() string {
	switch g.r.Intn(8) {
	case 0:
		return " > " + g.pick(`"`+scratchDir+`/out1"`, `"/dev/null"`, `"/dev/stderr"`, `"`+scratchDir+`/adir"`, `""`)
	case 1:
		return " >> " + g.pick(`"`+scratchDir+`/out2"`, `"/dev/null"`)
	case 2:
		return " | " + g.pick(`"cat >/dev/null"`, `"true"`, `"exit 2"`)
	default:
		return ""
	}
}

func (g *gen) stmt(d int) string {
	if d <= 0 {
		return g.simple(1)
	}
	switch g.r.Intn(16) {
	case 0:
		g.hit("stmt:if")
		return "if (" + g.expr(2) + ") " + g.block(d-1) + g.pick("", " else "+g.block(d-1))
	case 1:
		g.hit("stmt:while")
		g.loopID++
		v := fmt.Sprintf("w%d", g.loopID)
		g.inLoop++
		s := v + " = 0; while (" + v + "++ < " + g.pick("1", "2", "5") + g.pick("", " && "+g.expr(1)) + ") " + g.block(d-1)
		g.inLoop--
		return s
	case 2:
		g.hit("stmt:do")
		g.loopID++
		v := fmt.Sprintf("w%d", g.loopID)
		g.inLoop++
		s := v + " = 0; do " + g.block(d-1) + " while (" + v + "++ < " + g.pick("0", "2", "4") + ")"
		g.inLoop--
		return s
	case 3:
		g.hit("stmt:for")
		g.loopID++
		v := fmt.Sprintf("w%d", g.loopID)
		g.inLoop++
		s := "for (" + v + " = 0; " + v + " < " + g.pick("1", "3", "5") + "; " + v + "++) " + g.block(d-1)
		g.inLoop--
		return s
	case 4:
		g.hit("stmt:forin")
		g.inLoop++
		g.inForIn++
		key := g.pick("k", "k2", g.scalarVar(), "NF", "$1", "RS")
		if strings.HasPrefix(key, "$") {
			key = "k"
		}
		s := "for (" + key + " in " + g.arrayVar() + ") " + g.block(d-1)
		g.inForIn--
		g.inLoop--
		return s
	case 5:
		if g.inLoop > 0 {
			g.hit("stmt:break/continue")
			return g.pick("break", "continue")
		}
		return g.simple(2)
	case 6:
		g.hit("stmt:delete")
		return "delete " + g.arrayVar() + g.pick("", "["+g.expr(1)+"]", "["+g.expr(1)+", "+g.expr(1)+"]")
	case 7:
		if g.inAction || g.inFunc != nil {
			g.hit("stmt:next")
			return g.pick("next", "nextfile")
		}
		return g.simple(2)
	case 8:
		if g.chance(0.3) {
			g.hit("stmt:exit")
			return "exit" + g.pick("", " "+g.expr(1))
		}
		return g.simple(2)
	case 9:
		if g.inFunc != nil {
			g.hit("stmt:return")
			return "return" + g.pick("", " "+g.expr(2))
		}
		return g.simple(2)
	case 10:
		g.hit("stmt:block")
		return g.block(d - 1)
	default:
		return g.simple(2)
	}
}

func (g *gen) simple(d int) string {
	switch g.r.Intn(7) {
	case 0:
		g.hit("stmt:print")
		n := g.r.Intn(4)
		var as []string
		for i := 0; i < n; i++ {
			as = append(as, g.expr(d))
		}
		return "print " + strings.Join(as, ", ") + g.redirect()
	case 1:
		g.hit("stmt:printf")
		return "printf " + g.pick(genStrs...) + g.pick("", ", "+g.small(d), ", "+g.small(d)+", "+g.small(d)) + g.redirect()
	case 2:
		g.hit("stmt:assign")
		return g.lvalue(d) + " = " + g.expr(d)
	case 3:
		g.hit("stmt:augassign")
		return g.lvalue(d) + " " + g.pick("+=", "-=", "*=", "/=", "%=", "^=") + " " + g.expr(d)
	case 4:
		g.hit("stmt:incr")
		return g.lvalue(d) + g.pick("++", "--")
	case 5:
		g.hit("stmt:getline")
		return "getline" + g.pick("", " "+g.lvalue(d)) + g.pick("", " < "+g.file())
	default:
		g.hit("stmt:expr")
		return g.expr(d + 1)
	}
}

func (g *gen) block(d int) string {
	n := 1 + g.r.Intn(3)
	var ss []string
	for i := 0; i < n; i++ {
		ss = append(ss, g.stmt(d))
	}
	return "{ " + strings.Join(ss, "; ") + " }"
}

func (g *gen) program() string {
	g.funcs = nil
	g.loopID = 0
	nf := g.r.Intn(4)
	if g.chance(0.4) {
		nf = 0
	}
	for i := 0; i < nf; i++ {
		f := genFunc{name: fmt.Sprintf("f%d", i)}
		for j, n := 0, g.r.Intn(4); j < n; j++ {
			f.scalars = append(f.scalars, fmt.Sprintf("p%d", j))
		}
		for j, n := 0, g.r.Intn(3); j < n; j++ {
			f.arrays = append(f.arrays, fmt.Sprintf("a%d", j))
		}
		g.funcs = append(g.funcs, f)
	}
	var parts []string
	for i := range g.funcs {
		f := g.funcs[i]
		g.inFunc = &f
		body := g.block(2)
		// make the array parameters arrays for the resolver
		for _, a := range f.arrays {
			body = "{ " + a + "[0]; " + body[1:]
		}
		parts = append(parts, "function "+f.name+"("+strings.Join(append(append([]string{}, f.scalars...), f.arrays...), ", ")+") "+body)
		g.inFunc = nil
	}
	// make A and B arrays whatever else happens
	parts = append(parts, `BEGIN { A[1] = 1; A["x"] = "y"; B[0]; delete B[0] }`)
	n := 1 + g.r.Intn(4)
	for i := 0; i < n; i++ {
		switch g.r.Intn(7) {
		case 0:
			g.hit("item:begin")
			parts = append(parts, "BEGIN "+g.block(2))
		case 1:
			g.hit("item:end")
			g.inAction = false
			parts = append(parts, "END "+g.block(2))
		case 2:
			g.hit("item:pattern-only")
			parts = append(parts, g.expr(2))
		case 3:
			g.hit("item:range")
			g.inAction = true
			parts = append(parts, g.expr(1)+", "+g.expr(1)+" "+g.block(2))
			g.inAction = false
		case 4:
			g.hit("item:pattern-action")
			g.inAction = true
			parts = append(parts, g.expr(2)+" "+g.block(2))
			g.inAction = false
		default:
			g.hit("item:action")
			g.inAction = true
			parts = append(parts, g.block(3))
			g.inAction = false
		}
	}
	return strings.Join(parts, "\n")
}

var genInputs = [][]byte{
	nil, []byte("a b c\n"), []byte("1 2 3\n4 5 6\n7 8 9\n"), []byte("x\n\ny z\n\n\n"), []byte("\xff\xfe \x00 é\n-1e30 nan 0x10 +inf\n"),
	[]byte("no newline at end"), []byte("a,b,\"c d\"\r\n1,,3\r\n"), []byte(strings.Repeat("f ", 300) + "\n"), []byte(" lead\ttab  \n"),
}

func (g *gen) input() []byte { return genInputs[g.r.Intn(len(genInputs))] }

func (g *gen) configure(cs *c02Case) {
	if g.chance(0.2) {
		cs.Chars = true
		g.hit("cfg:chars")
	}
	if g.chance(0.1) {
		cs.InMode = 1 + g.r.Intn(2)
		g.hit("cfg:csv-in")
	}
	if g.chance(0.1) {
		cs.OutMode = 1 + g.r.Intn(2)
		g.hit("cfg:csv-out")
	}
	if g.chance(0.25) {
		sv := genSpecialsRW[g.r.Intn(len(genSpecialsRW))]
		vc := strClasses[g.r.Intn(len(strClasses))]
		*cs = cs.withVars(sv, vc.val)
		g.hit("cfg:vars")
	}
	if g.chance(0.15) {
		cs.Args = []string{g.pick(scratchDir+"/data.txt", scratchDir+"/missing", scratchDir+"/adir", "-", "g0=5", "NF=3"), g.pick(scratchDir+"/data.txt", scratchDir+"/empty.txt", "FS=,")}
		g.hit("cfg:args")
	}
}
