package main

// Host-side faults: every place where the interpreter talks to the outside (system, print | cmd, cmd | getline, close, fflush,
// getline < file, > file, >> file, the main input) is run while the HOST-SIDE objects of interp.Config misbehave — Output / Error
// writers that fail at byte k (or return short counts), Stdin readers that fail at byte k / block past os/exec's WaitDelay and
// then fail / never end, OpenFile hooks that return errors or hand out unusable files, ShellCommand that cannot be started or
// ignores its arguments, commands that exit early or die from a signal — and through every entry point of the library:
// ExecProgram, Interpreter.Execute (no context at all), ExecuteContext with a live deadline, with context.Background(), and
// Execute after an ExecuteContext whose context has been cancelled since. os/exec copies a non-file Stdin/Stdout/Stderr through
// goroutines and reports their I/O error from cmd.Wait, so these configurations are the only way into the "wait failed" /
// "flush failed" / "start failed" branches of vm.go, io.go and iostream.go.
//
// Oracle: never a panic (and the run returns); a fault is reported as an error value or as the documented failure result — never
// as success: system() through a shell that cannot be started is not 0, getline from a file the hook refuses to open is not 1/0.

import (
	"bytes"
	"context"
	"errors"
	"fmt"
	"io"
	"io/fs"
	"os"
	"strconv"
	"strings"
	"sync"
	"syscall"
	"time"

	"github.com/benhoyt/goawk/interp"
	"github.com/benhoyt/goawk/parser"

	"verifharness/vh"
)

type hostFault struct {
	Entry string   `json:"entry"`           // program | execute | context | background | ctx-then-execute
	Out   string   `json:"out,omitempty"`   // "" | fail@K | short@K
	Err   string   `json:"err,omitempty"`   // same
	In    string   `json:"in,omitempty"`    // "" | fail@K | slowfail | endless
	Open  string   `json:"open,omitempty"`  // "" | notexist | perm | custom | closed | dir | rdonly | devfull | nth@K
	Shell []string `json:"shell,omitempty"` // Config.ShellCommand (nil = default)
}

func (f *hostFault) key() string {
	if f == nil {
		return ""
	}
	return fmt.Sprintf("%s|%s|%s|%s|%s|%q", f.Entry, f.Out, f.Err, f.In, f.Open, f.Shell)
}

func atArg(s string) (string, int) {
	kind, arg, _ := strings.Cut(s, "@")
	n, _ := strconv.Atoi(arg)
	return kind, n
}

// ---- faulty host objects ----------------------------------------------------------------------------------------------------

// faultWriter accepts failAt bytes (failAt < 0: no fault), then fails every write: with an error, or — short — by returning a
// short count without an error. It keeps what it accepted (capped) and is safe for os/exec's copy goroutines.
type faultWriter struct {
	mu     sync.Mutex
	failAt int
	short  bool
	n      int
	kept   bytes.Buffer
}

func newFaultWriter(spec string) *faultWriter {
	w := &faultWriter{failAt: -1}
	if spec != "" {
		kind, k := atArg(spec)
		w.failAt = k
		w.short = kind == "short"
	}
	return w
}

func (w *faultWriter) Write(p []byte) (int, error) {
	w.mu.Lock()
	defer w.mu.Unlock()
	if len(p) == 0 {
		return 0, nil
	}
	room := len(p)
	if w.failAt >= 0 && w.n+len(p) > w.failAt {
		room = w.failAt - w.n
	}
	if w.n+room > 4<<20 {
		return 0, fmt.Errorf("output limit reached")
	}
	w.n += room
	if w.kept.Len() < 1<<16 {
		w.kept.Write(p[:room])
	}
	if room == len(p) {
		return room, nil
	}
	if w.short {
		return room, nil
	}
	return room, errors.New("injected write fault")
}

func (w *faultWriter) text() string {
	w.mu.Lock()
	defer w.mu.Unlock()
	return w.kept.String()
}

// faultReader delivers data; then EOF, an error (fail), or — endless — more lines for ever (capped); slow sleeps before the
// first answer (longer than os/exec's WaitDelay of 250 ms set by execShell) and then fails.
type faultReader struct {
	mu      sync.Mutex
	data    []byte
	fail    bool
	endless bool
	slow    time.Duration
	served  int
}

func newFaultReader(spec string, input []byte) *faultReader {
	r := &faultReader{data: input}
	kind, k := atArg(spec)
	switch kind {
	case "fail":
		if k < len(input) {
			r.data = input[:k]
		}
		r.fail = true
	case "slowfail":
		r.data = nil
		r.fail = true
		r.slow = 400 * time.Millisecond
	case "endless":
		r.endless = true
	}
	return r
}

func (r *faultReader) Read(p []byte) (int, error) {
	r.mu.Lock()
	defer r.mu.Unlock()
	if r.slow > 0 {
		time.Sleep(r.slow)
	}
	if len(r.data) > 0 {
		n := copy(p, r.data)
		r.data = r.data[n:]
		return n, nil
	}
	if r.endless {
		if r.served > 64<<20 {
			return 0, errors.New("endless reader: cap reached")
		}
		const line = "e1 e2 e3\n"
		n := 0
		for n+len(line) <= len(p) && n < 4096 {
			n += copy(p[n:], line)
		}
		if n == 0 {
			n = copy(p, line)
		}
		r.served += n
		return n, nil
	}
	if r.fail {
		return 0, errors.New("injected read fault")
	}
	return 0, io.EOF
}

func faultOpenFile(spec string) interp.OpenFileFunc {
	kind, k := atArg(spec)
	var mu sync.Mutex
	calls := 0
	return func(name string, flag int, perm os.FileMode) (*os.File, error) {
		switch kind {
		case "notexist":
			return nil, &fs.PathError{Op: "open", Path: name, Err: fs.ErrNotExist}
		case "perm":
			return nil, &fs.PathError{Op: "open", Path: name, Err: fs.ErrPermission}
		case "custom":
			return nil, errors.New("injected open fault")
		case "closed": // a file that is already closed: every Read / Write / Close on it fails
			f, err := os.OpenFile(name, flag, perm)
			if err != nil {
				return nil, err
			}
			f.Close()
			return f, nil
		case "dir": // a directory handle: reads fail with EISDIR, writes with EBADF
			return os.Open(scratchDir)
		case "rdonly": // opened read-only whatever was asked: writes fail when the buffer is flushed
			return os.OpenFile(scratchDir+"/data.txt", os.O_RDONLY, 0)
		case "devfull": // writes fail with ENOSPC when the buffer is flushed; reads give NULs for ever, so only for writing
			if flag&(os.O_WRONLY|os.O_RDWR) != 0 {
				return os.OpenFile("/dev/full", os.O_WRONLY, 0)
			}
			return os.OpenFile(name, flag, perm)
		case "nth": // the k-th open fails, the others pass through
			mu.Lock()
			calls++
			c := calls
			mu.Unlock()
			if c == k {
				return nil, &fs.PathError{Op: "open", Path: name, Err: syscall.EMFILE}
			}
		}
		return os.OpenFile(name, flag, perm)
	}
}

// ---- running one fault case -------------------------------------------------------------------------------------------------

const faultWatchdog = 30 * time.Second

func runFaultCase(cs c02Case, prog *parser.Program, out *c02Out) {
	f := cs.Fault
	var vars []string
	for _, v := range cs.Vars {
		vars = append(vars, string(vh.Unhx(v)))
	}
	outW, errW := newFaultWriter(f.Out), newFaultWriter(f.Err)
	mkcfg := func() *interp.Config {
		cfg := &interp.Config{
			Stdin:        newFaultReader(f.In, cs.stdinBytes()),
			Output:       outW,
			Error:        errW,
			Vars:         vars,
			Args:         cs.Args,
			InputMode:    interp.IOMode(cs.InMode),
			OutputMode:   interp.IOMode(cs.OutMode),
			Environ:      []string{"HOME=/nonexistent", "C02=1"},
			ShellCommand: f.Shell,
		}
		if f.Open != "" {
			cfg.OpenFile = faultOpenFile(f.Open)
		}
		return cfg
	}
	type res struct {
		status int
		err    error
		pan    string
	}
	done := make(chan res, 1)
	go func() {
		var r res
		defer func() {
			if p := recover(); p != nil {
				r.pan = fmt.Sprint(p)
			}
			done <- r
		}()
		switch f.Entry {
		case "program":
			r.status, r.err = interp.ExecProgram(prog, mkcfg())
		case "execute", "context", "background", "ctx-then-execute":
			ip, err := interp.New(prog)
			if err != nil {
				r.err = fmt.Errorf("New: %w", err)
				return
			}
			switch f.Entry {
			case "execute":
				r.status, r.err = ip.Execute(mkcfg())
			case "context":
				ctx, cancel := context.WithTimeout(context.Background(), faultWatchdog-5*time.Second)
				defer cancel()
				r.status, r.err = ip.ExecuteContext(ctx, mkcfg())
			case "background":
				r.status, r.err = ip.ExecuteContext(context.Background(), mkcfg())
			case "ctx-then-execute":
				ctx, cancel := context.WithTimeout(context.Background(), faultWatchdog-5*time.Second)
				ip.ExecuteContext(ctx, &interp.Config{Stdin: strings.NewReader(""), Output: io.Discard, Error: io.Discard, NoExec: true,
					NoFileReads: true, NoFileWrites: true, Environ: []string{}})
				cancel() // the interpreter still holds this (now cancelled) context
				r.status, r.err = ip.Execute(mkcfg())
			}
		default:
			r.err = fmt.Errorf("unknown entry %q", f.Entry)
		}
	}()
	t0 := time.Now()
	defer func() {
		if os.Getenv("C02_FAULT_TIMES") != "" {
			fmt.Fprintf(os.Stderr, "FT %d %s %s\n", time.Since(t0).Milliseconds(), f.key(), cs.SrcText)
		}
	}()
	select {
	case r := <-done:
		out.Res.Status = r.status
		out.Res.Panic = r.pan
		if r.err != nil {
			out.Res.Err = r.err.Error()
		}
	case <-time.After(faultWatchdog):
		out.TimedOut = true
		out.Res.Err = "deadline (watchdog): the run did not return"
	}
	out.Res.Out = outW.text()
	out.ErrOut = errW.text()
}

// ---- the programs ----------------------------------------------------------------------------------------------------------

// commands: {text, reads all of stdin?}
type faultCmd struct {
	text      string
	drainsIn  bool // reads its standard input to the end (never paired with an endless Stdin when the command inherits it)
	writesOut bool
}

var faultCmds = []faultCmd{
	{"true", false, false}, {"exit 3", false, false}, {"echo hello", false, true}, {"echo oops >&2", false, true}, {"echo a; echo b >&2; exit 5", false, true},
	{"cat", true, true}, {"cat >/dev/null", true, false}, {"head -c 2", false, true}, {"kill -9 $$", false, false}, {"kill -TERM $$", false, false},
	{"exec 0<&-; exec 1>&-; sleep 0.03", false, false}, {"sleep 0.03; echo late", false, true}, {"no_such_command_c02", false, true},
	{"yes 0123456789 | head -c 70000", false, true}, {"cat; echo done", true, true}, {"read x; echo got $x", false, true}, {"", false, false},
}

// statement templates: @C = command (AWK string literal), @F = output file, @D = input file, @R = the reporting redirect
var faultStmts = []string{
	`r = system(@C); print "sys", r @R`,
	`print "to-cmd" | @C; r = close(@C); print "pclose", r @R`,
	`printf "%s-%d\n", "x", 1 | @C; fflush(@C); r = close(@C); print "pclose", r @R`,
	`for (i = 0; i < 3000; i++) print "line", i | @C; r = close(@C); print "pclose-big", r @R`,
	`print "unclosed" | @C`,
	`r = (@C | getline v); print "cgl", r, v @R`,
	`n = 0; while ((@C | getline v) > 0) n++; r = close(@C); print "cgl-loop", n, r @R`,
	`@C | getline; print "cgl0", $0, NF @R`,
	`r = (@C | getline v); r2 = close(@C); r3 = close(@C); print "cgl-close2", r, r2, r3 @R`,
	`r = close(@C); print "close-unopened", r @R`,
	`r = fflush(); print "fflush", r @R`,
	`print "q" > @F; r = fflush(@F); print "fflush-file", r @R`,
	`print "q" | @C; r = fflush(@C); print "fflush-cmd", r @R`,
	`r = fflush("no-such-stream"); print "fflush-none", r @R`,
	`r = (getline v < @D); print "fgl", r, v @R`,
	`n = 0; while ((getline v < @D) > 0) n++; r = close(@D); print "fgl-loop", n, r @R`,
	`r = (getline < @D); print "fgl0", r, $0 @R`,
	`print "x" > @F; r = close(@F); print "fclose", r @R`,
	`print "x" >> @F; r = close(@F); print "aclose", r @R`,
	`printf "y" > @F`,
	`for (i = 0; i < 9000; i++) print "0123456789" > @F; r = close(@F); print "fclose-big", r @R`,
	`print "x" > @F; r = (getline v < @F); print "rw", r @R`,
	`print "x" > "/dev/stdout"; print "y" > "/dev/stderr"; print "z" > "-"`,
	`print "plain"; printf "%s\n", "plain2"`,
	`for (i = 0; i < 2000; i++) print "0123456789"`,
	`r = getline; print "gl", r, $0 @R`,
	`r = (getline v); print "glv", r, v @R`,
	`r = (getline v < "-"); print "gl-stdin", r, v @R`,
	`r = system(@C); r2 = system(@C); print "sys2", r, r2 @R`,
	`print "a" | @C; r = system(@C); close(@C); print "sys-mixed", r @R`,
	`r = close(@F); r2 = close(@F); print "close2", r, r2 @R`,
}

var faultOutSpecs = []string{"fail@0", "fail@1", "fail@7", "fail@100", "fail@5000", "short@0", "short@3"}
var faultInSpecs = []string{"fail@0", "fail@1", "fail@4", "fail@1000", "slowfail", "endless"}
var faultOpenSpecs = []string{"notexist", "perm", "custom", "closed", "dir", "rdonly", "devfull", "nth@1", "nth@2"}
var faultEntries = []string{"program", "execute", "context", "background", "ctx-then-execute"}

func faultShells() [][]string {
	return [][]string{
		{"/nonexistent/c02/shell", "-c"}, {scratchDir + "/data.txt"}, {scratchDir}, {""}, {"/bin/false"}, {"/bin/sh", "-c", "exit 7"},
		{"/bin/sh", "-c", "kill -9 $$"}, {"/bin/cat"}, {"/bin/sh", "-c", "echo shell-out; cat >/dev/null"}, {"/bin/sh", "-c", "exec 0<&- 1>&- 2>&-; sleep 0.02"},
	}
}

// unstartable: cmd.Start fails for this ShellCommand
func unstartable(sh []string) bool {
	if len(sh) == 0 {
		return false
	}
	return sh[0] == "" || strings.HasPrefix(sh[0], "/nonexistent") || strings.HasPrefix(sh[0], scratchDir)
}

type faultProg struct {
	src   string
	cmds  []faultCmd
	stmts []int
	where string // BEGIN | main | END
}

func buildFaultProg(stmts []int, cmds []faultCmd, where string, report string, k int) faultProg {
	var parts []string
	for i, si := range stmts {
		s := faultStmts[si]
		c := cmds[i%len(cmds)]
		s = strings.ReplaceAll(s, "@C", awkStr(c.text))
		s = strings.ReplaceAll(s, "@F", awkStr(fmt.Sprintf("%s/fault_out_%d.txt", scratchDir, k)))
		s = strings.ReplaceAll(s, "@D", awkStr(scratchDir+"/data.txt"))
		s = strings.ReplaceAll(s, " @R", report)
		parts = append(parts, s)
	}
	body := strings.Join(parts, "; ")
	var src string
	switch where {
	case "BEGIN":
		src = "BEGIN { " + body + " }"
	case "END":
		src = "END { " + body + " }"
	default:
		src = "NR <= 2 { " + body + " }"
	}
	return faultProg{src: src, cmds: cmds, stmts: stmts, where: where}
}

// usable: the combination terminates by construction (an endless Stdin is never drained: no main loop, no plain getline, no
// command that reads its inherited standard input to the end).
func (p faultProg) usable(f *hostFault) bool {
	if f.In != "endless" {
		return true
	}
	if p.where != "BEGIN" {
		return false
	}
	for _, si := range p.stmts {
		s := faultStmts[si]
		if strings.Contains(s, "getline;") || strings.Contains(s, "(getline v)") || strings.Contains(s, `"-"`) {
			return false
		}
		// system() and cmd | getline hand p.stdin to the child
		if strings.Contains(s, "system(@C)") || strings.Contains(s, "@C | getline") {
			for _, c := range p.cmds {
				if c.drainsIn {
					return false
				}
			}
		}
	}
	for _, sh := range f.Shell {
		if strings.Contains(sh, "cat") {
			return false
		}
	}
	return true
}

func faultJob(k int, p faultProg, f hostFault, args []string, key string) job {
	cs := mkCase("faults", p.src, []byte("i1 i2\ni3\ni4 i5 i6\n"))
	cs.Args = args
	ff := f
	cs.Fault = &ff
	return job{cs: cs, exp: expAny, key: key}
}

func faultJobs(c *vh.Ctx) []job {
	var js []job
	k := 0
	cmdsByText := func(ts ...string) []faultCmd {
		var r []faultCmd
		for _, t := range ts {
			for _, fc := range faultCmds {
				if fc.text == t {
					r = append(r, fc)
				}
			}
		}
		return r
	}
	add := func(p faultProg, f hostFault, args []string, key string) {
		if !p.usable(&f) {
			return
		}
		k++
		js = append(js, faultJob(k, p, f, args, key))
	}
	reports := []string{"", ` > "/dev/stderr"`}
	// ---- directed: every statement alone × every single fault × every entry point (quick: the command-facing statements get all
	// entries, the rest a seeded entry)
	singles := []hostFault{{}}
	for _, s := range faultOutSpecs {
		singles = append(singles, hostFault{Out: s}, hostFault{Err: s})
	}
	singles = append(singles, hostFault{Out: "fail@0", Err: "fail@0"})
	for _, s := range faultInSpecs {
		singles = append(singles, hostFault{In: s})
	}
	for _, s := range faultOpenSpecs {
		singles = append(singles, hostFault{Open: s})
	}
	for _, sh := range faultShells() {
		singles = append(singles, hostFault{Shell: sh})
	}
	directedCmds := [][]faultCmd{cmdsByText("echo hello"), cmdsByText("cat"), cmdsByText("echo oops >&2"), cmdsByText("exit 3"), cmdsByText("kill -9 $$"),
		cmdsByText("yes 0123456789 | head -c 70000"), cmdsByText("head -c 2")}
	if !c.Thorough() {
		// quick: a fixed subset of the single faults
		keep := map[string]bool{"": true, "fail@0": true, "fail@7": true, "fail@5000": true, "short@3": true}
		var sub []hostFault
		nsh := 0
		for _, f := range singles {
			switch {
			case f.Out != "" && f.Err != "":
			case f.Out != "" && !keep[f.Out], f.Err != "" && (!keep[f.Err] || f.Err == "fail@5000"):
				continue
			case f.Shell != nil:
				nsh++
				if nsh%2 == 0 && nsh > 2 {
					continue
				}
			}
			sub = append(sub, f)
		}
		singles = sub
	}
	noCtx := []string{"program", "execute"}
	withCtx := []string{"context", "background", "ctx-then-execute"}
	for si, st := range faultStmts {
		usesCmd := strings.Contains(st, "@C")
		primary := si == 0 // `r = system(@C)`: every entry point with three command classes even in quick
		for fi, f := range singles {
			var cmdSets [][]faultCmd
			switch {
			case !usesCmd:
				cmdSets = directedCmds[:1]
			case primary && c.Thorough():
				cmdSets = directedCmds
			case primary:
				for d := 0; d < 3; d++ {
					cmdSets = append(cmdSets, directedCmds[(fi+d*2)%len(directedCmds)])
				}
			case c.Thorough():
				cmdSets = [][]faultCmd{directedCmds[(si+fi)%len(directedCmds)], directedCmds[(si+fi+3)%len(directedCmds)]}
			default:
				cmdSets = [][]faultCmd{directedCmds[(si+fi)%len(directedCmds)]}
			}
			if f.In == "slowfail" && !c.Thorough() && !primary && (si+fi)%4 != 0 {
				continue // each costs 0.4 s or more
			}
			for ci, cmds := range cmdSets {
				// one entry point without a context and one with, rotating; all five for the primary statement (thorough: for the
				// first command class of every statement)
				entries := []string{noCtx[(si+fi+ci)%2], withCtx[(si+fi+ci)%3]}
				if !usesCmd && !c.Thorough() {
					entries = []string{faultEntries[(si+fi)%len(faultEntries)]}
				}
				if primary || (c.Thorough() && ci == 0) {
					entries = faultEntries
				}
				for ei, e := range entries {
					ff := f
					ff.Entry = e
					where := "BEGIN"
					if strings.Contains(st, "getline;") || strings.Contains(st, "(getline v)") {
						where = []string{"BEGIN", "main"}[(fi+ei)%2]
					}
					add(buildFaultProg([]int{si}, cmds, where, reports[(si+fi+ei)%2], k), ff, nil, "fault:directed")
				}
			}
		}
	}
	// ---- main input from a file operand that the hook refuses / damages
	for _, s := range faultOpenSpecs {
		for _, e := range faultEntries {
			p := faultProg{src: `{ n += NF } END { print n, NR; r = (getline v < FILENAME); print r }`, where: "main"}
			add(p, hostFault{Entry: e, Open: s}, []string{scratchDir + "/data.txt", "-", scratchDir + "/missing.txt"}, "fault:operand")
		}
	}
	// ---- random: 1-5 statements, 1-2 faults, any placement
	n := c.N(400, 3000)
	for i := 0; i < n; i++ {
		var st []int
		for j := 1 + c.Rng.Intn(5); j > 0; j-- {
			st = append(st, c.Rng.Intn(len(faultStmts)))
		}
		var cmds []faultCmd
		for j := 1 + c.Rng.Intn(2); j > 0; j-- {
			cmds = append(cmds, faultCmds[c.Rng.Intn(len(faultCmds))])
		}
		f := hostFault{Entry: faultEntries[c.Rng.Intn(len(faultEntries))]}
		for j := 1 + c.Rng.Intn(2); j > 0; j-- {
			switch c.Rng.Intn(6) {
			case 0:
				f.Out = faultOutSpecs[c.Rng.Intn(len(faultOutSpecs))]
			case 1:
				f.Err = faultOutSpecs[c.Rng.Intn(len(faultOutSpecs))]
			case 2:
				f.In = faultInSpecs[c.Rng.Intn(len(faultInSpecs))]
				if f.In == "slowfail" && c.Rng.Intn(4) != 0 {
					f.In = fmt.Sprintf("fail@%d", c.Rng.Intn(20))
				}
			case 3:
				f.Open = faultOpenSpecs[c.Rng.Intn(len(faultOpenSpecs))]
			case 4:
				sh := faultShells()
				f.Shell = sh[c.Rng.Intn(len(sh))]
			case 5:
				f.Out = fmt.Sprintf("fail@%d", c.Rng.Intn(70000))
			}
		}
		where := []string{"BEGIN", "BEGIN", "main", "END"}[c.Rng.Intn(4)]
		var args []string
		if c.Rng.Intn(4) == 0 {
			args = []string{scratchDir + "/data.txt"}
		}
		add(buildFaultProg(st, cmds, where, reports[c.Rng.Intn(2)], k), f, args, "fault:random")
	}
	return js
}

// judgeFault: beyond "no panic" (judge), a fault must not be reported as success.
func judgeFault(j job, o c02Out) (what, got, want string) {
	f := j.cs.Fault
	if f == nil || o.Res.Panic != "" || o.ParseErr != "" {
		return
	}
	if o.TimedOut {
		return "the run did not return (host-side fault, all commands and readers are finite by construction)", o.Res.Err, "an exit status or an error value"
	}
	src := string(vh.Unhx(j.cs.Src))
	// the report lines go to stdout or to /dev/stderr; look at both kept texts when that channel has no fault
	var lines []string
	if f.Out == "" {
		lines = append(lines, strings.Split(o.Res.Out, "\n")...)
	}
	if f.Err == "" {
		lines = append(lines, strings.Split(o.ErrOut, "\n")...)
	}
	single := strings.Count(src, ";") <= 1 && strings.HasPrefix(src, "BEGIN { r = ")
	if !single {
		return
	}
	for _, ln := range lines {
		fs := strings.Fields(ln)
		if len(fs) < 2 {
			continue
		}
		switch {
		case fs[0] == "sys" && unstartable(f.Shell) && fs[1] == "0":
			return "system() through a ShellCommand that cannot be started reports success", ln, "sys -1 (or an error value)"
		case fs[0] == "fgl" && (f.Open == "notexist" || f.Open == "perm" || f.Open == "custom" || f.Open == "nth@1") && (fs[1] == "1" || fs[1] == "0"):
			return "getline from a file the OpenFile hook refuses to open reports a record / end of file", ln, "fgl -1 (or an error value)"
		}
	}
	return
}
