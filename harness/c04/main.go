package main

// C04 — expressions group by the POSIX precedence/associativity table.
//
// Implementation-side oracle (no model in the loop): for generated trees, the minimally parenthesised source text (only
// the parentheses the table requires) and the fully parenthesised one are parsed with parser.ParseProgram in four
// contexts (statement, print argument, pattern, if-condition); both must parse and give the same tree modulo
// GroupingExpr — which must also be the intended tree; in print context `E > D` must be a redirection.
// Exhaustive over every ordered pair and triple of operators in every nesting position, then random deeper trees.
//
// Correspondence: the Lean model's parseExpr (GoawkModel.C04) on the same token lists — the two renderings, renderings
// with a random subset of the parentheses dropped, and random token sequences (accept/reject and tree) — against the real
// tree; and the model's renderMin / renderFull against this harness's renderers.

import (
	"fmt"
	"os"
	"reflect"
	"regexp"
	"strings"
	"sync"

	"github.com/benhoyt/goawk/parser"

	"verifharness/vh"
)

func main() { vh.Main("C04", run) }

type context struct {
	name      string
	pc        bool
	pre, post string
	term      string // the token word that follows the expression
}

var contexts = []context{
	{"plain", false, "BEGIN { ", " }", "}"},
	{"print", true, "BEGIN { print ", " }", "}"},
	{"pattern", false, "", " { }", "other"},
	{"cond", false, "BEGIN { if ( ", " ) x9 = 1 }", ")"},
	{"printredir", true, "BEGIN { print ", " > \"s9\" }", "> s9 }"}, // the > after a complete argument must be the redirection
}

type parsed struct {
	err      string // "" = accepted
	resolver bool   // rejected by the resolver (types), not by the grammar
	panicked bool
	tree     *E     // the expression (print: the single argument, nil E when there is none)
	redir    string // print context: redirect token or ""
	dest     *E
	nargs    int
}

func (p parsed) String() string {
	if p.err != "" {
		return "error: " + p.err
	}
	s := p.tree.String()
	if p.redir != "" {
		s = "(print " + s + " " + p.redir + " " + p.dest.String() + ")"
	}
	return s
}

// realParse parses ctx.pre + text + ctx.post with the real parser and extracts the expression.
func realParse(cx context, text string) (res parsed) {
	src := cx.pre + text + cx.post
	defer func() {
		if r := recover(); r != nil {
			res = parsed{err: fmt.Sprint("PANIC: ", r), panicked: true}
		}
	}()
	prog, err := parser.ParseProgram([]byte(src), nil)
	if err != nil {
		msg := err.Error()
		return parsed{err: msg, resolver: strings.Contains(msg, "can't use") || strings.Contains(msg, "can't pass") || strings.Contains(msg, "can't also")}
	}
	root := reflect.ValueOf(prog.ResolvedProgram.Program)
	switch cx.name {
	case "pattern":
		acts := root.FieldByName("Actions")
		if acts.Len() != 1 {
			return parsed{err: fmt.Sprintf("shape: %d actions", acts.Len())}
		}
		pat := acts.Index(0).Elem().FieldByName("Pattern")
		if pat.Len() != 1 {
			return parsed{err: fmt.Sprintf("shape: %d patterns", pat.Len())}
		}
		return parsed{tree: conv(pat.Index(0))}
	default:
		begin := root.FieldByName("Begin")
		if begin.Len() != 1 || begin.Index(0).Len() != 1 {
			return parsed{err: "shape: not exactly one BEGIN statement"}
		}
		st := begin.Index(0).Index(0)
		for st.Kind() == reflect.Interface || st.Kind() == reflect.Ptr {
			st = st.Elem()
		}
		switch cx.name {
		case "plain":
			if st.Type().Name() != "ExprStmt" {
				return parsed{err: "shape: " + st.Type().Name()}
			}
			return parsed{tree: conv(st.FieldByName("Expr"))}
		case "cond":
			if st.Type().Name() != "IfStmt" {
				return parsed{err: "shape: " + st.Type().Name()}
			}
			return parsed{tree: conv(st.FieldByName("Cond"))}
		case "print", "printredir":
			if st.Type().Name() != "PrintStmt" {
				return parsed{err: "shape: " + st.Type().Name()}
			}
			args := st.FieldByName("Args")
			p := parsed{nargs: args.Len(), tree: nilE(), dest: nilE()}
			if args.Len() > 1 {
				return parsed{err: "shape: several print arguments"}
			}
			if args.Len() == 1 {
				p.tree = conv(args.Index(0))
			}
			if !st.FieldByName("Dest").IsNil() {
				p.redir = fmt.Sprint(st.FieldByName("Redirect").Interface())
				p.dest = conv(st.FieldByName("Dest"))
			}
			return p
		}
	}
	return parsed{err: "shape"}
}

type oracleCase struct {
	Ctx   string `json:"ctx"`
	Tree  string `json:"tree"`
	Min   string `json:"min_src"`
	Full  string `json:"full_src"`
	Class string `json:"class"`
}

// checkTree is the implementation-side oracle for one tree in one context. It returns the token lists it parsed (for the
// correspondence stage) and reports failures.
func checkTree(c *vh.Ctx, mu *sync.Mutex, cx context, e *E, class string) (minToks, fullToks []string, pm, pf parsed) {
	minToks = render(addMin(cx.pc, e))
	fullToks = render(grpF(e))
	minText, fullText := tokText(minToks), tokText(fullToks)
	pm, pf = realParse(cx, minText), realParse(cx, fullText)
	want := e.String()
	fail := func(what, got, wantS string) {
		mu.Lock()
		defer mu.Unlock()
		finding := ""
		if pm.err != "" && pf.err == "" && isG04_1(e) {
			finding = "G04-1"
		}
		c.Fail(vh.Failure{Kind: "oracle", What: what, Finding: finding,
			Case: oracleCase{cx.name, want, cx.pre + minText + cx.post, cx.pre + fullText + cx.post, class}, Got: got, Want: wantS})
	}
	if cx.name == "printredir" {
		// print E > "s9": both spellings must be Print [E] (>, "s9")
		wantP := "(print " + want + " > s9)"
		for _, p := range []parsed{pf, pm} {
			got := p.String()
			if p.err == "" {
				got = "(print " + strip(p.tree).String() + " " + orDash(p.redir) + " " + p.dest.String() + ")"
			}
			if got != wantP {
				fail("inside print, the > after a complete argument is not parsed as the redirection of that argument", got, wantP)
				break
			}
		}
		return
	}
	switch {
	case pf.err != "":
		fail("the fully parenthesised expression is rejected", pf.err, want)
	case pf.redir != "" || strip(pf.tree).String() != want:
		fail("the fully parenthesised expression does not parse to the intended tree", pf.String(), want)
	case pm.err != "":
		fail("the minimally parenthesised expression (only the parentheses the POSIX table requires) is rejected", pm.err, want)
	case pm.redir != "":
		fail("an expression without an unparenthesised > or | was parsed as a print redirection", pm.String(), want)
	case strip(pm.tree).String() != strip(pf.tree).String():
		fail("minimally and fully parenthesised spellings group differently", strip(pm.tree).String(), strip(pf.tree).String())
	default:
		// white space between tokens is not part of the grammar: tabs, runs of blanks and backslash-newline continuations in
		// place of the single blanks must give the same tree (seeded C04-p4: a continuation no longer counted as space, so
		// `x \<newline>(y)` became a call)
		for salt := uint32(1); salt <= 2; salt++ {
			vText := tokTextSep(minToks, salt)
			if vText == minText {
				continue
			}
			pv := realParse(cx, vText)
			if pv.err != "" || pv.redir != pm.redir || strip(pv.tree).String() != strip(pm.tree).String() {
				mu.Lock()
				c.Fail(vh.Failure{Kind: "oracle", What: "the same tokens separated by other white space (tab, blanks, backslash-newline) group differently or are rejected",
					Case: oracleCase{cx.name, want, cx.pre + vText + cx.post, cx.pre + minText + cx.post, class}, Got: pv.String(), Want: pm.String()})
				mu.Unlock()
				break
			}
		}
	}
	return
}

var randAlphabet = []string{"n1", "n2", "v0", "v1", "v2", "v10", "v11", "s1", "(", ")", "[", "]", "?", ":", "=", "+=", "^=", "||", "&&", "in",
	"~", "!~", "==", "<", ">", ">=", "+", "-", "*", "%", "^", "!", "++", "--", "$", "getline", "|", ">>"}

func randomTokens(c *vh.Ctx) []string {
	n := 1 + c.Rng.Intn(9)
	var ws []string
	for len(ws) < n {
		var w string
		if c.Rng.Intn(3) == 0 {
			w = []string{"n1", "v0", "v1", "v10", "(", ")"}[c.Rng.Intn(6)]
		} else {
			w = randAlphabet[c.Rng.Intn(len(randAlphabet))]
		}
		ws = append(ws, w)
		if (w == "&&" || w == "||" || w == "?" || w == ":") && c.Rng.Intn(4) == 0 {
			ws = append(ws, "nl")
		}
	}
	return ws
}

// mutateTokens: a valid rendering with one token replaced, deleted, inserted or two swapped
func mutateTokens(c *vh.Ctx, ws []string) []string {
	ws = append([]string{}, ws...)
	if len(ws) == 0 {
		return ws
	}
	i := c.Rng.Intn(len(ws))
	r := randAlphabet[c.Rng.Intn(len(randAlphabet))]
	switch c.Rng.Intn(4) {
	case 0:
		ws[i] = r
	case 1:
		ws = append(ws[:i], ws[i+1:]...)
	case 2:
		ws = append(ws[:i], append([]string{r}, ws[i:]...)...)
	default:
		j := c.Rng.Intn(len(ws))
		ws[i], ws[j] = ws[j], ws[i]
	}
	return ws
}

// isG04_1 is the class predicate of finding G04-1: the tree has a `~` / `!~` whose right operand is a larger
// expression that starts with a regex literal (`x ~ /r/ < 2`, `x ~ /r/ y`): `_match` hands a regex literal after the
// operator to `regexStr`, which takes it as the complete right operand, so the table's minimal spelling is rejected.
func isG04_1(e *E) bool {
	startsWithRegex := func(r *E) bool { return r.K != "re" && leftmost(r).K == "re" }
	if e.K == "bin" && (e.Op == "~" || e.Op == "!~") && startsWithRegex(e.Kids[1]) && e.Kids[1].prec() >= 7 {
		return true
	}
	// the same `regexStr` entry reads the regex arguments of sub, gsub, match and split
	if e.K == "call" {
		switch {
		case (e.Op == "sub" || e.Op == "gsub") && len(e.Kids) > 0 && startsWithRegex(e.Kids[0]),
			e.Op == "match" && len(e.Kids) > 1 && startsWithRegex(e.Kids[1]),
			e.Op == "split" && len(e.Kids) > 2 && startsWithRegex(e.Kids[2]):
			return true
		}
	}
	for _, k := range e.Kids {
		if isG04_1(k) {
			return true
		}
	}
	return false
}

// leftmost: the operand with which the minimal rendering of e starts
func leftmost(e *E) *E {
	switch e.K {
	case "bin", "cond", "asg", "in":
		return leftmost(e.Kids[0])
	case "incr":
		if !e.Pre {
			return leftmost(e.Kids[0])
		}
	case "getline":
		if !e.Kids[0].isNil() {
			return leftmost(e.Kids[0])
		}
	}
	return e
}

// ---- correspondence ---------------------------------------------------------------------------------------------

type corrCase struct {
	cx    context
	toks  []string
	class string
	real  *parsed // already parsed by the oracle stage
}

// modelAnswer: what the Lean model must say for the real outcome; "" = not comparable (resolver rejection, shapes outside
// the model)
func expectFromReal(cx context, p parsed) string {
	if p.panicked {
		return "PANIC"
	}
	if p.err != "" {
		if p.resolver || strings.HasPrefix(p.err, "shape") {
			return ""
		}
		return "reject"
	}
	s := p.tree.String()
	if cx.pc {
		s = "(print " + s + " " + orDash(p.redir) + " " + p.dest.String() + ")"
	}
	if strings.Contains(s, "?") {
		return "" // node kinds outside the model (regex, calls, multi-index …)
	}
	return "ok " + s
}

func orDash(s string) string {
	if s == "" {
		return "-"
	}
	return s
}

func modelRequest(cx context, toks []string) string {
	cmd := "parse 0 "
	if cx.pc {
		cmd = "print 1 "
	}
	return cmd + strings.Join(toks, " ") + " " + cx.term
}

// normalise the model's answer: accepted only when exactly the terminator is left
func modelOutcome(ans string) string {
	switch {
	case strings.HasPrefix(ans, "ok 1 "):
		return "ok " + ans[5:]
	case strings.HasPrefix(ans, "ok "):
		return "reject"
	case ans == "err syntax":
		return "reject"
	case ans == "err unsupported", ans == "bad-token":
		return "" // outside the model: regex literals, builtin calls (the implementation-side oracle still covers them)
	}
	return "BAD-ANSWER " + ans
}

func runCorr(c *vh.Ctx, cases []corrCase) {
	if !c.HasLean() || len(cases) == 0 {
		return
	}
	reals := make([]parsed, len(cases))
	vh.Parallel(len(cases), func(i int) {
		if cases[i].real != nil {
			reals[i] = *cases[i].real
		} else {
			reals[i] = realParse(cases[i].cx, tokText(cases[i].toks))
		}
	})
	reqs := make([]string, len(cases))
	for i, k := range cases {
		reqs[i] = modelRequest(k.cx, k.toks)
	}
	answers := c.LeanBatch(reqs)
	for i, k := range cases {
		want := expectFromReal(k.cx, reals[i])
		got := modelOutcome(answers[i])
		if want == "" || got == "" {
			c.Hit("corr-skipped:" + k.class)
			continue
		}
		c.Trace()
		if strings.HasPrefix(want, "ok") {
			c.Hit("corr-accepted:" + k.class)
		} else {
			c.Hit("corr-rejected:" + k.class)
		}
		if got != want {
			c.Fail(vh.Failure{Kind: "correspondence", What: "Lean parseExpr and parser.ParseProgram disagree on a token list",
				Case: map[string]interface{}{"ctx": k.cx.name, "tokens": strings.Join(k.toks, " "), "src": k.cx.pre + tokText(k.toks) + k.cx.post, "class": k.class, "request": reqs[i]},
				Got:  "model: " + got, Want: "real: " + want})
		}
	}
}

// renderer correspondence: the model's renderMin/renderFull of the stripped parse of `full` equal ours
func runRenderCorr(c *vh.Ctx, trees []genTree) {
	if !c.HasLean() {
		return
	}
	var reqs, wants []string
	var which []int
	for i, t := range trees {
		for _, pc := range []bool{false, true} {
			full := strings.Join(render(grpF(t.e)), " ")
			p := "0 "
			if pc {
				p = "1 "
			}
			reqs = append(reqs, "min "+p+full, "full "+p+full)
			wants = append(wants, "ok "+strings.Join(render(addMin(pc, t.e)), " "), "ok "+full)
			which = append(which, i, i)
		}
	}
	answers := c.LeanBatch(reqs)
	for i := range reqs {
		if answers[i] == "bad-token" || answers[i] == "err unsupported" {
			c.Hit("render-corr-skipped")
			continue // regex literals and builtin calls are outside the model
		}
		c.Trace()
		if answers[i] != wants[i] {
			c.Fail(vh.Failure{Kind: "correspondence", What: "Lean renderMin/renderFull differs from the harness renderer",
				Case: map[string]interface{}{"tree": trees[which[i]].e.String(), "request": reqs[i]}, Got: answers[i], Want: wants[i]})
		}
	}
	c.HitN("render-corr", len(reqs))
}

// builderFor names, for every token that starts a primary expression or continues a concatenation in the parser
// (regenerated facts: Generated/C04Levels.lean), the tree builder(s) that put this token first in an operand. The check
// below makes the builder set complete by construction: a new primary() case or start token without a builder fails.
var builderFor = map[string]string{
	"NUMBER": "leaf", "STRING": "string", "NAME": "leaf", "DIV": "regex", "DIV_ASSIGN": "regex (covers /=…/ only through /r/)", "DOLLAR": "fld", "AT": "nfld",
	"NOT": "un!", "ADD": "un+", "SUB": "un-", "INCR": "pre++", "DECR": "pre--", "LPAREN": "grp (every parenthesis written by the renderers)",
	"GETLINE": "getline",
	"F_SUB":   "call-sub", "F_GSUB": "call-gsub", "F_SPLIT": "call-split", "F_MATCH": "call-match", "F_RAND": "call-rand", "F_SRAND": "call-srand",
	"F_LENGTH": "call-length", "F_SUBSTR": "call-substr", "F_SPRINTF": "call-sprintf", "F_FFLUSH": "call-fflush", "F_COS": "call-cos", "F_SIN": "call-sin",
	"F_EXP": "call-exp", "F_LOG": "call-log", "F_SQRT": "call-sqrt", "F_INT": "call-int", "F_TOLOWER": "call-tolower", "F_TOUPPER": "call-toupper",
	"F_SYSTEM": "call-system", "F_CLOSE": "call-close", "F_ATAN2": "call-atan2", "F_INDEX": "call-index",
	"FIRST_FUNC": "call-*", "LAST_FUNC": "call-*", "CONCAT": "(the operator itself)",
}

var leanListRe = regexp.MustCompile(`"([A-Z_0-9]+)"`)

// checkBuilderCoverage reads the regenerated facts and reports every primary()/concat-start token without a builder
func checkBuilderCoverage(c *vh.Ctx) {
	b, err := os.ReadFile("/verif/lean/GoawkModel/Generated/C04Levels.lean")
	if err != nil {
		c.Note("generated facts not readable: builder coverage not checked")
		return
	}
	have := map[string]bool{}
	for _, bl := range builders() {
		have[bl.name] = true
	}
	text := string(b)
	var toks []string
	if i := strings.Index(text, "def primaryCaseHeads"); i >= 0 {
		line := text[i:]
		line = line[:strings.Index(line, "\n")]
		for _, m := range leanListRe.FindAllStringSubmatch(line, -1) {
			toks = append(toks, m[1])
		}
	}
	if i := strings.Index(text, `("concat",`); i >= 0 {
		line := text[i:]
		line = line[:strings.Index(line, "\n")]
		for _, m := range leanListRe.FindAllStringSubmatch(line, -1) {
			toks = append(toks, m[1])
		}
	}
	if len(toks) < 20 {
		c.Fail(vh.Failure{Kind: "correspondence", What: "the regenerated primary()/concat-start token lists are missing or too short: builder coverage cannot be established", Case: len(toks)})
		return
	}
	for _, t := range toks {
		name, ok := builderFor[t]
		if ok && strings.HasPrefix(name, "call-") && name != "call-*" && !have[name] {
			ok = false
		}
		c.Hit("builder-coverage")
		if !ok {
			c.Fail(vh.Failure{Kind: "correspondence", What: "a token that starts a primary expression or continues a concatenation in parser.go has no tree builder in the harness",
				Case: map[string]string{"token": t}, Got: "no builder", Want: "a builder that puts " + t + " first in an operand"})
		}
	}
}

func run(c *vh.Ctx) {
	c.Rule("a case is (expression tree, context): the tree is rendered with only the parentheses the POSIX table requires and fully " +
		"parenthesised, both are parsed by the real parser in the context (statement / print argument / pattern / if-condition) and the trees " +
		"are compared modulo GroupingExpr and with the intended tree; non-trivial = the tree has at least two operators. Trees: every " +
		"operator alone, every ordered pair and triple (chains) of operators in every operand position, forks, then random trees to depth 8. " +
		"Correspondence: Lean parseExpr vs the real tree on the same token lists, on renderings with random parentheses dropped, on " +
		"mutated renderings and on random token lists (accept/reject and tree); Lean renderMin/renderFull vs the harness renderers.")
	var mu sync.Mutex
	var corr []corrCase
	checkBuilderCoverage(c)

	// 1. fixed corpus: the witness of the repaired finding F06, the documented deviations, past surprises
	type fixed struct {
		ctx  string
		toks string
		want string // expected real outcome in model notation ("" = only compared with the model)
	}
	corpus := []fixed{
		{"print", "n1 ? n2 : n3 > s1", "ok (print (cond n1 n2 n3) > s1)"},      // F06 (fixed): the > after ?: in print is a redirect
		{"print", "n1 ? n2 : n3 | s1", "ok (print (cond n1 n2 n3) | s1)"},      // F06
		{"print", "n1 > n2", "ok (print n1 > n2)"},                             // print_gt_is_redirect
		{"print", "n1 > n2 > n3", "ok (print n1 > (bin > n2 n3))"},             //
		{"print", "( n1 > n2 ) > s3", "ok (print (grp (bin > n1 n2)) > s3)"},   //
		{"print", "v0 = n1 > s2", "ok (print (asg = v0 n1) > s2)"},             //
		{"print", "n1 , n2", ""},                                               //
		{"plain", "s1 s2 | getline", "ok (getline (bin cat s1 s2) nil nil)"},   // pipe_getline_looser_than_concat
		{"plain", "s1 s2 | getline v0", "ok (getline (bin cat s1 s2) v0 nil)"}, //
		{"plain", "s1 | getline v0 + n1", ""},                                  //
		{"plain", "s1 | getline | getline", ""},                                //
		{"plain", "n1 < n2 | getline", ""},                                     //
		{"plain", "n1 && v0 = n2", "ok (bin && n1 (asg = v0 n2))"},             // lvalue back-tracking (issue #166), beyond the table
		{"plain", "n1 < v0 = n2", "ok (bin < n1 (asg = v0 n2))"},               //
		{"plain", "n1 + v0 = n2", "reject"},                                    //
		{"plain", "n1 ~ v0 = n2", "ok (bin ~ n1 (asg = v0 n2))"},               //
		{"plain", "$ $ v0 ++", "ok (fld (incr post ++ (fld v0)))"},             // the `$$x++` = `$($x++)` rule
		{"plain", "$ v0 ++", "ok (incr post ++ (fld v0))"},                     //
		{"plain", "- v0 ^ n2", "ok (un - (bin ^ v0 n2))"},                      //
		{"plain", "n2 ^ - v0", "ok (bin ^ n2 (un - v0))"},                      //
		{"plain", "n2 ^ n3 ^ n4", "ok (bin ^ n2 (bin ^ n3 n4))"},               //
		{"plain", "! v0 ~ v1", "ok (bin ~ (un ! v0) v1)"},                      //
		{"plain", "n1 - n2 - n3", "ok (bin - (bin - n1 n2) n3)"},               //
		{"plain", "n1 < n2 < n3", "reject"},                                    // relational operators do not associate
		{"plain", "n1 ~ n2 ~ n3", "reject"},                                    //
		{"plain", "v0 = v1 = n3", "ok (asg = v0 (asg = v1 n3))"},               //
		{"plain", "n1 ? n2 : n3 ? n4 : n5", "ok (cond n1 n2 (cond n3 n4 n5))"}, //
		{"plain", "v0 in v10 in v11", ""},                                      //
		{"plain", "n1 n2 n3", "ok (bin cat (bin cat n1 n2) n3)"},               //
		{"plain", "n1 - n2", "ok (bin - n1 n2)"},                               //
		{"plain", "n1 ! n2", "ok (bin cat n1 (un ! n2))"},
		{"plain", "v0 ~ /r1/ < n2", "ok (bin ~ v0 (bin < re1 n2))"},                              // G04-1 (recorded): a regex literal after ~ is the whole operand
		{"plain", "v0 ~ ( /r1/ < n2 )", ""},                                                      //
		{"plain", "s1 @ s2", "ok (bin cat s1 (nfld s2))"},                                        // seeded C04-n2: `@` continues a concatenation
		{"print", "@ s1 s2 @ s3", "ok (print (bin cat (bin cat (nfld s1) s2) (nfld s3)) - nil)"}, //
		{"plain", "v0 = s1 @ s2", "ok (asg = v0 (bin cat s1 (nfld s2)))"},                        //
		{"plain", "@ $ v0 ++", ""},                                                               //
		{"plain", "$ @ v0 ++", ""},                                                               //                      //
		{"plain", "v0 ++ v1", ""},                                                                //
		{"plain", "n1 ++ v1", ""},                                                                //
		{"plain", "n1 && nl n2 || nl n3", "ok (bin || (bin && n1 n2) n3)"},                       //
		{"plain", "n1 ? nl n2 : nl n3", "ok (cond n1 n2 n3)"},                                    //
		{"plain", "getline v0 < s1 s2", ""},                                                      //
		{"plain", "getline < s1 + n2", ""},                                                       //
		{"plain", "$ - v0 ^ n2", ""},                                                             //
		{"plain", "$ ++ v0", ""},                                                                 //
		{"plain", "++ $ v0 ++", ""},                                                              //
		{"plain", "- - v0", "ok (un - (un - v0))"},                                               //
		{"plain", "- -- v0", "ok (un - (incr pre -- v0))"},                                       //
		{"cond", "v0 = n1", "ok (asg = v0 n1)"},                                                  //
		{"pattern", "n1 > n2", "ok (bin > n1 n2)"},                                               //
	}
	cxByName := map[string]context{}
	for _, cx := range contexts {
		cxByName[cx.name] = cx
	}
	for _, f := range corpus {
		cx := cxByName[f.ctx]
		toks := strings.Fields(f.toks)
		p := realParse(cx, tokText(toks))
		got := expectFromReal(cx, p)
		c.OracleCase()
		c.Eval("corpus:"+f.ctx+":"+f.toks, true)
		c.Hit("corpus")
		if f.want != "" && got != f.want {
			finding := ""
			if strings.Contains(f.toks, "~ /r1/ <") && got == "reject" {
				finding = "G04-1" // the witness of the recorded finding, replayed on every run
			}
			c.Fail(vh.Failure{Kind: "oracle", Finding: finding, What: "fixed corpus: the real parser does not group a witness expression as the table (or the documented rule) says",
				Case: oracleCase{f.ctx, f.want, cx.pre + tokText(toks) + cx.post, "", "corpus"}, Got: got, Want: f.want})
		}
		corr = append(corr, corrCase{cx, toks, "corpus", nil})
	}

	// 2. exhaustive pairs / triples / forks, 3. random deeper trees
	trees := enumerate(c)
	nEnum := len(trees)
	bs := builders()
	for i, n := 0, c.N(1500, 80000); i < n; i++ {
		trees = append(trees, genTree{randomTree(c, bs, &leafGen{}, 2+c.Rng.Intn(7), false), "random"})
	}
	c.Note(fmt.Sprintf("%d enumerated trees (%d builders), %d random trees, 5 contexts each", nEnum, len(bs), len(trees)-nEnum))

	type out struct {
		min, full [5][]string
		pm, pf    [5]parsed
	}
	outs := make([]out, len(trees))
	vh.Parallel(len(trees), func(i int) {
		for k, cx := range contexts {
			outs[i].min[k], outs[i].full[k], outs[i].pm[k], outs[i].pf[k] = checkTree(c, &mu, cx, trees[i].e, trees[i].class)
		}
	})
	for i, t := range trees {
		key := t.e.String()
		for range contexts {
			c.OracleCase()
		}
		c.Eval(key, t.e.size() > 3)
		c.Hit("tree:" + t.class)
		c.Hit("root:" + t.e.K)
		if i%997 == 0 {
			c.Sample(map[string]string{"tree": key, "min": tokText(outs[i].min[1]), "full": tokText(outs[i].full[1])})
		}
	}

	// 4. correspondence with the Lean model
	if c.HasLean() {
		stride := 1
		for i, t := range trees {
			if t.class == "triple" && i%stride != 0 {
				continue
			}
			k := i % 5
			if t.class != "triple" {
				for k = 0; k < 5; k++ {
					corr = append(corr, corrCase{contexts[k], outs[i].min[k], "min", &outs[i].pm[k]}, corrCase{contexts[k], outs[i].full[k], "full", &outs[i].pf[k]})
				}
				continue
			}
			k2 := (k + 1) % 5
			corr = append(corr, corrCase{contexts[k], outs[i].min[k], "min", &outs[i].pm[k]}, corrCase{contexts[k2], outs[i].full[k2], "full", &outs[i].pf[k2]})
		}
		for i, n := 0, c.N(2000, 120000); i < n; i++ {
			t := trees[c.Rng.Intn(len(trees))]
			cx := contexts[c.Rng.Intn(3)] // not the if-condition: its closing parenthesis can be supplied by the random tokens
			d := render(dropParens(c, grpF(t.e)))
			corr = append(corr, corrCase{cx, d, "parens-dropped", nil})
			corr = append(corr, corrCase{cx, mutateTokens(c, render(addMin(cx.pc, t.e))), "mutated", nil})
			corr = append(corr, corrCase{cx, randomTokens(c), "random-tokens", nil})
		}
		runCorr(c, corr)
		sel := trees
		if !c.Thorough() {
			sel = nil
			for i := range trees {
				if i%8 == int(c.Seed%8) {
					sel = append(sel, trees[i])
				}
			}
		}
		runRenderCorr(c, sel)
	}
}
