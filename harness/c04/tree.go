package main

// Trees, the POSIX table, the two renderers (tree transformations that insert Grouping nodes, mirroring
// GoawkModel.C04.addMin / addFull), token rendering and the conversion of the real syntax tree (by reflection) into
// the same S-expression the Lean model prints.

import (
	"fmt"
	"reflect"
	"strconv"
	"strings"
)

// E is an expression tree. K: nil num var str grp un bin cond asg in incr fld idx getline
type E struct {
	K    string
	Op   string // un: - + ! ; bin: || && ~ !~ == != < <= > >= cat + - * / % ^ ; asg: = += …; incr: ++ --
	I    int    // num/var/str id; in/idx: array id
	Pre  bool   // incr
	Kids []*E
}

func leafN(i int) *E { return &E{K: "num", I: i} }
func leafV(i int) *E { return &E{K: "var", I: i} }
func leafS(i int) *E { return &E{K: "str", I: i} }
func nilE() *E       { return &E{K: "nil"} }
func grpE(e *E) *E   { return &E{K: "grp", Kids: []*E{e}} }
func un(op string, e *E) *E {
	return &E{K: "un", Op: op, Kids: []*E{e}}
}
func bin(op string, l, r *E) *E { return &E{K: "bin", Op: op, Kids: []*E{l, r}} }
func cond(c, t, f *E) *E        { return &E{K: "cond", Kids: []*E{c, t, f}} }
func asg(op string, l, r *E) *E { return &E{K: "asg", Op: op, Kids: []*E{l, r}} }
func inE(e *E, arr int) *E      { return &E{K: "in", I: arr, Kids: []*E{e}} }
func incr(pre bool, op string, e *E) *E {
	return &E{K: "incr", Op: op, Pre: pre, Kids: []*E{e}}
}
func fld(e *E) *E                { return &E{K: "fld", Kids: []*E{e}} }
func nfld(e *E) *E               { return &E{K: "nfld", Kids: []*E{e}} }
func leafR(i int) *E             { return &E{K: "re", I: i} }
func call(fn string, k ...*E) *E { return &E{K: "call", Op: fn, Kids: k} }
func idx(arr int, i *E) *E       { return &E{K: "idx", I: arr, Kids: []*E{i}} }
func getl(c, t, f *E) *E         { return &E{K: "getline", Kids: []*E{c, t, f}} }
func (e *E) isNil() bool         { return e.K == "nil" }
func (e *E) isAtom() bool {
	return e.K == "num" || e.K == "var" || e.K == "str" || e.K == "nil"
}
func (e *E) isLValue() bool { return e.K == "var" || e.K == "idx" || e.K == "fld" }

// S-expression, identical to GoawkModel.Drv.C04.showTree
func (e *E) String() string {
	switch e.K {
	case "nil":
		return "nil"
	case "num":
		return fmt.Sprintf("n%d", e.I)
	case "var":
		return fmt.Sprintf("v%d", e.I)
	case "str":
		return fmt.Sprintf("s%d", e.I)
	case "grp":
		return "(grp " + e.Kids[0].String() + ")"
	case "un":
		return "(un " + e.Op + " " + e.Kids[0].String() + ")"
	case "bin":
		return "(bin " + e.Op + " " + e.Kids[0].String() + " " + e.Kids[1].String() + ")"
	case "cond":
		return "(cond " + e.Kids[0].String() + " " + e.Kids[1].String() + " " + e.Kids[2].String() + ")"
	case "asg":
		return "(asg " + e.Op + " " + e.Kids[0].String() + " " + e.Kids[1].String() + ")"
	case "in":
		return "(in " + e.Kids[0].String() + fmt.Sprintf(" v%d)", e.I)
	case "incr":
		p := "post"
		if e.Pre {
			p = "pre"
		}
		return "(incr " + p + " " + e.Op + " " + e.Kids[0].String() + ")"
	case "fld":
		return "(fld " + e.Kids[0].String() + ")"
	case "nfld":
		return "(nfld " + e.Kids[0].String() + ")"
	case "re":
		return fmt.Sprintf("re%d", e.I)
	case "call":
		s := "(call " + e.Op
		for _, k := range e.Kids {
			s += " " + k.String()
		}
		return s + ")"
	case "idx":
		return fmt.Sprintf("(idx v%d ", e.I) + e.Kids[0].String() + ")"
	case "getline":
		return "(getline " + e.Kids[0].String() + " " + e.Kids[1].String() + " " + e.Kids[2].String() + ")"
	}
	return "(?" + e.K + ")"
}

func strip(e *E) *E {
	if e.K == "grp" {
		return strip(e.Kids[0])
	}
	if len(e.Kids) == 0 {
		return e
	}
	c := *e
	c.Kids = make([]*E, len(e.Kids))
	for i, k := range e.Kids {
		c.Kids[i] = strip(k)
	}
	return &c
}

func (e *E) size() int {
	n := 1
	for _, k := range e.Kids {
		n += k.size()
	}
	return n
}

// ---- the POSIX table (levels 1 assignment … 15 grouping), as in the property statement ----

func binPrec(op string) int {
	switch op {
	case "||":
		return 3
	case "&&":
		return 4
	case "~", "!~":
		return 6
	case "==", "!=", "<", "<=", ">", ">=":
		return 7
	case "cat":
		return 8
	case "+", "-":
		return 9
	case "*", "/", "%":
		return 10
	case "^":
		return 12
	}
	panic("binPrec " + op)
}

// operand levels: left-assoc (p, p+1), right-assoc (p+1, p), non-assoc (p+1, p+1)
func binSides(op string) (int, int) {
	p := binPrec(op)
	switch {
	case op == "^":
		return p + 1, p
	case p == 6 || p == 7:
		return p + 1, p + 1
	}
	return p, p + 1
}

func (e *E) prec() int {
	switch e.K {
	case "asg":
		return 1
	case "cond":
		return 2
	case "bin":
		return binPrec(e.Op)
	case "in":
		return 5
	case "getline":
		return 1 // not in the table: always parenthesised as an operand
	case "un":
		return 11
	case "incr":
		return 13
	case "fld", "nfld":
		return 14
	}
	return 15
}

func printSpecial(e *E) bool {
	return (e.K == "bin" && e.Op == ">") || (e.K == "getline" && !e.Kids[0].isNil())
}

// addMin mirrors GoawkModel.C04.addMin: insert exactly the Grouping nodes the table requires.
func addMin(pc bool, e *E) *E {
	switch e.K {
	case "un":
		return un(e.Op, fitMin(pc, 11, e.Kids[0]))
	case "bin":
		l, r := binSides(e.Op)
		if pc && printSpecial(e) {
			return grpE(bin(e.Op, fitMin(false, l, e.Kids[0]), fitMin(false, r, e.Kids[1])))
		}
		rr := fitMin(pc, r, e.Kids[1])
		if e.Op == "cat" {
			if h := render(rr)[0]; h == "+" || h == "-" || h == "++" || h == "--" || strings.HasPrefix(h, "/") {
				// `a -b` is a subtraction, `a ++b` a post-increment, `a /re/` a division
				rr = grpE(addMin(false, e.Kids[1]))
			}
		}
		return bin(e.Op, fitMin(pc, l, e.Kids[0]), rr)
	case "cond":
		return cond(fitMin(pc, 3, e.Kids[0]), addMin(false, e.Kids[1]), fitMin(pc, 2, e.Kids[2]))
	case "asg":
		return asg(e.Op, addMin(false, e.Kids[0]), addMin(pc, e.Kids[1]))
	case "in":
		return inE(fitMin(pc, 5, e.Kids[0]), e.I)
	case "incr":
		k := e.Kids[0]
		if !e.Pre && k.K == "fld" && (k.Kids[0].K == "fld" || k.Kids[0].K == "nfld") {
			// `$$x++` is `$($x++)`: the operand of `$` under a post-increment must be closed
			return incr(false, e.Op, fld(grpE(addMin(false, k.Kids[0]))))
		}
		return incr(e.Pre, e.Op, addMin(false, k))
	case "fld":
		return fld(fitMin(false, 14, e.Kids[0]))
	case "nfld":
		return nfld(fitMin(false, 14, e.Kids[0]))
	case "call":
		ks := make([]*E, len(e.Kids))
		for i, k := range e.Kids {
			ks[i] = addMin(false, k)
		}
		return call(e.Op, ks...)
	case "idx":
		return idx(e.I, addMin(false, e.Kids[0]))
	case "getline":
		g := getl(fitMin(false, 8, e.Kids[0]), addMin(false, e.Kids[1]), fitMin(false, 14, e.Kids[2]))
		if pc && !e.Kids[0].isNil() {
			return grpE(g)
		}
		return g
	case "grp":
		return grpE(addMin(false, e.Kids[0]))
	}
	return e
}

func fitMin(pc bool, q int, e *E) *E {
	if q <= e.prec() {
		return addMin(pc, e)
	}
	return grpE(addMin(false, e))
}

// addFull mirrors GoawkModel.C04.addFull / grp: every non-atomic sub-expression parenthesised.
func addFull(e *E) *E {
	switch e.K {
	case "un":
		return un(e.Op, grpF(e.Kids[0]))
	case "bin":
		return bin(e.Op, grpF(e.Kids[0]), grpF(e.Kids[1]))
	case "cond":
		return cond(grpF(e.Kids[0]), grpF(e.Kids[1]), grpF(e.Kids[2]))
	case "asg":
		return asg(e.Op, addFull(e.Kids[0]), grpF(e.Kids[1]))
	case "in":
		return inE(grpF(e.Kids[0]), e.I)
	case "incr":
		return incr(e.Pre, e.Op, addFull(e.Kids[0]))
	case "fld":
		return fld(grpF(e.Kids[0]))
	case "nfld":
		return nfld(grpF(e.Kids[0]))
	case "call":
		ks := make([]*E, len(e.Kids))
		for i, k := range e.Kids {
			ks[i] = grpF(k)
		}
		return call(e.Op, ks...)
	case "idx":
		return idx(e.I, grpF(e.Kids[0]))
	case "getline":
		return getl(grpF(e.Kids[0]), addFull(e.Kids[1]), grpF(e.Kids[2]))
	case "grp":
		return grpE(addFull(e.Kids[0]))
	}
	return e
}

func grpF(e *E) *E {
	if e.isAtom() {
		return e
	}
	return grpE(addFull(e))
}

// render: token words of a tree (parentheses from grp nodes only), as GoawkModel.C04.render
func render(e *E) []string {
	switch e.K {
	case "nil":
		return nil
	case "num":
		return []string{fmt.Sprintf("n%d", e.I)}
	case "var":
		return []string{fmt.Sprintf("v%d", e.I)}
	case "str":
		return []string{fmt.Sprintf("s%d", e.I)}
	case "grp":
		return append(append([]string{"("}, render(e.Kids[0])...), ")")
	case "un":
		return append([]string{e.Op}, render(e.Kids[0])...)
	case "bin":
		r := append([]string{}, render(e.Kids[0])...)
		if e.Op != "cat" {
			r = append(r, e.Op)
		}
		return append(r, render(e.Kids[1])...)
	case "cond":
		r := append([]string{}, render(e.Kids[0])...)
		r = append(r, "?")
		r = append(r, render(e.Kids[1])...)
		r = append(r, ":")
		return append(r, render(e.Kids[2])...)
	case "asg":
		r := append([]string{}, render(e.Kids[0])...)
		r = append(r, e.Op)
		return append(r, render(e.Kids[1])...)
	case "in":
		r := append([]string{}, render(e.Kids[0])...)
		return append(r, "in", fmt.Sprintf("v%d", e.I))
	case "incr":
		if e.Pre {
			return append([]string{e.Op}, render(e.Kids[0])...)
		}
		return append(append([]string{}, render(e.Kids[0])...), e.Op)
	case "fld":
		return append([]string{"$"}, render(e.Kids[0])...)
	case "nfld":
		return append([]string{"@"}, render(e.Kids[0])...)
	case "re":
		return []string{fmt.Sprintf("/r%d/", e.I)}
	case "call":
		r := []string{e.Op, "("}
		for i, k := range e.Kids {
			if i > 0 {
				r = append(r, ",")
			}
			r = append(r, render(k)...)
		}
		return append(r, ")")
	case "idx":
		r := []string{fmt.Sprintf("v%d", e.I), "["}
		r = append(r, render(e.Kids[0])...)
		return append(r, "]")
	case "getline":
		var r []string
		if !e.Kids[0].isNil() {
			r = append(r, render(e.Kids[0])...)
			r = append(r, "|")
		}
		r = append(r, "getline")
		r = append(r, render(e.Kids[1])...)
		if !e.Kids[2].isNil() {
			r = append(r, "<")
			r = append(r, render(e.Kids[2])...)
		}
		return r
	}
	panic("render " + e.K)
}

// arrays have ids >= 10
func nameText(i int) string {
	if i >= 10 {
		return fmt.Sprintf("A%d", i)
	}
	return fmt.Sprintf("x%d", i)
}

// tokText turns token words into AWK source (one blank between tokens)
func tokText(ws []string) string {
	var b strings.Builder
	for k, w := range ws {
		if k > 0 {
			b.WriteByte(' ')
		}
		switch {
		case len(w) > 1 && w[0] == 'n' && w[1] >= '0' && w[1] <= '9':
			b.WriteString(w[1:])
		case len(w) > 1 && w[0] == 'v' && w[1] >= '0' && w[1] <= '9':
			i, _ := strconv.Atoi(w[1:])
			b.WriteString(nameText(i))
		case len(w) > 1 && w[0] == 's' && w[1] >= '0' && w[1] <= '9':
			b.WriteString(`"` + w + `"`)
		case w == "nl":
			b.WriteString("\n")
		default:
			b.WriteString(w)
		}
	}
	return b.String()
}

// tokTextSep is tokText with the single blank between two tokens replaced by another piece of white space the lexer must treat
// alike: a tab, several blanks, a backslash-newline continuation (alone, padded, or with CR LF). The choice is a function of the
// token list and the salt only, so a replay reproduces it.
func tokTextSep(ws []string, salt uint32) string {
	seps := []string{" ", "\t", "  ", "\\\n", " \\\n ", "\\\r\n", " \t "}
	h := uint32(2166136261) ^ salt
	for _, w := range ws {
		for i := 0; i < len(w); i++ {
			h = (h ^ uint32(w[i])) * 16777619
		}
	}
	plain := tokText(ws)
	var b strings.Builder
	// walk the plain text and the token list together: every blank that tokText put BETWEEN tokens is replaced
	pos := 0
	for k, w := range ws {
		_ = w
		if k > 0 {
			h = h*1664525 + 1013904223
			b.WriteString(seps[(h>>16)%uint32(len(seps))])
			pos++ // the blank
		}
		piece := tokText(ws[k : k+1])
		b.WriteString(piece)
		pos += len(piece)
	}
	if pos != len(plain) {
		return plain
	}
	return b.String()
}

// ---- the real syntax tree, by reflection (internal/ast types cannot be imported from here) ----

func conv(v reflect.Value) *E {
	for v.IsValid() && (v.Kind() == reflect.Interface || v.Kind() == reflect.Ptr) {
		if v.IsNil() {
			return nilE()
		}
		v = v.Elem()
	}
	if !v.IsValid() {
		return nilE()
	}
	f := func(n string) reflect.Value { return v.FieldByName(n) }
	tokStr := func(n string) string { return fmt.Sprint(f(n).Interface()) }
	one := func(n string) *E {
		s := f(n)
		if s.Len() != 1 {
			return &E{K: "?multi"}
		}
		return conv(s.Index(0))
	}
	id := func(s string) int {
		i, err := strconv.Atoi(s[1:])
		if err != nil {
			return -1
		}
		return i
	}
	switch v.Type().Name() {
	case "NumExpr":
		x := f("Value").Float()
		if x != float64(int(x)) {
			return &E{K: "?num"}
		}
		return leafN(int(x))
	case "StrExpr":
		if f("Regex").Bool() {
			return leafR(id(f("Value").String()))
		}
		s := f("Value").String()
		if len(s) < 2 {
			return &E{K: "?str"}
		}
		return leafS(id(s))
	case "VarExpr":
		return leafV(id(f("Name").String()))
	case "GroupingExpr":
		return grpE(conv(f("Expr")))
	case "UnaryExpr":
		return un(tokStr("Op"), conv(f("Value")))
	case "BinaryExpr":
		op := tokStr("Op")
		if op == "<concat>" {
			op = "cat"
		}
		return bin(op, conv(f("Left")), conv(f("Right")))
	case "CondExpr":
		return cond(conv(f("Cond")), conv(f("True")), conv(f("False")))
	case "AssignExpr":
		return asg("=", conv(f("Left")), conv(f("Right")))
	case "AugAssignExpr":
		return asg(tokStr("Op")+"=", conv(f("Left")), conv(f("Right")))
	case "InExpr":
		return inE(one("Index"), id(f("Array").String()))
	case "IncrExpr":
		return incr(f("Pre").Bool(), tokStr("Op"), conv(f("Expr")))
	case "FieldExpr":
		return fld(conv(f("Index")))
	case "NamedFieldExpr":
		return nfld(conv(f("Field")))
	case "RegExpr":
		return leafR(id(f("Regex").String()))
	case "CallExpr":
		c := call(tokStr("Func"))
		for i := 0; i < f("Args").Len(); i++ {
			c.Kids = append(c.Kids, conv(f("Args").Index(i)))
		}
		return c
	case "IndexExpr":
		return idx(id(f("Array").String()), one("Index"))
	case "GetlineExpr":
		return getl(conv(f("Command")), conv(f("Target")), conv(f("File")))
	}
	return &E{K: "?" + v.Type().Name()}
}
