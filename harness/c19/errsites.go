package main

// Invalid programs with 2-5 independent error sites of every kind the parser and the resolver can raise, spread over several lines
// with random indentation (so that a later line's site can start at a smaller column than an earlier one, and the other way round).
// Whatever the front end reports for such a program, it must report the same message at the same position on every parse.

import (
	"fmt"
	"math/rand"
	"strings"
)

type errSite struct {
	kind  string
	where string // "stmt" (inside BEGIN), "action" (inside a pattern action), "top" (a top-level item)
	text  func(r *rand.Rand, k int) string
	stage int // 0 parser (aborts the parse at once), 1 end-of-parse check, 2 resolver
}

var errSites = []errSite{
	// end of parse: unused comma-separated groupings (positions kept in a map)
	{"multiexpr", "stmt", func(r *rand.Rand, k int) string { return fmt.Sprintf("x%d = (%d, %d)", k, k, k+1) }, 1},
	{"multiexpr3", "stmt", func(r *rand.Rand, k int) string { return fmt.Sprintf("y%d = 1 + (a%d, b%d, c%d)", k, k, k, k) }, 1},
	// resolver
	{"undefined-func", "stmt", func(r *rand.Rand, k int) string { return fmt.Sprintf("nofn%d(%d)", k, k) }, 2},
	{"too-many-args", "stmt", func(r *rand.Rand, k int) string { return fmt.Sprintf("one(1, %d)", k) }, 2},
	{"array-as-scalar", "stmt", func(r *rand.Rand, k int) string { return fmt.Sprintf("q%d[1] = 1; q%d = 2", k, k) }, 2},
	{"scalar-as-array", "stmt", func(r *rand.Rand, k int) string { return fmt.Sprintf("w%d = 1; delete w%d", k, k) }, 2},
	{"special-as-array", "stmt", func(r *rand.Rand, k int) string { return "NR[1] = 2" }, 2},
	{"pass-scalar-expr", "stmt", func(r *rand.Rand, k int) string { return fmt.Sprintf("arr(%d + 1)", k) }, 2},
	{"pass-mismatch", "stmt", func(r *rand.Rand, k int) string { return fmt.Sprintf("m%d = 1; arr(m%d)", k, k) }, 2},
	{"global-is-func", "stmt", func(r *rand.Rand, k int) string { return "one = 5" }, 2},
	{"conflict-in-func", "top", func(r *rand.Rand, k int) string { return fmt.Sprintf("function cf%d(a) { a[1]; a = 1 }", k) }, 2},
	{"dup-function", "top", func(r *rand.Rand, k int) string { return "function one(z) { return z }" }, 2},
	{"local-called", "top", func(r *rand.Rand, k int) string { return fmt.Sprintf("function lc%d(x) { x() }", k) }, 2},
	{"native-not-func", "stmt", func(r *rand.Rand, k int) string { return "notfn(1)" }, 2},
	// parser (the first one in source order ends the parse)
	{"dup-param", "top", func(r *rand.Rand, k int) string { return fmt.Sprintf("function dp%d(a, a) { }", k) }, 0},
	{"param-is-func", "top", func(r *rand.Rand, k int) string { return fmt.Sprintf("function pf%d(pf%d) { }", k, k) }, 0},
	{"bad-lvalue", "stmt", func(r *rand.Rand, k int) string { return fmt.Sprintf("%d = x", k) }, 0},
	{"bad-incr", "stmt", func(r *rand.Rand, k int) string { return fmt.Sprintf("++%d", k+1) }, 0},
	{"break-outside", "stmt", func(r *rand.Rand, k int) string { return "break" }, 0},
	{"continue-outside", "stmt", func(r *rand.Rand, k int) string { return "continue" }, 0},
	{"next-in-begin", "stmt", func(r *rand.Rand, k int) string { return "next" }, 0},
	{"nextfile-in-begin", "stmt", func(r *rand.Rand, k int) string { return "nextfile" }, 0},
	{"return-outside", "action", func(r *rand.Rand, k int) string { return "return 1" }, 0},
	{"syntax", "stmt", func(r *rand.Rand, k int) string { return fmt.Sprintf("x = %d +", k) }, 0},
	{"illegal-token", "stmt", func(r *rand.Rand, k int) string { return "x = `" }, 0},
	{"unterminated-string", "stmt", func(r *rand.Rand, k int) string { return "s = \"abc" }, 0},
}

// genErrSites builds one invalid program. maxStage limits the kinds (1: only end-of-parse and resolver sites, so that the map-backed
// end-of-parse check is what reports; 2: everything).
func genErrSites(r *rand.Rand, parserToo bool) (src string, kinds []string) {
	n := 2 + r.Intn(4)
	var lines []string
	lines = append(lines, "function one(p) { return p }", "function arr(a) { a[1] = 1 }")
	var sites []string
	for k := 0; k < n; k++ {
		var s errSite
		for {
			s = errSites[r.Intn(len(errSites))]
			if s.stage == 0 && !parserToo {
				continue
			}
			if s.stage == 1 || r.Intn(3) > 0 || parserToo { // favour the end-of-parse kinds a little
				break
			}
		}
		kinds = append(kinds, s.kind)
		indent := strings.Repeat(" ", r.Intn(14))
		body := s.text(r, k+1)
		switch s.where {
		case "top":
			sites = append(sites, indent+body)
		case "action":
			sites = append(sites, "/re/ {\n"+indent+body+"\n}")
		default:
			if r.Intn(2) == 0 {
				sites = append(sites, "BEGIN {\n"+indent+body+"\n}")
			} else {
				sites = append(sites, "END {\n"+strings.Repeat(" ", r.Intn(4))+"v = 1\n"+indent+body+"\n}")
			}
		}
	}
	r.Shuffle(len(sites), func(i, j int) { sites[i], sites[j] = sites[j], sites[i] })
	// sometimes put several statement sites into ONE block on different lines
	lines = append(lines, sites...)
	if r.Intn(2) == 0 {
		lines[0], lines[len(lines)-1] = lines[len(lines)-1], lines[0]
	}
	return strings.Join(lines, "\n") + "\n", kinds
}

// genMultiExprOnly: 2-5 unused groupings in one block, on different lines, columns in random order.
func genMultiExprOnly(r *rand.Rand) string {
	n := 2 + r.Intn(4)
	var sb strings.Builder
	sb.WriteString("BEGIN {\n")
	for k := 0; k < n; k++ {
		sb.WriteString(strings.Repeat(" ", r.Intn(20)))
		if r.Intn(3) == 0 {
			fmt.Fprintf(&sb, "z%d = 1; ", k)
		}
		fmt.Fprintf(&sb, "x%d = (%d, %d)\n", k, k, k+1)
	}
	sb.WriteString("}\n")
	return sb.String()
}
