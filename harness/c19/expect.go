package main

// Rendering of what the real resolver did in the vocabulary of the Lean driver's answers (shared by harness/c16 and harness/c19;
// the two copies are kept identical).

import (
	"fmt"
	"sort"
	"strings"

	"github.com/benhoyt/goawk/parser"
)

type parseResult struct {
	ok     bool
	msg    string
	line   int
	col    int
	types  string // DebugTypes output
	panic_ string
	prog   *parser.Program
}

// table parses DebugTypes output: scope -> var -> "type index"
func parseTable(s string) map[string]map[string]string {
	res := map[string]map[string]string{}
	scope := ""
	for _, ln := range strings.Split(s, "\n") {
		switch {
		case ln == "":
		case ln == "globals":
			scope = ""
			res[scope] = map[string]string{}
		case strings.HasPrefix(ln, "function "):
			scope = ln[len("function "):strings.IndexByte(ln, '(')]
			res[scope] = map[string]string{}
		case strings.HasPrefix(ln, "  "):
			parts := strings.Fields(ln)
			if len(parts) == 3 {
				res[scope][strings.TrimSuffix(parts[0], ":")] = parts[1] + " " + parts[2]
			}
		}
	}
	return res
}


// canonTable renders the table as the Lean driver prints it (names as ranks).
func canonTable(t map[string]map[string]string, rk map[string]int) string {
	var parts []string
	ent := func(m map[string]string) string {
		var vs []string
		for v := range m {
			vs = append(vs, v)
		}
		sort.Strings(vs)
		var es []string
		for _, v := range vs {
			f := strings.Fields(m[v])
			es = append(es, fmt.Sprintf("%d:%s:%s", rk[v], f[0][:1], f[1]))
		}
		return strings.Join(es, " ")
	}
	parts = append(parts, strings.TrimRight("G "+ent(t[""]), " "))
	var fs []string
	for f := range t {
		if f != "" {
			fs = append(fs, f)
		}
	}
	sort.Strings(fs)
	for _, f := range fs {
		parts = append(parts, strings.TrimRight(fmt.Sprintf("F %d %s", rk[f], ent(t[f])), " "))
	}
	return "ok " + strings.Join(parts, " ")
}


func stripParens(s string) string {
	return strings.NewReplacer("(", "", ")", "", " ", "").Replace(s)
}


func normSpaces(s string) string { return strings.Join(strings.Fields(s), " ") }

func typeErrorMsg(msg string) bool {
	return strings.HasPrefix(msg, "can't use ") || strings.HasPrefix(msg, "can't pass ")
}


// leanExpectation renders what the real resolver did in the vocabulary of the Lean driver's answer. For an error the real
// resolver gives message, line and column; that determines the event except when one call has two non-variable arguments with
// the same source text (then every such argument is a candidate).
func leanExpectation(pg *prog, fl flat, rk map[string]int, base parseResult) []string {
	if base.ok {
		return []string{canonTable(parseTable(base.types), rk)}
	}
	var cands []string
	// find the event(s) on the reported line whose message matches; the answer names (function, event index)
	tyWord := map[string]string{"scalar": "s", "array": "a"}
	try := func(fn string, es []event) {
		for i, e := range es {
			if e.line != base.line || e.col != base.col {
				continue
			}
			var cur, v, want string
			switch {
			case e.K == "exprArg" && strings.HasPrefix(base.msg, "can't pass scalar ") && strings.HasSuffix(base.msg, " as array param"):
				if stripParens(e.txt) != stripParens(strings.TrimSuffix(strings.TrimPrefix(base.msg, "can't pass scalar "), " as array param")) {
					continue
				}
				cands = append(cands, fmt.Sprintf("err %d %d exprAsArray %d %d", rk[fn], i, rk[e.F], e.I))
			case e.K == "varArg":
				if n, _ := fmt.Sscanf(base.msg, "can't pass %s %q as %s param", &cur, &v, &want); n == 3 && v == e.V {
					cands = append(cands, fmt.Sprintf("err %d %d passAs %s %d %s", rk[fn], i, tyWord[cur], rk[v], tyWord[want]))
				}
				// a varArg event can also raise "can't use" through recordVar
				if n, _ := fmt.Sscanf(base.msg, "can't use %s %q as %s", &cur, &v, &want); n == 3 && v == e.V {
					cands = append(cands, fmt.Sprintf("err %d %d useAs %s %d %s", rk[fn], i, tyWord[cur], rk[v], tyWord[want]))
				}
			case e.K == "use":
				if n, _ := fmt.Sscanf(base.msg, "can't use %s %q as %s", &cur, &v, &want); n == 3 && v == e.V && tyWord[want] == e.T {
					cands = append(cands, fmt.Sprintf("err %d %d useAs %s %d %s", rk[fn], i, tyWord[cur], rk[v], tyWord[want]))
				}
			}
		}
	}
	// functions in the order the model would report them is unknown here; an error line identifies the function uniquely
	for _, f := range pg.Fns {
		try(f.Name, fl.fn[f.Name])
	}
	try("", fl.main)
	if len(cands) == 0 {
		return []string{fmt.Sprintf("err ?:%d:%d %s", base.line, base.col, base.msg)}
	}
	return cands
}
