package main

// (copy of harness/c16/prog.go — shared helper, kept identical)
// Structured AWK programs for C16/C19: a tiny syntax tree that can be (1) printed as AWK source with the top-level items in any
// order and the identifiers consistently renamed, (2) flattened into the resolver-visit events of the Lean model
// (GoawkModel.C16.Event) in exactly the order mainVisitor.Visit + ast.Walk traverse the real tree, and (3) turned into the
// constraints of an independent union-find inference.

import (
	"fmt"
	"sort"
	"strings"
)

type node struct {
	K    string  // kind, see emit()
	V    string  // variable
	W    string  // second variable (for-in array)
	F    string  // function name (call / ncall)
	Op   string  // binary operator
	N    int     // constant
	A    []*node // sub-expressions / arguments / index
	B    []*node // body statements
	E    []*node // else statements
	line int     // source line of the node (set by the printer)
	col  int     // column of the node's first token
	vcol int     // column of the token of V
	wcol int     // column of the token of W
	txt  string  // source text of the node as printed
}

type fdef struct {
	Name   string
	Params []string
	Body   []*node
}

type prog struct {
	Fns     []*fdef
	Begin   [][]*node // BEGIN blocks in order
	End     [][]*node // END blocks in order
	Natives []string  // names of native functions offered through ParserConfig.Funcs
	Shape   string
}

var specialNames = map[string]bool{"NR": true, "NF": true, "FNR": true, "RSTART": true, "RLENGTH": true, "SUBSEP": true,
	"ARGC": true, "CONVFMT": true, "FILENAME": true, "FS": true, "OFMT": true, "OFS": true, "ORS": true, "RS": true, "RT": true}
var builtinArrays = []string{"ARGV", "ENVIRON", "FIELDS"}

func num(n int) *node            { return &node{K: "num", N: n} }
func vr(v string) *node          { return &node{K: "var", V: v} }
func idx(v string, a ...*node) *node { return &node{K: "idx", V: v, A: a} }
func bin(op string, a, b *node) *node { return &node{K: "bin", Op: op, A: []*node{a, b}} }
func call(f string, a ...*node) *node { return &node{K: "call", F: f, A: a} }
func sexpr(e *node) *node        { return &node{K: "sexpr", A: []*node{e}} }
func assign(v string, e *node) *node { return &node{K: "assign", V: v, A: []*node{e}} }
func assignIdx(v string, i, e *node) *node { return &node{K: "assignidx", V: v, A: []*node{e, i}} }
func printS(a ...*node) *node    { return &node{K: "print", A: a} }

// ---- printing ----------------------------------------------------------------------------------------------------------

type printer struct {
	sb     strings.Builder
	line   int
	col    int
	rename func(string) string
}

func (p *printer) w(s string) { p.sb.WriteString(s); p.col += len(s) }
func (p *printer) nl()        { p.sb.WriteByte('\n'); p.line++; p.col = 1 }

// v writes the (renamed) variable of the node and records its column
func (p *printer) v(e *node) { e.vcol = p.col; p.w(p.rename(e.V)) }

func (p *printer) exprList(as []*node) {
	for i, a := range as {
		if i > 0 {
			p.w(", ")
		}
		p.expr(a)
	}
}

func (p *printer) expr(e *node) {
	start := p.sb.Len()
	defer func() { e.txt = p.sb.String()[start:] }()
	e.line = p.line
	e.col = p.col
	r := p.rename
	switch e.K {
	case "num":
		p.w(fmt.Sprint(e.N))
	case "var":
		p.v(e)
	case "idx":
		p.v(e)
		p.w("[")
		p.exprList(e.A)
		p.w("]")
	case "in":
		p.w("((")
		p.exprList(e.A)
		p.w(") in ")
		p.v(e)
		p.w(")")
	case "lenv":
		p.w("length(")
		p.v(e)
		p.w(")")
	case "lene":
		p.w("length(")
		p.expr(e.A[0])
		p.w(")")
	case "bin":
		p.w("(")
		p.expr(e.A[0])
		p.w(" " + e.Op + " ")
		p.expr(e.A[1])
		p.w(")")
	case "cond":
		p.w("(")
		p.expr(e.A[0])
		p.w(" ? ")
		p.expr(e.A[1])
		p.w(" : ")
		p.expr(e.A[2])
		p.w(")")
	case "group":
		p.w("(")
		p.expr(e.A[0])
		p.w(")")
	case "call", "ncall":
		p.w(r(e.F) + "(")
		p.exprList(e.A)
		p.w(")")
	case "split":
		p.w("split(")
		p.expr(e.A[0])
		p.w(", ")
		p.v(e)
		p.w(")")
	case "assign":
		p.w("(")
		p.v(e)
		p.w(" = ")
		p.expr(e.A[0])
		p.w(")")
	case "assignidx":
		p.w("(")
		p.v(e)
		p.w("[")
		p.expr(e.A[1])
		p.w("] = ")
		p.expr(e.A[0])
		p.w(")")
	case "incr":
		p.v(e)
		p.w("++")
	case "sub":
		p.w("sub(/q/, \"r\", ")
		p.v(e)
		p.w(")")
	default:
		panic("printer: unknown expr kind " + e.K)
	}
}

func (p *printer) stmts(ss []*node, ind string) {
	for _, s := range ss {
		p.stmt(s, ind)
	}
}

func (p *printer) stmt(s *node, ind string) {
	s.line = p.line
	r := p.rename
	p.w(ind)
	switch s.K {
	case "sexpr":
		p.expr(s.A[0])
		p.nl()
	case "print":
		p.w("print ")
		p.exprList(s.A)
		p.nl()
	case "return":
		p.w("return ")
		p.expr(s.A[0])
		p.nl()
	case "delete":
		p.w("delete ")
		p.v(s)
		if len(s.A) > 0 {
			p.w("[")
			p.exprList(s.A)
			p.w("]")
		}
		p.nl()
	case "forin":
		p.w("for (")
		p.v(s)
		p.w(" in ")
		s.wcol = p.col
		p.w(r(s.W) + ") {")
		p.nl()
		p.stmts(s.B, ind+"  ")
		p.w(ind + "}")
		p.nl()
	case "if":
		p.w("if (")
		p.expr(s.A[0])
		p.w(") {")
		p.nl()
		p.stmts(s.B, ind+"  ")
		if s.E != nil {
			p.w(ind + "} else {")
			p.nl()
			p.stmts(s.E, ind+"  ")
		}
		p.w(ind + "}")
		p.nl()
	default:
		panic("printer: unknown stmt kind " + s.K)
	}
}

// item order: index >= 0 is function i; -1-k is BEGIN block k; -1000-k is END block k.
func (pg *prog) defaultOrder() []int {
	var o []int
	for k := range pg.Begin {
		o = append(o, -1-k)
	}
	for i := range pg.Fns {
		o = append(o, i)
	}
	for k := range pg.End {
		o = append(o, -1000-k)
	}
	return o
}

func (pg *prog) src(order []int, rename func(string) string) string {
	if rename == nil {
		rename = func(s string) string { return s }
	}
	p := &printer{line: 1, col: 1, rename: rename}
	for _, it := range order {
		switch {
		case it >= 0:
			f := pg.Fns[it]
			ps := make([]string, len(f.Params))
			for i, q := range f.Params {
				ps[i] = rename(q)
			}
			p.w("function " + rename(f.Name) + "(" + strings.Join(ps, ", ") + ") {")
			p.nl()
			p.stmts(f.Body, "  ")
			p.w("}")
			p.nl()
		case it > -1000:
			p.w("BEGIN {")
			p.nl()
			p.stmts(pg.Begin[-1-it], "  ")
			p.w("}")
			p.nl()
		default:
			p.w("END {")
			p.nl()
			p.stmts(pg.End[-1000-it], "  ")
			p.w("}")
			p.nl()
		}
	}
	return p.sb.String()
}

// ---- flattening into resolver events -------------------------------------------------------------------------------------

type event struct {
	K    string // use | call | exprArg | varArg
	V    string
	T    string // u s a
	F    string
	I    int
	line int
	col  int
	txt  string // exprArg: the argument's source text
}

type flattener struct {
	awk map[string]*fdef
	ev  []event
}

func (fl *flattener) use(v, t string, line, col int) {
	fl.ev = append(fl.ev, event{K: "use", V: v, T: t, line: line, col: col})
}

func (fl *flattener) exprs(as []*node) {
	for _, a := range as {
		fl.expr(a)
	}
}

// expr mirrors mainVisitor.Visit / ast.Walk for expressions.
func (fl *flattener) expr(e *node) {
	switch e.K {
	case "num":
	case "var":
		fl.use(e.V, "s", e.line, e.vcol)
	case "idx", "in":
		fl.exprs(e.A)
		fl.use(e.V, "a", e.line, e.vcol)
	case "lenv":
		fl.use(e.V, "u", e.line, e.vcol)
	case "lene":
		if e.A[0].K == "var" { // length(x) with a plain variable: "may be a scalar or an array, so set it to unknown for now"
			fl.use(e.A[0].V, "u", e.A[0].line, e.A[0].vcol)
		} else {
			fl.exprs(e.A)
		}
	case "bin", "cond", "group":
		fl.exprs(e.A)
	case "split":
		fl.expr(e.A[0])
		fl.use(e.V, "a", e.line, e.vcol)
	case "assign":
		fl.use(e.V, "s", e.line, e.vcol)
		fl.expr(e.A[0])
	case "assignidx":
		fl.expr(e.A[1])
		fl.use(e.V, "a", e.line, e.vcol)
		fl.expr(e.A[0])
	case "incr", "sub":
		fl.use(e.V, "s", e.line, e.vcol)
	case "call", "ncall":
		fl.ev = append(fl.ev, event{K: "call", F: e.F, I: len(e.A), line: e.line, col: e.col})
		_, isAwk := fl.awk[e.F]
		for i, a := range e.A {
			if a.K != "var" {
				if isAwk {
					fl.ev = append(fl.ev, event{K: "exprArg", F: e.F, I: i, line: e.line, col: e.col, txt: a.txt})
				}
				fl.expr(a)
				continue
			}
			if !isAwk {
				fl.use(a.V, "s", a.line, a.vcol)
				continue
			}
			fl.ev = append(fl.ev, event{K: "varArg", F: e.F, I: i, V: a.V, line: a.line, col: a.vcol})
		}
	default:
		panic("flatten: unknown expr kind " + e.K)
	}
}

func (fl *flattener) stmts(ss []*node) {
	for _, s := range ss {
		switch s.K {
		case "sexpr", "print", "return":
			fl.exprs(s.A)
		case "delete":
			fl.use(s.V, "a", s.line, s.vcol)
			fl.exprs(s.A)
		case "forin":
			fl.use(s.V, "s", s.line, s.vcol)
			fl.use(s.W, "a", s.line, s.wcol)
			fl.stmts(s.B)
		case "if":
			fl.expr(s.A[0])
			fl.stmts(s.B)
			fl.stmts(s.E)
		default:
			panic("flatten: unknown stmt kind " + s.K)
		}
	}
}

type flat struct {
	fn   map[string][]event // per function
	main []event
}

func (pg *prog) flatten() flat {
	awk := map[string]*fdef{}
	for _, f := range pg.Fns {
		awk[f.Name] = f
	}
	res := flat{fn: map[string][]event{}}
	for _, f := range pg.Fns {
		fl := &flattener{awk: awk}
		fl.stmts(f.Body)
		res.fn[f.Name] = fl.ev
	}
	fl := &flattener{awk: awk}
	for _, b := range pg.Begin {
		fl.stmts(b)
	}
	for _, b := range pg.End {
		fl.stmts(b)
	}
	res.main = fl.ev
	return res
}

// ---- identifiers, ranks ------------------------------------------------------------------------------------------------------

func (pg *prog) identifiers() []string {
	set := map[string]bool{}
	for _, b := range builtinArrays {
		set[b] = true
	}
	for _, n := range pg.Natives {
		set[n] = true
	}
	var walk func(n *node)
	walk = func(n *node) {
		if n.V != "" {
			set[n.V] = true
		}
		if n.W != "" {
			set[n.W] = true
		}
		if n.F != "" {
			set[n.F] = true
		}
		for _, a := range n.A {
			walk(a)
		}
		for _, a := range n.B {
			walk(a)
		}
		for _, a := range n.E {
			walk(a)
		}
	}
	for _, f := range pg.Fns {
		set[f.Name] = true
		for _, q := range f.Params {
			set[q] = true
		}
		for _, s := range f.Body {
			walk(s)
		}
	}
	for _, b := range pg.Begin {
		for _, s := range b {
			walk(s)
		}
	}
	for _, b := range pg.End {
		for _, s := range b {
			walk(s)
		}
	}
	var ids []string
	for k := range set {
		ids = append(ids, k)
	}
	sort.Strings(ids)
	return ids
}

// ranks numbers the identifiers 1.. in byte-wise order (Lean's Nat order = sort.Strings order); "" is 0.
func ranks(ids []string) map[string]int {
	m := map[string]int{"": 0}
	for i, s := range ids {
		m[s] = i + 1
	}
	return m
}

// leanProgram is the request tail `S … B … (F n P … E …)* M …` for the program.
func (pg *prog) leanProgram(fl flat, rk map[string]int) string {
	var sb strings.Builder
	sb.WriteString("S")
	for _, id := range pg.identifiers() {
		if specialNames[id] {
			fmt.Fprintf(&sb, " %d", rk[id])
		}
	}
	sb.WriteString(" B")
	for _, b := range builtinArrays {
		fmt.Fprintf(&sb, " %d", rk[b])
	}
	evs := func(es []event) {
		for _, e := range es {
			switch e.K {
			case "use":
				fmt.Fprintf(&sb, " r:%d:%s", rk[e.V], e.T)
			case "call":
				fmt.Fprintf(&sb, " c:%d:%d", rk[e.F], e.I)
			case "exprArg":
				fmt.Fprintf(&sb, " x:%d:%d", rk[e.F], e.I)
			case "varArg":
				fmt.Fprintf(&sb, " v:%d:%d:%d", rk[e.F], e.I, rk[e.V])
			}
		}
	}
	for _, f := range pg.Fns {
		fmt.Fprintf(&sb, " F %d P", rk[f.Name])
		for _, q := range f.Params {
			fmt.Fprintf(&sb, " %d", rk[q])
		}
		sb.WriteString(" E")
		evs(fl.fn[f.Name])
	}
	sb.WriteString(" M")
	evs(fl.main)
	return sb.String()
}

// ---- independent inference: union-find over (scope, variable) keys --------------------------------------------------------------

type uf struct {
	parent map[string]string
	typ    map[string]int // 0 unknown 1 scalar 2 array
}

func (u *uf) find(x string) string {
	if _, ok := u.parent[x]; !ok {
		u.parent[x] = x
	}
	for u.parent[x] != x {
		u.parent[x] = u.parent[u.parent[x]]
		x = u.parent[x]
	}
	return x
}
func (u *uf) set(x string, t int) bool {
	r := u.find(x)
	if u.typ[r] != 0 && u.typ[r] != t {
		return false
	}
	u.typ[r] = t
	return true
}
func (u *uf) union(a, b string) bool {
	ra, rb := u.find(a), u.find(b)
	if ra == rb {
		return true
	}
	ta, tb := u.typ[ra], u.typ[rb]
	if ta != 0 && tb != 0 && ta != tb {
		return false
	}
	u.parent[ra] = rb
	if tb == 0 {
		u.typ[rb] = ta
	}
	return true
}

type inference struct {
	ok    bool
	types map[string]map[string]string // scope ("" = globals) -> variable -> "scalar"|"array"
}

// infer is the specification evaluated independently of resolve.go: classes of variables/parameters linked by
// "passed as argument i of f", each class at most one of scalar/array; unknown classes are scalar.
func (pg *prog) infer(fl flat) inference {
	u := &uf{parent: map[string]string{}, typ: map[string]int{}}
	params := map[string][]string{}
	for _, f := range pg.Fns {
		params[f.Name] = f.Params
	}
	key := func(fn, v string) string {
		for _, q := range params[fn] {
			if q == v {
				return fn + "\x00" + v
			}
		}
		if specialNames[v] {
			return "\x01special"
		}
		return "\x00" + v
	}
	ok := true
	u.set("\x01special", 1)
	for _, b := range builtinArrays {
		u.set("\x00"+b, 2)
	}
	do := func(fn string, es []event) {
		for _, e := range es {
			switch e.K {
			case "use":
				k := key(fn, e.V)
				u.find(k)
				if e.T == "s" {
					ok = u.set(k, 1) && ok
				} else if e.T == "a" {
					ok = u.set(k, 2) && ok
				}
			case "exprArg":
				ok = u.set(e.F+"\x00"+params[e.F][e.I], 1) && ok
			case "varArg":
				ok = u.union(key(fn, e.V), e.F+"\x00"+params[e.F][e.I]) && ok
			}
		}
	}
	for _, f := range pg.Fns {
		for _, q := range f.Params {
			u.find(f.Name + "\x00" + q)
		}
		do(f.Name, fl.fn[f.Name])
	}
	do("", fl.main)
	res := inference{ok: ok, types: map[string]map[string]string{}}
	if !ok {
		return res
	}
	for k := range u.parent {
		if k == "\x01special" {
			continue
		}
		i := strings.IndexByte(k, 0)
		scope, v := k[:i], k[i+1:]
		if res.types[scope] == nil {
			res.types[scope] = map[string]string{}
		}
		t := "scalar"
		if u.typ[u.find(k)] == 2 {
			t = "array"
		}
		res.types[scope][v] = t
	}
	return res
}
