package main

// Determinism, part 2: the verdict of a source must not depend on WHAT WAS PARSED BEFORE it in the same process. The first part parses
// each source many times in a row, so a parse only ever follows a parse of the same text; here accepted and rejected sources (among
// them sources that abort with a syntax error while a comma grouping is still pending, or in the middle of a function, a loop, a
// regex or a string) are parsed once each in random orders, sequentially and from several goroutines at once, and every result
// is compared with the fingerprint the source had in part 1. (Seeded C19-p1: parser state recycled through a sync.Pool came back
// dirty after an aborted parse, so the NEXT source — any source — was rejected with a stale error.)

import (
	"fmt"
	"math/rand"
	"sync"

	"verifharness/vh"
)

// abortVariants: texts that make the parser give up early, appended to or cut out of a source.
var abortTails = []string{"\nBEGIN { if }\n", "\nBEGIN { x = (1, 2); y = }\n", "\nfunction zz(a { }\n", "\nBEGIN { while (1) { print (3, 4) \"x\"; for }\n",
	"\nBEGIN { s = \"abc\n", "\nBEGIN { x = `\n", "\n/unterminated\n", "\nBEGIN { print (5, 6) > }\n", "\nEND { a[1 = 2 }\n"}

type interleaveItem struct {
	src     string
	natives []string
	kind    string
	ref     fingerprint
}

func interleavedHistories(c *vh.Ctx, items []interleaveItem) {
	if len(items) == 0 {
		return
	}
	// aborted variants of some sources; their own reference is the first parse made here, before any shuffling
	n := len(items)
	for i := 0; i < n && i < c.N(60, 400); i++ {
		it := items[c.Rng.Intn(n)]
		var src string
		if c.Rng.Intn(3) == 0 && len(it.src) > 4 {
			src = it.src[:1+c.Rng.Intn(len(it.src)-1)] // cut anywhere
		} else {
			src = it.src + abortTails[c.Rng.Intn(len(abortTails))]
		}
		items = append(items, interleaveItem{src: src, natives: it.natives, kind: "aborted:" + it.kind})
	}
	for i := n; i < len(items); i++ {
		// the reference of an aborted variant: parsed right after a parse that cannot leave anything behind (an empty program)
		parseSrc("", nil)
		items[i].ref = fingerprintOf(parseSrc(items[i].src, funcsFor(items[i].natives)))
	}
	type bad struct {
		i        int
		got      fingerprint
		prev     int
		parallel bool
	}
	var mu sync.Mutex
	var bads []bad
	pass := func(r *rand.Rand, parallel bool) {
		perm := r.Perm(len(items))
		prev := -1
		for _, i := range perm {
			it := items[i]
			fp := fingerprintOf(parseSrc(it.src, funcsFor(it.natives)))
			if fp != it.ref {
				mu.Lock()
				bads = append(bads, bad{i, fp, prev, parallel})
				mu.Unlock()
			}
			prev = i
		}
	}
	rounds := c.N(4, 20)
	for k := 0; k < rounds; k++ {
		pass(rand.New(rand.NewSource(c.Rng.Int63())), false)
	}
	var wg sync.WaitGroup
	for g := 0; g < c.N(4, 8); g++ {
		wg.Add(1)
		r := rand.New(rand.NewSource(c.Rng.Int63()))
		go func() { defer wg.Done(); pass(r, true) }()
	}
	wg.Wait()
	c.HitN("det:interleaved-parses", (rounds+c.N(4, 8))*len(items))
	c.HitN("det:interleaved-sources", len(items))
	for range items {
		c.OracleCase()
	}
	reported := map[int]bool{}
	for _, b := range bads {
		if reported[b.i] || len(reported) >= 5 {
			continue
		}
		reported[b.i] = true
		it := items[b.i]
		note := "first parse of the history"
		if b.prev >= 0 {
			note = "parsed right after: " + items[b.prev].src
		}
		if b.parallel {
			note += " (several goroutines were parsing other sources at the same time)"
		}
		what := "the verdict of a source depends on what was parsed before it in the same process"
		if b.got.verdict == it.ref.verdict {
			what = "the compiled program / tables of a source depend on what was parsed before it in the same process"
		}
		c.Fail(vh.Failure{Kind: "oracle", What: what, Case: c19Case{Kind: "interleaved:" + it.kind, Src: it.src, Natives: it.natives, Note: note},
			Got: b.got.verdict, Want: fmt.Sprint(it.ref.verdict)})
	}
}
