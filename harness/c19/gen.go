package main

// (copy of harness/c16/gen.go — shared helper, kept identical)
// Generators of structured programs: intent-driven random call graphs and the named shapes of the property's quantifier
// (chains, diamonds, self/mutual recursion, unused and forward-only parameters, fewer arguments than parameters, locals used as
// arrays, chains longer than 100).

import (
	"fmt"
	"math/rand"
)

const (
	depthVar  = "zD" // call depth guard (keeps every generated program terminating)
	budgetVar = "zT" // total call budget
	countVar  = "zC" // for-in body counter (for-in order is unspecified, so bodies only count)
)

var fnNamePool = []string{"fa", "fb", "fc", "fd", "fe", "ff", "fg", "fh", "aa", "mm", "zz", "Fq", "g1", "k9"}
var paramPool = []string{"p", "q", "r", "s", "t", "ga", "gb", "NR", "u"}
var globalPool = []string{"ga", "gb", "gc", "gd", "ge", "NR", "NF"}

type genCtx struct {
	r      *rand.Rand
	pg     *prog
	intent map[string]int // key scope\x00var -> 0 untyped, 1 scalar, 2 array
	noise  float64
}

func (g *genCtx) key(fn *fdef, v string) string {
	if fn != nil {
		for _, q := range fn.Params {
			if q == v {
				return fn.Name + "\x00" + v
			}
		}
	}
	return "\x00" + v
}

func (g *genCtx) intentOf(fn *fdef, v string) int {
	if fn == nil || g.key(fn, v)[0] == 0 {
		if specialNames[v] {
			return 1
		}
	}
	return g.intent[g.key(fn, v)]
}

func (g *genCtx) vars(fn *fdef) []string {
	var vs []string
	if fn != nil {
		vs = append(vs, fn.Params...)
		vs = append(vs, fn.Params...) // parameters twice as likely
	}
	return append(vs, globalPool...)
}

// pick a variable visible in fn whose intent is want (or untyped), falling back to any variable; noise picks any.
func (g *genCtx) pick(fn *fdef, want int) string {
	vs := g.vars(fn)
	if g.r.Float64() < g.noise {
		return vs[g.r.Intn(len(vs))]
	}
	var ok []string
	for _, v := range vs {
		t := g.intentOf(fn, v)
		if t == want || (t == 0 && want != 0 && g.r.Intn(3) == 0) {
			ok = append(ok, v)
		}
	}
	if len(ok) == 0 {
		return vs[g.r.Intn(len(vs))]
	}
	return ok[g.r.Intn(len(ok))]
}

// call-free scalar-valued expression
func (g *genCtx) leaf(fn *fdef) *node {
	switch g.r.Intn(4) {
	case 0:
		return num(g.r.Intn(9))
	case 1:
		return vr(g.pick(fn, 1))
	case 2:
		return idx(g.pick(fn, 2), num(g.r.Intn(3)))
	default:
		return &node{K: "lenv", V: g.pick(fn, 2)}
	}
}

// scalar-valued expression
func (g *genCtx) sexp(fn *fdef, depth int) *node {
	switch k := g.r.Intn(14); {
	case k < 3 || depth > 2:
		return num(g.r.Intn(9))
	case k < 6:
		return vr(g.pick(fn, 1))
	case k < 8:
		return idx(g.pick(fn, 2), g.sexp(fn, depth+1))
	case k == 8:
		if g.r.Intn(2) == 0 {
			return &node{K: "lenv", V: g.pick(fn, g.r.Intn(3))}
		}
		return &node{K: "in", V: g.pick(fn, 2), A: []*node{g.sexp(fn, depth+1)}}
	case k == 9:
		return bin("+", g.sexp(fn, depth+1), g.sexp(fn, depth+1))
	case k == 10:
		switch g.r.Intn(4) {
		case 0:
			return &node{K: "group", A: []*node{vr(g.pick(fn, 1))}}
		case 1:
			return &node{K: "cond", A: []*node{g.sexp(fn, depth+1), g.sexp(fn, depth+1), g.sexp(fn, depth+1)}}
		case 2:
			return &node{K: "lene", A: []*node{g.sexp(fn, depth+1)}}
		default:
			return &node{K: "split", V: g.pick(fn, 2), A: []*node{g.sexp(fn, depth+1)}}
		}
	default:
		return g.callExpr(fn, depth)
	}
}

func (g *genCtx) callExpr(fn *fdef, depth int) *node {
	if len(g.pg.Natives) > 0 && g.r.Intn(8) == 0 {
		n := g.pg.Natives[g.r.Intn(len(g.pg.Natives))]
		c := &node{K: "ncall", F: n}
		for i := 0; i < 2; i++ {
			if g.r.Intn(2) == 0 {
				c.A = append(c.A, vr(g.pick(fn, 1)))
			} else {
				c.A = append(c.A, g.sexp(fn, depth+1))
			}
		}
		return c
	}
	if len(g.pg.Fns) == 0 {
		return num(1)
	}
	callee := g.pg.Fns[g.r.Intn(len(g.pg.Fns))]
	na := len(callee.Params)
	if g.r.Intn(3) == 0 {
		na = g.r.Intn(len(callee.Params) + 1) // fewer arguments than parameters
	}
	c := call(callee.Name)
	for i := 0; i < na; i++ {
		want := g.intent[callee.Name+"\x00"+callee.Params[i]]
		switch {
		case want == 2 || (want == 0 && g.r.Intn(2) == 0):
			c.A = append(c.A, vr(g.pick(fn, want)))
		case g.r.Intn(3) == 0:
			c.A = append(c.A, g.sexp(fn, depth+1))
		default:
			c.A = append(c.A, vr(g.pick(fn, want)))
		}
	}
	return c
}

func (g *genCtx) stmt(fn *fdef) *node {
	switch k := g.r.Intn(16); {
	case k < 3:
		return sexpr(&node{K: "assign", V: g.pick(fn, 1), A: []*node{g.sexp(fn, 0)}})
	case k < 6:
		return sexpr(assignIdx(g.pick(fn, 2), g.sexp(fn, 1), g.sexp(fn, 1)))
	case k < 8:
		return printS(g.sexp(fn, 0))
	case k == 8:
		return sexpr(&node{K: "incr", V: g.pick(fn, 1)})
	case k == 9:
		if g.r.Intn(2) == 0 {
			return &node{K: "delete", V: g.pick(fn, 2)}
		}
		return &node{K: "delete", V: g.pick(fn, 2), A: []*node{g.sexp(fn, 1)}}
	case k == 10:
		// the loop variable ends up holding whichever key came last (unspecified order), so it is reset right after the loop
		k := g.pick(fn, 1)
		return &node{K: "if", A: []*node{num(1)}, B: []*node{
			{K: "forin", V: k, W: g.pick(fn, 2), B: []*node{sexpr(&node{K: "incr", V: countVar})}},
			sexpr(assign(k, num(g.r.Intn(3))))}}
	case k == 11:
		s := &node{K: "if", A: []*node{g.sexp(fn, 1)}, B: []*node{g.stmt(fn)}}
		if g.r.Intn(2) == 0 {
			s.E = []*node{g.stmt(fn)}
		}
		return s
	case k == 12:
		return sexpr(&node{K: "sub", V: g.pick(fn, 1)})
	default:
		return sexpr(g.callExpr(fn, 0))
	}
}

// guard wraps a function body so that every program terminates whatever the call graph.
func guard(body []*node, ret *node) []*node {
	res := []*node{
		sexpr(&node{K: "incr", V: depthVar}),
		{K: "if", A: []*node{bin("&&", bin("<", vr(depthVar), num(4)), bin("<", vr(budgetVar), num(40)))},
			B: append([]*node{sexpr(&node{K: "incr", V: budgetVar})}, body...)},
		sexpr(assign(depthVar, bin("-", vr(depthVar), num(1)))),
	}
	if ret != nil {
		res = append(res, &node{K: "return", A: []*node{ret}})
	}
	return res
}

func genRandom(r *rand.Rand) *prog {
	g := &genCtx{r: r, pg: &prog{Shape: "random"}, intent: map[string]int{}, noise: []float64{0, 0.03, 0.08, 0.2}[r.Intn(4)]}
	if r.Intn(4) == 0 {
		g.pg.Natives = []string{"nat1", "nat2"}[:1+r.Intn(2)]
	}
	nf := r.Intn(7)
	names := append([]string(nil), fnNamePool...)
	r.Shuffle(len(names), func(i, j int) { names[i], names[j] = names[j], names[i] })
	for i := 0; i < nf; i++ {
		f := &fdef{Name: names[i]}
		np := r.Intn(5)
		ps := append([]string(nil), paramPool...)
		r.Shuffle(len(ps), func(i, j int) { ps[i], ps[j] = ps[j], ps[i] })
		f.Params = ps[:np]
		for _, q := range f.Params {
			g.intent[f.Name+"\x00"+q] = []int{0, 0, 1, 2, 2}[r.Intn(5)]
		}
		g.pg.Fns = append(g.pg.Fns, f)
	}
	for _, v := range globalPool {
		if !specialNames[v] {
			g.intent["\x00"+v] = []int{0, 1, 2, 2}[r.Intn(4)]
		}
	}
	for _, f := range g.pg.Fns {
		var body []*node
		for k := r.Intn(5); k > 0; k-- {
			body = append(body, g.stmt(f))
		}
		var ret *node
		if r.Intn(3) == 0 {
			ret = g.leaf(f)
		}
		f.Body = guard(body, ret)
	}
	nb := 1 + r.Intn(2)
	for b := 0; b < nb; b++ {
		var body []*node
		for k := r.Intn(5); k > 0; k-- {
			body = append(body, g.stmt(nil))
		}
		g.pg.Begin = append(g.pg.Begin, body)
	}
	if r.Intn(3) == 0 {
		g.pg.End = append(g.pg.End, []*node{g.stmt(nil), printS(vr(countVar))})
	}
	return g.pg
}

// ---- named shapes ----------------------------------------------------------------------------------------------------------------

func shuffledNames(r *rand.Rand, n int, prefix string) []string {
	names := make([]string, n)
	for i := range names {
		names[i] = fmt.Sprintf("%s%04d", prefix, i)
	}
	r.Shuffle(n, func(i, j int) { names[i], names[j] = names[j], names[i] })
	return names
}

// chain: f1(a){f2(a)} … fn(a){<end use>}; BEGIN{<top use>; f1(x); print}. endUse/topUse: 0 none, 1 scalar, 2 array.
// nameMode 0: names sorted along the chain, 1: sorted against it, 2: shuffled. extra: each link takes an extra unused parameter.
func genChain(r *rand.Rand, n, endUse, topUse, nameMode int, extra bool) *prog {
	pg := &prog{Shape: fmt.Sprintf("chain%d", bucket(n))}
	names := make([]string, n)
	for i := range names {
		names[i] = fmt.Sprintf("c%04d", i)
	}
	switch nameMode {
	case 1:
		for i := range names {
			names[i] = fmt.Sprintf("c%04d", n-1-i)
		}
	case 2:
		names = shuffledNames(r, n, "c")
	}
	for i := 0; i < n; i++ {
		f := &fdef{Name: names[i], Params: []string{"a"}}
		if extra {
			f.Params = []string{"a", "loc"}
		}
		if i+1 < n {
			f.Body = []*node{sexpr(call(names[i+1], vr("a")))}
		} else {
			switch endUse {
			case 1:
				f.Body = []*node{sexpr(assign("a", num(7)))}
			case 2:
				f.Body = []*node{sexpr(assignIdx("a", num(1), num(7)))}
			}
		}
		pg.Fns = append(pg.Fns, f)
	}
	var b []*node
	switch topUse {
	case 1:
		b = append(b, sexpr(assign("x", num(3))))
	case 2:
		b = append(b, sexpr(assignIdx("x", num(2), num(3))))
	}
	b = append(b, sexpr(call(names[0], vr("x"))))
	switch {
	case endUse == 2 || topUse == 2:
		b = append(b, printS(idx("x", num(1)), &node{K: "lenv", V: "x"}))
	default:
		b = append(b, printS(vr("x")))
	}
	pg.Begin = [][]*node{b}
	r.Shuffle(len(pg.Fns), func(i, j int) { pg.Fns[i], pg.Fns[j] = pg.Fns[j], pg.Fns[i] })
	return pg
}

func bucket(n int) int {
	switch {
	case n <= 5:
		return n
	case n <= 20:
		return 20
	case n <= 100:
		return 100
	default:
		return 1000
	}
}

// cycle: the mutually recursive example of resolve.go's comment generalised to n functions; each fi(a) { if (0) f(i+k)(zi); f(i+1)(a) },
// the last one uses its parameter as an array.
func genCycle(r *rand.Rand, n int, conflict bool) *prog {
	pg := &prog{Shape: "cycle"}
	names := shuffledNames(r, n, "m")
	for i := 0; i < n; i++ {
		f := &fdef{Name: names[i], Params: []string{"a"}}
		back := names[(i+n-1+r.Intn(n))%n]
		f.Body = []*node{{K: "if", A: []*node{num(0)}, B: []*node{sexpr(call(back, vr(fmt.Sprintf("z%d", i))))}}}
		if i+1 < n {
			f.Body = append(f.Body, sexpr(call(names[i+1], vr("a"))))
		} else {
			f.Body = append(f.Body, sexpr(assignIdx("a", num(1), num(42))))
		}
		pg.Fns = append(pg.Fns, f)
	}
	b := []*node{sexpr(assignIdx("x", num(1), num(3))), sexpr(call(names[n-1], vr("x"))), printS(idx("x", num(1)))}
	if conflict {
		b = append(b, sexpr(assign(fmt.Sprintf("z%d", r.Intn(n)), num(1))))
	}
	pg.Begin = [][]*node{b}
	r.Shuffle(len(pg.Fns), func(i, j int) { pg.Fns[i], pg.Fns[j] = pg.Fns[j], pg.Fns[i] })
	return pg
}

// diamond: top(a){l(a); r(a)}  l(b){bot(b)}  r(c){bot2(c)}  bot(d){d[1]++}  bot2(e){<use>}; use 2 = array (fine), 1 = scalar (conflict), 0 none
func genDiamond(r *rand.Rand, use int) *prog {
	pg := &prog{Shape: "diamond"}
	nm := shuffledNames(r, 5, "d")
	pg.Fns = []*fdef{
		{Name: nm[0], Params: []string{"a"}, Body: []*node{sexpr(call(nm[1], vr("a"))), sexpr(call(nm[2], vr("a")))}},
		{Name: nm[1], Params: []string{"b"}, Body: []*node{sexpr(call(nm[3], vr("b")))}},
		{Name: nm[2], Params: []string{"c"}, Body: []*node{sexpr(call(nm[4], vr("c")))}},
		{Name: nm[3], Params: []string{"d"}, Body: []*node{sexpr(assignIdx("d", num(1), bin("+", idx("d", num(1)), num(1))))}},
		{Name: nm[4], Params: []string{"e"}},
	}
	switch use {
	case 1:
		pg.Fns[4].Body = []*node{sexpr(assign("e", num(5)))}
	case 2:
		pg.Fns[4].Body = []*node{sexpr(assignIdx("e", num(2), num(5)))}
	}
	pg.Begin = [][]*node{{sexpr(call(nm[0], vr("x"))), sexpr(call(nm[0], vr("x"))), printS(idx("x", num(1)), idx("x", num(2)))}}
	r.Shuffle(len(pg.Fns), func(i, j int) { pg.Fns[i], pg.Fns[j] = pg.Fns[j], pg.Fns[i] })
	return pg
}

// unusedParam: the first example of resolve.go's comment: function f1(A) {}  function f2(x, A) { x[0]; f1(a); f2(a) }
func genUnusedParam(r *rand.Rand, v int) *prog {
	pg := &prog{Shape: "unused-param"}
	n := shuffledNames(r, 2, "u")
	f1 := &fdef{Name: n[0], Params: []string{"A"}}
	f2 := &fdef{Name: n[1], Params: []string{"x", "A"}, Body: guard([]*node{
		sexpr(idx("x", num(0))), sexpr(call(n[0], vr("a"))), sexpr(call(n[1], vr("a"))),
	}, nil)}
	pg.Fns = []*fdef{f1, f2}
	b := []*node{sexpr(call(n[1], vr("g")))}
	switch v {
	case 1:
		b = append(b, sexpr(assign("a", num(1)))) // a is f2's first argument, which is an array: conflict
	case 2:
		b = append(b, sexpr(assignIdx("a", num(1), num(1))))
	case 3:
		b = append(b, sexpr(assign("g", num(1)))) // conflict
	}
	b = append(b, printS(&node{K: "lenv", V: "g"}))
	pg.Begin = [][]*node{b}
	if r.Intn(2) == 0 {
		pg.Fns[0], pg.Fns[1] = pg.Fns[1], pg.Fns[0]
	}
	return pg
}

// localArray: locals (extra parameters) used as arrays, recursion, fewer arguments than parameters
func genLocalArray(r *rand.Rand, depth int) *prog {
	pg := &prog{Shape: "local-array"}
	f := &fdef{Name: "rec", Params: []string{"n", "loc", "k"}}
	f.Body = []*node{
		sexpr(assignIdx("loc", vr("n"), vr("n"))),
		{K: "if", A: []*node{bin(">", vr("n"), num(0))}, B: []*node{sexpr(call("rec", bin("-", vr("n"), num(1))))}},
		{K: "forin", V: "k", W: "loc", B: []*node{sexpr(&node{K: "incr", V: countVar})}},
		{K: "return", A: []*node{&node{K: "lenv", V: "loc"}}},
	}
	pg.Fns = []*fdef{f}
	pg.Begin = [][]*node{{printS(call("rec", num(depth))), printS(vr(countVar))}}
	return pg
}
