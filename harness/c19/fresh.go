package main

// Sharing, part 3: the FIRST use of a freshly parsed Program, from many goroutines at once.
//
// The other sharing streams execute a Program sequentially first (to get the reference results) and only then concurrently; anything
// the Program builds lazily on its first use (an index map, a cache, a compiled form filled in on demand) is then complete before the
// second goroutine arrives, and not even the race detector sees it. Here every round parses a NEW Program and immediately releases
// 8-32 goroutines on it through a spinning start barrier; each creates its own interpreter (interp.ExecProgram, interp.New + Execute,
// New + ExecuteContext, New + Execute twice with ResetVars) with its own input, -v assignments (of globals that are declared last and
// sort last), ENVIRON and ARGV; now and then two more goroutines only read the Program (Disassemble, String). Every result must equal
// the result of a sequential execution of ANOTHER fresh parse of the same source; afterwards the dump of the Program (tree, code,
// resolver tables, disassembly) must equal the dump of that other parse taken before anything was executed. Programs: 50-500 globals
// (scalars and arrays, names that interleave in sort order), functions with array parameters and recursion, native functions, a
// pattern-action over standard input, uninitialised late globals.
//
// A Go "fatal error: concurrent map read and map write" cannot be recovered, so the stream runs in a child process (this same binary,
// VH_C19_CHILD=fresh; and once more inside the -race child): the parent generates the cases, the child executes them and notes in a
// progress file which case it is working on; a child that dies is reported with that case and the head of its stderr.

import (
	"bytes"
	"context"
	"encoding/json"
	"fmt"
	"math/rand"
	"os"
	"os/exec"
	"path/filepath"
	"runtime"
	"strings"
	"sync"
	"sync/atomic"

	"github.com/benhoyt/goawk/interp"
	"github.com/benhoyt/goawk/parser"

	"verifharness/vh"
)

type freshCase struct {
	Name       string     `json:"name"`
	Src        string     `json:"src"`
	Natives    []string   `json:"natives,omitempty"`
	Inputs     []string   `json:"inputs"`
	Vars       [][]string `json:"vars"`
	Goroutines int        `json:"goroutines"`
	Rounds     int        `json:"rounds"`
	Readers    bool       `json:"readers,omitempty"`
	Globals    int        `json:"globals"`
}

// genFreshCase: a program with many globals whose output depends on all of them.
func genFreshCase(r *rand.Rand, rounds int) freshCase {
	ng := 50 + r.Intn(451)
	if r.Intn(4) == 0 {
		ng = 50 + r.Intn(60)
	}
	fc := freshCase{Globals: ng, Goroutines: 8 + r.Intn(25), Rounds: rounds, Readers: r.Intn(4) == 0}
	natives := r.Intn(2) == 0
	if natives {
		fc.Natives = []string{"nat1", "nat2", "zed"}
	}
	type gv struct {
		name  string
		array bool
	}
	gs := make([]gv, ng)
	for i := range gs {
		gs[i] = gv{fmt.Sprintf("%c%c%d", 'a'+byte(r.Intn(25)), 'a'+byte(r.Intn(26)), i), r.Intn(3) == 0}
	}
	var sb strings.Builder
	funcsFirst := r.Intn(2) == 0
	fns := `function get(a, k) { return (k in a) ? a[k] : -1 }
function add(x, y) { return x + y }
function fill(a, n,   i) { for (i = 0; i < n; i++) a[i] = i * 2; return n }
function fib(n) { return n < 2 ? n : fib(n-1) + fib(n-2) }
`
	if funcsFirst {
		sb.WriteString(fns)
	}
	sb.WriteString("BEGIN {\n")
	for i, g := range gs {
		if g.array {
			fmt.Fprintf(&sb, "  %s[%d] = %d; %s[\"k\"] = \"s%d\"\n", g.name, i%5, i, g.name, i)
		} else if i%11 == 3 {
			fmt.Fprintf(&sb, "  %s = \"t%d\"\n", g.name, i)
		} else {
			fmt.Fprintf(&sb, "  %s = %d\n", g.name, i)
		}
	}
	sb.WriteString("}\n")
	if !funcsFirst {
		sb.WriteString(fns)
	}
	sb.WriteString("BEGIN {\n  s = 0; cat = \"\"\n")
	step := 1 + r.Intn(9)
	for i := r.Intn(step); i < ng; i += step {
		g := gs[i]
		if g.array {
			fmt.Fprintf(&sb, "  s = add(s, get(%s, %d)); cat = cat %s[\"k\"]\n", g.name, i%5, g.name)
		} else if i%11 == 3 {
			fmt.Fprintf(&sb, "  cat = cat %s\n", g.name)
		} else {
			fmt.Fprintf(&sb, "  s += %s\n", g.name)
		}
	}
	sb.WriteString("  n = fill(zfilled, 6); print \"sum\", s, length(cat), substr(cat, 1, 40), n, zfilled[5], fib(10)\n")
	if natives {
		fmt.Fprintf(&sb, "  print nat1(s, 2), nat2(%d, s), zed(\"z\" ID)\n", r.Intn(50))
	}
	sb.WriteString("}\n")
	sb.WriteString("{ rec = rec $1; tot += $2; seen[$1]++; if ($1 ~ /^b/) bs++ }\n/^c/ { cs++ }\n")
	sb.WriteString("END {\n  print rec, tot, seen[\"a\"] + 0, bs + 0, cs + 0, NR\n  print ARGC, ARGV[1], ENVIRON[\"K\"], ID\n" +
		"  print \"late:\" zzlate1, zzlate2 + 1, (zzunset == \"\"), length(zzarr), zarg\n}\n")
	fc.Src = sb.String()
	nk := 2 + r.Intn(3)
	for k := 0; k < nk; k++ {
		var in strings.Builder
		for l := r.Intn(5); l > 0; l-- {
			fmt.Fprintf(&in, "%c%d %d\n", "abc"[r.Intn(3)], k, r.Intn(100))
		}
		fc.Inputs = append(fc.Inputs, in.String())
		fc.Vars = append(fc.Vars, []string{"ID", fmt.Sprintf("id%d", k), "zzlate1", fmt.Sprintf("L%d", k), "zzlate2", fmt.Sprint(k * 10)})
	}
	fc.Name = fmt.Sprintf("globals=%d goroutines=%d natives=%v readers=%v", ng, fc.Goroutines, natives, fc.Readers)
	return fc
}

func freshCfg(fc freshCase, k int, funcs map[string]interface{}, out *bytes.Buffer) *interp.Config {
	return &interp.Config{Stdin: strings.NewReader(fc.Inputs[k]), Vars: fc.Vars[k], Funcs: funcs, Output: out, Error: out,
		Environ: []string{"K", fmt.Sprintf("env%d", k)}, Args: []string{fmt.Sprintf("zarg=%d", k)}}
}

const freshModes = 4

var freshModeNames = [freshModes]string{"ExecProgram", "New+Execute", "New+ExecuteContext", "New+Execute,ResetVars,Execute"}

// freshRun: one goroutine's use of the Program, panics of the code under test recovered.
func freshRun(p *parser.Program, fc freshCase, k, mode int, funcs map[string]interface{}) (res string) {
	defer func() {
		if r := recover(); r != nil {
			res = "panic: " + fmt.Sprint(r)
		}
	}()
	var out bytes.Buffer
	one := func(st int, err error) string {
		s := fmt.Sprintf("%q %d %v", out.String(), st, err)
		out.Reset()
		return s
	}
	if mode == 0 {
		return one(interp.ExecProgram(p, freshCfg(fc, k, funcs, &out)))
	}
	it, err := interp.New(p)
	if err != nil {
		return "new: " + err.Error()
	}
	switch mode {
	case 1:
		return one(it.Execute(freshCfg(fc, k, funcs, &out)))
	case 2:
		return one(it.ExecuteContext(context.Background(), freshCfg(fc, k, funcs, &out)))
	default:
		a := one(it.Execute(freshCfg(fc, k, funcs, &out)))
		it.ResetVars()
		b := one(it.Execute(freshCfg(fc, (k+1)%len(fc.Inputs), funcs, &out)))
		return a + " / " + b
	}
}

func freshCheck(c *vh.Ctx, fc freshCase) {
	funcs := funcsFor(fc.Natives)
	cs := func(input, note string) c19Case {
		return c19Case{Kind: "fresh-first-use", Src: fc.Src, Natives: fc.Natives, Input: input, Note: note}
	}
	pr := parseSrc(fc.Src, funcs)
	if !pr.ok {
		c.Fail(vh.Failure{Kind: "oracle", What: "first-use program does not parse", Case: cs("", fc.Name), Got: pr.msg + pr.panic_})
		return
	}
	// the reference: another parse, dumped before anything runs, then executed sequentially
	refDump := progDump(pr.prog) + "\x00" + disasm(pr.prog)
	refStr := pr.prog.String()
	refDis := disasm(pr.prog)
	nk := len(fc.Inputs)
	ref := make([][freshModes]string, nk)
	for k := 0; k < nk; k++ {
		for m := 0; m < freshModes; m++ {
			ref[k][m] = freshRun(pr.prog, fc, k, m, funcs)
		}
		if !strings.Contains(ref[k][0], "late:L") || !strings.Contains(ref[k][0], "sum ") {
			c.Fail(vh.Failure{Kind: "oracle", What: "sequential execution of a first-use program does not show its globals", Case: cs(fc.Inputs[k], fc.Name), Got: ref[k][0]})
			return
		}
		for m := 1; m < 3; m++ {
			if ref[k][m] != ref[k][0] {
				c.Fail(vh.Failure{Kind: "oracle", What: "a later sequential execution of one Program (" + freshModeNames[m] + ") differs from the first (ExecProgram)",
					Case: cs(fc.Inputs[k], fc.Name), Got: ref[k][m], Want: ref[k][0]})
				return
			}
		}
	}
	type bad struct {
		g, k, mode, round int
		got, want         string
	}
	var mu sync.Mutex
	var bads []bad
	g := fc.Goroutines
	extra := 0
	if fc.Readers {
		extra = 2
	}
	for round := 0; round < fc.Rounds; round++ {
		fresh := parseSrc(fc.Src, funcs)
		if !fresh.ok {
			c.Fail(vh.Failure{Kind: "oracle", What: "two parses of one source give different verdicts", Case: cs("", fc.Name), Got: fresh.msg + fresh.panic_, Want: "ok"})
			return
		}
		p := fresh.prog
		var ready int32
		var wg sync.WaitGroup
		for i := 0; i < g+extra; i++ {
			wg.Add(1)
			go func(i int) {
				defer wg.Done()
				k, mode := i%nk, (i/nk+round)%freshModes
				atomic.AddInt32(&ready, 1)
				for atomic.LoadInt32(&ready) < int32(g+extra) {
					runtime.Gosched()
				}
				var got, want string
				switch {
				case i == g:
					got, want, mode = disasm(p), refDis, -1
				case i == g+1:
					got, want, mode = p.String(), refStr, -2
				default:
					got, want = freshRun(p, fc, k, mode, funcs), ref[k][mode]
				}
				if got != want {
					mu.Lock()
					bads = append(bads, bad{i, k, mode, round, got, want})
					mu.Unlock()
				}
			}(i)
		}
		wg.Wait()
		c.HitN("fresh:executions", g)
		for i := 0; i < g; i++ {
			c.OracleCase()
		}
		if len(bads) == 0 && (round == 0 || round == fc.Rounds-1) {
			if d := progDump(p) + "\x00" + disasm(p); d != refDump {
				c.Fail(vh.Failure{Kind: "oracle", What: "a Program differs from another parse of the same source after its first concurrent executions (tree/code/tables dump)",
					Case: cs("", fc.Name)})
				return
			}
			c.OracleCase()
		}
		if len(bads) > 0 {
			break
		}
	}
	c.HitN("fresh:rounds(new Program each)", fc.Rounds)
	if len(bads) > 0 {
		b := bads[0]
		what := "first use of a freshly parsed Program from several goroutines at once differs from a single execution of another parse of the same source"
		note := fmt.Sprintf("%s; round %d, goroutine %d of %d started together", fc.Name, b.round, b.g, g+extra)
		switch b.mode {
		case -1:
			what = "Disassemble of a freshly parsed Program while it is first executed differs from the disassembly of another parse"
		case -2:
			what = "String() of a freshly parsed Program while it is first executed differs from that of another parse"
		default:
			note += fmt.Sprintf(", %s, -v %v (%d of the %d results of the round differ)", freshModeNames[b.mode], fc.Vars[b.k], len(bads), g+extra)
		}
		c.Fail(vh.Failure{Kind: "oracle", What: what, Case: cs(fc.Inputs[b.k], note), Got: clip(b.got, 600), Want: clip(b.want, 600)})
	}
}

func clip(s string, n int) string {
	if len(s) > n {
		return s[:n] + "…"
	}
	return s
}

// ---- child side --------------------------------------------------------------------------------------------------------------------

// freshChild executes the cases of the file named by VH_C19_CASES (no-op when the variable is not set).
func freshChild(c *vh.Ctx) {
	file := os.Getenv("VH_C19_CASES")
	var cases []freshCase
	var err error
	if file == "" {
		// run by hand (VH_C19_CHILD=fresh or =1 without a case file): generate the cases here
		if os.Getenv("VH_C19_CHILD") == "1" {
			return
		}
		n, rounds := c.N(20, 120), c.N(6, 16)
		fmt.Sscan(os.Getenv("VH_C19_NCASES"), &n)
		fmt.Sscan(os.Getenv("VH_C19_ROUNDS"), &rounds)
		for i := 0; i < n; i++ {
			cases = append(cases, genFreshCase(c.Rng, rounds))
		}
	} else {
		var b []byte
		if b, err = os.ReadFile(file); err == nil {
			err = json.Unmarshal(b, &cases)
		}
	}
	if err != nil {
		c.Fail(vh.Failure{Kind: "oracle", What: "first-use child could not read its cases", Case: c19Case{Kind: "fresh-first-use"}, Got: err.Error()})
		return
	}
	progress := os.Getenv("VH_C19_PROGRESS")
	for i, fc := range cases {
		if progress != "" {
			os.WriteFile(progress, []byte(fmt.Sprint(i)), 0o644)
		}
		markCase(c19Case{Kind: "fresh-first-use", Src: fc.Src, Natives: fc.Natives, Input: fc.Inputs[0], Note: "first use of a freshly parsed Program; " + fc.Name})
		c.Hit("fresh:program")
		c.Hit(fmt.Sprintf("fresh:globals:%s", map[bool]string{true: "50-149", false: "150-500"}[fc.Globals < 150]))
		c.Hit(fmt.Sprintf("fresh:goroutines:%s", map[bool]string{true: "8-15", false: "16-32"}[fc.Goroutines < 16]))
		if fc.Readers {
			c.Hit("fresh:with-readers(Disassemble,String)")
		}
		if len(fc.Natives) > 0 {
			c.Hit("fresh:with-natives")
		}
		freshCheck(c, fc)
	}
	if progress != "" {
		os.WriteFile(progress, []byte("done"), 0o644)
	}
}

// ---- parent side -------------------------------------------------------------------------------------------------------------------

func writeFreshCases(dir, name string, cases []freshCase) string {
	b, _ := json.Marshal(cases)
	f := filepath.Join(dir, name)
	os.WriteFile(f, b, 0o644)
	return f
}

// crashHead: the part of a dead child's stderr that says why it died.
func crashHead(stderr string) string {
	for _, mark := range []string{"fatal error:", "panic:", "harness panic:", "SIGSEGV", "unexpected signal"} {
		if i := strings.Index(stderr, mark); i >= 0 {
			return clip(stderr[i:], 1800)
		}
	}
	return lastLines(stderr, 15)
}

// mergeChild: takes a child's result file into this run: its "fresh" failures, distribution and oracle-case count. Returns false
// when the child left no readable result.
func mergeChild(c *vh.Ctx, outFile, prefix string) (vh.Result, bool) {
	var res vh.Result
	b, err := os.ReadFile(outFile)
	if err != nil || json.Unmarshal(b, &res) != nil {
		return res, false
	}
	for i := 0; i < res.OracleCases && prefix == ""; i++ {
		c.OracleCase()
	}
	for k, v := range res.Distribution {
		if strings.HasPrefix(k, "fresh:") {
			c.HitN(prefix+k, v)
		}
	}
	for _, f := range res.Failures {
		if m, ok := f.Case.(map[string]interface{}); ok && m["kind"] == "fresh-first-use" {
			if prefix != "" {
				f.What += " [" + strings.TrimSuffix(prefix, ":") + " child]"
			}
			c.Fail(f)
		}
	}
	return res, true
}

// reportDeadChild: the child died (a Go fatal error is not recoverable): the failing input is the case it was working on.
func reportDeadChild(c *vh.Ctx, what string, cases []freshCase, progressFile, stderr string, runErr error) {
	cs := c19Case{Kind: "fresh-first-use", Note: "child process died: " + crashHead(stderr)}
	if b, err := os.ReadFile(progressFile); err == nil {
		var i int
		if _, err := fmt.Sscan(string(b), &i); err == nil && i >= 0 && i < len(cases) {
			fc := cases[i]
			cs.Src, cs.Natives, cs.Input = fc.Src, fc.Natives, fc.Inputs[0]
			cs.Note = fc.Name + "; " + cs.Note
		}
	}
	c.Fail(vh.Failure{Kind: "oracle", What: what, Case: cs, Got: fmt.Sprint(runErr), Want: "every goroutine's result equal to a single execution"})
}

// freshParent: generate the cases, run them in a child process, merge its result.
func freshParent(c *vh.Ctx) (raceCases []freshCase) {
	n := c.N(20, 120)
	var cases []freshCase
	for i := 0; i < n; i++ {
		fc := genFreshCase(c.Rng, c.N(6, 16))
		cases = append(cases, fc)
		c.Eval(fc.Src, true)
	}
	// the race child gets a few of them, fewer rounds (the detector needs one overlap, not a visible wrong result)
	for i := 0; i < len(cases) && i < c.N(8, 40); i++ {
		fc := cases[i]
		fc.Rounds = 3
		raceCases = append(raceCases, fc)
	}
	exe, err := os.Executable()
	dir, err2 := os.MkdirTemp("", "c19fresh")
	if err != nil || err2 != nil {
		c.Note(fmt.Sprint("first-use child skipped: ", err, err2))
		return raceCases
	}
	defer os.RemoveAll(dir)
	casesFile := writeFreshCases(dir, "cases.json", cases)
	progress, outFile := filepath.Join(dir, "progress"), filepath.Join(dir, "child.json")
	args := []string{"--tier", c.Tier, "--seed", fmt.Sprint(c.Seed), "--out", outFile, "--drv", "none"}
	if c.Widen {
		args = append(args, "--widen")
	}
	var stderr bytes.Buffer
	var runErr error
	for attempt := 0; attempt < 2; attempt++ {
		stderr.Reset()
		os.Remove(outFile)
		child := exec.Command(exe, args...)
		child.Dir = dir
		child.Env = append(os.Environ(), "VH_C19_CHILD=fresh", "VH_C19_CASES="+casesFile, "VH_C19_PROGRESS="+progress)
		child.Stderr, child.Stdout = &stderr, &stderr
		runErr = child.Run()
		c.Hit("fresh:child-run")
		// a child that went away without a Go runtime message (killed from outside on an overloaded machine) says nothing about
		// the code under test: run it once more
		if runErr == nil || strings.Contains(stderr.String(), "fatal error:") || strings.Contains(stderr.String(), "panic:") {
			break
		}
		c.Hit("fresh:child-died-without-runtime-message (run again)")
	}
	_, ok := mergeChild(c, outFile, "")
	if runErr != nil || !ok {
		reportDeadChild(c, "the process died while several goroutines made the first use of a freshly parsed Program (one interpreter each)", cases, progress, stderr.String(), runErr)
	}
	return raceCases
}
