package main

// Determinism, part 3: type errors (and typings) that need SEVERAL resolver passes.
//
// resolve.go walks the functions in topological order (callees first) and repeats the walk while a pass still determines a type.
// Whatever a repeated pass does differently from the first one — walks fewer functions, walks them in another order, stops early —
// can only be seen on a program whose verdict is not settled by the first pass. The generator below builds such programs on purpose:
// a program is 2-4 independent GROUPS of 2-5 functions (up to 13 when the path is a plain chain); inside a group a path of parameters v0 - v1 - … - vL (L = 2…12 links, each vi a
// parameter of some function of the group, consecutive ones in different functions) is linked by calls, every link in a random
// direction (the function of vi passes vi to the function of vi+1 as the parameter vi+1: caller -> callee; or the other way round:
// the type comes back up from the callee's parameter into the caller's variable), one end is used as an array and the other as a
// scalar (or both as arrays / one end unused: accepted programs whose typing needs the extra passes). Every "down" link costs one
// pass, because the callee has been walked before its caller; where the two types meet decides which error is reported and where.
// No global variable is involved (BEGIN calls the entry functions without arguments), parameters that must be skipped to reach the
// linked parameter are filled with fresh unused locals of the caller, the statements of every body are shuffled. With probability
// 1/2 all groups of a program have the same shape (so their errors surface in the same pass and only the walk order decides between
// them). The programs are structured (`prog`), so the Lean model is compared on them as well, and the model also says in which pass
// its verdict was reached (the distribution printed as det:multipass-rejected-in-pass:N / det:multipass-accepted-in-pass:N).

import (
	"fmt"
	"math/rand"
)

type relayShape struct {
	nf       int
	fnOf     []int  // path node -> function index
	down     []bool // link i: true = function of node i calls the function of node i+1 passing v_i; false = the other way round
	ends     int    // 0 array…scalar, 1 scalar…array, 2 array…array (accepted), 3 array…unused (accepted)
	akind    int
	skind    int
	mid      int // node that is also passed to length() (an "unknown" use), -1 none
	permSeed int64
	suffixes []string
}

var relaySuffixPool = []string{"m", "c", "u", "t", "w", "k", "a", "z", "e", "h", "q9", "B", "d", "x7", "n", "Y"}

// deep: a balanced V of 4-12 links, every parameter in a function of its own, a conflict at the ends (the verdict comes in pass 3…7)
func genRelayShape(r *rand.Rand, deep bool) relayShape {
	sh := relayShape{nf: 2 + r.Intn(4), mid: -1, permSeed: r.Int63()}
	links := 2 + r.Intn(6)
	if deep {
		links = 4 + r.Intn(9)
	}
	// direction of the links: mixed, or a V (both types travel DOWN towards a parameter in the middle: callees are walked before
	// their callers, so every link costs a pass), or the plain carrier chain with one link back up at the end
	mode := r.Intn(5)
	split := 1 + r.Intn(links-1) // mode 0: the array comes down `split` links and the scalar comes down the other links-split: a V
	if deep {
		// a known type climbs UP a whole chain within one pass, so the verdict takes about min(legs)+1 passes: balanced legs
		mode, split = 0, links/2+r.Intn(2)
	}
	if mode < 2 && (deep || r.Intn(3) != 0) {
		// a real chain: every parameter of the path in a function of its own, so the type moves one function per pass
		sh.nf = links + 1
		sh.fnOf = r.Perm(sh.nf)
	} else {
		prev := -1
		for i := 0; i <= links; i++ {
			f := r.Intn(sh.nf)
			for f == prev {
				f = r.Intn(sh.nf)
			}
			sh.fnOf = append(sh.fnOf, f)
			prev = f
		}
	}
	for i := 0; i < links; i++ {
		switch mode {
		case 0:
			sh.down = append(sh.down, i < split)
		case 1:
			sh.down = append(sh.down, i < links-1)
		default:
			sh.down = append(sh.down, r.Intn(3) != 0)
		}
	}
	sh.ends = []int{0, 0, 0, 0, 0, 0, 1, 1, 2, 3}[r.Intn(10)]
	if deep {
		sh.ends = r.Intn(2)
	}
	sh.akind, sh.skind = r.Intn(5), r.Intn(5)
	if r.Intn(4) == 0 {
		sh.mid = 1 + r.Intn(links-1)
	}
	sfx := append([]string(nil), relaySuffixPool...)
	r.Shuffle(len(sfx), func(i, j int) { sfx[i], sfx[j] = sfx[j], sfx[i] })
	sh.suffixes = sfx[:sh.nf]
	return sh
}

func arrayUse(kind int, v string) *node {
	switch kind {
	case 0:
		return sexpr(idx(v, num(1)))
	case 1:
		return sexpr(assignIdx(v, num(1), num(2)))
	case 2:
		return &node{K: "delete", V: v}
	case 3:
		return sexpr(&node{K: "split", V: v, A: []*node{num(0)}})
	default:
		return sexpr(&node{K: "in", V: v, A: []*node{num(1)}})
	}
}

func scalarUse(kind int, v string) *node {
	switch kind {
	case 0:
		return sexpr(assign(v, num(1)))
	case 1:
		return sexpr(&node{K: "incr", V: v})
	case 2:
		return printS(vr(v))
	case 3:
		return sexpr(&node{K: "sub", V: v})
	default:
		return printS(bin("+", vr(v), num(1)))
	}
}

// instantiate builds the functions of one group; name(j) names function j. Returns the functions and the ones nobody in the group calls.
func (sh relayShape) instantiate(name func(j int) string) (fns []*fdef, entries []string) {
	fns = make([]*fdef, sh.nf)
	for j := range fns {
		fns[j] = &fdef{Name: name(j)}
	}
	n := len(sh.fnOf)
	pidx := make([]int, n)
	pname := make([]string, n)
	for i := 0; i < n; i++ {
		f := fns[sh.fnOf[i]]
		pidx[i] = len(f.Params)
		pname[i] = fmt.Sprintf("p%d", i)
		f.Params = append(f.Params, pname[i])
	}
	stmts := make([][]*node, sh.nf)
	calledBy := make([]int, sh.nf)
	for i, dn := range sh.down {
		from, to := i, i+1
		if !dn {
			from, to = i+1, i
		}
		caller, callee := fns[sh.fnOf[from]], fns[sh.fnOf[to]]
		var args []*node
		for t := 0; t < pidx[to]; t++ {
			d := fmt.Sprintf("d%d_%d", i, t)
			caller.Params = append(caller.Params, d)
			args = append(args, vr(d))
		}
		args = append(args, vr(pname[from]))
		stmts[sh.fnOf[from]] = append(stmts[sh.fnOf[from]], sexpr(call(callee.Name, args...)))
		calledBy[sh.fnOf[to]]++
	}
	first, last := sh.fnOf[0], sh.fnOf[n-1]
	switch sh.ends {
	case 0:
		stmts[first] = append(stmts[first], arrayUse(sh.akind, pname[0]))
		stmts[last] = append(stmts[last], scalarUse(sh.skind, pname[n-1]))
	case 1:
		stmts[first] = append(stmts[first], scalarUse(sh.skind, pname[0]))
		stmts[last] = append(stmts[last], arrayUse(sh.akind, pname[n-1]))
	case 2:
		stmts[first] = append(stmts[first], arrayUse(sh.akind, pname[0]))
		stmts[last] = append(stmts[last], arrayUse((sh.akind+1)%5, pname[n-1]))
	default:
		stmts[first] = append(stmts[first], arrayUse(sh.akind, pname[0]))
	}
	if sh.mid >= 0 {
		stmts[sh.fnOf[sh.mid]] = append(stmts[sh.fnOf[sh.mid]], printS(&node{K: "lenv", V: pname[sh.mid]}))
	}
	for j, f := range fns {
		pr := rand.New(rand.NewSource(sh.permSeed + int64(j)))
		ss := stmts[j]
		pr.Shuffle(len(ss), func(a, b int) { ss[a], ss[b] = ss[b], ss[a] })
		f.Body = ss
		if calledBy[j] == 0 {
			entries = append(entries, f.Name)
		}
	}
	return fns, entries
}

type relayInfo struct {
	groups, links, fns int
	same               bool
	ends               int
}

// genRelay: a program of 2-4 such groups.
func genRelay(r *rand.Rand) (*prog, relayInfo) {
	pg := &prog{Shape: "multipass"}
	ng := []int{2, 2, 2, 3, 3, 4}[r.Intn(6)]
	same := r.Intn(2) == 0
	affix := r.Intn(2) // 0: the group letter is a prefix (groups sort one after the other), 1: a suffix (groups interleave)
	deep := r.Intn(3) == 0
	base := genRelayShape(r, deep)
	info := relayInfo{groups: ng, same: same, links: len(base.down), ends: base.ends}
	var entries []string
	for g := 0; g < ng; g++ {
		sh := base
		if !same && g > 0 {
			sh = genRelayShape(r, deep)
			if len(sh.down) > info.links {
				info.links = len(sh.down)
			}
		}
		letter := string(rune('a' + (g*7+r.Intn(3))%26))
		gi := g
		fns, ents := sh.instantiate(func(j int) string {
			if affix == 0 {
				return fmt.Sprintf("r%s%d%s", letter, gi, sh.suffixes[j])
			}
			return fmt.Sprintf("r%s%s%d", sh.suffixes[j], letter, gi)
		})
		if r.Intn(3) == 0 && len(fns) > 0 {
			ents = append(ents, fns[r.Intn(len(fns))].Name) // one more function called from BEGIN
		}
		pg.Fns = append(pg.Fns, fns...)
		entries = append(entries, ents...)
		info.fns += len(fns)
	}
	r.Shuffle(len(entries), func(i, j int) { entries[i], entries[j] = entries[j], entries[i] })
	var b []*node
	for _, e := range entries {
		b = append(b, sexpr(call(e)))
	}
	if r.Intn(5) == 0 { // now and then a global after all (it is new in the first pass only)
		b = append(b, sexpr(assign("gcount", num(1))))
	}
	pg.Begin = [][]*node{b}
	if r.Intn(2) == 0 {
		r.Shuffle(len(pg.Fns), func(i, j int) { pg.Fns[i], pg.Fns[j] = pg.Fns[j], pg.Fns[i] })
	}
	return pg, info
}

// the seeded shape C19-q1 was demonstrated on (two carrier chains; the clash of u's unused parameter surfaces in the second pass)
const multipassWitness = `function u1(q) { }
function c1(s) { u1(s) }
function m1(x, y) { x[1]; c1(x); u1(y); y = 1 }
function u2(q) { }
function c2(s) { u2(s) }
function m2(x, y) { x[1]; c2(x); u2(y); y = 1 }
BEGIN { m1(); m2() }
`
