package main

// C19 — parsing is deterministic; a parsed Program is immutable and shareable.
//
// Implementation-side oracle (no Lean in the loop):
//   determinism   the same source parsed again and again under Go's randomised map iteration (50x quick / 300x thorough for the
//                 corpus, fewer for the bulk of generated programs): byte-equal error text and position, Disassemble output,
//                 DebugTypes table, resolved tree (vh.DumpTree with positions), compiled code (vh.DumpCode), resolver tables;
//   immutability  tree + code + disassembly + resolver tables of one Program are dumped before and after executions (several inputs
//                 and variable settings, one after another and concurrently) and must be identical;
//   sharing       N goroutines, each with its own interpreter (interp.ExecProgram and interp.New + Execute twice), run one Program at
//                 the same time; every result must equal the result of a single execution. The same part is run once more in a child
//                 binary built with `go build -race` (when the race detector can be built here): any race report fails the case.
//                 This part is search only: no theorem speaks about goroutines or the heap.
// Correspondence: the full result (type table with indexes, or error + place) of the Lean model `GoawkModel.C16.parse` under three
// simulated map iteration orders (identity, reversed, rotated) against the real ParseProgram.

import (
	"bytes"
	"encoding/json"
	"fmt"
	"os"
	"os/exec"
	"path/filepath"
	"reflect"
	"sort"
	"strings"
	"sync"
	"time"

	"github.com/benhoyt/goawk/interp"
	"github.com/benhoyt/goawk/parser"

	"verifharness/vh"
)

func main() { vh.Main("C19", runC19) }

var nativeFuncs = map[string]interface{}{
	"nat1": func(a, b float64) float64 { return a + 2*b },
	"nat2": func(a, b float64) float64 { return a*3 + b },
	"abc":  func(a float64) float64 { return a + 1 },
	"notfn": 42, // a ParserConfig.Funcs value that is not a function (parse error when called)
	"zed":  func(s string) string { return s + "!" },
}

func funcsFor(names []string) map[string]interface{} {
	if len(names) == 0 {
		return nil
	}
	m := map[string]interface{}{}
	for _, n := range names {
		m[n] = nativeFuncs[n]
	}
	return m
}


func parseSrc(src string, funcs map[string]interface{}) (res parseResult) {
	defer func() {
		if r := recover(); r != nil {
			res = parseResult{panic_: fmt.Sprint(r)}
		}
	}()
	var dbg bytes.Buffer
	p, err := parser.ParseProgram([]byte(src), &parser.ParserConfig{DebugTypes: true, DebugWriter: &dbg, Funcs: funcs})
	if err != nil {
		if pe, ok := err.(*parser.ParseError); ok {
			return parseResult{msg: pe.Message, line: pe.Position.Line, col: pe.Position.Column}
		}
		return parseResult{msg: "non-parse-error: " + err.Error()}
	}
	return parseResult{ok: true, types: dbg.String(), prog: p}
}


// fingerprint of one parse: everything the property calls "the same verdict, error message and position, compiled program".
type fingerprint struct {
	verdict string // error text + position, or "ok"
	disasm  string
	rest    string // DebugTypes + tree + code + String()
}

func fingerprintOf(r parseResult) fingerprint {
	if r.panic_ != "" {
		return fingerprint{verdict: "panic: " + r.panic_}
	}
	if !r.ok {
		return fingerprint{verdict: fmt.Sprintf("error %d:%d %s", r.line, r.col, r.msg)}
	}
	return fingerprint{verdict: "ok", disasm: disasm(r.prog), rest: r.types + "\x00" + progDump(r.prog)}
}

func disasm(p *parser.Program) string {
	var b bytes.Buffer
	if err := p.Disassemble(&b); err != nil {
		return "disassemble error: " + err.Error()
	}
	return b.String()
}

func progDump(p *parser.Program) string {
	return vh.DumpTree(p, true) + "\x00" + vh.DumpCode(p) + "\x00" + p.String() + "\x00" + varTables(p)
}

type c19Case struct {
	Kind    string   `json:"kind"`
	Src     string   `json:"src"`
	Natives []string `json:"natives,omitempty"`
	Input   string   `json:"input,omitempty"`
	Note    string   `json:"note,omitempty"`
}

type source struct {
	kind    string
	src     string
	natives []string
	pg      *prog // structured form when generated (for the Lean correspondence)
	repeats int
}

func f22Source(k int, called bool) string {
	var sb strings.Builder
	names := []string{"zeta", "alpha", "mid", "beta", "omega", "gamma"}
	for i := 0; i < k; i++ {
		fmt.Fprintf(&sb, "function %s(a) { a[1]; a = 1 }\n", names[i%len(names)]+strings.Repeat("x", i/len(names)))
	}
	if called {
		sb.WriteString("BEGIN { ")
		for i := k - 1; i >= 0; i -= 2 {
			fmt.Fprintf(&sb, "%s(q%d); ", names[i%len(names)]+strings.Repeat("x", i/len(names)), i)
		}
		sb.WriteString("}\n")
	}
	return sb.String()
}

func corpusSources(c *vh.Ctx) []source {
	rep := c.N(50, 300)
	var ss []source
	add := func(kind, src string, natives ...string) { ss = append(ss, source{kind: kind, src: src, natives: natives, repeats: rep}) }
	// F22 (fixed): several independent type errors; the reported one must be stable
	add("f22-witness", "function f(a){a[1];a=1}\nfunction g(a){a[1];a=1}\nfunction h(a){a[1];a=1}\n")
	for _, k := range []int{2, 3, 6, 12} {
		add("multi-error", f22Source(k, false))
		add("multi-error-called", f22Source(k, true))
	}
	add("multi-error-main", "BEGIN { x[1]; x = 1; y = 1; y[1] }\nfunction f(a) { a[1]; a = 2 }\nEND { z = 1; z[2] }\n")
	add("multi-error-pass", "function f(a) { a[1] }\nfunction g(b) { b = 1 }\nBEGIN { f(x); g(x); f(y); g(y) }\n")
	add("multi-error-expr", "function f(a) { a[1] }\nfunction g(a) { a[1] }\nBEGIN { g(1); f(2) }\n")
	// G19-1 (fixed): natives and AWK functions together — the disassembly must be byte-identical and name the native
	add("g19-1-witness", "function f(a) { return a }\nBEGIN { print f(1), nat1(2, 3) }\n", "nat1")
	add("natives+awk", "function f(a) { return a+1 }\nfunction g(a) { return nat1(a, 1) + abc(a) }\nBEGIN { print f(1), g(2), nat2(3, 4), abc(4), zed(\"s\") }\n", "nat1", "nat2", "abc", "zed")
	add("natives-only", "BEGIN { print nat1(1, 2), nat2(3, 4), abc(4), zed(\"s\") }\n", "nat1", "nat2", "abc", "zed")
	// many globals (Appendix C: "globals indexed in map order instead of sorted")
	var sb strings.Builder
	sb.WriteString("BEGIN {\n")
	for i := 0; i < 24; i++ {
		fmt.Fprintf(&sb, "  v%c%d = %d; w%d[%d] = v%c%d\n", 'a'+byte((i*7)%26), i, i, (i*5)%24, i, 'a'+byte((i*7)%26), i)
	}
	sb.WriteString("}\n")
	for i := 0; i < 10; i++ {
		fmt.Fprintf(&sb, "function fn%c(p, q, r) { q[p] = r; return fn%c(p, q) }\n", 'a'+byte((i*3)%10), 'a'+byte((i*3+3)%10))
	}
	add("many-globals-functions", sb.String())
	add("constants", "BEGIN { print 1, 2.5, \"a\", \"b\", 1, \"a\", /x/, /y/, /x/; x = 2.5 \"b\"; if (x ~ /y/) print 1e3 }\n")
	add("multiexpr-error", "BEGIN { x = (1, 2); y = (3, 4) }\n")
	add("multiexpr-error2", "BEGIN {\n y = (3, 4)\n x = (1, 2) }\n")
	return ss
}

// varTables reads the resolver tables back through the public API (IterFuncs / IterVars; their callback types live in an
// internal package, so the callbacks are built by reflection).
func varTables(p *parser.Program) string {
	iter := func(method string, first []reflect.Value, f func(name string, info reflect.Value)) {
		m := reflect.ValueOf(p).MethodByName(method)
		cb := reflect.MakeFunc(m.Type().In(m.Type().NumIn()-1), func(args []reflect.Value) []reflect.Value {
			f(args[0].String(), args[1])
			return nil
		})
		m.Call(append(first, cb))
	}
	var lines []string
	scopes := []string{""}
	iter("IterFuncs", nil, func(name string, info reflect.Value) {
		lines = append(lines, fmt.Sprintf("func %s native=%v index=%d params=%v", name, info.FieldByName("Native").Bool(),
			info.FieldByName("Index").Int(), info.FieldByName("Params").Interface()))
		if !info.FieldByName("Native").Bool() {
			scopes = append(scopes, name)
		}
	})
	sort.Strings(lines)
	sort.Strings(scopes)
	for _, sc := range scopes {
		var vs []string
		iter("IterVars", []reflect.Value{reflect.ValueOf(sc)}, func(name string, info reflect.Value) {
			vs = append(vs, fmt.Sprintf("var %q.%s %d %d", sc, name, info.FieldByName("Type").Int(), info.FieldByName("Index").Int()))
		})
		sort.Strings(vs)
		lines = append(lines, vs...)
	}
	return strings.Join(lines, "\n")
}

// ---- programs for the immutability / sharing part ---------------------------------------------------------------------------------

type execProg struct {
	name    string
	src     string
	natives []string
	inputs  []string
	vars    [][]string
}

var execCorpus = []execProg{
	{"wordfreq", `{ for (i = 1; i <= NF; i++) { w = tolower($i); gsub(/[^a-z]/, "", w); if (w != "") cnt[w]++ } }
END { n = 0; for (k in cnt) { n++; tot += cnt[k]; if (cnt[k] > max || (cnt[k] == max && k < best)) { max = cnt[k]; best = k } } printf "%d %d %s %d\n", n, tot, best, max }`,
		nil, []string{"the quick brown fox\njumps over the lazy dog the end\n", "a b c a b a\n", ""}, nil},
	{"functions-arrays", `function fill(a, n,   i) { for (i = 1; i <= n; i++) a[i] = i * i; return n }
function sum(a, n,   i, s) { for (i = 1; i <= n; i++) s += a[i]; return s }
function fib(n) { return n < 2 ? n : fib(n-1) + fib(n-2) }
BEGIN { n = fill(sq, 10); print sum(sq, n), fib(15), length(sq); delete sq[3]; print length(sq), (3 in sq) }
{ split($0, parts, ","); for (i = 1; i in parts; i++) t += parts[i] }
END { print t + 0, NR }`, nil, []string{"1,2,3\n4,5\n", "10\n", ""}, nil},
	{"regex-dynamic", `BEGIN { re = "^[a-c]+" sfx }
{ if ($0 ~ re) m++; if (match($0, /[0-9]+/)) s += substr($0, RSTART, RLENGTH); x = $0; n += sub(/a/, "A", x); out = out x ";" }
END { printf "%d %d %d %s\n", m, s, n, out; print sprintf("%5.2f|%-4s|%c|%x", 3.14159, "ab", 65, 255) }`,
		nil, []string{"abc12\nzzz7\ncab\n", "aaa\n", ""}, [][]string{{"sfx", "$"}, {"sfx", ""}}},
	{"fields-assign", `{ $2 = "x"; NF = 3; $5 = NR; print; print NF }
END { print NR, FNR, length($0) }`, nil, []string{"a b c d\ne f\n", "1\n"}, [][]string{{"OFS", "-"}, {"FS", ","}}},
	{"natives", `function twice(x) { return nat1(x, x) }
{ s += nat2($1, twice($2)); t = t zed($1) }
END { print s, t, abc(s) }`, []string{"nat1", "nat2", "abc", "zed"}, []string{"1 2\n3 4\n", "5 6\n"}, nil},
	{"getline-printf", `BEGIN { while ((getline line) > 0) { n++; if (line ~ /^#/) continue; printf "%s:%d\n", line, length(line) }; print n; exit n }`,
		nil, []string{"#c\nabc\nde\n", "x\n"}, nil},
	{"constants", `BEGIN { x = 2.5; y = "s" x; print x * 2, y, 1e3, 0.1 + 0.2 } { t += $1 * 2.5; u = u "s" } END { print t, u, 2.5 }`,
		nil, []string{"1\n2\n", "4\n"}, nil},
	{"range-pattern", `/start/,/end/ { c++; print NR ": " $0 } END { print c + 0 }`, nil, []string{"a\nstart\nb\nend\nc\nstart\n", "start\nend\n"}, nil},
}

type execOutcome struct{ results []string }

func runOnce(p *parser.Program, ep execProg, k int, funcs map[string]interface{}) string {
	cfg := &interp.Config{Stdin: strings.NewReader(ep.inputs[k%len(ep.inputs)]), Funcs: funcs, Args: []string{}}
	if len(ep.vars) > 0 {
		cfg.Vars = ep.vars[k%len(ep.vars)]
	}
	return vh.ExecProg(p, cfg).String()
}

// runReused drives the reusable-interpreter API: one interpreter, Execute twice (second time after ResetVars).
func runReused(p *parser.Program, ep execProg, k int, funcs map[string]interface{}) (res string) {
	defer func() {
		if r := recover(); r != nil {
			res = "panic: " + fmt.Sprint(r)
		}
	}()
	it, err := interp.New(p)
	if err != nil {
		return "new: " + err.Error()
	}
	var all []string
	for rep := 0; rep < 2; rep++ {
		var out bytes.Buffer
		cfg := &interp.Config{Stdin: strings.NewReader(ep.inputs[k%len(ep.inputs)]), Funcs: funcs, Args: []string{}, Output: &out, Error: &out, Environ: []string{}}
		if len(ep.vars) > 0 {
			cfg.Vars = ep.vars[k%len(ep.vars)]
		}
		st, err := it.Execute(cfg)
		all = append(all, fmt.Sprintf("%q %d %v", out.String(), st, err))
		it.ResetVars()
	}
	return strings.Join(all, " / ")
}

// shareCheck: single executions give the reference results; then n goroutines run the same Program at the same time.
func shareCheck(c *vh.Ctx, ep execProg, goroutines, rounds int) {
	funcs := funcsFor(ep.natives)
	pr := parseSrc(ep.src, funcs)
	cs := c19Case{Kind: "share:" + ep.name, Src: ep.src, Natives: ep.natives}
	markCase(c19Case{Kind: cs.Kind, Src: ep.src, Natives: ep.natives, Input: ep.inputs[0], Note: fmt.Sprint(goroutines, " goroutines x ", rounds, " executions")})
	if !pr.ok {
		c.Fail(vh.Failure{Kind: "oracle", What: "sharing corpus program does not parse", Case: cs, Got: pr.msg + pr.panic_})
		return
	}
	p := pr.prog
	before := progDump(p) + "\x00" + disasm(p)
	nk := len(ep.inputs)
	if len(ep.vars) > nk {
		nk = len(ep.vars)
	}
	ref := make([]string, nk)
	refReused := make([]string, nk)
	for k := 0; k < nk; k++ {
		ref[k] = runOnce(p, ep, k, funcs)
		refReused[k] = runReused(p, ep, k, funcs)
	}
	c.OracleCase()
	if mid := progDump(p) + "\x00" + disasm(p); mid != before {
		c.Fail(vh.Failure{Kind: "oracle", What: "executing a Program modified it (tree/code/tables dump differs after sequential executions)", Case: cs})
		return
	}
	// a second round one after another must repeat the first
	for k := 0; k < nk; k++ {
		if r := runOnce(p, ep, k, funcs); r != ref[k] {
			c.Fail(vh.Failure{Kind: "oracle", What: "a later execution of the same Program differs from the first", Case: cs, Got: r, Want: ref[k]})
		}
	}
	var mu sync.Mutex
	var bad []vh.Failure
	var wg sync.WaitGroup
	for g := 0; g < goroutines; g++ {
		wg.Add(1)
		go func(g int) {
			defer wg.Done()
			for r := 0; r < rounds; r++ {
				k := (g + r) % nk
				var got, want string
				if (g+r)%3 == 0 {
					got, want = runReused(p, ep, k, funcs), refReused[k]
				} else {
					got, want = runOnce(p, ep, k, funcs), ref[k]
				}
				if got != want {
					mu.Lock()
					bad = append(bad, vh.Failure{Kind: "oracle", What: "concurrent execution over a shared Program differs from a single execution",
						Case: c19Case{Kind: cs.Kind, Src: ep.src, Natives: ep.natives, Input: ep.inputs[k%len(ep.inputs)]}, Got: got, Want: want})
					mu.Unlock()
				}
			}
		}(g)
	}
	wg.Wait()
	for i := 0; i < goroutines*rounds; i++ {
		c.OracleCase()
	}
	c.HitN("share:executions", goroutines*rounds)
	for _, f := range bad {
		c.Fail(f)
	}
	if after := progDump(p) + "\x00" + disasm(p); after != before {
		c.Fail(vh.Failure{Kind: "oracle", What: "executing a Program modified it (dump differs after concurrent executions)", Case: cs})
	}
}

func generatedExecProgs(c *vh.Ctx, n int) []execProg {
	var res []execProg
	for len(res) < n {
		pg := genRandom(c.Rng)
		src := pg.src(pg.defaultOrder(), nil)
		var nats []string
		nats = append(nats, pg.Natives...)
		if r := parseSrc(src, funcsFor(nats)); r.ok {
			res = append(res, execProg{name: "generated", src: src, natives: nats, inputs: []string{"", "a b\n"}})
		}
	}
	return res
}

func sharingPart(c *vh.Ctx) {
	g, rounds := c.N(8, 16), c.N(6, 40)
	for _, ep := range execCorpus {
		c.Hit("share:corpus-program")
		shareCheck(c, ep, g, rounds)
	}
	for _, ep := range generatedExecProgs(c, c.N(40, 400)) {
		c.Hit("share:generated-program")
		shareCheck(c, ep, c.N(4, 8), c.N(2, 6))
	}
	envSharing(c)
}

// raceChild: the sharing part again in a binary built with -race; the parent reads the race reports from its stderr.
func raceParent(c *vh.Ctx, freshCases []freshCase) {
	repo := os.Getenv("VERIF_REPO")
	if repo == "" {
		repo = "/repo"
	}
	dir, err := os.MkdirTemp("", "c19race")
	if err != nil {
		c.Note("race run skipped: " + err.Error())
		return
	}
	defer os.RemoveAll(dir)
	mod, err := os.ReadFile("/verif/harness/go.mod")
	if err != nil {
		c.Note("race run skipped: " + err.Error())
		return
	}
	mf := filepath.Join(dir, "go.mod")
	os.WriteFile(mf, bytes.ReplaceAll(mod, []byte("=> /repo"), []byte("=> "+repo)), 0o644)
	bin := filepath.Join(dir, "vh_c19_race")
	build := exec.Command("go", "build", "-race", "-tags", "verif", "-modfile", mf, "-o", bin, "./c19")
	build.Dir = "/verif/harness"
	build.Env = append(os.Environ(), "GOFLAGS=-mod=mod", "GOPROXY=off", "GOSUMDB=off", "GOTOOLCHAIN=local", "CGO_ENABLED=1")
	if out, err := build.CombinedOutput(); err != nil {
		c.Note("race detector not available here, sharing part ran without it: " + strings.TrimSpace(lastLines(string(out), 3)))
		c.Hit("race:unavailable")
		return
	}
	outFile := filepath.Join(dir, "child.json")
	casesFile, progress := writeFreshCases(dir, "cases.json", freshCases), filepath.Join(dir, "progress")
	child := exec.Command(bin, "--tier", c.Tier, "--seed", fmt.Sprint(c.Seed), "--out", outFile, "--drv", "none")
	child.Dir = dir
	child.Env = append(os.Environ(), "VH_C19_CHILD=1", "GORACE=halt_on_error=0", "VH_C19_CASES="+casesFile, "VH_C19_PROGRESS="+progress)
	var stderr bytes.Buffer
	child.Stderr = &stderr
	child.Stdout = &stderr
	err = child.Run()
	races := strings.Count(stderr.String(), "WARNING: DATA RACE")
	c.Hit("race:child-run")
	c.HitN("race:reports", races)
	c.OracleCase()
	_, merged := mergeChild(c, outFile, "race:")
	if races > 0 {
		// a race in the first-use stream has a concrete input: the case the child was working on when the first report was printed
		cs := c19Case{Kind: "race", Note: firstRace(stderr.String())}
		if in, ok := raceCaseOf(stderr.String()); ok {
			cs.Kind, cs.Src, cs.Natives, cs.Input = "race:"+in.Kind, in.Src, in.Natives, in.Input
			cs.Note = "executed from several goroutines at once in the -race build (" + in.Note + ")\n" + cs.Note
		}
		c.Fail(vh.Failure{Kind: "oracle", What: "data race while several interpreters execute one shared Program", Case: cs,
			Got: fmt.Sprint(races, " race reports")})
	} else if err != nil || !merged {
		if b, e := os.ReadFile(progress); e == nil && string(b) != "done" {
			reportDeadChild(c, "the race-enabled process died while several goroutines made the first use of a freshly parsed Program", freshCases, progress, stderr.String(), err)
		} else {
			c.Fail(vh.Failure{Kind: "oracle", What: "race-enabled sharing run failed", Case: c19Case{Kind: "race", Note: crashHead(stderr.String())}, Got: fmt.Sprint(err)})
		}
	}
}

// markCase (child side): a line on stderr saying which program is about to be executed; raceCaseOf (parent side): the program
// the first race report belongs to = the last such line before it.
const caseMarker = "C19-CASE "

func markCase(cs c19Case) {
	if os.Getenv("VH_C19_CHILD") != "" {
		b, _ := json.Marshal(cs)
		fmt.Fprintf(os.Stderr, "%s%s\n", caseMarker, b)
	}
}

func raceCaseOf(stderr string) (c19Case, bool) {
	var cs c19Case
	at := strings.Index(stderr, "WARNING: DATA RACE")
	if at < 0 {
		return cs, false
	}
	m := strings.LastIndex(stderr[:at], caseMarker)
	if m < 0 {
		return cs, false
	}
	line := stderr[m+len(caseMarker):]
	if nl := strings.IndexByte(line, '\n'); nl >= 0 {
		line = line[:nl]
	}
	return cs, json.Unmarshal([]byte(line), &cs) == nil
}

func firstRace(s string) string {
	i := strings.Index(s, "WARNING: DATA RACE")
	if i < 0 {
		return ""
	}
	s = s[i:]
	if len(s) > 3000 {
		s = s[:3000]
	}
	return s
}

func lastLines(s string, n int) string {
	ls := strings.Split(strings.TrimSpace(s), "\n")
	if len(ls) > n {
		ls = ls[len(ls)-n:]
	}
	return strings.Join(ls, "\n")
}

func runC19(c *vh.Ctx) {
	switch os.Getenv("VH_C19_CHILD") {
	case "1": // the -race child: the first-use cases first (their races are the ones a sequential warm-up would hide), then the sharing part
		freshChild(c)
		sharingPart(c)
		return
	case "fresh":
		freshChild(c)
		return
	}
	c.Rule("determinism: a corpus (sources with 2-12 independent type errors in called and uncalled functions, natives mixed with AWK " +
		"functions, 24 globals + 10 mutually recursive functions, repeated constants, two unused comma expressions) parsed 50x/300x, and " +
		"the structured programs of C16's generators parsed 8x/30x, and invalid programs with 2-5 independent error sites of 26 kinds (parser, " +
		"end-of-parse comma-grouping check, resolver) on different lines with random indentation parsed 50x/300x, and programs whose verdict " +
		"needs 2-7 resolver passes (2-4 independent groups of 2-13 functions; in each a path of 2-12 call links between parameters, each link " +
		"caller->callee or callee->caller, array use at one end and scalar use at the other, no global involved, shuffled statements and " +
		"names; half of them with identically shaped groups) parsed 50x/300x; sharing: 8 corpus programs (arrays, recursion, dynamic regexes, constants, field " +
		"assignment, natives, getline, range patterns) x inputs x -v settings, accepted generated programs, and 5 programs using system(), " +
		"command pipes in both directions, output/input files, ENVIRON, srand/rand, printf, dynamic regexes with a distinct identity per " +
		"execution, each executed from 4-16 goroutines, also under the race detector; first use: programs with 50-500 globals (scalars, arrays, " +
		"functions, natives, late -v globals), every round a NEW parse released to 8-32 goroutines at once (ExecProgram / New+Execute / " +
		"ExecuteContext / ResetVars, sometimes with concurrent Disassemble/String readers) in a child process, compared with a sequential " +
		"run of another parse, also under the race detector; non-trivial = a source with at least one function (determinism) / every sharing case")

	t0 := time.Now()
	var phases []string
	phase := func(name string) {
		phases = append(phases, fmt.Sprintf("%s %.1fs", name, time.Since(t0).Seconds()))
		t0 = time.Now()
	}
	defer func() { c.Note("phases: " + strings.Join(phases, ", ")) }()
	// ---- determinism ----
	sources := corpusSources(c)
	nGen := c.N(400, 4000)
	genRep := c.N(8, 30)
	for i := 0; i < nGen; i++ {
		var pg *prog
		switch c.Rng.Intn(8) {
		case 0:
			pg = genCycle(c.Rng, 2+c.Rng.Intn(6), c.Rng.Intn(2) == 0)
		case 1:
			pg = genChain(c.Rng, 1+c.Rng.Intn(30), c.Rng.Intn(3), c.Rng.Intn(3), c.Rng.Intn(3), c.Rng.Intn(2) == 0)
		default:
			pg = genRandom(c.Rng)
		}
		sources = append(sources, source{kind: "generated:" + pg.Shape, src: pg.src(pg.defaultOrder(), nil), natives: pg.Natives, pg: pg, repeats: genRep})
	}
	// invalid programs with several independent error sites of every kind, columns in both orders
	nErr := c.N(120, 1200)
	for i := 0; i < nErr; i++ {
		var src string
		kind := "errsites"
		var nats []string
		switch i % 4 {
		case 0:
			src = genMultiExprOnly(c.Rng)
			kind = "errsites-multiexpr"
		case 1:
			src, _ = genErrSites(c.Rng, true)
			kind = "errsites-all"
			nats = []string{"notfn"}
		default:
			src, _ = genErrSites(c.Rng, false)
			kind = "errsites-late"
			nats = []string{"notfn"}
		}
		sources = append(sources, source{kind: kind, src: src, natives: nats, repeats: c.N(50, 300)})
	}
	// programs whose verdict needs several resolver passes (multipass.go)
	sources = append(sources, source{kind: "multipass-witness", src: multipassWitness, repeats: c.N(50, 300)})
	nRelay := c.N(300, 2400)
	relayInfos := map[int]relayInfo{}
	for i := 0; i < nRelay; i++ {
		pg, info := genRelay(c.Rng)
		relayInfos[len(sources)] = info
		sources = append(sources, source{kind: "multipass", src: pg.src(pg.defaultOrder(), nil), pg: pg, repeats: c.N(50, 300)})
	}
	type detOut struct {
		first    parseResult
		fp       fingerprint
		diffs    []vh.Failure
		distinct int
	}
	outs := make([]detOut, len(sources))
	vh.Parallel(len(sources), func(i int) {
		s := sources[i]
		funcs := funcsFor(s.natives)
		o := &outs[i]
		o.first = parseSrc(s.src, funcs)
		o.fp = fingerprintOf(o.first)
		seen := map[fingerprint]bool{o.fp: true}
		for k := 1; k < s.repeats; k++ {
			fp := fingerprintOf(parseSrc(s.src, funcs))
			if seen[fp] {
				continue
			}
			seen[fp] = true
			cs := c19Case{Kind: s.kind, Src: s.src, Natives: s.natives}
			switch {
			case fp.verdict != o.fp.verdict:
				o.diffs = append(o.diffs, vh.Failure{Kind: "oracle", What: "two parses of one source give different verdicts / error messages / positions", Case: cs, Got: fp.verdict, Want: o.fp.verdict})
			case fp.rest != o.fp.rest:
				o.diffs = append(o.diffs, vh.Failure{Kind: "oracle", What: "two parses of one source give different trees / type tables / compiled code", Case: cs})
			default:
				o.diffs = append(o.diffs, vh.Failure{Kind: "oracle", What: "two parses of one source disassemble differently",
					Case: cs, Got: diffLine(fp.disasm, o.fp.disasm), Want: "byte-equal disassembly"})
			}
		}
		o.distinct = len(seen)
	})
	for i, s := range sources {
		o := &outs[i]
		c.Eval(s.src, strings.Contains(s.src, "function "))
		for k := 0; k < s.repeats; k++ {
			c.OracleCase()
		}
		c.Hit("det:" + strings.SplitN(s.kind, ":", 2)[0])
		if o.first.ok {
			c.Hit("det:verdict:accepted")
		} else {
			c.Hit("det:verdict:rejected")
			if strings.HasPrefix(s.kind, "errsites") {
				m := o.first.msg
				if i := strings.IndexAny(m, "\"0123456789"); i > 0 {
					m = m[:i]
				}
				c.Hit("det:errsites-reported:" + strings.TrimSpace(m))
			}
		}
		if strings.HasPrefix(s.kind, "errsites") && o.first.ok {
			c.Fail(vh.Failure{Kind: "oracle", What: "a program with several error sites was accepted", Case: c19Case{Kind: s.kind, Src: s.src, Natives: s.natives}})
		}
		if info, ok := relayInfos[i]; ok {
			c.Hit(fmt.Sprintf("det:multipass-groups:%d", info.groups))
			c.Hit(fmt.Sprintf("det:multipass-max-links:%d", info.links))
			c.Hit(fmt.Sprintf("det:multipass-functions:%s", map[bool]string{true: "2-8", false: "9+"}[info.fns <= 8]))
			c.Hit(fmt.Sprintf("det:multipass-same-shape:%v", info.same))
			c.Hit("det:multipass-verdict:" + map[bool]string{true: "accepted", false: "rejected"}[o.first.ok])
		}
		c.Hit(fmt.Sprintf("det:distinct-results:%d", o.distinct))
		if i%499 == 0 {
			c.Sample(map[string]interface{}{"kind": s.kind, "src": s.src, "verdict": o.fp.verdict, "parses": s.repeats})
		}
		for _, f := range o.diffs {
			c.Fail(f)
		}
		// the disassembly names a native function in every CallNative operand (regression of the repaired G19-1)
		if o.first.ok && len(s.natives) > 0 {
			for _, ln := range strings.Split(o.fp.disasm, "\n") {
				fs := strings.Fields(ln)
				if len(fs) == 4 && fs[1] == "CallNative" {
					if _, ok := nativeFuncs[fs[2]]; !ok {
						c.Fail(vh.Failure{Kind: "oracle", What: "Disassemble names a function that is not native in a CallNative operand",
							Case: c19Case{Kind: s.kind, Src: s.src, Natives: s.natives}, Got: ln})
						break
					}
				}
			}
		}
	}

	phase("repeated-parses")
	// ---- determinism across histories: each source once, in random orders, after other (also aborted) parses ----
	{
		var items []interleaveItem
		step := len(sources)/c.N(150, 1200) + 1
		for i := 0; i < len(sources); i += step {
			if outs[i].first.panic_ == "" {
				items = append(items, interleaveItem{src: sources[i].src, natives: sources[i].natives, kind: sources[i].kind, ref: outs[i].fp})
			}
		}
		interleavedHistories(c, items)
	}

	phase("interleaved-histories")
	// ---- immutability and sharing ----
	if os.Getenv("VH_C19_ONLY") != "det" { // (debugging aid: VH_C19_ONLY=det runs the determinism streams and the correspondence only)
		sharingPart(c)
		phase("sharing")
		raceCases := freshParent(c)
		phase("first-use-child")
		raceParent(c, raceCases)
		phase("race-child")
	}
	defer phase("lean-correspondence")

	// ---- correspondence ----
	if c.HasLean() {
		var reqs []string
		var idx []int
		for i, s := range sources {
			if s.pg == nil || outs[i].first.panic_ != "" {
				continue
			}
			fl := s.pg.flatten()
			rk := ranks(s.pg.identifiers())
			body := s.pg.leanProgram(fl, rk)
			for _, it := range []string{"id", "rev", "rot"} {
				reqs = append(reqs, "parse "+it+" "+body)
				idx = append(idx, i)
			}
		}
		// in which pass the model reaches the verdict of a multipass program (the parse correspondence below ties that model to the code)
		{
			var preqs []string
			var pidx []int
			for i, s := range sources {
				if _, ok := relayInfos[i]; ok && outs[i].first.panic_ == "" {
					preqs = append(preqs, "passes id "+s.pg.leanProgram(s.pg.flatten(), ranks(s.pg.identifiers())))
					pidx = append(pidx, i)
				}
			}
			for k, a := range c.LeanBatch(preqs) {
				v := map[bool]string{true: "accepted", false: "rejected"}[outs[pidx[k]].first.ok]
				c.Hit("det:multipass-" + v + "-in-pass:" + strings.TrimPrefix(a, "passes "))
			}
		}
		ans := c.LeanBatch(reqs)
		for k := 0; k+2 < len(ans); k += 3 {
			i := idx[k]
			s := sources[i]
			c.Trace()
			cs := c19Case{Kind: s.kind, Src: s.src, Natives: s.natives, Note: reqs[k]}
			if ans[k] != ans[k+1] || ans[k] != ans[k+2] {
				c.Fail(vh.Failure{Kind: "correspondence", What: "the Lean parse depends on the simulated map iteration order (contradicts parse_deterministic)", Case: cs, Got: ans[k+1] + " | " + ans[k+2], Want: ans[k]})
				continue
			}
			fl := s.pg.flatten()
			rk := ranks(s.pg.identifiers())
			cands := leanExpectation(s.pg, fl, rk, outs[i].first)
			match := false
			for _, w := range cands {
				match = match || normSpaces(ans[k]) == normSpaces(w)
			}
			if !match {
				c.Fail(vh.Failure{Kind: "correspondence", What: "Lean parse and parser.ParseProgram disagree (verdict / type table / reported error)", Case: cs, Got: strings.Join(cands, " | "), Want: ans[k]})
			}
		}
	}
}

func diffLine(a, b string) string {
	la, lb := strings.Split(a, "\n"), strings.Split(b, "\n")
	for i := range la {
		if i >= len(lb) || la[i] != lb[i] {
			o := ""
			if i < len(lb) {
				o = lb[i]
			}
			return fmt.Sprintf("line %d: %q vs %q", i+1, la[i], o)
		}
	}
	return "length differs"
}
