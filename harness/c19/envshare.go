package main

// Sharing, part 2: programs that use the interpreter's environment-facing machinery — system(), command pipes in both directions,
// ENVIRON, srand/rand, printf formats, dynamic regexes, getline from files, output files — executed from N goroutines over ONE
// parsed Program with Config.ShellCommand left empty (the package default). Every execution gets its own identity (-v ID=…, its own
// ENVIRON, seed and file names below a scratch directory), so that any cross-talk between executions shows in the output. Each
// identity is first executed alone (the reference), then all of them at the same time.
//
// Output pipes are closed before anything else is written to standard output, and they write to files rather than to the shared
// stdout, so the recorded C13 finding F25 (a live `|` command sharing the stdout writer) cannot be what a failure here is about.

import (
	"fmt"
	"os"
	"strings"
	"sync"

	"github.com/benhoyt/goawk/interp"
	"github.com/benhoyt/goawk/parser"

	"verifharness/vh"
)

var envProgs = []struct{ name, src string }{
	{"system", `BEGIN { r = system("echo sys-" ID); r2 = system("exit 3"); print "status", r, r2; system("echo again-" ID " $C19VAR") }`},
	{"cmd-getline", `BEGIN { c = "echo pipe-" ID "; echo second-" ID; while ((c | getline x) > 0) print "got:" x; close(c)
  "echo one-" ID | getline y; print y; "printf %s " ID | getline z; print "[" z "]" }`},
	{"print-to-cmd-and-files", `BEGIN { f = DIR "/" ID ".txt"; cmd = "cat > " f
  for (i = 1; i <= 3; i++) print "file-" ID "-" i | cmd
  close(cmd)
  while ((getline line < f) > 0) print "read:" line
  close(f)
  o = DIR "/" ID ".out"; print "direct-" ID > o; printf "%s|%05.1f\n", ID, 2.5 >> o; close(o)
  while ((getline line < o) > 0) print "out:" line
  cmd2 = "sort > " DIR "/" ID ".srt"; print "b-" ID | cmd2; print "a-" ID | cmd2; close(cmd2)
  while ((getline line < (DIR "/" ID ".srt")) > 0) print "sorted:" line }`},
	{"environ-rand-printf-regex", `BEGIN { srand(SEED); a = int(rand() * 100000); b = int(rand() * 100000); srand(SEED); c = int(rand() * 100000)
  print ENVIRON["C19VAR"], a, b, (a == c)
  printf "%5.2f|%-8s|%03d|%c|%x|%e\n", 3.14159, ID, SEED, 65, 255, SEED
  re = "^g" SEED "-"; print (ID ~ re), match(ID, "-[0-9]+$"), RSTART
  s = ID; n = gsub(/[0-9]/, "#", s); print n, s; print (length(ENVIRON) > 0) }`},
	{"mixed", `function sh(c,   l, out) { while ((c | getline l) > 0) out = out l ";"; close(c); return out }
{ t = t sh("echo " $1 "-" ID) }
END { print t; system("echo end-" ID); print ENVIRON["C19VAR"] }`},
}

type envIdent struct {
	id   string
	seed int
}

// Standard input is /dev/null opened as an *os.File and the records come from a file operand: os/exec hands a file descriptor to the
// child directly, whereas any other io.Reader would be copied to every child by a goroutine of its own — and two unclosed
// `cmd | getline` children of ONE execution then race on that reader (a single-interpreter matter of the F25 family, not C19's).
func runEnv(prog *parser.Program, dir string, idn envIdent) string {
	null, err := os.Open(os.DevNull)
	if err != nil {
		return "cannot open " + os.DevNull
	}
	defer null.Close()
	cfg := &interp.Config{
		Stdin:   null,
		Vars:    []string{"ID", idn.id, "DIR", dir, "SEED", fmt.Sprint(idn.seed)},
		Environ: []string{"C19VAR", "env-" + idn.id, "PATH", os.Getenv("PATH")},
		Args:    []string{dir + "/records.txt"},
	}
	return vh.ExecProg(prog, cfg).String()
}

func envSharing(c *vh.Ctx) {
	if _, err := os.Stat("/bin/sh"); err != nil {
		c.Note("no /bin/sh here: the shell/file part of the sharing stream was skipped")
		return
	}
	dir, err := os.MkdirTemp("", "c19env")
	if err != nil {
		c.Note("no scratch directory: " + err.Error())
		return
	}
	defer os.RemoveAll(dir)
	os.WriteFile(dir+"/records.txt", []byte("r1\nr2\n"), 0o644)
	goroutines, rounds := c.N(8, 16), c.N(3, 12)
	for _, ep := range envProgs {
		pr := parseSrc(ep.src, nil)
		cs := c19Case{Kind: "share-env:" + ep.name, Src: ep.src}
		markCase(c19Case{Kind: cs.Kind, Src: ep.src, Input: "-v ID=<own id> -v DIR=<scratch> -v SEED=<n>, ENVIRON C19VAR=env-<own id>, operand file with records r1, r2",
			Note: fmt.Sprint(goroutines, " goroutines x ", rounds, " executions, Config.ShellCommand empty")})
		if !pr.ok {
			c.Fail(vh.Failure{Kind: "oracle", What: "sharing corpus program does not parse", Case: cs, Got: pr.msg + pr.panic_})
			continue
		}
		before := progDump(pr.prog) + "\x00" + disasm(pr.prog)
		idents := make([]envIdent, goroutines*rounds)
		ref := make([]string, len(idents))
		for i := range idents {
			idents[i] = envIdent{fmt.Sprintf("g%d-%d", 1000+c.Rng.Intn(9000), i), 1000 + c.Rng.Intn(9000)}
			idents[i].id = fmt.Sprintf("g%d-%d", idents[i].seed, i)
			// the reference itself can be disturbed by load (system() returning -1 when os/exec's WaitDelay expires): it is taken
			// only when two consecutive single executions agree (thorough seed 8 reported a concurrent run that was right
			// against a reference that was not)
			ref[i] = runEnv(pr.prog, dir, idents[i])
			for try := 0; try < 4; try++ {
				again := runEnv(pr.prog, dir, idents[i])
				if again == ref[i] {
					break
				}
				ref[i] = again
				c.Hit("share:env-reference-retaken")
			}
			if !strings.Contains(ref[i], idents[i].id) {
				c.Fail(vh.Failure{Kind: "oracle", What: "a single execution does not show its own identity (shell or files unusable?)", Case: cs, Got: ref[i]})
			}
		}
		var mu sync.Mutex
		var bad []vh.Failure
		var wg sync.WaitGroup
		for g := 0; g < goroutines; g++ {
			wg.Add(1)
			go func(g int) {
				defer wg.Done()
				for r := 0; r < rounds; r++ {
					i := g*rounds + r
					if got := runEnv(pr.prog, dir, idents[i]); got != ref[i] {
						mu.Lock()
						bad = append(bad, vh.Failure{Kind: "oracle", What: "concurrent execution over a shared Program differs from a single execution (commands, files, ENVIRON, rand)",
							Case: c19Case{Kind: cs.Kind, Src: ep.src, Input: "ID=" + idents[i].id}, Got: got, Want: ref[i]})
						mu.Unlock()
					}
				}
			}(g)
		}
		wg.Wait()
		for range idents {
			c.OracleCase()
			c.OracleCase()
		}
		c.Hit("share:env-program")
		c.HitN("share:env-executions", 2*len(idents))
		c.Eval(ep.src, true)
		for _, f := range bad {
			// A difference that shows ANOTHER execution's identity is cross-talk: report at once. Any other difference
			// (system() returning -1, missing child output) can be os/exec's 250 ms WaitDelay expiring on a loaded
			// machine: re-run that identity three more times next to other concurrent executions and report it only
			// if it never matches.
			foreign := false
			for _, id := range idents {
				if "ID="+id.id != f.Case.(c19Case).Input && strings.Contains(f.Got, id.id) {
					foreign = true
				}
			}
			if !foreign {
				var me envIdent
				var want string
				for i, id := range idents {
					if "ID="+id.id == f.Case.(c19Case).Input {
						me, want = id, ref[i]
					}
				}
				matched := false
				for try := 0; try < 3 && !matched; try++ {
					var wg2 sync.WaitGroup
					for k := 0; k < 3 && k < len(idents); k++ {
						wg2.Add(1)
						go func(k int) { defer wg2.Done(); runEnv(pr.prog, dir, idents[k]) }(k)
					}
					if runEnv(pr.prog, dir, me) == want {
						matched = true
					}
					wg2.Wait()
				}
				if matched {
					c.Hit("share:env-retry-matched (load-sensitive difference, not reported)")
					continue
				}
			}
			c.Fail(f)
		}
		if after := progDump(pr.prog) + "\x00" + disasm(pr.prog); after != before {
			c.Fail(vh.Failure{Kind: "oracle", What: "executing a Program modified it (dump differs after shell/file executions)", Case: cs})
		}
	}
}
