package main

// Further implementation-side oracles for C07 (added after mutation rehearsal):
//  * reference split: for a regex RS the records of a one-piece delivery must equal an all-at-once split of the same
//    bytes computed with Go's regexp directly (leftmost-longest, empty matches ignored);
//  * retention: records stored by the program (a[NR]=$0; first=$0 then getline) must still be the input's records at
//    END, for inputs several times the 64 KiB scanner buffer (catches records aliasing the scanner's buffer);
//  * concurrent sources: the main input and two getline files read in lockstep must each deliver their own records.

import (
	"bytes"
	"fmt"
	"os"
	"path/filepath"
	"regexp"
	"strings"

	"github.com/benhoyt/goawk/interp"

	"verifharness/vh"
)

func c07RefSplit(re *regexp.Regexp, input []byte) []c07Rec {
	var recs []c07Rec
	rest := input
	n := 0
	for len(rest) > 0 {
		n++
		loc := re.FindIndex(rest)
		if loc == nil || loc[0] == loc[1] {
			recs = append(recs, c07Rec{n, n, rest, nil})
			break
		}
		recs = append(recs, c07Rec{n, n, rest[:loc[0]], rest[loc[0]:loc[1]]})
		rest = rest[loc[1]:]
	}
	return recs
}

func runC07Extra(c *vh.Ctx) {
	// ---- reference split for regex RS, incl. inputs that straddle the 64 KiB buffer edge --------------------------
	regs := []struct{ re, alpha string }{
		{"x+y", "xxxya"}, {"a+b", "aaab\n"}, {"(ab)+c", "ababc"}, {"ab", "aabbc"}, {"X+", "XXab"}, {"[xy]z", "xyzza"},
		{"é", "\xc3\xa9\xc3ab"}, {"a|bc", "abcc"}, {"x*y", "xxya"}, {"\r?\n", "a\r\n\n"}, {"ab*c", "abbbc"},
	}
	nIn := c.N(120, 1500)
	type job struct {
		re     string
		input  []byte
		chunks [][]byte
	}
	var jobs []job
	for _, r := range regs {
		for k := 0; k < nIn; k++ {
			n := 1 + c.Rng.Intn(14)
			in := make([]byte, n)
			for i := range in {
				in[i] = r.alpha[c.Rng.Intn(len(r.alpha))]
			}
			jobs = append(jobs, job{r.re, in, [][]byte{in}})
			// a random chunking and the byte-at-a-time one
			var cuts []int
			all := make([]int, 0, n)
			for p := 1; p < n; p++ {
				all = append(all, p)
				if c.Rng.Intn(3) == 0 {
					cuts = append(cuts, p)
				}
			}
			jobs = append(jobs, job{r.re, in, vh.Cut(in, cuts)}, job{r.re, in, vh.Cut(in, all)})
		}
		// long separator runs placed across the 64 KiB edge (one Read can deliver at most the buffer size)
		for e := 0; e < c.N(2, 8); e++ {
			in := bytes.Repeat([]byte{'q'}, 65536+200)
			pos := 65536 - 12 + c.Rng.Intn(10)
			for i := 0; i < 30; i++ {
				in[pos+i] = r.alpha[c.Rng.Intn(len(r.alpha))]
			}
			run := strings.Repeat(r.alpha[:1], 9+c.Rng.Intn(8)) + r.alpha[len(r.alpha)-2:len(r.alpha)-1]
			copy(in[65536-4-c.Rng.Intn(8):], run)
			jobs = append(jobs, job{r.re, in, [][]byte{in}}, job{r.re, in, vh.Cut(in, []int{1})}, job{r.re, in, vh.Cut(in, []int{65530})})
		}
	}
	type outT struct {
		recs []c07Rec
		res  vh.RunResult
	}
	outs := make([]outT, len(jobs))
	vh.Parallel(len(jobs), func(i int) {
		r, res := c07Run([]byte(jobs[i].re), jobs[i].chunks)
		outs[i] = outT{r, res}
	})
	for i, j := range jobs {
		re := regexp.MustCompile(j.re)
		re.Longest()
		m := c07Mode{"regex", []byte(j.re), nil}
		cs := c07Case{"regex-ref", vh.Hx([]byte(j.re)), vh.Hx(j.input), vh.HexChunks(j.chunks)}
		if len(j.input) > 200 {
			cs.Input = fmt.Sprintf("len=%d window=%s", len(j.input), vh.Hx(j.input[65536-24:65536+24]))
			cs.Chunks = []string{fmt.Sprint(len(j.chunks), " chunks; first ", len(j.chunks[0]))}
		}
		c.Eval("ref|"+j.re+"|"+string(j.input)+"|"+fmt.Sprint(len(j.chunks)), len(outs[i].recs) > 1)
		c.OracleCase()
		c.Hit("stream:regex-reference")
		if outs[i].res.Panic != "" || outs[i].res.Err != "" {
			c.Fail(vh.Failure{Kind: "oracle", What: "run failed: " + outs[i].res.String(), Case: cs})
			continue
		}
		want := c07CanonNoNR(c07RefSplit(re, j.input))
		got := c07CanonNoNR(outs[i].recs)
		if got != want {
			if len(got) > 400 {
				got, want = got[len(got)-400:], want[max(0, len(want)-400):]
			}
			c.Fail(vh.Failure{Kind: "oracle", What: "records differ from the all-at-once reference split of the same bytes",
				Finding: c07Classify(m, j.input, "ref"), Case: cs, Got: got, Want: want})
		}
	}

	// ---- retention and concurrent sources --------------------------------------------------------------------------
	dir, err := os.MkdirTemp("", "c07x")
	if err != nil {
		panic(err)
	}
	defer os.RemoveAll(dir)
	mk := func(tag string, n int) ([]byte, []string) {
		var b bytes.Buffer
		var lines []string
		for i := 0; i < n; i++ {
			l := fmt.Sprintf("%s line %06d %s", tag, i, strings.Repeat("z", c.Rng.Intn(30)))
			lines = append(lines, l)
			b.WriteString(l)
			b.WriteByte('\n')
		}
		return b.Bytes(), lines
	}
	for rep := 0; rep < c.N(2, 6); rep++ {
		nLines := 4000 + c.Rng.Intn(3000) // ≈ 150–250 KiB: several buffer compactions
		data, lines := mk("m", nLines)
		want := strings.Join(lines, "\n") + "\n"
		for _, chunking := range []string{"whole", "4096", "odd"} {
			var chunks [][]byte
			switch chunking {
			case "whole":
				chunks = [][]byte{data}
			case "4096":
				for p := 0; p < len(data); p += 4096 {
					chunks = append(chunks, data[p:min(p+4096, len(data))])
				}
			default:
				for p := 0; p < len(data); {
					n := 1 + c.Rng.Intn(9000)
					chunks = append(chunks, data[p:min(p+n, len(data))])
					p += n
				}
			}
			for _, prog := range []string{
				`{ a[NR] = $0 } END { for (i = 1; i <= NR; i++) print a[i] }`,
				`{ first = $0; if ((getline second) > 0) { print first; print second } else print first }`,
				`{ f = $1 " " $2 " " $3 " " $4; keep[NR] = f } END { for (i = 1; i <= NR; i++) print keep[i] }`,
			} {
				res := vh.ExecProg(vh.MustParse(prog), &interp.Config{Stdin: vh.NewChunkReader(chunks)})
				c.Eval("retain|"+chunking+"|"+prog+fmt.Sprint(rep), true)
				c.OracleCase()
				c.Hit("stream:retention")
				w := want
				if strings.Contains(prog, "keep[NR]") {
					var b strings.Builder
					for _, l := range lines {
						f := append(strings.Fields(l), "", "", "", "")[:4]
						b.WriteString(strings.Join(f, " "))
						b.WriteByte('\n')
					}
					w = b.String()
				}
				if res.Out != w || res.Err != "" || res.Panic != "" {
					k := 0
					for k < len(res.Out) && k < len(w) && res.Out[k] == w[k] {
						k++
					}
					c.Fail(vh.Failure{Kind: "oracle", What: "records kept by the program are not the input's records at END",
						Case: map[string]interface{}{"stream": "retention", "program": prog, "chunking": chunking, "lines": nLines, "seed_rep": rep},
						Got:  fmt.Sprintf("first difference at byte %d: %q err=%q panic=%q", k, res.Out[k:min(k+60, len(res.Out))], res.Err, res.Panic),
						Want: fmt.Sprintf("%q", w[min(k, len(w)):min(k+60, len(w))])})
				}
			}
		}
		// two getline files and the main input in lockstep
		d1, l1 := mk("one", 300+c.Rng.Intn(200))
		d2, l2 := mk("two", 300+c.Rng.Intn(200))
		f1, f2 := filepath.Join(dir, "f1"), filepath.Join(dir, "f2")
		os.WriteFile(f1, d1, 0o644)
		os.WriteFile(f2, d2, 0o644)
		prog := `{ r1 = (getline a < F1); r2 = (getline b < F2); print $0; if (r1 > 0) print a; if (r2 > 0) print b }`
		md, ml := mk("m", 250)
		res := vh.ExecProg(vh.MustParse(prog), &interp.Config{Stdin: bytes.NewReader(md), Vars: []string{"F1", f1, "F2", f2}})
		var wb strings.Builder
		for i, l := range ml {
			wb.WriteString(l + "\n")
			if i < len(l1) {
				wb.WriteString(l1[i] + "\n")
			}
			if i < len(l2) {
				wb.WriteString(l2[i] + "\n")
			}
		}
		c.Eval("lockstep|"+fmt.Sprint(rep), true)
		c.OracleCase()
		c.Hit("stream:concurrent-sources")
		if res.Out != wb.String() || res.Err != "" || res.Panic != "" {
			k := 0
			w := wb.String()
			for k < len(res.Out) && k < len(w) && res.Out[k] == w[k] {
				k++
			}
			c.Fail(vh.Failure{Kind: "oracle", What: "interleaved getline sources do not each deliver their own records",
				Case: map[string]interface{}{"stream": "concurrent-sources", "program": prog, "seed_rep": rep},
				Got:  fmt.Sprintf("first difference at byte %d: %q err=%q", k, res.Out[k:min(k+60, len(res.Out))], res.Err),
				Want: fmt.Sprintf("%q", w[min(k, len(w)):min(k+60, len(w))])})
		}
	}
}
