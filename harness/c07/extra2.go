package main

// More implementation-side oracles for C07 (added after the second round of seeded changes):
//  * path equivalence: the records of one byte string are the same whether it is read by the main loop, by
//    `getline line < file` or by `cmd | getline line` (every RS mode; CR/LF mixtures);
//  * operand RS change: with operands `a RS=<rs2> b` the records and RT of b are those of the reference split under rs2
//    from its very first record (NR continues, FNR restarts);
//  * failing reader: when the reader ends with a non-EOF error, the records delivered before the error do not depend on
//    whether the error arrives together with the last bytes or on a later Read, nor on the chunking.

import (
	"bytes"
	"errors"
	"fmt"
	"io"
	"os"
	"path/filepath"
	"regexp"
	"strings"

	"github.com/benhoyt/goawk/interp"

	"verifharness/vh"
)

type errAfter struct {
	chunks   [][]byte
	together bool // deliver the error together with the last chunk
	err      error
}

func (r *errAfter) Read(p []byte) (int, error) {
	if len(r.chunks) == 0 {
		return 0, r.err
	}
	n := copy(p, r.chunks[0])
	if n == len(r.chunks[0]) {
		r.chunks = r.chunks[1:]
	} else {
		r.chunks[0] = r.chunks[0][n:]
	}
	if len(r.chunks) == 0 && r.together {
		return n, r.err
	}
	return n, nil
}

// reference split of a whole byte string under an RS setting, written from the property (not from the code)
func c07Reference(rs string, input []byte) []c07Rec {
	var recs []c07Rec
	add := func(rec, rt []byte) {
		n := len(recs) + 1
		recs = append(recs, c07Rec{n, n, rec, rt})
	}
	switch {
	case rs == "\n":
		rest := input
		for len(rest) > 0 {
			i := bytes.IndexByte(rest, '\n')
			line := rest
			if i >= 0 {
				line, rest = rest[:i], rest[i+1:]
			} else {
				rest = nil
			}
			add(bytes.TrimSuffix(line, []byte("\r")), []byte("\n"))
		}
	case len(rs) == 1:
		rest := input
		for len(rest) > 0 {
			i := bytes.IndexByte(rest, rs[0])
			rec := rest
			if i >= 0 {
				rec, rest = rest[:i], rest[i+1:]
			} else {
				rest = nil
			}
			add(rec, []byte(rs))
		}
	default:
		re := regexp.MustCompile(rs)
		re.Longest()
		return c07RefSplit(re, input)
	}
	return recs
}

func runC07Extra2(c *vh.Ctx) {
	dir, err := os.MkdirTemp("", "c07y")
	if err != nil {
		panic(err)
	}
	defer os.RemoveAll(dir)
	modes := []struct{ rs, alpha string }{
		{"\n", "a\r\n\nb "}, {";", "a;\r\n;"}, {"ab", "aabb\r\n"}, {"x+y", "xxya\n"}, {"\r?\n", "a\r\n\n"}, {"é", "\xc3\xa9a\n"},
	}
	prog := `{ printf "%d %d %d %d:%s%s\n", NR, FNR, length($0), length(RT), $0, RT }`
	// ---- path equivalence -----------------------------------------------------------------------------------------
	nPath := c.N(25, 300)
	for mi, m := range modes {
		for k := 0; k < nPath; k++ {
			n := 1 + c.Rng.Intn(24)
			in := make([]byte, n)
			for i := range in {
				in[i] = m.alpha[c.Rng.Intn(len(m.alpha))]
			}
			if k%7 == 3 { // CRLF text
				in = []byte(strings.ReplaceAll(strings.ReplaceAll(string(in), "\r", ""), "\n", "\r\n"))
			}
			f := filepath.Join(dir, fmt.Sprintf("p%d_%d", mi, k))
			os.WriteFile(f, in, 0o644)
			want := c07CanonNoNR(c07Reference(m.rs, in))
			type path struct{ name, src string }
			body := `printf "%d %d:%s%s\n", length(line), length(RT), line, RT`
			paths := []path{
				{"main loop", `{ line = $0; ` + body + ` }`},
				{"getline line < file", `BEGIN { while ((getline line < F) > 0) { ` + body + ` } }`},
				{"getline < file", `BEGIN { while ((getline < F) > 0) { line = $0; ` + body + ` } }`},
				{"cmd | getline line", `BEGIN { cmd = "cat " F; while ((cmd | getline line) > 0) { ` + body + ` } }`},
			}
			for pi, p := range paths {
				if pi == 3 && k%5 != 0 { // processes are slow: sample the pipe path
					continue
				}
				cfg := &interp.Config{Vars: []string{"RS", m.rs, "F", f}}
				if pi == 0 {
					cfg.Stdin = bytes.NewReader(in)
				}
				res := vh.ExecProg(vh.MustParse(p.src), cfg)
				c.Eval(fmt.Sprintf("path|%s|%x|%d", m.rs, in, pi), len(in) > 3)
				c.OracleCase()
				c.Hit("stream:path-equivalence")
				got := "unparsable: " + res.String()
				wantP := want
				if recs, ok := c07ParseOut2([]byte(res.Out)); ok && res.Err == "" && res.Panic == "" {
					if pi == 0 {
						got = c07CanonNoNR(recs)
					} else {
						// RT is part of the property for the main input; the getline paths are compared on the records only
						got, wantP = c07RecsOnly(recs), c07RecsOnly(c07Reference(m.rs, in))
					}
				}
				want := wantP
				if got != want {
					mode := c07Mode{"regex", []byte(m.rs), nil}
					if len(m.rs) == 1 {
						mode.Name = "byte"
					}
					c.Fail(vh.Failure{Kind: "oracle", What: "records read through '" + p.name + "' are not the reference records of the same bytes",
						Finding: c07Classify(mode, in, "path"),
						Case:    map[string]interface{}{"stream": "path-equivalence", "rs_hex": vh.Hx([]byte(m.rs)), "input_hex": vh.Hx(in), "path": p.name, "program": p.src},
						Got:     got, Want: want})
				}
			}
		}
	}
	// ---- a second source read while main records are still buffered; re-reading an exhausted source --------------------
	for k := 0; k < c.N(6, 40); k++ {
		md, ml := func() ([]byte, []string) {
			var b bytes.Buffer
			var ls []string
			for i := 0; i < 5+c.Rng.Intn(40); i++ {
				l := fmt.Sprintf("main %03d %s", i, strings.Repeat("m", c.Rng.Intn(20)))
				ls = append(ls, l)
				b.WriteString(l + "\n")
			}
			return b.Bytes(), ls
		}()
		mf := filepath.Join(dir, fmt.Sprintf("main%d", k))
		os.WriteFile(mf, md, 0o644)
		side := fmt.Sprintf("s1;s2;;s3 %d", k)
		sf := filepath.Join(dir, fmt.Sprintf("side%d", k))
		os.WriteFile(sf, []byte(side), 0o644)
		stdinText := "yes please, go ahead\nsecond answer\n"
		// (a) getline < "-" on records 1 and 3 while the main input is a file operand
		res := vh.ExecProg(vh.MustParse(`NR==1 || NR==3 { r = (getline answer < "-"); print "A", r, answer } { print NR, FNR, $0 }`),
			&interp.Config{Stdin: strings.NewReader(stdinText), Args: []string{mf}})
		var want strings.Builder
		for i, l := range ml {
			if i == 0 {
				want.WriteString("A 1 yes please, go ahead\n")
			}
			if i == 2 {
				want.WriteString("A 1 second answer\n")
			}
			fmt.Fprintf(&want, "%d %d %s\n", i+1, i+1, l)
		}
		c.Eval(fmt.Sprintf("dash|%d", k), true)
		c.OracleCase()
		c.Hit("stream:stdin-beside-file")
		if res.Out != want.String() || res.Err != "" || res.Panic != "" {
			c.Fail(vh.Failure{Kind: "oracle", What: "records of the file operand are not its lines when `getline < \"-\"` reads standard input in between",
				Case: map[string]interface{}{"stream": "stdin-beside-file", "main_lines": len(ml)}, Got: fmt.Sprintf("%q err=%q", res.Out[:min(300, len(res.Out))], res.Err), Want: fmt.Sprintf("%q", want.String()[:min(300, want.Len())])})
		}
		// (b) read a side file to its end with getline on every main record, without close(): only the first pass sees records
		res = vh.ExecProg(vh.MustParse(`{ n = 0; seen = ""; while ((getline l < F) > 0) { n++; seen = seen l RT } print NR, n, seen }`),
			&interp.Config{Stdin: strings.NewReader("r1\nr2\nr3\n"), Vars: []string{"F", sf, "RS", "\n"}})
		// the side file is read with RS="\n": one record (no newline in it)
		wantB := fmt.Sprintf("1 1 %s\n2 0 \n3 0 \n", side)
		c.Eval(fmt.Sprintf("reread|%d", k), true)
		c.OracleCase()
		c.Hit("stream:reread-exhausted")
		got := res.Out
		// RT for the getline path is not part of the claim: compare with RT stripped (it is RS or empty)
		got = strings.ReplaceAll(got, side+"\n\n", side+"\n")
		if got != wantB || res.Err != "" || res.Panic != "" {
			c.Fail(vh.Failure{Kind: "oracle", What: "an exhausted getline source delivers records again without close() (or not all of them the first time)",
				Case: map[string]interface{}{"stream": "reread-exhausted", "side": side}, Got: fmt.Sprintf("%q err=%q", res.Out, res.Err), Want: fmt.Sprintf("%q", wantB)})
		}
	}
	// ---- RS assigned by an operand between two files ---------------------------------------------------------------
	seps := []string{"\n", ";", "|", "ab", "\r?\n"}
	for k := 0; k < c.N(60, 600); k++ {
		rs1, rs2 := seps[c.Rng.Intn(len(seps))], seps[c.Rng.Intn(len(seps))]
		mk := func(alpha string) []byte {
			b := make([]byte, 1+c.Rng.Intn(16))
			for i := range b {
				b[i] = alpha[c.Rng.Intn(len(alpha))]
			}
			return b
		}
		alpha := "a1\n;|ab\r"
		a, b := mk(alpha), mk(alpha)
		fa, fb := filepath.Join(dir, fmt.Sprintf("a%d", k)), filepath.Join(dir, fmt.Sprintf("b%d", k))
		os.WriteFile(fa, a, 0o644)
		os.WriteFile(fb, b, 0o644)
		esc := strings.NewReplacer("\\", "\\\\", "\n", "\\n", "\r", "\\r").Replace(rs2)
		res := vh.ExecProg(vh.MustParse(prog), &interp.Config{Vars: []string{"RS", rs1}, Args: []string{fa, "RS=" + esc, fb}})
		ra, rb := c07Reference(rs1, a), c07Reference(rs2, b)
		var want []c07Rec
		for _, r := range ra {
			want = append(want, r)
		}
		for _, r := range rb {
			r.NR += len(ra)
			want = append(want, r)
		}
		c.Eval(fmt.Sprintf("rsop|%s|%s|%x|%x", rs1, rs2, a, b), true)
		c.OracleCase()
		c.Hit("stream:operand-RS-change")
		got := "unparsable: " + res.String()
		if recs, ok := c07ParseOut([]byte(res.Out)); ok && res.Err == "" && res.Panic == "" {
			got = c07Canon(recs)
		}
		if got != c07Canon(want) {
			c.Fail(vh.Failure{Kind: "oracle", What: "with operands `a RS=<rs2> b` the records/RT/NR/FNR are not those of a under rs1 followed by b under rs2",
				Case: map[string]interface{}{"stream": "operand-RS-change", "rs1_hex": vh.Hx([]byte(rs1)), "rs2_hex": vh.Hx([]byte(rs2)), "a_hex": vh.Hx(a), "b_hex": vh.Hx(b)},
				Got:  got, Want: c07Canon(want)})
		}
	}
	// ---- reader that fails ----------------------------------------------------------------------------------------
	boom := errors.New("boom")
	for _, m := range modes[:4] {
		for k := 0; k < c.N(40, 400); k++ {
			n := 2 + c.Rng.Intn(14)
			in := make([]byte, n)
			for i := range in {
				in[i] = m.alpha[c.Rng.Intn(len(m.alpha))]
			}
			var outs []string
			var descr []string
			for v := 0; v < 4; v++ {
				var chunks [][]byte
				switch v {
				case 0, 1:
					chunks = [][]byte{in}
				default:
					var cuts []int
					for p := 1; p < n; p++ {
						if c.Rng.Intn(2) == 0 {
							cuts = append(cuts, p)
						}
					}
					chunks = vh.Cut(in, cuts)
				}
				cp := make([][]byte, len(chunks))
				for i := range chunks {
					cp[i] = append([]byte(nil), chunks[i]...)
				}
				var rd io.Reader = &errAfter{chunks: cp, together: v%2 == 1, err: boom}
				res := vh.ExecProg(vh.MustParse(prog), &interp.Config{Stdin: rd, Vars: []string{"RS", m.rs}})
				outs = append(outs, fmt.Sprintf("%q err=%q panic=%q", res.Out, res.Err, res.Panic))
				descr = append(descr, fmt.Sprintf("%d chunks, error together with last=%v", len(chunks), v%2 == 1))
			}
			c.Eval(fmt.Sprintf("errrd|%s|%x", m.rs, in), true)
			c.OracleCase()
			c.Hit("stream:failing-reader")
			for v := 1; v < 4; v++ {
				if outs[v] != outs[0] {
					c.Fail(vh.Failure{Kind: "oracle", What: "with a reader that ends in an error, the records delivered depend on how the bytes and the error arrive",
						Case: map[string]interface{}{"stream": "failing-reader", "rs_hex": vh.Hx([]byte(m.rs)), "input_hex": vh.Hx(in), "delivery_a": descr[0], "delivery_b": descr[v]},
						Got:  outs[v], Want: outs[0]})
					break
				}
			}
		}
	}
}

func c07RecsOnly(recs []c07Rec) string {
	var b strings.Builder
	for _, r := range recs {
		b.WriteString(vh.Hx(r.Rec) + " ")
	}
	return strings.TrimRight(b.String(), " ")
}

// output format of the path-equivalence programs: "<len rec> <len rt>:<rec><rt>\n"
func c07ParseOut2(out []byte) ([]c07Rec, bool) {
	var recs []c07Rec
	for len(out) > 0 {
		i := bytes.IndexByte(out, ':')
		if i < 0 {
			return nil, false
		}
		var a, b int
		if _, err := fmt.Sscanf(string(out[:i]), "%d %d", &a, &b); err != nil {
			return nil, false
		}
		out = out[i+1:]
		if len(out) < a+b+1 || out[a+b] != '\n' {
			return nil, false
		}
		n := len(recs) + 1
		recs = append(recs, c07Rec{n, n, append([]byte(nil), out[:a]...), append([]byte(nil), out[a:a+b]...)})
		out = out[a+b+1:]
	}
	return recs, true
}
