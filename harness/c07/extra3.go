package main

// Further implementation-side oracles for C07 (run after extra2.go):
//  * RS assigned in the middle of a file: the splitter of a file is created when the file is opened, but a regex splitter reads
//    the CURRENT regex, so an assignment to RS in a rule takes effect at the next record. The records (and NR, RT) of such a run
//    are still a function of the input bytes and the program alone: every chunking gives what the whole input in one Read gives.
//    (Seeded C07-q1: a "RS is a plain string" flag copied into the splitter at creation went stale after the assignment, and the
//    "match touches the end of the data: read more" step was skipped for a growing regex.)
//  * a reader that fails once and then goes on (EAGAIN, EINTR, a timeout, an error that says Temporary()): whatever the
//    interpreter does with the error, a run that ENDS WITHOUT AN ERROR must have delivered exactly the reference records of the
//    bytes it was given — a record is never cut where the failed Read happened to fall. (Seeded C07-q3: temporary read errors were
//    retried with a fresh scanner after bufio.Scanner had already delivered the buffered part of a record as a final token.)

import (
	"bytes"
	"errors"
	"fmt"
	"io"
	"os"
	"syscall"

	"github.com/benhoyt/goawk/interp"

	"verifharness/vh"
)

type tempErr struct{ msg string }

func (e tempErr) Error() string   { return e.msg }
func (e tempErr) Temporary() bool { return true }
func (e tempErr) Timeout() bool   { return true }

// failOnce delivers chunks; before chunk `at` it returns (0, err) exactly once, afterwards it goes on as if nothing had happened.
type failOnce struct {
	chunks [][]byte
	at     int
	err    error
	k      int
	failed bool
}

func (r *failOnce) Read(p []byte) (int, error) {
	if r.k == r.at && !r.failed {
		r.failed = true
		return 0, r.err
	}
	if r.k >= len(r.chunks) {
		return 0, io.EOF
	}
	n := copy(p, r.chunks[r.k])
	if n == len(r.chunks[r.k]) {
		r.k++
	} else {
		r.chunks[r.k] = r.chunks[r.k][n:]
	}
	return n, nil
}

func c07Chunkings(c *vh.Ctx, in []byte) [][][]byte {
	n := len(in)
	res := [][][]byte{{in}}
	for p := 1; p < n; p++ {
		res = append(res, vh.Cut(in, []int{p}))
	}
	var all []int
	for p := 1; p < n; p++ {
		all = append(all, p)
	}
	if n > 1 {
		res = append(res, vh.Cut(in, all))
	}
	for k := 0; k < 3 && n > 2; k++ {
		var cuts []int
		for p := 1; p < n; p++ {
			if c.Rng.Intn(3) == 0 {
				cuts = append(cuts, p)
			}
		}
		res = append(res, vh.Cut(in, cuts))
	}
	return res
}

func runC07Extra3(c *vh.Ctx) {
	prog := `{ printf "%d %d %d %d:%s%s\n", NR, FNR, length($0), length(RT), $0, RT }`
	// ---- RS assigned mid-file ------------------------------------------------------------------------------------------
	trans := []struct{ from, to, alpha string }{
		{"--", "-+", "--x-"}, {"ab", "a+b", "aabx"}, {"\r\n", "\r?\n", "\r\nx\n"}, {"é", "é+", "\xc3\xa9x\xc3"}, {"--", "-", "--x"}, {"-+", "--", "--x-"},
		{"ab", "b", "abx"}, {";", "x+", ";xa;"}, {"\n", "-+", "\n-x"}, {"-+", "\n", "\n-x"}, {"xy", "(xy)+z", "xyza"}, {"", "-+", "\n-x\n"}, {"--", "", "\n-x\n"},
	}
	nIn := c.N(30, 400)
	for _, t := range trans {
		for k := 0; k < nIn; k++ {
			n := 2 + c.Rng.Intn(13)
			in := make([]byte, n)
			for i := range in {
				in[i] = t.alpha[c.Rng.Intn(len(t.alpha))]
			}
			at := 1 + c.Rng.Intn(3)
			src := fmt.Sprintf(`%s NR == %d { RS = NEW }`, prog, at)
			if k%4 == 0 { // assigned before the record is printed; and assigned back later
				src = fmt.Sprintf(`NR == %d { RS = NEW } %s NR == %d { RS = OLD }`, at, prog, at+2)
			}
			p := vh.MustParse(src)
			var ref string
			for ci, chunks := range c07Chunkings(c, in) {
				cp := make([][]byte, len(chunks))
				for i := range chunks {
					cp[i] = append([]byte(nil), chunks[i]...)
				}
				res := vh.ExecProg(p, &interp.Config{Stdin: vh.NewChunkReader(cp), Vars: []string{"RS", t.from, "NEW", t.to, "OLD", t.from}})
				got := fmt.Sprintf("%q err=%q panic=%q", res.Out, res.Err, res.Panic)
				c.OracleCase()
				if ci == 0 {
					ref = got
					continue
				}
				if got != ref {
					// F10's class predicate (a prefix of the input has a match, ending strictly inside it, that the whole input does not have
					// there) also accepts the multi-byte variant: with RS="é+" a read that ends in the middle of a character hides the next
					// "é" from the matcher, so the match is taken too short — thorough seed 7 met it in this stream
					finding := c07Classify(c07Mode{"regex", []byte(t.to), nil}, in, "rs-mid-file")
					if finding == "" && len(t.from) > 1 {
						finding = c07Classify(c07Mode{"regex", []byte(t.from), nil}, in, "rs-mid-file")
					}
					c.Fail(vh.Failure{Kind: "oracle", What: "with RS assigned in the middle of the file, the records depend on how the input is chunked",
						Finding: finding,
						Case: map[string]interface{}{"stream": "rs-mid-file", "program": src, "rs_from_hex": vh.Hx([]byte(t.from)), "rs_to_hex": vh.Hx([]byte(t.to)),
							"input_hex": vh.Hx(in), "chunks_hex": hexChunks(chunks)},
						Got: got, Want: ref})
					break
				}
			}
			c.Eval(fmt.Sprintf("rsmid|%s|%s|%x|%d", t.from, t.to, in, at), true)
			c.Hit("stream:rs-mid-file")
			c.Hit(fmt.Sprintf("rs-mid-file:%q->%q", t.from, t.to))
		}
	}
	// ---- a reader that fails once and then goes on ------------------------------------------------------------------------
	errs := []struct {
		name string
		err  error
	}{
		{"EAGAIN", syscall.EAGAIN}, {"EINTR", syscall.EINTR}, {"EWOULDBLOCK-wrapped", fmt.Errorf("read: %w", syscall.EWOULDBLOCK)},
		{"PathError-EAGAIN", &os.PathError{Op: "read", Path: "/dev/stdin", Err: syscall.EAGAIN}}, {"deadline", os.ErrDeadlineExceeded},
		{"temporary", tempErr{"temporarily unavailable"}}, {"no-progress", io.ErrNoProgress}, {"plain", errors.New("boom")}, {"unexpected-eof", io.ErrUnexpectedEOF},
	}
	modes := []struct{ rs, alpha string }{{"\n", "ab\n\r"}, {";", "ab;"}, {"--+", "a-b-"}, {"\r\n", "a\r\nb"}, {"ab", "abx"}, {"é", "\xc3\xa9a"}}
	nF := c.N(12, 150)
	for _, m := range modes {
		for k := 0; k < nF; k++ {
			n := 3 + c.Rng.Intn(14)
			in := make([]byte, n)
			for i := range in {
				in[i] = m.alpha[c.Rng.Intn(len(m.alpha))]
			}
			want := c07Canon(c07Reference(m.rs, in))
			e := errs[c.Rng.Intn(len(errs))]
			for cut := 0; cut <= n; cut++ {
				var chunks [][]byte
				if cut == 0 || cut == n {
					chunks = [][]byte{append([]byte(nil), in...)}
				} else {
					chunks = [][]byte{append([]byte(nil), in[:cut]...), append([]byte(nil), in[cut:]...)}
				}
				at := 1
				if cut == 0 {
					at = 0
				}
				rd := &failOnce{chunks: chunks, at: at, err: e.err}
				res := vh.ExecProg(vh.MustParse(prog), &interp.Config{Stdin: rd, Vars: []string{"RS", m.rs}})
				c.OracleCase()
				c.Hit("stream:fail-once:" + e.name)
				if res.Panic != "" {
					c.Fail(vh.Failure{Kind: "oracle", What: "the interpreter panicked on a reader that fails once", Got: res.Panic,
						Case: map[string]interface{}{"stream": "fail-once", "rs_hex": vh.Hx([]byte(m.rs)), "input_hex": vh.Hx(in), "fail_before_byte": cut, "error": e.name}})
					break
				}
				if res.Err != "" {
					c.Hit("fail-once:run-ended-with-error")
					continue // the error ended the run: nothing more is claimed here (the failing-reader stream covers that case)
				}
				c.Hit("fail-once:run-went-on")
				got := "unparsable: " + res.String()
				if recs, ok := c07ParseOut2([]byte(res.Out)); ok {
					got = c07Canon(recs)
				}
				if got != want {
					c.Fail(vh.Failure{Kind: "oracle", What: "a run over a reader that failed once ended without an error, but its records are not the records of the bytes read",
						Finding: c07Classify(c07Mode{"regex", []byte(m.rs), nil}, in, "fail-once"),
						Case:    map[string]interface{}{"stream": "fail-once", "rs_hex": vh.Hx([]byte(m.rs)), "input_hex": vh.Hx(in), "fail_before_byte": cut, "error": e.name},
						Got:     got, Want: want})
					break
				}
			}
			c.Eval(fmt.Sprintf("failonce|%s|%x|%s", m.rs, in, e.name), true)
		}
	}
	_ = bytes.Equal
}

func hexChunks(chunks [][]byte) []string {
	var r []string
	for _, ch := range chunks {
		r = append(r, vh.Hx(ch))
	}
	return r
}
