package main

// C07 — record reading is lossless and independent of how input bytes arrive.
//
// Implementation-side oracle (no model in the loop): the records/RT/NR/FNR printed by the real interpreter under a
// chunked Stdin equal those under one-piece delivery; and per RS mode the losslessness equation of the property.
// Correspondence: the Lean scanner model (GoawkModel.Scanner + C07 split functions) on the same chunk list.

import (
	"bytes"
	"fmt"
	"regexp"
	"strconv"
	"strings"

	"github.com/benhoyt/goawk/interp"

	"verifharness/vh"
)

const c07Prog = `{ printf "%d %d %d %d:%s%s\n", NR, FNR, length($0), length(RT), $0, RT }`

type c07Rec struct {
	NR, FNR int
	Rec, RT []byte
}

type c07Mode struct {
	Name  string // nl | byte | blank | regex
	RS    []byte
	Alpha []byte
}

type c07Case struct {
	Mode   string   `json:"mode"`
	RS     string   `json:"rs_hex"`
	Input  string   `json:"input_hex"`
	Chunks []string `json:"chunks_hex"`
}

func c07Run(rs []byte, chunks [][]byte) ([]c07Rec, vh.RunResult) {
	prog := vh.MustParse(c07Prog)
	cfg := &interp.Config{Stdin: vh.NewChunkReader(chunks), Vars: []string{"RS", string(rs)}}
	res := vh.ExecProg(prog, cfg)
	if res.Panic != "" || res.Err != "" {
		return nil, res
	}
	recs, ok := c07ParseOut([]byte(res.Out))
	if !ok {
		res.Err = "unparsable output"
		return nil, res
	}
	return recs, res
}

func c07ParseOut(out []byte) ([]c07Rec, bool) {
	var recs []c07Rec
	for len(out) > 0 {
		i := bytes.IndexByte(out, ':')
		if i < 0 {
			return nil, false
		}
		parts := strings.Split(string(out[:i]), " ")
		if len(parts) != 4 {
			return nil, false
		}
		var n [4]int
		for k, p := range parts {
			v, err := strconv.Atoi(p)
			if err != nil {
				return nil, false
			}
			n[k] = v
		}
		out = out[i+1:]
		if len(out) < n[2]+n[3]+1 || out[n[2]+n[3]] != '\n' {
			return nil, false
		}
		recs = append(recs, c07Rec{n[0], n[1], append([]byte(nil), out[:n[2]]...), append([]byte(nil), out[n[2]:n[2]+n[3]]...)})
		out = out[n[2]+n[3]+1:]
	}
	return recs, true
}

func c07Canon(recs []c07Rec) string {
	var b strings.Builder
	for _, r := range recs {
		fmt.Fprintf(&b, "%d/%d %s:%s ", r.NR, r.FNR, vh.Hx(r.Rec), vh.Hx(r.RT))
	}
	return strings.TrimRight(b.String(), " ")
}

func c07CanonNoNR(recs []c07Rec) string {
	var b strings.Builder
	for _, r := range recs {
		fmt.Fprintf(&b, "%s:%s ", vh.Hx(r.Rec), vh.Hx(r.RT))
	}
	return strings.TrimRight(b.String(), " ")
}

// c07Lossless is the property's per-mode equation, evaluated on the real output alone. "" = holds.
func c07Lossless(m c07Mode, input []byte, recs []c07Rec) string {
	for i, r := range recs {
		if r.NR != i+1 || r.FNR != i+1 {
			return fmt.Sprintf("record %d has NR=%d FNR=%d", i+1, r.NR, r.FNR)
		}
	}
	switch m.Name {
	case "regex":
		var cat []byte
		for _, r := range recs {
			cat = append(cat, r.Rec...)
			cat = append(cat, r.RT...)
		}
		if !bytes.Equal(cat, input) {
			return "records followed by their RT do not reproduce the input"
		}
	case "byte":
		var cat []byte
		for _, r := range recs {
			cat = append(cat, r.Rec...)
			cat = append(cat, m.RS[0])
			if !bytes.Equal(r.RT, m.RS) {
				return "RT is not RS"
			}
		}
		if !(bytes.Equal(cat, input) || bytes.Equal(cat, append(append([]byte(nil), input...), m.RS[0]))) {
			return "records joined by RS do not reproduce the input (up to one final RS)"
		}
	case "nl":
		// independent statement: the lines, one trailing CR dropped
		want := [][]byte{}
		if len(input) > 0 {
			want = bytes.Split(input, []byte("\n"))
			if len(want[len(want)-1]) == 0 {
				want = want[:len(want)-1]
			}
		}
		if len(want) != len(recs) {
			return fmt.Sprintf("%d records, %d lines", len(recs), len(want))
		}
		for i, w := range want {
			if !bytes.Equal(bytes.TrimSuffix(w, []byte("\r")), recs[i].Rec) {
				return fmt.Sprintf("record %d is not line %d with a trailing CR dropped", i+1, i+1)
			}
		}
	case "blank":
		if bytes.IndexByte(input, '\r') >= 0 {
			return "" // the paragraph statement is made for LF-only text
		}
		trimmed := bytes.Trim(input, "\n")
		want := [][]byte{}
		if len(trimmed) > 0 {
			for _, p := range regexp.MustCompile(`\n\n+`).Split(string(trimmed), -1) {
				want = append(want, []byte(p))
			}
		}
		if len(want) != len(recs) {
			return fmt.Sprintf("%d records, %d paragraphs", len(recs), len(want))
		}
		for i, w := range want {
			if !bytes.Equal(w, recs[i].Rec) {
				return fmt.Sprintf("record %d is not paragraph %d", i+1, i+1)
			}
		}
	}
	return ""
}

// c07Classify names the known-finding class that accepts a failing case, or "".
// F10: RS is a regex and some prefix of the input has a non-empty match ending strictly inside that prefix which is
// not the match the whole input has there (an alternative that starts earlier or is longer pre-empts it once more
// input is present). Decided with Go's regexp directly on the failing input.
func c07Classify(m c07Mode, input []byte, what string) string {
	if m.Name != "regex" {
		return ""
	}
	re, err := regexp.Compile(string(m.RS))
	if err != nil {
		return ""
	}
	re.Longest()
	if len(input) > 4096 {
		// long inputs are the 64 KiB buffer-edge cases: decide on the window around the edge (the predicate is quadratic)
		if len(input) < 65536+128 {
			return ""
		}
		input = input[65536-128 : 65536+128]
	}
	for start := 0; start < len(input); start++ {
		rest := input[start:]
		full := re.FindIndex(rest)
		for k := 1; k < len(rest); k++ {
			loc := re.FindIndex(rest[:k])
			if loc == nil || loc[0] == loc[1] || loc[1] >= k {
				continue
			}
			if full == nil || full[0] != loc[0] || full[1] != loc[1] {
				return "F10"
			}
		}
	}
	return ""
}

func c07Modes(c *vh.Ctx) []c07Mode {
	ms := []c07Mode{
		{"nl", []byte("\n"), []byte("\n\ra b")},
		{"blank", []byte(""), []byte("\n\n\ra ")},
		{"byte", []byte(";"), []byte(";;a\n")},
		{"byte", []byte{0}, []byte{0, 0, 'a', '\n'}},
		{"byte", []byte("a"), []byte("aab\n")},
		{"byte", []byte{0xff}, []byte{0xff, 0xff, 'a', 0xc3}},
		{"byte", []byte{0xc3}, []byte{0xc3, 0xa9, 'a', 0xc3}},
		{"regex", []byte("é"), []byte("\xc3\xa9\xc3ab")},
		{"regex", []byte("ab"), []byte("aabbc")},
		{"regex", []byte("[xy]z"), []byte("xyzza")},
		{"regex", []byte("X+"), []byte("XXab")},
		{"regex", []byte("a|bc"), []byte("abcc")},
		{"regex", []byte("abcd|b"), []byte("abcdx")},
		{"regex", []byte("ab|abc"), []byte("abcx")},
		{"regex", []byte("x*y"), []byte("xxya")},
		{"regex", []byte("\n\n"), []byte("\n\na")},
		{"regex", []byte("()"), []byte("ab")},
		{"regex", []byte("\n$"), []byte("a\n\nb")},
		{"regex", []byte("a\\b"), []byte("aab ")},
		{"regex", []byte("x."), []byte("xx\xc3\xb6a")},
		{"regex", []byte("^a|b"), []byte("aabc")},
	}
	if c.Thorough() {
		for b := 0; b < 256; b += 1 + c.Rng.Intn(7) {
			if b == '\n' {
				continue
			}
			ms = append(ms, c07Mode{"byte", []byte{byte(b)}, []byte{byte(b), byte(b), 'a', '\n'}})
		}
		for _, r := range []string{"a+b", "(ab)+", "a?b", "[0-9]+", "ab*", "a.c", "\r?\n", "^a", "a$", "(a|ab)(c|bcd)", "日本", ",|;", "a{2}", "\\.", "[^a]", "a|b|c"} {
			ms = append(ms, c07Mode{"regex", []byte(r), c07AlphaFor(r)})
		}
	}
	return ms
}

func c07AlphaFor(r string) []byte {
	a := []byte{}
	for _, b := range []byte(r) {
		if !strings.ContainsRune("+*?()[]|^$.\\{}", rune(b)) {
			a = append(a, b)
		}
	}
	return append(a, 'z', '\n')
}

func c07IsLiteral(rs []byte) bool {
	return len(rs) > 1 && !strings.ContainsAny(string(rs), "+*?()[]|^$.\\{}")
}

func c07LeanReq(m c07Mode, chunks [][]byte) string {
	if m.Name == "regex" {
		return fmt.Sprintf("scan lit %s %s", vh.Hx(m.RS), strings.Join(vh.HexChunks(chunks), " "))
	}
	return fmt.Sprintf("scan %s %s %s", m.Name, vh.Hx(m.RS), strings.Join(vh.HexChunks(chunks), " "))
}

func main() {
	vh.Main("C07", func(c *vh.Ctx) {
		runC07(c)
		if c07Extra != nil {
			c07Extra(c)
		}
		runC07Extra2(c)
		runC07Extra3(c)
	})
}

func runC07(c *vh.Ctx) {
	c.Rule("per RS setting: random inputs over a small alphabet containing the separator's bytes; every chunking of short inputs " +
		"(all 2^(n-1) cut sets), byte-at-a-time and every single cut for longer ones, cuts around the 64 KiB buffer edge; " +
		"a case is (RS, input, chunking); non-trivial = the input contains at least one separator occurrence and the chunking has a cut")
	modes := c07Modes(c)
	maxAll := c.N(8, 10)     // inputs up to this length get every chunking
	nInputs := c.N(150, 300) // inputs per mode
	type job struct {
		m      c07Mode
		input  []byte
		chunks [][]byte
	}
	var jobs []job
	literalModes := map[string]bool{"nl": true, "byte": true}
	for _, m := range modes {
		seen := map[string]bool{}
		for k := 0; k < nInputs; k++ {
			n := 1 + c.Rng.Intn(maxAll)
			if k%10 == 9 {
				n = maxAll + 1 + c.Rng.Intn(20)
			}
			in := make([]byte, n)
			for i := range in {
				in[i] = m.Alpha[c.Rng.Intn(len(m.Alpha))]
			}
			if seen[string(in)] {
				continue
			}
			seen[string(in)] = true
			if n <= maxAll {
				for mask := uint64(0); mask < 1<<uint(n-1); mask++ {
					jobs = append(jobs, job{m, in, vh.Cut(in, vh.CutsFromMask(n, mask))})
				}
			} else {
				jobs = append(jobs, job{m, in, [][]byte{in}})
				for p := 1; p < n; p++ {
					jobs = append(jobs, job{m, in, vh.Cut(in, []int{p})})
				}
				all := make([]int, n-1)
				for i := range all {
					all[i] = i + 1
				}
				jobs = append(jobs, job{m, in, vh.Cut(in, all)})
			}
		}
	}
	// corpus: minimized past failures / witnesses of findings; always run
	for _, w := range []struct {
		mode, rs string
		chunks   []string
	}{
		{"regex", "abcd|b", []string{"xabc", "dy"}}, // F10 (recorded)
		{"regex", "ab|abc", []string{"xab", "cy"}},  // F10 family
		{"regex", "X+", []string{"aX", "Xb"}},       // F09 (fixed)
		{"regex", "X+", []string{"X", "X"}},         // F09 (fixed)
		{"blank", "", []string{"a\n\n", "\n\nb\n"}}, // F11 (fixed)
		{"blank", "", []string{"\n\nabc"}},          // F11 (fixed): final RT
		{"blank", "", []string{"\n\n", "abc"}},
		{"byte", "\xff", []string{"a\xffb", "\xffc"}}, // F03 (fixed)
		{"nl", "\n", []string{"a\r", "\nb\r\n", "c\r"}},
		{"regex", "é", []string{"a\xc3", "\xa9b"}},
	} {
		var chunks [][]byte
		var in []byte
		for _, ch := range w.chunks {
			chunks = append(chunks, []byte(ch))
			in = append(in, ch...)
		}
		m := c07Mode{w.mode, []byte(w.rs), nil}
		jobs = append(jobs, job{m, in, [][]byte{in}})
		jobs = append(jobs, job{m, in, chunks})
	}

	// 64 KiB buffer edge
	edgeN := c.N(1, 4)
	for _, m := range modes {
		if m.Name == "regex" && !c.Thorough() && string(m.RS) != "X+" && string(m.RS) != "ab" {
			continue
		}
		for e := 0; e < edgeN; e++ {
			n := 65536 + c.Rng.Intn(9) - 4 + 40
			in := bytes.Repeat([]byte{'q'}, n)
			for j := 0; j < 6; j++ { // separators placed around the edge
				pos := 65536 - 6 + c.Rng.Intn(12)
				s := m.Alpha[c.Rng.Intn(len(m.Alpha))]
				in[pos] = s
			}
			if m.Name == "blank" {
				copy(in[65534:], "\n\n\n")
			}
			if m.Name == "regex" {
				copy(in[65536-1:], bytes.Repeat(m.Alpha[:1], 3))
			}
			jobs = append(jobs, job{m, in, [][]byte{in}})
			jobs = append(jobs, job{m, in, vh.Cut(in, []int{1})})
			jobs = append(jobs, job{m, in, vh.Cut(in, []int{65535})})
			jobs = append(jobs, job{m, in, vh.Cut(in, []int{3, 65537})})
		}
	}

	// run the real interpreter in parallel
	type outT struct {
		recs []c07Rec
		res  vh.RunResult
	}
	outs := make([]outT, len(jobs))
	vh.Parallel(len(jobs), func(i int) {
		r, res := c07Run(jobs[i].m.RS, jobs[i].chunks)
		outs[i] = outT{r, res}
	})

	// implementation-side oracle
	ref := map[string]string{} // (mode, rs, input) -> canonical records under the first chunking seen (the one-piece delivery)
	for i, j := range jobs {
		key := j.m.Name + "|" + string(j.m.RS) + "|" + string(j.input)
		cs := c07Case{j.m.Name, vh.Hx(j.m.RS), vh.Hx(j.input), vh.HexChunks(j.chunks)}
		hasSep := len(outs[i].recs) > 1 || (len(outs[i].recs) == 1 && len(outs[i].recs[0].Rec) != len(j.input))
		c.Eval(key+"|"+strings.Join(cs.Chunks, ","), hasSep && len(j.chunks) > 1)
		c.OracleCase()
		c.Hit("mode:" + j.m.Name)
		c.Hit(fmt.Sprintf("chunks:%d", min(len(j.chunks), 9)))
		c.Hit(fmt.Sprintf("records:%d", min(len(outs[i].recs), 9)))
		if i%9973 == 0 {
			c.Sample(map[string]interface{}{"case": cs, "records": c07Canon(outs[i].recs)})
		}
		o := outs[i]
		if o.res.Panic != "" || o.res.Err != "" {
			c.Fail(vh.Failure{Kind: "oracle", What: "run failed or panicked: " + o.res.String(), Finding: c07ClassifyRun(j.m, o.res), Case: cs})
			continue
		}
		canon := c07Canon(o.recs)
		if r, ok := ref[key]; !ok {
			ref[key] = canon
			if msg := c07Lossless(j.m, j.input, o.recs); msg != "" {
				c.Fail(vh.Failure{Kind: "oracle", What: "losslessness: " + msg, Finding: c07Classify(j.m, j.input, msg), Case: cs, Got: canon})
			}
		} else if r != canon {
			c.Fail(vh.Failure{Kind: "oracle", What: "records depend on chunking", Finding: c07Classify(j.m, j.input, "chunk"), Case: cs, Got: canon, Want: r})
		}
	}

	// correspondence with the Lean model (modes the model implements)
	if c.HasLean() {
		var reqs []string
		var idx []int
		for i, j := range jobs {
			if len(j.input) > 4096 {
				continue
			}
			if literalModes[j.m.Name] || j.m.Name == "blank" || (j.m.Name == "regex" && c07IsLiteral(j.m.RS)) {
				reqs = append(reqs, c07LeanReq(j.m, j.chunks))
				idx = append(idx, i)
			}
		}
		ans := c.LeanBatch(reqs)
		for k, a := range ans {
			i := idx[k]
			if outs[i].res.Panic != "" || outs[i].res.Err != "" {
				continue
			}
			if a == "unsupported" {
				continue
			}
			c.Trace()
			got := c07CanonNoNR(outs[i].recs)
			if a != "ok "+got && !(got == "" && a == "ok") {
				j := jobs[i]
				c.Fail(vh.Failure{Kind: "correspondence", What: "Lean scanner model and real scanner differ",
					Finding: c07Classify(j.m, j.input, "corr"),
					Case:    c07Case{j.m.Name, vh.Hx(j.m.RS), vh.Hx(j.input), vh.HexChunks(j.chunks)}, Got: got, Want: a})
			}
		}
	}
}

func init() { c07Extra = runC07Extra }

var c07Extra func(c *vh.Ctx)

func c07ClassifyRun(m c07Mode, r vh.RunResult) string { return "" }
