package main

import (
	"bytes"
	"crypto/sha1"
	"encoding/hex"
	"fmt"
	"math"
	"math/big"
	"os"
	"path/filepath"
	"regexp"
	"strconv"
	"strings"
	"sync"

	"github.com/benhoyt/goawk/interp"
	"github.com/benhoyt/goawk/parser"

	"verifharness/vh"
)

// ---- numbers ------------------------------------------------------------------------------------

// numT is a float64 value given both as an AWK expression and in the protocol form (exact rational, nan, inf, -inf).
type numT struct {
	Awk   string `json:"awk"`
	Proto string `json:"proto"`
}

func (n numT) F() float64 {
	switch n.Proto {
	case "nan":
		return math.NaN()
	case "inf":
		return math.Inf(1)
	case "-inf":
		return math.Inf(-1)
	}
	r, ok := new(big.Rat).SetString(n.Proto)
	if !ok {
		panic("bad num " + n.Proto)
	}
	f, _ := r.Float64()
	return f
}

func protoOfFloat(f float64) string {
	switch {
	case math.IsNaN(f):
		return "nan"
	case math.IsInf(f, 1):
		return "inf"
	case math.IsInf(f, -1):
		return "-inf"
	}
	r := new(big.Rat).SetFloat64(f)
	if r.IsInt() {
		return r.Num().String()
	}
	return r.Num().String() + "/" + r.Denom().String()
}

// numLit makes a numT from an AWK numeric literal (optionally negated).
func numLit(lit string) numT {
	neg := strings.HasPrefix(lit, "-")
	f, err := strconv.ParseFloat(strings.TrimPrefix(lit, "-"), 64)
	if err != nil {
		panic(err)
	}
	if neg {
		f = -f
	}
	return numT{Awk: lit, Proto: protoOfFloat(f)}
}

func numInt(k int) numT { return numT{Awk: strconv.Itoa(k), Proto: strconv.Itoa(k)} }

var specialNums = []numT{
	{Awk: "log(-1)", Proto: "nan"},
	{Awk: "-log(0)", Proto: "inf"},
	{Awk: "log(0)", Proto: "-inf"},
	{Awk: "2^31", Proto: "2147483648"},
	{Awk: "2^53", Proto: "9007199254740992"},
	{Awk: "2^63", Proto: "9223372036854775808"},
	{Awk: "-2^63", Proto: "-9223372036854775808"},
	{Awk: "(2^63-1024)", Proto: "9223372036854774784"},
	{Awk: "2^64", Proto: "18446744073709551616"},
	numLit("1e30"), numLit("-1e30"), numLit("1e300"),
}

// ---- regex subset -------------------------------------------------------------------------------

type reNode struct {
	K      string    `json:"k"` // e b . c ^ $ & | * + ?
	B      byte      `json:"b,omitempty"`
	Neg    bool      `json:"neg,omitempty"`
	Ranges [][2]byte `json:"ranges,omitempty"`
	A      *reNode   `json:"a,omitempty"`
	C      *reNode   `json:"c,omitempty"`
}

func (r *reNode) proto() string {
	switch r.K {
	case "e", ".", "^", "$":
		return r.K
	case "b":
		return fmt.Sprintf("b%02x", r.B)
	case "c":
		s := "["
		if r.Neg {
			s += "1"
		} else {
			s += "0"
		}
		s += fmt.Sprintf("%x", len(r.Ranges))
		for _, rg := range r.Ranges {
			s += fmt.Sprintf("%02x%02x", rg[0], rg[1])
		}
		return s
	case "&", "|":
		return r.K + r.A.proto() + r.C.proto()
	default:
		return r.K + r.A.proto()
	}
}

// prec: 0 alternation, 1 concatenation, 2 repetition operand (atom)
func (r *reNode) src(prec int) string {
	var s string
	var my int
	switch r.K {
	case "e":
		return "()"
	case "b":
		return string([]byte{r.B})
	case ".", "^", "$":
		return r.K
	case "c":
		s = "["
		if r.Neg {
			s += "^"
		}
		for _, rg := range r.Ranges {
			if rg[0] == rg[1] {
				s += string([]byte{rg[0]})
			} else {
				s += string([]byte{rg[0]}) + "-" + string([]byte{rg[1]})
			}
		}
		return s + "]"
	case "|":
		s, my = r.A.src(0)+"|"+r.C.src(0), 0
	case "&":
		s, my = r.A.src(1)+r.C.src(1), 1
	default:
		s, my = r.A.src(2)+r.K, 1 // a repetition is not an atom: x** is written (x*)*
		if prec == 2 {
			return "(" + s + ")"
		}
		return s
	}
	if my < prec {
		return "(" + s + ")"
	}
	return s
}

func reB(b byte) *reNode                { return &reNode{K: "b", B: b} }
func reCat(a, c *reNode) *reNode        { return &reNode{K: "&", A: a, C: c} }
func reAlt(a, c *reNode) *reNode        { return &reNode{K: "|", A: a, C: c} }
func reRep(k string, a *reNode) *reNode { return &reNode{K: k, A: a} }
func reCls(neg bool, rs ...[2]byte) *reNode {
	return &reNode{K: "c", Neg: neg, Ranges: rs}
}
func reLit(s string) *reNode {
	var r *reNode
	for i := 0; i < len(s); i++ {
		if r == nil {
			r = reB(s[i])
		} else {
			r = reCat(r, reB(s[i]))
		}
	}
	return r
}

// ---- operations ---------------------------------------------------------------------------------

type op struct {
	Kind    string  `json:"kind"` // setline read get set getnf setnfnum setnfstr fs ofs mode dump rmw nfincr
	Idx     numT    `json:"idx,omitempty"`
	Val     string  `json:"val_hex,omitempty"`
	Re      *reNode `json:"re,omitempty"`      // fs: the regex tree when the separator is generated as a regex
	NoRe    bool    `json:"no_re,omitempty"`   // fs: the text does not compile as a regex
	Mode    string  `json:"mode,omitempty"`    // mode: "", csv, tsv, csv separator=X, or an invalid text; rmw / nfincr: the AWK spelling
	Variant int     `json:"variant,omitempty"` // AWK spelling
	Class   string  `json:"class,omitempty"`   // generator's class of the index / value (distribution only)
	Route   string  `json:"route,omitempty"`   // read / operand: "m" = delivered by the main loop, "g" = plain getline, "v" = getline var
	Inner   *op     `json:"inner,omitempty"`   // operand: the assignment the `var=value` operand performs (setnfstr, fs, ofs, mode)
	Rec     string  `json:"rec_hex,omitempty"` // operand (routes g, m): the record the reader delivers after an accepted assignment
}

func (o op) val() []byte { return vh.Unhx(defHx(o.Val)) }
func defHx(s string) string {
	if s == "" {
		return "-"
	}
	return s
}

type history struct {
	RSEmpty bool
	Files   bool   // un-redirected input comes from ARGV operands (one one-record file per read) instead of stdin
	InMode  string // "", "csv", "tsv": input mode of the whole history
	Ops     []op
}

func (o op) rec() []byte { return vh.Unhx(defHx(o.Rec)) }

// operandText: the command-line operand performing the inner assignment
func operandText(in *op) string {
	switch in.Kind {
	case "setnfstr":
		return "NF=" + string(in.val())
	case "fs":
		return "FS=" + string(in.val())
	case "ofs":
		return "OFS=" + string(in.val())
	case "mode":
		return "OUTPUTMODE=" + in.Mode
	}
	panic("operand: unsupported inner op " + in.Kind)
}

// okForOperand: the value survives the operand route unchanged (no escape processing, no newline)
func okForOperand(b []byte) bool { return bytes.IndexAny(b, "\\\n\r\x00") < 0 }

// ---- one-record files for the operand route and for getline < file -------------------------------

var (
	tmpOnce  sync.Once
	tmpDir   string
	tmpFiles sync.Map
)

func fileFor(content []byte) string {
	tmpOnce.Do(func() {
		d, err := os.MkdirTemp("", "vh_c06_")
		if err != nil {
			panic(err)
		}
		tmpDir = d
	})
	sum := sha1.Sum(content)
	name := filepath.Join(tmpDir, hex.EncodeToString(sum[:10]))
	if _, ok := tmpFiles.Load(name); !ok {
		// runs execute in parallel: write under a private name and rename, so that a reader never sees a partial file
		f, err := os.CreateTemp(tmpDir, "w")
		if err != nil {
			panic(err)
		}
		f.Write(append(append([]byte(nil), content...), '\n'))
		f.Close()
		if err := os.Rename(f.Name(), name); err != nil {
			panic(err)
		}
		tmpFiles.Store(name, true)
	}
	return name
}

func cleanupFiles() {
	if tmpDir != "" {
		os.RemoveAll(tmpDir)
	}
}

// csvSepOfMode: (on, separator, valid)
func csvSepOfMode(m string) (bool, byte, bool) {
	switch m {
	case "":
		return false, 0, true
	case "csv":
		return true, ',', true
	case "tsv":
		return true, '\t', true
	}
	if strings.HasPrefix(m, "csv separator=") && len(m) == len("csv separator=")+1 {
		return true, m[len(m)-1], true
	}
	if strings.HasPrefix(m, "tsv separator=") && len(m) == len("tsv separator=")+1 {
		return true, m[len(m)-1], true
	}
	return false, 0, false
}

func protoWords(h *history) []string {
	ws := make([]string, 0, len(h.Ops))
	for _, o := range h.Ops {
		switch o.Kind {
		case "setline":
			ws = append(ws, "L:"+defHx(o.Val))
		case "read":
			ws = append(ws, "R:"+defHx(o.Val))
		case "get":
			ws = append(ws, "G:"+o.Idx.Proto)
		case "set":
			ws = append(ws, "S:"+o.Idx.Proto+":"+defHx(o.Val))
		case "getnf":
			ws = append(ws, "N")
		case "setnfnum":
			ws = append(ws, "Mn:"+o.Idx.Proto)
		case "setnfstr":
			ws = append(ws, "Ms:"+defHx(o.Val)+":"+o.Idx.Proto)
		case "fs":
			re := "e"
			if o.NoRe {
				re = "!"
			} else if o.Re != nil {
				re = o.Re.proto()
			}
			ws = append(ws, "F:"+defHx(o.Val)+":"+re)
		case "ofs":
			ws = append(ws, "O:"+defHx(o.Val))
		case "mode":
			on, sep, ok := csvSepOfMode(o.Mode)
			switch {
			case !ok:
				ws = append(ws, "C:!")
			case !on:
				ws = append(ws, "C:-")
			default:
				ws = append(ws, "C:"+vh.Hx([]byte{sep}))
			}
		case "dump":
			ws = append(ws, "D")
		case "operand":
			inner := protoWords(&history{Ops: []op{*o.Inner}})[0]
			ws = append(ws, "A~"+o.Route+"~"+defHx(o.Rec)+"~"+inner)
		case "getlinevar", "getlinefile":
			ws = append(ws, "K")
		case "rmw":
			ws = append(ws, "I:"+o.Idx.Proto+":"+defHx(o.Val))
		case "nfincr":
			ws = append(ws, "J:"+o.Idx.Proto)
		default:
			panic("unknown op kind " + o.Kind)
		}
	}
	return ws
}

// ---- AWK rendering ------------------------------------------------------------------------------

func awkStr(b []byte) string {
	// every escape has exactly two hex digits, which is the most the lexer reads, so a following character is never absorbed
	var s strings.Builder
	s.WriteByte('"')
	for _, c := range b {
		if (c >= 'a' && c <= 'z') || (c >= 'A' && c <= 'Z') || (c >= '0' && c <= '9') || c == ' ' || c == ',' || c == ';' || c == ':' || c == '-' || c == '_' {
			s.WriteByte(c)
		} else {
			fmt.Fprintf(&s, "\\x%02x", c)
		}
	}
	s.WriteByte('"')
	return s.String()
}

const (
	obsVal  = ` printf "v %d %d:%s\n", (x == 0+x), length(x), x;`
	obsNF   = ` x = NF; printf "n %d:%s %.17g\n", length(x), x, x+0;`
	obsNone = ` printf "_\n";`
)

// okForStdin: can the text be delivered as one input record (RS="\n", or RS="" when rsEmpty)?
func okForStdin(b []byte, rsEmpty bool) bool {
	if len(b) == 0 || bytes.IndexByte(b, '\r') >= 0 {
		return false
	}
	if !rsEmpty {
		return bytes.IndexByte(b, '\n') < 0
	}
	return b[0] != '\n' && b[len(b)-1] != '\n' && !bytes.Contains(b, []byte("\n\n"))
}

// plainText: letters, digits and single inner spaces only (reads the same as a raw record in every input mode)
func plainText(b []byte) bool {
	for _, c := range b {
		if !((c >= 'a' && c <= 'z') || (c >= '0' && c <= '9')) {
			return false
		}
	}
	return len(b) > 0
}

func okForSubRepl(b []byte) bool { return bytes.IndexAny(b, "&\\") < 0 }

// effectiveVariant normalises the requested spelling to one that is applicable to this op.
func effectiveVariant(o op, h *history) int {
	rsEmpty := h.RSEmpty
	switch o.Kind {
	case "setline":
		if o.Variant == 1 && okForSubRepl(o.val()) {
			return 1
		}
		if o.Variant == 2 {
			return 2
		}
	case "set":
		if o.Variant == 1 && okForStdin(o.val(), rsEmpty) && (h.InMode == "" || plainText(o.val())) {
			return 1
		}
		if o.Variant == 2 && okForSubRepl(o.val()) {
			return 2
		}
	case "get":
		if o.Variant == 1 && o.Idx.Proto == "0" {
			return 1
		}
	case "setnfnum":
		if o.Variant >= 1 && o.Variant <= 3 {
			return o.Variant
		}
	}
	return 0
}

const obsGetline = ` printf "g %d\n", r;`

type rendered struct {
	Prog  string
	Stdin []byte
	Args  []string
}

// renderAWK: the observation program and its stdin.
func renderAWK(h *history) (string, []byte) {
	r := render(h)
	return r.Prog, r.Stdin
}

// render: the observation program, its stdin and its command-line operands. Operations are performed in a BEGIN block; in
// a read marked "m" is delivered by the main loop instead: the current block is closed and the
// following operations run in the action of the next record (`{ seg++ } seg == k { … }`).
func render(h *history) rendered {
	var p strings.Builder
	var stdin [][]byte
	var args []string
	seg := 0
	feed := func(rec []byte) {
		if h.Files {
			args = append(args, fileFor(rec))
		} else {
			stdin = append(stdin, rec)
		}
	}
	boundary := func() {
		seg++
		if seg == 1 {
			p.WriteString(" } { seg++ }")
		} else {
			p.WriteString(" }")
		}
		p.WriteString(fmt.Sprintf(" seg == %d {", seg))
	}
	p.WriteString("BEGIN {")
	for _, o := range h.Ops {
		v := effectiveVariant(o, h)
		switch o.Kind {
		case "setline":
			switch v {
			case 1:
				p.WriteString(" sub(/^.*$/, " + awkStr(o.val()) + ");" + obsNone)
			case 2:
				p.WriteString(" $(0) = " + awkStr(o.val()) + ";" + obsNone)
			default:
				p.WriteString(" $0 = " + awkStr(o.val()) + ";" + obsNone)
			}
		case "read":
			feed(o.val())
			if o.Route == "m" {
				boundary()
				p.WriteString(obsNone)
			} else {
				p.WriteString(" getline;" + obsNone)
			}
		case "operand":
			args = append(args, operandText(o.Inner))
			accepted := !opFails(*o.Inner)
			switch o.Route {
			case "v":
				if accepted {
					feed([]byte("junk record"))
				}
				p.WriteString(" r = (getline junk);" + obsGetline)
			case "g":
				if accepted {
					feed(o.rec())
				}
				p.WriteString(" r = getline;" + obsGetline)
			default:
				if accepted {
					feed(o.rec())
				}
				boundary()
				p.WriteString(obsNone)
			}
		case "getlinevar":
			feed(o.val())
			p.WriteString(" r = (getline junk);" + obsGetline)
		case "getlinefile":
			f := awkStr([]byte(fileFor(o.val())))
			p.WriteString(" r = (getline junk < " + f + "); close(" + f + ");" + obsGetline)
		case "get":
			if v == 1 {
				p.WriteString(" x = $0;" + obsVal)
			} else {
				p.WriteString(" x = $(" + o.Idx.Awk + ");" + obsVal)
			}
		case "set":
			switch v {
			case 1:
				feed(o.val())
				p.WriteString(" getline $(" + o.Idx.Awk + ");" + obsNone)
			case 2:
				p.WriteString(" sub(/^.*$/, " + awkStr(o.val()) + ", $(" + o.Idx.Awk + "));" + obsNone)
			default:
				p.WriteString(" $(" + o.Idx.Awk + ") = " + awkStr(o.val()) + ";" + obsNone)
			}
		case "getnf":
			p.WriteString(obsNF)
		case "setnfnum":
			switch v {
			case 1: // through a variable
				p.WriteString(" y = " + o.Idx.Awk + "; NF = y;" + obsNone)
			case 2:
				p.WriteString(" NF = " + o.Idx.Awk + " + 0;" + obsNone)
			case 3:
				p.WriteString(" NF = (" + o.Idx.Awk + ");" + obsNone)
			default:
				p.WriteString(" NF = " + o.Idx.Awk + ";" + obsNone)
			}
		case "setnfstr":
			p.WriteString(" NF = " + awkStr(o.val()) + ";" + obsNone)
		case "fs":
			p.WriteString(" FS = " + awkStr(o.val()) + ";" + obsNone)
		case "ofs":
			p.WriteString(" OFS = " + awkStr(o.val()) + ";" + obsNone)
		case "mode":
			p.WriteString(" OUTPUTMODE = " + awkStr([]byte(o.Mode)) + ";" + obsNone)
		case "rmw":
			// Mode is the operator spelling with %s for the field: "%s++", "++%s", "%s += 3" …
			p.WriteString(" " + fmt.Sprintf(o.Mode, "$("+o.Idx.Awk+")") + ";" + obsNone)
		case "nfincr":
			p.WriteString(" " + o.Mode + ";" + obsNone)
		case "dump":
			p.WriteString(obsNF + ` x = $0;` + obsVal + ` n = int(NF + 0); if (n > 5000) n = 5000; for (k = 1; k <= n; k++) { x = $k;` + obsVal + ` } printf ".\n";`)
		}
	}
	p.WriteString(" }")
	var in []byte
	sep := "\n"
	if h.RSEmpty {
		sep = "\n\n"
	}
	for _, s := range stdin {
		in = append(in, s...)
		in = append(in, sep...)
	}
	return rendered{p.String(), in, args}
}

// ---- running the real interpreter and reading its observations ------------------------------------

type tok struct {
	K     string // _ v n e .
	Bytes []byte // v: value, n: shown
	Flag  bool   // v: the printed (x == 0+x)
	F     float64
	Err   string // e: kind
	Int   string // e: the number in the message
	Raw   string // e: message
}

func showToks(ts []tok) string {
	var s []string
	for _, t := range ts {
		switch t.K {
		case "v":
			s = append(s, fmt.Sprintf("v:%v:%s", t.Flag, vh.Hx(t.Bytes)))
		case "n":
			s = append(s, fmt.Sprintf("n:%s:%v", vh.Hx(t.Bytes), t.F))
		case "e":
			s = append(s, fmt.Sprintf("e:%s:%s", t.Err, t.Int))
		case "g":
			s = append(s, "g:"+t.Int)
		default:
			s = append(s, t.K)
		}
	}
	return strings.Join(s, " ")
}

var (
	reErrField = regexp.MustCompile(`^field index too large: (-?\d+)$`)
	reErrNFNeg = regexp.MustCompile(`^NF set to negative value: (-?\d+)$`)
	reErrNFBig = regexp.MustCompile(`^NF set too large: (-?\d+)$`)
)

func classifyErr(msg string) (string, string) {
	if m := reErrField.FindStringSubmatch(msg); m != nil {
		return "fieldTooLarge", m[1]
	}
	if m := reErrNFNeg.FindStringSubmatch(msg); m != nil {
		return "nfNegative", m[1]
	}
	if m := reErrNFBig.FindStringSubmatch(msg); m != nil {
		return "nfTooLarge", m[1]
	}
	if strings.HasPrefix(msg, "invalid regex") {
		return "badRegex", "0"
	}
	if strings.HasPrefix(msg, "invalid output mode") || strings.HasPrefix(msg, "invalid CSV/TSV separator") {
		return "badOutMode", "0"
	}
	return "other", "0"
}

func runReal(h *history) ([]tok, vh.RunResult, string) {
	rd := render(h)
	src := rd.Prog
	prog, err := parser.ParseProgram([]byte(src), nil)
	if err != nil {
		return nil, vh.RunResult{}, "harness program does not parse: " + err.Error() + "\n" + src
	}
	cfg := &interp.Config{Stdin: bytes.NewReader(rd.Stdin), Args: rd.Args}
	if h.RSEmpty {
		cfg.Vars = []string{"RS", ""}
	}
	switch h.InMode {
	case "csv":
		cfg.InputMode = interp.CSVMode
	case "tsv":
		cfg.InputMode = interp.TSVMode
	}
	res := vh.ExecProg(prog, cfg)
	if res.Panic != "" {
		return nil, res, ""
	}
	toks, bad := parseOut([]byte(res.Out))
	if bad != "" {
		return nil, res, bad
	}
	if res.Err != "" {
		k, n := classifyErr(res.Err)
		toks = append(toks, tok{K: "e", Err: k, Int: n, Raw: res.Err})
	}
	return toks, res, ""
}

func parseOut(out []byte) ([]tok, string) {
	var toks []tok
	for len(out) > 0 {
		switch out[0] {
		case '_', '.':
			if len(out) < 2 || out[1] != '\n' {
				return nil, "bad marker"
			}
			toks = append(toks, tok{K: string(out[:1])})
			out = out[2:]
		case 'g':
			j := bytes.IndexByte(out, '\n')
			if j < 0 || len(out) < 3 {
				return nil, "bad g"
			}
			toks = append(toks, tok{K: "g", Int: string(out[2:j])})
			out = out[j+1:]
		case 'v':
			// v <bit> <len>:<bytes>\n
			i := bytes.IndexByte(out, ':')
			if i < 0 {
				return nil, "bad v"
			}
			parts := strings.Split(string(out[:i]), " ")
			if len(parts) != 3 {
				return nil, "bad v header"
			}
			n, err := strconv.Atoi(parts[2])
			if err != nil || len(out) < i+1+n+1 || out[i+1+n] != '\n' {
				return nil, "bad v length"
			}
			toks = append(toks, tok{K: "v", Flag: parts[1] == "1", Bytes: append([]byte(nil), out[i+1:i+1+n]...)})
			out = out[i+1+n+1:]
		case 'n':
			// n <len>:<bytes> <%.17g>\n
			i := bytes.IndexByte(out, ':')
			if i < 0 {
				return nil, "bad n"
			}
			n, err := strconv.Atoi(string(out[2:i]))
			if err != nil || len(out) < i+1+n+1 || out[i+1+n] != ' ' {
				return nil, "bad n length"
			}
			shown := append([]byte(nil), out[i+1:i+1+n]...)
			rest := out[i+1+n+1:]
			j := bytes.IndexByte(rest, '\n')
			if j < 0 {
				return nil, "bad n value"
			}
			f, err := strconv.ParseFloat(strings.ToLower(string(rest[:j])), 64)
			if err != nil {
				return nil, "bad n float " + string(rest[:j])
			}
			toks = append(toks, tok{K: "n", Bytes: shown, F: f})
			out = rest[j+1:]
		default:
			return nil, fmt.Sprintf("unexpected byte %q", out[0])
		}
	}
	return toks, ""
}

// ---- comparison with the Lean model's answer -------------------------------------------------------

// flagDecides: for these texts the printed (x == 0+x) is 1 exactly when the value is a numeric string (not a true string).
var reNonCanonicalNumber = regexp.MustCompile(`^( +[0-9]+|[0-9]+ +|\+[0-9]+|0[0-9]+|[0-9]+\.0+)$`)

func compareLean(ans string, toks []tok) string {
	ws := strings.Fields(ans)
	if len(ws) == 0 || ws[0] != "ok" {
		return "driver answered " + ans
	}
	ws = ws[1:]
	// the real output has "." after a dump; the model's has not
	var real []tok
	for _, t := range toks {
		if t.K != "." {
			real = append(real, t)
		}
	}
	if len(ws) != len(real) {
		return fmt.Sprintf("%d observations from the model, %d from the interpreter", len(ws), len(real))
	}
	for i, w := range ws {
		t := real[i]
		parts := strings.Split(w, ":")
		switch parts[0] {
		case "_":
			if t.K != "_" {
				return fmt.Sprintf("observation %d: model none, interpreter %s", i, t.K)
			}
		case "v":
			if t.K != "v" || vh.Hx(t.Bytes) != parts[2] {
				return fmt.Sprintf("observation %d: value differs", i)
			}
			if reNonCanonicalNumber.Match(t.Bytes) {
				isTrue := parts[1] == "1"
				if t.Flag == isTrue {
					return fmt.Sprintf("observation %d: number/string typing differs (model isTrueStr=%v, interpreter compares as number=%v)", i, isTrue, t.Flag)
				}
			}
		case "n":
			if t.K != "n" || vh.Hx(t.Bytes) != parts[1] {
				return fmt.Sprintf("observation %d: NF text differs", i)
			}
			mf := numT{Proto: strings.TrimSuffix(parts[2], "/1")}.F()
			if !(mf == t.F || (math.IsNaN(mf) && math.IsNaN(t.F))) {
				return fmt.Sprintf("observation %d: NF value differs (model %v, interpreter %v)", i, mf, t.F)
			}
		case "g":
			if t.K != "g" || t.Int != parts[1] {
				return fmt.Sprintf("observation %d: getline result differs (model %s, interpreter %s)", i, parts[1], showToks([]tok{t}))
			}
		case "e":
			if t.K != "e" || t.Err != parts[1] || (t.Int != parts[2]) {
				return fmt.Sprintf("observation %d: error differs (interpreter: %q)", i, t.Raw)
			}
		default:
			return "unknown model token " + w
		}
	}
	return ""
}
