package main

// C06, newline-output stream (seeded C06-s2): `Config.NewlineOutput` decides which terminator `print` writes and nothing else.
// `$0` rebuilt from the fields in CSV/TSV output mode goes through the CSV writer, which ends a record with that terminator;
// whatever the terminator is, it must not stay in `$0`. Metamorphic statement: a program that assigns fields / NF and prints
// `$0`, its length, NF and every field between markers gives, under CRLFNewlineMode, exactly the output of the default mode
// with each line feed written as CR LF. (No field contains CR or LF, so the translation is unambiguous.)

import (
	"bytes"
	"fmt"
	"strings"

	"verifharness/vh"

	"github.com/benhoyt/goawk/interp"
	"github.com/benhoyt/goawk/parser"
)

type crlfCase struct {
	OutputMode string `json:"output_mode"`
	Via        string `json:"output_mode_set_by"` // config | begin
	Line       string `json:"record"`
	Mutation   string `json:"mutation"`
	Program    string `json:"awk_program"`
}

const crlfDump = `; printf "<%d|%d|%s|", length($0), NF, $0; for (i = 1; i <= NF; i++) printf "[%s]", $i; print ">"`

func crlfCases(c *vh.Ctx) []crlfCase {
	lines := []string{"a b c", "a", "", "a,b c", "x\ty z", `q"r s`, "1 2 3 4 5", " lead trail "}
	muts := []string{`$2 = "x,y"`, `$1 = $1`, `NF = 2`, `NF = 5`, `$5 = "e"`, `$1 = ""`, `$3 = "q\"r"`, `$2 = "t\tu"`, `NF++`, `$(NF+2) = ""`, `sub(/a/, "b,c", $1)`, `$1 = " sp "`}
	var cs []crlfCase
	for _, om := range []string{"", "csv", "tsv"} {
		for _, via := range []string{"config", "begin"} {
			if om == "" && via == "begin" {
				continue
			}
			for _, l := range lines {
				for _, m := range muts {
					if !c.Thorough() && c.Rng.Intn(3) != 0 {
						continue
					}
					src := ""
					if via == "begin" {
						src = fmt.Sprintf("BEGIN { OUTPUTMODE = %q } ", om)
					}
					src += "{ " + m + crlfDump + "; print; " + m + crlfDump + " }"
					cs = append(cs, crlfCase{OutputMode: om, Via: via, Line: l, Mutation: m, Program: src})
				}
			}
		}
	}
	return cs
}

func crlfRun(cs crlfCase, crlf bool) vh.RunResult {
	prog, err := parser.ParseProgram([]byte(cs.Program), nil)
	if err != nil {
		return vh.RunResult{Err: "harness program does not parse: " + err.Error()}
	}
	cfg := &interp.Config{Stdin: bytes.NewReader([]byte(cs.Line + "\n"))}
	if cs.Via == "config" {
		switch cs.OutputMode {
		case "csv":
			cfg.OutputMode = interp.CSVMode
		case "tsv":
			cfg.OutputMode = interp.TSVMode
		}
	}
	if crlf {
		cfg.NewlineOutput = interp.CRLFNewlineMode
	}
	return vh.ExecProg(prog, cfg)
}

func runCrlf(c *vh.Ctx) {
	for _, cs := range crlfCases(c) {
		a := crlfRun(cs, false)
		b := crlfRun(cs, true)
		c.Eval("crlf|"+cs.OutputMode+cs.Via+cs.Line+cs.Mutation, true)
		c.OracleCase()
		c.Hit("newline-output:mode=" + cs.OutputMode + "/" + cs.Via)
		if a.Panic != "" || b.Panic != "" {
			c.Fail(vh.Failure{Kind: "oracle", What: "the interpreter panicked", Case: cs, Got: a.Panic + b.Panic})
			continue
		}
		want := strings.ReplaceAll(a.Out, "\n", "\r\n")
		if b.Out != want || a.Err != b.Err {
			c.Fail(vh.Failure{Kind: "oracle", What: "with Config.NewlineOutput = CRLF the record observed after a field/NF assignment differs from the default mode by more than the line terminator ($0 keeps terminator bytes of the CSV writer, or NF/fields differ)",
				Case: cs, Got: fmt.Sprintf("%q %s", b.Out, b.Err), Want: fmt.Sprintf("%q %s", want, a.Err)})
		}
	}
}
