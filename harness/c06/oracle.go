package main

// The property itself, evaluated on the real interpreter's observations alone: an eager record {line, fields} written from the
// property text (independent of the Lean model and of GoAWK's record code).
//
//   NF is the number of fields; reads change nothing; $i= / NF= rebuild $0 = fields joined by the current OFS (CSV mode: a text
//   that RFC 4180 reads back to the same fields), new fields in between empty; $0= re-splits with the FS in force at that
//   moment; fields past NF are empty; negative indexes count from the last field; FS " " = runs of blanks (space, tab, newline)
//   with leading/trailing blanks ignored, one other character = literal, longer = regex, leftmost-longest, empty matches
//   ignored; changing FS does not re-split.
//
// Where the property text is silent the oracle makes no demand: a history stops being checked ("ineligible") from the first
// operation that touches such a point (FS="" ; a non-finite index ; FS=" " on text with \v \f \r or a Unicode space, which
// strings.Fields also splits at ; RS="" with its extra newline rule ; CSV mode with a non-RFC separator).

import (
	"bytes"
	"fmt"
	"math"
	"regexp"
	"strings"
	"unicode"
	"unicode/utf8"

	"verifharness/vh"
)

const maxFieldIndex = 1000000

type eager struct {
	inMode string // "", "csv", "tsv": input mode (fields = RFC 4180 parse of the record)
	line   string
	fields []string
	fs     string
	ofs    string
	csvOn  bool
	csvSep byte
	// bookkeeping for the F08s class predicate: the last NF-determining operation was `NF = "<string>"`
	nfStr     string
	nfStrLive bool
	nfStrFrac bool
}

func hasOddSpace(s string) bool {
	for _, r := range s {
		if r == '\v' || r == '\f' || r == '\r' || (r > 127 && unicode.IsSpace(r)) {
			return true
		}
	}
	return false
}

// split per the property; ok=false: the property text does not determine the result.
func (e *eager) split(line string) ([]string, bool) {
	if e.inMode != "" {
		// CSV/TSV input: the fields are the RFC 4180 reading of the record text; FS plays no part
		if line == "" || strings.ContainsAny(line, "\r") {
			return nil, false
		}
		sep := byte(',')
		if e.inMode == "tsv" {
			sep = '\t'
		}
		return rfc4180(line, sep)
	}
	switch {
	case e.fs == " ":
		if hasOddSpace(line) {
			return nil, false
		}
		var out []string
		start := -1
		for i := 0; i < len(line); i++ {
			blank := line[i] == ' ' || line[i] == '\t' || line[i] == '\n'
			if blank && start >= 0 {
				out = append(out, line[start:i])
				start = -1
			} else if !blank && start < 0 {
				start = i
			}
		}
		if start >= 0 {
			out = append(out, line[start:])
		}
		return out, true
	case e.fs == "":
		return nil, false
	case line == "":
		return nil, true
	case utf8.RuneCountInString(e.fs) == 1:
		// one character (or one stray byte): literal
		var out []string
		rest := line
		for {
			i := strings.Index(rest, e.fs)
			if i < 0 {
				break
			}
			out = append(out, rest[:i])
			rest = rest[i+len(e.fs):]
		}
		return append(out, rest), true
	default:
		re, err := regexp.Compile("(?s:" + e.fs + ")")
		if err != nil {
			return nil, false
		}
		re.Longest()
		var out []string
		prev := 0
		for _, m := range re.FindAllStringIndex(line, -1) {
			if m[0] == m[1] {
				continue
			}
			out = append(out, line[prev:m[0]])
			prev = m[1]
		}
		return append(out, line[prev:]), true
	}
}

// rfc4180 reads one record; ok=false if the text is not a well-formed record.
func rfc4180(text string, sep byte) ([]string, bool) {
	var fields []string
	i := 0
	for {
		var f []byte
		if i < len(text) && text[i] == '"' {
			i++
			for {
				if i >= len(text) {
					return nil, false
				}
				if text[i] == '"' {
					if i+1 < len(text) && text[i+1] == '"' {
						f = append(f, '"')
						i += 2
						continue
					}
					i++
					break
				}
				f = append(f, text[i])
				i++
			}
		} else {
			for i < len(text) && text[i] != sep {
				if text[i] == '"' || text[i] == '\n' || text[i] == '\r' {
					return nil, false
				}
				f = append(f, text[i])
				i++
			}
		}
		fields = append(fields, string(f))
		if i >= len(text) {
			return fields, true
		}
		if text[i] != sep {
			return nil, false
		}
		i++
	}
}

// csvLineOK: is `got` an acceptable CSV-mode $0 for these fields?
func csvLineOK(got string, fields []string, sep byte) bool {
	if len(fields) == 0 {
		return got == ""
	}
	if len(fields) == 1 && fields[0] == "" && got == "" {
		return true // one empty field: both the empty text and `""` are CSV encodings of it (GoAWK writes `""` since G08-2)
	}
	back, ok := rfc4180(got, sep)
	if !ok || len(back) != len(fields) {
		return false
	}
	for i := range back {
		if back[i] != fields[i] {
			return false
		}
	}
	return true
}

func truncIndex(f float64) (int64, bool) {
	if math.IsNaN(f) || math.IsInf(f, 0) {
		return 0, false
	}
	t := math.Trunc(f)
	if t > 4e18 {
		return 4000000000000000000, true
	}
	if t < -4e18 {
		return -4000000000000000000, true
	}
	return int64(t), true
}

// oracleEligible: histories with RS="" are outside the property text (extra newline rule).
func oracleEligible(h *history) bool { return !h.RSEmpty || h.InMode != "" }

func fail(what string, got, want string) *vh.Failure {
	return &vh.Failure{Kind: "oracle", What: what, Got: got, Want: want}
}

// oracleCheck walks the history and the observations together. nil = the property held wherever it speaks.
func oracleCheck(h *history, toks []tok) *vh.Failure {
	var known *vh.Failure // first failure of a recorded class (F08s); the walk continues after it
	f := oracleWalk(h, toks, &known)
	if f != nil {
		return f
	}
	return known
}

func oracleWalk(h *history, toks []tok, known **vh.Failure) *vh.Failure {
	e := &eager{fs: " ", ofs: " ", inMode: h.InMode}
	pos := 0
	next := func() (tok, bool) {
		if pos >= len(toks) {
			return tok{}, false
		}
		t := toks[pos]
		pos++
		return t, true
	}
	// default mode: a rebuild sets e.line at once (OFS of that moment). CSV mode: the encoding is not unique, so the next read
	// of $0 is checked to read back (RFC 4180, separator of the moment of the rebuild) to the fields and then adopted as e.line.
	pendingLine := false
	var pendingFields []string
	var pendingSep byte
	rebuild := func() {
		if !e.csvOn {
			e.line = strings.Join(e.fields, e.ofs)
			pendingLine = false
			return
		}
		pendingLine, pendingFields, pendingSep = true, append([]string(nil), e.fields...), e.csvSep
	}
	checkLine := func(got string, opi int) *vh.Failure {
		if pendingLine {
			if !csvLineOK(got, pendingFields, pendingSep) {
				return fail(fmt.Sprintf("op %d: in CSV output mode $0 does not read back to the fields after an assignment", opi), fmt.Sprintf("%q", got),
					"a CSV encoding of "+fmt.Sprintf("%q", pendingFields))
			}
			e.line = got
			pendingLine = false
			return nil
		}
		if got != e.line {
			return fail(fmt.Sprintf("op %d: $0 is not what was assigned / the fields joined by OFS", opi), fmt.Sprintf("%q", got), fmt.Sprintf("%q", e.line))
		}
		return nil
	}
	getField := func(i int64) string {
		n := int64(len(e.fields))
		if i < 0 {
			i = n + 1 + i
			if i < 1 {
				return ""
			}
		}
		if i > n {
			return ""
		}
		return e.fields[i-1]
	}
	nfFinding := func(t tok) string {
		if e.nfStrLive && e.nfStrFrac && string(t.Bytes) == e.nfStr {
			return "F08s"
		}
		return ""
	}
	for opi, o := range h.Ops {
		switch o.Kind {
		case "setline", "read":
			t, ok := next()
			if !ok || t.K != "_" {
				return unexpected(opi, o, t, ok)
			}
			fl, det := e.split(string(o.val()))
			if !det {
				return nil
			}
			e.line, e.fields = string(o.val()), fl
			pendingLine = false
			e.nfStrLive = false
		case "get":
			idx, fin := truncIndex(o.Idx.F())
			if !fin {
				return nil
			}
			t, ok := next()
			if !ok || t.K != "v" {
				return unexpected(opi, o, t, ok)
			}
			if idx == 0 {
				if f := checkLine(string(t.Bytes), opi); f != nil {
					return f
				}
			} else if want := getField(idx); string(t.Bytes) != want {
				return fail(fmt.Sprintf("op %d: $(%s) has the wrong value", opi, o.Idx.Awk), fmt.Sprintf("%q", t.Bytes), fmt.Sprintf("%q", want))
			}
		case "getlinevar", "getlinefile":
			// a record read into a variable: the current record, its fields and NF are untouched
			t, ok := next()
			if !ok || t.K != "g" || t.Int != "1" {
				return unexpected(opi, o, t, ok)
			}
		case "operand":
			in := o.Inner
			t, ok := next()
			rejected, wantErr := false, ""
			var apply func()
			switch in.Kind {
			case "setnfstr":
				f := in.Idx.F()
				switch {
				case math.IsNaN(f) || math.IsInf(f, 0):
					return nil
				case math.Trunc(f) < 0:
					rejected, wantErr = true, "nfNegative"
				case math.Trunc(f) > maxFieldIndex:
					rejected, wantErr = true, "nfTooLarge"
				default:
					n := int64(math.Trunc(f))
					apply = func() {
						for int64(len(e.fields)) < n {
							e.fields = append(e.fields, "")
						}
						e.fields = e.fields[:n]
						rebuild()
						e.nfStrLive, e.nfStr, e.nfStrFrac = true, string(in.val()), f != math.Trunc(f)
					}
				}
			case "fs":
				if utf8.RuneCountInString(string(in.val())) > 1 {
					if _, err := regexp.Compile(string(in.val())); err != nil {
						rejected, wantErr = true, "badRegex"
					}
				}
				apply = func() { e.fs = string(in.val()) }
			case "ofs":
				apply = func() { e.ofs = string(in.val()) }
			case "mode":
				on, sep, valid := csvSepOfMode(in.Mode)
				if !valid {
					return nil // an unknown mode text: not this property's business
				}
				apply = func() { e.csvOn, e.csvSep = on, sep }
			}
			if rejected {
				// the record must be exactly as before; the run only survives when getline reports the rejection as -1
				if o.Route == "m" {
					if !ok || t.K != "e" || (t.Err != wantErr && !(wantErr == "nfTooLarge" && t.Err == "nfNegative")) {
						return fail(fmt.Sprintf("op %d: operand %s must be rejected with an error", opi, operandText(in)), showToks([]tok{t}), "e:"+wantErr)
					}
					return nil
				}
				if !ok || t.K != "g" || t.Int != "-1" {
					return fail(fmt.Sprintf("op %d: getline reaching the rejected operand %s must return -1", opi, operandText(in)), showToks([]tok{t}), "g:-1")
				}
				break
			}
			if o.Route == "m" {
				if !ok || t.K != "_" {
					return unexpected(opi, o, t, ok)
				}
			} else if !ok || t.K != "g" || t.Int != "1" {
				return unexpected(opi, o, t, ok)
			}
			apply()
			if o.Route != "v" {
				fl, det := e.split(string(o.rec()))
				if !det {
					return nil
				}
				e.line, e.fields = string(o.rec()), fl
				pendingLine = false
				e.nfStrLive = false
			}
		case "nfincr":
			if e.nfStrLive && e.nfStrFrac {
				return nil // NF does not read as the count here (F08s); what NF+d is then is not determined by the property
			}
			d := int64(o.Idx.F())
			n := int64(len(e.fields)) + d
			t, ok := next()
			if n < 0 {
				if !ok || t.K != "e" || t.Err != "nfNegative" {
					return fail(fmt.Sprintf("op %d: %s making NF negative must be an error", opi, o.Mode), showToks([]tok{t}), "e:nfNegative")
				}
				return nil
			}
			if !ok || t.K != "_" {
				return unexpected(opi, o, t, ok)
			}
			for int64(len(e.fields)) < n {
				e.fields = append(e.fields, "")
			}
			e.fields = e.fields[:n]
			rebuild()
			e.nfStrLive = false
		case "set", "rmw":
			idx, fin := truncIndex(o.Idx.F())
			if !fin {
				return nil
			}
			t, ok := next()
			if idx > maxFieldIndex {
				if !ok || t.K != "e" || t.Err != "fieldTooLarge" {
					return fail(fmt.Sprintf("op %d: assigning $(%s), an index above %d, must be a 'field index too large' error", opi, o.Idx.Awk, maxFieldIndex), showToks([]tok{t}), "e:fieldTooLarge")
				}
				return nil
			}
			if !ok || t.K != "_" {
				return unexpected(opi, o, t, ok)
			}
			if idx == 0 {
				fl, det := e.split(string(o.val()))
				if !det {
					return nil
				}
				e.line, e.fields = string(o.val()), fl
				pendingLine = false
				e.nfStrLive = false
				break
			}
			n := int64(len(e.fields))
			if idx < 0 {
				idx = n + 1 + idx
				if idx < 1 {
					break // before the first field: the property does not say; GoAWK ignores the assignment, and so do we
				}
			}
			for int64(len(e.fields)) < idx {
				e.fields = append(e.fields, "")
			}
			e.fields[idx-1] = string(o.val())
			rebuild()
			e.nfStrLive = false
		case "getnf":
			t, ok := next()
			if !ok || t.K != "n" {
				return unexpected(opi, o, t, ok)
			}
			if t.F != float64(len(e.fields)) {
				f := fail(fmt.Sprintf("op %d: NF is not the number of fields", opi), fmt.Sprintf("NF=%q (%v)", t.Bytes, t.F), fmt.Sprint(len(e.fields)))
				f.Finding = nfFinding(t)
				if f.Finding == "" {
					return f
				}
				if *known == nil {
					*known = f
				}
			}
		case "setnfnum", "setnfstr":
			f := o.Idx.F()
			t, ok := next()
			var n int64
			switch {
			case math.IsNaN(f) || math.IsInf(f, 0):
				return nil // not a count: the property does not say
			case math.Trunc(f) < 0:
				if !ok || t.K != "e" || t.Err != "nfNegative" {
					return fail(fmt.Sprintf("op %d: NF = %s (negative) must be an error", opi, o.Idx.Awk), showToks([]tok{t}), "e:nfNegative")
				}
				return nil
			case math.Trunc(f) > maxFieldIndex:
				if !ok || t.K != "e" || (t.Err != "nfTooLarge" && t.Err != "nfNegative") {
					return fail(fmt.Sprintf("op %d: NF = %s (above %d) must be an error", opi, o.Idx.Awk, maxFieldIndex), showToks([]tok{t}), "e:nfTooLarge")
				}
				return nil
			default:
				n = int64(math.Trunc(f))
			}
			if !ok || t.K != "_" {
				return unexpected(opi, o, t, ok)
			}
			for int64(len(e.fields)) < n {
				e.fields = append(e.fields, "")
			}
			e.fields = e.fields[:n]
			rebuild()
			e.nfStrLive = o.Kind == "setnfstr"
			e.nfStr = string(o.val())
			e.nfStrFrac = f != math.Trunc(f)
		case "fs":
			t, ok := next()
			if ok && t.K == "e" && t.Err == "badRegex" {
				if _, err := regexp.Compile(string(o.val())); err != nil {
					return nil // a separator that is not a regular expression may be rejected
				}
			}
			if !ok || t.K != "_" {
				return unexpected(opi, o, t, ok)
			}
			e.fs = string(o.val())
		case "ofs":
			t, ok := next()
			if !ok || t.K != "_" {
				return unexpected(opi, o, t, ok)
			}
			e.ofs = string(o.val())
		case "mode":
			on, sep, valid := csvSepOfMode(o.Mode)
			t, ok := next()
			if !valid {
				return nil // whatever happens to an unknown mode text is not this property's business
			}
			if !ok || t.K != "_" {
				return unexpected(opi, o, t, ok)
			}
			e.csvOn, e.csvSep = on, sep
		case "dump":
			t, ok := next()
			if !ok || t.K != "n" {
				return unexpected(opi, o, t, ok)
			}
			if t.F != float64(len(e.fields)) {
				f := fail(fmt.Sprintf("op %d: NF is not the number of fields", opi), fmt.Sprintf("NF=%q (%v)", t.Bytes, t.F), fmt.Sprint(len(e.fields)))
				f.Finding = nfFinding(t)
				if f.Finding == "" {
					return f
				}
				if *known == nil {
					*known = f
				}
			}
			t, ok = next()
			if !ok || t.K != "v" {
				return unexpected(opi, o, t, ok)
			}
			if f := checkLine(string(t.Bytes), opi); f != nil {
				return f
			}
			k := 0
			for {
				t, ok = next()
				if !ok {
					return unexpected(opi, o, t, ok)
				}
				if t.K == "." {
					break
				}
				if t.K != "v" {
					return unexpected(opi, o, t, ok)
				}
				k++
				if want := getField(int64(k)); string(t.Bytes) != want {
					return fail(fmt.Sprintf("op %d: $%d has the wrong value", opi, k), fmt.Sprintf("%q", t.Bytes), fmt.Sprintf("%q", want))
				}
			}
			if k != len(e.fields) {
				return fail(fmt.Sprintf("op %d: the dump printed %d fields", opi, k), fmt.Sprint(k), fmt.Sprint(len(e.fields)))
			}
		}
	}
	if pos != len(toks) {
		return fail("the program printed more observations than the history has", showToks(toks[pos:]), "")
	}
	return nil
}

func unexpected(opi int, o op, t tok, ok bool) *vh.Failure {
	got := "nothing (the program stopped)"
	if ok {
		got = showToks([]tok{t})
		if t.K == "e" {
			got += " " + t.Raw
		}
	}
	return fail(fmt.Sprintf("op %d (%s): unexpected outcome", opi, o.Kind), got, "")
}

var _ = bytes.Equal
