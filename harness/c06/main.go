package main

// C06 — $0, the fields and NF stay mutually consistent under every update.
//
// A case is a history of record operations. It is rendered as an AWK program (public API only: parser.ParseProgram +
// interp.ExecProgram) that performs the operations in a BEGIN block and prints every observation length-prefixed.
//   * implementation-side oracle (no model): the observations are checked against an eager record {line, fields}
//     implemented here in Go from the property text (oracle.go);
//   * correspondence: the same history is run on the Lean model `GoawkModel.C06.step` (lazy `Rec`) by drv_c06.

import (
	"encoding/json"
	"fmt"
	"os"
	"strings"

	"verifharness/vh"
)

func main() { vh.Main("C06", runC06) }

// purityStream: the metamorphic "reads are pure" stream with RS / INPUTMODE assignments (G06-1, repaired in 7d0fcb7).
const purityStream = true

type c06Case struct {
	RSEmpty bool     `json:"rs_empty"`
	Files   bool     `json:"files,omitempty"`
	InMode  string   `json:"input_mode,omitempty"`
	Args    []string `json:"args,omitempty"`
	Ops     []op     `json:"ops"`
	Words   []string `json:"protocol_words,omitempty"`
	Program string   `json:"awk_program,omitempty"`
	Stdin   string   `json:"stdin_hex,omitempty"`
}

func mkCase(h *history) c06Case {
	rd := render(h)
	return c06Case{h.RSEmpty, h.Files, h.InMode, rd.Args, h.Ops, protoWords(h), rd.Prog, vh.Hx(rd.Stdin)}
}

func runC06(c *vh.Ctx) {
	c.Rule("a case is a history of ≤12 (quick) / ≤40 (thorough) record operations: $0=, record read, $i read/assign " +
		"(i positive, 0, negative, beyond NF, > 1000000, fractional, huge, NaN/Inf; assignment also through getline $i and sub()), " +
		"NF read / NF= number or string (smaller, larger, 0, fractional, negative, too large; also NF++/NF+=), FS= (space, tab, single " +
		"char, multi-byte char, invalid byte, empty, regex from a generated subset), OFS=, OUTPUTMODE= (default/csv/tsv/other separator/invalid), " +
		"`var=value` operands (NF/FS/OFS/OUTPUTMODE, accepted and rejected: too large, negative, non-compiling) reached by getline var, getline and the main loop; " +
		"records delivered by getline or by the main loop, from stdin or from ARGV files; getline var and getline var < file between observations; " +
		"input mode default, csv or tsv (oracle only); full dumps; rendered as an AWK program whose observations are printed length-prefixed; non-trivial = at least one " +
		"observation after at least one mutation of the record")

	defer cleanupFiles()
	var hs []*history
	if c.ReplayFile != "" {
		hs = loadReplay(c.ReplayFile)
	} else {
		hs = append(hs, corpus()...)
		hs = append(hs, systematic()...)
		n := c.N(5000, 200000)
		maxOps := c.N(12, 40)
		for k := 0; k < n; k++ {
			hs = append(hs, genHistory(c, maxOps))
		}
	}

	// run the real interpreter
	type outT struct {
		toks []tok
		res  vh.RunResult
		bad  string
	}
	outs := make([]outT, len(hs))
	vh.Parallel(len(hs), func(i int) {
		toks, res, bad := runReal(hs[i])
		outs[i] = outT{toks, res, bad}
	})

	// implementation-side oracle
	for i, h := range hs {
		o := outs[i]
		key := strings.Join(protoWords(h), " ")
		c.Eval(fmt.Sprintf("%v|%v|%s|%s", h.RSEmpty, h.Files, h.InMode, key), nontrivial(h))
		distribution(c, h)
		if i%9973 == 1 {
			prog, _ := renderAWK(h)
			c.Sample(map[string]interface{}{"ops": protoWords(h), "program": prog})
		}
		if o.res.Panic != "" {
			c.Fail(vh.Failure{Kind: "oracle", What: "the interpreter panicked: " + o.res.Panic, Case: mkCase(h)})
			continue
		}
		if o.bad != "" {
			c.Fail(vh.Failure{Kind: "oracle", What: "unparsable output of the observation program: " + o.bad, Case: mkCase(h), Got: fmt.Sprintf("%q", o.res.Out)})
			continue
		}
		if !oracleEligible(h) {
			c.Hit("oracle:skipped-outside-property-text")
			continue
		}
		c.OracleCase()
		if f := oracleCheck(h, o.toks); f != nil {
			f.Case = mkCase(h)
			c.Fail(*f)
		}
	}

	if c.ReplayFile == "" && purityStream {
		runPurity(c)
		runCrlf(c)
	}

	// correspondence with the Lean model
	if c.HasLean() {
		var reqs []string
		var idx []int
		for i, h := range hs {
			if h.InMode != "" {
				c.Hit("lean:not-modelled-csv-input-mode")
				continue // CSV/TSV input mode is not in the Lean model: oracle only
			}
			rs := "0"
			if h.RSEmpty {
				rs = "1"
			}
			reqs = append(reqs, "rec "+rs+" "+strings.Join(protoWords(h), " "))
			idx = append(idx, i)
		}
		ans := c.LeanBatch(reqs)
		for k, a := range ans {
			i := idx[k]
			o := outs[i]
			if o.res.Panic != "" || o.bad != "" {
				continue
			}
			c.Trace()
			if msg := compareLean(a, o.toks); msg != "" {
				c.Fail(vh.Failure{Kind: "correspondence", What: "Lean record model and real interpreter differ: " + msg,
					Finding: "", Case: mkCase(hs[i]), Got: showToks(o.toks), Want: a})
			}
		}
	}
}

func loadReplay(path string) []*history {
	b, err := os.ReadFile(path)
	if err != nil {
		panic(err)
	}
	var doc struct {
		Failure struct {
			Case c06Case `json:"case"`
		} `json:"failure"`
		All []struct {
			Case c06Case `json:"case"`
		} `json:"all_new_failures"`
		Corr []struct {
			Case c06Case `json:"case"`
		} `json:"correspondence_disagreements"`
	}
	if err := json.Unmarshal(b, &doc); err != nil {
		panic(err)
	}
	var hs []*history
	add := func(cs c06Case) {
		if len(cs.Ops) > 0 {
			hs = append(hs, &history{RSEmpty: cs.RSEmpty, Files: cs.Files, InMode: cs.InMode, Ops: cs.Ops})
		}
	}
	add(doc.Failure.Case)
	for _, f := range doc.All {
		add(f.Case)
	}
	for _, f := range doc.Corr {
		add(f.Case)
	}
	return hs
}
