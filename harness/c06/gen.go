package main

import (
	"fmt"
	"math/rand"
	"regexp"
	"strconv"
	"strings"
	"unicode/utf8"

	"verifharness/vh"
)

// ---- small constructors ---------------------------------------------------------------------------

func oSetLine(s string) op          { return op{Kind: "setline", Val: vh.HxS(s)} }
func oRead(s string) op             { return op{Kind: "read", Val: vh.HxS(s)} }
func oGet(i numT) op                { return op{Kind: "get", Idx: i} }
func oSet(i numT, v string) op      { return op{Kind: "set", Idx: i, Val: vh.HxS(v)} }
func oGetNF() op                    { return op{Kind: "getnf"} }
func oSetNF(n numT) op              { return op{Kind: "setnfnum", Idx: n} }
func oSetNFStr(s string, v numT) op { return op{Kind: "setnfstr", Idx: v, Val: vh.HxS(s)} }
func oOFS(s string) op              { return op{Kind: "ofs", Val: vh.HxS(s)} }
func oMode(m string) op             { return op{Kind: "mode", Mode: m} }
func oDump() op                     { return op{Kind: "dump"} }

// oFS: a separator given as text; texts of more than one rune must come with their regex tree (or be non-compiling).
func oFS(s string) op {
	o := op{Kind: "fs", Val: vh.HxS(s)}
	if utf8.RuneCountInString(s) > 1 {
		if _, err := regexp.Compile(s); err != nil {
			o.NoRe = true
		} else {
			panic("oFS: regex separator without a tree: " + s)
		}
	}
	return o
}
func oFSRe(r *reNode) op {
	src := r.src(0)
	if _, err := regexp.Compile("(?s:" + src + ")"); err != nil {
		return op{Kind: "fs", Val: vh.HxS(src), NoRe: utf8.RuneCountInString(src) > 1} // e.g. "^*": Go rejects it
	}
	return op{Kind: "fs", Val: vh.HxS(src), Re: r}
}

func hist(rs bool, ops ...op) *history { return &history{RSEmpty: rs, Ops: ops} }

var (
	reCommaSemi  = reRep("+", reCls(false, [2]byte{',', ','}, [2]byte{';', ';'}))
	reXStar      = reRep("*", reB('x'))
	reSpacePlus  = reRep("+", reB(' '))
	reTwoSpaces  = reLit("  ")
	reAB_or_A    = reAlt(reB('a'), reLit("ab"))
	reXXPlus     = reCat(reB('x'), reRep("+", reB('x')))
	reDigits     = reRep("+", reCls(false, [2]byte{'0', '9'}))
	reNotLetter  = reRep("+", reCls(true, [2]byte{'a', 'z'}))
	reDotComma   = reCat(&reNode{K: "."}, reB(','))
	reBolX       = reCat(&reNode{K: "^"}, reB('x'))
	reXEol       = reCat(reB('x'), &reNode{K: "$"})
	reOptCommaSp = reCat(reB(','), reRep("?", reB(' ')))
	reEmptyAlt   = reAlt(&reNode{K: "e"}, reB(','))
	reTabOrComma = reAlt(reB('\t'), reB(','))
)

var regexPool = []*reNode{reCommaSemi, reXStar, reSpacePlus, reTwoSpaces, reAB_or_A, reXXPlus, reDigits, reNotLetter, reDotComma,
	reBolX, reXEol, reOptCommaSp, reEmptyAlt, reTabOrComma,
	reAlt(reLit("é"), reLit("ü")), reCat(reB(','), reRep("*", reB(','))), reAlt(reLit("ab"), reLit("abc")),
	reRep("+", reAlt(reB('x'), reLit("yz"))), reCat(reRep("?", reB('x')), reB('y')), reRep("*", &reNode{K: "."}),
	reCat(reB(' '), reRep("*", reB(' '))), reRep("+", reCls(false, [2]byte{' ', ' '}, [2]byte{'\t', '\t'})), reLit("::"), reLit(", ")}

// ---- corpus: witnesses of fixed and recorded findings, minimized past failures --------------------

func corpus() []*history {
	n := numInt
	return []*history{
		// F08 (fixed): NF assigned a fractional NUMBER reads back as the count
		hist(false, oRead("a b c d"), oSetNF(numLit("2.7")), oGetNF(), oDump()),
		hist(false, oSetLine("a b c d"), oSetNF(numLit("0.9")), oDump(), oSetNF(numLit("-0.5")), oDump()),
		// F08s (recorded): NF assigned a STRING whose numeric prefix is fractional keeps that text: NF+0 = 2.7 with 2 fields
		hist(false, oRead("a b c"), oSetNFStr("2.7", numLit("2.7")), oGetNF()),
		hist(false, oRead("a b c"), oSetNFStr("2.7", numLit("2.7")), oGet(n(0)), oGet(n(2)), oGet(n(3)), oSet(n(1), "z"), oDump()),
		// NF = "3x": pinned by the repo's tests, numerically consistent
		hist(false, oRead("a b c d"), oSetNFStr("3x", n(3)), oDump(), oSetNFStr(" 2 ", n(2)), oDump()),
		// F04 (fixed): huge index on assignment is an error
		hist(false, oSetLine("a b"), oSet(numLit("1e30"), "x"), oDump()),
		hist(false, oSetLine("a b"), oSet(n(1000001), "x")),
		hist(false, oSetLine("a b"), oGet(n(1000001)), oGet(numLit("1e30")), oGet(numLit("-1e30")), oGet(n(1000000)), oDump()),
		// lazy split: FS changed after the record was set and before the first field access
		hist(false, oSetLine("a,b c"), oFS(","), oGetNF(), oDump()),
		hist(false, oRead("a,b c"), oFS(","), oGet(n(1)), oSetLine("a,b c"), oGet(n(1))),
		hist(false, oFS(","), oRead("a,b c"), oFS(" "), oSet(n(3), "z"), oDump()),
		hist(false, oFSRe(reCommaSemi), oSetLine("a,;b;c"), oFS("x"), oFSRe(reXStar), oGet(n(2)), oSetLine("axxbxc"), oDump()),
		// regex FS with empty matches
		hist(false, oFSRe(reXStar), oSetLine("abxxcxd"), oDump()),
		hist(false, oFSRe(reEmptyAlt), oSetLine("a,b,,c"), oDump()),
		// assignments: beyond NF, negative, before the first field, NF shrink then extend, OFS change in between
		hist(false, oSetLine("a b c"), oSet(n(6), "f"), oDump(), oSet(n(-1), "L"), oDump(), oSet(n(-9), "no"), oDump()),
		hist(false, oSetLine("a b c d e"), oSetNF(n(2)), oOFS("-"), oSetNF(n(4)), oDump(), oGet(n(0)), oOFS(":"), oGet(n(0)), oSet(n(1), "A"), oDump()),
		hist(false, oSetLine("  a   b  "), oGet(n(0)), oSet(n(1), "a"), oGet(n(0)), oSetNF(n(0)), oDump(), oSetNF(n(2)), oDump()),
		// CSV output mode
		hist(false, oMode("csv"), oSetLine("a b c"), oSet(n(2), "x,y"), oDump(), oSet(n(1), "q\"r"), oDump(), oSet(n(3), " lead"), oDump(), oSet(n(4), "\\."), oDump(), oSetNF(n(0)), oDump()),
		hist(false, oMode("tsv"), oSetLine("a b"), oSet(n(2), "t\tu"), oDump(), oMode(""), oSet(n(1), "z"), oDump(), oMode("csv separator=;"), oSet(n(3), "s;t\nu"), oDump()),
		// G08-2 (fixed): in CSV output mode a record of exactly one empty field is rebuilt as `""` (past false alarm of this oracle)
		hist(false, oMode("csv"), oSetLine(""), oSetNF(n(1)), oDump(), oSetNF(n(0)), oDump(), oSet(n(1), ""), oDump(), oSet(n(2), ""), oDump()),
		hist(false, oMode("tsv"), oSetLine(""), oSetLine(""), oSetNFStr("\t1 1", n(1)), oMode("csv separator=;"), oDump()),
		hist(false, oMode("bogus")),
		// separators: tab, multi-byte character, stray byte, empty, non-compiling
		hist(false, oFS("\t"), oSetLine("a b\tc\t\td"), oDump()),
		hist(false, oFS("é"), oSetLine("aébéé\xc3c"), oDump()),
		hist(false, oFS("\xff"), oSetLine("a\xffb\xff"), oDump()),
		hist(false, oFS(""), oSetLine("hé\xffy"), oDump()),
		hist(false, oFS("a("), oSetLine("x")),
		hist(false, oFS("."), oSetLine("a.b.c"), oDump(), oFS("|"), oSetLine("a|b"), oDump()),
		// thorough seed 3 (model repaired): a regex match never begins inside a multi-byte character
		hist(false, oFSRe(reCat(&reNode{K: "."}, &reNode{K: "."})), oSetLine("\u2003"), oDump(), oSetLine("a\u2003b\xff\xfe"), oDump(), oSetLine("\xe2\x80"), oDump()),
		hist(false, oFSRe(reCat(reRep("?", reB('x')), reCat(&reNode{K: "."}, reCls(true, [2]byte{'a', 'z'})))), oSetLine("é\u2003xéé"), oDump()),
		// strings.Fields splits at Unicode spaces too (observation in DESIGN.md; correspondence only)
		hist(false, oSetLine("a b\u0085c d\ve\ff\rg"), oDump()),
		// RS="" adds newline as a separator for single-character FS
		hist(true, oFS(","), oSetLine("a,b\nc\r\nd,e"), oDump()),
		hist(true, oSetLine("a b\nc"), oDump(), oFSRe(reCommaSemi), oSetLine("a,b\nc"), oDump()),
		hist(true, oFS(","), oRead("a,b\nc"), oDump(), oRead("d"), oDump()),
		// number/string typing of fields and $0
		hist(false, oRead("07 1.0 +5"), oDump(), oSet(n(2), "1.0"), oDump(), oSetNF(n(4)), oDump()),
		hist(false, oRead("07"), oGet(n(0)), oSetLine("07"), oGet(n(0)), oGet(n(1))),
		// reading through getline $i / sub()
		hist(false, oRead("a b c"), op{Kind: "set", Idx: n(2), Val: vh.HxS("X"), Variant: 1}, oDump(), op{Kind: "set", Idx: n(5), Val: vh.HxS("Y"), Variant: 2}, oDump()),
		// ++ / op= on fields and on NF
		hist(false, oRead("a 41 c"), op{Kind: "rmw", Idx: n(2), Val: vh.HxS("42"), Mode: "%s++"}, oDump(), op{Kind: "nfincr", Idx: n(2), Mode: "NF += 2"}, oDump(),
			op{Kind: "nfincr", Idx: n(-1), Mode: "NF--"}, oDump(), oSet(n(7), "5"), op{Kind: "rmw", Idx: n(7), Val: vh.HxS("15"), Mode: "%s *= 3"}, oDump()),
		hist(false, oSetLine("a b"), op{Kind: "nfincr", Idx: n(-3), Mode: "NF -= 3"}),
		hist(false, oRead("a,b c"), oFS(","), op{Kind: "nfincr", Idx: n(1), Mode: "++NF"}, oDump()),
		// seeded C06-n3: a rejected NF operand reached by getline var must leave NF = number of fields
		&history{Files: true, Ops: []op{oSetLine("a b c"), {Kind: "operand", Route: "v", Inner: &op{Kind: "setnfstr", Idx: numInt(1000001), Val: vh.HxS("1000001")}},
			oGetNF(), oGet(numInt(-1)), oDump(), {Kind: "operand", Route: "g", Inner: &op{Kind: "setnfstr", Idx: numInt(-1), Val: vh.HxS("-1")}}, oDump(),
			{Kind: "operand", Route: "g", Rec: vh.HxS("p q r s"), Inner: &op{Kind: "setnfstr", Idx: numInt(2), Val: vh.HxS("2")}}, oDump(),
			{Kind: "operand", Route: "v", Inner: &op{Kind: "fs", Val: vh.HxS("a("), NoRe: true}}, oSetLine("xa(y z"), oDump(),
			{Kind: "operand", Route: "m", Rec: vh.HxS("k,l m"), Inner: &op{Kind: "fs", Val: vh.HxS(",")}}, oDump(),
			{Kind: "operand", Route: "m", Rec: vh.HxS("u v"), Inner: &op{Kind: "setnfstr", Idx: numInt(2000000), Val: vh.HxS("2000000")}}}},
		// seeded C06-n1: CSV input mode, getline var / getline var < file leave the current record's fields alone
		&history{InMode: "csv", Ops: []op{oRead("a,b,c"), oGet(numInt(1)), {Kind: "getlinevar", Val: vh.HxS("d,e,f")}, oDump(), {Kind: "getlinefile", Val: vh.HxS("g,h")}, oDump(),
			oSetLine("x,\"y,z\""), oDump(), oSet(numInt(3), "w"), oDump()}},
		&history{InMode: "tsv", Files: true, Ops: []op{{Kind: "read", Val: vh.HxS("a\tb c\td"), Route: "m"}, oGetNF(), {Kind: "getlinevar", Val: vh.HxS("1\t2\t3")}, oDump(),
			{Kind: "getlinevar", Val: vh.HxS("9")}, oDump(), {Kind: "read", Val: vh.HxS("q\tr"), Route: "m"}, oDump()}},
		// non-finite indexes
		hist(false, oSetLine("a b"), oGet(specialNums[0]), oGet(specialNums[1]), oGet(specialNums[2]), oSet(specialNums[0], "x"), oSet(specialNums[2], "x"), oDump(), oSet(specialNums[1], "x")),
		hist(false, oSetLine("a b"), oSetNF(specialNums[0])),
		hist(false, oSetLine("a b"), oSetNF(specialNums[1])),
		hist(false, oSetLine("a b"), oSetNF(n(-1))),
		hist(false, oSetLine("a b"), oSetNF(n(1000001))),
		hist(false, oSetLine("a b"), oSetNF(specialNums[5])),
		hist(false, oSetLine("a b"), oSetNFStr("-0.3", numLit("-0.3")), oGetNF()),
	}
}

// systematic: every op kind × index class on a few base records (small cross product, always run)
func systematic() []*history {
	var hs []*history
	idx := []numT{numInt(1), numInt(2), numInt(3), numInt(4), numInt(7), numInt(0), numInt(-1), numInt(-3), numInt(-4), numLit("2.7"),
		numLit("0.5"), numLit("-0.5"), numLit("-1.5"), numInt(1000000), numInt(1000001), numLit("1e30"), numLit("-1e30")}
	idx = append(idx, specialNums[:6]...)
	type base struct {
		pre  []op
		line string
	}
	bases := []base{
		{nil, "a b c"},
		{[]op{oFS(",")}, "a,b,,c"},
		{[]op{oFSRe(reCommaSemi), oOFS("-")}, "a,;b;c"},
		{[]op{oFS("\t"), oMode("csv")}, "a\tb c\t\"q\""},
	}
	for _, b := range bases {
		for _, i := range idx {
			for _, lazy := range []bool{true, false} {
				ops := append([]op(nil), b.pre...)
				ops = append(ops, oRead(b.line))
				if !lazy {
					ops = append(ops, oGetNF())
				}
				g := append(append([]op(nil), ops...), oGet(i), oDump())
				hs = append(hs, hist(false, g...))
				if i.Proto != "1000000" {
					s := append(append([]op(nil), ops...), oSet(i, "N"), oDump())
					hs = append(hs, hist(false, s...))
					m := append(append([]op(nil), ops...), oSetNF(i), oDump())
					hs = append(hs, hist(false, m...))
				}
			}
		}
	}
	return hs
}

// ---- random histories -------------------------------------------------------------------------------

type theme struct {
	fsKind string
	fsOps  []op   // candidate FS assignments
	alpha  []byte // bytes of record texts
	seps   []string
}

var wordsPool = []string{"a", "bb", "ccc", "7", "07", "1.0", "+5", " 3", "x", "y", "", "é", "\xff", "q\"r", "a&b", "b\\c", "l\nm", "\\.", "n\rm", " lead", "trail ", "x,y", "s;t", "u\tv", "a b"}

var ofsPool = []string{" ", "-", ",", "", "::", "\n", ";", "\t", "x"}

func pickTheme(r *rand.Rand) theme {
	switch r.Intn(10) {
	case 0, 1:
		return theme{"space", []op{oFS(" ")}, []byte("ab  \t\nc7"), []string{" ", "  ", "\t", " \t ", "\n"}}
	case 2:
		return theme{"space-odd", []op{oFS(" ")}, []byte("ab \v\f\rc\xc2\xa0\xc2\x85"), []string{" ", "\v", " ", " ", "\r"}}
	case 3:
		c := []string{",", ";", "x", "|", ".", ":", "*", "[", "\\", "0"}[r.Intn(10)]
		return theme{"char", []op{oFS(c)}, []byte("ab" + c + c + " 7"), []string{c, c + c, " " + c}}
	case 4:
		return theme{"tab", []op{oFS("\t")}, []byte("ab\t\t c"), []string{"\t", "\t\t", " "}}
	case 5:
		c := []string{"é", "\xff", "€", "\xc3"}[r.Intn(4)]
		return theme{"char-nonascii", []op{oFS(c)}, []byte("ab" + c + "\xc3\xa9\xff "), []string{c, c + c}}
	case 6:
		return theme{"empty", []op{oFS("")}, []byte("abé\xff "), []string{"", " "}}
	default:
		re := regexPool[r.Intn(len(regexPool))]
		if r.Intn(4) == 0 {
			re = genRe(r, 3)
		}
		src := re.src(0)
		al := []byte("ab ")
		for i := 0; i < len(src); i++ {
			if !strings.ContainsRune("+*?()[]|^$.-", rune(src[i])) {
				al = append(al, src[i], src[i])
			}
		}
		th := theme{"regex", []op{oFSRe(re)}, al, []string{",", ";", "x", "xx", " ", "  ", ", "}}
		// a second, different separator to switch to in the middle of the history
		th.fsOps = append(th.fsOps, oFSRe(regexPool[r.Intn(len(regexPool))]), oFS(","), oFS(" "))
		return th
	}
}

func genRe(r *rand.Rand, depth int) *reNode {
	atoms := []byte("xy, \t;")
	if depth == 0 || r.Intn(3) == 0 {
		switch r.Intn(8) {
		case 0:
			return &reNode{K: "."}
		case 1:
			return reCls(r.Intn(4) == 0, [2]byte{'x', 'y'}, [2]byte{',', ','})
		case 2:
			if r.Intn(2) == 0 {
				return &reNode{K: "^"}
			}
			return &reNode{K: "$"}
		default:
			return reB(atoms[r.Intn(len(atoms))])
		}
	}
	switch r.Intn(6) {
	case 0, 1:
		return reCat(genRe(r, depth-1), genRe(r, depth-1))
	case 2:
		return reAlt(genRe(r, depth-1), genRe(r, depth-1))
	case 3:
		return reRep("*", genRe(r, depth-1))
	case 4:
		return reRep("+", genRe(r, depth-1))
	default:
		return reRep("?", genRe(r, depth-1))
	}
}

func genLine(r *rand.Rand, th theme) string {
	if th.fsKind == "csv-input" {
		k := 1 + r.Intn(5)
		var fs []string
		for i := 0; i < k; i++ {
			fs = append(fs, csvWords[r.Intn(len(csvWords))])
		}
		s := strings.Join(fs, th.seps[0])
		if s == "" {
			s = "a"
		}
		return s
	}
	if r.Intn(12) == 0 {
		return ""
	}
	var b strings.Builder
	k := r.Intn(6)
	if r.Intn(3) == 0 {
		// random bytes over the theme alphabet
		n := r.Intn(10)
		for i := 0; i < n; i++ {
			b.WriteByte(th.alpha[r.Intn(len(th.alpha))])
		}
		return b.String()
	}
	for i := 0; i < k; i++ {
		if i > 0 || r.Intn(5) == 0 {
			b.WriteString(th.seps[r.Intn(len(th.seps))])
		}
		b.WriteString(wordsPool[r.Intn(len(wordsPool))])
	}
	if r.Intn(5) == 0 {
		b.WriteString(th.seps[r.Intn(len(th.seps))])
	}
	return b.String()
}

// genIndex: an index with its class name; nf is the generator's estimate of the current number of fields.
func genIndex(r *rand.Rand, nf int) (numT, string) {
	switch r.Intn(16) {
	case 0, 1, 2, 3:
		if nf > 0 {
			return numInt(1 + r.Intn(nf)), "positive-within"
		}
		return numInt(1), "positive-beyond"
	case 4:
		return numInt(0), "zero"
	case 5, 6:
		if nf > 0 {
			return numInt(-(1 + r.Intn(nf))), "negative-within"
		}
		return numInt(-1), "negative-before-first"
	case 7:
		return numInt(-(nf + 1 + r.Intn(3))), "negative-before-first"
	case 8:
		return numInt(nf + 1), "beyond-nf+1"
	case 9:
		return numInt(nf + 2 + r.Intn(6)), "beyond-far"
	case 10:
		return []numT{numInt(1000001), numInt(1000002), numLit("1e7"), numInt(2147483647)}[r.Intn(4)], "above-max"
	case 11:
		k := r.Intn(nf + 2)
		return numLit(fmt.Sprintf("%d.%d", k, 1+r.Intn(9))), "fractional"
	case 12:
		return []numT{numLit("-0.5"), numLit("0.5"), numLit("-1.5"), numLit("-0.999")}[r.Intn(4)], "fractional-around-zero"
	case 13:
		return specialNums[3+r.Intn(len(specialNums)-3)], "huge"
	case 14:
		return specialNums[r.Intn(3)], "non-finite"
	default:
		return numInt(40 + r.Intn(260)), "beyond-large"
	}
}

func genNFValue(r *rand.Rand, nf int) (op, string) {
	switch r.Intn(14) {
	case 0:
		return oSetNF(numInt(0)), "nf-zero"
	case 1, 2:
		if nf > 0 {
			return oSetNF(numInt(r.Intn(nf))), "nf-smaller"
		}
		return oSetNF(numInt(0)), "nf-zero"
	case 3:
		return oSetNF(numInt(nf)), "nf-same"
	case 4, 5:
		return oSetNF(numInt(nf + 1 + r.Intn(4))), "nf-larger"
	case 6:
		return oSetNF(numLit(fmt.Sprintf("%d.%d", r.Intn(nf+3), 1+r.Intn(9)))), "nf-fractional-number"
	case 7:
		return oSetNF([]numT{numInt(-1), numInt(-7), numLit("-1.5")}[r.Intn(3)]), "nf-negative"
	case 8:
		return oSetNF([]numT{numInt(1000001), numLit("1e30"), specialNums[0], specialNums[1], specialNums[2], specialNums[5]}[r.Intn(6)]), "nf-too-large-or-nonfinite"
	case 9:
		k := r.Intn(nf + 3)
		return oSetNFStr(strconv.Itoa(k), numInt(k)), "nf-string-integer"
	case 10:
		k := r.Intn(nf + 3)
		junk := []string{"x", " ", "abc", " 1", "e", "."}[r.Intn(6)]
		lead := []string{"", " ", "+", "\t"}[r.Intn(4)]
		return oSetNFStr(lead+strconv.Itoa(k)+junk, numInt(k)), "nf-string-integer-prefix"
	case 11:
		s := fmt.Sprintf("%d.%d", r.Intn(nf+3), 1+r.Intn(9))
		return oSetNFStr(s+[]string{"", "x"}[r.Intn(2)], numLit(s)), "nf-string-fractional(F08s)"
	case 12:
		return oSetNFStr([]string{"", "abc", " ", "x1"}[r.Intn(4)], numInt(0)), "nf-string-nonnumeric"
	default:
		return oSetNF(numInt(30 + r.Intn(100))), "nf-large"
	}
}

func genHistory(c *vh.Ctx, maxOps int) *history {
	r := c.Rng
	th := pickTheme(r)
	h := &history{RSEmpty: r.Intn(8) == 0, Files: r.Intn(5) == 0}
	if r.Intn(8) == 0 {
		// CSV / TSV input mode: records are CSV texts, the fields their RFC 4180 reading
		h.InMode = []string{"csv", "tsv"}[r.Intn(2)]
		h.RSEmpty = false
		th = csvTheme(h.InMode)
	}
	n := 2 + r.Intn(maxOps-1)
	nf := 0 // rough estimate, only steers the index classes
	// most histories start by choosing the separator and loading a record
	if r.Intn(5) != 0 {
		h.Ops = append(h.Ops, th.fsOps[0])
	}
	for len(h.Ops) < n {
		if len(h.Ops) > 0 && opFails(h.Ops[len(h.Ops)-1]) {
			if r.Intn(4) != 0 && len(h.Ops) > 1 {
				h.Ops = h.Ops[:len(h.Ops)-1] // most of the time an operation that ends the program is drawn again
				continue
			}
			return h // the program stops here
		}
		if k := r.Intn(100); k < 5 || (k < 12 && (h.Files || h.InMode != "")) {
			// records that pass by without becoming the current record, and `var=value` operands
			s := genLine(r, th)
			if !okForStdin([]byte(s), h.RSEmpty) {
				s = "p q r"
			}
			switch {
			case h.Files && k%3 != 0:
				h.Ops = append(h.Ops, genOperand(r, h, th, nf, s))
			case k%2 == 0:
				h.Ops = append(h.Ops, op{Kind: "getlinevar", Val: vh.HxS(s)})
			default:
				h.Ops = append(h.Ops, op{Kind: "getlinefile", Val: vh.HxS(s)})
			}
			continue
		}
		switch k := r.Intn(100); {
		case k < 10:
			s := genLine(r, th)
			o := oSetLine(s)
			o.Variant = r.Intn(4)
			h.Ops = append(h.Ops, o)
			nf = strings.Count(s, th.seps[0]) + 1
		case k < 18:
			s := genLine(r, th)
			if okForStdin([]byte(s), h.RSEmpty) {
				o := oRead(s)
				if r.Intn(2) == 0 {
					o.Route = "m"
				}
				h.Ops = append(h.Ops, o)
			} else {
				h.Ops = append(h.Ops, oSetLine(s))
			}
			nf = strings.Count(s, th.seps[0]) + 1
		case k < 32:
			i, cl := genIndex(r, nf)
			o := oGet(i)
			o.Class = cl
			o.Variant = r.Intn(2)
			h.Ops = append(h.Ops, o)
		case k < 52:
			i, cl := genIndex(r, nf)
			v := wordsPool[r.Intn(len(wordsPool))]
			if r.Intn(6) == 0 {
				v = genLine(r, th)
			}
			o := oSet(i, v)
			o.Class = cl
			o.Variant = r.Intn(4)
			if r.Intn(5) == 0 {
				// an integer value followed by ++ / op= on the same field: the result is known by construction
				k := r.Intn(60) - 10
				o.Val = vh.HxS(strconv.Itoa(k))
				h.Ops = append(h.Ops, o)
				if !opFails(o) {
					h.Ops = append(h.Ops, genRMW(r, i, k, cl))
				}
				break
			}
			h.Ops = append(h.Ops, o)
			if f := i.F(); f == f && f >= 1 && f < 400 && int(f) > nf {
				nf = int(f)
			}
		case k < 58:
			h.Ops = append(h.Ops, oGetNF())
		case k < 61:
			d := []int{1, -1, 1, 2, -2, 3, 0}[r.Intn(7)]
			sp := fmt.Sprintf("NF += %d", d)
			switch {
			case d == 1:
				sp = []string{"NF++", "++NF", "NF += 1"}[r.Intn(3)]
			case d == -1:
				sp = []string{"NF--", "--NF", "NF -= 1"}[r.Intn(3)]
			case d < 0:
				sp = fmt.Sprintf("NF -= %d", -d)
			}
			h.Ops = append(h.Ops, op{Kind: "nfincr", Idx: numInt(d), Mode: sp, Class: fmt.Sprintf("%+d", d)})
			if nf+d >= 0 {
				nf += d
			}
		case k < 70:
			o, cl := genNFValue(r, nf)
			o.Class = cl
			if o.Kind == "setnfnum" {
				o.Variant = r.Intn(5)
			}
			h.Ops = append(h.Ops, o)
			if f := o.Idx.F(); f == f && f >= 0 && f < 400 {
				nf = int(f)
			}
		case k < 77:
			if r.Intn(3) == 0 {
				h.Ops = append(h.Ops, pickTheme(r).fsOps[0])
			} else {
				h.Ops = append(h.Ops, th.fsOps[r.Intn(len(th.fsOps))])
			}
		case k < 84:
			h.Ops = append(h.Ops, oOFS(ofsPool[r.Intn(len(ofsPool))]))
		case k < 88:
			h.Ops = append(h.Ops, oMode([]string{"csv", "tsv", "", "csv separator=;", "csv separator=|", "tsv separator=,", "", "csv", "bogus"}[r.Intn(9)]))
		default:
			h.Ops = append(h.Ops, oDump())
		}
	}
	if len(h.Ops) > 0 && opFails(h.Ops[len(h.Ops)-1]) {
		return h
	}
	if r.Intn(4) != 0 {
		h.Ops = append(h.Ops, oDump())
	}
	return h
}

// opFails: does the operation end the program with a runtime error (as far as the generator can tell)?
func opFails(o op) bool {
	switch o.Kind {
	case "operand":
		return o.Route == "m" && opFails(*o.Inner)
	case "set", "rmw":
		f := o.Idx.F()
		return f == f && f >= maxFieldIndex+1
	case "setnfnum", "setnfstr":
		f := o.Idx.F()
		return f != f || f <= -1 || f >= maxFieldIndex+1
	case "fs":
		return o.NoRe
	case "mode":
		_, _, ok := csvSepOfMode(o.Mode)
		return !ok
	}
	return false
}

// csvTheme: record texts for CSV/TSV input mode are built by genLine from already encoded fields
func csvTheme(mode string) theme {
	sep := ","
	if mode == "tsv" {
		sep = "\t"
	}
	return theme{"csv-input", []op{oFS(" "), oFS(",")}, []byte("ab7"), []string{sep, sep, sep + sep}}
}

var csvWords = []string{"a", "bb", "7", "07", "1.0", "", "x y", " lead", "\"q\"\"r\"", "\"x,y\"", "\"u\tv\"", "\"l\nm\"", "\"\"", "é", "+5"}

// genOperand: a `var=value` command-line operand (NF, FS, OFS, OUTPUTMODE; accepted or rejected values) reached by
// `getline var`, plain `getline` or the main loop
func genOperand(r *rand.Rand, h *history, th theme, nf int, rec string) op {
	var in op
	switch k := r.Intn(10); {
	case k < 5:
		switch r.Intn(6) {
		case 0:
			v := []int{1000001, 2000000, 1000001, 99999999}[r.Intn(4)]
			in = oSetNFStr(strconv.Itoa(v), numInt(v))
			in.Class = "nf-too-large"
		case 1:
			v := []int{-1, -7, -1000001}[r.Intn(3)]
			in = oSetNFStr(strconv.Itoa(v), numInt(v))
			in.Class = "nf-negative"
		default:
			for {
				o, cl := genNFValue(r, nf)
				if o.Kind == "setnfstr" && okForOperand(o.val()) {
					in, in.Class = o, cl
					break
				}
				if o.Kind == "setnfnum" && o.Idx.F() == float64(int(o.Idx.F())) && o.Idx.F() >= 0 && o.Idx.F() < 400 {
					in = oSetNFStr(strconv.Itoa(int(o.Idx.F())), numInt(int(o.Idx.F())))
					in.Class = cl
					break
				}
			}
		}
	case k < 7:
		in = th.fsOps[r.Intn(len(th.fsOps))]
		if r.Intn(6) == 0 {
			in = oFS("a(")
		}
		if !okForOperand(in.val()) {
			in = oFS(",")
		}
	case k < 9:
		in = oOFS([]string{" ", "-", ",", "", "::", ";", "x"}[r.Intn(7)])
	default:
		in = oMode([]string{"csv", "tsv", "", "csv separator=;", "bogus"}[r.Intn(5)])
	}
	route := []string{"v", "g", "m"}[r.Intn(3)]
	o := op{Kind: "operand", Route: route, Inner: &in, Class: in.Kind}
	if opFails(in) {
		o.Class += ":rejected"
	}
	if route != "v" {
		o.Rec = vh.HxS(rec)
	}
	return o
}

func genRMW(r *rand.Rand, i numT, k int, cl string) op {
	type form struct {
		sp  string
		res int
	}
	c := 2 + r.Intn(5)
	forms := []form{{"%s++", k + 1}, {"++%s", k + 1}, {"%s--", k - 1}, {"--%s", k - 1},
		{fmt.Sprintf("%%s += %d", c), k + c}, {fmt.Sprintf("%%s -= %d", c), k - c}, {fmt.Sprintf("%%s *= %d", c), k * c}}
	f := forms[r.Intn(len(forms))]
	return op{Kind: "rmw", Idx: i, Val: vh.HxS(strconv.Itoa(f.res)), Mode: f.sp, Class: cl}
}

// ---- bookkeeping --------------------------------------------------------------------------------

func isMutation(k string) bool {
	return k == "setline" || k == "read" || k == "set" || k == "setnfnum" || k == "setnfstr" || k == "rmw" || k == "nfincr" || k == "operand"
}
func isObservation(k string) bool { return k == "get" || k == "getnf" || k == "dump" }

func nontrivial(h *history) bool {
	mut := false
	for _, o := range h.Ops {
		if isMutation(o.Kind) {
			mut = true
		}
		if mut && isObservation(o.Kind) {
			return true
		}
	}
	return false
}

func fsKindOf(o op) string {
	s := string(o.val())
	switch {
	case o.NoRe:
		return "non-compiling"
	case s == " ":
		return "space"
	case s == "\t":
		return "tab"
	case s == "":
		return "empty"
	case utf8.RuneCountInString(s) == 1 && len(s) == 1 && s[0] < 128:
		return "single-char"
	case utf8.RuneCountInString(s) == 1:
		return "single-nonascii"
	default:
		return "regex"
	}
}

func distribution(c *vh.Ctx, h *history) {
	c.Hit(fmt.Sprintf("ops:%02d", min(len(h.Ops)/4*4, 40)))
	if h.RSEmpty {
		c.Hit("rs:empty")
	}
	if h.Files {
		c.Hit("input:ARGV-operands")
	}
	if h.InMode != "" {
		c.Hit("inputmode:" + h.InMode)
	}
	lazyPending := false // a record was set and no field/NF access happened yet
	for _, o := range h.Ops {
		key := "op:" + o.Kind
		if o.Route != "" {
			key += ":route-" + o.Route
		}
		if o.Class != "" {
			key += ":" + o.Class
		}
		c.Hit(key)
		if v := effectiveVariant(o, h); v != 0 {
			c.Hit(fmt.Sprintf("spelling:%s:%d", o.Kind, v))
		}
		switch o.Kind {
		case "fs":
			c.Hit("fs:" + fsKindOf(o))
			if lazyPending {
				c.Hit("lazy:FS-changed-before-first-field-access")
			}
		case "mode":
			c.Hit("mode:" + o.Mode)
		case "setline", "read":
			lazyPending = true
		case "get":
			if o.Idx.Proto != "0" {
				lazyPending = false
			}
		case "set", "getnf", "setnfnum", "setnfstr", "dump", "rmw", "nfincr":
			lazyPending = false
		case "operand":
			if o.Inner.Kind == "fs" && lazyPending {
				c.Hit("lazy:FS-changed-before-first-field-access")
			}
			lazyPending = o.Route != "v" || (lazyPending && o.Inner.Kind != "setnfstr")
		}
	}
}
