package main

// Purity stream: "reading $0, a field or NF changes nothing", checked metamorphically on the real interpreter alone for
// histories that also assign variables the eager specification does not talk about (RS, INPUTMODE): the same program is run
// with and without one extra read inserted after the record assignment; everything observed afterwards must be equal.
//
// G06-1 (repaired in 7d0fcb7): ensureFields consulted `RS == ""` and INPUTMODE as they were at the first field access instead of
// saving them at setLine (only FS was saved), so a read before an RS/INPUTMODE assignment changed what was split. The stream now
// has no known-finding class: any difference is a violation.

import (
	"bytes"
	"fmt"

	"github.com/benhoyt/goawk/interp"
	"github.com/benhoyt/goawk/parser"

	"verifharness/vh"
)

type purityCase struct {
	InitRS    *string `json:"initial_RS,omitempty"` // nil: default
	Pre       string  `json:"pre"`                  // statements before the record assignment
	Line      string  `json:"line_hex"`
	Read      string  `json:"inserted_read"`
	Toggle    string  `json:"toggle"` // statement between the record assignment and the observation
	ProgramA  string  `json:"program_without_read"`
	ProgramB  string  `json:"program_with_read"`
	TogglesRS bool    `json:"-"`
}

const purityDump = ` printf "%d|", NF; for (k = 1; k <= NF; k++) printf "%d:%s|", length($k), $k; printf "%d:%s\n", length($0), $0;`

func purityCases(c *vh.Ctx) []purityCase {
	empty, nl := "", "\n"
	lines := []string{"a,b\nc", "a,b,c d", "a b\n\nc", "x\r\ny,z", "a", "", "a,\"b,c\" d", "1,2\n3,4"}
	pres := []string{``, `FS = ",";`, `FS = "\t";`, `FS = "[,;]+";`, `FS = ","; OFS = "-";`}
	reads := []string{`x = NF;`, `x = $1;`, `x = $(-1);`, `x = $7;`, `x = $0;`}
	type tg struct {
		init  *string
		stmt  string
		isRS  bool
		isVar bool
	}
	toggles := []tg{
		{&empty, `RS = "\n";`, true, true},
		{nil, `RS = "";`, true, true},
		{nil, `INPUTMODE = "csv";`, false, true},
		{nil, `INPUTMODE = "tsv";`, false, true},
		{&nl, `FS = ";";`, false, false},           // control: FS is saved, must be pure
		{nil, `OFS = "+";`, false, false},          // control
		{nil, `OUTPUTMODE = "csv";`, false, false}, // control
	}
	var cs []purityCase
	for _, t := range toggles {
		for _, pre := range pres {
			for _, l := range lines {
				rd := reads[c.Rng.Intn(len(reads))]
				base := "BEGIN { " + pre + " $0 = " + awkStr([]byte(l)) + "; "
				a := base + t.stmt + purityDump + " }"
				b := base + rd + " " + t.stmt + purityDump + " }"
				cs = append(cs, purityCase{InitRS: t.init, Pre: pre, Line: vh.HxS(l), Read: rd, Toggle: t.stmt, ProgramA: a, ProgramB: b, TogglesRS: t.isVar})
			}
		}
	}
	return cs
}

func purityRun(src string, initRS *string) vh.RunResult {
	prog, err := parser.ParseProgram([]byte(src), nil)
	if err != nil {
		return vh.RunResult{Err: "harness program does not parse: " + err.Error()}
	}
	cfg := &interp.Config{Stdin: bytes.NewReader(nil)}
	if initRS != nil {
		cfg.Vars = []string{"RS", *initRS}
	}
	return vh.ExecProg(prog, cfg)
}

func runPurity(c *vh.Ctx) {
	for _, pc := range purityCases(c) {
		a := purityRun(pc.ProgramA, pc.InitRS)
		b := purityRun(pc.ProgramB, pc.InitRS)
		c.Eval("purity|"+pc.ProgramB, true)
		c.OracleCase()
		c.Hit("purity:" + pc.Toggle)
		if a.Panic != "" || b.Panic != "" {
			c.Fail(vh.Failure{Kind: "oracle", What: "the interpreter panicked", Case: pc, Got: a.Panic + b.Panic})
			continue
		}
		if a.Out != b.Out || a.Err != b.Err {
			c.Fail(vh.Failure{Kind: "oracle", What: fmt.Sprintf("a read (%s) inserted after the record assignment changes what is observed afterwards", pc.Read),
				Case: pc, Got: fmt.Sprintf("with the read: %q %s", b.Out, b.Err), Want: fmt.Sprintf("without: %q %s", a.Out, a.Err)})
		}
	}
}
