package vh

import (
	"runtime"
	"sync"
)

// parallel runs f(0..n-1) on all cores.
func Parallel(n int, f func(i int)) {
	workers := runtime.NumCPU()
	if workers > n {
		workers = n
	}
	if workers < 1 {
		workers = 1
	}
	var wg sync.WaitGroup
	next := make(chan int, 1024)
	for w := 0; w < workers; w++ {
		wg.Add(1)
		go func() {
			defer wg.Done()
			for i := range next {
				f(i)
			}
		}()
	}
	for i := 0; i < n; i++ {
		next <- i
	}
	close(next)
	wg.Wait()
}
