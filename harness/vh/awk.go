package vh

import (
	"bytes"
	"fmt"
	"io"
	"sync"
	"time"

	"github.com/benhoyt/goawk/interp"
	"github.com/benhoyt/goawk/parser"
)

// RunResult is the canonical outcome of one execution of the real interpreter.
type RunResult struct {
	Out    string
	Status int
	Err    string // "" when err == nil
	Panic  string // non-empty when the code under test panicked (recovered here)
}

func (r RunResult) String() string {
	return fmt.Sprintf("out=%q status=%d err=%q panic=%q", r.Out, r.Status, r.Err, r.Panic)
}

var progCache sync.Map

func MustParse(src string) *parser.Program {
	if p, ok := progCache.Load(src); ok {
		return p.(*parser.Program)
	}
	p, err := parser.ParseProgram([]byte(src), nil)
	if err != nil {
		panic(fmt.Sprintf("harness program does not parse: %v\n%s", err, src))
	}
	progCache.Store(src, p)
	return p
}

// RunTimeout bounds one execution of the code under test; a run that does not return in time is reported with
// Panic = "timeout: …" (the runaway goroutine is abandoned; the harness process still finishes).
var RunTimeout = 60 * time.Second

// OnTimeout, when set (vh.Main sets it), is called once with a description of the program whose run did not return.
var OnTimeout func(desc map[string]interface{})

// ExecProg runs prog on a fresh interpreter with the given config; panics of the code under test are recovered and a
// run that never returns is cut off after RunTimeout.
func ExecProg(prog *parser.Program, cfg *interp.Config) RunResult {
	done := make(chan RunResult, 1)
	go func() { done <- execProgInner(prog, cfg) }()
	select {
	case r := <-done:
		return r
	case <-time.After(RunTimeout):
		r := RunResult{Panic: fmt.Sprintf("timeout: run did not return within %s", RunTimeout)}
		if OnTimeout != nil {
			// a run that never returns is a decisive failure; report it at once instead of piling up runaway goroutines
			OnTimeout(map[string]interface{}{"program": prog.String(), "vars": cfg.Vars, "args": cfg.Args,
				"note": "the interpreter did not return within " + RunTimeout.String() + " on this program (input: see the harness stream that was running)"})
		}
		return r
	}
}

func execProgInner(prog *parser.Program, cfg *interp.Config) (res RunResult) {
	var out bytes.Buffer
	if cfg.Output == nil {
		cfg.Output = &out
	}
	if cfg.Error == nil {
		cfg.Error = io.Discard
	}
	if cfg.Environ == nil {
		cfg.Environ = []string{}
	}
	defer func() {
		if r := recover(); r != nil {
			res.Panic = fmt.Sprint(r)
			res.Out = out.String()
		}
	}()
	status, err := interp.ExecProgram(prog, cfg)
	res.Out = out.String()
	res.Status = status
	if err != nil {
		res.Err = err.Error()
	}
	return res
}

// chunkReader delivers the given chunks, at most one chunk per Read call, then io.EOF.
type chunkReader struct {
	chunks [][]byte
}

func NewChunkReader(chunks [][]byte) *chunkReader {
	cp := make([][]byte, 0, len(chunks))
	for _, c := range chunks {
		if len(c) > 0 {
			cp = append(cp, c)
		}
	}
	return &chunkReader{cp}
}

func (r *chunkReader) Read(p []byte) (int, error) {
	if len(r.chunks) == 0 {
		return 0, io.EOF
	}
	n := copy(p, r.chunks[0])
	if n == len(r.chunks[0]) {
		r.chunks = r.chunks[1:]
	} else {
		r.chunks[0] = r.chunks[0][n:]
	}
	return n, nil
}

// cut splits data at the given sorted cut positions.
func Cut(data []byte, cuts []int) [][]byte {
	var res [][]byte
	prev := 0
	for _, c := range cuts {
		if c <= prev || c >= len(data) {
			continue
		}
		res = append(res, data[prev:c])
		prev = c
	}
	res = append(res, data[prev:])
	return res
}

// cutsFromMask: bit i set => cut after byte i (0 <= i < len-1)
func CutsFromMask(n int, mask uint64) []int {
	var cs []int
	for i := 0; i < n-1; i++ {
		if mask&(1<<uint(i)) != 0 {
			cs = append(cs, i+1)
		}
	}
	return cs
}

func HexChunks(chunks [][]byte) []string {
	res := make([]string, len(chunks))
	for i, c := range chunks {
		res[i] = Hx(c)
	}
	return res
}
