package vh

// Generic reflective dump of parser.Program: the resolved syntax tree (internal/ast types reached through exported
// fields) and the compiled code. No hook in /repo is needed: reflection reads exported fields of internal types.
//
// Format (one token stream, space separated):
//   struct      (TypeName field1 field2 ...)      exported fields in declaration order
//   pointer     nil | <pointee>
//   interface   nil | <dynamic value>
//   slice       nil | [ e1 e2 ... ]               (a nil slice and an empty slice are distinguished)
//   string      s:<hex>                            ("s:-" for the empty string)
//   int kinds   decimal; types with a String method (lexer.Token, resolver.Scope) print #<String()>;
//               compiler.Opcode prints as a decimal (operands share the type)
//   float64     f:<16 hex digits of the IEEE bits>
//   bool        true | false
//   Position    @<line>:<col> when withPos, otherwise omitted
//   *regexp.Regexp   re:<hex of source>

import (
	"fmt"
	"math"
	"reflect"
	"regexp"
	"sort"
	"strings"

	"github.com/benhoyt/goawk/parser"
)

type dumper struct {
	b       strings.Builder
	withPos bool
}

func (d *dumper) emit(s string) {
	if d.b.Len() > 0 {
		d.b.WriteByte(' ')
	}
	d.b.WriteString(s)
}

var stringerType = reflect.TypeOf((*fmt.Stringer)(nil)).Elem()

func (d *dumper) val(v reflect.Value) {
	if !v.IsValid() {
		d.emit("nil")
		return
	}
	t := v.Type()
	switch v.Kind() {
	case reflect.Interface:
		if v.IsNil() {
			d.emit("nil")
			return
		}
		d.val(v.Elem())
	case reflect.Ptr:
		if v.IsNil() {
			d.emit("nil")
			return
		}
		if re, ok := v.Interface().(*regexp.Regexp); ok {
			d.emit("re:" + HxS(re.String()))
			return
		}
		d.val(v.Elem())
	case reflect.Struct:
		if t.Name() == "Position" {
			if d.withPos {
				d.emit(fmt.Sprintf("@%d:%d", v.Field(0).Int(), v.Field(1).Int()))
			}
			return
		}
		d.emit("(" + t.Name())
		for i := 0; i < v.NumField(); i++ {
			if t.Field(i).PkgPath != "" { // unexported
				continue
			}
			d.val(v.Field(i))
		}
		d.b.WriteString(")")
	case reflect.Slice:
		if v.IsNil() {
			d.emit("nil")
			return
		}
		fallthrough
	case reflect.Array:
		d.emit("[")
		for i := 0; i < v.Len(); i++ {
			d.val(v.Index(i))
		}
		d.emit("]")
	case reflect.Map:
		keys := v.MapKeys()
		sort.Slice(keys, func(i, j int) bool { return fmt.Sprint(keys[i]) < fmt.Sprint(keys[j]) })
		d.emit("{")
		for _, k := range keys {
			d.val(k)
			d.val(v.MapIndex(k))
		}
		d.emit("}")
	case reflect.String:
		d.emit("s:" + HxS(v.String()))
	case reflect.Int, reflect.Int8, reflect.Int16, reflect.Int32, reflect.Int64:
		if t.Name() != "Opcode" && t.Implements(stringerType) && v.CanInterface() {
			d.emit("#" + strings.ReplaceAll(v.Interface().(fmt.Stringer).String(), " ", "_"))
			return
		}
		d.emit(fmt.Sprint(v.Int()))
	case reflect.Uint, reflect.Uint8, reflect.Uint16, reflect.Uint32, reflect.Uint64:
		d.emit(fmt.Sprint(v.Uint()))
	case reflect.Float64, reflect.Float32:
		d.emit(fmt.Sprintf("f:%016x", math.Float64bits(v.Float())))
	case reflect.Bool:
		d.emit(fmt.Sprint(v.Bool()))
	default:
		d.emit("?" + t.String())
	}
}

// DumpTree is the S-expression of the resolved syntax tree (ast.Program), positions optional.
func DumpTree(p *parser.Program, withPos bool) string {
	d := &dumper{withPos: withPos}
	d.val(reflect.ValueOf(p.ResolvedProgram.Program))
	return d.b.String()
}

// DumpCode is the compiled program: opcode arrays as decimals, constant tables.
func DumpCode(p *parser.Program) string {
	d := &dumper{}
	d.val(reflect.ValueOf(p.Compiled))
	return d.b.String()
}
