// Command vh is the correspondence / oracle harness. It calls the real GoAWK code in-process (built against
// /repo's working tree with -tags verif), drives the Lean model through the line-protocol driver, and writes a
// result JSON that ./check turns into evidence and VIOLATION / KNOWN-FINDING lines.
package vh

import (
	"encoding/json"
	"flag"
	"fmt"
	"os"
	"sort"
	"strings"
	"sync"
	"time"
)

// Main is the entry point of every per-property harness binary (harness/cNN/main.go):
//
//	vh_cNN [--tier quick|thorough] [--seed N] [--out file] [--drv path|none] [--replay file] [--widen]
func Main(id string, f func(c *Ctx)) {
	fs := flag.NewFlagSet("vh", flag.ExitOnError)
	tier := fs.String("tier", "quick", "")
	seed := fs.Int64("seed", 1, "")
	out := fs.String("out", "", "")
	drv := fs.String("drv", "/verif/lean/.lake/build/bin/drv_"+strings.ToLower(id), "")
	replay := fs.String("replay", "", "")
	widen := fs.Bool("widen", false, "")
	fs.Parse(os.Args[1:])
	c := newCtx(id, *tier, *seed, *drv)
	c.Widen = *widen
	c.ReplayFile = *replay
	start := time.Now()
	var once sync.Once
	OnTimeout = func(desc map[string]interface{}) {
		once.Do(func() {
			c.Fail(Failure{Kind: "oracle", What: "execution does not terminate (run cut off by the harness watchdog)", Case: desc})
			c.res.WallS = time.Since(start).Seconds()
			c.res.Notes = append(c.res.Notes, "aborted early after a non-terminating run")
			c.finish()
			b, _ := json.MarshalIndent(c.res, "", " ")
			if *out != "" {
				os.WriteFile(*out, b, 0o644)
			} else {
				os.Stdout.Write(b)
			}
			os.Exit(0)
		})
	}
	func() {
		defer func() {
			if r := recover(); r != nil {
				// a panic of the harness itself (not of code under test, which property code recovers)
				c.HarnessError = fmt.Sprint("harness panic: ", r)
			}
		}()
		f(c)
	}()
	c.closeLean()
	c.res.WallS = time.Since(start).Seconds()
	c.finish()
	b, _ := json.MarshalIndent(c.res, "", " ")
	if *out != "" {
		os.WriteFile(*out, b, 0o644)
	} else {
		os.Stdout.Write(b)
	}
	if c.HarnessError != "" {
		fmt.Fprintln(os.Stderr, c.HarnessError)
		os.Exit(3)
	}
}

func SortedKeys(m map[string]int) []string {
	ks := make([]string, 0, len(m))
	for k := range m {
		ks = append(ks, k)
	}
	sort.Strings(ks)
	return ks
}
