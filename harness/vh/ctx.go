package vh

import (
	"bufio"
	"crypto/sha256"
	"encoding/hex"
	"fmt"
	"io"
	"math/rand"
	"os"
	"os/exec"
	"strings"
)

// Failure is one case on which something did not hold.
//
//	Kind "oracle"         — the property itself fails on the real code (implementation-side oracle; no model in the loop)
//	Kind "correspondence" — the Lean model and the real code disagree
//
// Finding is the id of the known-finding class whose predicate (implemented in the property's Go file) accepts
// this case, or "" when no class accepts it.
type Failure struct {
	Kind    string      `json:"kind"`
	What    string      `json:"what"`
	Finding string      `json:"finding,omitempty"`
	Case    interface{} `json:"case"`
	Got     string      `json:"got,omitempty"`
	Want    string      `json:"want,omitempty"`
}

type Result struct {
	Property     string         `json:"property"`
	Tier         string         `json:"tier"`
	Seed         int64          `json:"seed"`
	Evaluations  int            `json:"evaluations"`
	Distinct     int            `json:"distinct_nontrivial"`
	Rule         string         `json:"rule"`
	Samples      []interface{}  `json:"samples"`
	Traces       int            `json:"traces_validated_against_impl"`
	OracleCases  int            `json:"oracle_cases"`
	Distribution map[string]int `json:"distribution"`
	Failures     []Failure      `json:"failures"`
	FailureCount map[string]int `json:"failure_count"`
	Notes        []string       `json:"notes,omitempty"`
	Exhaustive   bool           `json:"exhaustive,omitempty"`
	WallS        float64        `json:"wall_s"`
}

type Ctx struct {
	ID           string
	Tier         string
	Seed         int64
	Rng          *rand.Rand
	Widen        bool
	ReplayFile   string
	HarnessError string
	res          Result
	distinct     map[[8]byte]struct{}
	drvPath      string
	cmd          *exec.Cmd
	in           *bufio.Writer
	inCloser     io.Closer
	outR         *bufio.Reader
}

func newCtx(id, tier string, seed int64, drv string) *Ctx {
	c := &Ctx{ID: id, Tier: tier, Seed: seed, drvPath: drv}
	c.Rng = rand.New(rand.NewSource(seed*1000003 + int64(len(id))*7919 + int64(id[len(id)-1])))
	c.res = Result{Property: id, Tier: tier, Seed: seed, Distribution: map[string]int{}, FailureCount: map[string]int{}}
	c.distinct = map[[8]byte]struct{}{}
	return c
}

func (c *Ctx) Thorough() bool { return c.Tier == "thorough" || c.Widen }

// N picks a budget by tier.
func (c *Ctx) N(quick, thorough int) int {
	if c.Thorough() {
		return thorough
	}
	return quick
}

func (c *Ctx) Rule(s string)          { c.res.Rule = s }
func (c *Ctx) Note(s string)          { c.res.Notes = append(c.res.Notes, s) }
func (c *Ctx) Hit(key string)         { c.res.Distribution[key]++ }
func (c *Ctx) HitN(key string, n int) { c.res.Distribution[key] += n }

// Eval counts one explored case; key is its canonical form, nontrivial says whether it is non-trivial by the property's rule.
func (c *Ctx) Eval(key string, nontrivial bool) {
	c.res.Evaluations++
	if nontrivial {
		h := sha256.Sum256([]byte(key))
		var k [8]byte
		copy(k[:], h[:8])
		c.distinct[k] = struct{}{}
	}
}
func (c *Ctx) Trace()      { c.res.Traces++ }
func (c *Ctx) OracleCase() { c.res.OracleCases++ }
func (c *Ctx) Sample(x interface{}) {
	if len(c.res.Samples) < 6 {
		c.res.Samples = append(c.res.Samples, x)
	}
}

func (c *Ctx) Fail(f Failure) {
	key := f.Kind + ":" + f.Finding
	c.res.FailureCount[key]++
	// keep at most 5 cases per (kind, finding) class, smallest first is the caller's business
	n := 0
	for _, g := range c.res.Failures {
		if g.Kind == f.Kind && g.Finding == f.Finding {
			n++
		}
	}
	if n < 5 {
		c.res.Failures = append(c.res.Failures, f)
	}
}

func (c *Ctx) finish() {
	c.res.Distinct = len(c.distinct)
	if c.res.Samples == nil {
		c.res.Samples = []interface{}{}
	}
	if c.res.Failures == nil {
		c.res.Failures = []Failure{}
	}
}

// ---- Lean driver -------------------------------------------------------------------------------

// HasLean reports whether the Lean driver is available (it is not when the model no longer compiles against the
// regenerated facts; the implementation-side oracle still runs then).
func (c *Ctx) HasLean() bool { return c.drvPath != "none" }

func (c *Ctx) startLean() {
	if c.cmd != nil {
		return
	}
	cmd := exec.Command(c.drvPath)
	w, err := cmd.StdinPipe()
	if err != nil {
		panic(err)
	}
	r, err := cmd.StdoutPipe()
	if err != nil {
		panic(err)
	}
	cmd.Stderr = os.Stderr
	if err := cmd.Start(); err != nil {
		panic(fmt.Sprint("cannot start Lean driver ", c.drvPath, ": ", err))
	}
	c.cmd = cmd
	c.in = bufio.NewWriterSize(w, 1<<20)
	c.inCloser = w
	c.outR = bufio.NewReaderSize(r, 1<<20)
}

// LeanBatch sends the request lines (without the property prefix) and returns one answer per line.
func (c *Ctx) LeanBatch(reqs []string) []string {
	c.startLean()
	out := make([]string, 0, len(reqs))
	// write in a goroutine so that a full pipe cannot deadlock
	done := make(chan struct{})
	go func() {
		for _, r := range reqs {
			c.in.WriteString(r)
			c.in.WriteByte('\n')
		}
		c.in.Flush()
		close(done)
	}()
	for range reqs {
		line, err := c.outR.ReadString('\n')
		if err != nil {
			panic(fmt.Sprint("Lean driver died after ", len(out), " answers: ", err))
		}
		out = append(out, strings.TrimRight(line, "\n"))
	}
	<-done
	return out
}

func (c *Ctx) Lean(req string) string { return c.LeanBatch([]string{req})[0] }

func (c *Ctx) closeLean() {
	if c.cmd == nil {
		return
	}
	c.inCloser.Close()
	c.cmd.Wait()
	c.cmd = nil
}

// ---- helpers -------------------------------------------------------------------------------------

func Hx(b []byte) string {
	if len(b) == 0 {
		return "-"
	}
	return hex.EncodeToString(b)
}
func HxS(s string) string { return Hx([]byte(s)) }
func Unhx(s string) []byte {
	if s == "-" {
		return nil
	}
	b, err := hex.DecodeString(s)
	if err != nil {
		panic("bad hex from driver: " + s)
	}
	return b
}
