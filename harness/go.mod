module verifharness

go 1.21

require github.com/benhoyt/goawk v0.0.0

replace github.com/benhoyt/goawk => /repo
