package main

// C03 — parsing is total; errors carry a position inside the source; every token position is the true line/column of
// the token's first byte.
//
// Implementation-side oracle (oracle.go): independent offset->(line,col) map vs every lexer.Scan/ScanRegex position, with the
// token's first byte determined independently; ParseProgram under recover; *ParseError positions exist in the source; the goawk
// binary on rejected programs exits 1 without "panic:".
// Correspondence: the Lean lexer model (GoawkModel.C03.lex) token/position/value stream on the same source and the same
// ScanRegex decisions, plus the model's ghost offset against the independently determined first byte.

import (
	"bytes"
	"encoding/json"
	"fmt"
	"os"
	"path/filepath"
	"regexp"
	"sort"
	"strconv"
	"strings"

	"github.com/benhoyt/goawk/lexer"

	"verifharness/vh"
)

type c03Case struct {
	Src    string `json:"src_hex"`
	Policy int    `json:"regex_policy"`
	Rand   uint64 `json:"regex_rand_bits"`
	Origin string `json:"origin"`
	Text   string `json:"src_quoted,omitempty"`
}

type c03Job struct {
	src    []byte
	policy int
	rand   uint64
	origin string
}

func (j c03Job) toCase() c03Case {
	q := ""
	if len(j.src) <= 200 {
		q = strconv.Quote(string(j.src))
	}
	return c03Case{vh.Hx(j.src), j.policy, j.rand, j.origin, q}
}

const c03MaxSrc = 32 * 1024

// ---- program corpus from the repository ------------------------------------------------------------------------------

var c03StrRe = regexp.MustCompile("`[^`]*`|\"(?:[^\"\\\\\n]|\\\\.)*\"")

func c03LoadPrograms(c *vh.Ctx) (files [][]byte, strs [][]byte) {
	repo := c03Repo()
	seen := map[string]bool{}
	add := func(dst *[][]byte, b []byte) {
		if len(b) < 2 || len(b) > c03MaxSrc || seen[string(b)] {
			return
		}
		seen[string(b)] = true
		*dst = append(*dst, append([]byte(nil), b...))
	}
	var paths []string
	filepath.Walk(filepath.Join(repo, "testdata"), func(p string, info os.FileInfo, err error) error {
		if err != nil || info.IsDir() {
			return nil
		}
		base := filepath.Base(p)
		if strings.HasSuffix(base, ".awk") || strings.HasPrefix(base, "p.") || strings.HasPrefix(base, "t.") {
			paths = append(paths, p)
		}
		return nil
	})
	sort.Strings(paths)
	for _, p := range paths {
		if b, err := os.ReadFile(p); err == nil {
			add(&files, b)
		}
	}
	for _, rel := range []string{"interp/interp_test.go", "parser/parser_test.go", "lexer/lexer_test.go", "goawk_test.go", "interp/example_test.go"} {
		b, err := os.ReadFile(filepath.Join(repo, rel))
		if err != nil {
			continue
		}
		for _, m := range c03StrRe.FindAll(b, -1) {
			var s string
			if m[0] == '`' {
				s = string(m[1 : len(m)-1])
			} else if u, err := strconv.Unquote(string(m)); err == nil {
				s = u
			} else {
				continue
			}
			add(&strs, []byte(s))
		}
	}
	return
}

// ---- generators ------------------------------------------------------------------------------------------------------

var c03Pieces = []string{"x", "foo", "e", "E", "e5", "_a1", "1", "12", "1e", "1e+", "1e-", "1E", "1E+", "1.e", "1.e+", "1.5e", ".5e", ".5e-", "1e5", "1e+5", "1.5e3", "2.", ".5", ".", "..", "1.2.3",
	" ", "  ", "\t", "\r", "\n", "\r\n", "\\\n", "\\\r\n", "\\", "\\\r", "\\ ", "\r\r\n",
	"+", "++", "+=", "-", "--", "-=", "*", "**", "**=", "*=", "/", "/=", "%", "%=", "^", "^=", "=", "==", "!=", "!", "!~", "~", "<", "<=", ">", ">=", ">>", "&&", "&", "||", "|", "?", ":", ",", ";",
	"(", ")", "[", "]", "{", "}", "$", "@",
	"\"str\"", "\"a\\\"b\"", "\"\\x41\\101\\u00e9\\n\"", "\"\\", "\"a\\\nb\"", "\"a\nb\"", "\"unterminated", "'sq'", "'a\\'b'", "\"\\xZ\"", "\"\\u\"", "\"\\ud800\"", "\"\\7777\"", "\"\\u0000041\"",
	"/re/", "/a\\/b/", "/[/]/", "/=x/", "/a\nb/", "/unterminated", "/\\", "/ x /",
	"# comment\n", "# c", "#\r\n", "#\x00\n",
	"BEGIN", "END", "print", "printf", "getline", "in", "if", "else", "while", "for", "do", "function", "return", "next", "nextfile", "exit", "delete", "break", "continue",
	"length", "substr", "split", "sub", "gsub", "match", "sprintf", "index", "tolower", "toupper", "sin", "cos", "atan2", "exp", "log", "sqrt", "int", "rand", "srand", "system", "close", "fflush",
	"é", "日本", "\x00", "\xff", "\x80", "\xc3", "`", "\x7f", "\x01", "\x0b", "\x0c"}

var c03MutBytes = []byte("\n\r\\\"'/#0eE+-.1 \t&|*=<>!(){}[]$@~^%;,:?a_\x00\x80\xff\xc3`")

var c03ExpForms = []string{"1e", "1e+", "1e-", "1E", "1E-", "1.e", "1.e+", "1.5e", ".5e", ".5e+", "12e", "1e5", "1e+5", "1ee", "1e+e", "1e++", "1e+-", "1.", "1..", "0x1e", "1e1e"}
var c03ExpTails = []string{"", "\n", "\r\n", "\r", "\r\r\n", " \n", "x\n", "+\n", "\\\n", "\\\r\n", "\x00", ";\n", "\ny = }", "\n\n1e\n", "\r=="}
var c03ExpHeads = []string{"", " ", "x = ", "BEGIN { x = ", "\n", "\r\n\t", "a\\\n", "é = ", "\"s\" ", "/re/ ~ "}

func c03Gen(c *vh.Ctx, files, strs [][]byte) []c03Job {
	var jobs []c03Job
	r := c.Rng
	pol := func() (int, uint64) {
		switch r.Intn(10) {
		case 0:
			return polNever, 0
		case 1, 2:
			return polAlways, 0
		case 3, 4:
			return polRand, r.Uint64()
		}
		return polHeur, 0
	}
	add := func(src []byte, origin string) {
		if len(src) > c03MaxSrc {
			src = src[:c03MaxSrc]
		}
		p, rb := pol()
		jobs = append(jobs, c03Job{append([]byte(nil), src...), p, rb, origin})
	}
	addAllPol := func(src []byte, origin string) {
		for _, p := range []int{polNever, polAlways, polHeur} {
			jobs = append(jobs, c03Job{append([]byte(nil), src...), p, 0, origin})
		}
	}

	// 1. fixed corpus: witnesses of repaired findings, minimized past failures, edge shapes
	for _, w := range []string{
		"", "\x00", "\n", "\r", "\r\n", "x", "1e\n", "1e+\n", "1e\r==", "1e\r\n==", "BEGIN { x = 1e\n y = }", "BEGIN { x = 1e+\n y = }", // F05 (fixed)
		"1e", "1e+", "1e-", "1.e", "1e\x00", "1e+\x00", "x=1e+\r\n\r\ny", "1e\\\n2",
		"\"\\", "/\\", "BEGIN { x = \"ab\\", "x = /ab\\", "\"\\\x00", "/\\\x00", "'\\", // G03-1 (fixed): position must be the end of source
		"\"abc", "\"abc\n", "\"a\\\nb\"", "/abc", "/ab\nc/", "/=/", "a /= /=/", "x /=b/ y",
		".", "..", ".e", "1.2.3", "&", "& &", "&&", "`", "\xff", "é", "\"é\"", "x\x00y", "\"a\x00b\"", "#\x00x", "# c\x00\nx",
		"\\", "\\\r", "\\\r\n", "\\\rx", "\\\n", "a\\\nb", "a \\\r\n b", "\r\r\rx", "x\r", "x\r\r", "\rx\r\ny\r",
		"\"\\x\"", "\"\\xg\"", "\"\\u\"", "\"\\ud800\"", "\"\\u110000\"", "\"\\uffffffff\"", "\"\\u00000041\"", "\"\\777\"", "\"\\08\"", "\"\\x4142\"",
		"BEGIN {", "BEGIN { print 1", "function f(", "{ print $", "x ? y", "a[1", "if (x", "x = = 1", "getline <", "print > ", "@", "$", "**=", "^^", "1 +\n2", "BEGIN{print 1e}",
		"function f(a) { a[1]; a = 1 }", "BEGIN { f() }", "function f(){} function f(){}", "BEGIN { x[1]; x = 2 }", "BEGIN { next }", "END { nextfile }", "BEGIN { break }", "{ return }",
		"BEGIN { print (1,2) }", "BEGIN { x = (1,2) }", "BEGIN { sub(/a/, \"b\", 1) }", "BEGIN { 1 = 2 }", "BEGIN { ++1 }", "BEGIN { getline 1 }",
	} {
		addAllPol([]byte(w), "corpus")
	}

	// 1b. errors behind multi-byte characters, tabs and invalid bytes on the same line (the command line tool shows the line and
	// a caret: the caret's place is counted in characters and tab stops, the error's column in bytes — seeded C03-q2)
	for _, k := range []int{1, 2, 3, 7, 20, 45} {
		for _, unit := range []string{"é", "世", "\U0001F600", "\xff", "\t", "a\t世"} {
			pre := strings.Repeat(unit, k)
			for _, shape := range []string{"BEGIN { s = \"%s\"; x = }", "# %s\nBEGIN { s = \"%s\" ; if }", "BEGIN { s = \"%s\" ) }\n{ ok }", "\t{ x = \"%s\" ++ }", "BEGIN { y = 1 } # %s\nEND { z = /%s/ ] }"} {
				addAllPol([]byte(strings.ReplaceAll(shape, "%s", pre)), "corpus")
			}
		}
	}

	// 1c. regex literals in every position the parser compiles them (bare pattern, expression, operand of ~, argument of the
	// regex builtins, dynamic-regex string constants): well-formed, syntactically invalid, and invalid UTF-8 with and without a
	// metacharacter in the body — each must be accepted or answered with a positioned error, never a panic (seeded C03-s2:
	// a "plain literal needs no trial compile" shortcut let /caf\xe9/ through to MustCompile)
	for _, body := range []string{"abc", "a.c", "caf\xe9", "ab\xc3", "\xff", "\x80x", "a\xffb+", "(\xe9", "[\xff]", "caf\xc3\xa9", "\xf0\x9f", "(", "[", "a{2,1}", "a**", "\\", "a\\/b", "x{1001}", "\xed\xa0\x80", "a|\xfe"} {
		for _, shape := range []string{"/%s/", "/%s/ { print }", "BEGIN { x = /%s/ }", "$1 ~ /%s/", "{ if ($0 !~ /%s/) next }", "BEGIN { n = split(s, a, /%s/) }", "{ sub(/%s/, \"r\") }", "{ gsub(/%s/, \"r\", $2) }",
			"BEGIN { print match(s, /%s/) }", "BEGIN { x = s ~ \"%s\" }", "/%s/, /%s/", "!/%s/", "BEGIN { x = 1 }\n\n  /%s/ { y }", "function f(a) { return a ~ /%s/ }"} {
			addAllPol([]byte(strings.ReplaceAll(shape, "%s", body)), "corpus")
		}
	}

	// 2. 1e-forms at every distance from a line end
	for _, h := range c03ExpHeads {
		for _, f := range c03ExpForms {
			for _, t := range c03ExpTails {
				add([]byte(h+f+t), "expform")
			}
		}
	}
	// distances: pad with k blanks / k digits between the form and the line end
	for k := 0; k < c.N(6, 40); k++ {
		for _, f := range []string{"1e", "1e+", "1.e", "1E-"} {
			add([]byte(strings.Repeat(" ", k)+f+"\n"+strings.Repeat("x ", k)+"= }"), "expform")
			add([]byte(strings.Repeat("9", k)+f+"\r\n"+f), "expform")
			add([]byte("x\n"+strings.Repeat("\t", k)+f), "expform")
		}
	}

	// 3. token soups
	nSoup := c.N(8000, 150000)
	for i := 0; i < nSoup; i++ {
		n := 1 + r.Intn(14)
		var b bytes.Buffer
		for k := 0; k < n; k++ {
			b.WriteString(c03Pieces[r.Intn(len(c03Pieces))])
		}
		add(b.Bytes(), "soup")
	}
	// 3b. CR / LF / continuation mixtures around a few tokens
	nl := []string{"\n", "\r\n", "\r", "\\\n", "\\\r\n", " ", "\t", "\r\r", "#c\n", "#c\r\n"}
	tk := []string{"x", "1", "1e", "+", "++", "\"s\"", "/r/", "==", "BEGIN", "é", ".5e+"}
	nMix := c.N(3000, 40000)
	for i := 0; i < nMix; i++ {
		var b bytes.Buffer
		for k := 1 + r.Intn(10); k > 0; k-- {
			if r.Intn(2) == 0 {
				b.WriteString(nl[r.Intn(len(nl))])
			} else {
				b.WriteString(tk[r.Intn(len(tk))])
			}
		}
		add(b.Bytes(), "crlfmix")
	}

	// 4. random bytes (weighted towards structure bytes), NULs and multi-byte sequences
	nRand := c.N(2500, 40000)
	for i := 0; i < nRand; i++ {
		n := 1 + r.Intn(24)
		b := make([]byte, n)
		for k := range b {
			switch r.Intn(4) {
			case 0:
				b[k] = byte(r.Intn(256))
			default:
				b[k] = c03MutBytes[r.Intn(len(c03MutBytes))]
			}
		}
		add(b, "randbytes")
	}

	// 5. repository programs: themselves, prefixes, single-byte mutations
	progs := append(append([][]byte{}, files...), strs...)
	for _, p := range progs {
		add(p, "program")
	}
	if len(progs) > 0 {
		// every prefix and a sweep of single-byte mutations for a seed-chosen subset of short programs
		nFull := c.N(12, 150)
		for k := 0; k < nFull; k++ {
			p := progs[r.Intn(len(progs))]
			if len(p) > c.N(160, 600) {
				p = p[:c.N(160, 600)]
			}
			for i := 0; i <= len(p); i++ {
				add(p[:i], "prefix")
			}
			for i := 0; i < len(p); i++ {
				m := append([]byte(nil), p...)
				m[i] = c03MutBytes[r.Intn(len(c03MutBytes))]
				add(m, "mutation")
			}
		}
		nMut := c.N(5000, 120000)
		for k := 0; k < nMut; k++ {
			p := progs[r.Intn(len(progs))]
			if len(p) > 4096 && r.Intn(8) != 0 {
				o := r.Intn(len(p) - 2048)
				p = p[o : o+2048]
			}
			switch r.Intn(5) {
			case 0:
				add(p[:r.Intn(len(p)+1)], "prefix")
			case 1: // replace
				m := append([]byte(nil), p...)
				m[r.Intn(len(m))] = c03MutBytes[r.Intn(len(c03MutBytes))]
				add(m, "mutation")
			case 2: // insert
				i := r.Intn(len(p) + 1)
				m := append(append(append([]byte(nil), p[:i]...), c03MutBytes[r.Intn(len(c03MutBytes))]), p[i:]...)
				add(m, "mutation")
			case 3: // delete
				i := r.Intn(len(p))
				m := append(append([]byte(nil), p[:i]...), p[i+1:]...)
				add(m, "mutation")
			case 4: // insert a piece
				i := r.Intn(len(p) + 1)
				m := append(append(append([]byte(nil), p[:i]...), c03Pieces[r.Intn(len(c03Pieces))]...), p[i:]...)
				add(m, "mutation")
			}
		}
		// 6. large sources (up to 32 KiB): concatenated programs, LF -> CRLF rewrites
		nBig := c.N(6, 150)
		for k := 0; k < nBig; k++ {
			var b bytes.Buffer
			for b.Len() < 2000+r.Intn(c03MaxSrc-2000) {
				b.Write(progs[r.Intn(len(progs))])
				b.WriteString(nl[r.Intn(len(nl))])
			}
			s := b.Bytes()
			if r.Intn(2) == 0 {
				s = bytes.ReplaceAll(s, []byte("\n"), []byte("\r\n"))
			}
			add(s, "big")
		}
	}
	return jobs
}

// ---- run -------------------------------------------------------------------------------------------------------------

func main() { vh.Main("C03", runC03) }

func c03Replay(c *vh.Ctx) []c03Job {
	b, err := os.ReadFile(c.ReplayFile)
	if err != nil {
		panic(err)
	}
	var f struct {
		Failure struct {
			Case c03Case `json:"case"`
		} `json:"failure"`
		Case *c03Case `json:"case"`
	}
	if err := json.Unmarshal(b, &f); err != nil {
		panic(err)
	}
	cs := f.Failure.Case
	if f.Case != nil {
		cs = *f.Case
	}
	return []c03Job{{vh.Unhx(cs.Src), cs.Policy, cs.Rand, "replay"}}
}

func runC03(c *vh.Ctx) {
	c.Rule("a case is (source bytes, ScanRegex decisions). Sources: fixed corpus; number forms with a dangling exponent at every distance " +
		"from LF/CRLF/CR/continuation/NUL/end; token soups over all operator/keyword/literal shapes incl. malformed strings, regexes, escapes, " +
		"NUL and non-UTF-8 bytes; CR/LF/continuation mixtures; weighted random bytes; every program under testdata and every string literal of the " +
		"Go test tables, their prefixes and single-byte replace/insert/delete mutations; concatenations up to 32 KiB with LF->CRLF rewrites; " +
		"grammar-directed (ParseProgram totality): every statement/expression kind substituted into every slot of every other kind (slot types ignored: valid " +
		"nestings and wrong-kind substitutions) with fresh identifiers, in 12 program contexts, truncated after every token, plus random deeper nestings; " +
		"call graphs of 2-6 functions (chains of depth 2-8, diamonds, self/mutual recursion, random graphs) forwarding arrays/scalars typed at the far end / caller / both / inconsistently / nowhere, in varied item orders. " +
		"non-trivial = the lexer produced at least two tokens before EOF/ILLEGAL, or the parser rejected the source")
	var jobs []c03Job
	if c.ReplayFile != "" {
		jobs = c03Replay(c)
	} else {
		files, strs := c03LoadPrograms(c)
		c.Note(fmt.Sprintf("repository programs: %d files under testdata, %d string literals from the Go test tables (%s)", len(files), len(strs), c03Repo()))
		if len(files) < 100 || len(strs) < 500 {
			c.Note("WARNING: fewer repository programs than expected")
		}
		jobs = c03Gen(c, files, strs)
		// grammar-directed stream for the totality oracle; a sample of it also goes through the lexer oracle, the model and the binary
		for _, src := range c03Grammar(c) {
			jobs = append(jobs, c03Job{src, polHeur, 0, "grammar"})
		}
		// multi-function call graphs (type inference across calls) for the totality oracle
		for _, src := range c03CallGraphs(c) {
			jobs = append(jobs, c03Job{src, polHeur, 0, "callgraph"})
		}
	}

	type outT struct {
		run      c03LexRun
		offs     []int
		lexFail  string
		parse    c03ParseRes
		parseBad string
	}
	outs := make([]outT, len(jobs))
	vh.Parallel(len(jobs), func(i int) {
		j := jobs[i]
		o := &outs[i]
		o.run = c03GoLex(j.src, j.policy, j.rand)
		if o.run.Panic == "" && !o.run.NonTerm {
			o.offs, o.lexFail = c03CheckStream(j.src, o.run.Toks)
		}
		o.parse = c03Parse(j.src)
		o.parseBad = c03CheckParseAll(j.src, o.parse)
	})

	// ---- implementation-side oracle
	seen := map[string]bool{}
	var rejected []int
	for i, j := range jobs {
		o := &outs[i]
		key := string(j.src) + "|" + o.run.Bits
		nt := len(o.run.Toks) >= 3 || o.parse.Err != ""
		c.Eval(key, nt)
		c.OracleCase()
		c.Hit("origin:" + j.origin)
		c.Hit("len:" + c03Bucket(len(j.src)))
		c.HitN("tokens", len(o.run.Toks))
		for _, t := range o.run.Toks {
			switch t.Tok {
			case lexer.REGEX:
				c.Hit("tok:REGEX")
			case lexer.STRING:
				c.Hit("tok:STRING")
			case lexer.NUMBER:
				c.Hit("tok:NUMBER")
			case lexer.ILLEGAL:
				c.Hit("illegal:" + t.Val)
			case lexer.EOF:
				c.Hit("tok:EOF")
			}
		}
		if c03HasUnread(j.src, o.run.Toks, o.offs) {
			c.Hit("feature:exponent-unread")
		}
		if bytes.IndexByte(j.src, '\r') >= 0 {
			c.Hit("feature:CR")
		}
		if bytes.Contains(j.src, []byte("\\\n")) || bytes.Contains(j.src, []byte("\\\r\n")) {
			c.Hit("feature:continuation")
		}
		if bytes.IndexByte(j.src, 0) >= 0 {
			c.Hit("feature:NUL")
		}
		switch {
		case o.parse.Panic != "":
			c.Hit("parse:panic")
		case o.parse.Err == "":
			c.Hit("parse:ok")
		case o.parse.IsParse:
			c.Hit("parse:error")
			c.Hit("parse-error-at:" + c03Where(j.src, o.parse))
		default:
			c.Hit("parse:other-error")
		}
		if i%7919 == 0 {
			c.Sample(map[string]interface{}{"case": j.toCase(), "tokens": c03Canon(o.run.Toks), "parse": o.parse.Err})
		}
		if o.run.Panic != "" {
			c.Fail(vh.Failure{Kind: "oracle", What: "lexer panicked: " + o.run.Panic, Case: j.toCase()})
		} else if o.run.NonTerm {
			c.Fail(vh.Failure{Kind: "oracle", What: "lexer did not reach EOF/ILLEGAL within 2*len+8 tokens", Case: j.toCase()})
		} else if o.lexFail != "" {
			c.Fail(vh.Failure{Kind: "oracle", What: "token position is not the line/column of the token's first byte: " + o.lexFail, Case: j.toCase(), Got: c03Canon(o.run.Toks)})
		}
		if o.parseBad != "" {
			c.Fail(vh.Failure{Kind: "oracle", What: o.parseBad, Case: j.toCase(), Got: o.parse.Err})
		}
		if o.parse.Err != "" && !seen[string(j.src)] {
			seen[string(j.src)] = true
			rejected = append(rejected, i)
		}
	}

	// ---- the goawk binary on rejected programs
	if c.ReplayFile != "" || len(rejected) > 0 {
		bin := c03BuildBin()
		defer bin.cleanup()
		if bin.err != "" {
			c.Fail(vh.Failure{Kind: "oracle", What: "cannot build the goawk binary: " + bin.err, Case: c03Case{}})
		} else {
			// corpus + expform cases always, the rest sampled
			nCLI := c.N(250, 5000)
			var pick []int
			var rest []int
			for _, i := range rejected {
				if jobs[i].origin == "corpus" || jobs[i].origin == "replay" {
					pick = append(pick, i)
				} else {
					rest = append(rest, i)
				}
			}
			c.Rng.Shuffle(len(rest), func(a, b int) { rest[a], rest[b] = rest[b], rest[a] })
			if len(rest) > nCLI {
				rest = rest[:nCLI]
			}
			pick = append(pick, rest...)
			type cliT struct {
				skip   bool
				status int
				stderr string
			}
			res := make([]cliT, len(pick))
			vh.Parallel(len(pick), func(k int) {
				src := jobs[pick[k]].src
				// run the binary only when the text it will parse (newline appended) is rejected too — nothing is ever executed
				if pr := c03Parse(c03CLISource(src)); pr.Err == "" || pr.Panic != "" {
					res[k].skip = pr.Panic == ""
					if pr.Panic != "" {
						res[k].status, res[k].stderr = 2, "ParseProgram panics in-process on the CLI's text: "+pr.Panic
					}
					return
				}
				res[k].status, res[k].stderr = bin.run(k, src)
			})
			for k, i := range pick {
				if res[k].skip {
					continue
				}
				c.OracleCase()
				c.Hit("cli:status=" + strconv.Itoa(res[k].status))
				if res[k].status != 1 || strings.Contains(res[k].stderr, "panic:") || strings.Contains(res[k].stderr, "goroutine ") {
					c.Fail(vh.Failure{Kind: "oracle", What: fmt.Sprintf("goawk binary on a rejected program: exit status %d (want 1) / panic in stderr", res[k].status),
						Case: jobs[i].toCase(), Got: c03Trunc(res[k].stderr, 600)})
				} else if bad, got, want := c03CheckShownLine(c03CLISource(jobs[i].src), c03Parse(c03CLISource(jobs[i].src)), res[k].stderr); bad != "" {
					c.Hit("cli:shown-line-checked")
					c.Fail(vh.Failure{Kind: "oracle", What: bad, Case: jobs[i].toCase(), Got: got, Want: want})
				} else {
					c.Hit("cli:shown-line-checked")
				}
			}
		}
	}

	// ---- correspondence with the Lean model
	if c.HasLean() {
		maxLean := c.N(3000, 6000)
		var reqs []string
		var idx []int
		for i, j := range jobs {
			o := &outs[i]
			if len(j.src) > maxLean || o.run.Panic != "" || o.run.NonTerm {
				continue
			}
			reqs = append(reqs, "lex "+o.run.Bits+" "+vh.Hx(j.src))
			idx = append(idx, i)
		}
		ans := c.LeanBatch(reqs)
		for k, a := range ans {
			i := idx[k]
			o := &outs[i]
			c.Trace()
			want, offs, ok := c03ParseLean(a)
			got := c03Canon(o.run.Toks)
			if !ok || want != got {
				c.Fail(vh.Failure{Kind: "correspondence", What: "Lean lexer model and lexer.Scan/ScanRegex differ (line:col:token:value stream)",
					Case: jobs[i].toCase(), Got: got, Want: a})
				continue
			}
			if o.lexFail == "" {
				for t := range o.run.Toks {
					if o.offs[t] >= 0 && offs[t] != o.offs[t] {
						c.Fail(vh.Failure{Kind: "correspondence", What: fmt.Sprintf("model's ghost offset of token %d is %d, the independently determined first byte is %d", t, offs[t], o.offs[t]),
							Case: jobs[i].toCase(), Got: got, Want: a})
						break
					}
				}
			}
		}
		// the model's trueLineCol against the Go offset map
		var preq []string
		type pq struct {
			src []byte
			off int
		}
		var pqs []pq
		for n := 0; n < c.N(1500, 20000) && len(jobs) > 0; n++ {
			j := jobs[c.Rng.Intn(len(jobs))]
			if len(j.src) > 400 {
				continue
			}
			off := c.Rng.Intn(len(j.src) + 1)
			preq = append(preq, fmt.Sprintf("pos %s %d", vh.Hx(j.src), off))
			pqs = append(pqs, pq{j.src, off})
		}
		for k, a := range c.LeanBatch(preq) {
			ls, cs := c03LineCols(pqs[k].src)
			c.Trace()
			if w := fmt.Sprintf("%d:%d", ls[pqs[k].off], cs[pqs[k].off]); a != w {
				c.Fail(vh.Failure{Kind: "correspondence", What: "Lean trueLineCol and the harness offset map differ",
					Case: c03Case{Src: vh.Hx(pqs[k].src), Origin: fmt.Sprintf("offset %d", pqs[k].off)}, Got: w, Want: a})
			}
		}
	}
}

func c03Canon(toks []c03Tok) string {
	parts := make([]string, len(toks))
	for i, t := range toks {
		parts[i] = t.canon()
	}
	return strings.Join(parts, " ")
}

// c03ParseLean splits the driver's answer `ok (<line>:<col>:<tok>:<off>:<val>)*` into the canonical stream and the ghost offsets.
func c03ParseLean(a string) (string, []int, bool) {
	f := strings.Fields(a)
	if len(f) == 0 || f[0] != "ok" {
		return "", nil, false
	}
	var parts []string
	var offs []int
	for _, w := range f[1:] {
		p := strings.Split(w, ":")
		if len(p) != 5 {
			return "", nil, false
		}
		o, err := strconv.Atoi(p[3])
		if err != nil {
			return "", nil, false
		}
		offs = append(offs, o)
		parts = append(parts, p[0]+":"+p[1]+":"+p[2]+":"+p[4])
	}
	return strings.Join(parts, " "), offs, true
}

func c03Bucket(n int) string {
	switch {
	case n == 0:
		return "0"
	case n <= 8:
		return "1-8"
	case n <= 32:
		return "9-32"
	case n <= 256:
		return "33-256"
	case n <= 4096:
		return "257-4096"
	}
	return "4097-32768"
}

// c03HasUnread: a NUMBER token immediately followed (no gap) by a NAME starting with e/E, or by + / - after an e — the lexer backed up.
func c03HasUnread(src []byte, toks []c03Tok, offs []int) bool {
	for k := 0; k+1 < len(toks) && k+1 < len(offs); k++ {
		if toks[k].Tok == lexer.NUMBER && offs[k] >= 0 && offs[k+1] == offs[k]+len(toks[k].Val) && toks[k+1].Tok == lexer.NAME &&
			(strings.HasPrefix(toks[k+1].Val, "e") || strings.HasPrefix(toks[k+1].Val, "E")) {
			return true
		}
	}
	return false
}

func c03Where(src []byte, p c03ParseRes) string {
	ls, cs := c03LineCols(src)
	n := len(src)
	switch {
	case p.Line == ls[n] && p.Col == cs[n]:
		return "end-of-source"
	case p.Line == 1 && p.Col == 1:
		return "1:1"
	}
	return "inside"
}

func c03Trunc(s string, n int) string {
	if len(s) > n {
		return s[:n] + "…"
	}
	return s
}
