package main

// C03 call-graph stream for the totality oracle (ParseProgram under recover: a program or a *ParseError with a position inside
// the source, never a panic). The resolver infers scalar/array types of parameters and globals across user-function calls by
// iterating to a fixed point; the compiler then trusts the result. This stream builds programs of 2–6 functions:
//   * systematic: chains of depth 2–8, diamonds, self and mutual recursion; a value (array or scalar) forwarded through them and
//     typed only at the far end / only at the caller / at both / inconsistently / nowhere / only by length(); the forwarded
//     parameter in first, middle or last position next to unused parameters; fewer arguments than parameters; functions in
//     definition order, reversed, rotated, BEGIN first / last / in the middle;
//   * random call graphs (any function may call any other or itself) with random parameter counts, argument sources (own
//     parameters, globals, array elements, constants, nested calls), typing uses and item orders.

import (
	"fmt"
	"math/rand"
	"regexp"
	"sort"
	"strings"
	"sync"

	"verifharness/vh"
)

var c03ArrayUses = []string{"%s[1] = 1", "%s[1]", "if (1 in %s) print", "delete %s", "delete %s[1]", "split(\"a b\", %s)", "for (k9 in %s) print k9", "print length(%s), %s[2]", "%s[1]++", "getline %s[1]"}
var c03ScalarUses = []string{"%s = 1", "print %s", "%s++", "x9 = %s + 1", "if (%s) print", "$1 = %s", "%s = %s \"s\"", "getline %s", "sub(/a/, \"b\", %s)", "return %s"}
var c03NeutralUses = []string{"print length(%s)", "", "print 1"}

var c03QuotedRe = regexp.MustCompile(`"[^"]*"`)

func c03Use(tpl, name string) string {
	return strings.ReplaceAll(tpl, "%s", name)
}

// c03Orders returns item orders for the systematic programs: items are the function definitions plus the BEGIN block (last index).
func c03Orders(n int) [][]int {
	id := make([]int, n)
	for i := range id {
		id[i] = i
	}
	rev := make([]int, n)
	for i := range rev {
		rev[i] = n - 1 - i
	}
	beginFirst := append([]int{n - 1}, id[:n-1]...)
	beginFirstRev := append([]int{n - 1}, rev[1:]...)
	rot := append(append([]int{}, id[n/2:]...), id[:n/2]...)
	inter := make([]int, 0, n) // outside-in
	for a, b := 0, n-1; a <= b; a, b = a+1, b-1 {
		inter = append(inter, a)
		if a != b {
			inter = append(inter, b)
		}
	}
	return [][]int{id, rev, beginFirst, beginFirstRev, rot, inter}
}

func c03Assemble(items []string, order []int) string {
	out := make([]string, len(order))
	for i, k := range order {
		out[i] = items[k]
	}
	return strings.Join(out, "\n")
}

// c03SystematicGraphs enumerates the structured programs.
func c03SystematicGraphs() (progs []string, descs []string) {
	add := func(items []string, desc string) {
		for oi, o := range c03Orders(len(items)) {
			progs = append(progs, c03Assemble(items, o))
			descs = append(descs, fmt.Sprintf("%s, item order %d", desc, oi))
		}
	}
	type mode struct {
		name         string
		caller, leaf string // "array" | "scalar" | "length" | ""
	}
	modes := []mode{
		{"typed at the far end only (array)", "", "array"}, {"typed at the far end only (scalar)", "", "scalar"},
		{"typed at the caller only (array)", "array", ""}, {"typed at the caller only (scalar)", "scalar", ""},
		{"typed at both ends (array)", "array", "array"}, {"typed at both ends (scalar)", "scalar", "scalar"},
		{"typed inconsistently (array at caller, scalar at far end)", "array", "scalar"}, {"typed inconsistently (scalar at caller, array at far end)", "scalar", "array"},
		{"typed nowhere", "", ""}, {"far end uses only length()", "array", "length"}, {"far end uses only length(), caller untyped", "", "length"},
	}
	// parameter layouts of the forwarding functions: (parameter list, name of the forwarded one, extra args in calls)
	type layout struct {
		name   string
		params func(p string) string
		call   func(arg string) string
	}
	layouts := []layout{
		{"single parameter", func(p string) string { return p }, func(a string) string { return a }},
		{"forwarded parameter last, first unused", func(p string) string { return "u_" + p + ", " + p }, func(a string) string { return "0, " + a }},
		{"forwarded parameter first, fewer args than params", func(p string) string { return p + ", l_" + p + ", m_" + p }, func(a string) string { return a }},
		{"forwarded parameter in the middle", func(p string) string { return "u_" + p + ", " + p + ", w_" + p }, func(a string) string { return "\"s\", " + a + ", 2" }},
	}
	callerUse := func(kind string, g string, after bool) (pre, post string) {
		u := ""
		switch kind {
		case "array":
			u = g + "[1] = 1"
		case "scalar":
			u = g + " = 1"
		}
		if after {
			return "", u
		}
		return u, ""
	}
	leafUse := func(kind, p string, variant int) string {
		switch kind {
		case "array":
			return c03Use(c03ArrayUses[variant%len(c03ArrayUses)], p)
		case "scalar":
			return c03Use(c03ScalarUses[variant%len(c03ScalarUses)], p)
		case "length":
			return "print length(" + p + ")"
		}
		return ""
	}
	variant := 0
	for _, m := range modes {
		for li, lay := range layouts {
			for _, after := range []bool{false, true} {
				// chains f1 -> f2 -> ... -> fd
				for d := 2; d <= 8; d++ {
					variant++
					var items []string
					for i := 1; i <= d; i++ {
						p := fmt.Sprintf("p%d", i)
						body := leafUse(m.leaf, p, variant)
						if i < d {
							body = fmt.Sprintf("f%d(%s)", i+1, lay.call(p))
						}
						items = append(items, fmt.Sprintf("function f%d(%s) { %s }", i, lay.params(p), body))
					}
					pre, post := callerUse(m.caller, "g", after)
					items = append(items, fmt.Sprintf("BEGIN { %s; f1(%s); %s }", pre, lay.call("g"), post))
					add(items, fmt.Sprintf("chain of depth %d, %s, %s, caller use after call=%v", d, m.name, lay.name, after))
				}
				if li > 1 {
					continue
				}
				// diamond: top -> left, right -> bottom
				variant++
				pre, post := callerUse(m.caller, "g", after)
				add([]string{
					fmt.Sprintf("function top(%s) { left(%s); right(%s) }", lay.params("a"), lay.call("a"), lay.call("a")),
					fmt.Sprintf("function left(%s) { bottom(%s) }", lay.params("b"), lay.call("b")),
					fmt.Sprintf("function right(%s) { bottom(%s) }", lay.params("c"), lay.call("c")),
					fmt.Sprintf("function bottom(%s) { %s }", lay.params("d"), leafUse(m.leaf, "d", variant)),
					fmt.Sprintf("BEGIN { %s; top(%s); %s }", pre, lay.call("g"), post),
				}, "diamond, "+m.name+", "+lay.name)
				// diamond whose two sides disagree with each other is covered by the inconsistent modes; one side types, the other forwards:
				add([]string{
					fmt.Sprintf("function top(%s) { left(%s); right(%s) }", lay.params("a"), lay.call("a"), lay.call("a")),
					fmt.Sprintf("function left(%s) { %s }", lay.params("b"), leafUse(m.leaf, "b", variant+1)),
					fmt.Sprintf("function right(%s) { deep(%s) }", lay.params("c"), lay.call("c")),
					fmt.Sprintf("function deep(%s) { deeper(%s) }", lay.params("d"), lay.call("d")),
					fmt.Sprintf("function deeper(%s) { }", lay.params("e")),
					fmt.Sprintf("BEGIN { %s; top(%s); %s }", pre, lay.call("g"), post),
				}, "lopsided diamond, "+m.name+", "+lay.name)
				// self recursion and mutual recursion with a forwarding tail
				add([]string{
					fmt.Sprintf("function rec(%s) { if (n0 < 3) rec(%s); tail(%s) }", lay.params("a"), lay.call("a"), lay.call("a")),
					fmt.Sprintf("function tail(%s) { tail2(%s) }", lay.params("b"), lay.call("b")),
					fmt.Sprintf("function tail2(%s) { %s }", lay.params("c"), leafUse(m.leaf, "c", variant)),
					fmt.Sprintf("BEGIN { %s; rec(%s); %s }", pre, lay.call("g"), post),
				}, "self recursion with tail, "+m.name+", "+lay.name)
				add([]string{
					fmt.Sprintf("function ping(%s) { if (n0++ < 3) pong(%s) }", lay.params("a"), lay.call("a")),
					fmt.Sprintf("function pong(%s) { ping(%s); sink(%s) }", lay.params("b"), lay.call("b"), lay.call("b")),
					fmt.Sprintf("function sink(%s) { sink2(%s) }", lay.params("c"), lay.call("c")),
					fmt.Sprintf("function sink2(%s) { %s }", lay.params("d"), leafUse(m.leaf, "d", variant)),
					fmt.Sprintf("BEGIN { %s; ping(%s); %s }", pre, lay.call("g"), post),
				}, "mutual recursion with sink, "+m.name+", "+lay.name)
				// two callers of one chain: one passes the typed global, the other an untyped one / a local
				add([]string{
					fmt.Sprintf("function c1(%s) { mid(%s) }", lay.params("a"), lay.call("a")),
					fmt.Sprintf("function c2(%s, loc) { mid(%s); mid(%s) }", lay.params("b"), lay.call("b"), lay.call("loc")),
					fmt.Sprintf("function mid(%s) { end(%s) }", lay.params("c"), lay.call("c")),
					fmt.Sprintf("function end(%s) { %s }", lay.params("d"), leafUse(m.leaf, "d", variant)),
					fmt.Sprintf("BEGIN { %s; c1(%s); c2(%s); %s }", pre, lay.call("g"), lay.call("h"), post),
				}, "two callers, "+m.name+", "+lay.name)
			}
		}
	}
	return
}

// c03RandomGraph builds one random multi-function program.
func c03RandomGraph(r *rand.Rand) string {
	n := 2 + r.Intn(5)
	np := make([]int, n)
	for i := range np {
		np[i] = r.Intn(4)
	}
	globals := []string{"g0", "g1", "g2"}
	pname := func(f, k int) string { return fmt.Sprintf("p%d_%d", f, k) }
	var valueRec func(f, depth int) string
	valueRec = func(f, depth int) string {
		switch k := r.Intn(10); {
		case k < 5 && f >= 0 && np[f] > 0:
			return pname(f, r.Intn(np[f]))
		case k < 7:
			return globals[r.Intn(len(globals))]
		case k == 7:
			if f >= 0 && np[f] > 0 && r.Intn(2) == 0 {
				return pname(f, r.Intn(np[f])) + "[1]"
			}
			return globals[r.Intn(len(globals))] + "[\"k\"]"
		case k == 8 && depth > 0:
			t := r.Intn(n)
			var as []string
			for a := r.Intn(np[t] + 1); a > 0; a-- {
				as = append(as, valueRec(f, depth-1))
			}
			return fmt.Sprintf("f%d(%s)", t, strings.Join(as, ", "))
		}
		return []string{"1", "\"s\"", "$1", "NF"}[r.Intn(4)]
	}
	call := func(f int) string {
		t := r.Intn(n)
		if r.Intn(6) == 0 {
			t = f // self recursion
			if t < 0 {
				t = 0
			}
		}
		na := np[t]
		switch r.Intn(8) {
		case 0:
			if na > 0 {
				na = r.Intn(na) // fewer args than params
			}
		case 1:
			if r.Intn(4) == 0 {
				na++ // too many: must be a parse error
			}
		}
		var as []string
		for a := 0; a < na; a++ {
			as = append(as, valueRec(f, 1))
		}
		c := fmt.Sprintf("f%d(%s)", t, strings.Join(as, ", "))
		switch r.Intn(6) {
		case 0:
			return "x = " + c
		case 1:
			return "print " + c
		case 2:
			return "if (" + c + ") print"
		}
		return c
	}
	use := func(f int) string {
		name := globals[r.Intn(len(globals))]
		if f >= 0 && np[f] > 0 && r.Intn(4) != 0 {
			name = pname(f, r.Intn(np[f]))
		}
		switch r.Intn(7) {
		case 0, 1, 2:
			return c03Use(c03ArrayUses[r.Intn(len(c03ArrayUses))], name)
		case 3, 4:
			t := c03ScalarUses[r.Intn(len(c03ScalarUses))]
			if f < 0 && strings.HasPrefix(t, "return") {
				t = "print %s"
			}
			return c03Use(t, name)
		}
		return c03Use(c03NeutralUses[r.Intn(len(c03NeutralUses))], name)
	}
	body := func(f int) string {
		var st []string
		for k := r.Intn(4); k > 0; k-- {
			if r.Intn(5) < 3 {
				st = append(st, call(f))
			} else {
				st = append(st, use(f))
			}
		}
		return strings.Join(st, "; ")
	}
	var items []string
	for f := 0; f < n; f++ {
		var ps []string
		for k := 0; k < np[f]; k++ {
			ps = append(ps, pname(f, k))
		}
		items = append(items, fmt.Sprintf("function f%d(%s) { %s }", f, strings.Join(ps, ", "), body(f)))
	}
	var mainSt []string
	for k := 1 + r.Intn(4); k > 0; k-- {
		if r.Intn(3) == 0 {
			mainSt = append(mainSt, use(-1))
		} else {
			mainSt = append(mainSt, call(-1))
		}
	}
	items = append(items, "BEGIN { "+strings.Join(mainSt, "; ")+" }")
	if r.Intn(4) == 0 {
		items = append(items, "{ "+use(-1)+"; "+call(-1)+" }")
	}
	r.Shuffle(len(items), func(a, b int) { items[a], items[b] = items[b], items[a] })
	return strings.Join(items, "\n")
}

// c03CallGraphs runs the stream and returns a small sample of its sources for the other oracles.
func c03CallGraphs(c *vh.Ctx) (sample [][]byte) {
	progs, descs := c03SystematicGraphs()
	nRand := c.N(60000, 1500000)
	seedBase := c.Rng.Int63()
	total := len(progs) + nRand
	var mu sync.Mutex
	var fails []c03GramFail
	nOK, nErr := 0, 0
	errMsgs := map[string]int{}
	const chunk = 2048
	vh.Parallel((total+chunk-1)/chunk, func(ci int) {
		var local []c03GramFail
		ok, er := 0, 0
		msgs := map[string]int{}
		var keys []string
		var smp [][]byte
		for i := ci * chunk; i < total && i < (ci+1)*chunk; i++ {
			var src, desc string
			if i < len(progs) {
				src, desc = progs[i], descs[i]
			} else {
				src, desc = c03RandomGraph(rand.New(rand.NewSource(seedBase+int64(i)))), "random call graph"
			}
			keys = append(keys, src)
			r := c03Parse([]byte(src))
			if bad := c03CheckParseAll([]byte(src), r); bad != "" {
				local = append(local, c03GramFail{src, bad, desc})
				continue
			}
			if r.Err == "" {
				ok++
			} else {
				er++
				msgs[c03QuotedRe.ReplaceAllString(r.Msg, "\"_\"")]++
			}
			if i%997 == 0 {
				smp = append(smp, []byte(src))
			}
		}
		mu.Lock()
		for _, k := range keys {
			c.Eval(k, true)
			c.OracleCase()
		}
		fails = append(fails, local...)
		nOK += ok
		nErr += er
		for k, v := range msgs {
			errMsgs[k] += v
		}
		sample = append(sample, smp...)
		mu.Unlock()
	})
	c.HitN("callgraph:systematic", len(progs))
	c.HitN("callgraph:random", nRand)
	c.HitN("callgraph:parse:ok", nOK)
	c.HitN("callgraph:parse:error", nErr)
	for k, v := range errMsgs {
		c.HitN("callgraph:error:"+k, v)
	}
	c.Note(fmt.Sprintf("call-graph stream: %d systematic programs (chains of depth 2-8, diamonds, self/mutual recursion, two callers; 11 typing modes x 4 parameter layouts x 6 item orders) and %d random call graphs of 2-6 functions; %d accepted, %d rejected with a *ParseError inside the source",
		len(progs), nRand, nOK, nErr))
	sort.Slice(fails, func(a, b int) bool {
		if len(fails[a].src) != len(fails[b].src) {
			return len(fails[a].src) < len(fails[b].src)
		}
		return fails[a].src < fails[b].src
	})
	seen := map[string]bool{}
	for _, f := range fails {
		if seen[f.src] {
			continue
		}
		seen[f.src] = true
		c.Fail(vh.Failure{Kind: "oracle", What: f.what, Case: c03Job{[]byte(f.src), polHeur, 0, "callgraph: " + f.desc}.toCase()})
	}
	return sample
}
