package main

// C03 grammar-directed stream for the totality oracle (ParseProgram under recover: a program or a *ParseError whose
// position lies inside the source, never a panic).
//
// Every statement kind and every expression kind of the AWK grammar is a template with slots. The stream enumerates the
// full matrix  (parent template, slot, child template)  IGNORING slot types — so it contains both the valid nestings
// (every kind in every child position: subscripts, arguments, assignment / getline / sub targets, redirect targets, delete
// subscripts, for-in variables, conditions, headers) and the wrong-kind substitutions (a statement where an expression is
// expected, a print in a for header, a multi-expression as an lvalue, …) — in every program context (BEGIN, action, pattern,
// range pattern, END, inside a loop, function body with fresh globals, function body over its parameters).
// All other slots are filled with FRESH identifiers (each name occurs exactly once in its scope), which is what exposes
// passes that forget to visit a child. Then: truncation after every token, and random deeper nestings.

import (
	"fmt"
	"math/rand"
	"sort"
	"strings"
	"sync"

	"verifharness/vh"
)

// slot markers:  §e expression  §l lvalue  §v scalar variable  §a array name  §s statement  §S simple statement  §c condition
type c03Tpl struct {
	name string
	text string
	stmt bool
}

var c03ExprTpls = []c03Tpl{
	{"num", "1", false}, {"num-exp", "1e3", false}, {"num-frac", ".5", false}, {"num-dangling-e", "1e", false},
	{"str", "\"s\"", false}, {"str-escapes", "\"a\\tb\\\"c\\x41\\101\"", false}, {"regex", "/re/", false}, {"regex-eq", "/=x/", false},
	{"var", "§v", false}, {"special-var", "NF", false}, {"field", "$§e", false}, {"field-const", "$1", false}, {"field-0", "$0", false}, {"field-field", "$$§e", false}, {"field-incr", "$§v++", false},
	{"named-field", "@\"name\"", false}, {"named-field-expr", "@§e", false},
	{"neg", "-§e", false}, {"plus", "+§e", false}, {"not", "!§e", false}, {"neg-neg", "- -§e", false},
	{"add", "§e + §e", false}, {"sub", "§e - §e", false}, {"mul", "§e * §e", false}, {"div", "§e / §e", false}, {"mod", "§e % §e", false},
	{"pow", "§e ^ §e", false}, {"pow2", "§e ** §e", false}, {"concat", "§e §e", false},
	{"lt", "§e < §e", false}, {"le", "§e <= §e", false}, {"gt", "(§e > §e)", false}, {"gt-bare", "§e > §e", false}, {"ge", "§e >= §e", false}, {"eq", "§e == §e", false}, {"ne", "§e != §e", false},
	{"match", "§e ~ §e", false}, {"match-regex", "§e ~ /re/", false}, {"not-match", "§e !~ §e", false}, {"and", "§e && §e", false}, {"or", "§e || §e", false}, {"and-newline", "§e &&\n§e", false},
	{"in", "§e in §a", false}, {"in-multi", "(§e, §e) in §a", false}, {"in-chain", "§e in §a in §a", false}, {"not-in", "!(§e in §a)", false},
	{"cond", "§e ? §e : §e", false}, {"cond-nested", "§e ? §e : §e ? §e : §e", false},
	{"index", "§a[§e]", false}, {"index-multi", "§a[§e, §e]", false}, {"index-index", "§a[§a[§e]]", false},
	{"assign", "§l = §e", false}, {"assign-chain", "§l = §l = §e", false}, {"assign-index", "§a[§e] = §e", false}, {"assign-field", "$§e = §e", false},
	{"add-assign", "§l += §e", false}, {"sub-assign", "§l -= §e", false}, {"mul-assign", "§l *= §e", false}, {"div-assign", "§l /= §e", false},
	{"mod-assign", "§l %= §e", false}, {"pow-assign", "§l ^= §e", false}, {"pow2-assign", "§l **= §e", false},
	{"post-incr", "§l++", false}, {"post-decr", "§l--", false}, {"pre-incr", "++§l", false}, {"pre-decr", "--§l", false}, {"incr-index", "§a[§e]++", false}, {"incr-field", "++$§e", false},
	{"group", "(§e)", false}, {"multi", "(§e, §e)", false}, {"multi3", "(§e, §e, §e)", false},
	{"getline", "getline", false}, {"getline-lvalue", "getline §l", false}, {"getline-file", "getline < §e", false}, {"getline-lvalue-file", "getline §l < §e", false},
	{"getline-index", "getline §a[§e]", false}, {"getline-field", "getline $§e", false}, {"cmd-getline", "§e | getline", false}, {"cmd-getline-lvalue", "§e | getline §l", false},
	{"cmd-getline-chain", "§e | getline | getline §l", false}, {"getline-group", "(getline §l) > 0", false},
	{"length", "length", false}, {"length-call", "length()", false}, {"length-expr", "length(§e)", false}, {"length-array", "length(§a)", false},
	{"substr2", "substr(§e, §e)", false}, {"substr3", "substr(§e, §e, §e)", false}, {"index-fn", "index(§e, §e)", false}, {"atan2", "atan2(§e, §e)", false},
	{"split2", "split(§e, §a)", false}, {"split3", "split(§e, §a, §e)", false}, {"split-regex", "split(§e, §a, /re/)", false},
	{"sub2", "sub(§e, §e)", false}, {"sub3", "sub(§e, §e, §l)", false}, {"sub-regex", "sub(/re/, §e, §a[§e])", false}, {"gsub2", "gsub(§e, §e)", false}, {"gsub3", "gsub(§e, §e, $§e)", false},
	{"match-fn", "match(§e, §e)", false}, {"match-fn-regex", "match(§e, /re/)", false}, {"sprintf1", "sprintf(§e)", false}, {"sprintf3", "sprintf(§e, §e, §e)", false},
	{"sin", "sin(§e)", false}, {"cos", "cos(§e)", false}, {"exp", "exp(§e)", false}, {"log", "log(§e)", false}, {"sqrt", "sqrt(§e)", false}, {"int", "int(§e)", false},
	{"tolower", "tolower(§e)", false}, {"toupper", "toupper(§e)", false}, {"system", "system(§e)", false}, {"close", "close(§e)", false},
	{"rand", "rand()", false}, {"srand0", "srand()", false}, {"srand1", "srand(§e)", false}, {"fflush0", "fflush()", false}, {"fflush1", "fflush(§e)", false},
	{"call0", "fn()", false}, {"call1", "fn(§e)", false}, {"call2", "fn(§e, §a)", false}, {"call-space", "fn (§e)", false}, {"call-undefined", "undef(§e)", false}, {"call-nested", "fn(fn(§e), §a)", false},
}

var c03StmtTpls = []c03Tpl{
	{"expr-stmt", "§e", true}, {"empty", ";", true}, {"block", "{ §s; §s }", true}, {"block-empty", "{ }", true}, {"block-newlines", "{\n§s\n§s\n}", true},
	{"print", "print", true}, {"print1", "print §e", true}, {"print2", "print §e, §e", true}, {"print-paren", "print(§e, §e)", true}, {"print-paren-more", "print (§e, §e) §e", true},
	{"print-gt", "print §e > §e", true}, {"print-append", "print §e >> §e", true}, {"print-pipe", "print §e | §e", true}, {"print-paren-gt", "print(§e, §e) > §e", true}, {"print-cond-gt", "print §e ? §e : §e > §e", true},
	{"printf1", "printf §e", true}, {"printf2", "printf §e, §e", true}, {"printf-paren", "printf(§e, §e)", true}, {"printf-gt", "printf §e, §e > §e", true}, {"printf-pipe", "printf(§e) | §e", true},
	{"if", "if (§c) §s", true}, {"if-else", "if (§c) §s; else §s", true}, {"if-else-block", "if (§c) { §s } else { §s }", true}, {"if-else-if", "if (§c) §s; else if (§c) §s; else §s", true}, {"if-newline", "if (§c)\n§s\nelse\n§s", true},
	{"for", "for (§S; §c; §S) §s", true}, {"for-empty", "for (;;) §s", true}, {"for-no-body", "for (§S; §c; §S) ;", true}, {"for-header", "for (§S) §s", true}, {"for-header2", "for (§S; §c) §s", true},
	{"for-in", "for (§v in §a) §s", true}, {"for-in-block", "for (§v in §a) { §s; §s }", true}, {"for-in-paren", "for ((§v) in §a) §s", true}, {"for-in-delete", "for (§v in §a) delete §a[§v]", true},
	{"while", "while (§c) §s", true}, {"while-block", "while (§c) { §s }", true}, {"while-semicolon", "while (§c) ;", true},
	{"do-while", "do §s; while (§c)", true}, {"do-while-block", "do { §s } while (§c)", true}, {"do-while-newline", "do\n§s\nwhile (§c)", true},
	{"break", "break", true}, {"continue", "continue", true}, {"next", "next", true}, {"nextfile", "nextfile", true},
	{"exit", "exit", true}, {"exit1", "exit §e", true}, {"return", "return", true}, {"return1", "return §e", true},
	{"delete", "delete §a", true}, {"delete-index", "delete §a[§e]", true}, {"delete-multi", "delete §a[§e, §e]", true}, {"delete-paren", "delete(§a)", true},
	{"getline-stmt", "getline §l < §e", true}, {"cmd-getline-stmt", "§e | getline §l", true}, {"while-getline", "while ((getline §l < §e) > 0) §s", true},
}

// top-level items: their slots (function names / parameter lists / patterns / bodies) also receive every kind
var c03ItemTpls = []c03Tpl{
	{"item-begin", "BEGIN { §s }", true}, {"item-end", "END { §s }", true}, {"item-begin-newline", "BEGIN\n{ §s }", true}, {"item-two", "BEGIN { §s }\nEND { §s }", true},
	{"item-pattern", "§e", true}, {"item-pattern-action", "§e { §s }", true}, {"item-range", "§e, §e { §s }", true}, {"item-action", "{ §s }", true}, {"item-semicolons", "BEGIN { §s };;{ §s }", true},
	{"func-decl", "function h(§v) { §s }", true}, {"func-decl2", "function h(§v, §a) { §a[§v]; return §e }", true}, {"func-no-params", "function h() { §s }\nBEGIN { h() }", true},
	{"func-call-args", "function h(p, q) { return p }\nBEGIN { h(§e, §e) }", true}, {"func-array-param", "function h(p) { p[1] = 1 }\nBEGIN { h(§a); §s }", true},
	{"func-name-slot", "function §v(p) { return p }", true}, {"func-newline-params", "function h(§v,\n§v)\n{ §s }", true}, {"func-recursive", "function h(p) { return h(§e) }\nBEGIN { §s }", true},
	{"func-param-shadow", "function h(§v) { §s }\nBEGIN { §s; h(§e) }", true}, {"func-keyword-func", "func h(§v) { §s }", true},
}

type c03Ctx struct {
	name     string
	pre      string // before the statement
	post     string
	exprOnly bool // the hole is an expression (pattern position)
	params   bool // names come from the enclosing function's parameter list
}

var c03Ctxs = []c03Ctx{
	{"BEGIN", "BEGIN { ", " }", false, false},
	{"action", "{ ", " }", false, false},
	{"END", "END { ", " }", false, false},
	{"pattern-action", "/x/ { ", " }", false, false},
	{"in-loop", "BEGIN { while (c0) { ", " } }", false, false},
	{"function-globals", "function g(p0) { ", " }\nBEGIN { g() }", false, false},
	{"function-params", "", "", false, true},
	{"after-stmt-newline", "BEGIN {\n x0 = 1\n ", "\n y0 = 2\n}", false, false},
	{"pattern", "", " { print }", true, false},
	{"pattern-only", "", "", true, false},
	{"range-pattern", "", ", /y/ { print }", true, false},
	{"range-pattern-2", "/y/, ", "", true, false},
}

const c03FnDef = "\nfunction fn(p, q) { q[1]; return p }"

// c03Names hands out identifiers; fresh ones occur exactly once.
type c03Names struct {
	n      int
	params bool
	vars   []string
	arrs   []string
}

func (g *c03Names) v() string {
	g.n++
	s := fmt.Sprintf("v%d", g.n)
	g.vars = append(g.vars, s)
	return s
}
func (g *c03Names) a() string {
	g.n++
	s := fmt.Sprintf("a%d", g.n)
	g.arrs = append(g.arrs, s)
	return s
}

// c03Fill expands tpl; slot number `focus` (counting from 0) receives focusText, every other slot a fresh default.
// rnd != nil: non-focus slots are filled by random sub-templates down to depth.
func c03Fill(g *c03Names, tpl string, focus int, focusText string, rnd *rand.Rand, depth int) string {
	var b strings.Builder
	slot := 0
	for i := 0; i < len(tpl); {
		if strings.HasPrefix(tpl[i:], "§") && i+len("§") < len(tpl) {
			k := tpl[i+len("§")]
			i += len("§") + 1
			if slot == focus {
				b.WriteString(focusText)
			} else {
				b.WriteString(c03Default(g, k, rnd, depth))
			}
			slot++
			continue
		}
		b.WriteByte(tpl[i])
		i++
	}
	return b.String()
}

func c03Slots(tpl string) int { return strings.Count(tpl, "§") }

func c03Default(g *c03Names, kind byte, rnd *rand.Rand, depth int) string {
	if rnd != nil && depth > 0 {
		switch kind {
		case 'e', 'c':
			if rnd.Intn(3) != 0 {
				t := c03ExprTpls[rnd.Intn(len(c03ExprTpls))]
				s := c03Fill(g, t.text, -1, "", rnd, depth-1)
				if rnd.Intn(3) == 0 {
					return "(" + s + ")"
				}
				return s
			}
		case 's':
			if rnd.Intn(3) != 0 {
				t := c03StmtTpls[rnd.Intn(len(c03StmtTpls))]
				return c03Fill(g, t.text, -1, "", rnd, depth-1)
			}
		case 'l':
			switch rnd.Intn(4) {
			case 0:
				return g.a() + "[" + c03Default(g, 'e', rnd, depth-1) + "]"
			case 1:
				return "$" + c03Default(g, 'e', rnd, depth-1)
			}
		}
		if rnd.Intn(10) == 0 { // any kind anywhere
			all := append(append([]c03Tpl{}, c03ExprTpls...), c03StmtTpls...)
			return c03Fill(g, all[rnd.Intn(len(all))].text, -1, "", rnd, depth-1)
		}
	}
	switch kind {
	case 'a':
		return g.a()
	case 's':
		return "print " + g.v()
	case 'S':
		return g.v() + " = 1"
	case 'c':
		return g.v() + " < 3"
	}
	return g.v() // e, l, v
}

// c03Wrap puts a statement (or expression, for pattern contexts) into a program context.
func c03Wrap(g *c03Names, cx c03Ctx, body string) string {
	var prog string
	if cx.params {
		// every name the body uses becomes a parameter, plus one that is never used
		ps := append(append([]string{}, g.vars...), g.arrs...)
		ps = append(ps, "unused0")
		prog = "function g(" + strings.Join(ps, ", ") + ") { " + body + " }\nBEGIN { g() }"
	} else {
		prog = cx.pre + body + cx.post
	}
	if strings.Contains(prog, "fn(") || strings.Contains(prog, "fn (") {
		prog += c03FnDef
	}
	return prog
}

type c03GramFail struct {
	src  string
	what string
	desc string
}

// c03Grammar runs the stream; returns a sample of its sources (for the lexer oracle, the Lean correspondence and the binary).
func c03Grammar(c *vh.Ctx) (sample [][]byte) {
	all := append(append([]c03Tpl{}, c03ExprTpls...), c03StmtTpls...)
	type slotRef struct{ parent, slot int }
	var slots []slotRef
	for pi, p := range all {
		for s := 0; s < c03Slots(p.text); s++ {
			slots = append(slots, slotRef{pi, s})
		}
	}
	nCtx := len(c03Ctxs)
	total := len(slots) * len(all) * nCtx
	truncEvery := c.N(23, 1) // truncation after every token for every k-th matrix program
	nDeep := c.N(15000, 400000)
	seedBase := c.Rng.Int63()
	sampleEvery := c.N(150, 60)

	var mu sync.Mutex
	var fails []c03GramFail
	nEval, nOK, nErr, nTrunc := 0, 0, 0, 0
	ctxHits := map[string]int{}
	errAt := map[string]int{}
	seenProg := map[string]bool{}

	check := func(src string, desc string, ctx string, local *[]c03GramFail, st *[4]int, errs map[string]int) {
		r := c03Parse([]byte(src))
		st[0]++
		if bad := c03CheckParseAll([]byte(src), r); bad != "" {
			*local = append(*local, c03GramFail{src, bad, desc})
			return
		}
		if r.Err == "" {
			st[1]++
		} else {
			st[2]++
			errs[c03Where([]byte(src), r)]++
		}
	}
	truncs := func(src string) []string {
		run := c03GoLex([]byte(src), polHeur, 0)
		if run.Panic != "" || run.NonTerm {
			return nil
		}
		offs, _ := c03CheckStream([]byte(src), run.Toks)
		var out []string
		for _, o := range offs {
			if o > 0 && o < len(src) {
				out = append(out, src[:o])
			}
		}
		return out
	}

	work := func(lo, hi int, gen func(i int) (string, string, string)) {
		const chunk = 4096
		nChunks := (hi - lo + chunk - 1) / chunk
		vh.Parallel(nChunks, func(ci int) {
			var local []c03GramFail
			var st [4]int
			errs := map[string]int{}
			hits := map[string]int{}
			var smp [][]byte
			var keys []string
			for i := lo + ci*chunk; i < hi && i < lo+(ci+1)*chunk; i++ {
				src, desc, ctx := gen(i)
				hits[ctx]++
				keys = append(keys, src)
				check(src, desc, ctx, &local, &st, errs)
				if i%sampleEvery == 0 {
					smp = append(smp, []byte(src))
				}
				if i%truncEvery == 0 {
					for _, t := range truncs(src) {
						st[3]++
						check(t, desc+" (truncated)", ctx, &local, &st, errs)
						if st[3]%(sampleEvery*10) == 0 {
							smp = append(smp, []byte(t))
						}
					}
				}
			}
			mu.Lock()
			for _, k := range keys {
				c.Eval(k, true)
			}
			for n := 0; n < st[0]; n++ {
				c.OracleCase()
			}
			fails = append(fails, local...)
			nEval += st[0]
			nOK += st[1]
			nErr += st[2]
			nTrunc += st[3]
			for k, v := range errs {
				errAt[k] += v
			}
			for k, v := range hits {
				ctxHits[k] += v
			}
			sample = append(sample, smp...)
			mu.Unlock()
		})
	}

	// 1. the full matrix: (parent, slot) x child x context
	work(0, total, func(i int) (string, string, string) {
		cx := c03Ctxs[i%nCtx]
		j := i / nCtx
		child := all[j%len(all)]
		sr := slots[j/len(all)]
		parent := all[sr.parent]
		g := &c03Names{params: cx.params}
		childText := c03Fill(g, child.text, -1, "", nil, 0)
		body := c03Fill(g, parent.text, sr.slot, childText, nil, 0)
		return c03Wrap(g, cx, body), fmt.Sprintf("%s slot %d <- %s in %s", parent.name, sr.slot, child.name, cx.name), "ctx:" + cx.name
	})
	// 1b. every kind alone in every context (no parent)
	work(0, len(all)*nCtx, func(i int) (string, string, string) {
		cx := c03Ctxs[i%nCtx]
		t := all[i/nCtx]
		g := &c03Names{params: cx.params}
		return c03Wrap(g, cx, c03Fill(g, t.text, -1, "", nil, 0)), t.name + " in " + cx.name, "ctx:" + cx.name
	})
	// 1c. top-level items (function declarations and parameter lists, patterns, bodies): every kind into every slot
	var islots []slotRef
	for pi, p := range c03ItemTpls {
		for sl := 0; sl < c03Slots(p.text); sl++ {
			islots = append(islots, slotRef{pi, sl})
		}
	}
	work(0, len(islots)*len(all), func(i int) (string, string, string) {
		child := all[i%len(all)]
		sr := islots[i/len(all)]
		parent := c03ItemTpls[sr.parent]
		g := &c03Names{}
		childText := c03Fill(g, child.text, -1, "", nil, 0)
		prog := c03Fill(g, parent.text, sr.slot, childText, nil, 0)
		if strings.Contains(prog, "fn(") || strings.Contains(prog, "fn (") {
			prog += c03FnDef
		}
		return prog, fmt.Sprintf("%s slot %d <- %s", parent.name, sr.slot, child.name), "ctx:top-level-item"
	})
	// 2. random deeper nestings (typed fill with occasional any-kind substitution), several statements per body, shared names sometimes
	work(0, nDeep, func(i int) (string, string, string) {
		rnd := rand.New(rand.NewSource(seedBase + int64(i)))
		cx := c03Ctxs[rnd.Intn(nCtx)]
		g := &c03Names{params: cx.params}
		var parts []string
		for k := 1 + rnd.Intn(3); k > 0; k-- {
			var t c03Tpl
			if cx.exprOnly {
				t = c03ExprTpls[rnd.Intn(len(c03ExprTpls))]
			} else {
				t = c03StmtTpls[rnd.Intn(len(c03StmtTpls))]
			}
			parts = append(parts, c03Fill(g, t.text, -1, "", rnd, 1+rnd.Intn(3)))
			if cx.exprOnly {
				break
			}
		}
		body := strings.Join(parts, []string{"; ", "\n", " ;\n "}[rnd.Intn(3)])
		src := c03Wrap(g, cx, body)
		if rnd.Intn(4) == 0 && len(g.vars) > 1 { // make two of the fresh names the same variable
			src = strings.ReplaceAll(src, g.vars[rnd.Intn(len(g.vars))], g.vars[0])
		}
		return src, "random nesting in " + cx.name, "deep:" + cx.name
	})

	// report
	for k, v := range ctxHits {
		c.HitN("grammar:"+k, v)
	}
	for k, v := range errAt {
		c.HitN("grammar:parse-error-at:"+k, v)
	}
	c.HitN("grammar:parse:ok", nOK)
	c.HitN("grammar:parse:error", nErr)
	c.HitN("grammar:truncations", nTrunc)
	c.Note(fmt.Sprintf("grammar stream: %d expression kinds, %d statement kinds, %d slots, %d contexts: %d matrix programs (every kind into every slot, types ignored), %d truncations after a token, %d random nestings; %d accepted, %d rejected with a *ParseError inside the source",
		len(c03ExprTpls), len(c03StmtTpls), len(slots), nCtx, total+len(all)*nCtx, nTrunc, nDeep, nOK, nErr))
	sort.Slice(fails, func(a, b int) bool {
		if len(fails[a].src) != len(fails[b].src) {
			return len(fails[a].src) < len(fails[b].src)
		}
		return fails[a].src < fails[b].src
	})
	for _, f := range fails {
		if seenProg[f.src] {
			continue
		}
		seenProg[f.src] = true
		c.Fail(vh.Failure{Kind: "oracle", What: f.what, Case: c03Job{[]byte(f.src), polHeur, 0, "grammar: " + f.desc}.toCase()})
	}
	_ = nEval
	return sample
}
