package main

// C03 implementation-side oracle: nothing in this file knows the Lean model.
//
//  * c03LineCols: the independent offset -> (line, column) map of the property statement
//    (line = 1 + newlines before the offset, column = 1 + bytes since the last newline, carriage returns not counted).
//  * c03GoLex: drives lexer.NewLexer/Scan/ScanRegex under recover with an iteration cap.
//  * c03CheckStream: every token position must be the line/column of the token's first byte. The first byte is
//    determined independently: the bytes between the end of the previous token and the claimed offset must be only blanks,
//    line continuations and at most one trailing comment, and the token's own text must stand at the claimed offset.
//  * c03CheckParse: ParseProgram never panics, an error is a *ParseError, its position exists in the source (end included).
//  * c03CLI: the goawk binary on rejected programs exits 1, never 2, and prints no "panic:".

import (
	"bytes"
	"context"
	"fmt"
	"os"
	"os/exec"
	"path/filepath"
	"regexp"
	"strings"
	"time"

	"github.com/benhoyt/goawk/lexer"
	"github.com/benhoyt/goawk/parser"
)

type c03Tok struct {
	Line, Col int
	Tok       lexer.Token
	Val       string
}

func (t c03Tok) canon() string {
	return fmt.Sprintf("%d:%d:%d:%s", t.Line, t.Col, int(t.Tok), hx([]byte(t.Val)))
}

func hx(b []byte) string {
	if len(b) == 0 {
		return "-"
	}
	const d = "0123456789abcdef"
	o := make([]byte, 2*len(b))
	for i, x := range b {
		o[2*i] = d[x>>4]
		o[2*i+1] = d[x&15]
	}
	return string(o)
}

// c03LineCols returns line[off], col[off] for off in [0, len(src)].
func c03LineCols(src []byte) (lines, cols []int) {
	lines = make([]int, len(src)+1)
	cols = make([]int, len(src)+1)
	l, c := 1, 1
	for i := 0; i <= len(src); i++ {
		lines[i], cols[i] = l, c
		if i == len(src) {
			break
		}
		switch src[i] {
		case '\n':
			l++
			c = 1
		case '\r':
		default:
			c++
		}
	}
	return
}

// regex-call policies (what a client does after a DIV / DIV_ASSIGN token)
const (
	polNever = iota
	polAlways
	polHeur // as a parser would: a regex where an operand is expected
	polRand
)

func c03OperandEnd(t lexer.Token) bool {
	switch t {
	case lexer.NAME, lexer.NUMBER, lexer.STRING, lexer.REGEX, lexer.RPAREN, lexer.RBRACKET, lexer.INCR, lexer.DECR, lexer.DOLLAR,
		lexer.F_LENGTH, lexer.GETLINE:
		return true
	}
	return false
}

type c03LexRun struct {
	Toks    []c03Tok
	Bits    string
	Panic   string
	NonTerm bool
}

// c03GoLex runs the real lexer. randBits supplies decisions for polRand (cyclic).
func c03GoLex(src []byte, policy int, randBits uint64) (run c03LexRun) {
	defer func() {
		if r := recover(); r != nil {
			run.Panic = fmt.Sprint(r)
		}
	}()
	l := lexer.NewLexer(src)
	prev := lexer.ILLEGAL
	var bits []byte
	limit := 2*len(src) + 8
	for it := 0; ; it++ {
		if it > limit {
			run.NonTerm = true
			return
		}
		p, t, v := l.Scan()
		run.Toks = append(run.Toks, c03Tok{p.Line, p.Column, t, v})
		if t == lexer.EOF || t == lexer.ILLEGAL {
			break
		}
		if t == lexer.DIV || t == lexer.DIV_ASSIGN {
			re := false
			switch policy {
			case polAlways:
				re = true
			case polHeur:
				re = !c03OperandEnd(prev)
			case polRand:
				re = randBits>>(uint(len(bits))%64)&1 == 1
			}
			if re {
				bits = append(bits, '1')
				p, t2, v := l.ScanRegex()
				run.Toks = append(run.Toks, c03Tok{p.Line, p.Column, t2, v})
				if t2 == lexer.ILLEGAL {
					break
				}
				t = t2
			} else {
				bits = append(bits, '0')
			}
		}
		prev = t
	}
	run.Bits = "-"
	if len(bits) > 0 {
		run.Bits = string(bits)
	}
	return
}

// c03GapOK: src[a:b] is what scan() skips before a token: blanks / CR / line continuations, then at most one comment that runs
// up to (not including) b.
func c03GapOK(src []byte, a, b int) bool {
	i := a
	for i < b {
		switch c := src[i]; {
		case c == ' ' || c == '\t' || c == '\r':
			i++
		case c == '\\':
			j := i + 1
			if j < len(src) && src[j] == '\r' {
				j++
			}
			if j < len(src) && src[j] == '\n' {
				i = j + 1
			} else {
				return false
			}
		case c == '#':
			j := i + 1
			for j < len(src) && src[j] != '\n' && src[j] != 0 {
				j++
			}
			return j == b
		default:
			return false
		}
	}
	return i == b
}

// c03TokEnd: offset just past the token that starts at off, or -1 if the token's text does not stand there.
func c03TokEnd(src []byte, off int, t c03Tok) int {
	has := func(s string) int {
		if s != "" && bytes.HasPrefix(src[off:], []byte(s)) {
			return off + len(s)
		}
		return -1
	}
	switch t.Tok {
	case lexer.NAME, lexer.NUMBER:
		return has(t.Val)
	case lexer.NEWLINE:
		return has("\n")
	case lexer.POW:
		if e := has("**"); e >= 0 {
			return e
		}
		return has("^")
	case lexer.POW_ASSIGN:
		if e := has("**="); e >= 0 {
			return e
		}
		return has("^=")
	case lexer.STRING, lexer.REGEX:
		if off >= len(src) {
			return -1
		}
		q := src[off]
		if t.Tok == lexer.STRING && q != '"' && q != '\'' || t.Tok == lexer.REGEX && q != '/' {
			return -1
		}
		i := off + 1
		for i < len(src) && src[i] != q {
			if src[i] == '\\' {
				i++
			}
			i++
		}
		if i >= len(src) {
			return -1
		}
		return i + 1
	default:
		return has(t.Tok.String())
	}
}

// c03CheckStream checks the token stream of one lexer run against the property. It returns the independently determined
// first-byte offset per token (-1 for EOF/ILLEGAL) and "" or a description of the first violation.
func c03CheckStream(src []byte, toks []c03Tok) (offs []int, fail string) {
	lines, cols := c03LineCols(src)
	cands := func(t c03Tok) []int {
		var r []int
		// offsets with this line/column are adjacent (a run of CRs followed by one more byte); scan linearly from a binary-searched line start
		lo, hi := 0, len(src)
		for lo < hi {
			m := (lo + hi) / 2
			if lines[m] < t.Line || lines[m] == t.Line && cols[m] < t.Col {
				lo = m + 1
			} else {
				hi = m
			}
		}
		for i := lo; i <= len(src) && lines[i] == t.Line && cols[i] == t.Col; i++ {
			r = append(r, i)
		}
		return r
	}
	cursor := 0
	prevOff := -1
	offs = make([]int, len(toks))
	for k, t := range toks {
		offs[k] = -1
		cs := cands(t)
		switch t.Tok {
		case lexer.ILLEGAL:
			if len(cs) == 0 {
				return offs, fmt.Sprintf("token %d: ILLEGAL (%q) position %d:%d does not exist in the source", k, t.Val, t.Line, t.Col)
			}
		case lexer.EOF:
			ok := false
			for _, o := range cs {
				if o >= cursor && c03GapOK(src, cursor, o) && (o == len(src) || src[o] == 0) {
					ok = true
				}
			}
			if !ok {
				return offs, fmt.Sprintf("token %d: EOF position %d:%d is not where the input ends (offsets with that position: %v, previous token ended at %d)", k, t.Line, t.Col, cs, cursor)
			}
		default:
			found := -1
			for _, o := range cs {
				start := cursor
				if t.Tok == lexer.REGEX {
					// a regex re-reads the '/' or '/=' token that precedes it
					if k == 0 || o != prevOff {
						continue
					}
					start = o
				}
				if o < start || !c03GapOK(src, start, o) {
					continue
				}
				if e := c03TokEnd(src, o, t); e >= 0 {
					found = o
					cursor = e
					break
				}
			}
			if found < 0 {
				return offs, fmt.Sprintf("token %d: %s %q reported at %d:%d, but no offset with that line/column (%v) is the first byte of such a token following the previous one (which ended at offset %d)",
					k, t.Tok, t.Val, t.Line, t.Col, cs, cursor)
			}
			offs[k] = found
			prevOff = found
		}
	}
	return offs, ""
}

type c03ParseRes struct {
	Panic   string
	Err     string
	IsParse bool
	Line    int
	Col     int
	Msg     string
}

func c03Parse(src []byte) (r c03ParseRes) {
	defer func() {
		if p := recover(); p != nil {
			r.Panic = fmt.Sprint(p)
		}
	}()
	_, err := parser.ParseProgram(src, nil)
	if err != nil {
		r.Err = err.Error()
		if pe, ok := err.(*parser.ParseError); ok {
			r.IsParse = true
			r.Line, r.Col, r.Msg = pe.Position.Line, pe.Position.Column, pe.Message
		}
	}
	return
}

// c03NativeFuncs: Go functions for ParserConfig.Funcs, derived from the source alone (so a replay needs nothing else): the first
// few distinct names the source calls or defines, each given one of several signatures (fixed arity 0-3, variadic, with an
// error result). The library parses `name(...)` calls against these signatures, lets an AWK definition of the same name take
// precedence, and must still answer with a program or a *ParseError whatever the source does with the names.
var c03CallRe = regexp.MustCompile(`[A-Za-z_][A-Za-z0-9_]*\(`)

func c03NativeFuncs(src []byte) (map[string]interface{}, []string) {
	sigs := []interface{}{
		func() int { return 0 },
		func(a int) int { return a },
		func(a string, b float64) string { return a },
		func(a, b, c int) (int, error) { return a, nil },
		func(a ...string) string { return "" },
		func(a int, b ...float64) float64 { return 0 },
	}
	funcs := map[string]interface{}{}
	var names []string
	for _, m := range c03CallRe.FindAll(src, 40) {
		name := string(m[:len(m)-1])
		if _, ok := funcs[name]; ok || len(name) > 24 {
			continue
		}
		h := 0
		for _, ch := range []byte(name) {
			h = h*31 + int(ch)
		}
		funcs[name] = sigs[(h&0x7fffffff)%len(sigs)]
		names = append(names, name)
		if len(names) == 4 {
			break
		}
	}
	return funcs, names
}

func c03ParseFuncs(src []byte, funcs map[string]interface{}) (r c03ParseRes) {
	defer func() {
		if p := recover(); p != nil {
			r.Panic = fmt.Sprint(p)
		}
	}()
	_, err := parser.ParseProgram(src, &parser.ParserConfig{Funcs: funcs})
	if err != nil {
		r.Err = err.Error()
		if pe, ok := err.(*parser.ParseError); ok {
			r.IsParse = true
			r.Line, r.Col, r.Msg = pe.Position.Line, pe.Position.Column, pe.Message
		}
	}
	return
}

// c03CheckParseAll: c03CheckParse of the plain parse and, when the source mentions callable names, of the parse with those
// names supplied as native Go functions (seeded C03-p2).
func c03CheckParseAll(src []byte, r c03ParseRes) string {
	if bad := c03CheckParse(src, r); bad != "" {
		return bad
	}
	funcs, names := c03NativeFuncs(src)
	if len(names) == 0 {
		return ""
	}
	if bad := c03CheckParse(src, c03ParseFuncs(src, funcs)); bad != "" {
		return fmt.Sprintf("with ParserConfig.Funcs naming %v as native functions: %s", names, bad)
	}
	return ""
}

// c03CheckParse: "" or the violation.
func c03CheckParse(src []byte, r c03ParseRes) string {
	if r.Panic != "" {
		return "ParseProgram panicked: " + r.Panic
	}
	if r.Err == "" {
		return ""
	}
	if !r.IsParse {
		return "ParseProgram returned an error that is not a *ParseError: " + r.Err
	}
	lines, cols := c03LineCols(src)
	for i := 0; i <= len(src); i++ {
		if lines[i] == r.Line && cols[i] == r.Col {
			return ""
		}
		if lines[i] > r.Line {
			break
		}
	}
	return fmt.Sprintf("parse error position %d:%d (%s) designates no byte position of the source (end of source is %d:%d)",
		r.Line, r.Col, r.Msg, lines[len(src)], cols[len(src)])
}

// ---- the goawk binary ------------------------------------------------------------------------------------------

type c03Bin struct {
	path string
	dir  string
	err  string
}

func c03Repo() string {
	if r := os.Getenv("VERIF_REPO"); r != "" {
		return r
	}
	return "/repo"
}

func c03BuildBin() *c03Bin {
	dir, err := os.MkdirTemp("", "c03bin")
	if err != nil {
		return &c03Bin{err: err.Error()}
	}
	b := &c03Bin{path: filepath.Join(dir, "goawk"), dir: dir}
	cmd := exec.Command("go", "build", "-o", b.path, ".")
	cmd.Dir = c03Repo()
	cmd.Env = append(os.Environ(), "GOFLAGS=-mod=mod", "GOPROXY=off", "GOSUMDB=off", "GOTOOLCHAIN=local", "CGO_ENABLED=0")
	out, err := cmd.CombinedOutput()
	if err != nil {
		b.err = fmt.Sprintf("go build of %s failed: %v\n%s", c03Repo(), err, out)
	}
	return b
}

func (b *c03Bin) cleanup() {
	if b.dir != "" {
		os.RemoveAll(b.dir)
	}
}

// run executes `goawk -f <file with src>`; returns exit status (-1: timeout / could not run) and stderr.
func (b *c03Bin) run(id int, src []byte) (int, string) {
	st, msg := b.runOnce(id, src, 30*time.Second)
	if st == -1 {
		// a loaded machine can starve the child; the same text was already rejected in-process, so try again patiently
		st, msg = b.runOnce(id, src, 300*time.Second)
	}
	return st, msg
}

func (b *c03Bin) runOnce(id int, src []byte, limit time.Duration) (int, string) {
	f := filepath.Join(b.dir, fmt.Sprintf("p%d.awk", id))
	if err := os.WriteFile(f, src, 0o644); err != nil {
		return -1, err.Error()
	}
	defer os.Remove(f)
	ctx, cancel := context.WithTimeout(context.Background(), limit)
	defer cancel()
	cmd := exec.CommandContext(ctx, b.path, "-f", f)
	cmd.Dir = b.dir
	cmd.Stdin = strings.NewReader("")
	var stderr bytes.Buffer
	cmd.Stderr = &stderr
	cmd.Stdout = nil
	err := cmd.Run()
	if ctx.Err() != nil {
		return -1, "timeout"
	}
	if err == nil {
		return 0, stderr.String()
	}
	if ee, ok := err.(*exec.ExitError); ok {
		return ee.ExitCode(), stderr.String()
	}
	return -1, err.Error()
}

// c03CLISource: the text the command line tool parses for a program file with these bytes.
func c03CLISource(src []byte) []byte {
	if bytes.HasSuffix(src, []byte("\n")) {
		return src
	}
	return append(append([]byte(nil), src...), '\n')
}

// c03CheckShownLine: when the command line tool shows the offending line (the line of the error position exists in the text it
// parsed), the line it shows is that line (tabs widened to four blanks) and the caret stands below the character that contains
// the error's byte column: as many places to the right as the text before that byte takes on the screen (one per character,
// four per tab). Nothing is claimed when no line is shown.
func c03CheckShownLine(cli []byte, pr c03ParseRes, stderr string) (bad, got, want string) {
	if !pr.IsParse {
		return
	}
	lines := bytes.Split(cli, []byte{'\n'})
	if pr.Line < 1 || pr.Line > len(lines) {
		return
	}
	srcLine := string(lines[pr.Line-1])
	out := strings.Split(strings.TrimRight(stderr, "\n"), "\n")
	if len(out) < 3 {
		return
	}
	shown, caret := out[len(out)-2], out[len(out)-1]
	wantShown := strings.ReplaceAll(srcLine, "\t", "    ")
	if strings.Contains(srcLine, "\r") || strings.Contains(srcLine, "\x00") || shown != wantShown {
		// the line contains bytes that do not survive the terminal-oriented output unchanged, or the shown line is not where we
		// expect it (a message that itself spans lines): nothing to compare against
		if shown != wantShown {
			return
		}
	}
	col := pr.Col - 1
	if col < 0 {
		col = 0
	}
	if col > len(srcLine) {
		col = len(srcLine)
	}
	width := 0
	for _, r := range srcLine[:col] {
		if r == '\t' {
			width += 4
		} else {
			width++
		}
	}
	wantCaret := strings.Repeat(" ", width) + "^"
	if caret != wantCaret {
		return "the goawk binary shows the offending line with the caret in the wrong place", fmt.Sprintf("%q", caret), fmt.Sprintf("%q (error at byte column %d of %q)", wantCaret, pr.Col, srcLine)
	}
	return
}
